import ShuttleProofs.C03
import ShuttleProofs.Lemmas.FutureExamples
import ShuttleProofs.Lemmas.FutureLts
import ShuttleProofs.Lemmas.FutureProg
import ShuttleProofs.Lemmas.FutureAsyncExamples

/-!
# C17 — futures: wakers, the poll loops, `JoinHandle`, `abort`

Property C17: "A spawned future is polled until it completes and is polled again after any wake of its waker that
happens during or after its latest poll, whichever task issues the wake; a pending future whose waker is never
invoked is not treated as able to progress, and block_on suspends the calling task while its future is pending and
then returns its output. Awaiting a JoinHandle yields the task's output exactly once, or Cancelled if and only if an
abort took effect before completion, in which case the future is dropped (its destructors run) and performs no
further steps; dropping a JoinHandle detaches the task without cancelling it, and abort is idempotent."

* Part 1 — kernel: `wake`, `sleep_unless_woken`, lost wake-ups, pending tasks, detached leftovers.
* Part 2 — `namespace Lts`: `JoinHandle` / `Wrapper` / `abort` over the pure transitions (most general client).
* Part 3 — the poll loops `Fut.taskLoop` and `Fut.blockOnLoop` run by the kernel, and executions of a concrete
  async program built from the model's wrappers.

Reading of "an abort took effect" (what the code does, `Lts.abort_mid_poll`): the `aborted` flag is read once, at the
start of `Wrapper::poll`; an `abort()` whose `swap` happens while the inner future is being polled does not cancel
that poll — if it returns `Ready` the joiner gets `Ok(output)` although `aborted` is set.  In the cancel path the
destructors of the inner future and the thread-local destructors may reach scheduling points; they do not touch the
`JoinHandle` state, so `Lts.step … .pollBegin` treats the path as one update of that state.

Part 1 (this section): the kernel side — `Task::wake`, `Task::sleep_unless_woken`, `raw_waker_wake`
(`KOp.wake`), and how `run_to_completion` treats `Sleeping` tasks.  Model: `ShuttleModel/Kernel.lean`.
Everything holds for **every** program, **every** scheduler, every `MaxSteps`, seed and fuel.

Vocabulary (`ShuttleProofs/Lemmas/FutureKernel*.lean`):
* `Req` / `req o` — the label of a kernel request; `KStep me r st st'` — one executed request of task `me`;
  `KTrace S me st p l e` — the segment of `me` running `p` from `st` executes the requests `l` (each paired with
  the state it produced) and ends with `e`; `runSegment_ktrace`: every `runSegment` has one.
* `IterEv S segFuel st t l b` — a continuing iteration of the run loop: task `t` was chosen at loop head `st`, its
  segment executed `l`, the next loop head is `b`.  `ReachEv S segFuel st0 evs st` — loop head `st` is reached from
  `st0`, the requests executed on the way being `evs : List (task × Req)`, in execution order.
* `ghostStep i me w r` / `wokenGhost i w evs` — the ghost flag "the waker of task `i` has been invoked since the
  latest `sleep_unless_woken` of task `i`": set by every `wake i` (whoever issues it), cleared by
  `sleepUnlessWoken` issued by `i`.
* `SleepingAt i w ts` — task `i` is `Sleeping` with `woken = w`;  `disturbs i r` — `r` is `wake i`, `unblock i` or
  `blockTask i`.
-/

namespace ShuttleProofs.C17
open ShuttleModel ShuttleProofs.Kernel

variable {P : Program} {σ : Type}

/-! ## `wake` -/

/-- **wake_sets_woken_and_unblocks_sleeper** (`Task::wake`): the flag is set; a `Sleeping` task becomes
`Runnable` (through `unblock`, which also clears `blocked_in_park`); the state of a task that is `Runnable`,
`Blocked` or `Finished` is not changed (only the flag is set). -/
theorem wake_sets_woken_and_unblocks_sleeper (t : Task) :
    (t.state = .sleeping →
      t.wake = .ok { t with woken := true, state := .runnable, blockedInPark := false }) ∧
    (t.state ≠ .sleeping → t.wake = .ok { t with woken := true }) :=
  ⟨Task.wake_sleeping t, Task.wake_not_sleeping t⟩

/-- the same for the kernel request (`raw_waker_wake`), whichever task `me` issues it — `me = t` included: in a
live execution, for an unfinished task `t`, the request never fails and does exactly `Task::wake` on `t`. -/
theorem wake_request (S : Scheduler σ) (me fuel : Nat) (st : ExecState P σ) (t : Nat) (tk : Task)
    (kont : Unit → Prog P.U Unit) (hc : st.k.current ≠ .stopped ∧ st.k.current ≠ .finished)
    (hk : st.k.tasks[t]? = some tk) (hf : tk.state ≠ .finished) :
    runSegment S me (fuel + 1) st (.op (.wake t) kont) =
      runSegment S me fuel { st with k := (st.k.setTask t
        (if tk.state = .sleeping then { tk with woken := true, state := .runnable, blockedInPark := false }
         else { tk with woken := true })) } (kont ()) := by
  rw [runSegment]
  have h1 : (st.k.current == Cur.stopped || st.k.current == Cur.finished) = false := by
    simp [hc.1, hc.2]
  simp only [h1, Bool.false_eq_true, if_false, Kernel.getTask?, hk, Task.finished, beq_iff_eq, hf,
    Kernel.modTask]
  by_cases hs : tk.state = .sleeping
  · rw [Task.wake_sleeping tk hs]; simp only [hs, if_true]
  · rw [Task.wake_not_sleeping tk hs]; simp only [hs, if_false]

example : (({ state := .sleeping } : Task).wake.toOption.map (fun t => (t.state, t.woken))) =
    some (.runnable, true) := by decide
example : (({ state := .blocked false } : Task).wake.toOption.map (fun t => (t.state, t.woken))) =
    some (.blocked false, true) := by decide
example : (({ state := .finished } : Task).wake.toOption.map (fun t => (t.state, t.woken))) =
    some (.finished, true) := by decide

/-- **finished_task_wake_is_noop** (`if waiter.finished() { return }`): the request changes nothing. -/
theorem finished_task_wake_is_noop (S : Scheduler σ) (me fuel : Nat) (st : ExecState P σ) (t : Nat)
    (tk : Task) (kont : Unit → Prog P.U Unit) (hk : st.k.tasks[t]? = some tk) (hf : tk.state = .finished) :
    runSegment S me (fuel + 1) st (.op (.wake t) kont) = runSegment S me fuel st (kont ()) := by
  rw [runSegment]
  split
  · rfl
  · simp [Kernel.getTask?, hk, Task.finished, hf]

/-- **wake_after_execution_end_is_noop** (`if state.is_finished() { return }`): once `current_task` is `Stopped`
or `Finished`, invoking any waker — even one whose task id is unknown — changes nothing. -/
theorem wake_after_execution_end_is_noop (S : Scheduler σ) (me fuel : Nat) (st : ExecState P σ) (t : Nat)
    (kont : Unit → Prog P.U Unit) (hc : st.k.current = .stopped ∨ st.k.current = .finished) :
    runSegment S me (fuel + 1) st (.op (.wake t) kont) = runSegment S me fuel st (kont ()) := by
  rw [runSegment]
  rcases hc with hc | hc <;> simp [hc]

/-- non-vacuity: a wake of a finished task / of a sleeping task after the execution has ended leaves the task
table as it is (the sleeping task stays asleep), while in a live execution the same request wakes it -/
example :
    (runSegment (P := exSelfWake) firstSched 0 5 (exEndedState exSelfWake)
      (.op (.wake 1) fun _ => .op (.wake 0) fun _ => .pure ())).st.k.tasks.map (fun t => (t.state, t.woken)) =
      [(.finished, false), (.sleeping, false)] ∧
    (runSegment (P := exSelfWake) firstSched 0 5
      { exEndedState exSelfWake with k := { (exEndedState exSelfWake).k with current := .some 0 } }
      (.op (.wake 1) fun _ => .op (.wake 0) fun _ => .pure ())).st.k.tasks.map (fun t => (t.state, t.woken)) =
      [(.finished, false), (.runnable, true)] := by decide

/-! ## `sleep_unless_woken` and lost wake-ups -/

/-- `Task::sleep_unless_woken` as a kernel request of an unfinished task: the flag is consumed; the task goes to
sleep iff the flag was down. -/
theorem sleepUnlessWoken_request (S : Scheduler σ) (me fuel : Nat) (st : ExecState P σ) (tk : Task)
    (kont : Unit → Prog P.U Unit) (hk : st.k.tasks[me]? = some tk) (hf : tk.state ≠ .finished) :
    runSegment S me (fuel + 1) st (.op .sleepUnlessWoken kont) =
      runSegment S me fuel { st with k := (st.k.setTask me
        (if tk.woken = true then { tk with woken := false }
         else { tk with woken := false, state := .sleeping })) } (kont ()) := by
  rw [runSegment]
  simp only [Kernel.modTask, Kernel.getTask?, hk]
  cases hw : tk.woken
  · rw [Task.sleepUnlessWoken_not_woken tk hw hf]; simp
  · rw [Task.sleepUnlessWoken_woken tk hw]; simp

/-- **no_lost_wake**, one task: after `wake` (on an unfinished task in any state), `sleep_unless_woken` does not
put the task to sleep — it stays `Runnable` if it was `Runnable` or `Sleeping` — and consumes the flag; the
flag is consumed exactly once: a second `sleep_unless_woken` without a wake in between does sleep. -/
theorem wake_then_sleepUnlessWoken (t : Task) (hf : t.state ≠ .finished) :
    ∃ t1 t2 t3, t.wake = .ok t1 ∧ t1.sleepUnlessWoken = .ok t2 ∧ t2.sleepUnlessWoken = .ok t3 ∧
      t1.woken = true ∧ t1.state ≠ .sleeping ∧
      t2.woken = false ∧ t2.state = t1.state ∧ (t.state = .sleeping ∨ t.state = .runnable → t2.state = .runnable) ∧
      t3.woken = false ∧ t3.state = .sleeping := by
  by_cases hs : t.state = .sleeping
  · refine ⟨_, _, _, Task.wake_sleeping t hs, Task.sleepUnlessWoken_woken _ rfl,
      Task.sleepUnlessWoken_not_woken _ rfl (by simp), rfl, by simp, rfl, rfl, fun _ => rfl, rfl, rfl⟩
  · refine ⟨_, _, _, Task.wake_not_sleeping t hs, Task.sleepUnlessWoken_woken _ rfl,
      Task.sleepUnlessWoken_not_woken _ rfl (by simpa using hf), rfl, hs, rfl, rfl, ?_, rfl, rfl⟩
    rintro (h | h)
    · exact absurd h hs
    · exact h

/-- **no_lost_wake**, executions: at every loop head `st` reachable in any execution there is a list `evs` of the
requests executed so far (`ReachEv`: task, request, in execution order) such that for every unfinished task `i`
 * the `woken` flag is exactly the ghost flag "some task — `i` itself included — executed `wake i` after the latest
   `sleepUnlessWoken` executed by `i`", and
 * if `i` is `Sleeping`, the ghost flag is down: no wake for `i` has been executed since its latest
   `sleepUnlessWoken` started.
Hence (with `sleepUnlessWoken_request`) the next `sleep_unless_woken` of `i` after such a wake finds `woken = true`,
leaves `i` runnable and clears the flag. -/
theorem no_lost_wake (P : Program) (S : Scheduler σ) (ms : MaxSteps) (seed : Nat) (s : σ) (segFuel n : Nat)
    (st : ExecState P σ) (h : ReachN S segFuel n (initState P ms seed s) st) :
    ∃ evs, ReachEv S segFuel (initState P ms seed s) evs st ∧
      ∀ i tk, st.k.tasks[i]? = some tk → tk.state ≠ .finished →
        tk.woken = wokenGhost i false evs ∧ (tk.state = .sleeping → wokenGhost i false evs = false) := by
  obtain ⟨evs, he⟩ := reachEv_of_reachN (LoopInv.init P ms seed s) h
  refine ⟨evs, he, ?_⟩
  intro i tk hk hf
  have hw := (WokenIs.reachEv he i false (WokenIs.init P ms seed s i)).1 tk hk
    (by simpa [Task.finished] using hf)
  have hsl := SleepInv.reachN (LoopInv.init P ms seed s) (SleepInv.init P ms seed s) h i tk hk
  exact ⟨hw, fun hs => by rw [← hw]; exact hsl hs⟩

/-- **no_lost_wake** inside a segment (the granularity at which `wake` and `sleep_unless_woken` interleave): in
the segment of task `me` started in a live execution, after every executed request the `woken` flag of every
unfinished task `i` is the ghost flag folded over the requests executed so far, and `Sleeping ⇒ !woken`. -/
theorem no_lost_wake_in_segment (S : Scheduler σ) (me fuel : Nat) (st : ExecState P σ) (p : Prog P.U Unit)
    (hc : st.k.current = .some me) (hinv : SleepInv st.k.tasks) (i : Nat) (g0 : Bool)
    (h0 : WokenIs i g0 st.k.tasks) :
    ∃ l, KTrace S me st p l (runSegment S me fuel st p) ∧
      ∀ a x b, l = a ++ x :: b →
        WokenIs i (((a ++ [x]).map (·.1)).foldl (ghostStep i me) g0) x.2.k.tasks ∧ SleepInv x.2.k.tasks := by
  obtain ⟨l, htr⟩ := runSegment_ktrace S me fuel st p
  refine ⟨l, htr, ?_⟩
  intro a x b hl
  have h1 := (KTrace.ghost_inv (ghostStep i me) (fun g ts c => c = .some me ∧ WokenIs i g ts)
    (fun g r st1 st2 hi hs => ⟨by rw [hs.current]; exact hi.1, hi.2.kstep hi.1 hs⟩) htr g0 ⟨hc, h0⟩).1 a x b hl
  exact ⟨h1.2, (SleepInv.ktrace htr hinv).1 x (by rw [hl]; simp)⟩

/-- `Sleeping ⇒ !woken` also holds in the state in which any execution ends, whatever the outcome. -/
theorem sleeping_implies_not_woken_final (P : Program) (S : Scheduler σ) (ms : MaxSteps) (seed : Nat) (s : σ)
    (fuel segFuel : Nat) (i : Nat) (tk : Task)
    (hk : (execute P S ms seed s fuel segFuel).st.k.tasks[i]? = some tk) (hs : tk.state = .sleeping) :
    tk.woken = false := by
  obtain ⟨stf, ⟨n, hr⟩, _, hf⟩ := execute_final P S ms seed s fuel segFuel
  have h1 := SleepInv.reachN (LoopInv.init P ms seed s) (SleepInv.init P ms seed s) hr
  exact SleepInv.final h1 hf i tk hk hs

/-- non-vacuity (`exSelfWake`): the task invokes its own waker during its "poll"; the first
`sleep_unless_woken` then does not sleep (the task is scheduled again and gets to `setU 1`), the second one does:
the run ends in a deadlock with the task `Sleeping`, `woken = false`. -/
example :
    (execute exSelfWake firstSched .none 0 () 20 20).outcome = .deadlock [(0, false, true)] ∧
    uVal (execute exSelfWake firstSched .none 0 () 20 20).st = 1 ∧
    obsTask (execute exSelfWake firstSched .none 0 () 20 20).st.k 0 = some (.sleeping, false, false) := by
  decide

/-- non-vacuity: a wake by another task that arrives *before* the `sleep_unless_woken` is not lost
(`exWakeEarly`: the child completes, `u = 7`); without any wake the child would sleep forever (`exPending`). -/
example :
    (execute exWakeEarly firstSched .none 0 () 20 20).outcome = .ok ∧
    uVal (execute exWakeEarly firstSched .none 0 () 20 20).st = 7 ∧
    (execute (exPending false) lastSched .none 0 () 20 20).outcome = .deadlock [(1, false, true)] ∧
    uVal (execute (exPending false) lastSched .none 0 () 20 20).st = 0 := by decide

/-- non-vacuity of the ghost flag: the requests of `exSelfWake` up to its first `switch` -/
example : wokenGhost 0 false [(0, .wake 0)] = true ∧
    wokenGhost 0 false [(0, .wake 0), (0, .sleepUnlessWoken)] = false ∧
    wokenGhost 1 false [(0, .wake 1), (0, .sleepUnlessWoken), (1, .other)] = true := by decide

/-! ## a pending future whose waker is not invoked -/

/-- **pending_without_wake_not_runnable**: a task that is `Sleeping` at loop head `st0` (i.e. it executed
`sleep_unless_woken` with `woken = false`, `sleepUnlessWoken_request`) is still `Sleeping` (flag down) at every later
loop head `st`, as long as no `wake i` / `unblock i` / `blockTask i` request has been executed by any task.  Until
then it is not offered to the scheduler, does not count as runnable, and executes no request at all. -/
theorem pending_without_wake_not_runnable {S : Scheduler σ} {segFuel : Nat} {st0 st : ExecState P σ}
    {evs : List (Nat × Req)} (h : ReachEv S segFuel st0 evs st) {i : Nat} {w : Bool}
    (h0 : SleepingAt i w st0.k.tasks) (hq : ∀ e ∈ evs, disturbs i e.2 = false) :
    SleepingAt i w st.k.tasks ∧ i ∉ st.k.offered ∧
      (∀ tk, st.k.tasks[i]? = some tk → tk.runnable = false) ∧ ∀ e ∈ evs, e.1 ≠ i := by
  obtain ⟨h1, h2⟩ := SleepingAt.reachEv h h0 hq
  refine ⟨h1, h1.not_offered, ?_, h2⟩
  intro tk hk
  obtain ⟨tk', hk', hs, _⟩ := h1
  rw [hk] at hk'; cases hk'
  simp [Task.runnable, hs]

/-- one iteration: the sleeping task is not the one chosen, and only a request naming it can end its sleep -/
theorem pending_not_chosen {S : Scheduler σ} {segFuel : Nat} {st b : ExecState P σ} {t : Nat}
    {l : List (Req × ExecState P σ)} (h : IterEv S segFuel st t l b) {i : Nat} {w : Bool}
    (h0 : SleepingAt i w st.k.tasks) :
    t ≠ i ∧ ((∀ x ∈ l, disturbs i x.1 = false) → SleepingAt i w b.k.tasks) :=
  SleepingAt.iter h h0

/-- sleeping tasks are not progress: at a loop head where no task is `Runnable` (every unfinished task is
`Sleeping` or `Blocked`), the execution ends without consulting the scheduler — with a deadlock listing the
unfinished tasks whenever one of them is attached (C03). -/
theorem all_pending_ends_execution {ms : MaxSteps} (S : Scheduler σ) (segFuel : Nat) {st : ExecState P σ}
    (hi : LoopInv ms st) (hb : BoundOK st.k)
    (hno : ∀ (i : Nat) (tk : Task), st.k.tasks[i]? = some tk →
      tk.state = .sleeping ∨ tk.state = .finished ∨ ∃ sp, tk.state = .blocked sp) :
    ¬ Consults st.k ∧ ∃ st', loopStep S segFuel st =
      .inl ⟨if st.k.unfinishedAttached then .deadlock st.k.deadlockList else .ok, st'⟩ := by
  have := C03.spurious_not_progress S segFuel hi hb (fun i tk hk hr => by
    rcases hno i tk hk with h | h | ⟨sp, h⟩ <;> rw [h] at hr <;> cases hr)
  exact ⟨this.2.1, this.2.2⟩

/-- non-vacuity: in `exPending false` under `lastSched`, after two iterations the child (task 1) is `Sleeping`;
the hypotheses of `pending_without_wake_not_runnable` hold at that loop head, and main (the only other task)
never names task 1 afterwards: the run deadlocks on it. -/
example : ∃ st, ReachN lastSched 20 2 (initState (exPending false) .none 0 ()) st ∧
    SleepingAt 1 false st.k.tasks ∧ st.k.offered = [0] := by
  have h : (iterate lastSched 20 2 (initState (exPending false) .none 0 ())).map
      (fun st => (obsTask st.k 1, st.k.offered)) = some (some (.sleeping, false, false), [0]) := by decide
  cases hi : iterate lastSched 20 2 (initState (exPending false) .none 0 ()) with
  | none => rw [hi] at h; cases h
  | some st =>
    rw [hi] at h
    simp only [Option.map_some, Option.some.injEq, Prod.mk.injEq, obsTask] at h
    refine ⟨st, iterate_reachN hi, ?_, h.2⟩
    cases hk : st.k.tasks[1]? with
    | none => rw [hk] at h; simp at h
    | some tk =>
      rw [hk] at h
      simp only [Option.map_some, Option.some.injEq, Prod.mk.injEq] at h
      exact ⟨tk, hk, h.1.1, h.1.2.1⟩

/-- non-vacuity (`exWakeOther`): the sleeping child is polled again after main invokes its waker, and completes -/
example :
    (execute exWakeOther lastSched .none 0 () 20 20).outcome = .ok ∧
    uVal (execute exWakeOther lastSched .none 0 () 20 20).st = 7 ∧
    (iterate lastSched 20 2 (initState exWakeOther .none 0 ())).map (fun st => obsTask st.k 1) =
      some (some (.sleeping, false, false)) ∧
    (iterate lastSched 20 3 (initState exWakeOther .none 0 ())).map (fun st => obsTask st.k 1) =
      some (some (.runnable, true, false)) := by decide

/-! ## detached futures -/

/-- **detached_only_remainder_ends_ok**: at a loop head where every unfinished task is detached — e.g. spawned
futures whose `JoinHandle` was dropped, whether `Sleeping` (pending, never woken) or still `Runnable` — the
execution ends with `ok`; it is never reported as a deadlock, and the leftover tasks are not run. -/
theorem detached_only_remainder_ends_ok {ms : MaxSteps} (S : Scheduler σ) (segFuel : Nat) {st : ExecState P σ}
    (hi : LoopInv ms st) (hb : BoundOK st.k)
    (hd : ∀ (i : Nat) (tk : Task), st.k.tasks[i]? = some tk → tk.state ≠ .finished → tk.detached = true) :
    ∃ st', loopStep S segFuel st = .inl ⟨.ok, st'⟩ := by
  apply C03.detached_leftovers_ok S segFuel hi hb
  · apply unfinishedAttached_false_iff.mpr
    intro i tk hk hdt
    cases hf : tk.finished
    · have := hd i tk hk (by simpa [Task.finished] using hf)
      rw [hdt] at this; cases this
    · rfl
  · apply allRunnableDetached_iff.mpr
    intro i tk hk hr
    exact hd i tk hk (by rw [(Task.runnable_iff tk).mp hr]; simp)

/-- `detach` (what dropping a `JoinHandle` does to the task) only sets the `detached` flag: the task's `state` and
`woken` flag — whether and when it runs — are untouched; no request ever clears `detached`. -/
theorem detach_request (S : Scheduler σ) (me fuel : Nat) (st : ExecState P σ) (t : Nat) (tk : Task)
    (kont : Unit → Prog P.U Unit) (hk : st.k.tasks[t]? = some tk) :
    runSegment S me (fuel + 1) st (.op (.detach t) kont) =
      runSegment S me fuel { st with k := st.k.setTask t { tk with detached := true } } (kont ()) := by
  rw [runSegment]
  simp [Kernel.modTask, Kernel.getTask?, hk]

theorem detached_is_never_cleared {me : Nat} {r : Req} {st st' : ExecState P σ} (h : KStep me r st st')
    (i : Nat) (tk : Task) (hk : st.k.tasks[i]? = some tk) (hd : tk.detached = true) :
    ∃ tk', st'.k.tasks[i]? = some tk' ∧ tk'.detached = true := by
  obtain ⟨tk', h1, h2⟩ := h.old i tk hk
  exact ⟨tk', h1, h2.detached_mono hd⟩

/-- non-vacuity: with the `JoinHandle` dropped (`detach`) the never-woken child is left `Sleeping` and the run is
`ok`; the same program without the `detach` is a deadlock -/
example :
    (execute (exPending true) lastSched .none 0 () 20 20).outcome = .ok ∧
    obsTask (execute (exPending true) lastSched .none 0 () 20 20).st.k 1 = some (.sleeping, false, true) ∧
    (execute (exPending false) lastSched .none 0 () 20 20).outcome = .deadlock [(1, false, true)] := by decide


/-! # Part 2 — the future level: `JoinHandle`, `Wrapper`, `abort`, over the pure transitions

`Lts.step tid g op` (`Lemmas/FutureLts.lean`) is the most general client of one spawned future: any interleaving of
the Wrapper's polls (`pollBegin` / `pollEnd ready`), `JoinHandle::poll`s, `abort`s and handle drops, each step
applying the model's pure `JoinState.pollJoin` / `publish` / `setAborted`.  `Lts.Reach tid g`: `g` is reachable
from the state after `spawn`. -/

namespace Lts

/-- **join_result_once**: over any interleaving, at most one `JoinHandle::poll` returns `Ready`; what it returns
is the value the Wrapper published; `publish` itself (and the thread-local destructors) ran at most once. -/
theorem join_result_once {tid : Nat} {g : G} (h : Reach tid g) :
    g.takenCount ≤ 1 ∧ g.pubCount ≤ 1 ∧ g.tlsRun = g.pubCount ∧ g.takenCount ≤ g.pubCount ∧
      (∀ v, g.taken = some v → g.published = some v) := by
  have hi := reach_inv h
  have h2 := hi.pubCount
  have hle : g.pubCount ≤ 1 := by rw [h2]; split <;> omega
  cases hr : g.j.result with
  | some r =>
    obtain ⟨a, b, c⟩ := hi.slotFull r hr
    refine ⟨by omega, hle, hi.tls, by omega, ?_⟩
    intro v hv; rw [c] at hv; cases hv
  | none =>
    rcases hi.slotEmpty hr with ⟨a, b⟩ | ⟨a, b, c⟩
    · exact ⟨by omega, hle, hi.tls, by omega, fun v hv => by rw [← a]; exact hv⟩
    · refine ⟨by omega, hle, hi.tls, by omega, ?_⟩
      intro v hv; rw [c] at hv; cases hv

/-- the `Ready` poll consumes the handle (the `.await` drops it): every later attempt to join — by any task —
finds no handle (`"nohandle"` in the harness; in Rust the moved-out `JoinHandle` cannot be named again) and
changes nothing. -/
theorem join_after_ready_nohandle {tid : Nat} {g : G} (h : Reach tid g) (ht : g.takenCount ≥ 1) (cx : Nat) :
    step tid g (.joinPoll cx) = some (g, .nohandle, []) := by
  obtain ⟨h1, h2⟩ := (reach_inv h).takenGone ht
  simp [step, h1, h2]

/-- `JoinHandle::poll` is `result.take()`: a `Ready` poll empties the slot, and polling the same handle again
(possible in Rust through `&mut JoinHandle`) is not a panic — it registers the waker and is `Pending`; since
`publish` never runs twice (`join_result_once`) it stays `Pending` for ever. -/
theorem pollJoin_takes (j : JoinState) (cx cx' : Nat) (r : Bool) (h : j.result = some r) :
    j.pollJoin cx = (some r, { j with result := none }) ∧
    ({ j with result := none } : JoinState).pollJoin cx' =
      (none, { j with result := none, waker := some cx' }) := by
  simp [JoinState.pollJoin, h]

/-- **cancelled_iff_abort_before_completion**: in every reachable state, the Wrapper published `Err(Cancelled)` iff
it is done and its last `pollBegin` read `aborted = true`; in that case the flag is set, the inner future was
dropped un-completed (its destructors ran) and the thread-local destructors ran once; if it published `Ok`, the
inner future completed and was never dropped.  What a joiner observes is the published value. -/
theorem cancelled_iff_abort_before_completion {tid : Nat} {g : G} (h : Reach tid g) :
    (g.published = some false ↔ g.phase = .done ∧ g.cancelSeen = true) ∧
    (g.published = some true ↔ g.phase = .done ∧ g.cancelSeen = false) ∧
    (g.published = some false → g.j.aborted = true ∧ g.dropped = true ∧ g.innerCompleted = false ∧ g.tlsRun = 1) ∧
    (g.published = some true → g.dropped = false ∧ g.innerCompleted = true ∧ g.tlsRun = 1) ∧
    (∀ v, g.taken = some v → g.published = some v) := by
  have hi := reach_inv h
  have hpc := hi.pubCount
  have hcases : ∀ v, g.published = some v → g.phase = .done ∧ v = !g.cancelSeen ∧ g.tlsRun = 1 := by
    intro v hv
    refine ⟨hi.pubDone.mpr (by simp [hv]), hi.value v hv, ?_⟩
    rw [hi.tls, hpc, hv]; rfl
  have hdone : g.phase = .done → g.published = some (!g.cancelSeen) := by
    intro hd
    cases hp : g.published with
    | none => have := hi.pubDone.mp hd; rw [hp] at this; cases this
    | some v => rw [hi.value v hp]
  refine ⟨⟨?_, ?_⟩, ⟨?_, ?_⟩, ?_, ?_, (join_result_once h).2.2.2.2⟩
  · intro hv
    obtain ⟨a, b, _⟩ := hcases false hv
    exact ⟨a, by cases hc : g.cancelSeen <;> rw [hc] at b <;> first | rfl | cases b⟩
  · rintro ⟨a, b⟩
    rw [hdone a, b]; rfl
  · intro hv
    obtain ⟨a, b, _⟩ := hcases true hv
    exact ⟨a, by cases hc : g.cancelSeen <;> rw [hc] at b <;> first | rfl | cases b⟩
  · rintro ⟨a, b⟩
    rw [hdone a, b]; rfl
  · intro hv
    obtain ⟨a, b, c⟩ := hcases false hv
    have hcs : g.cancelSeen = true := by cases hc : g.cancelSeen <;> rw [hc] at b <;> first | rfl | cases b
    obtain ⟨d, e⟩ := hi.cancelFx a hcs
    exact ⟨hi.seenAborted hcs, d, e, c⟩
  · intro hv
    obtain ⟨a, b, c⟩ := hcases true hv
    have hcs : g.cancelSeen = false := by cases hc : g.cancelSeen <;> rw [hc] at b <;> first | rfl | cases b
    obtain ⟨d, e⟩ := hi.okFx a hcs
    exact ⟨d, e, c⟩

/-- the Wrapper checks the flag BEFORE polling the inner future: with the flag set, `pollBegin` does not poll
(`innerPolls` unchanged) — it drops the inner future, runs the thread-local destructors, publishes
`Err(Cancelled)` (waking the registered joiner, if any) and is `Ready`. -/
theorem pollBegin_aborted (tid : Nat) (g : G) (hp : g.phase = .idle) (ha : g.j.aborted = true) :
    ∃ g', step tid g .pollBegin = some (g', .began true,
        match g.j.waker with | some t => [Eff.wake t] | none => []) ∧
      g'.innerPolls = g.innerPolls ∧ g'.dropped = true ∧ g'.tlsRun = g.tlsRun + 1 ∧ g'.phase = .done ∧
      g'.published = some false ∧ g'.j.result = some false ∧ g'.j.waker = none := by
  obtain ⟨j, phase, cancelSeen, innerPolls, innerCompleted, dropped, tlsRun, published, pubCount, taken,
    takenCount, joiner, detached⟩ := g
  obtain ⟨jt, jr, jw, ja, jh, js⟩ := j
  simp only at hp ha
  subst hp ha
  cases jw <;> exact ⟨_, rfl, rfl, rfl, rfl, rfl, rfl, rfl, rfl⟩

/-- with the flag down, `pollBegin` enters the poll of the inner future -/
theorem pollBegin_not_aborted (tid : Nat) (g : G) (hp : g.phase = .idle) (ha : g.j.aborted = false) :
    step tid g .pollBegin =
      some ({ g with phase := .midPoll, cancelSeen := false, innerPolls := g.innerPolls + 1 }, .began false, []) := by
  simp [step, hp, ha]

/-- an abort that arrives while the inner future is mid-poll does not cancel that poll: if the poll reaches
`Ready` the Wrapper publishes `Ok` although `aborted` is set (the joiner gets the output, not `Cancelled`); if it
returns `Pending`, the next `pollBegin` takes the cancel path. -/
theorem abort_mid_poll (tid : Nat) (g : G) (hp : g.phase = .midPoll) :
    ∃ g1 effs, step tid g .abort = some (g1, .unit, effs) ∧ g1.j.aborted = true ∧ g1.phase = .midPoll ∧
      (∃ g2 effs2, step tid g1 (.pollEnd true) = some (g2, .polled true, effs2) ∧
        g2.published = some true ∧ g2.j.result = some true ∧ g2.j.aborted = true) ∧
      (∃ g2 g3 effs3, step tid g1 (.pollEnd false) = some (g2, .polled false, []) ∧
        step tid g2 .pollBegin = some (g3, .began true, effs3) ∧ g3.published = some false ∧
        g3.innerPolls = g.innerPolls) := by
  obtain ⟨j, phase, cancelSeen, innerPolls, innerCompleted, dropped, tlsRun, published, pubCount, taken,
    takenCount, joiner, detached⟩ := g
  obtain ⟨jt, jr, jw, ja, jh, js⟩ := j
  simp only at hp
  subst hp
  cases ja <;>
    exact ⟨_, _, rfl, rfl, rfl, ⟨_, _, rfl, rfl, rfl, rfl⟩, ⟨_, _, _, rfl, rfl, rfl, rfl⟩⟩

/-- once the Wrapper is done — completed or cancelled — it performs no further step: neither `pollBegin` nor
`pollEnd` can happen, and no other operation changes what it did (`innerPolls`, `dropped`, `tlsRun`, the
published value). -/
theorem done_no_further_steps {tid : Nat} {g g' : G} {op : FOp} {o : Out} {effs : List Eff}
    (hd : g.phase = .done) :
    step tid g .pollBegin = none ∧ (∀ r, step tid g (.pollEnd r) = none) ∧
    (step tid g op = some (g', o, effs) →
      g'.phase = .done ∧ g'.innerPolls = g.innerPolls ∧ g'.dropped = g.dropped ∧ g'.tlsRun = g.tlsRun ∧
        g'.published = g.published ∧ g'.innerCompleted = g.innerCompleted) := by
  refine ⟨by simp [step, hd], fun r => by simp [step, hd], ?_⟩
  intro hs
  cases op with
  | pollBegin => simp [step, hd] at hs
  | pollEnd r => simp [step, hd] at hs
  | joinPoll cx =>
    simp only [step] at hs
    split at hs
    · split at hs <;>
        (simp only [Option.some.injEq, Prod.mk.injEq] at hs; obtain ⟨rfl, _, _⟩ := hs;
         exact ⟨hd, rfl, rfl, rfl, rfl, rfl⟩)
    · simp only [Option.some.injEq, Prod.mk.injEq] at hs
      obtain ⟨rfl, _, _⟩ := hs
      exact ⟨hd, rfl, rfl, rfl, rfl, rfl⟩
  | abort =>
    simp only [step, Option.some.injEq, Prod.mk.injEq] at hs
    obtain ⟨rfl, _, _⟩ := hs
    exact ⟨hd, rfl, rfl, rfl, rfl, rfl⟩
  | dropHandle =>
    simp only [step] at hs
    split at hs <;>
      (simp only [Option.some.injEq, Prod.mk.injEq] at hs; obtain ⟨rfl, _, _⟩ := hs;
       exact ⟨hd, rfl, rfl, rfl, rfl, rfl⟩)
  | dropJoiner cx =>
    simp only [step] at hs
    split at hs
    · simp only [Option.some.injEq, Prod.mk.injEq] at hs
      obtain ⟨rfl, _, _⟩ := hs
      exact ⟨hd, rfl, rfl, rfl, rfl, rfl⟩
    · cases hs

/-- **abort_idempotent**: the first `abort` sets the flag and wakes the task (`Task::abort` = `wake` unless
finished); every further `abort` — through the `JoinHandle` or any clone of the `AbortHandle` — changes nothing
and wakes nobody (`if aborted.swap(true) { return }`). -/
theorem abort_idempotent (tid : Nat) (g : G) :
    ∃ g1, step tid g .abort = some (g1, .unit, if g.j.aborted then [] else [Eff.wake tid]) ∧
      g1.j.aborted = true ∧ step tid g1 .abort = some (g1, .unit, []) := by
  obtain ⟨j, phase, cancelSeen, innerPolls, innerCompleted, dropped, tlsRun, published, pubCount, taken,
    takenCount, joiner, detached⟩ := g
  obtain ⟨jt, jr, jw, ja, jh, js⟩ := j
  cases ja <;> exact ⟨_, rfl, rfl, rfl⟩

/-- **abort_finished_is_noop**: aborting a future whose Wrapper is done changes nothing but the flag: the
published result, the result slot (what a later join returns) and everything the Wrapper did stay as they are; the
only effect is a `wake` of the future's task, which the kernel ignores for a finished task
(`finished_task_wake_is_noop`). -/
theorem abort_finished_is_noop {tid : Nat} {g : G} (hd : g.phase = .done) :
    ∃ g1 effs, step tid g .abort = some (g1, .unit, effs) ∧ (∀ e ∈ effs, e = Eff.wake tid) ∧
      g1 = { g with j := { g.j with aborted := true } } ∧ g1.j.result = g.j.result ∧
      g1.published = g.published ∧ g1.phase = .done ∧ step tid g1 .pollBegin = none := by
  obtain ⟨j, phase, cancelSeen, innerPolls, innerCompleted, dropped, tlsRun, published, pubCount, taken,
    takenCount, joiner, detached⟩ := g
  obtain ⟨jt, jr, jw, ja, jh, js⟩ := j
  simp only at hd
  subst hd
  cases ja
  · exact ⟨_, _, rfl, fun e he => by simpa [JoinState.setAborted] using he, rfl, rfl, rfl, rfl, rfl⟩
  · exact ⟨_, _, rfl, fun e he => by simp [JoinState.setAborted] at he, rfl, rfl, rfl, rfl, rfl⟩

/-- **drop_detaches_not_cancels**: dropping the `JoinHandle` detaches the task and does nothing else: the
`aborted` flag, the Wrapper's phase and the result slot are untouched — the Wrapper is polled exactly as before. -/
theorem drop_detaches_not_cancels (tid : Nat) (g : G) (hh : g.j.handle = true) :
    step tid g .dropHandle = some ({ g with j := { g.j with handle := false }, detached := true }, .unit, []) ∧
    ∀ g', g' = { g with j := { g.j with handle := false }, detached := true } →
      g'.j.aborted = g.j.aborted ∧ g'.phase = g.phase ∧ g'.j.result = g.j.result ∧
      (step tid g' .pollBegin).isSome = (step tid g .pollBegin).isSome ∧
      (∀ r, (step tid g' (.pollEnd r)).isSome = (step tid g (.pollEnd r)).isSome) := by
  refine ⟨by simp [step, hh], ?_⟩
  rintro g' rfl
  refine ⟨rfl, rfl, rfl, ?_, ?_⟩
  · simp only [step]
    split
    · rfl
    · cases g.j.aborted <;> rfl
  · intro r
    simp only [step]
    split
    · rfl
    · cases r <;> rfl

/-- only `abort` sets the flag; hence a future nobody aborts is never cancelled, whatever happens to its handle -/
theorem flag_only_by_abort {tid : Nat} {g g' : G} {op : FOp} {o : Out} {effs : List Eff}
    (hs : step tid g op = some (g', o, effs)) (hop : op ≠ .abort) : g'.j.aborted = g.j.aborted := by
  cases op with
  | abort => exact absurd rfl hop
  | pollBegin =>
    simp only [step] at hs
    split at hs
    · cases hs
    · split at hs <;>
        (simp only [Option.some.injEq, Prod.mk.injEq] at hs; obtain ⟨rfl, _, _⟩ := hs)
      · exact (publish_result g.j false).2.1
      · rfl
  | pollEnd r =>
    simp only [step] at hs
    split at hs
    · cases hs
    · split at hs <;>
        (simp only [Option.some.injEq, Prod.mk.injEq] at hs; obtain ⟨rfl, _, _⟩ := hs)
      · exact (publish_result g.j true).2.1
      · rfl
  | joinPoll cx =>
    simp only [step] at hs
    split at hs
    · split at hs
      · rename_i v j' hp
        simp only [Option.some.injEq, Prod.mk.injEq] at hs
        obtain ⟨rfl, _, _⟩ := hs
        exact (pollJoin_some hp).2.2.1
      · rename_i j' hp
        simp only [Option.some.injEq, Prod.mk.injEq] at hs
        obtain ⟨rfl, _, _⟩ := hs
        exact (pollJoin_none hp).2.2.1
    · simp only [Option.some.injEq, Prod.mk.injEq] at hs
      obtain ⟨rfl, _, _⟩ := hs
      rfl
  | dropHandle =>
    simp only [step] at hs
    split at hs <;>
      (simp only [Option.some.injEq, Prod.mk.injEq] at hs; obtain ⟨rfl, _, _⟩ := hs; rfl)
  | dropJoiner cx =>
    simp only [step] at hs
    split at hs
    · simp only [Option.some.injEq, Prod.mk.injEq] at hs
      obtain ⟨rfl, _, _⟩ := hs
      rfl
    · cases hs

theorem cancelled_only_if_aborted {tid : Nat} {g : G} (h : Reach tid g) (hc : g.taken = some false) :
    g.j.aborted = true := by
  obtain ⟨_, _, h3, _, h5⟩ := cancelled_iff_abort_before_completion h
  exact (h3 (h5 false hc)).1

/-! ### non-vacuity: concrete interleavings -/

/-- abort before the first poll: the joiner gets `Cancelled`, the inner future is never polled, it is dropped,
the thread-local destructors run once; a second join finds no handle; a second abort wakes nobody -/
example :
    (run 1 (init 1) [.joinPoll 0, .abort, .abort, .pollBegin, .joinPoll 0, .joinPoll 0, .pollBegin]).2 =
      [.joined none, .unit, .unit, .began true, .joined (some false), .nohandle] ∧
    (let g := (run 1 (init 1) [.joinPoll 0, .abort, .abort, .pollBegin, .joinPoll 0, .joinPoll 0]).1
     (g.innerPolls, g.dropped, g.tlsRun, g.takenCount, g.taken, g.detached) =
       (0, true, 1, 1, some false, true)) ∧
    (step 1 (init 1) .abort).map (·.2.2) = some [Eff.wake 1] ∧
    (step 1 (run 1 (init 1) [.abort]).1 .abort).map (·.2.2) = some [] := by decide

/-- abort while the inner future is mid-poll, the poll reaches `Ready`: the joiner gets the output (`Ok`) although
the flag is set; abort after completion changes nothing -/
example :
    (run 1 (init 1) [.pollBegin, .abort, .pollEnd true, .abort, .joinPoll 0]).2 =
      [.began false, .unit, .polled true, .unit, .joined (some true)] ∧
    (let g := (run 1 (init 1) [.pollBegin, .abort, .pollEnd true, .abort, .joinPoll 0]).1
     (g.j.aborted, g.innerPolls, g.dropped, g.innerCompleted, g.tlsRun, g.taken) =
       (true, 1, false, true, 1, some true)) := by decide

/-- abort mid-poll, the poll returns `Pending`: the next poll of the Wrapper cancels without polling the inner
future again; dropping the handle instead of aborting never cancels -/
example :
    (run 1 (init 1) [.pollBegin, .abort, .pollEnd false, .pollBegin, .pollBegin]).2 =
      [.began false, .unit, .polled false, .began true] ∧
    (run 1 (init 1) [.pollBegin, .abort, .pollEnd false, .pollBegin]).1.innerPolls = 1 ∧
    (run 1 (init 1) [.dropHandle, .pollBegin, .pollEnd false, .pollBegin, .pollEnd true, .joinPoll 0]).2 =
      [.unit, .began false, .polled false, .began false, .polled true, .nohandle] ∧
    (let g := (run 1 (init 1) [.dropHandle, .pollBegin, .pollEnd false, .pollBegin, .pollEnd true]).1
     (g.detached, g.j.aborted, g.published, g.innerPolls)) = (true, false, some true, 2) := by decide

example : Reach 1 (run 1 (init 1) [.joinPoll 0, .abort, .pollBegin, .joinPoll 0]).1 :=
  run_reach .init _

end Lts


/-! # Part 3 — the poll loops `Fut.taskLoop` (`Task::from_future` around `Wrapper::poll`) and `Fut.blockOnLoop`
(`future::block_on`), run by the kernel

A poll is described by what running it does: `AtomicPoll S me st p c st1 r` — run by task `me` from state `st`, the
program `p` executes `c` requests without reaching a scheduling point or panicking and returns `r` in state `st1`
(stated for every continuation).  The theorems are for every scheduler, every kernel state, every inner future. -/

/-- **task_loop_polls_until_ready**, the shape of the loop: read the `aborted` flag; set ⇒ drop the inner future
and `finish(Err(Cancelled))`; else poll; `Ready` ⇒ `finish(Ok)` and return; `Pending` ⇒ `sleep_unless_woken();
switch()` and poll again. -/
theorem task_loop_polls_until_ready {U : Type} {τ : Type} (F : Lens U FutHeap) (b : Nat)
    (poll : τ → Prog U (Option τ)) (dropFut : τ → Prog U Unit) (tls : Prog U Unit) (fuel : Nat) (s : τ) :
    Fut.taskLoop F b poll dropFut tls (fuel + 1) s =
      Prog.bind (K.getL (Fut.joinL F b)) fun j =>
        if j.aborted = true then Prog.bind (dropFut s) fun _ => Fut.finish F b false tls
        else Prog.bind (poll s) fun r =>
          match r with
          | none => Fut.finish F b true tls
          | some s' =>
            Prog.bind K.sleepUnlessWoken fun _ => Prog.bind K.switch fun _ =>
              Fut.taskLoop F b poll dropFut tls fuel s' :=
  taskLoop_succ F b poll dropFut tls fuel s

/-- with the flag set, the kernel runs: the destructors of the inner future, then `Wrapper::finish(Err(Cancelled))`
(thread-local destructors, `publish false`, wake the joiner) — and nothing else: the inner future's `poll` does
not occur in what remains of the task (the right-hand side is the same for every `poll`). -/
theorem task_loop_aborted_never_polls {τ : Type} (S : Scheduler σ) (me fuel : Nat) (st : ExecState P σ)
    (F : Lens P.U FutHeap) (b : Nat) (poll : τ → Prog P.U (Option τ)) (dropFut : τ → Prog P.U Unit)
    (tls : Prog P.U Unit) (n : Nat) (s : τ) (ha : ((Fut.joinL F b).get st.u).aborted = true) :
    runSegment S me (fuel + 1) st (Fut.taskLoop F b poll dropFut tls (n + 1) s) =
      runSegment S me fuel st (Prog.bind (dropFut s) fun _ => Fut.finish F b false tls) := by
  rw [taskLoop_succ, runSegment_getL]
  simp only [ha, if_true]

/-- flag down, the poll returns `Ready`: the task goes on with `Wrapper::finish(Ok)` and then returns (finishes) -/
theorem task_loop_ready_finishes {τ : Type} (S : Scheduler σ) (me : Nat) (st st1 : ExecState P σ)
    (F : Lens P.U FutHeap) (b : Nat) (poll : τ → Prog P.U (Option τ)) (dropFut : τ → Prog P.U Unit)
    (tls : Prog P.U Unit) (n c : Nat) (s : τ) (ha : ((Fut.joinL F b).get st.u).aborted = false)
    (hp : AtomicPoll S me st (poll s) c st1 none) (fuel : Nat) :
    runSegment S me (fuel + c + 1) st (Fut.taskLoop F b poll dropFut tls (n + 1) s) =
      runSegment S me fuel st1 (Fut.finish F b true tls) := by
  rw [taskLoop_succ, runSegment_getL]
  simp only [ha, Bool.false_eq_true, if_false]
  rw [hp fuel]

/-- flag down, the poll returns `Pending`: the task executes `sleep_unless_woken()` — it goes to sleep iff its
waker was not invoked during the poll — and stops at `switch()`; when it is scheduled again it polls again (its
continuation is the loop, resumed from the pending state). -/
theorem task_loop_pending_suspends {τ : Type} (S : Scheduler σ) (me : Nat) (st st1 : ExecState P σ)
    (F : Lens P.U FutHeap) (b : Nat) (poll : τ → Prog P.U (Option τ)) (dropFut : τ → Prog P.U Unit)
    (tls : Prog P.U Unit) (n c : Nat) (s s' : τ) (ha : ((Fut.joinL F b).get st.u).aborted = false)
    (hp : AtomicPoll S me st (poll s) c st1 (some s')) (tk : Task) (hk : st1.k.tasks[me]? = some tk)
    (hf : tk.state ≠ .finished) (fuel : Nat) :
    runSegment S me (fuel + 2 + c + 1) st (Fut.taskLoop F b poll dropFut tls (n + 1) s) =
      .atSwitch (parkedAt st1 me tk (Fut.taskLoop F b poll dropFut tls n s')) := by
  rw [taskLoop_succ, runSegment_getL]
  simp only [ha, Bool.false_eq_true, if_false]
  rw [hp (fuel + 2)]
  show runSegment S me (fuel + 1 + 1) st1 (.op .sleepUnlessWoken fun _ => .op .switch fun _ =>
    Fut.taskLoop F b poll dropFut tls n s') = _
  rw [sleepUnlessWoken_request S me (fuel + 1) st1 tk _ hk hf, runSegment]
  rfl

/-- **block_on_returns_output_after_ready**: when the poll of its future is `Ready(v)`, `block_on` returns `v` to
its caller at once — no `sleep_unless_woken`, no scheduling point. -/
theorem block_on_returns_output_after_ready (S : Scheduler σ) (me : Nat) (st st1 : ExecState P σ)
    (poll : Stage → Prog P.U LeafRes) (n c : Nat) (s : Stage) (v : String)
    (hp : AtomicPoll S me st (poll s) c st1 (.ready v)) (kont : String → Prog P.U Unit) (fuel : Nat) :
    runSegment S me (fuel + c) st (Prog.bind (Fut.blockOnLoop poll (n + 1) s) kont) =
      runSegment S me fuel st1 (kont v) := by
  rw [blockOnLoop_succ, Prog.bind_assoc, hp fuel]
  rfl

/-- while its future is `Pending`, `block_on` suspends the calling task: `sleep_unless_woken()` (asleep unless the
waker — the caller's own — was invoked during the poll), then `switch()`; when the caller runs again, it polls
again, and only a `Ready` poll makes `block_on` return (previous theorem). -/
theorem block_on_suspends_while_pending (S : Scheduler σ) (me : Nat) (st st1 : ExecState P σ)
    (poll : Stage → Prog P.U LeafRes) (n c : Nat) (s s' : Stage)
    (hp : AtomicPoll S me st (poll s) c st1 (.pending s')) (tk : Task) (hk : st1.k.tasks[me]? = some tk)
    (hf : tk.state ≠ .finished) (kont : String → Prog P.U Unit) (fuel : Nat) :
    runSegment S me (fuel + 2 + c) st (Prog.bind (Fut.blockOnLoop poll (n + 1) s) kont) =
      .atSwitch (parkedAt st1 me tk (Prog.bind (Fut.blockOnLoop poll n s') kont)) := by
  rw [blockOnLoop_succ, Prog.bind_assoc, hp (fuel + 2)]
  show runSegment S me (fuel + 1 + 1) st1 (.op .sleepUnlessWoken fun _ => .op .switch fun _ =>
    Prog.bind (Fut.blockOnLoop poll n s') kont) = _
  rw [sleepUnlessWoken_request S me (fuel + 1) st1 tk _ hk hf, runSegment]
  rfl

/-- `JoinHandle::abort` / `AbortHandle::abort`: a scheduling point first, then exactly `JoinState.setAborted`
(the `swap`, and the `wake` of the task unless the flag was already set) -/
theorem abort_eq {U : Type} (F : Lens U FutHeap) (b : Nat) :
    Fut.abort F b =
      Prog.bind (K.getL (Fut.joinL F b)) fun j =>
        match j.tid with
        | none => Prog.pure "nohandle"
        | some tid => Prog.bind K.switch fun _ => Prog.bind (K.getL (Fut.joinL F b)) fun j =>
            Prog.bind (K.setL (Fut.joinL F b) (j.setAborted tid).1) fun _ =>
              Prog.bind (runEffs (j.setAborted tid).2) fun _ => Prog.pure "ok" := by
  rfl

/-- `Wrapper::finish` = thread-local destructors, then exactly `JoinState.publish` and its wake -/
theorem finish_is_publish {U : Type} (F : Lens U FutHeap) (b : Nat) (ok : Bool) (tls : Prog U Unit) :
    Fut.finish F b ok tls =
      Prog.bind tls fun _ => Prog.bind (K.getL (Fut.joinL F b)) fun j =>
        Prog.bind (K.setL (Fut.joinL F b) (j.publish ok).1) fun _ => runEffs (j.publish ok).2 :=
  finish_eq F b ok tls

/-! ### non-vacuity -/

/-- `AtomicPoll` is satisfiable: a poll that reads and writes the shared state and wakes its own task -/
example (S : Scheduler σ) (st : ExecState (exAsync 1 false 0) σ) (tk : Task) (hk : st.k.tasks[1]? = some tk)
    (hc : st.k.current = .some 1) (hf : tk.state ≠ .finished) (hs : tk.state ≠ .sleeping) :
    AtomicPoll S 1 st (exPoll false 1) 4
      { st with u := { (st.u : AU) with polls := (st.u : AU).polls + 1 },
                k := st.k.setTask 1 { tk with woken := true } } (some 0) := by
  intro fuel k
  have h1 : (st.k.current == Cur.stopped || st.k.current == Cur.finished) = false := by simp [hc]
  simp [exPoll, bump, K.getU, K.setU, K.me, K.wake, Prog.lift, Bind.bind, Prog.bind, runSegment, Pure.pure,
    h1, Kernel.getTask?, hk, Task.finished, hf, Kernel.modTask, Task.wake_not_sleeping tk hs]

/-- spawn + `block_on(join handle)`: the future is polled until `Ready` (twice: `Pending` with a self-wake, then
`Ready`), the thread-local destructors run once, `block_on` returns `Ok`, the handle is consumed (task detached),
the slot is empty -/
example : (execute (exAsync 1 false 0) firstSched .none 0 () 50 200).outcome = .ok ∧
    obsAsync (execute (exAsync 1 false 0) firstSched .none 0 () 50 200) =
      ([2, 0, 1, 1], none, false, [(.finished, false), (.finished, true)]) := by decide

/-- `abort` before the first poll, then `block_on(join handle)`, then `abort` again: the inner future is never
polled, it is dropped once, the thread-local destructors run once, the join returns `Err(Cancelled)` -/
example : (execute (exAsync 1 false 1) firstSched .none 0 () 50 200).outcome = .ok ∧
    obsAsync (execute (exAsync 1 false 1) firstSched .none 0 () 50 200) =
      ([0, 1, 1, 2], none, true, [(.finished, false), (.finished, true)]) := by decide

/-- `abort` takes effect while the inner future is mid-poll (the poll contains a scheduling point) and the poll
reaches `Ready`: not cancelled — the join returns `Ok` although the flag is set;  if instead that poll returns
`Pending`, the next poll of the Wrapper cancels (1 poll, dropped once, `Err(Cancelled)`) -/
example :
    obsAsync (execute (exAsync 0 true 1) listSched .none 0 [0, 1, 0] 50 200) =
      ([1, 0, 1, 1], none, true, [(.finished, false), (.finished, true)]) ∧
    obsAsync (execute (exAsync 1 true 1) listSched .none 0 [0, 1, 0] 50 200) =
      ([1, 1, 1, 2], none, true, [(.finished, false), (.finished, true)]) := by decide

/-- dropping the handle detaches and does not cancel: if main ends first the run is `ok` with the future never
polled; if the scheduler runs the detached future, it is polled to completion (2 polls, no drop, result
published `Ok`, nobody takes it);  a second join after a `Ready` one finds no handle (`joined = 1 + 10`) -/
example :
    (execute (exAsync 1 false 2) firstSched .none 0 () 50 200).outcome = .ok ∧
    obsAsync (execute (exAsync 1 false 2) firstSched .none 0 () 50 200) =
      ([0, 0, 0, 0], none, false, [(.finished, false), (.runnable, true)]) := by decide

example :
    obsAsync (execute (exAsync 1 false 4) lastSched .none 0 () 50 200) =
      ([2, 0, 1, 0], some true, false, [(.finished, false), (.finished, true)]) ∧
    obsAsync (execute (exAsync 0 false 3) firstSched .none 0 () 50 200) =
      ([1, 0, 1, 11], none, false, [(.finished, false), (.finished, true)]) := by decide

end ShuttleProofs.C17
