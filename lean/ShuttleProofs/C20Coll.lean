/-
  C20 (collections part).

  "The deterministic HashMap/HashSet iterate in an order that is a function of their operation history alone
   (identical across instances, executions and processes) and otherwise behave like std's."
  "Every DashMap/DashSet operation is atomic and the map's contents always equal those of a plain map under the
   same linear order of operations."

  Proved here, about the models `ShuttleModel/Wrap/{SipHash,DetMap,DashMap}.lean`:

  (a) `detmap_refines_std`        the wrapper (std map + fixed keys) returns, for EVERY op sequence, exactly the
                                  results of the reference sequential map (assoc list with functional update),
                                  holds the same contents, and never changes its hasher keys;
      `setops_as_specified`       `| & ^ -` build sets with the std membership and the FIXED keys (as specified;
                                  the pinned implementation violates this: F16, see /verif/work/c20_fix_setops.diff);
  (b) `dash_linearizable`         for every schedule of every set of per-task programs, under the RwLock discipline
                                  (one writer or many readers inside; an op = acquire ; effect+release), every
                                  completed call returned what the plain map returns at its position in the
                                  lock-acquisition order, the contents at quiescence are the plain map's, and the
                                  order respects program order;  `dash_mutual_exclusion`, `dash_read_ops_pure`;
  (c) `iteration_order_function_of_history_partial`
                                  with hashbrown's layout abstracted as a deterministic function
                                  `order (hash) (history)`, two maps with the same hash function and the same
                                  history iterate identically; `iteration_order_of_ops`: for maps built by the
                                  fixed-key constructors the order is `order (hash 0 0) (mutating ops)`.

  TRUSTED, NOT PROVED (this is why (c) is `_partial`):
    * "hashbrown has no other entropy source": that std/hashbrown's table layout – hence iteration order – depends
      on nothing but the hash values of the keys and the sequence of mutating calls (incl. capacity requests).
      No address-, time-, thread- or process-dependent input.  `Layout.order` is uninterpreted.
      Checked empirically by `vh_c20coll history` run in two separate processes (byte-identical iteration orders
      for hundreds of random histories, two instances per history) – /verif/tools/c20coll_check.py.
    * that std's `RandomState{k0,k1}` hashes with SipHash-1-3 as modelled in `SipHash.lean` (161 vectors compared).
    * the premise "same hash function" is exactly what F15 (`Deserialize`) and F16 (set operators) break on the
      pinned tree; `different_keys_may_differ` shows the conclusion really fails without it.
-/
import ShuttleProofs.Lemmas.C20Det
import ShuttleProofs.Lemmas.C20Dash

namespace ShuttleProofs.C20Coll
open ShuttleModel

variable {K V : Type} [DecidableEq K]

/-! ## the hash function -/

/-- the Lean SipHash-1-3 model reproduces all 111 embedded vectors printed by the real std hasher
(`vh_c20coll vectors`); checked by the kernel, no `native_decide` -/
theorem sipSelfTest_ok : SipHash.sipSelfTest = true := by decide +kernel

/-- the three probe values every `vh_c20coll hashers` line must show (`hash_one(1u64)`, `hash_one(0xdeadbeefu64)`,
`hash_one("abc")` under the fixed keys) -/
theorem detProbe_value :
    SipHash.detProbe = (0x1e9f734161d62dd9, 0x1e1d875fb6b69775, 0xef09e0f4895a251d) := by decide +kernel

/-! ## (a) the deterministic map behaves like std's -/

section Det
open ShuttleModel.DetMap ShuttleProofs.C20Det

theorem step_keys (op : Op K V) (d : DetMap K V) :
    (DetMap.step op d).2.k0 = d.k0 ∧ (DetMap.step op d).2.k1 = d.k1 := ⟨rfl, rfl⟩

theorem run_keys (ops : List (Op K V)) (d : DetMap K V) :
    (DetMap.run ops d).2.k0 = d.k0 ∧ (DetMap.run ops d).2.k1 = d.k1 := by
  induction ops generalizing d with
  | nil => exact ⟨rfl, rfl⟩
  | cons op ops ih => exact ih (DetMap.step op d).2

/-- (a), general form: from any pair of related states -/
theorem detmap_refines_std_from (d : DetMap K V) (r : Entries K V) (S : Sim d.entries r)
    (ops : List (Op K V)) :
    (DetMap.run ops d).1 = (refRun ops r).1 ∧
      Sim (DetMap.run ops d).2.entries (refRun ops r).2 ∧
      (∀ k, lookup k (DetMap.run ops d).2.entries = lookup k (refRun ops r).2) := by
  have h := sim_run S ops d rfl
  exact ⟨h.1, h.2, fun k => lookup_perm h.2.1 h.2.2 k⟩

/-- (a) For every op sequence applied to a fresh deterministic map: the results are those of the reference
sequential map, the contents agree (as a permutation and as a lookup function), and the hasher keys are still the
fixed ones – the wrapper adds nothing but the hasher. -/
theorem detmap_refines_std (ops : List (Op K V)) :
    (DetMap.run ops (DetMap.new : DetMap K V)).1 = (refRun ops []).1 ∧
      Sim (DetMap.run ops (DetMap.new : DetMap K V)).2.entries (refRun ops []).2 ∧
      (∀ k, lookup k (DetMap.run ops (DetMap.new : DetMap K V)).2.entries = lookup k (refRun ops []).2) ∧
      (DetMap.run ops (DetMap.new : DetMap K V)).2.k0 = SipHash.detK0 ∧
      (DetMap.run ops (DetMap.new : DetMap K V)).2.k1 = SipHash.detK1 := by
  have h := detmap_refines_std_from (DetMap.new : DetMap K V) [] ⟨List.Perm.refl _, by simp [NoDupKeys, DetMap.new]⟩ ops
  have hk := run_keys ops (DetMap.new : DetMap K V)
  exact ⟨h.1, h.2.1, h.2.2, hk.1, hk.2⟩

-- non-vacuity: a concrete history with replace, remove of present/absent keys, retain, extend, clear
example :
    (DetMap.run [Op.insert 1 10, .insert 2 20, .insert 1 11, .get 1, .remove 2, .remove 7, .len,
        .extend [(5, 50), (1, 12)], .retain (fun k _ => k != 5), .contains 5, .isEmpty, .clear, .len]
      (DetMap.new : DetMap Nat Nat)).1
    = [.optVal none, .optVal none, .optVal (some 10), .optVal (some 11), .optVal (some 20), .optVal none, .nat 1,
       .unit, .unit, .bool false, .bool false, .unit, .nat 0] := by decide

/-- set operators AS SPECIFIED: std's membership, the fixed keys -/
theorem setops_as_specified (a b : DetSet K) (k : K) :
    ((DetSet.union a b).contains k = true ↔ (a.contains k = true ∨ b.contains k = true)) ∧
    ((DetSet.inter a b).contains k = true ↔ (a.contains k = true ∧ b.contains k = true)) ∧
    ((DetSet.diff a b).contains k = true ↔ (a.contains k = true ∧ b.contains k = false)) ∧
    ((DetSet.symmDiff a b).contains k = true ↔
        ((a.contains k = true ∧ b.contains k = false) ∨ (b.contains k = true ∧ a.contains k = false))) ∧
    (DetSet.union a b).k0 = SipHash.detK0 ∧ (DetSet.union a b).k1 = SipHash.detK1 ∧
    (DetSet.inter a b).k0 = SipHash.detK0 ∧ (DetSet.inter a b).k1 = SipHash.detK1 ∧
    (DetSet.diff a b).k0 = SipHash.detK0 ∧ (DetSet.diff a b).k1 = SipHash.detK1 ∧
    (DetSet.symmDiff a b).k0 = SipHash.detK0 ∧ (DetSet.symmDiff a b).k1 = SipHash.detK1 := by
  refine ⟨?_, ?_, ?_, ?_, rfl, rfl, rfl, rfl, rfl, rfl, rfl, rfl⟩
  · unfold DetSet.union
    rw [contains_ofKeys]
    unfold DetSet.unionElems
    split <;> simp only [List.mem_append, mem_keys_iff_contains, mem_diffElems] <;>
      cases a.contains k <;> cases b.contains k <;> simp
  · unfold DetSet.inter
    rw [contains_ofKeys]
    unfold DetSet.interElems
    split <;> simp only [mem_filter_contains] <;> exact And.comm
  · unfold DetSet.diff
    rw [contains_ofKeys, mem_diffElems]
  · unfold DetSet.symmDiff
    rw [contains_ofKeys]
    unfold DetSet.symmElems
    simp only [List.mem_append, mem_diffElems]

example : ((DetSet.union (DetSet.ofKeys [1, 2, 3]) (DetSet.ofKeys [3, 4])).entries.map Prod.fst,
           (DetSet.inter (DetSet.ofKeys [1, 2, 3]) (DetSet.ofKeys [3, 4])).entries.map Prod.fst,
           (DetSet.diff (DetSet.ofKeys [1, 2, 3]) (DetSet.ofKeys [3, 4])).entries.map Prod.fst,
           (DetSet.symmDiff (DetSet.ofKeys [1, 2, 3]) (DetSet.ofKeys [3, 4])).entries.map Prod.fst)
    = ([1, 2, 3, 4], [3], [1, 2], [1, 2, 4]) := by decide

end Det

/-! ## (c) iteration order -/

section Iter
open ShuttleModel.DetMap

omit [DecidableEq K] in
/-- (c) PARTIAL.  Full statement wanted: "the iteration order of the real map is a function of its operation
history alone".  What is proved: in the model where the order is `L.order (hash) (history)` for an arbitrary but
fixed function `L.order`, equal hasher keys and equal histories give equal iteration orders.  What is missing
(trusted, differentially tested): that hashbrown's real layout IS such a function, i.e. has no other entropy
source. -/
theorem iteration_order_function_of_history_partial (L : Layout K V) (hashOf : Nat → Nat → K → Nat)
    (d₁ d₂ : DetMap K V) (hk0 : d₁.k0 = d₂.k0) (hk1 : d₁.k1 = d₂.k1) (hh : d₁.hist = d₂.hist) :
    d₁.iterKeys L hashOf = d₂.iterKeys L hashOf := by
  unfold DetMap.iterKeys; rw [hk0, hk1, hh]

theorem run_hist (ops : List (Op K V)) (d : DetMap K V) :
    (DetMap.run ops d).2.hist = d.hist ++ ops.filter Op.mutating := by
  induction ops generalizing d with
  | nil => simp [DetMap.run]
  | cons op ops ih =>
    simp only [DetMap.run, ih, DetMap.step, List.filter_cons]
    cases op.mutating <;> simp

/-- for a map obtained from a fixed-key constructor, the iteration order after any op sequence is a function of
the mutating ops of that sequence – of nothing else in the model (not of the instance, not of the results) -/
theorem iteration_order_of_ops (L : Layout K V) (hashOf : Nat → Nat → K → Nat) (ops : List (Op K V)) :
    ((DetMap.run ops (DetMap.new : DetMap K V)).2).iterKeys L hashOf
      = L.order (hashOf SipHash.detK0 SipHash.detK1) (ops.filter Op.mutating) := by
  unfold DetMap.iterKeys
  rw [run_hist, (run_keys ops _).1, (run_keys ops _).2]
  simp [DetMap.new]

/-- two instances, same ops ⇒ same results and same iteration order (a clone included) -/
theorem two_instances_agree (L : Layout K V) (hashOf : Nat → Nat → K → Nat) (ops : List (Op K V)) :
    let d₁ := (DetMap.run ops (DetMap.new : DetMap K V))
    let d₂ := (DetMap.run ops (DetMap.new : DetMap K V).clone)
    d₁.1 = d₂.1 ∧ d₁.2.iterKeys L hashOf = d₂.2.iterKeys L hashOf ∧
      d₁.2.clone.iterKeys L hashOf = d₁.2.iterKeys L hashOf := ⟨rfl, rfl, rfl⟩

/-- the premise on the keys is needed: a layout and a history for which two different key pairs iterate
differently (this is the observable effect of F15/F16: a map carrying random keys) -/
theorem different_keys_may_differ :
    ∃ (L : Layout Nat Nat) (hashOf : Nat → Nat → Nat → Nat) (d₁ d₂ : DetMap Nat Nat),
      d₁.hist = d₂.hist ∧ d₁.entries = d₂.entries ∧ d₁.iterKeys L hashOf ≠ d₂.iterKeys L hashOf := by
  refine ⟨⟨fun h _ => if h 1 ≤ h 2 then [1, 2] else [2, 1]⟩, fun k0 _ x => (k0 + x) % 2,
    ⟨0, 0, [], []⟩, ⟨1, 0, [], []⟩, rfl, rfl, ?_⟩
  decide

-- non-vacuity of (c): the real hash function on u64 keys, a non-trivial history
example (L : Layout Nat Nat) :
    ((DetMap.run [Op.insert 1 10, .get 1, .insert 2 20, .remove 1] (DetMap.new : DetMap Nat Nat)).2).iterKeys L
        SipHash.hashU64
      = L.order (SipHash.hashU64 0 0) [Op.insert 1 10, .insert 2 20, .remove 1] := by
  rw [iteration_order_of_ops]; rfl

end Iter

/-! ## (b) DashMap -/

section Dash
open ShuttleModel.DetMap (Entries)
open ShuttleModel.DashMap ShuttleProofs.C20Dash

/-- read-mode ops never change the map (so concurrent readers cannot interfere) -/
theorem dash_read_ops_pure (op : Op K V) (m : Entries K V) (h : lockMode op = .read) : (dashOp op m).2 = m :=
  read_pure op m h

/-- (b) For arbitrary per-task programs `progs`, initial contents `m0` and schedule `sched` (a list of task ids;
each entry lets that task make its next move: acquire the lock if admissible, or perform its computation and
release), let `lin` be the completed-or-in-flight calls in lock-acquisition order.  Then
  1. every completed call `(seq, task, op, result)` occupies position `seq` of `lin` and its result is the one the
     plain sequential map produces at that position when `lin` is replayed from `m0`;
  2. whenever no call is in flight the shared contents are exactly those of the plain map after `lin`;
  3. `lin` respects every task's program order (issued ops ++ remaining ops = program). -/
theorem dash_linearizable (progs : Nat → List (Op K V)) (m0 : Entries K V) (sched : List Nat) :
    let σ := runSched sched (Conc.init progs m0)
    let lin := σ.acq.map Prod.snd
    (∀ d ∈ σ.done, (∃ l, σ.acq[d.1]? = some (d.2.1, (d.2.2.1, l))) ∧
        (seqRun lin m0).1[d.1]? = some d.2.2.2) ∧
      (σ.holders = [] → σ.map = (seqRun lin m0).2) ∧
      (∀ t, issued σ t ++ σ.rest t = progs t) := by
  intro σ lin
  have I : Inv m0 σ := inv_run sched (inv_init progs m0)
  have P : ProgOrder progs σ := progOrder_run sched (progOrder_init progs m0)
  refine ⟨I.done_ok, ?_, P⟩
  intro hnil
  exact I.readers (by intro h hm; rw [hnil] at hm; cases hm)

/-- writers are alone inside the lock; readers share it only with readers -/
theorem dash_mutual_exclusion (progs : Nat → List (Op K V)) (m0 : Entries K V) (sched : List Nat) :
    let σ := runSched sched (Conc.init progs m0)
    ∀ h ∈ σ.holders, lockMode h.2.2 = .write → σ.holders = [h] := by
  intro σ h hm hw
  have I : Inv m0 σ := inv_run sched (inv_init progs m0)
  exact (I.writer h hm hw).1

end Dash

/-! ### non-vacuity of (b): two writers and a reader, a `try_get` that is locked out -/

section DashExample
open ShuttleModel.DashMap

def exProgs : Nat → List (Op Nat Nat)
  | 0 => [.insert 1 10, .getMut 1 (· + 5)]
  | 1 => [.tryGet 1, .insert 2 20, .get 1]
  | _ => []

/-- task 0 acquires for `insert`, task 1's `try_get` is locked out, task 0 completes, task 1 inserts, task 0
acquires `get_mut`, task 1 blocks on `get`, task 0 completes, task 1 reads -/
def exSched : List Nat := [0, 1, 0, 1, 1, 0, 1, 0, 1, 1]

example : (runSched exSched (Conc.init exProgs [])).map = [(1, 15), (2, 20)] := by decide
example : (runSched exSched (Conc.init exProgs [])).holders.length = 0 := by decide
example : (runSched exSched (Conc.init exProgs [])).done.map (fun d => (d.1, d.2.1, d.2.2.2))
    = [(1, 1, .locked), (0, 0, .optVal none), (2, 1, .optVal none), (3, 0, .optVal (some 10)),
       (4, 1, .optVal (some 15))] := by decide
example : (seqRun ((runSched exSched (Conc.init exProgs [])).acq.map Prod.snd) []).1
    = [.optVal none, .locked, .optVal none, .optVal (some 10), .optVal (some 15)] := by decide

end DashExample

end ShuttleProofs.C20Coll
