import ShuttleProofs.Lemmas.ChanWitness
import ShuttleProofs.Lemmas.ChanRefine
/-
  C06 — mpsc channels deliver each message exactly once, in order, within capacity.

  Fixed text of the property:
    "Each value sent successfully on a channel is received exactly once, values from one sender are
    received in the order sent (and in global send order for a single receiver), and nothing is
    received that was not sent. A bounded channel never holds more than its capacity (a rendezvous
    channel hands off only to a waiting receiver), send and recv block exactly while full or empty,
    try_send/try_recv report Full/Empty exactly then, and once the other side is gone send fails and
    recv drains the remaining messages before reporting disconnection. A blocked sender or receiver
    is always released when space, a message or a disconnection arrives."

  Setting: `Reachable bound c` (Lemmas/ChanLts.lean) — every history of the most general client
  of one channel created with `bound` (`none` unbounded, `some 0` rendezvous, `some k`): any number
  of tasks sending / try-sending, one `Receiver`, clones and drops at any point, every interleaving
  of the atomic segments of ShuttleModel/Prim/Chan.lean (the model validated against
  shuttle-std/src/sync/mpsc.rs by the differential harness), every vector-clock value.
  Ghost history: `sent` (successful sends, in push order), `received`, `ub` (tasks that got an
  `unblock` since they blocked), `liveS`/`liveR` (endpoints that really exist).

  Findings (statements that are FALSE for the code, with witnesses; each has a `_partial`):
    * `try_send` reports `Full` — and `send` blocks — while the buffer is NOT full, whenever an
      earlier sender is still queued (its slot is reserved): `try_send_full_while_not_full`,
      real-runtime witness in the comment there.  A following `try_recv` reports `Empty`.
    * `try_recv` on a rendezvous channel with a queued sender BLOCKS instead of returning
      (`try_recv_blocks_on_rendezvous`); it is released by that sender and returns its value.
    * an endpoint dropped while `should_stop()` is not counted: the waiters of the other side stay
      blocked although no endpoint is left (`stranded_after_skipped_drop`).
-/
namespace ShuttleModel.C06
open ShuttleModel

/-! ### 1. FIFO: exactly once, in order, nothing invented -/

/-- What has been received is exactly the first `received.length` values successfully sent, in the
order of their pushes: no loss before the read position, no duplication, nothing invented, global
send order for the single receiver.  (The values not yet received are exactly the buffer:
`fifo_buffer`.) -/
theorem received_is_prefix_of_sent {b : Option Nat} {c : Cfg} (h : Reachable b c) :
    c.received = (c.sent.map (·.2)).take c.received.length := by
  rw [(reachable_inv h).fifo]; simp

example : After (some 1) hReserved (fun c => c.received = [7] ∧ c.sent = [(0, 7)]) := by decide

/-- the values sent and not yet received are exactly the buffer, in order -/
theorem fifo_buffer {b : Option Nat} {c : Cfg} (h : Reachable b c) :
    c.sent.map (·.2) = c.received ++ c.ch.messages.map (·.1) :=
  (reachable_inv h).fifo

example : After (some 2) [.sendStart 0 7 true [], .sendStart 1 8 true []]
    (fun c => c.sent = [(0, 7), (1, 8)] ∧ c.received = [] ∧ c.ch.messages.map (·.1) = [7, 8]) := by
  decide

/-- per sender: the values received from sender `t` are a prefix of the values `t` sent, in the
order `t` sent them (`received` is `(sent.take n).map value`, see `received_is_prefix_of_sent`) -/
theorem per_sender_order {b : Option Nat} {c : Cfg} (h : Reachable b c) (t : Nat) :
    c.received = (c.sent.take c.received.length).map (·.2) ∧
    (((c.sent.take c.received.length).filter (·.1 == t)).map (·.2)) <+:
      ((c.sent.filter (·.1 == t)).map (·.2)) := by
  constructor
  · rw [List.map_take]; exact received_is_prefix_of_sent h
  · exact ((List.take_prefix _ _).filter _).map _

example : After none [.sendStart 1 5 true [], .sendStart 2 6 true [], .sendStart 1 7 true [],
      .recvStart 0 true [], .recvStart 0 true []]
    (fun c => c.received = [5, 6] ∧ c.sent = [(1, 5), (2, 6), (1, 7)]) := by decide

/-! ### 2. capacity -/

/-- A `sync_channel(k)`, `k ≥ 1`, never holds more than `k` messages.  A rendezvous channel
(`k = 0`; the code treats its capacity as `max(bound, 1) = 1`) holds at most ONE message, and only
while the (single) receiver sits in `waiting_receivers` and has already been unblocked to take it:
the hand-off is in flight. -/
theorem capacity_invariant {b : Option Nat} {c : Cfg} (h : Reachable b c) :
    (∀ k, b = some k → 0 < k → c.ch.messages.length ≤ k) ∧
    (b = some 0 → c.ch.messages.length ≤ 1 ∧
      (c.ch.messages ≠ [] → ∃ r, c.ch.waitingReceivers = [r] ∧ r ∈ c.ub)) := by
  have hi := reachable_inv h
  have hb := reachable_bound h
  constructor
  · intro k hk h0
    obtain ⟨l, -, hl⟩ := hi.rc k (hb.trans hk)
    have := hl h0
    omega
  · intro h0
    exact hi.rdv (hb.trans h0)

example : After (some 1) [.sendStart 0 7 true [], .sendStart 1 8 true []]
    (fun c => c.ch.messages.length = 1 ∧ c.ch.waitingSenders = [1]) := by decide
example : After (some 0) [.recvStart 0 true [], .sendStart 1 8 true []]
    (fun c => c.ch.messages.length = 1 ∧ c.ch.waitingReceivers = [0] ∧ 0 ∈ c.ub) := by decide

/-- a rendezvous `send` that finds no waiting receiver does not deposit its message -/
theorem rendezvous_no_deposit_without_receiver {b : Option Nat} {c : Cfg} (h : Reachable b c)
    (hb : b = some 0) (hw : c.ch.waitingReceivers = []) : c.ch.messages = [] := by
  have := (capacity_invariant h).2 hb
  by_cases hm : c.ch.messages = []
  · exact hm
  · obtain ⟨r, hr, -⟩ := this.2 hm
    rw [hw] at hr; cases hr

example : After (some 0) [.sendStart 1 8 true []]
    (fun c => c.ch.messages = [] ∧ c.ch.waitingSenders = [1]) := by decide

/-! ### 3. blocking and `try_*` -/

/-- what `sender_must_block` means: buffer at capacity, OR an earlier sender still queued, OR
rendezvous without a waiting receiver -/
def MustBlockS (s : ChanState) : Prop :=
  (∃ k, s.bound = some k ∧ max k 1 ≤ s.messages.length) ∨ s.waitingSenders ≠ [] ∨
  (s.bound = some 0 ∧ s.waitingReceivers = [])

/-- FULL STATEMENT ("send blocks exactly while full") is FALSE: see `send_blocks_while_not_full`.
What the code guarantees: the first segment of `send(v)` blocks iff a receiver exists and
`MustBlockS`; in particular it always blocks when the buffer is at capacity. -/
theorem send_blocks_iff_full_partial {s s' : ChanState} {me v : Nat} {clk : Clock}
    {r : Option SendRes} {e : List Eff} (h : sendSeg1 s me v true clk = .ok (s', r, e)) :
    (r = none ↔ s.knownReceivers ≠ 0 ∧ MustBlockS s) ∧
    (r = none → s' = { s with waitingSenders := s.waitingSenders ++ [me] } ∧ ubOf e = []) := by
  unfold MustBlockS
  rw [← senderMustBlock_iff]
  rcases sendSeg1_ok h with ⟨h0, rfl, rfl, hu⟩ | ⟨h0, hm, hcb, rfl, rfl, hu⟩ |
      ⟨h0, hm, -, rfl, rfl, hu⟩ | ⟨h0, hm, rfl, -⟩
  · simp [h0]
  · cases hcb
  · simp [h0, hm, hu]
  · simp [hm]

example : ∃ s' e, sendSeg1 { bound := some 1, messages := [(7, [])], receiverClock := some [] }
    1 8 true [] = .ok (s', none, e) := ⟨_, _, rfl⟩

/-- NEGATION of "send blocks exactly while full", on a concrete reachable state: bounded(1),
buffer EMPTY, a receiver exists — and a new `send` blocks (the slot is reserved for the sender that
`recv` has just unblocked and that has not run yet). -/
theorem send_blocks_while_not_full :
    ∃ c, Reachable (some 1) c ∧ enabled c (.sendStart 2 9 true []) ∧ c.ch.messages = [] ∧
      c.ch.knownReceivers ≠ 0 ∧ ∃ s' e, sendSeg1 c.ch 2 9 true [] = .ok (s', none, e) := by
  have h : After (some 1) hReserved (fun c => enabled c (.sendStart 2 9 true []) ∧
      c.ch.messages = [] ∧ c.ch.knownReceivers ≠ 0 ∧ sendRes c.ch 2 9 true = some none) := by decide
  obtain ⟨c, hr, he, hm, hk, hs⟩ := h.reachable
  exact ⟨c, hr, he, hm, hk, sendRes_eq hs⟩

/-- `recv` blocks exactly while the buffer is empty and some sender exists (single receiver:
`waiting_receivers = []` when a `recv` starts) -/
theorem recv_blocks_iff_empty {s s' : ChanState} {me : Nat} {mine : Clock}
    {r : Option RecvRes} {e : List Eff} (hw : s.waitingReceivers = [])
    (h : recvSeg1 s me true mine = .ok (s', r, e)) :
    (r = none ↔ s.messages = [] ∧ s.knownSenders ≠ 0) ∧
    (r = none → s' = { s with waitingReceivers := [me] }) := by
  rcases recvSeg1_ok hw h with ⟨hm, hk, rfl, rfl, hu⟩ | ⟨hm, hk, hcb, hz, rfl, rfl, hu⟩ |
      ⟨hm, hk, hcb, rfl, rfl, hu⟩ | ⟨item, rest, hm, rfl, hu, ha⟩
  · simp [hk]
  · cases hcb
  · simp [hm, hk]
  · simp [hm]

example : ∃ s' e, recvSeg1 (ChanState.new (some 2)) 0 true [] = .ok (s', none, e) := ⟨_, _, rfl⟩
example : ∃ s' e, recvSeg1 { bound := none, messages := [(7, [])] } 0 true [] =
    .ok (s', some (.ok 7), e) := ⟨_, _, rfl⟩

/-- FULL STATEMENT ("try_send reports Full exactly when the buffer is full, try_recv reports Empty
exactly when it is empty") is FALSE for `try_send` (`try_send_full_while_not_full`) and has a
blocking corner for `try_recv` on rendezvous channels (`try_recv_blocks_on_rendezvous`).
What the code guarantees:
  * `try_send` never blocks; it reports `Full` iff a receiver exists and `MustBlockS`
    (at capacity, or an earlier sender queued, or rendezvous without a waiting receiver);
  * `try_recv` reports `Empty` iff the buffer is empty, a sender exists and it is not the case that
    the channel is a rendezvous channel with a queued sender; in that last case it BLOCKS;
    with a non-empty buffer it returns the first message. -/
theorem try_full_empty_exact_partial {s : ChanState} {me v : Nat} {clk mine : Clock} :
    (∀ s' r e, sendSeg1 s me v false clk = .ok (s', r, e) →
      r ≠ none ∧ (r = some .full ↔ s.knownReceivers ≠ 0 ∧ MustBlockS s) ∧
      (r = some .full → s' = s ∧ ubOf e = [])) ∧
    (s.waitingReceivers = [] → ∀ s' r e, recvSeg1 s me false mine = .ok (s', r, e) →
      (r = some .empty ↔ s.messages = [] ∧ s.knownSenders ≠ 0 ∧
          ¬ (s.bound = some 0 ∧ s.waitingSenders ≠ [])) ∧
      (r = some .empty → s' = s ∧ ubOf e = []) ∧
      (r = none ↔ s.messages = [] ∧ s.knownSenders ≠ 0 ∧ s.bound = some 0 ∧ s.waitingSenders ≠ []) ∧
      (∀ item rest, s.messages = item :: rest → r = some (.ok item.1))) := by
  constructor
  · intro s' r e h
    unfold MustBlockS
    rw [← senderMustBlock_iff]
    rcases sendSeg1_ok h with ⟨h0, rfl, rfl, hu⟩ | ⟨h0, hm, -, rfl, rfl, hu⟩ |
        ⟨h0, hm, hcb, rfl, rfl, hu⟩ | ⟨h0, hm, rfl, -⟩
    · simp [h0]
    · simp [h0, hm, hu]
    · cases hcb
    · simp [hm]
  · intro hw s' r e h
    rcases recvSeg1_ok hw h with ⟨hm, hk, rfl, rfl, hu⟩ | ⟨hm, hk, hcb, hz, rfl, rfl, hu⟩ |
        ⟨hm, hk, hcb, rfl, rfl, hu⟩ | ⟨item, rest, hm, rfl, hu, ha⟩
    · simp [hm, hk]
    · simp [hm, hk, hu]; simpa using hz
    · simp [hm, hk]
      rcases hcb with hcb | hcb
      · cases hcb
      · simpa using hcb
    · simp [hm]

example : ∃ s' e, sendSeg1 { bound := some 1, messages := [(7, [])], receiverClock := some [] }
    1 8 false [] = .ok (s', some .full, e) := ⟨_, _, rfl⟩
example : ∃ s' e, recvSeg1 (ChanState.new (some 1)) 0 false [] = .ok (s', some .empty, e) :=
  ⟨_, _, rfl⟩

/-- NEGATION of "try_send reports Full exactly when full", on a concrete reachable state:
bounded(1), buffer EMPTY, receiver alive — `try_send` reports `Full`.
Real runtime (harness IR, `vh run`), prints `v:7`, `err:full`, `err:empty` for ops 3–5 of task 0:
```
=== try_send_reserved
config steps=none clocks=0
obj c chan cap:1
task 0 thread
  send c 7
  spawn 1
  yield
  recv c
  try_send c 9
  try_recv c
  join 1
end
task 1 thread
  send c 8
end
run replay:91010cf8acd19101000a08
```
(`try_send → Full` followed by `try_recv → Empty` with no other operation completing in between is
impossible for a linearizable bounded queue.) -/
theorem try_send_full_while_not_full :
    ∃ c, Reachable (some 1) c ∧ enabled c (.sendStart 0 9 false []) ∧ c.ch.messages = [] ∧
      c.ch.knownReceivers ≠ 0 ∧ (∃ s' e, sendSeg1 c.ch 0 9 false [] = .ok (s', some .full, e)) ∧
      (∃ s' e, recvSeg1 c.ch 0 false [] = .ok (s', some .empty, e)) := by
  have h : After (some 1) hReserved (fun c => enabled c (.sendStart 0 9 false []) ∧
      c.ch.messages = [] ∧ c.ch.knownReceivers ≠ 0 ∧ sendRes c.ch 0 9 false = some (some .full) ∧
      recvRes c.ch 0 false = some (some .empty)) := by decide
  obtain ⟨c, hr, he, hm, hk, hs, hrr⟩ := h.reachable
  exact ⟨c, hr, he, hm, hk, sendRes_eq hs, recvRes_eq hrr⟩

/-- `try_recv` on a rendezvous channel with a queued sender does not return: it unblocks that
sender and blocks in `waiting_receivers` (it is then released by the sender's push, see
`no_stranded_waiter`, and returns the value). -/
theorem try_recv_blocks_on_rendezvous :
    ∃ c, Reachable (some 0) c ∧ enabled c (.recvStart 0 false []) ∧
      ∃ s' e, recvSeg1 c.ch 0 false [] = .ok (s', none, e) ∧ ubOf e = [1] := by
  have h : After (some 0) hRdvQueued (fun c => enabled c (.recvStart 0 false []) ∧
      recvResU c.ch 0 false = some (none, [1])) := by decide
  obtain ⟨c, hr, he, hs⟩ := h.reachable
  obtain ⟨s', e, hx, hu⟩ := recvResU_eq hs
  exact ⟨c, hr, he, s', e, hx, hu⟩

/-! ### 4. disconnection -/

/-- once no receiver is left, `send` / `try_send` fail with `Disconnected` and leave the channel
untouched; a sender that was blocked at that moment fails too and only leaves the queue -/
theorem disconnect_send_fails {s : ChanState} {me v : Nat} {cb : Bool} {clk : Clock}
    (h0 : s.knownReceivers = 0) :
    (∃ e, sendSeg1 s me v cb clk = .ok (s, some .disconnected, e) ∧ ubOf e = []) ∧
    (∃ e, sendSeg2 s me v clk =
      .ok ({ s with waitingSenders := s.waitingSenders.filter (· != me) }, some .disconnected, e) ∧
      ubOf e = []) := by
  constructor
  · refine ⟨[], ?_, rfl⟩
    simp [sendSeg1, sendSeg, bindStep, ChanState.sendStart, h0]
  · refine ⟨[], ?_, rfl⟩
    simp [sendSeg2, sendSeg, bindStep, ChanState.sendWake, h0]

example : After (some 1) [.dropR false]
    (fun c => c.ch.knownReceivers = 0 ∧ sendRes c.ch 0 5 true = some (some .disconnected) ∧
      sendRes c.ch 0 5 false = some (some .disconnected)) := by decide

/-- once no sender is left (`known_senders = 0`), every `recv` / `try_recv` of the idle receiver
returns the next buffered message, in order, and `Disconnected` exactly when the buffer is empty.
The successor configuration satisfies the same hypotheses, so the statement iterates: the receiver
drains `messages` front to back, then gets `Disconnected` forever. -/
theorem disconnect_recv_drains_then_fails {b : Option Nat} {c : Cfg} {t : Nat} {cb : Bool}
    {mine : Clock} (h : Reachable b c) (hk : c.ch.knownSenders = 0)
    (he : enabled c (.recvStart t cb mine)) :
    ∃ c' s' r e, fire c (.recvStart t cb mine) = .ok c' ∧ Reachable b c' ∧
      recvSeg1 c.ch t cb mine = .ok (s', r, e) ∧ c'.ch = s' ∧
      c'.ch.knownSenders = 0 ∧ enabled c' (.recvStart t cb mine) ∧
      (c.ch.messages = [] → r = some .disconnected ∧ c'.ch.messages = [] ∧
        c'.received = c.received) ∧
      (∀ item rest, c.ch.messages = item :: rest → r = some (.ok item.1) ∧
        c'.ch.messages = rest ∧ c'.received = c.received ++ [item.1]) := by
  obtain ⟨c', hf⟩ := fire_total h he
  have hr' := Reachable.step _ h he hf
  obtain ⟨s', r, e, hx, rfl⟩ := fire_recvStart hf
  have he' := he
  simp only [enabled] at he
  refine ⟨_, s', r, e, hf, hr', hx, rfl, ?_⟩
  rcases recvSeg1_ok he.2.1 hx with ⟨hm, -, rfl, rfl, hu⟩ | ⟨hm, hk', -⟩ |
      ⟨hm, hk', -⟩ | ⟨item, rest, hm, rfl, hu, ha⟩
  · refine ⟨hk, ?_, ?_, ?_⟩
    · simpa [enabled, Cfg.afterRecv] using he
    · intro _; simp [Cfg.afterRecv, hm]
    · intro item rest hm'; rw [hm] at hm'; cases hm'
  · exact absurd hk hk'
  · exact absurd hk hk'
  · have := recvAck_state ha
    subst this
    refine ⟨hk, ?_, ?_, ?_⟩
    · simpa [enabled, Cfg.afterRecv] using he
    · intro hm'; rw [hm] at hm'; cases hm'
    · intro item' rest' hm'
      rw [hm] at hm'; cases hm'
      simp [Cfg.afterRecv]

example : After none [.sendStart 0 5 true [], .sendStart 0 6 true [], .dropS false,
      .recvStart 0 true [], .recvStart 0 true []]
    (fun c => c.ch.knownSenders = 0 ∧ c.received = [5, 6] ∧ c.ch.messages = [] ∧
      recvRes c.ch 0 true = some (some .disconnected)) := by decide

/-! ### 5. no stranded waiter -/

/-- Whenever the condition a waiter waits for holds, the waiter at the head of its queue HAS been
unblocked (it is in the ghost set `ub` of tasks that received `Eff.unblock` since they blocked):
  * bounded `k ≥ 1`: a free slot and a receiver exist  ⇒ the head sender is unblocked;
  * rendezvous: the buffer is empty and the receiver waits ⇒ the head sender is unblocked;
  * a message is buffered ⇒ the waiting receiver is unblocked;
  * `known_receivers = 0` ⇒ every waiting sender is unblocked;
  * `known_senders = 0` ⇒ the waiting receiver is unblocked. -/
theorem no_stranded_waiter {b : Option Nat} {c : Cfg} (h : Reachable b c) :
    (c.ch.knownReceivers ≠ 0 → ∀ k, b = some k → 0 < k → c.ch.messages.length < k →
      ∀ t, c.ch.waitingSenders.head? = some t → t ∈ c.ub) ∧
    (c.ch.knownReceivers ≠ 0 → b = some 0 → c.ch.messages = [] → c.ch.waitingReceivers ≠ [] →
      ∀ t, c.ch.waitingSenders.head? = some t → t ∈ c.ub) ∧
    (c.ch.messages ≠ [] → ∀ r, c.ch.waitingReceivers.head? = some r → r ∈ c.ub) ∧
    (c.ch.knownReceivers = 0 → ∀ t ∈ c.ch.waitingSenders, t ∈ c.ub) ∧
    (c.ch.knownSenders = 0 → ∀ r ∈ c.ch.waitingReceivers, r ∈ c.ub) := by
  have hi := reachable_inv h
  have hb := reachable_bound h
  exact ⟨fun h0 k hk => hi.ns_space h0 k (hb.trans hk), fun h0 hk => hi.ns_rdv h0 (hb.trans hk),
    hi.ns_msg, hi.ns_noR, hi.ns_noS⟩

example : After (some 1) hReserved (fun c => c.ch.knownReceivers ≠ 0 ∧ c.ch.messages.length < 1 ∧
    c.ch.waitingSenders.head? = some 1 ∧ 1 ∈ c.ub) := by decide
example : After none [.recvStart 0 true [], .dropS false]
    (fun c => c.ch.knownSenders = 0 ∧ c.ch.waitingReceivers = [0] ∧ 0 ∈ c.ub) := by decide

/-- an unblocked waiter's second segment is enabled, does not panic, and completes the operation
(it never blocks again): the waiter is really released -/
theorem unblocked_waiter_completes {b : Option Nat} {c : Cfg} (h : Reachable b c) (t : Nat)
    (clk : Clock) (hu : t ∈ c.ub) :
    (t ∈ c.ch.waitingSenders → ∃ s' r e, sendSeg2 c.ch t (c.pv t) clk = .ok (s', some r, e) ∧
      t ∉ s'.waitingSenders) ∧
    (t ∈ c.ch.waitingReceivers → ∃ s' r e, recvSeg2 c.ch t clk = .ok (s', some r, e) ∧
      t ∉ s'.waitingReceivers) := by
  have hi := reachable_inv h
  constructor
  · intro hw
    have he : enabled c (.sendWake t clk) := ⟨hw, hu⟩
    obtain ⟨c', hf⟩ := fire_total h he
    obtain ⟨s', r, e, hx, rfl⟩ := fire_sendWake hf
    rcases sendSeg2_ok hx with ⟨h0, rfl, rfl, -⟩ | ⟨h0, rfl, rest, o, e', hws, hp, -⟩
    · exact ⟨_, _, e, hx, by simp⟩
    · refine ⟨_, _, e, hx, ?_⟩
      obtain ⟨rfl, -, -⟩ := sendPush_state hp
      have := hi.ws_nodup
      rw [hws] at this
      simpa using (List.nodup_cons.mp this).1
  · intro hw
    have he : enabled c (.recvWake t clk) := ⟨hw, hu⟩
    obtain ⟨c', hf⟩ := fire_total h he
    obtain ⟨s', r, e, hx, rfl⟩ := fire_recvWake hf
    rcases recvSeg2_ok hx with ⟨hm, hk, rfl, rfl, -⟩ | ⟨h0, wrest, item, rest, hwr, hm, rfl, -, ha⟩
    · exact ⟨_, _, e, hx, by simp⟩
    · refine ⟨_, _, e, hx, ?_⟩
      have := recvAck_state ha
      subst this
      have hl := hi.wr_le
      rw [hwr] at hl
      simp at hl
      simp [hl]

example : After (some 1) hReserved (fun c => 1 ∈ c.ub ∧ 1 ∈ c.ch.waitingSenders) := by decide

/-- FULL STATEMENT ("when the last endpoint of the other side is dropped every waiter has been
unblocked", in terms of the endpoints that really exist: `liveS = 0 → ∀ r ∈ waiting_receivers,
r ∈ ub` and `liveR = false → ∀ t ∈ waiting_senders, t ∈ ub`) is FALSE: `Drop` does nothing at all
when `ExecutionState::should_stop()` (a task is panicking / the execution is being stopped), so
`known_senders` / `known_receivers` stay positive.  Witness: the receiver blocks in `recv`, the
only `Sender` is dropped while `should_stop()`: no sender is left, the receiver is not unblocked.
(On the real runtime this can only happen while a panic is already propagating, i.e. the execution
is failing anyway.) -/
theorem stranded_after_skipped_drop :
    ∃ c, Reachable none c ∧ c.liveS = 0 ∧ c.ch.waitingReceivers = [0] ∧ 0 ∉ c.ub ∧
      c.skipped = true := by
  have h : After none hSkipped (fun c => c.liveS = 0 ∧ c.ch.waitingReceivers = [0] ∧ 0 ∉ c.ub ∧
      c.skipped = true) := by decide
  exact h.reachable

/-- … and it holds as long as no drop was skipped -/
theorem no_stranded_waiter_on_disconnect_partial {b : Option Nat} {c : Cfg} (h : Reachable b c)
    (hs : c.skipped = false) :
    (c.liveS = 0 → ∀ r ∈ c.ch.waitingReceivers, r ∈ c.ub) ∧
    (c.liveR = false → ∀ t ∈ c.ch.waitingSenders, t ∈ c.ub) := by
  have hi := reachable_inv h
  obtain ⟨h1, h2⟩ := hi.exact hs
  exact ⟨fun h0 => hi.ns_noS (h1.trans h0), fun h0 => hi.ns_noR (h2 h0)⟩

example : After (some 1) [.sendStart 0 7 true [], .sendStart 1 8 true [], .dropR false]
    (fun c => c.skipped = false ∧ c.liveR = false ∧ c.ch.waitingSenders = [1] ∧ 1 ∈ c.ub) := by
  decide

/-! ### 6. refinement of the abstract bounded FIFO, absence of panics -/

/-- every transition of the channel is a transition (or a stutter) of the abstract bounded FIFO
`AStep` with capacity `max(bound, 1)` (unbounded for `None`), under
`abs s = (values of messages, known_senders, known_receivers ≠ 0)` -/
theorem abstract_refinement {b : Option Nat} {c c' : Cfg} {l : Label} (h : Reachable b c)
    (he : enabled c l) (hf : fire c l = .ok c') : AStep (capOf b) (abs c.ch) (abs c'.ch) :=
  refine_step h he hf

example : After (some 1) [.sendStart 0 7 true []]
    (fun c => abs c.ch = { queue := [7], senders := 1, receiverAlive := true }) := by decide

/-- no `assert!` / `expect` / index panic of mpsc.rs is reachable -/
theorem no_panic {b : Option Nat} {c : Cfg} {l : Label} (h : Reachable b c) (he : enabled c l) :
    ∃ c', fire c l = .ok c' :=
  fire_total h he

example : After (some 0) [.sendStart 1 8 true [], .recvStart 0 true []]
    (fun c => enabled c (.sendWake 1 [])) := by decide

end ShuttleModel.C06
