import ShuttleProofs.C07
import ShuttleProofs.C07Join
/-! `#print axioms` for every property theorem of C07. -/
open ShuttleProofs

#print axioms C07.storage_init_once
#print axioms C07.storage_pop_in_insertion_order
#print axioms C07.storage_tombstone_access_is_error
#print axioms C07.storage_pop_loop_terminates_with_late_inits
#print axioms C07.tls_model_refines_storage
#print axioms C07.thread_fn_order
#print axioms C07.join_returns_only_when_finished
#print axioms C07.task_ids_unique
#print axioms C07.closure_runs_once
#print axioms C07.scope_waits_for_all
#print axioms C07.scope_unblock_only_when_waiting

-- the wait loop of `JoinHandle::join` (F29 repaired): ShuttleProofs/C07Join.lean
#print axioms C07.joinWait_exits_only_via_finished_answer
#print axioms C07.not_exitsViaNotBlocking_pure
#print axioms C07.runSegment_setWaiter
#print axioms C07.join_returns_only_when_finished_loop
#print axioms C07.joinWait_segment
