/-
  Axiom audit for C10. Expected: only `propext`, `Classical.choice`, `Quot.sound` (or fewer).
-/
import ShuttleProofs.C10

open ShuttleProofs.C10

#print axioms choose_uniform
#print axioms choose_uniform_genIndex
#print axioms choose_uniform_u64
#print axioms every_offered_positive
#print axioms choose_history_free
#print axioms nextTask_history_free
#print axioms iteration_reproducible
#print axioms iteration_reproducible_any_state
