import ShuttleProofs.Lemmas.ReplayData
import ShuttleProofs.Lemmas.ReplayNondet
import ShuttleProofs.Lemmas.ReplayClock
import ShuttleProofs.Lemmas.ReplayExamples
import ShuttleProofs.C16

/-!
# C01 — an execution is determined by its recorded schedule; replay reproduces it

Models: `ShuttleModel/Kernel.lean` (runtime), `ShuttleModel/Sched/Replay.lean` (`ReplayScheduler`),
`ShuttleModel/Sched/NondetCheck.lean` (`UncontrolledNondeterminismCheckScheduler`), `Serialize.lean`, `Rng.lean`,
`Runner.lean`.  Everything is for ALL programs `P`, ALL schedulers `S` (any state type), ALL `MaxSteps`, seeds,
scheduler states and ALL amounts of model fuel.

Proof architecture (`ShuttleProofs/Lemmas/Replay*.lean`):
* `ReplaySim`   — `Follows S S' R` / `execute_follows`: a scheduler `S'` that, related by `R` to the original
                  scheduler state and to the events the original run still has to log, answers every consultation
                  and draw like the original, drives the very same execution (induction over `runLoop` fuel with
                  an inner induction over `runSegment`, all ~30 kernel requests).
* `ReplaySched` — the `ReplayScheduler` is such a follower of the log whose projection (`record_exact`) it replays.
* `ReplayInv`   — scheduler-state/log invariants (`execute_logInv`), schedulers that never cause a scheduler panic.
* `ReplayData`  — `DataFaithful` for round-robin / random / DFS.
* `ReplaySeed`  — the seed stored in the kernel is never read (`execute_seed`).
* `ReplayNondet`— the nondeterminism checker: recording = inner run + projection of the log; checking = follower.
* `ReplayClock` — `next_task` with a target clock.

Theorems: `replay_faithful(_core)`, `replay_exhausts_schedule`, `replay_from_string(_ws,_ws_insert)`, `recorded_wf`,
`replay_entry_point`, `builtin_data_faithful(_exec)`, `nondet_check_never_rejects(_pair)`,
`nondet_check_newExec_once_per_pair`, `target_clock_keeps_dependencies_partial`.

Remarks on model vs Rust:
* `shuttle::replay` builds its `Runner` with `Default::default()` config; the theorems replay with the SAME
  `MaxSteps` as the original run (with a different bound the runs agree as long as neither bound is hit, see
  `runLoop_stMS`).
* "Determinism of the body" is built into the model: a `Program` is a deterministic function of what the kernel
  returns.  Consequently the checker theorem says: for bodies whose only nondeterminism is scheduling and
  `shuttle::rand`, none of the checker's panics is reachable.
* `ReplayScheduler::next_u64` indexes `schedule.steps[self.steps]` without a bounds check (index panic when the
  schedule is exhausted): modelled as the scheduler panic `msgIndex`.
* the checker's recording execution and checking execution run with different schedule seeds (`seed` / dummy 0):
  harmless, the seed stored in `CURRENT_SCHEDULE` is never read during an execution (`execute_seed`).
-/

namespace ShuttleProofs.C01
open ShuttleModel ShuttleModel.Replay ShuttleModel.NondetCheck ShuttleProofs.Kernel ShuttleProofs.Replay

variable {σ : Type}

/-- the replay scheduler's state when its (only) execution starts: what `new_execution` makes of
`new_from_schedule(sch)` -/
def replayStart (sch : Schedule) : ReplayState :=
  { newFromSchedule sch with started := true, data := seededSource sch.seed }

/-- `new_execution` of a fresh replay scheduler returns the seed of the schedule it replays -/
theorem newExec_newFromSchedule (sch : Schedule) :
    replayScheduler.newExec (newFromSchedule sch) = .some sch.seed (replayStart sch) := rfl

/-- … and there is no second execution -/
theorem newExec_replayStarted (rs : ReplayState) (h : rs.started = true) :
    replayScheduler.newExec rs = .none := by
  show Replay.newExec rs = .none
  unfold Replay.newExec
  rw [h]; rfl

/-- the schedule a run has recorded when it ends, as the `Schedule` value that gets printed -/
def recordedOf (seed : Nat) {P : Program} (r : Result P σ) : Schedule :=
  { seed := seed, steps := r.st.k.schedule_.map ofSStep }

theorem noNone_of_not_stopped (P : Program) (S : Scheduler σ) (ms : MaxSteps) (seed : Nat) (s : σ)
    (fuel segFuel : Nat) (h : (execute P S ms seed s fuel segFuel).outcome ≠ .stopped) :
    NoNone (execute P S ms seed s fuel segFuel).st.log.toList := by
  intro ev hev o c y heq
  subst heq
  exact h (C08.none_stops_without_failure P S ms seed s fuel segFuel o c y hev).1

/-- the relation `RR` holds between the whole log of a run and the freshly started replay of its recording -/
theorem RR_init (P : Program) (S : Scheduler σ) (ms : MaxSteps) (seed : Nat) (s : σ) (fuel segFuel : Nat)
    (hsp : ∀ msg, (execute P S ms seed s fuel segFuel).outcome ≠ .schedPanic msg)
    (hst : (execute P S ms seed s fuel segFuel).outcome ≠ .stopped)
    (hdf : DataFaithful seed (execute P S ms seed s fuel segFuel).st.log.toList) :
    RR (recordedOf seed (execute P S ms seed s fuel segFuel)) s
      (execute P S ms seed s fuel segFuel).st.log.toList
      (replayStart (recordedOf seed (execute P S ms seed s fuel segFuel))) where
  schedule := rfl
  allow := rfl
  target := rfl
  skipped := rfl
  started := rfl
  le := Nat.zero_le _
  rest := by
    show List.drop 0 ((execute P S ms seed s fuel segFuel).st.k.schedule_.map ofSStep) = _
    rw [C08.record_exact_of_not_schedPanic P S ms seed s fuel segFuel hsp]
    rfl
  noNone := noNone_of_not_stopped P S ms seed s fuel segFuel hst
  data := hdf

/-- **replay_faithful** (core form).  Let `r` be ANY execution (any program, scheduler, `MaxSteps`, fuel) that did
not end with a scheduler panic or with the scheduler answering `None`, and whose draws came from the data stream
of its seed.  Start a `ReplayScheduler` on the schedule `r` recorded: `new_execution` returns the same seed, and
the execution it drives is `r` again — identical kernel state (hence identical recorded schedule), user state,
continuations, event log (consultations with their offered lists / `current` / yielding flags / choices, draws,
observations) and outcome; the replay cursor ends exactly at the end of the schedule, nothing was skipped. -/
theorem replay_faithful_core (P : Program) (S : Scheduler σ) (ms : MaxSteps) (seed : Nat) (s : σ)
    (fuel segFuel : Nat)
    (hsp : ∀ msg, (execute P S ms seed s fuel segFuel).outcome ≠ .schedPanic msg)
    (hst : (execute P S ms seed s fuel segFuel).outcome ≠ .stopped)
    (hdf : DataFaithful seed (execute P S ms seed s fuel segFuel).st.log.toList) :
    replayScheduler.newExec (newFromSchedule (recordedOf seed (execute P S ms seed s fuel segFuel))) =
        .some seed (replayStart (recordedOf seed (execute P S ms seed s fuel segFuel))) ∧
      ∃ rsF : ReplayState,
        execute P replayScheduler.sched ms seed
            (replayStart (recordedOf seed (execute P S ms seed s fuel segFuel))) fuel segFuel =
          reRes (execute P S ms seed s fuel segFuel) rsF ∧
        rsF.schedule = recordedOf seed (execute P S ms seed s fuel segFuel) ∧
        rsF.steps = rsF.schedule.steps.length ∧ rsF.stepsSkipped = 0 ∧ rsF.started = true := by
  refine ⟨rfl, ?_⟩
  obtain ⟨rsF, h1, h2⟩ := execute_follows (replay_follows S (recordedOf seed (execute P S ms seed s fuel segFuel)))
    P ms seed s (replayStart (recordedOf seed (execute P S ms seed s fuel segFuel))) fuel segFuel hsp
    (RR_init P S ms seed s fuel segFuel hsp hst hdf)
  exact ⟨rsF, h1, h2.schedule, by rw [h2.schedule]; exact h2.exhausted, h2.skipped, h2.started⟩

/-- **replay_faithful.**  For every program `P`, every scheduler `S` (any state type), every `MaxSteps`, seed,
initial scheduler state and fuel: if the execution `r` did not end with a scheduler panic nor with the scheduler
answering `None`, and is `DataFaithful`, then the `ReplayScheduler` built from the schedule `r` recorded starts an
execution with the same seed, and that execution has the same event log, the same outcome, the same final user
state, kernel state and continuations, and records the same schedule again.

(The hypothesis "`r.outcome ≠ outOfFuel`" of the informal statement is not needed: with the same model fuel the
replay runs out of fuel at the same point.) -/
theorem replay_faithful (P : Program) (S : Scheduler σ) (ms : MaxSteps) (seed : Nat) (s : σ) (fuel segFuel : Nat)
    (hsp : ∀ msg, (execute P S ms seed s fuel segFuel).outcome ≠ .schedPanic msg)
    (hst : (execute P S ms seed s fuel segFuel).outcome ≠ .stopped)
    (hdf : DataFaithful seed (execute P S ms seed s fuel segFuel).st.log.toList) :
    ∃ seed' rs0,
      replayScheduler.newExec (newFromSchedule (recordedOf seed (execute P S ms seed s fuel segFuel))) =
        .some seed' rs0 ∧ seed' = seed ∧
      (execute P replayScheduler.sched ms seed' rs0 fuel segFuel).st.log =
        (execute P S ms seed s fuel segFuel).st.log ∧
      (execute P replayScheduler.sched ms seed' rs0 fuel segFuel).outcome =
        (execute P S ms seed s fuel segFuel).outcome ∧
      (execute P replayScheduler.sched ms seed' rs0 fuel segFuel).st.u =
        (execute P S ms seed s fuel segFuel).st.u ∧
      (execute P replayScheduler.sched ms seed' rs0 fuel segFuel).st.k =
        (execute P S ms seed s fuel segFuel).st.k ∧
      (execute P replayScheduler.sched ms seed' rs0 fuel segFuel).st.conts =
        (execute P S ms seed s fuel segFuel).st.conts ∧
      (execute P replayScheduler.sched ms seed' rs0 fuel segFuel).st.k.schedule_ =
        (execute P S ms seed s fuel segFuel).st.k.schedule_ ∧
      recordedOf seed' (execute P replayScheduler.sched ms seed' rs0 fuel segFuel) =
        recordedOf seed (execute P S ms seed s fuel segFuel) := by
  obtain ⟨h0, rsF, h1, _⟩ := replay_faithful_core P S ms seed s fuel segFuel hsp hst hdf
  refine ⟨seed, _, h0, rfl, ?_⟩
  rw [h1]
  exact ⟨rfl, rfl, rfl, rfl, rfl, rfl, rfl⟩

/-- **replay_exhausts_schedule.**  In the replay of a recorded execution none of the replay scheduler's panics
("schedule ended early", "expected context switch …", "scheduled task is not runnable …", "expected random choice
…", index out of bounds) is reachable — the outcome is never a scheduler panic —, the cursor ends exactly at the
end of the schedule, no step was skipped, and a second `new_execution` returns `None`. -/
theorem replay_exhausts_schedule (P : Program) (S : Scheduler σ) (ms : MaxSteps) (seed : Nat) (s : σ)
    (fuel segFuel : Nat)
    (hsp : ∀ msg, (execute P S ms seed s fuel segFuel).outcome ≠ .schedPanic msg)
    (hst : (execute P S ms seed s fuel segFuel).outcome ≠ .stopped)
    (hdf : DataFaithful seed (execute P S ms seed s fuel segFuel).st.log.toList) :
    ∃ rs0, replayScheduler.newExec (newFromSchedule (recordedOf seed (execute P S ms seed s fuel segFuel))) =
        .some seed rs0 ∧
      (∀ msg, (execute P replayScheduler.sched ms seed rs0 fuel segFuel).outcome ≠ .schedPanic msg) ∧
      (execute P replayScheduler.sched ms seed rs0 fuel segFuel).st.sch.steps =
        (recordedOf seed (execute P S ms seed s fuel segFuel)).steps.length ∧
      (execute P replayScheduler.sched ms seed rs0 fuel segFuel).st.sch.schedule =
        recordedOf seed (execute P S ms seed s fuel segFuel) ∧
      (execute P replayScheduler.sched ms seed rs0 fuel segFuel).st.sch.stepsSkipped = 0 ∧
      replayScheduler.newExec (execute P replayScheduler.sched ms seed rs0 fuel segFuel).st.sch = .none := by
  obtain ⟨h0, rsF, h1, h2, h3, h4, h5⟩ := replay_faithful_core P S ms seed s fuel segFuel hsp hst hdf
  refine ⟨_, h0, ?_⟩
  rw [h1]
  refine ⟨hsp, ?_, h2, h4, newExec_replayStarted _ h5⟩
  show rsF.steps = _
  rw [h3, h2]

/-! ### `replay_from_string` -/

/-- a recorded schedule is well-formed (representable: `u64` seed, `usize` ids and length) under the explicit
side conditions -/
theorem recorded_wf (seed : Nat) (steps : List SStep) (hseed : seed < 2 ^ 64)
    (hids : ∀ t, SStep.task t ∈ steps → t < 2 ^ 64) (hlen : steps.length < 2 ^ 64) :
    (Schedule.mk seed (steps.map ofSStep)).wf := by
  refine ⟨hseed, ?_, by simpa using hlen⟩
  intro id hid
  simp only [List.mem_map] at hid
  obtain ⟨st, hst, heq⟩ := hid
  cases st with
  | task t => simp only [ofSStep, ScheduleStep.task.injEq] at heq; subst heq; exact hids t hst
  | random => cases heq

/-- **replay_from_string**: `ReplayScheduler::new_from_encoded` applied to the printed form of a well-formed
schedule is `new_from_schedule` of that schedule … -/
theorem replay_from_string (sch : Schedule) (h : sch.wf) :
    newFromEncoded (serializeSchedule sch) = some (newFromSchedule sch) := by
  unfold newFromEncoded
  rw [ShuttleModel.C16.roundtrip sch h]

/-- … also with whitespace inserted / removed anywhere (e.g. re-wrapped, pasted with indentation). -/
theorem replay_from_string_ws (sch : Schedule) (h : sch.wf) (t : String)
    (ht : t.toList.filter (fun c => !isWhitespace c) = hexOfSchedule sch) :
    newFromEncoded t = some (newFromSchedule sch) := by
  unfold newFromEncoded
  rw [ShuttleModel.C16.roundtrip_ws sch h t ht]

theorem replay_from_string_ws_insert (sch : Schedule) (h : sch.wf) (a b ws : List Char)
    (hab : (serializeSchedule sch).toList = a ++ b) (hws : ∀ c ∈ ws, isWhitespace c = true) :
    newFromEncoded (String.ofList (a ++ ws ++ b)) = some (newFromSchedule sch) := by
  unfold newFromEncoded
  rw [ShuttleModel.C16.roundtrip_ws_insert sch h a b ws hab hws]

/-- **The replay entry point** `shuttle::replay(f, printed schedule)`: runs exactly one execution, which is `r`
again (`reRes r _`: same outcome, log, user state, kernel), and `Runner::run` returns `Ok(1)` iff `r` was not a
failure. -/
theorem replay_entry_point (P : Program) (S : Scheduler σ) (ms : MaxSteps) (seed : Nat) (s : σ) (fuel segFuel : Nat)
    (hsp : ∀ msg, (execute P S ms seed s fuel segFuel).outcome ≠ .schedPanic msg)
    (hst : (execute P S ms seed s fuel segFuel).outcome ≠ .stopped)
    (hdf : DataFaithful seed (execute P S ms seed s fuel segFuel).st.log.toList)
    (hwf : (recordedOf seed (execute P S ms seed s fuel segFuel)).wf) :
    ∃ res rsF, Replay.replay P (serializeSchedule (recordedOf seed (execute P S ms seed s fuel segFuel))) ms fuel
        segFuel = some res ∧
      res.execs = [(seed, reRes (execute P S ms seed s fuel segFuel) rsF)] ∧
      res.count = (if (execute P S ms seed s fuel segFuel).outcome.isFailure then none else some 1) ∧
      res.newExecPanic = none := by
  obtain ⟨h0, rsF, h1, h2, h3, h4, h5⟩ := replay_faithful_core P S ms seed s fuel segFuel hsp hst hdf
  unfold Replay.replay
  rw [replay_from_string _ hwf]
  simp only [runner, h0, h1]
  by_cases hf : (execute P S ms seed s fuel segFuel).outcome.isFailure = true
  · refine ⟨_, rsF, rfl, ?_⟩
    simp [reRes, hf]
  · have hn : replayScheduler.newExec rsF = .none := newExec_replayStarted _ h5
    refine ⟨_, rsF, rfl, ?_⟩
    simp [reRes, hf, hn]

/-! ### `builtin_data_faithful` -/

/-- **builtin_data_faithful**: every execution started by the `Runner` loop under the round-robin, the random or
the DFS scheduler (from any scheduler state, for any program) is `DataFaithful` for the seed `new_execution`
returned — unless it ended with a scheduler panic (e.g. DFS with `allow_random_data = false` asked for data). -/
theorem builtin_data_faithful (P : Program) (ms : MaxSteps) (fuel segFuel iters : Nat) :
    (∀ (s : RRState), ∀ x ∈ (runner P rrScheduler ms fuel segFuel iters s []).execs, ExecFaithful x) ∧
    (∀ (s : Rng.RandomScheduler), ∀ x ∈ (runner P randomScheduler ms fuel segFuel iters s []).execs,
      ExecFaithful x) ∧
    (∀ (s : DfsFull), ∀ x ∈ (runner P dfsScheduler ms fuel segFuel iters s []).execs, ExecFaithful x) :=
  ⟨fun s => runner_data_faithful rr_dataFull P ms fuel segFuel iters s [] (by simp),
   fun s => runner_data_faithful random_dataFull P ms fuel segFuel iters s [] (by simp),
   fun s => runner_data_faithful dfs_dataFull P ms fuel segFuel iters s [] (by simp)⟩

/-- single-execution form: after `new_execution` returned `seed`, the execution is `DataFaithful seed` -/
theorem builtin_data_faithful_exec (P : Program) (ms : MaxSteps) (fuel segFuel : Nat) :
    (∀ (s s' : RRState) seed, rrScheduler.newExec s = .some seed s' →
      (∀ msg, (execute P rrScheduler.sched ms seed s' fuel segFuel).outcome ≠ .schedPanic msg) →
      DataFaithful seed (execute P rrScheduler.sched ms seed s' fuel segFuel).st.log.toList) ∧
    (∀ (s s' : Rng.RandomScheduler) seed, randomScheduler.newExec s = .some seed s' →
      (∀ msg, (execute P randomScheduler.sched ms seed s' fuel segFuel).outcome ≠ .schedPanic msg) →
      DataFaithful seed (execute P randomScheduler.sched ms seed s' fuel segFuel).st.log.toList) ∧
    (∀ (s s' : DfsFull) seed, dfsScheduler.newExec s = .some seed s' →
      (∀ msg, (execute P dfsScheduler.sched ms seed s' fuel segFuel).outcome ≠ .schedPanic msg) →
      DataFaithful seed (execute P dfsScheduler.sched ms seed s' fuel segFuel).st.log.toList) :=
  ⟨fun _ s' seed h hne => dataFaithful_of_proj rr_dataFull.sched P ms seed s' fuel segFuel
      (rr_dataFull.newExec _ _ _ h) hne,
   fun _ s' seed h hne => dataFaithful_of_proj random_dataFull.sched P ms seed s' fuel segFuel
      (random_dataFull.newExec _ _ _ h) hne,
   fun _ s' seed h hne => dataFaithful_of_proj dfs_dataFull.sched P ms seed s' fuel segFuel
      (dfs_dataFull.newExec _ _ _ h) hne⟩

/-! ### non-vacuity (part 1) -/

section examples

theorem not_schedPanic_of_eq {o o' : Outcome} (h : o = o') (h' : ∀ msg, o' ≠ .schedPanic msg) :
    ∀ msg, o ≠ .schedPanic msg := by subst h; exact h'

/-- the 3-task program `exR` (two draws, a yield, observations that depend on the draws and on the interleaving)
under the round-robin scheduler, first execution (seed 0) -/
abbrev runR := execute exR rrScheduler.sched .none 0 rr1 50 50
/-- its panicking variant (task 1 panics because main drew an even number) -/
abbrev runRPanic := execute exRPanic rrScheduler.sched .none 0 rr1 50 50
/-- its deadlocking variant -/
abbrev runRDeadlock := execute exRDeadlock rrScheduler.sched .none 0 rr1 50 50

def schR : Schedule :=
  ⟨0, [.task 0, .task 1, .task 2, .task 0, .random, .task 1, .random, .task 2, .task 0]⟩

example : runR.outcome = .ok ∧ runRPanic.outcome = .panic 1 "even" ∧
    runRDeadlock.outcome = .deadlock [(0, false, false)] := by decide +kernel

example : recordedOf 0 runR = schR := by decide +kernel

/-- the hypotheses of `replay_faithful` hold for the three runs (`DataFaithful` through `builtin_data_faithful`) -/
example : (∀ msg, runR.outcome ≠ .schedPanic msg) ∧ runR.outcome ≠ .stopped ∧
    DataFaithful 0 runR.st.log.toList := by
  have h : runR.outcome = .ok := by decide +kernel
  have hsp := not_schedPanic_of_eq h (by intro msg hh; cases hh)
  refine ⟨hsp, ?_, (builtin_data_faithful_exec exR .none 50 50).1 rr0 rr1 0 rr_newExec hsp⟩
  rw [h]; intro hh; cases hh

example : (∀ msg, runRPanic.outcome ≠ .schedPanic msg) ∧ runRPanic.outcome ≠ .stopped ∧
    DataFaithful 0 runRPanic.st.log.toList := by
  have h : runRPanic.outcome = .panic 1 "even" := by decide +kernel
  have hsp := not_schedPanic_of_eq h (by intro msg hh; cases hh)
  refine ⟨hsp, ?_, (builtin_data_faithful_exec exRPanic .none 50 50).1 rr0 rr1 0 rr_newExec hsp⟩
  rw [h]; intro hh; cases hh

example : (∀ msg, runRDeadlock.outcome ≠ .schedPanic msg) ∧ runRDeadlock.outcome ≠ .stopped ∧
    DataFaithful 0 runRDeadlock.st.log.toList := by
  have h : runRDeadlock.outcome = .deadlock [(0, false, false)] := by decide +kernel
  have hsp := not_schedPanic_of_eq h (by intro msg hh; cases hh)
  refine ⟨hsp, ?_, (builtin_data_faithful_exec exRDeadlock .none 50 50).1 rr0 rr1 0 rr_newExec hsp⟩
  rw [h]; intro hh; cases hh

/-- the conclusion, checked independently by evaluation: replaying `schR` gives the same log (12 events: 8
consultations, 2 draws with their 64-bit values, 3 observations), outcome and recorded schedule; the cursor ends
at 9 = the length of the schedule -/
example :
    (execute exR replayScheduler.sched .none 0 (replayStart schR) 50 50).st.log.toList = runR.st.log.toList ∧
    (execute exR replayScheduler.sched .none 0 (replayStart schR) 50 50).st.log.toList =
      [.dec [0] none false (some 0), .dec [0, 1, 2] (some 0) false (some 1),
       .dec [0, 1, 2] (some 1) false (some 2), .dec [0, 1, 2] (some 2) true (some 0),
       .draw 6198063878555692194, .dec [0, 1, 2] (some 0) false (some 1), .obs "main drew an even number",
       .draw 15457584781082106573, .obs "odd", .dec [0, 2] (some 1) false (some 2),
       .obs "child 2 ran after main stored", .dec [0] (some 2) false (some 0)] ∧
    (execute exR replayScheduler.sched .none 0 (replayStart schR) 50 50).outcome = .ok ∧
    recordedOf 0 (execute exR replayScheduler.sched .none 0 (replayStart schR) 50 50) = schR ∧
    (execute exR replayScheduler.sched .none 0 (replayStart schR) 50 50).st.sch.steps = 9 := by
  decide +kernel

/-- the panicking and the deadlocking run replay to the same panic / the same deadlock report -/
example :
    (execute exRPanic replayScheduler.sched .none 0 (replayStart (recordedOf 0 runRPanic)) 50 50).outcome =
      .panic 1 "even" ∧
    (execute exRDeadlock replayScheduler.sched .none 0 (replayStart (recordedOf 0 runRDeadlock)) 50 50).outcome =
      .deadlock [(0, false, false)] := by
  decide +kernel

/-- `DataFaithful` is necessary: `lastCount` answers `next_u64` with 100, 101, … (not the stream of its seed); its
run is complete and passes, but replaying the schedule it recorded draws other numbers, and the run differs -/
example :
    (execute exR lastCount .none 0 0 50 50).outcome = .ok ∧
    draws (execute exR lastCount .none 0 0 50 50).st.log.toList = [100, 101] ∧
    draws (execute exR replayScheduler.sched .none 0
      (replayStart (recordedOf 0 (execute exR lastCount .none 0 0 50 50))) 50 50).st.log.toList =
      [6198063878555692194, 15457584781082106573] := by
  decide +kernel

/-- a schedule that does not fit: each of the replay scheduler's panics is reachable in general -/
example :
    (execute exR replayScheduler.sched .none 0 (replayStart ⟨0, [.task 0, .random]⟩) 50 50).outcome =
      .schedPanic msgExpectedSwitch ∧
    (execute exR replayScheduler.sched .none 0 (replayStart ⟨0, [.task 0, .task 1]⟩) 50 50).outcome =
      .schedPanic msgEndedEarly ∧
    (execute exR replayScheduler.sched .none 0 (replayStart ⟨0, [.task 0, .task 5]⟩) 50 50).outcome =
      .schedPanic msgNotRunnable ∧
    (execute exR replayScheduler.sched .none 0 (replayStart ⟨0, [.task 0, .task 0, .task 0]⟩) 50 50).outcome =
      .schedPanic msgExpectedRandom ∧
    (execute exR replayScheduler.sched .none 0 (replayStart ⟨0, [.task 0, .task 0]⟩) 50 50).outcome =
      .schedPanic msgIndex := by
  decide +kernel

/-- `replay_from_string` on the printed form of `schR` -/
example : serializeSchedule schR = "9102090010510900" ∧ schR.wf := by decide +kernel

example : newFromEncoded "9102090010510900" = some (newFromSchedule schR) := by
  have h : serializeSchedule schR = "9102090010510900" := by decide +kernel
  rw [← h]; exact replay_from_string schR (by decide)

example : newFromEncoded " 9102 0900\n\t10510900 " = some (newFromSchedule schR) :=
  replay_from_string_ws schR (by decide) _ (by decide +kernel)

/-- `recorded_wf` applies to the recorded schedule of `runR` -/
example : (recordedOf 0 runR).wf := by
  have h : runR.st.k.schedule_ =
      [.task 0, .task 1, .task 2, .task 0, .random, .task 1, .random, .task 2, .task 0] := by decide +kernel
  refine recorded_wf 0 runR.st.k.schedule_ (by decide) ?_ (by rw [h]; decide)
  intro t ht
  rw [h] at ht
  simp at ht
  omega

/-- the entry point on the printed schedule: one execution, `Ok(1)` -/
example : (Replay.replay exR "9102090010510900" .none 50 50).map
    (fun res => (res.count, res.execs.map (fun e => (e.1, e.2.outcome)))) = some (some 1, [(0, .ok)]) := by
  decide +kernel

end examples

/-! ### the uncontrolled-nondeterminism checker

What `UncontrolledNondeterminismCheckScheduler` compares (NondetCheck.lean): during the *recording* execution
it stores, per `next_task`, the inner scheduler's choice, the runnable ids it was shown and `is_yielding`, and
per `next_u64` the value; during the *checking* execution (seed 0, inner scheduler not consulted) it panics with
"possible nondeterminism" if (a) a call arrives after the recording is exhausted, (b) a `next_task` call meets a
recorded `Random` or vice versa, (c) the runnable ids differ, (d) `is_yielding` differs; and at the next
`new_execution` if (e) the checking execution consumed fewer steps than recorded.  `current` is not compared.
-/

/-- **nondet_check_never_rejects**, one pair of executions, for EVERY program, EVERY inner scheduler `F` (any
state type, no `DataFaithful` assumption — the checker replays the drawn values themselves) and every idle
checker state (e.g. `new s`): if `F.new_execution` returns `seed`/`inner` and `F`'s execution `rF` does not end
in a scheduler panic, then
* `new_execution` of the checker does not panic, consults `F.new_execution` once and starts the recording;
* the recording execution is `rF` (same log, outcome, kernel, user state) and ends with
  `previous_schedule = recsOf rF.log`;
* the next `new_execution` does NOT consult `F`, returns seed 0 and starts the checking execution;
* the checking execution is `rF` again (up to the seed field of the kernel): none of the checker's panics fires,
  and the checker is idle again afterwards — so the next `new_execution` does not raise (e) either. -/
theorem nondet_check_never_rejects_pair (F : FullScheduler σ) (P : Program) (ms : MaxSteps) (fuel segFuel : Nat)
    (ns : NondetState σ) (hidle : Idle ns) (seed : Nat) (inner : σ)
    (hnew : F.newExec ns.scheduler = .some seed inner)
    (hne : ∀ msg, (execute P F.sched ms seed inner fuel segFuel).outcome ≠ .schedPanic msg) :
    (check F).newExec ns = .some seed (recStart inner) ∧
    execute P (check F).sched ms seed (recStart inner) fuel segFuel =
      reRes (execute P F.sched ms seed inner fuel segFuel)
        (recEnd (execute P F.sched ms seed inner fuel segFuel).st.sch
          (execute P F.sched ms seed inner fuel segFuel).st.log.toList) ∧
    (check F).newExec (recEnd (execute P F.sched ms seed inner fuel segFuel).st.sch
        (execute P F.sched ms seed inner fuel segFuel).st.log.toList) =
      .some 0 (chkStart (execute P F.sched ms seed inner fuel segFuel).st.sch
        (execute P F.sched ms seed inner fuel segFuel).st.log.toList) ∧
    ∃ nsF, execute P (check F).sched ms 0
        (chkStart (execute P F.sched ms seed inner fuel segFuel).st.sch
          (execute P F.sched ms seed inner fuel segFuel).st.log.toList) fuel segFuel =
        reRes (resSeed 0 (execute P F.sched ms seed inner fuel segFuel)) nsF ∧
      Idle nsF ∧ nsF.scheduler = (execute P F.sched ms seed inner fuel segFuel).st.sch := by
  refine ⟨?_, recording_exec F P ms seed inner fuel segFuel hne, rfl,
    checking_exec F P ms seed inner fuel segFuel hne⟩
  rw [newExec_idle F ns hidle, hnew]

/-- **nondet_check_never_rejects**, whole runs: if the inner scheduler's own executions of `P` never end in a
scheduler panic (`InnerOK`), then in `Runner::run` under the checker — any number of iterations, started from a
fresh checker — no execution ends with a scheduler panic, in particular with none of the six "possible
nondeterminism" panics of `next_task`/`next_u64`, and `new_execution` never raises the seventh ("ended earlier
than expected"). -/
theorem nondet_check_never_rejects (F : FullScheduler σ) (P : Program) (ms : MaxSteps) (fuel segFuel : Nat)
    (hF : InnerOK F P ms fuel segFuel) (iters : Nat) (s : σ) :
    RunOK (runner P (check F) ms fuel segFuel iters (NondetCheck.new s) []) :=
  runner_check_ok hF iters _ [] (Or.inl (idle_new s)) (by simp)

/-- `F.new_execution` is consulted once per pair: in an idle state the checker's `new_execution` is the inner
one; right after a recording it is not consulted at all. -/
theorem nondet_check_newExec_once_per_pair (F : FullScheduler σ) :
    (∀ ns, Idle ns → (check F).newExec ns =
      match F.newExec ns.scheduler with
      | .none => .none
      | .panic m => .panic m
      | .some seed inner => .some seed (recStart inner)) ∧
    (∀ s l, (check F).newExec (recEnd s l) = .some 0 (chkStart s l)) :=
  ⟨newExec_idle F, newExec_recEnd F⟩

/-- the round-robin scheduler satisfies `InnerOK` for every program -/
theorem rr_innerOK (P : Program) (ms : MaxSteps) (fuel segFuel : Nat) : InnerOK rrScheduler P ms fuel segFuel where
  noSchedPanic := fun seed s => execute_not_schedPanic rr_wellBehaved P ms seed s fuel segFuel
  newExecMsg := by
    intro s msg h
    simp only [rrScheduler] at h
    split at h <;> cases h

section examples

/-- the checker around round-robin on `exR`, 3 inner iterations: 6 executions, `Ok(6)`, every checking execution
(odd positions, seed 0) has the log of the recording before it -/
example : RunOK (runner exR (check rrScheduler) .none 50 50 10 (NondetCheck.new rr0) []) :=
  nondet_check_never_rejects rrScheduler exR .none 50 50 (rr_innerOK exR .none 50 50) 10 rr0

example :
    (runner exR (check rrScheduler) .none 50 50 10 (NondetCheck.new rr0) []).count = some 6 ∧
    (runner exR (check rrScheduler) .none 50 50 10 (NondetCheck.new rr0) []).execs.map (·.2.outcome) =
      [.ok, .ok, .ok, .ok, .ok, .ok] ∧
    ((runner exR (check rrScheduler) .none 50 50 10 (NondetCheck.new rr0) []).execs.map (·.2.st.log.toList))[1]? =
      some runR.st.log.toList := by
  decide +kernel

/-- the pair theorem applies to the panicking and the deadlocking variant too (their failures are reproduced by the
checking execution, not turned into "possible nondeterminism") -/
example : (runner exRPanic (check rrScheduler) .none 50 50 10 (NondetCheck.new rr0) []).execs.map (·.2.outcome) =
    [.panic 1 "even"] := by decide +kernel

/-- the checker's panics are reachable in general: checking `exR` against the recording of a *different* body
(`exRPanic`) is rejected — "set of runnable tasks is different" -/
example :
    (execute exR (check rrScheduler).sched .none 0 (chkStart rr1 runRPanic.st.log.toList) 50 50).outcome =
      .schedPanic msgRunnable := by decide +kernel

/-- … and a recording that is longer than the execution makes the next `new_execution` panic -/
example : ∃ msg, (check rrScheduler).newExec
    { scheduler := rr1, recording := false, previousSchedule := [.random 1], currentStep := 0 } = .panic msg :=
  ⟨_, rfl⟩

end examples

/-! ### target clock (needed by C15)

FULL statement wanted (not proved): in a whole replay *execution* with `target_clock = Some(c)`, every recorded
step that happens-before the target event is executed and only steps concurrent with it are dropped, and the
surviving steps see the same draws.  What is proved is the part about `next_task` alone: -/

/-- **target_clock_keeps_dependencies_partial** (`ReplayScheduler::next_task` with `target_clock = Some(c)`):
1. if the next recorded step is a task whose clock is `≤ c` (`Clock.le` = Rust's `PartialOrd` on `VectorClock`) and
   it is among the runnable tasks, it is returned at once: never skipped, cursor + 1, data source and
   `steps_skipped` untouched;
2. if its clock is not `≤ c`, that step AND the block of `Random` steps following it are consumed — cursor
   `+ 1 + n`, the data source advanced by exactly `n` draws, `steps_skipped + 1 + n` — and the loop continues from
   there;
3. whatever `next_task` finally returns is a runnable task whose clock is `≤ c`;
4. the model's loop fuel never runs out. -/
theorem target_clock_keeps_dependencies_partial (s : ReplayState) (views : List TaskView) (cur : Option Nat)
    (y : Bool) (c : Clock) (htarget : s.targetClock = some c) :
    (∀ t task, s.schedule.steps[s.steps]? = some (.task t) → views.find? (fun v => v.id == t) = some task →
      task.clock.le c = true →
      Replay.nextTask s views cur y = (.choose (some t), { s with steps := s.steps + 1 })) ∧
    (∀ fuel t task, s.schedule.steps[s.steps]? = some (.task t) → views.find? (fun v => v.id == t) = some task →
      task.clock.le c = false →
      nextTaskLoop (fuel + 1) s views =
        nextTaskLoop fuel
          { s with steps := s.steps + 1 + leadingRandoms (s.schedule.steps.drop (s.steps + 1)),
                   data := advanceData s.data (leadingRandoms (s.schedule.steps.drop (s.steps + 1))),
                   stepsSkipped := s.stepsSkipped + (1 + leadingRandoms (s.schedule.steps.drop (s.steps + 1))) }
          views) ∧
    (∀ t s', Replay.nextTask s views cur y = (.choose (some t), s') →
      ∃ task, views.find? (fun v => v.id == t) = some task ∧ task.clock.le c = true) ∧
    (s.steps ≤ s.schedule.steps.length → (Replay.nextTask s views cur y).1 ≠ .panic msgFuel) :=
  ⟨fun t task h1 h2 h3 => nextTask_keeps_dependency s views cur y c t task htarget h1 h2 h3,
   fun fuel t task h1 h2 h3 => nextTaskLoop_skips_concurrent fuel s views c t task htarget h1 h2 h3,
   fun t s' h => nextTask_choice_le s views cur y c t s' htarget h,
   fun h => nextTask_fuel s views cur y h⟩

section examples

/-- a replay state with target clock `[1, 0]` about to replay `task 1, random, random, task 0` -/
def rsClock : ReplayState :=
  { schedule := ⟨0, [.task 1, .random, .random, .task 0]⟩, data := seededSource 0,
    targetClock := some (Clock.ofList [1, 0]), started := true }

def viewsClock : List TaskView :=
  [{ id := 0, clock := Clock.ofList [1, 0], parent := none }, { id := 1, clock := Clock.ofList [1, 1], parent := some 0 }]

/-- task 1 (clock `[1,1]`, concurrent with the target `[1,0]`) and its two draws are skipped — cursor 4, three
steps skipped, the data source is two draws further — and task 0 (clock `[1,0] ≤ [1,0]`) is returned -/
example :
    (match (Replay.nextTask rsClock viewsClock none false).1 with
      | .choose ch => some ch
      | .panic _ => none) = some (some 0) ∧
    (Replay.nextTask rsClock viewsClock none false).2.steps = 4 ∧
    (Replay.nextTask rsClock viewsClock none false).2.stepsSkipped = 3 ∧
    (Replay.nextTask rsClock viewsClock none false).2.data = advanceData (seededSource 0) 2 := by
  decide +kernel

/-- clause 1 on a concrete state: with target `[1,1]` nothing is skipped -/
example : Replay.nextTask { rsClock with targetClock := some (Clock.ofList [1, 1]) } viewsClock none false =
    (.choose (some 1), { rsClock with targetClock := some (Clock.ofList [1, 1]), steps := 1 }) :=
  (target_clock_keeps_dependencies_partial _ viewsClock none false (Clock.ofList [1, 1]) rfl).1 1
    { id := 1, clock := Clock.ofList [1, 1], parent := some 0 } rfl rfl (by decide)

end examples

end ShuttleProofs.C01
