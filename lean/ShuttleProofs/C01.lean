import ShuttleProofs.Lemmas.ReplaySched
import ShuttleProofs.Lemmas.ReplayExamples

/-!
# C01 — an execution is determined by its recorded schedule; replay reproduces it
-/

namespace ShuttleProofs.C01
open ShuttleModel ShuttleModel.Replay ShuttleProofs.Kernel ShuttleProofs.Replay

variable {σ : Type}

/-- the replay scheduler's state when its (only) execution starts: what `new_execution` makes of
`new_from_schedule(sch)` -/
def replayStart (sch : Schedule) : ReplayState :=
  { newFromSchedule sch with started := true, data := seededSource sch.seed }

/-- `new_execution` of a fresh replay scheduler returns the seed of the schedule it replays -/
theorem newExec_newFromSchedule (sch : Schedule) :
    replayScheduler.newExec (newFromSchedule sch) = .some sch.seed (replayStart sch) := rfl

/-- … and there is no second execution -/
theorem newExec_replayStarted (rs : ReplayState) (h : rs.started = true) :
    replayScheduler.newExec rs = .none := by
  show Replay.newExec rs = .none
  unfold Replay.newExec
  rw [h]; rfl

/-- the schedule a run has recorded when it ends, as the `Schedule` value that gets printed -/
def recordedOf (seed : Nat) {P : Program} (r : Result P σ) : Schedule :=
  { seed := seed, steps := r.st.k.schedule_.map ofSStep }

theorem noNone_of_not_stopped (P : Program) (S : Scheduler σ) (ms : MaxSteps) (seed : Nat) (s : σ)
    (fuel segFuel : Nat) (h : (execute P S ms seed s fuel segFuel).outcome ≠ .stopped) :
    NoNone (execute P S ms seed s fuel segFuel).st.log.toList := by
  intro ev hev o c y heq
  subst heq
  exact h (C08.none_stops_without_failure P S ms seed s fuel segFuel o c y hev).1

/-- the relation `RR` holds between the whole log of a run and the freshly started replay of its recording -/
theorem RR_init (P : Program) (S : Scheduler σ) (ms : MaxSteps) (seed : Nat) (s : σ) (fuel segFuel : Nat)
    (hsp : ∀ msg, (execute P S ms seed s fuel segFuel).outcome ≠ .schedPanic msg)
    (hst : (execute P S ms seed s fuel segFuel).outcome ≠ .stopped)
    (hdf : DataFaithful seed (execute P S ms seed s fuel segFuel).st.log.toList) :
    RR (recordedOf seed (execute P S ms seed s fuel segFuel)) s
      (execute P S ms seed s fuel segFuel).st.log.toList
      (replayStart (recordedOf seed (execute P S ms seed s fuel segFuel))) where
  schedule := rfl
  allow := rfl
  target := rfl
  skipped := rfl
  started := rfl
  le := Nat.zero_le _
  rest := by
    show List.drop 0 ((execute P S ms seed s fuel segFuel).st.k.schedule_.map ofSStep) = _
    rw [C08.record_exact_of_not_schedPanic P S ms seed s fuel segFuel hsp]
    rfl
  noNone := noNone_of_not_stopped P S ms seed s fuel segFuel hst
  data := hdf

/-- **replay_faithful** (core form).  Let `r` be ANY execution (any program, scheduler, `MaxSteps`, fuel) that did
not end with a scheduler panic or with the scheduler answering `None`, and whose draws came from the data stream
of its seed.  Start a `ReplayScheduler` on the schedule `r` recorded: `new_execution` returns the same seed, and
the execution it drives is `r` again — identical kernel state (hence identical recorded schedule), user state,
continuations, event log (consultations with their offered lists / `current` / yielding flags / choices, draws,
observations) and outcome; the replay cursor ends exactly at the end of the schedule, nothing was skipped. -/
theorem replay_faithful_core (P : Program) (S : Scheduler σ) (ms : MaxSteps) (seed : Nat) (s : σ)
    (fuel segFuel : Nat)
    (hsp : ∀ msg, (execute P S ms seed s fuel segFuel).outcome ≠ .schedPanic msg)
    (hst : (execute P S ms seed s fuel segFuel).outcome ≠ .stopped)
    (hdf : DataFaithful seed (execute P S ms seed s fuel segFuel).st.log.toList) :
    replayScheduler.newExec (newFromSchedule (recordedOf seed (execute P S ms seed s fuel segFuel))) =
        .some seed (replayStart (recordedOf seed (execute P S ms seed s fuel segFuel))) ∧
      ∃ rsF : ReplayState,
        execute P replayScheduler.sched ms seed
            (replayStart (recordedOf seed (execute P S ms seed s fuel segFuel))) fuel segFuel =
          reRes (execute P S ms seed s fuel segFuel) rsF ∧
        rsF.schedule = recordedOf seed (execute P S ms seed s fuel segFuel) ∧
        rsF.steps = rsF.schedule.steps.length ∧ rsF.stepsSkipped = 0 ∧ rsF.started = true := by
  refine ⟨rfl, ?_⟩
  obtain ⟨rsF, h1, h2⟩ := execute_follows (replay_follows S (recordedOf seed (execute P S ms seed s fuel segFuel)))
    P ms seed s (replayStart (recordedOf seed (execute P S ms seed s fuel segFuel))) fuel segFuel hsp
    (RR_init P S ms seed s fuel segFuel hsp hst hdf)
  exact ⟨rsF, h1, h2.schedule, by rw [h2.schedule]; exact h2.exhausted, h2.skipped, h2.started⟩

end ShuttleProofs.C01
