import ShuttleProofs.C08
import ShuttleProofs.C03
/-! `#print axioms` for every kernel-level property theorem of C08 / C13 / C03. -/
open ShuttleProofs

-- C08
#print axioms C08.log_decisions
#print axioms C08.decisions_logged
#print axioms C08.decision_fields
#print axioms C08.offered_nonempty
#print axioms C08.offered_strictly_ascending
#print axioms C08.offered_nodup
#print axioms C08.offered_unfinished
#print axioms C08.offered_superset_runnable
#print axioms C08.offered_subset_runnable_or_spurious
#print axioms C08.choice_offered
#print axioms C08.current_is_last_chosen_at
#print axioms C08.yielding_is_flag
#print axioms C08.log_offered_nonempty_ascending
#print axioms C08.current_is_last_chosen
#print axioms C08.segStart_fields
#print axioms C08.requestYield_sets_flag
#print axioms C08.flag_only_by_requestYield
#print axioms C08.flag_monotone
#print axioms C08.chosen_runs_next
#print axioms C08.chosen_task_runnable
#print axioms C08.choice_not_offered_panics
#print axioms C08.none_stops_iter
#print axioms C08.none_stops_without_failure
#print axioms C08.stopped_only_by_none
#print axioms C08.no_scheduling_error
#print axioms C08.record_exact
#print axioms C08.record_exact_of_not_schedPanic
#print axioms C08.record_exact_at
-- C13
#print axioms C13.no_decision_beyond_bound
#print axioms C13.no_decision_beyond_bound_exec
#print axioms C13.fail_after_iter
#print axioms C13.continue_after_iter
#print axioms C13.bound_outcomes
#print axioms C13.bound_hit_ends
#print axioms C13.schedule_below_bound
#print axioms C13.below_bound_unaffected
#print axioms C13.steps_total_bound_partial
#print axioms C13.steps_overshoot_witness
#print axioms C13.terminates_under_bound
#print axioms C13.task_steps_le_bound
#print axioms C13.terminates_under_bound_iterations
-- C03
#print axioms C03.deadlockAt_iff
#print axioms C03.deadlockList_exact
#print axioms C03.deadlock_iff
#print axioms C03.deadlock_verdict_sound
#print axioms C03.deadlock_verdict_complete
#print axioms C03.detached_leftovers_ok
#print axioms C03.ok_iff
#print axioms C03.ok_verdict_sound
#print axioms C03.no_early_end
#print axioms C03.spurious_not_progress
#print axioms C03.terminates_under_bound
