import ShuttleProofs.Lemmas.DfsRun
import ShuttleProofs.Lemmas.DfsPaths

/-!
# C09 — the DFS scheduler enumerates every path of every finite choice tree exactly once, in order, then stops

Model: `ShuttleModel.Dfs` (`ShuttleModel/Sched/Dfs.lean`, transcription of `shuttle-schedulers/src/dfs.rs`).
Spec-level definitions (`Tree`, `Tree.WF`, `paths`, `runOne`, `runAllEnd`, `runAll`, `iterExec`):
`ShuttleProofs/Lemmas/DfsTree.lean`; `IsPath`, `truncate`, `dedup`: `ShuttleProofs/Lemmas/DfsPaths.lean`.

`runAllEnd fuel s t = (ps, e)`: the driver loop `repeat { newExecution; if none stop; runOne }` performed the
executions `ps` (in that order) and then stopped because
`e = .done` (`newExecution` returned `none`), `e = .failed` (scheduler panic, or a choice that was not offered), or
`e = .outOfFuel` (the model's loop bound was hit while the scheduler still wanted to continue).
-/

namespace ShuttleProofs.Dfs
open ShuttleModel.Dfs

/-- Data-dependent branching (different kid lists under different siblings), depth 4, several single-kid nodes. -/
def exT : Tree :=
  .node [(0, .node [(1, .leaf), (2, .node [(0, .leaf)])]),
         (3, .leaf),
         (4, .node [(5, .leaf), (6, .node [(7, .node [(1, .leaf), (2, .leaf), (9, .leaf)])])])]

theorem exT_wf : exT.WF := by simp [exT, Tree.WF, WFF]

theorem exT_paths : paths exT = [[0, 1], [0, 2, 0], [3], [4, 5], [4, 6, 7, 1], [4, 6, 7, 2], [4, 6, 7, 9]] := by
  decide +kernel

/-! ## dfs_exhaustive -/

/-- From a fresh unbounded scheduler, on every well-formed finite choice tree:
* with enough fuel (anything ≥ number of paths + 1) the executions performed are exactly `paths t` — same order,
  each once, no failure — and then `newExecution` returns `none`;
* with less fuel the loop performs exactly the first `fuel` paths and the scheduler is *not* done (so the loop never
  stops early, and fuel is not a loophole);
* the state reached after exactly `(paths t).length` executions refuses to start another execution. -/
theorem dfs_exhaustive (t : Tree) (h : t.WF) :
    (∀ fuel, fuel ≥ (paths t).length + 1 → runAllEnd fuel (DfsState.new none) t = (paths t, .done)) ∧
    (∀ fuel, fuel ≤ (paths t).length →
      runAllEnd fuel (DfsState.new none) t = ((paths t).take fuel, .outOfFuel)) ∧
    (∃ s, iterExec (paths t).length (DfsState.new none) t = some s ∧ newExecution s = none) := by
  have hrun := runAllEnd_new t h none
  simp only [budget] at hrun
  have h1 : ∀ fuel, fuel ≥ (paths t).length + 1 →
      runAllEnd fuel (DfsState.new none) t = (paths t, .done) := by
    intro fuel hf
    rw [hrun, outcome, if_neg (by omega)]
  refine ⟨h1, ?_, ?_⟩
  · intro fuel hf
    rw [hrun, outcome, if_pos hf]
  · exact iterExec_of_done t _ _ _ (h1 _ (Nat.le_refl _)) rfl

/-- `runAll` form (only the list of executed paths). -/
theorem dfs_exhaustive_runAll (t : Tree) (h : t.WF) (fuel : Nat) (hf : fuel ≥ (paths t).length + 1) :
    runAll fuel (DfsState.new none) t = paths t := by
  simp [runAll, (dfs_exhaustive t h).1 fuel hf]

example : exT.WF ∧ runAllEnd 8 (DfsState.new none) exT
    = ([[0, 1], [0, 2, 0], [3], [4, 5], [4, 6, 7, 1], [4, 6, 7, 2], [4, 6, 7, 9]], .done) :=
  ⟨exT_wf, by decide +kernel⟩
example : runAllEnd 5 (DfsState.new none) exT = ([[0, 1], [0, 2, 0], [3], [4, 5], [4, 6, 7, 1]], .outOfFuel) := by
  decide +kernel
example : (iterExec 7 (DfsState.new none) exT).bind newExecution = none
    ∧ ((iterExec 6 (DfsState.new none) exT).bind newExecution).isSome := by decide +kernel

/-- The distinct-ids hypothesis is necessary: with a duplicated id the scheduler re-runs `[0]` forever. -/
example : runAllEnd 5 (DfsState.new none) (.node [(0, .leaf), (0, .node [(1, .leaf), (2, .leaf)]), (1, .leaf)])
    = ([[0], [0], [0], [0], [0]], .outOfFuel) := by decide +kernel
/-- The non-empty hypothesis is necessary: an empty offer makes `next_task` panic (`runnable.first().unwrap()`). -/
example : runAllEnd 5 (DfsState.new none) (.node [(0, .leaf), (1, .node [])]) = ([[0]], .failed) := by decide +kernel

/-! ## dfs_no_duplicates -/

/-- `paths t` has no duplicates (so "each exactly once" is meaningful) and contains exactly the maximal root-to-leaf
choice sequences. -/
theorem dfs_no_duplicates (t : Tree) (h : t.WF) :
    (paths t).Nodup ∧ ∀ p, IsPath t p ↔ p ∈ paths t :=
  ⟨nodup_paths t h, isPath_iff t⟩

example : exT.WF ∧ (paths exT).Nodup ∧ [4, 6, 7, 2] ∈ paths exT ∧ IsPath exT [4, 6, 7, 2] :=
  ⟨exT_wf, (dfs_no_duplicates exT exT_wf).1, by decide +kernel, (isPath_iff _ _).2 (by decide +kernel)⟩

/-! ## dfs_iteration_bound -/

/-- With `max_iterations = Some(k)` the executions are exactly the first `k` paths, then the run stops. -/
theorem dfs_iteration_bound (t : Tree) (h : t.WF) (k : Nat) :
    (∀ fuel, fuel ≥ ((paths t).take k).length + 1 →
      runAllEnd fuel (DfsState.new (some k)) t = ((paths t).take k, .done)) ∧
    (∀ fuel, fuel ≤ ((paths t).take k).length →
      runAllEnd fuel (DfsState.new (some k)) t = (((paths t).take k).take fuel, .outOfFuel)) ∧
    (∃ s, iterExec ((paths t).take k).length (DfsState.new (some k)) t = some s ∧ newExecution s = none) := by
  have hrun := runAllEnd_new t h (some k)
  simp only [budget, Nat.sub_zero] at hrun
  have h1 : ∀ fuel, fuel ≥ ((paths t).take k).length + 1 →
      runAllEnd fuel (DfsState.new (some k)) t = ((paths t).take k, .done) := by
    intro fuel hf
    rw [hrun, outcome, if_neg (by omega)]
  refine ⟨h1, ?_, ?_⟩
  · intro fuel hf
    rw [hrun, outcome, if_pos hf]
  · exact iterExec_of_done t _ _ _ (h1 _ (Nat.le_refl _)) rfl

example : runAllEnd 100 (DfsState.new (some 3)) exT = ([[0, 1], [0, 2, 0], [3]], .done) := by decide +kernel
example : runAllEnd 100 (DfsState.new (some 0)) exT = ([], .done) := by decide +kernel
example : runAllEnd 100 (DfsState.new (some 50)) exT = (paths exT, .done) := by decide +kernel

/-! ## dfs_step_bound -/

/-- `MaxSteps::ContinueAfter(n)` (every execution is cut after `n` scheduling decisions) presents the tree
`truncate n t`.  The scheduler enumerates `paths (truncate n t)` exhaustively, and those are exactly the distinct
length-`≤ n` prefixes `p.take n` of the paths of `t`, in first-occurrence order. -/
theorem dfs_step_bound (t : Tree) (h : t.WF) (n : Nat) :
    (truncate n t).WF ∧
    (∀ fuel, fuel ≥ (paths (truncate n t)).length + 1 →
      runAllEnd fuel (DfsState.new none) (truncate n t) = (paths (truncate n t), .done)) ∧
    paths (truncate n t) = dedup ((paths t).map (List.take n)) ∧
    (paths (truncate n t)).Nodup :=
  ⟨truncate_wf t n h, (dfs_exhaustive _ (truncate_wf t n h)).1, paths_truncate t n h,
    nodup_paths _ (truncate_wf t n h)⟩

example : runAllEnd 100 (DfsState.new none) (truncate 2 exT) = ([[0, 1], [0, 2], [3], [4, 5], [4, 6]], .done)
    ∧ dedup ((paths exT).map (List.take 2)) = [[0, 1], [0, 2], [3], [4, 5], [4, 6]] := by decide +kernel
example : paths (truncate 3 exT) = [[0, 1], [0, 2, 0], [3], [4, 5], [4, 6, 7]] := by decide +kernel
example : paths (truncate 0 exT) = [[]] := by decide +kernel

/-! ## dfs_never_fails -/

/-- On well-formed trees no execution ever fails: `next_task` never panics (neither on a first visit nor on a
revisit) and always returns one of the offered ids — for every iteration bound and every amount of fuel. -/
theorem dfs_never_fails (t : Tree) (h : t.WF) (mi : Option Nat) (fuel : Nat) :
    (runAllEnd fuel (DfsState.new mi) t).2 ≠ .failed := by
  rw [runAllEnd_new t h mi fuel, outcome]
  split <;> simp

example : (runAllEnd 3 (DfsState.new (some 5)) exT).2 = .outOfFuel := by decide +kernel

end ShuttleProofs.Dfs
