/-
  C10 — randomness of `RandomScheduler`: uniformity and history-freedom of `choose`,
  positivity of every offered task, and per-iteration reproducibility from the schedule seed.

  Model: `ShuttleModel.Rng` (bit-exact w.r.t. rand 0.8.8 / rand_core 0.6.4 / rand_pcg 0.3.1, see
  `ShuttleModel.RngVectors`). Helper definitions (`accept`, `rawDraw`, `advance`, `Program`,
  `runExec`, `runAll`) and lemmas live in `ShuttleProofs/Lemmas/Rng{Accept,Index,Sched}.lean`.

  Scope notes
  * `gen_index(n)` uses the u32 algorithm iff `n ≤ u32::MAX`, so the u32 statements below are for
    `0 < n < 2^32` (for `n = 2^32` Rust takes the 64-bit path; `choose_uniform_u64` covers the
    acceptance count of that path for all `0 < n < 2^64`).
  * Uniformity is a statement about the map from one raw 32-bit draw to the index (a counting
    statement over all `2^32` raw values). Nothing is claimed about the statistical quality of
    Pcg64Mcg's raw output sequence.
-/
import ShuttleModel.Rng
import ShuttleProofs.Lemmas.RngAccept
import ShuttleProofs.Lemmas.RngIndex
import ShuttleProofs.Lemmas.RngSched

namespace ShuttleProofs.C10
open ShuttleModel.Rng ShuttleProofs.Rng

/-! ## choose_uniform -/

/-- **Uniformity of `choose` conditional on acceptance.**
    `accept n v` is the index returned by one iteration of the u32 `gen_index(n)` rejection loop
    for the raw draw `v` (`none` = rejected). For every offered position `i < n` the number of raw
    32-bit values mapped to `i` is the same, namely `2^(n.leading_zeros())` `= (zone + 1) / n`
    with `zone = (n << n.leading_zeros()) - 1` as in the source. At least half of all raw values
    are accepted (`2^31 ≤ zone + 1 = n · 2^lz ≤ 2^32`). -/
theorem choose_uniform (n i : Nat) (hn : 0 < n) (hlt : n < 2 ^ 32) (hi : i < n) :
    ((Finset.range (2 ^ 32)).filter (fun v => accept n v = some i)).card
        = 2 ^ leadingZeros 32 n
    ∧ (zoneSingle 32 n + 1) / n = 2 ^ leadingZeros 32 n
    ∧ zoneSingle 32 n + 1 = n * 2 ^ leadingZeros 32 n
    ∧ 2 ^ 31 ≤ zoneSingle 32 n + 1 ∧ zoneSingle 32 n + 1 ≤ 2 ^ 32 := by
  obtain ⟨h1, h2⟩ := leadingZeros_spec (bits := 32) hn hlt
  have hz := zoneSingle_eq (bits := 32) hn hlt
  have hL : 0 < 2 ^ leadingZeros 32 n := Nat.two_pow_pos _
  have hpos : 0 < n * 2 ^ leadingZeros 32 n := Nat.mul_pos hn hL
  have hz1 : zoneSingle 32 n + 1 = n * 2 ^ leadingZeros 32 n := by omega
  refine ⟨?_, ?_, hz1, by omega, by omega⟩
  · have h32 : two32 = 2 ^ 32 := by decide
    unfold accept
    rw [hz, h32]
    exact wmulStep_card hn hL (Nat.le_of_lt h1) hi
  · rw [hz1, Nat.mul_div_cancel_left _ hn]

/-- Non-vacuity: three offered tasks — each is selected by exactly `2^30` of the `2^32` raw draws
    (and `2^30` raw draws are rejected). -/
example : ((Finset.range (2 ^ 32)).filter (fun v => accept 3 v = some 2)).card = 2 ^ 30 := by
  have h := (choose_uniform 3 2 (by decide) (by decide) (by decide)).1
  have hl : leadingZeros 32 3 = 30 := by decide +kernel
  rw [hl] at h
  exact h

example : accept 3 0 = some 0 ∧ accept 3 1431655766 = some 1 ∧ accept 3 4294967295 = none := by
  decide +kernel

/-- The connection between `accept` and the executable `genIndex` (= rand's `gen_index`):
    the first raw draw `v = next_u32()` either decides the call (`accept n v = some i`: return `i`,
    generator advanced by exactly one step) or is rejected and the loop continues with the next
    draw. -/
theorem choose_uniform_genIndex (n : Nat) (hn : 0 < n) (hlt : n < 2 ^ 32) (g : Pcg) (fuel : Nat) :
    genIndex g n (fuel + 1) =
      match accept n (nextU32 g).1 with
      | some i => some (i, (nextU64 g).2)
      | none => genIndex (nextU64 g).2 n fuel :=
  genIndex_succ hn (by rw [show two32 = 2 ^ 32 by decide]; exact hlt) g fuel

/-- Non-vacuity (and a rejection actually happening): with seed 0 and `n = 2^31 + 1` the 4th raw
    draw is rejected, so 5 draws are consumed for 4 indices. -/
example :
    (genIndex (seedFromU64 0) 2147483649).map Prod.fst = some 540997201 ∧
    accept 2147483649 (rawDraw (seedFromU64 0) 3) = none := by
  decide +kernel

/-- The same counting statement for the 64-bit path of `gen_index` (`n > u32::MAX`, raw draws are
    `next_u64`): every index is hit by exactly `2^(n.leading_zeros())` of the `2^64` raw values. -/
theorem choose_uniform_u64 (n i : Nat) (hn : 0 < n) (hlt : n < 2 ^ 64) (hi : i < n) :
    ((Finset.range (2 ^ 64)).filter (fun v => accept64 n v = some i)).card
        = 2 ^ leadingZeros 64 n := by
  obtain ⟨h1, _⟩ := leadingZeros_spec (bits := 64) hn hlt
  have hz := zoneSingle_eq (bits := 64) hn hlt
  have h64 : two64 = 2 ^ 64 := by decide
  unfold accept64
  rw [hz, h64]
  exact wmulStep_card hn (Nat.two_pow_pos _) (Nat.le_of_lt h1) hi

example : ((Finset.range (2 ^ 64)).filter (fun v => accept64 (2 ^ 32) v = some 7)).card
    = 2 ^ 31 := by
  have h := choose_uniform_u64 (2 ^ 32) 7 (by decide) (by decide) (by decide)
  have hl : leadingZeros 64 (2 ^ 32) = 31 := by decide +kernel
  rw [hl] at h
  exact h

/-! ## every_offered_positive -/

/-- Every offered position has positive probability: some raw 32-bit draw selects it. -/
theorem every_offered_positive (n i : Nat) (hn : 0 < n) (hlt : n < 2 ^ 32) (hi : i < n) :
    ∃ v, v < 2 ^ 32 ∧ accept n v = some i := by
  have hc := (choose_uniform n i hn hlt hi).1
  have hpos : 0 < ((Finset.range (2 ^ 32)).filter (fun v => accept n v = some i)).card := by
    rw [hc]; exact Nat.two_pow_pos _
  obtain ⟨v, hv⟩ := Finset.card_pos.mp hpos
  rw [Finset.mem_filter, Finset.mem_range] at hv
  exact ⟨v, hv.1, hv.2⟩

/-- Non-vacuity, with explicit witnesses for all three positions of a 3-element offer. -/
example : ∃ v, v < 2 ^ 32 ∧ accept 3 v = some 2 := every_offered_positive 3 2 (by decide) (by decide) (by decide)
example : accept 3 2863311531 = some 2 := by decide +kernel

/-! ## choose_history_free -/

/-- **`choose` is history-free.** On an empty slice nothing is drawn. On a non-empty slice of
    length `n < 2^32` the result is completely determined by the raw draws this very call
    consumes: `choose` returns `(r, g')` iff for some `k < fuel` the raw draws `0..k-1` from the
    incoming generator state are rejected, draw `k` is accepted with index `i`, `r = xs[i]`, and
    `g'` is the incoming state advanced by exactly those `k+1` draws. No other state exists. -/
theorem choose_history_free {α : Type} (g : Pcg) (xs : List α) (fuel : Nat) :
    (xs = [] → choose g xs fuel = some (none, g)) ∧
    (xs ≠ [] → xs.length < 2 ^ 32 →
      ∀ (r : Option α) (g' : Pcg),
        choose g xs fuel = some (r, g') ↔
          ∃ k i, k < fuel ∧ (∀ j, j < k → accept xs.length (rawDraw g j) = none) ∧
            accept xs.length (rawDraw g k) = some i ∧ i < xs.length ∧ r = xs[i]? ∧
            g' = advance (k + 1) g) := by
  constructor
  · rintro rfl
    rfl
  · intro hne hlt r g'
    have hlt' : xs.length < two32 := by rw [show two32 = 2 ^ 32 by decide]; exact hlt
    have hn : 0 < xs.length := List.length_pos_iff.mpr hne
    rw [choose_eq_some_iff hne hlt']
    constructor
    · rintro ⟨i, hgi, hi, hr⟩
      obtain ⟨k, hk, hrej, hacc, hg⟩ := (genIndex_eq_some_iff hn hlt' fuel g i g').1 hgi
      exact ⟨k, i, hk, hrej, hacc, hi, hr, hg⟩
    · rintro ⟨k, i, hk, hrej, hacc, hi, hr, hg⟩
      exact ⟨i, (genIndex_eq_some_iff hn hlt' fuel g i g').2 ⟨k, hk, hrej, hacc, hg⟩, hi, hr⟩

/-- At the scheduler level: `next_task` is a function of the choice rng and the offered ids only
    (not of `iterations`, `max_iterations`, the data source, or anything chosen before). -/
theorem nextTask_history_free (s t : RandomScheduler) (ids : List Nat) (h : s.rng = t.rng) :
    (s.nextTask ids).1 = (t.nextTask ids).1 ∧ (s.nextTask ids).2.rng = (t.nextTask ids).2.rng := by
  unfold RandomScheduler.nextTask
  rw [h]
  generalize choose t.rng ids = X
  match X with
  | some (some id, g) => exact ⟨rfl, rfl⟩
  | some (none, g) => exact ⟨rfl, h⟩
  | none => exact ⟨rfl, h⟩

/-- Non-vacuity: a concrete call (seed 7, four offered ids): one draw is consumed. -/
example :
    ∃ r g', choose (seedFromU64 7) [10, 11, 12, 13] = some (r, g') ∧ g' = advance 1 (seedFromU64 7) := by
  refine ⟨_, _, rfl, ?_⟩
  decide +kernel

/-! ## iteration_reproducible -/

/-- **Every iteration is reproducible from its schedule seed alone.**
    Let `prog` be any deterministic program (a function from the history of scheduler answers in
    the current execution to the next request: offer ids / draw / stop), run for up to `n`
    iterations of at most `k` requests under `RandomScheduler::new_from_seed(seed₀, iters)`.
    If the `i`-th execution was handed schedule seed `sᵢ` by `new_execution` and produced the
    trace `trace` (all `next_task` choices and all `next_u64` data draws, in order), then a fresh
    `RandomScheduler::new_from_seed(sᵢ, 1)` hands out the same seed `sᵢ` and produces exactly the
    same trace in its only execution. (Because `new_execution` re-seeds both the choice rng and
    the data rng from `sᵢ` alone.) -/
theorem iteration_reproducible (prog : Program) (k n seed₀ iters i sᵢ : Nat) (trace : List Event)
    (h : (runAll prog k n (RandomScheduler.newFromSeed seed₀ iters))[i]? = some (sᵢ, trace)) :
    runAll prog k 1 (RandomScheduler.newFromSeed sᵢ 1) = [(sᵢ, trace)] :=
  runAll_getElem_replay prog k n _ i sᵢ trace h

/-- The same fact for an arbitrary (not necessarily reachable) scheduler state. -/
theorem iteration_reproducible_any_state (prog : Program) (k : Nat) (s s' : RandomScheduler)
    (seed : Nat) (h : s.newExecution = some (seed, s')) :
    runAll prog k 1 (RandomScheduler.newFromSeed seed 1) = [(seed, (runExec prog k s' []).1)] :=
  newExecution_replay prog k h

/-- A history-dependent demo program: the 4th request depends on the 2nd answer. -/
def demoProg : Program := fun h =>
  match h.length with
  | 0 => .offer [0]
  | 1 => .offer [0, 1, 2]
  | 2 => .draw
  | 3 =>
    match h[1]? with
    | some (Event.chose 1) => .offer [1, 2]
    | _ => .offer [0, 1, 2, 3]
  | 4 => .draw
  | _ => .stop

/-- Non-vacuity: the 2nd of 3 iterations from seed 42 got schedule seed 6565857352388044582 and
    a non-trivial trace; hence replaying that seed reproduces it. -/
example :
    runAll demoProg 8 1 (RandomScheduler.newFromSeed 6565857352388044582 1) =
      [(6565857352388044582,
        [.chose 0, .chose 1, .drew 995660741551091707, .chose 2, .drew 8858634778589261708])] :=
  iteration_reproducible demoProg 8 3 42 3 1 _ _ (by decide +kernel)

end ShuttleProofs.C10
