import ShuttleProofs.C20Coll
open ShuttleProofs.C20Coll

#print axioms detmap_refines_std
#print axioms detmap_refines_std_from
#print axioms setops_as_specified
#print axioms iteration_order_function_of_history_partial
#print axioms iteration_order_of_ops
#print axioms two_instances_agree
#print axioms different_keys_may_differ
#print axioms dash_read_ops_pure
#print axioms dash_linearizable
#print axioms dash_mutual_exclusion
#print axioms sipSelfTest_ok
#print axioms detProbe_value
