import ShuttleProofs.C17
open ShuttleProofs.C17

#print axioms wake_sets_woken_and_unblocks_sleeper
#print axioms wake_request
#print axioms finished_task_wake_is_noop
#print axioms wake_after_execution_end_is_noop
#print axioms sleepUnlessWoken_request
#print axioms wake_then_sleepUnlessWoken
#print axioms no_lost_wake
#print axioms no_lost_wake_in_segment
#print axioms sleeping_implies_not_woken_final
#print axioms pending_without_wake_not_runnable
#print axioms pending_not_chosen
#print axioms all_pending_ends_execution
#print axioms detached_only_remainder_ends_ok
#print axioms detach_request
#print axioms detached_is_never_cleared
#print axioms runSegment_ktrace
#print axioms reachEv_of_reachN
