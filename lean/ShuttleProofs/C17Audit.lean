import ShuttleProofs.C17
open ShuttleProofs.C17

-- Part 1: kernel
#print axioms wake_sets_woken_and_unblocks_sleeper
#print axioms wake_request
#print axioms finished_task_wake_is_noop
#print axioms wake_after_execution_end_is_noop
#print axioms sleepUnlessWoken_request
#print axioms wake_then_sleepUnlessWoken
#print axioms no_lost_wake
#print axioms no_lost_wake_in_segment
#print axioms sleeping_implies_not_woken_final
#print axioms pending_without_wake_not_runnable
#print axioms pending_not_chosen
#print axioms all_pending_ends_execution
#print axioms detached_only_remainder_ends_ok
#print axioms detach_request
#print axioms detached_is_never_cleared
#print axioms runSegment_ktrace
#print axioms reachEv_of_reachN
-- Part 2: JoinHandle / Wrapper / abort
#print axioms Lts.reach_inv
#print axioms Lts.join_result_once
#print axioms Lts.join_after_ready_nohandle
#print axioms Lts.pollJoin_takes
#print axioms Lts.cancelled_iff_abort_before_completion
#print axioms Lts.pollBegin_aborted
#print axioms Lts.pollBegin_not_aborted
#print axioms Lts.abort_mid_poll
#print axioms Lts.done_no_further_steps
#print axioms Lts.abort_idempotent
#print axioms Lts.abort_finished_is_noop
#print axioms Lts.drop_detaches_not_cancels
#print axioms Lts.flag_only_by_abort
#print axioms Lts.cancelled_only_if_aborted
-- Part 3: poll loops
#print axioms task_loop_polls_until_ready
#print axioms task_loop_aborted_never_polls
#print axioms task_loop_ready_finishes
#print axioms task_loop_pending_suspends
#print axioms block_on_returns_output_after_ready
#print axioms block_on_suspends_while_pending
#print axioms abort_eq
#print axioms finish_is_publish
