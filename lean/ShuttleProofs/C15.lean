import ShuttleModel.Prim.Future
import ShuttleProofs.Lemmas.ClockOrder
import ShuttleProofs.Lemmas.ClockKernel
import ShuttleProofs.Lemmas.ClockEdges
/-!
# C15 — vector clocks reflect happens-before

Property text: "Whenever an operation of one task happens before an operation of another through program
order and Shuttle synchronisation (spawn to child start, child end to join, unlock to later lock, send to
matching receive and receive to the send it frees on a bounded channel, notify to the woken wait, barrier
arrivals to departures, once completion to later callers, atomic write to a later atomic read or
read-modify-write of the same variable, semaphore release to the acquire it enables), the second task's
clock read after its operation dominates the first task's clock read after its operation. Conversely, two
tasks that have each completed a clock-advancing operation and are connected by no chain of such edges
are never reported as ordered, each task's own clock only grows, and replay restricted to a target clock
never drops a step the target depends on."

What is proved here (model = `ShuttleModel`, validated sample by sample against the implementation):

* `update_is_join` (+ commutative / associative / idempotent, least upper bound);
* `le_characterised`, `le_length_rule`, `partial_cmp_deviates`: `<=` is the pointwise order with
  zero-extension exactly when the left clock is not longer; a longer clock is never `<=`, even when it
  is the same vector;
* `own_clock_monotone` : every kernel request, every task segment and the whole run loop only ever
  replace a task's clock by something pointwise `≥` ("each task's own clock only grows");
* one lemma per edge, on the pure transitions: `spawn_edge`, `join_edge`, `sem_release_acquire_edge`
  (+ exactness of the FIFO batch attribution), `atomic_write_read_edge`, `chan_send_recv_edge`,
  `chan_recv_send_edge`, `barrier_edge`, `once_edge`, `condvar_notify_wait_edge`;
* `hb_sound_partial` : the edges compose — any chain of "publish / receive" steps of the shapes the
  primitives use is reflected by the pointwise order.
* `f13_async_join_keeps_clock` : the model's `JoinHandle::poll` leaves the poller's clock untouched: the
  awaited task's clock is *not* joined (finding F13, kept as a witness).

NOT proved (hence `_partial`): the execution-level statement that every API-level edge of an arbitrary IR
program run through `Lang.execOp` + `runLoop` is realised by a chain of `HBStep`s (it needs a global
simulation argument over all primitives' wrappers), and the completeness direction ("never reported as
ordered"), which is checked by the oracle `tools/oracle_c15.py` on the implementation's logs instead. The
real code violates the full statement in two places (async join — F13, `thread::scope` exit), so the
unrestricted theorem is false for the model that mirrors it.
-/

namespace ShuttleProofs.C15
open ShuttleModel ShuttleProofs.Clock

/-! ### the clock algebra -/

/-- **`update` is the join**: pointwise maximum with zero-extension. -/
theorem update_is_join (a b : Clock) (i : Nat) :
    Clock.get (Clock.update a b) i = max (Clock.get a i) (Clock.get b i) := get_update a b i

theorem update_semilattice (a b c : Clock) :
    Clock.update a b = Clock.update b a ∧
    Clock.update (Clock.update a b) c = Clock.update a (Clock.update b c) ∧
    Clock.update a a = a ∧
    (ple a c → ple b c → ple (Clock.update a b) c) :=
  ⟨update_comm a b, update_assoc a b c, update_idem a, fun h1 h2 => update_ple h1 h2⟩

example : Clock.update (Clock.ofList [1, 2, 1]) (Clock.ofList [1, 3]) = Clock.ofList [1, 3, 1] := by decide

/-- `strip` (the canonical form the logs print) keeps every component -/
theorem strip_same_vector (c : Clock) (i : Nat) : Clock.get (Clock.strip c : List Nat) i = Clock.get c i :=
  get_strip c i

/-- **`<=` characterised** (left operand not longer — in particular equal lengths). -/
theorem le_characterised (a b : Clock) (h : List.length a ≤ List.length b) :
    Clock.le a b = true ↔ ∀ i, Clock.get a i ≤ Clock.get b i := le_iff_of_length_le a b h

/-- **the length rule**: a strictly longer clock is never `<=`. -/
theorem le_length_rule (a b : Clock) (h : List.length b < List.length a) : Clock.le a b = false :=
  le_false_of_length_gt a b h

/-- `<=` is sound for the pointwise order in every case … -/
theorem le_sound (a b : Clock) (h : Clock.le a b = true) : ∀ i, Clock.get a i ≤ Clock.get b i := ple_of_le a b h

/-- … and **incomplete**: `[1,0]` and `[1]` are the same vector, `[1,0] <= [1]` is false. For the
target-clock replay (`task.clock <= target`, replay.rs:92-93) this means: a target clock whose trailing
zeros were dropped (re-typed from a printed clock, or built with fewer entries than there are tasks) makes
every task whose clock has been extended by a later spawn fail the test — its steps are skipped although
the target depends on them. Within one execution the runtime only compares clocks it produced itself,
and `replay_test_exact` applies whenever the target is at least as long as the task's clock. -/
theorem partial_cmp_deviates :
    (∀ i, Clock.get (Clock.ofList [1, 0]) i ≤ Clock.get (Clock.ofList [1]) i) ∧
    Clock.le (Clock.ofList [1, 0]) (Clock.ofList [1]) = false ∧
    Clock.le (Clock.ofList [1]) (Clock.ofList [1, 0]) = true := by
  obtain ⟨h1, h2, h3, _⟩ := le_deviates
  exact ⟨h1, h2, h3⟩

/-! ### `<=` as the runtime computes it is a partial order; a tick is strict -/

/-- `c <= c` for every clock (`partial_cmp` returns `Some(Equal)`). -/
theorem le_refl (a : Clock) : Clock.le a a = true :=
  (le_iff_of_length_le a a (Nat.le_refl _)).mpr (ple_refl a)

/-- a `<=` never goes from a longer clock to a shorter one -/
theorem length_le_of_le (a b : Clock) (h : Clock.le a b = true) : List.length a ≤ List.length b := by
  rcases Nat.lt_or_ge (List.length b) (List.length a) with hl | hl
  · rw [le_false_of_length_gt a b hl] at h; cases h
  · exact hl

/-- **antisymmetry, as equality of representations**: mutual `<=` forces the very same `time` vector
(same length, same components), not just the same clock up to trailing zeros. -/
theorem le_antisymm (a b : Clock) (h1 : Clock.le a b = true) (h2 : Clock.le b a = true) : a = b :=
  ext_of_length_eq a b (Nat.le_antisymm (length_le_of_le a b h1) (length_le_of_le b a h2))
    (ple_antisymm (ple_of_le a b h1) (ple_of_le b a h2))

/-- **transitivity** of the runtime's `<=` (the length side-condition composes). -/
theorem le_trans (a b c : Clock) (h1 : Clock.le a b = true) (h2 : Clock.le b c = true) : Clock.le a c = true :=
  (le_iff_of_length_le a c (Nat.le_trans (length_le_of_le a b h1) (length_le_of_le b c h2))).mpr
    (ple_trans (ple_of_le a b h1) (ple_of_le b c h2))

/-- **a tick is strict**: after `increment` of an existing component the new clock is not dominated by
the old one — so two successive clock-advancing operations of one task are ordered one way only, and
no other task's older knowledge of this task (`≤` the old clock) can dominate the new clock. -/
theorem increment_strict (c : Clock) (t : Nat) (h : t < List.length c) :
    ple c (Clock.increment c t) ∧ ¬ ple (Clock.increment c t) c ∧ Clock.le (Clock.increment c t) c = false := by
  have hn : ¬ ple (Clock.increment c t) c := fun hh => by
    have := hh t
    rw [get_increment_self c t h] at this
    omega
  refine ⟨ple_increment c t, hn, ?_⟩
  cases hle : Clock.le (Clock.increment c t) c with
  | false => rfl
  | true => exact absurd (ple_of_le _ _ hle) hn

/-- what a task that only knew the old clock holds can never dominate the ticked clock -/
theorem stale_knowledge_not_ordered (c o : Clock) (t : Nat) (h : t < List.length c) (ho : ple o c) :
    ¬ ple (Clock.increment c t) o := fun hh =>
  (increment_strict c t h).2.1 (ple_trans hh ho)

example : Clock.le (Clock.ofList [1, 2]) (Clock.ofList [1, 2, 0]) = true ∧
    Clock.le (Clock.increment (Clock.ofList [1, 2]) 1) (Clock.ofList [1, 2]) = false := by decide

/-- **the deviation is only about representation length**: once both operands are zero-extended to a
common index (what `extend` does for every clock the runtime hands to a new task), the runtime's `<=` *is*
the pointwise order of the property text. So `partial_cmp_deviates` can only bite when a clock that was
not produced by the same execution (a re-typed target clock) is compared. -/
theorem le_exact_after_extend (a b : Clock) (n : Nat) (ha : List.length a ≤ n + 1) (hb : List.length b ≤ n + 1) :
    Clock.le (Clock.extend a n) (Clock.extend b n) = true ↔ ∀ i, Clock.get a i ≤ Clock.get b i := by
  have hl : List.length (Clock.extend a n) ≤ List.length (Clock.extend b n) := by
    rw [length_extend, length_extend]; omega
  rw [le_iff_of_length_le _ _ hl]
  constructor
  · intro h i
    have := h i
    rwa [get_extend, get_extend] at this
  · intro h i
    rw [get_extend, get_extend]
    exact h i

example : Clock.le (Clock.extend (Clock.ofList [1, 0]) 1) (Clock.extend (Clock.ofList [1]) 1) = true := by decide

/-! ### each task's own clock only grows -/

/-- **`own_clock_monotone`**, one task segment: any program over the kernel API, any fuel, any ending. -/
theorem own_clock_monotone {P : Program} {σ : Type} (S : Scheduler σ) (me fuel : Nat) (st : ExecState P σ)
    (p : Prog P.U Unit) (t : Nat) (tk : Task) (h : st.k.getTask? t = some tk) :
    ∃ tk', (runSegment S me fuel st p).kernel.getTask? t = some tk' ∧
      ∀ i, Clock.get tk.clock i ≤ Clock.get tk'.clock i :=
  runSegment_clockMono S me fuel st p t tk h

/-- **`own_clock_monotone`**, the whole run loop (decisions, segments, task exits). -/
theorem own_clock_monotone_run {P : Program} {σ : Type} (S : Scheduler σ) (segFuel fuel : Nat)
    (st : ExecState P σ) (t : Nat) (tk : Task) (h : st.k.getTask? t = some tk) :
    ∃ tk', (runLoop S segFuel fuel st).st.k.getTask? t = some tk' ∧
      ∀ i, Clock.get tk.clock i ≤ Clock.get tk'.clock i :=
  runLoop_clockMono S segFuel fuel st t tk h

/-- non-vacuity: a kernel with one task, one `incClock` request -/
example :
    let st : ExecState { U := Unit, init := (), bodies := fun _ => .pure () } Unit :=
      { k := { tasks := [{ clock := Clock.ofList [1] }] }, u := (), conts := [.pure ()], sch := () }
    ((runSegment ⟨fun s _ _ _ => (.choose none, s), fun s => (.ok 0, s)⟩ 0 5 st
        (.op .incClock (fun _ => .pure ()))).kernel.tasks.map (·.clock)) = [Clock.ofList [2]] := by
  decide

/-! ### edges compose -/

/-- one step of clock propagation, in the shapes the kernel and the primitives use -/
inductive HBStep : Clock → Clock → Prop
  /-- program order through `increment_clock` -/
  | tick (own : Clock) (me : Nat) : HBStep own (own.increment me)
  /-- program order through `update_clock(c)` -/
  | ownUpdate (own c : Clock) (me : Nat) : HBStep own ((own.increment me).update c)
  /-- program order through `get_mut(t).clock.update(c)` (woken waiter, barrier member, receiver) -/
  | ownJoin (own c : Clock) : HBStep own (own.update c)
  /-- program order / spawn through `extend` -/
  | ext (own : Clock) (tid : Nat) : HBStep own (own.extend tid)
  /-- a published clock is received through `update_clock` (join, lock, exhale, wait, once, send) -/
  | recvUpdate (c own : Clock) (me : Nat) : HBStep c ((own.increment me).update c)
  /-- a published clock is received through a plain `update` (message, permits, barrier release) -/
  | recvJoin (c own : Clock) : HBStep c (own.update c)
  /-- a clock is published into an object's clock (atomic `inhale`, barrier arrival, permit batches) -/
  | publish (c obj : Clock) : HBStep c (obj.update c)
  /-- an object's clock only grows -/
  | objGrow (obj c : Clock) : HBStep obj (obj.update c)

theorem HBStep.sound {a b : Clock} (h : HBStep a b) : ple a b := by
  cases h
  all_goals first
    | exact ple_increment _ _
    | exact ple_updateClock_self _ _ _
    | exact ple_extend _ _
    | exact ple_updateClock_arg _ _ _
    | exact ple_update_right _ _
    | exact ple_update_left _ _

/-- chains of steps -/
inductive HB : Clock → Clock → Prop
  | refl (a : Clock) : HB a a
  | step {a b c : Clock} : HB a b → HBStep b c → HB a c

/-- **`hb_sound_partial`**: whatever chain of program-order and synchronisation steps (of the shapes proved
edge by edge in `Lemmas/ClockEdges.lean`) leads from the clock the first task read to the clock the second
task reads, the second dominates the first. -/
theorem hb_sound_partial {a b : Clock} (h : HB a b) : ∀ i, Clock.get a i ≤ Clock.get b i := by
  induction h with
  | refl => exact ple_refl _
  | step _ hs ih => exact ple_trans ih hs.sound

/-- non-vacuity: writer `[0,3]` stores (tick, publish into the atomic `[1]`), reader `[2,0]` loads -/
example : HB (Clock.ofList [0, 3])
    (((Clock.ofList [2, 0]).increment 0).update ((Clock.ofList [1]).update ((Clock.ofList [0, 3]).increment 1))) :=
  HB.step (HB.step (HB.step (HB.refl _) (HBStep.tick _ 1)) (HBStep.publish _ (Clock.ofList [1])))
    (HBStep.recvUpdate _ (Clock.ofList [2, 0]) 0)

/-! ### the edges, restated at the property level (proofs in `Lemmas/ClockEdges.lean`) -/

theorem spawn_edge (k : Kernel) (p : Nat) (ptk : Task) (h : k.getTask? p = some ptk) :
    ∃ ptk' ctk, (k.spawnTask (some p)).2.getTask? p = some ptk' ∧
      (k.spawnTask (some p)).2.getTask? (k.spawnTask (some p)).1 = some ctk ∧
      ctk.clock = ptk'.clock ∧ ple ptk.clock ctk.clock := by
  obtain ⟨a, b, h1, h2, _, h4, _, h6⟩ := Clock.spawn_edge k p ptk h
  exact ⟨a, b, h1, h2, h4, h6⟩

theorem join_edge (own target : Clock) (me : Nat) : ple target ((own.increment me).update target) :=
  (Clock.join_edge own target me).1

theorem sem_release_acquire_edge (s : SemState) (k n : Nat) (c acq : Clock) (s' : SemState) (out : Clock)
    (hinv : s.avail = batchSum s.initBatches) (hneed : s.avail < n)
    (h : (s.paRelease k c).paAcquire n acq = some (s', out)) : ple c out :=
  Clock.sem_release_acquire_edge s k n c acq s' out hinv hneed h

/-- non-vacuity: an empty semaphore, `release(1)` with clock `[0,5]`, `acquire(1)` -/
example : (((SemState.new 0 false Clock.new).paRelease 1 (Clock.ofList [0, 5])).paAcquire 1 Clock.new).map (·.2)
    = some (Clock.ofList [0, 5]) := by decide

theorem atomic_write_read_edge (w r v : Nat) (a a' : AtomicState) (cw cr : Clock)
    (hmono : ple (aclk (Atomic.storeSpec w v a cw).1) (aclk a')) :
    ple (Atomic.storeSpec w v a cw).2 (Atomic.loadSpec r a' cr).2 :=
  Clock.atomic_write_read_edge w r v a a' cw cr hmono

theorem chan_send_recv_edge (s s1 s2 : ChanState) (v : Nat) (c : Clock) (out : PushOut) (e1 e2 : List Eff)
    (item : Nat × Clock) (mine : Clock) (hempty : s.messages = [])
    (hs : s.sendPush v c = .ok (s1, out, e1)) (hr : s1.recvPop = .ok (s2, item, e2)) :
    item = (v, c) ∧ ple c (mine.update item.2) :=
  Clock.chan_send_recv_edge s s1 s2 v c out e1 e2 item mine hempty hs hr

theorem barrier_edge (s s' : BarrierState) (me : Nat) (c : Clock) (clk : Nat → Clock) (e : Nat) (effs : List Eff)
    (h : s.arrive me c clk = .ok (s', .released e, effs)) (t : Nat) (ht : t ∈ s.waiters ∨ t = me) :
    ∃ x, Eff.joinClock t x ∈ effs ∧ ple c x ∧ ple s.clock x :=
  (Clock.barrier_edge s s' me c clk e effs h).2 t ht

theorem once_edge (s : OnceState) (c own : Clock) (me : Nat) :
    ((s.finish c).enter).2 = some c ∧ (s.finish c).isCompleted = some c ∧ ple c ((own.increment me).update c) :=
  Clock.once_edge s c own me

theorem condvar_notify_wait_edge (s s1 : CondvarState) (notifier w : Nat) (c : Clock) (e1 : List Eff)
    (hw : s.waiters.find? (·.1 == w) = some (w, .waiting)) (hn : s.notifyOne notifier c = .ok (s1, e1)) :
    ∃ s2 e2, s1.wake w = .ok (s2, c, e2) :=
  Clock.condvar_notify_wait_edge s s1 notifier w c e1 hw hn

/-! ### F13 (repaired in /repo): awaiting an async `JoinHandle` joins the child's clock

On the pinned tree `JoinHandle::poll` took the result without touching the clocks (poller stayed at `[1,0]`
against the child's `[1,2]`); the repair makes it `update_clock(child's clock)` like `thread::JoinHandle::join`.
The model follows the repaired code. -/

section F13

def f13P : Program := { U := FutHeap, init := {}, bodies := fun _ => .pure () }
def f13S : Scheduler Unit := ⟨fun s _ _ _ => (.choose none, s), fun s => (.ok 0, s)⟩
def f13L : Lens FutHeap FutHeap := { get := id, set := fun s _ => s }

/-- task 0 (clock `[1,0]`) polls the `JoinHandle` of the finished future task 1 (clock `[1,2]`, result
published) -/
def f13State : ExecState f13P Unit :=
  { k := { tasks := [{ clock := Clock.ofList [1, 0] }, { clock := Clock.ofList [1, 2], state := .finished }],
           current := .some 0 },
    u := { joins := [{}, { tid := some 1, result := some true }] },
    conts := [.pure (), .pure ()], sch := () }

/-- **async join edge on the witness of F13**: the poll is `Ready(Ok)` and the poller's clock becomes `[2,2]`,
which dominates the awaited task's clock `[1,2]` (exactly what `thread::JoinHandle::join` gives). -/
theorem f13_async_join_joins_clock :
    ((runSegment f13S 0 40 f13State
        ((Fut.pollJoinHandle f13L 1) >>= fun _ => .pure ())).kernel.tasks.map (·.clock))
      = [Clock.ofList [2, 2], Clock.ofList [1, 2]] ∧
    ple (Clock.ofList [1, 2]) (Clock.ofList [2, 2]) := by
  refine ⟨by decide, fun i => ?_⟩
  match i with
  | 0 => decide
  | 1 => decide
  | (n + 2) => simp [Clock.get, Clock.ofList, Clock.toList]

end F13

end ShuttleProofs.C15
