import ShuttleProofs.Lemmas.PlStep
/-
  C20 (parking_lot part) — theorems about the pure model of the parking_lot `RawRwLock`
  (ShuttleModel/Wrap/PlLocks.lean): over ALL histories of a most-general client (`PlCfg.run`, any
  number of tasks, any interleaving of the atomic steps of the operations, one guard per task — the
  Rust code tracks no owners, so a task holding two guards is indistinguishable from two tasks).

  `M` is `MAX_READERS`; the statements hold for every `M ≥ 1` and are instantiated with the real
  constant (`PL_MAX = usize::MAX >> 3`) in the examples.
-/
namespace ShuttleProofs.C20Pl
open ShuttleModel ShuttleProofs.Pl

/-! ### permit accounting ⇒ exclusion -/

/-- the invariant behind everything: `sem.avail + readers + upgradable + MAX·writers = MAX` and
`upgradable_sem.avail + upgradable = 1`, with every queued request owned by a waiting client -/
theorem pl_permit_accounting {M n : Nat} (hM : 1 ≤ M) (c : PlCfg) (h : Reachable M n c) :
    c.sem.avail + total (PlPhase.semPermits M) c.ph = M ∧ c.up.avail + total PlPhase.upPermits c.ph = 1 :=
  ⟨(inv_reachable hM c h).sem, (inv_reachable hM c h).up⟩

theorem phase_oob (c : PlCfg) (t : Nat) (h : ¬ t < c.ph.length) : c.phase t = .idle := by
  simp [PlCfg.phase, List.getElem?_eq_none (Nat.not_lt.mp h)]

theorem isW_sem (M : Nat) (p : PlPhase) (h : p.isW = true) : p.semPermits M = M := by
  cases p <;> simp [PlPhase.isW] at h <;> rfl

theorem sem_zero {M : Nat} (hM : 1 ≤ M) (p : PlPhase) (h : p.semPermits M = 0) :
    p.isW = false ∧ p.isShared = false ∧ p ≠ .bad := by
  cases p <;> simp [PlPhase.semPermits] at h <;> simp [PlPhase.isW, PlPhase.isShared] <;> omega

/-- **Exclusion.** While a task has exclusive access (including the unfinished conversions that
still own all permits), no other task has exclusive, shared or upgradable access. -/
theorem pl_exclusion {M n : Nat} (hM : 1 ≤ M) (c : PlCfg) (h : Reachable M n c) (t u : Nat) (hne : t ≠ u)
    (hw : (c.phase t).isW = true) : (c.phase u).isW = false ∧ (c.phase u).isShared = false := by
  have hi := inv_reachable hM c h
  by_cases ht : t < c.ph.length
  · by_cases hu : u < c.ph.length
    · have h2 := total_ge_two (PlPhase.semPermits M) c.ph t u ht hu hne
      have h1 := isW_sem M _ hw
      have hs := hi.sem
      rw [phase_eq] at h1
      simp only [phAt] at h1 h2
      have hz : (c.phase u).semPermits M = 0 := by
        simp only [PlCfg.phase]; omega
      exact ⟨(sem_zero hM _ hz).1, (sem_zero hM _ hz).2.1⟩
    · rw [phase_oob c u hu]; exact ⟨rfl, rfl⟩
  · rw [phase_oob c t ht] at hw; cases hw

/-- the phase reserved for "an upgrade request was granted while its owner still held its read
permit" is unreachable: `BatchSemaphore::upgrade`'s single poll never succeeds -/
theorem pl_upgrade_poll_never_succeeds {M n : Nat} (hM : 1 ≤ M) (c : PlCfg) (h : Reachable M n c) (t : Nat) :
    c.phase t ≠ .bad := by
  have hi := inv_reachable hM c h
  intro hb
  by_cases ht : t < c.ph.length
  · have h1 := total_ge (PlPhase.semPermits M) c.ph t ht
    have hs := hi.sem
    rw [phase_eq] at hb
    simp only [phAt] at hb h1
    rw [hb] at h1
    simp [PlPhase.semPermits] at h1
    omega
  · rw [phase_oob c t ht] at hb; cases hb

/-- **At most one upgradable holder** (counting the operations in progress that own the slot). -/
theorem pl_one_upgradable {M n : Nat} (hM : 1 ≤ M) (c : PlCfg) (h : Reachable M n c) (t u : Nat)
    (ht' : (c.phase t).isUp = true) (hu' : (c.phase u).isUp = true) : t = u := by
  have hi := inv_reachable hM c h
  apply Classical.byContradiction
  intro hne
  have ht : t < c.ph.length := by
    apply Classical.byContradiction; intro ht; rw [phase_oob c t ht] at ht'; cases ht'
  have hu : u < c.ph.length := by
    apply Classical.byContradiction; intro hu; rw [phase_oob c u hu] at hu'; cases hu'
  have h2 := total_ge_two PlPhase.upPermits c.ph t u ht hu hne
  have hs := hi.up
  simp only [PlPhase.isUp, beq_iff_eq, phase_eq] at ht' hu'
  simp only [phAt] at ht' hu' h2
  omega

/-- non-vacuity: two plain readers and an upgradable reader hold the lock together; a writer is
queued behind them -/
example : ∃ c, PlCfg.run PL_MAX (PlCfg.init PL_MAX 4)
      [(0, .read), (1, .upread), (1, .cont), (2, .read), (3, .write)] = some c ∧
    c.phase 0 = .hR ∧ c.phase 1 = .hU ∧ c.phase 2 = .hR ∧ c.phase 3 = .wW ∧
    c.sem.avail = PL_MAX - 3 := ⟨_, rfl, by decide⟩

/-! ### try-variants leave nothing behind -/

/-- A `try_*` operation that does not change the caller's phase (it reported failure) returns the
configuration unchanged — permits, queues and every other client. -/
theorem pl_try_leaves_nothing {M : Nat} (c c' : PlCfg) (t : Nat) (a : PlAct)
    (ha : a = .tryRead ∨ a = .tryWrite ∨ a = .tryUpread ∨ a = .tryUpgrade)
    (hs : PlCfg.step M c t a = some c') (hsame : c'.phase t = c.phase t) : c' = c := by
  unfold PlCfg.step at hs
  split at hs
  · cases hs
  · rename_i hlt
    have ht : t < c.ph.length := Nat.lt_of_not_ge hlt
    rcases ha with rfl | rfl | rfl | rfl <;> split at hs <;> simp_all <;>
      (split at hs <;> simp_all) <;>
      (subst hs; simp [PlCfg.phase, ht] at hsame)

/-- the rollback path of `try_lock_upgradable`: the upgradable slot is taken, `sem` refuses, the slot
is given back — afterwards the configuration is exactly the one before the call -/
theorem pl_try_upread_rollback {M : Nat} (c c1 c2 c3 : PlCfg) (t : Nat)
    (h0 : c.phase t = .idle)
    (h1 : PlCfg.step M c t .tryUpread = some c1) (hp1 : c1.phase t = .tU1)
    (h2 : PlCfg.step M c1 t .cont = some c2) (hp2 : c2.phase t = .tU2)
    (h3 : PlCfg.step M c2 t .cont = some c3) : c3 = c := by
  have ht : t < c.ph.length := by
    apply Classical.byContradiction; intro ht
    simp [PlCfg.step, Nat.not_lt.mp ht] at h1
  have hget : c.ph[t]? = some .idle := by
    simp only [PlCfg.phase] at h0
    rw [List.getElem?_eq_getElem ht] at h0 ⊢
    simpa using h0
  -- step 1: the slot is free and nobody is queued on it
  have e1 : PlCfg.step M c t .tryUpread = (match c.up.tryAcq 1 with
      | some s => some { c with up := s, ph := c.ph.set t .tU1 }
      | none => some c) := by
    simp [PlCfg.step, Nat.not_le.mpr ht, h0]
    cases c.up.tryAcq 1 <;> rfl
  rw [e1] at h1
  cases hty : c.up.tryAcq 1 with
  | none =>
    rw [hty] at h1
    injection h1 with h1; subst h1; rw [h0] at hp1; cases hp1
  | some s =>
    rw [hty] at h1
    injection h1 with h1
    have hc1 : c1.sem = c.sem ∧ c1.up = s ∧ c1.ph = c.ph.set t .tU1 := by subst h1; exact ⟨rfl, rfl, rfl⟩
    have hs : c.up.queue = [] ∧ 1 ≤ c.up.avail ∧ s = { avail := c.up.avail - 1, queue := [] } := by
      unfold FSem.tryAcq at hty
      split at hty
      · rename_i hc
        simp only [Bool.and_eq_true, decide_eq_true_eq, List.isEmpty_iff] at hc
        injection hty with hty
        refine ⟨hc.1, hc.2, ?_⟩
        rw [← hty, hc.1]
      · cases hty
    -- step 2: `sem` refuses
    have ht1 : t < c1.ph.length := by rw [hc1.2.2]; simpa using ht
    have e2 : PlCfg.step M c1 t .cont = (match c1.sem.tryAcq 1 with
        | some s' => some { c1 with sem := s', ph := c1.ph.set t .hU }
        | none => some (c1.setPh t .tU2)) := by
      simp [PlCfg.step, Nat.not_le.mpr ht1, hp1]
      cases c1.sem.tryAcq 1 <;> rfl
    rw [e2] at h2
    cases htr : c1.sem.tryAcq 1 with
    | some s' =>
      rw [htr] at h2
      injection h2 with h2; subst h2
      simp [PlCfg.phase, ht1] at hp2
    | none =>
      rw [htr] at h2
      injection h2 with h2
      have hc2 : c2.sem = c.sem ∧ c2.up = s ∧ c2.ph = c.ph.set t .tU2 := by
        subst h2
        refine ⟨hc1.1, hc1.2.1, ?_⟩
        simp [PlCfg.setPh, hc1.2.2]
      -- step 3: the slot is released, nobody was queued
      have ht2 : t < c2.ph.length := by rw [hc2.2.2]; simpa using ht
      have e3 : PlCfg.step M c2 t .cont = some (c2.relUp t .idle) := by
        simp [PlCfg.step, Nat.not_le.mpr ht2, hp2]
      rw [e3] at h3
      injection h3 with h3
      subst h3
      have hset : c.ph.set t PlPhase.idle = c.ph := by
        apply List.ext_getElem?
        intro i
        by_cases hi : i = t
        · subst hi; rw [List.getElem?_set_self ht, hget]
        · simp [List.getElem?_set_ne (Ne.symm hi)]
      have ha : c.up.avail - 1 + 1 = c.up.avail := by omega
      obtain ⟨hq, _, hs⟩ := hs
      cases c with | mk sem up ph =>
      cases up with | mk av q =>
      cases c2 with | mk sem2 up2 ph2 =>
      simp only at hc2 hset ha hq
      obtain ⟨rfl, rfl, rfl⟩ := hc2
      subst hs
      subst hq
      simp [PlCfg.relUp, FSem.rel, FSem.grant, PlCfg.advance, ha, hset]

/-! ### upgrade (F8) -/

/-
  FALSE on this tree (F8) — `pl_upgrade_atomic`:

    theorem pl_upgrade_atomic {M n} (hM : 1 ≤ M) (c c' : PlCfg) (h : Reachable M n c) (t : Nat)
        (acts : List (Nat × PlAct)) (hU : c.phase t = .hU)
        (hr : PlCfg.run M c ((t, .upgrade) :: acts) = some c')
        (hpending : c'.phase t = .upg1 ∨ c'.phase t = .upg2) :
        ∀ u, u ≠ t → (c'.phase u).isW = false

  (between the upgradable read and the completion of the upgrade nobody else has exclusive access).
  `BatchSemaphore::upgrade` queues the request for all permits BEHIND the requests that are already
  queued and then releases the read permit, so a writer that queued before the upgrade gets the lock
  first: `pl_upgrade_overtaken_witness`.  What does hold is FIFO order: `pl_upgrade_atomic_partial`.
-/

/-- F8: task 0 holds the upgradable read, task 1 queues a `write`, task 0 upgrades: after the two
atomic steps of `sem.upgrade(1, MAX)` task 1 is the writer and task 0 is still waiting. -/
theorem pl_upgrade_overtaken_witness :
    ∃ c, PlCfg.run PL_MAX (PlCfg.init PL_MAX 2)
        [(0, .upread), (0, .cont), (1, .write), (0, .upgrade), (0, .cont)] = some c ∧
      c.phase 0 = .upg2 ∧ c.phase 1 = .hW ∧ c.sem.queue = [(0, PL_MAX)] :=
  ⟨_, rfl, by decide⟩

/-- the witness refutes the statement above -/
theorem pl_upgrade_atomic_is_false :
    ¬ (∀ (c c' : PlCfg) (t : Nat) (acts : List (Nat × PlAct)), Reachable PL_MAX 2 c → c.phase t = .hU →
        PlCfg.run PL_MAX c ((t, .upgrade) :: acts) = some c' →
        (c'.phase t = .upg1 ∨ c'.phase t = .upg2) → ∀ u, u ≠ t → (c'.phase u).isW = false) := by
  intro hall
  have hreach : Reachable PL_MAX 2
      { sem := { avail := PL_MAX - 1, queue := [(1, PL_MAX)] }, up := { avail := 0 }, ph := [.hU, .wW] } :=
    ⟨[(0, .upread), (0, .cont), (1, .write)], by decide⟩
  have := hall _ { sem := { avail := 0, queue := [(0, PL_MAX)] }, up := { avail := 0 }, ph := [.upg2, .hW] }
    0 [(0, .cont)] hreach (by decide) (by decide) (by decide) 1 (by decide)
  revert this
  decide

/-- **What holds (1/2): no barging.** While any request is queued on `sem` — in particular while
an upgrade request is — a task that ARRIVES cannot take exclusive access: `try_write` and
`try_upgrade` change nothing, `write` joins the BACK of the queue. -/
theorem pl_upgrade_atomic_partial {M : Nat} (c c' : PlCfg) (u : Nat) (hq : c.sem.queue ≠ []) :
    (PlCfg.step M c u .tryWrite = some c' → c' = c) ∧
    (PlCfg.step M c u .tryUpgrade = some c' → c' = c) ∧
    (PlCfg.step M c u .write = some c' → c'.phase u = .wW ∧ c'.sem.queue = c.sem.queue ++ [(u, M)]) := by
  have hnone : ∀ n, c.sem.tryAcq n = none := by
    intro n
    unfold FSem.tryAcq
    cases hq' : c.sem.queue with
    | nil => exact absurd hq' hq
    | cons e q => simp
  refine ⟨?_, ?_, ?_⟩
  · intro hs
    unfold PlCfg.step at hs
    split at hs
    · cases hs
    · split at hs <;> simp_all
  · intro hs
    unfold PlCfg.step at hs
    split at hs
    · cases hs
    · split at hs <;> simp_all
  · intro hs
    unfold PlCfg.step at hs
    split at hs
    · cases hs
    · rename_i hlt
      have ht : u < c.ph.length := Nat.lt_of_not_ge hlt
      split at hs <;> simp_all
      subst hs
      simp [PlCfg.acqSem, FSem.acq, hnone, PlCfg.phase, ht]

/-- **What holds (2/2): FIFO grants.** A release grants a PREFIX of the queue: whatever is queued
behind the upgrade request is granted only if the upgrade request is granted by the same release
(and then there is nothing left for a second writer, `pl_exclusion`). -/
theorem pl_grants_are_a_prefix (q : List (Nat × Nat)) (a : Nat) :
    q = (FSem.grant q a).1 ++ (FSem.grant q a).2.1 := (grant_spec q a).1

/-! ### downgrades (F9) -/

/-
  FALSE on this tree (F9) — `pl_downgrades_do_not_wait` for `downgrade_to_upgradable`:

    theorem pl_downgrades_do_not_wait {M n} (hM : 1 ≤ M) (c : PlCfg) (h : Reachable M n c) (t : Nat)
        (a : PlAct) (ha : a = .downgrade ∨ a = .downUp ∨ a = .toUpRead) (c' : PlCfg)
        (hs : PlCfg.step M c t a = some c') :
        (c'.phase t = .hR ∨ c'.phase t = .hU ∨ c'.phase t = .du2) ∧ ∀ u, (c'.phase u).isW = true → u = t

  `downgrade_to_upgradable` ACQUIRES `upgradable_sem` while it owns all of `sem`; a queued
  `upgradable_read` owns that slot and waits for `sem`: `pl_down_up_deadlock_witness`.
-/

/-- F9: task 0 writes, task 1 starts `upgradable_read` (takes the slot, queues on `sem`), task 0
calls `downgrade_to_upgradable`: it queues on the slot while still exclusive; nobody can move. -/
theorem pl_down_up_deadlock_witness :
    ∃ c, PlCfg.run PL_MAX (PlCfg.init PL_MAX 2)
        [(0, .write), (1, .upread), (1, .cont), (0, .downUp)] = some c ∧
      c.phase 0 = .du1 ∧ c.phase 1 = .wU2 ∧ c.stuck = true ∧
      c.sem.queue = [(1, 1)] ∧ c.up.queue = [(0, 1)] :=
  ⟨_, rfl, by decide⟩

theorem relSem_phase_self {M : Nat} (c : PlCfg) (t : Nat) (p : PlPhase) (n : Nat) (h : Inv M c)
    (ht : t < c.ph.length) (hw : (c.phase t).waitsSem M = none) : (c.relSem t p n).phase t = p := by
  have hg := grant_spec c.sem.queue (c.sem.avail + n)
  have hnm : t ∉ (FSem.grant c.sem.queue (c.sem.avail + n)).1.map (·.1) := by
    intro hm
    apply not_mem_queue _ _ _ t h.semQ (by rw [← phase_eq]; exact hw)
    rw [hg.1, List.map_append]
    exact List.mem_append_left _ hm
  show phAt (PlCfg.advance _ (FSem.grant c.sem.queue (c.sem.avail + n)).1 (c.ph.set t p)) t = p
  rw [advance_not_mem _ _ _ _ hnm, phAt_set_eq _ _ _ ht]

theorem relUp_phase_self {M : Nat} (c : PlCfg) (t : Nat) (p : PlPhase) (h : Inv M c)
    (ht : t < c.ph.length) (hw : (c.phase t).waitsUp = none) : (c.relUp t p).phase t = p := by
  have hg := grant_spec c.up.queue (c.up.avail + 1)
  have hnm : t ∉ (FSem.grant c.up.queue (c.up.avail + 1)).1.map (·.1) := by
    intro hm
    apply not_mem_queue _ _ _ t h.upQ (by rw [← phase_eq]; exact hw)
    rw [hg.1, List.map_append]
    exact List.mem_append_left _ hm
  show phAt (PlCfg.advance _ (FSem.grant c.up.queue (c.up.avail + 1)).1 (c.ph.set t p)) t = p
  rw [advance_not_mem _ _ _ _ hnm, phAt_set_eq _ _ _ ht]

/-- no client has exclusive access when some client has shared access -/
theorem no_writer_of_shared {M : Nat} (c : PlCfg) (h : Inv M c) (t : Nat)
    (hs : (c.phase t).isShared = true) : ∀ u, (c.phase u).isW = false := by
  intro u
  have ht : t < c.ph.length := by
    apply Classical.byContradiction; intro ht; rw [phase_oob c t ht] at hs; cases hs
  have hs1 : (c.phase t).semPermits M = 1 := by
    cases hp : c.phase t <;> rw [hp] at hs <;> simp [PlPhase.isShared] at hs <;> rfl
  by_cases hu : u < c.ph.length
  · by_cases hne : t = u
    · subst hne
      cases hp : c.phase t <;> rw [hp] at hs <;> simp [PlPhase.isShared] at hs <;> rfl
    · cases hw : (c.phase u).isW with
      | false => rfl
      | true =>
        have h2 := total_ge_two (PlPhase.semPermits M) c.ph t u ht hu hne
        have h1 := isW_sem M _ hw
        have := h.sem
        rw [phase_eq] at h1 hs1
        simp only [phAt] at h1 h2 hs1
        omega
  · rw [phase_oob c u hu]; rfl

/-- **What holds**: `downgrade` (write → read) and `downgrade_upgradable` (upgradable → read) are
always enabled for the holder, complete in ONE atomic step — they only release — and leave no writer
anywhere: no writer is admitted. -/
theorem pl_downgrades_do_not_wait_partial {M n : Nat} (hM : 1 ≤ M) (c : PlCfg) (h : Reachable M n c) (t : Nat) :
    (c.phase t = .hW → ∃ c', PlCfg.step M c t .downgrade = some c' ∧ c'.phase t = .hR ∧
        ∀ u, (c'.phase u).isW = false) ∧
    (c.phase t = .hU → ∃ c', PlCfg.step M c t .toUpRead = some c' ∧ c'.phase t = .hR ∧
        ∀ u, (c'.phase u).isW = false) := by
  have hi := inv_reachable hM c h
  constructor
  · intro hp
    have ht : t < c.ph.length := by
      apply Classical.byContradiction; intro ht; rw [phase_oob c t ht] at hp; cases hp
    have hs : PlCfg.step M c t .downgrade = some (c.relSem t .hR (M - 1)) := by
      simp [PlCfg.step, Nat.not_le.mpr ht, hp]
    have hph := relSem_phase_self (M := M) c t .hR (M - 1) hi ht (by rw [hp]; rfl)
    refine ⟨_, hs, hph, ?_⟩
    exact no_writer_of_shared _ (inv_step hM c _ t .downgrade hi hs) t (by rw [hph]; rfl)
  · intro hp
    have ht : t < c.ph.length := by
      apply Classical.byContradiction; intro ht; rw [phase_oob c t ht] at hp; cases hp
    have hs : PlCfg.step M c t .toUpRead = some (c.relUp t .hR) := by
      simp [PlCfg.step, Nat.not_le.mpr ht, hp]
    have hph := relUp_phase_self (M := M) c t .hR hi ht (by rw [hp]; rfl)
    refine ⟨_, hs, hph, ?_⟩
    exact no_writer_of_shared _ (inv_step hM c _ t .toUpRead hi hs) t (by rw [hph]; rfl)

/-- non-vacuity of the partial statement: a writer with a queued reader and a queued writer
downgrades; the reader is admitted, the writer is not -/
example : ∃ c c', PlCfg.run PL_MAX (PlCfg.init PL_MAX 3) [(0, .write), (1, .read), (2, .write)] = some c ∧
    PlCfg.step PL_MAX c 0 .downgrade = some c' ∧
    c'.phase 0 = .hR ∧ c'.phase 1 = .hR ∧ c'.phase 2 = .wW := ⟨_, _, rfl, rfl, by decide⟩

end ShuttleProofs.C20Pl
