import ShuttleProofs.C05

open ShuttleProofs.C05

-- Condvar
#print axioms wait_returns_only_after_notify_during_wait
#print axioms notify_one_releases_at_most_one
#print axioms any_waiter_can_win
#print axioms notify_all_releases_all
#print axioms condvar_blocked_iff_no_pending_signal
#print axioms condvar_no_lost_wakeup
#print axioms mutex_released_while_waiting_and_reheld
-- Barrier
#print axioms barrier_releases_exact_group
#print axioms one_leader_per_generation
#print axioms barrier_reuse_generations
#print axioms barrier_bound_zero_one
-- Once
#print axioms exactly_one_initializer
#print axioms call_once_returns_after_completion
#print axioms is_completed_iff_complete
-- park / unpark
#print axioms token_is_boolean
#print axioms park_consumes_or_blocks
#print axioms unpark_unblocks_or_sets_token
#print axioms blocked_in_park_cleared_on_any_unblock
#print axioms park_invariant
