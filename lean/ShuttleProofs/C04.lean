import ShuttleProofs.Lemmas.LocksAtomic
import ShuttleProofs.Lemmas.LocksRw
import ShuttleProofs.Lemmas.LocksN
/-
  C04 — Mutex, RwLock (`shuttle-std/src/sync/{mutex,rwlock}.rs`, model `ShuttleModel/Prim/Locks.lean`
  over the BatchSemaphore of `Prim/Sem.lean`) and atomics (`shuttle-std/src/sync/atomic/mod.rs`).

  "In every execution at most one task holds a given Mutex or a given RwLock for writing, and no
   task holds it for reading while it is held for writing; lock and read/write return only when
   that is true, try_lock/try_read/try_write succeed exactly when the lock is available
   (re-entrant attempts fail or are diagnosed) and leave it unchanged when they fail, and a lock
   released by a panicking holder is seen as poisoned. Every atomic operation takes effect
   indivisibly and all atomic operations of an execution form one total order consistent with
   program order, each returning what std's atomic of the same type would return at that point."

  Locks: the statements are about the most-general disciplined client of `Lemmas/LocksLts.lean`
  (`MReach` / `RReach fixedF3`): every step is exactly the state update a wrapper of `Locks.lean`
  performs between two scheduling points (`lockStart`, `lockPoll`, `lockPoisoned`, `tryLock`,
  `tryGiveBack`, `unlock`, `write`), built from the semaphore steps of `Lemmas/SemLts.lean` and the
  pure guard updates `takeGuard` / `dropGuard` that the wrappers call; `fin`, `p = isPanicking` and
  the clocks are arbitrary at every step; ghost lists record which tasks own a live guard; a task
  drops only a guard it owns.  `.error msg` = the wrapper panics with `msg`.
-/
namespace ShuttleModel
namespace C04
open SemLts LocksLts

/-! ## Mutex -/

/-- In every reachable state the tasks owning a live `MutexGuard` are exactly `holder` (so there is
at most one), and while the lock is not poisoned the single permit is accounted for:
`avail + (permits granted to a waiter that has not yet returned from lock) + (1 if held) = 1`. -/
theorem mutex_exclusive {g : MG} (h : MReach g) :
    g.guards = g.m.holder.toList ∧
    (g.m.sem.closed = false →
      g.m.sem.avail + pend g.m.sem.table + (if g.m.holder.isSome then 1 else 0) = 1) ∧
    Inv g.m.sem :=
  LocksLts.mutex_exclusive h

theorem mutex_at_most_one_guard {g : MG} (h : MReach g) : g.guards.length ≤ 1 :=
  LocksLts.mutex_at_most_one_guard h

/-- while held (and unpoisoned) no permit is available and none has been granted to a waiter -/
theorem mutex_held_no_permit {g : MG} (h : MReach g) (hc : g.m.sem.closed = false)
    (hh : g.m.holder.isSome = true) : g.m.sem.avail = 0 ∧ pend g.m.sem.table = 0 :=
  LocksLts.mutex_held_no_permit h hc hh

/-- `lock` / `try_lock` hand out a guard only from a state in which nobody holds the Mutex — also on
a poisoned Mutex, where the semaphore no longer protects it and the `holder.is_none()` assertion
does (`mutex_poisoned_second_locker_panics`) -/
theorem mutex_lock_returns_only_if_free {fin : Nat → Bool} {p : Bool} {g : MG} {op : MOp}
    {m' : MutexState} {out : MOut} (hr : MReach g) (h : mstep fin p g.m op = .ok (m', out))
    (hgd : out.guard = true) : g.m.holder = none ∧ m'.holder = some op.task :=
  mutex_guard_only_if_free (mreach_inv hr) h hgd

open MutexExample in
example : ∃ g, MReach g ∧ g.m.holder = some 2 ∧ g.guards = [2] ∧ g.m.sem.avail = 0 ∧
    g.m.sem.closed = false := ⟨_, r6, rfl, rfl, rfl, rfl⟩
open MutexExample in
example : ∃ g, MReach g ∧ g.m.holder = some 1 ∧ g.m.sem.queue = [1] ∧ g.m.sem.closed = false :=
  ⟨_, r4, rfl, rfl, rfl⟩

/-! ## RwLock -/

/-- In every reachable state (also a poisoned one) the owners of live guards match `holder`:
`write w` ⇒ exactly one write guard and no read guard; `read rs` ⇒ the read guards are `rs`
(non-empty, no duplicates) and there is no write guard; and while unpoisoned the `MAX_READS`
permits are accounted for (write = `MAX_READS`, read = 1; `owed` = permits taken by re-entrant
`try_read`s that the caller does not hold as a guard — defect F3 —, given back by `tryGiveBack`
in the repaired code). -/
theorem rwlock_exclusive {fx : Bool} {g : RG} (h : RReach fx g) :
    HM g.m.holder g.rguards g.wguards ∧
    (g.m.sem.closed = false →
      g.m.sem.avail + pend g.m.sem.table + g.rguards.length + Generated.MAX_READS * g.wguards.length
        + g.owed.length = Generated.MAX_READS) ∧
    Inv g.m.sem :=
  LocksLts.rwlock_exclusive h

theorem rwlock_writer_exclusive {fx : Bool} {g : RG} (h : RReach fx g) : g.wguards.length ≤ 1 :=
  LocksLts.rwlock_writer_exclusive h

theorem rwlock_no_reader_with_writer {fx : Bool} {g : RG} (h : RReach fx g) :
    g.rguards = [] ∨ g.wguards = [] :=
  LocksLts.rwlock_no_reader_with_writer h

/-- readers < MAX_READS is not an assumption: it follows; and a writer leaves no permit -/
theorem rwlock_counts {fx : Bool} {g : RG} (h : RReach fx g) (hc : g.m.sem.closed = false) :
    g.rguards.length ≤ Generated.MAX_READS ∧
      (g.wguards ≠ [] → g.m.sem.avail = 0 ∧ pend g.m.sem.table = 0 ∧ g.owed = []) :=
  LocksLts.rwlock_counts h hc

/-- `read`/`write`/`try_read`/`try_write` hand out a guard only from a compatible state -/
theorem rwlock_lock_returns_only_if_compatible {fx : Bool} {fin : Nat → Bool} {p : Bool} {g : RG}
    {op : ROp} {m' : RwLockState} {out : ROut} (hr : RReach fx g)
    (h : rstep fin p g.m op = .ok (m', out)) (hgd : out.guard = true) :
    if op.isWrite then g.m.holder = .none ∧ m'.holder = .write op.task
    else (g.m.holder = .none ∧ m'.holder = .read [op.task]) ∨
      ∃ rs, g.m.holder = .read rs ∧ op.task ∉ rs ∧ m'.holder = .read (rs ++ [op.task]) :=
  rwlock_guard_only_if_compatible (rreach_inv hr) h hgd

/-- the branch of `try_lock` that returns a guard without recording a holder (holder incompatible
although the permits were obtained) is unreachable -/
theorem rwlock_try_incompatible_unreachable {fx : Bool} {g : RG} (hr : RReach fx g) {t : Nat}
    {write p : Bool} {clk : Clock} {s' : SemState} {pc : Clock}
    (hacq : g.m.sem.acquirePermits (RwLock.permits write) clk = .ok (.ok (s', pc))) :
    ({ g.m with sem := s' } : RwLockState).takeGuard t write p ≠ .incompatible :=
  try_take_compatible (rreach_inv hr) hacq

open RwExample in
example : ∃ g, RReach true g ∧ g.m.holder = .write 3 ∧ g.wguards = [3] ∧ g.rguards = [] :=
  ⟨_, r8, rfl, rfl, rfl⟩
open RwExample in
example : ∃ g, RReach true g ∧ g.m.holder = .read [1, 2] ∧ g.rguards = [1, 2] ∧ g.wguards = [] ∧
    g.m.sem.queue = [1] := ⟨_, r5, rfl, rfl, rfl, rfl⟩

/-! ## the client discipline of `lockPoll` is no restriction -/

/-- Every `Acquire` on a Mutex's semaphore asks for exactly 1 permit, on a RwLock's for 1 or
`MAX_READS`: the enabling condition of `lockPoll` in `LocksLts` (the polled `Acquire` asks for the
permits of this lock operation) only says that the polled `Acquire` is alive (Mutex) / was
created by a `read` resp. `write` (RwLock). -/
theorem lock_waiters_request_lock_amounts :
    (∀ {g : MG}, MReach g → ∀ w ∈ g.m.sem.table, w.n = 1) ∧
    (∀ {g : MG}, MReach g → ∀ t wid clk,
      MEnabled g (.lockPoll t wid clk) ↔ (g.m.sem.getW wid).isSome = true) ∧
    (∀ {fx : Bool} {g : RG}, RReach fx g → ∀ w ∈ g.m.sem.table,
      ∃ write : Bool, w.n = RwLock.permits write) :=
  ⟨fun hr => mutex_all_waiters_one hr, fun hr => mutex_lockPoll_enabled_iff hr,
   fun hr => rwlock_all_waiters_amount hr⟩

/-! ## try_lock / try_read / try_write -/

/-- Mutex: `try_lock` returns a guard exactly when the lock is available: not poisoned, not held,
and not already handed to a waiter that has yet to return from `lock` (the inner semaphore is
unfair: queued waiters do not matter) -/
theorem try_succeeds_iff_available_mutex {fin : Nat → Bool} {p : Bool} {g : MG} {m' : MutexState}
    {t : Nat} {clk : Clock} {r : LockRes} (hr : MReach g)
    (h : mstep fin p g.m (.tryLock t clk) = .ok (m', .tried r)) :
    (r ≠ .wouldBlock ↔ (g.m.sem.closed = false ∧ 1 ≤ g.m.sem.avail)) ∧
    (r ≠ .wouldBlock ↔ (g.m.sem.closed = false ∧ g.m.holder = none ∧ pend g.m.sem.table = 0)) :=
  ⟨mutex_try_succeeds_iff_available (mreach_inv hr).fair h, mutex_try_succeeds_iff_free (mreach_inv hr) h⟩

/-- `try_lock` never panics -/
theorem mutex_try_lock_total (fin : Nat → Bool) (p : Bool) (m : MutexState) (t : Nat) (clk : Clock) :
    ∃ m' r, mstep fin p m (.tryLock t clk) = .ok (m', .tried r) :=
  mutex_tryLock_total fin p m t clk

/-- RwLock: `try_read`/`try_write` return a guard exactly when the permits are available and the
caller is not already a holder (a re-entrant `try_read` finds a permit but fails) -/
theorem try_succeeds_iff_available_rwlock {fx : Bool} {fin : Nat → Bool} {p : Bool} {g : RG}
    {m' : RwLockState} {t : Nat} {write : Bool} {clk : Clock} {r : LockRes} {owes : Bool}
    (hr : RReach fx g) (h : rstep fin p g.m (.tryLock t write clk) = .ok (m', .tried r owes)) :
    r ≠ .wouldBlock ↔
      (g.m.sem.closed = false ∧ RwLock.permits write ≤ g.m.sem.avail ∧ g.m.holds t = false) :=
  rwlock_try_succeeds_iff (rreach_inv hr) h

/-- a failed `try_lock` / `try_read` / `try_write` leaves the whole lock state unchanged … -/
theorem failed_try_leaves_state_mutex {fin : Nat → Bool} {p : Bool} {m m' : MutexState} {t : Nat}
    {clk : Clock} (h : mstep fin p m (.tryLock t clk) = .ok (m', .tried .wouldBlock)) : m' = m :=
  mutex_failed_try_leaves_state h

/-- … for the RwLock whenever the failure is not the re-entrant `try_read` (`owes = false`) -/
theorem failed_try_leaves_state_rwlock {fin : Nat → Bool} {p : Bool} {m m' : RwLockState} {t : Nat}
    {write : Bool} {clk : Clock}
    (h : rstep fin p m (.tryLock t write clk) = .ok (m', .tried .wouldBlock false)) : m' = m :=
  rwlock_failed_try_leaves_state h

/- `failed_try_leaves_state` in full generality —
     `rstep fin p m (.tryLock t write clk) = .ok (m', .tried .wouldBlock owes) → m' = m` —
   is FALSE for a `try_read` by a task that already holds the read lock (defect F3): -/

/-- the re-entrant `try_read` returns `WouldBlock` but has taken one permit -/
theorem failed_try_read_takes_permit {fin : Nat → Bool} {p : Bool} {m m' : RwLockState} {t : Nat}
    {write : Bool} {clk : Clock} {r : LockRes} (hi : Inv m.sem)
    (h : rstep fin p m (.tryLock t write clk) = .ok (m', .tried r true)) :
    r = .wouldBlock ∧ write = false ∧ m.holds t = true ∧ m'.sem.avail + 1 = m.sem.avail ∧
      m'.sem.table = m.sem.table ∧ m'.sem.queue = m.sem.queue ∧ m'.sem.closed = m.sem.closed ∧
      m'.holder = m.holder ∧ m'.poisoned = m.poisoned ∧ m'.value = m.value :=
  reentrant_try_read_takes_permit hi h

/-- original code (`fixedF3 := false`): the permit is lost for good — reachable state in which
nobody holds the lock, yet this and every later `try_write` fails in every continuation -/
theorem failed_try_read_leaks_permit_witness :
    RReach false ⟨RwExample.b1, [1], [], []⟩ ∧
    rstep RwExample.nf false RwExample.b1 (.tryLock 1 false RwExample.c0)
      = .ok (RwExample.b2, .tried .wouldBlock true) ∧
    RwExample.b2.sem.avail + 1 = RwExample.b1.sem.avail ∧ RwExample.b2 ≠ RwExample.b1 ∧
    RReach false ⟨RwExample.b3, [], [], [1]⟩ ∧ RwExample.b3.holder = .none ∧
    RwExample.b3.sem.avail + 1 = Generated.MAX_READS ∧
    rstep RwExample.nf false RwExample.b3 (.tryLock 2 true RwExample.c0)
      = .ok (RwExample.b3, .tried .wouldBlock false) ∧
    (∀ g', RSteps false ⟨RwExample.b3, [], [], [1]⟩ g' → ∀ fin p t clk m' out,
      rstep fin p g'.m (.tryLock t true clk) = .ok (m', out) → out = .tried .wouldBlock false) :=
  RwExample.failed_try_read_leaks_permit_witness

/-- repaired code (`fixedF3 := true`): the wrapper gives the permit back through a full
`Sem.release` (a scheduling point, hence the separate step `tryGiveBack`); afterwards holder,
`avail`, queue, waiter table, `closed`, value and poison flags are as before the `try_read` (only
the batch clocks of the semaphore differ) -/
theorem failed_try_leaves_state_fixed {fin fin' : Nat → Bool} {p : Bool} {m m1 m2 : RwLockState}
    {t : Nat} {write : Bool} {clk clk' : Clock} {r : LockRes} {out' : ROut} (hi : Inv m.sem)
    (hf : m.sem.fair = false)
    (h1 : rstep fin p m (.tryLock t write clk) = .ok (m1, .tried r true))
    (h2 : rstep fin' false m1 (.tryGiveBack t clk') = .ok (m2, out')) :
    m2.holder = m.holder ∧ m2.sem.avail = m.sem.avail ∧ m2.sem.queue = m.sem.queue ∧
      m2.sem.table = m.sem.table ∧ m2.sem.closed = m.sem.closed ∧ m2.sem.fair = m.sem.fair ∧
      m2.sem.nextWid = m.sem.nextWid ∧ m2.value = m.value ∧ m2.poisoned = m.poisoned ∧
      m2.wGuardPanicking = m.wGuardPanicking :=
  reentrant_try_read_restored hi hf h1 h2

open MutexExample in
example : mstep nf false s4 (.tryLock 3 c0) = .ok (s4, .tried .wouldBlock) := rfl
open MutexExample in
example : ∃ m', mstep nf false s5 (.tryLock 3 c0) = .ok (m', .tried (.ok 0)) ∧ m'.holder = some 3 :=
  ⟨_, rfl, rfl⟩
open RwExample in
example : RReach true ⟨b2', [1], [], []⟩ ∧ b2'.sem.avail = b1.sem.avail ∧ b2'.holder = b1.holder :=
  ⟨q3', rfl, rfl⟩

/-! ## re-entrancy -/

/-- `lock` by the task that holds the Mutex / `read`,`write` by a task that holds the RwLock
(unpoisoned) panics with the documented diagnostic; re-entrant `try_*` fail -/
theorem reentrant_diagnosed (fin : Nat → Bool) (p : Bool) (t : Nat) (clk : Clock) :
    (∀ m : MutexState, m.holder = some t →
      mstep fin p m (.lockStart t clk) =
        .error s!"deadlock! task TaskId({t}) tried to acquire a Mutex it already holds") ∧
    (∀ (m : RwLockState) (write : Bool), m.holds t = true →
      rstep fin p m (.lockStart t write clk) =
        .error s!"deadlock! task TaskId({t}) tried to acquire a RwLock it already holds") :=
  ⟨fun _ hh => mutex_reentrant_diagnosed fin p clk hh,
   fun _ write hh => rwlock_reentrant_diagnosed fin p write clk hh⟩

theorem reentrant_try_fails {fin : Nat → Bool} {p : Bool} {t : Nat} {clk : Clock} :
    (∀ {g : MG} {m' : MutexState} {r : LockRes}, MReach g → g.m.holder = some t →
      mstep fin p g.m (.tryLock t clk) = .ok (m', .tried r) → r = .wouldBlock ∧ m' = g.m) ∧
    (∀ {fx : Bool} {g : RG} {m' : RwLockState} {write : Bool} {r : LockRes} {owes : Bool},
      RReach fx g → g.m.holds t = true →
      rstep fin p g.m (.tryLock t write clk) = .ok (m', .tried r owes) → r = .wouldBlock) :=
  ⟨fun hr hh h => mutex_reentrant_try_fails (mreach_inv hr) hh h,
   fun hr hh h => rwlock_reentrant_try_fails (rreach_inv hr) hh h⟩

open MutexExample in
example : mstep nf false s2 (.lockStart 1 c0) =
    .error s!"deadlock! task TaskId({1}) tried to acquire a Mutex it already holds" :=
  mutex_reentrant_diagnosed nf false c0 rfl

/-! ## poisoning -/

/-- A guard taken before the panic and dropped while panicking poisons the lock: the poison flag is
set, the inner semaphore is closed by `releasePoison` (queue emptied, waiters NOT woken), nobody
holds the lock … -/
theorem poison_after_panicking_release :
    (∀ {fin : Nat → Bool} {m m' : MutexState} {t : Nat} {clk : Clock} {out : MOut}, Inv m.sem →
      m.guardPanicking = false → mstep fin true m (.unlock t clk) = .ok (m', out) →
      m'.poisoned = true ∧ m'.sem.closed = true ∧ m'.sem.queue = [] ∧ m'.holder = none) ∧
    (∀ {fin : Nat → Bool} {m m' : RwLockState} {t : Nat} {clk : Clock} {out : ROut}, Inv m.sem →
      m.wGuardPanicking = false → rstep fin true m (.unlock t true clk) = .ok (m', out) →
      m'.poisoned = true ∧ m'.sem.closed = true ∧ m'.sem.queue = [] ∧ m'.holder = .none) :=
  ⟨fun hi hg h => mutex_poison_after_panicking_release hi hg h,
   fun hi hg h => rwlock_poison_after_panicking_release hi hg h⟩

/-- … for ever, and every later `lock`/`read`/`write` that returns, returns `Err(Poisoned)` -/
theorem poisoned_is_seen :
    (∀ {g g' : MG}, MReach g → MSteps g g' → g.m.poisoned = true → g.m.sem.closed = true →
      g'.m.poisoned = true ∧ g'.m.sem.closed = true) ∧
    (∀ {fin : Nat → Bool} {p : Bool} {m m' : MutexState} {op : MOp} {r : LockRes},
      m.poisoned = true → mstep fin p m op = .ok (m', .locked r) → r = .poisoned m.value) ∧
    (∀ {fx : Bool} {g g' : RG}, RReach fx g → RSteps fx g g' → g.m.poisoned = true →
      g.m.sem.closed = true → g'.m.poisoned = true ∧ g'.m.sem.closed = true) ∧
    (∀ {fin : Nat → Bool} {p : Bool} {m m' : RwLockState} {op : ROp} {r : LockRes},
      m.poisoned = true → rstep fin p m op = .ok (m', .locked r) → r = .poisoned m.value) :=
  ⟨fun hr hs hp hc => mutex_poison_persistent hr hs hp hc,
   fun hp h => mutex_lock_poisoned_result hp h,
   fun hr hs hp hc => rwlock_poison_persistent hr hs hp hc,
   fun hp h => rwlock_lock_poisoned_result hp h⟩

/-- observation: on a poisoned shuttle lock `try_lock` returns `WouldBlock` (the semaphore is
closed), where std returns `Err(Poisoned)` -/
theorem try_on_poisoned_would_block {fin : Nat → Bool} {p : Bool} {m m' : MutexState} {t : Nat}
    {clk : Clock} {out : MOut} (hc : m.sem.closed = true)
    (h : mstep fin p m (.tryLock t clk) = .ok (m', out)) : out = .tried .wouldBlock ∧ m' = m :=
  mutex_try_on_poisoned hc h

/-- F12: on a poisoned Mutex mutual exclusion is kept by an assertion, not by blocking: a second
`lock` while the first poisoned guard is alive panics -/
theorem mutex_poisoned_second_locker_panics (fin : Nat → Bool) (p : Bool) {m : MutexState} (t : Nat)
    (hh : m.holder.isSome = true) :
    mstep fin p m (.lockPoisoned t) = .error "assertion failed: state.holder.is_none()" :=
  mutex_lockPoisoned_held fin p t hh

/-- observation: a READ guard dropped while panicking closes the semaphore too (later lockers bypass
it) although the lock is not marked poisoned -/
theorem rwlock_panicking_read_release_closes {fin : Nat → Bool} {m m' : RwLockState} {t : Nat}
    {clk : Clock} {out : ROut} (hi : Inv m.sem)
    (h : rstep fin true m (.unlock t false clk) = .ok (m', out)) :
    m'.poisoned = m.poisoned ∧ m'.sem.closed = true ∧ m'.sem.queue = [] :=
  rwlock_panicking_read_release hi h

open MutexExample in
example : MReach ⟨s5p, []⟩ ∧ s5p.poisoned = true ∧ s5p.sem.closed = true ∧ s5p.sem.queue = [] ∧
    s5p.holder = none :=
  ⟨r5p, mutex_poison_after_panicking_release (mreach_inv r4).sem rfl e5p⟩
open MutexExample in
example : ∃ m', mstep nf false s5p (.lockPoisoned 3) = .ok (m', .locked (.poisoned 0)) ∧
    m'.holder = some 3 := ⟨_, rfl, rfl⟩
open RwExample in
example : RReach true ⟨a9, [], [], []⟩ ∧ a9.poisoned = true ∧ a9.sem.closed = true :=
  ⟨r9, rfl, rfl⟩

/-! ## Atomics -/

section Atomics
open AtomicExample

/-- Every atomic operation is, as a program, exactly ONE scheduling point (`thread::switch()`, at its
very beginning) followed by a body that contains no scheduling point. -/
theorem atomic_ops_are_fetch_update {U : Type} (L : Lens U AtomicState) :
    (Atomic.load L = Prog.op .switch (fun _ => Atomic.loadBody L) ∧ (Atomic.loadBody L).SwitchFree) ∧
    (∀ v, Atomic.store L v = Prog.op .switch (fun _ => Atomic.storeBody L v) ∧
      (Atomic.storeBody L v).SwitchFree) ∧
    (∀ v, Atomic.swap L v = Prog.op .switch (fun _ => Atomic.swapBody L v) ∧
      (Atomic.swapBody L v).SwitchFree) ∧
    (∀ f, Atomic.fetchUpdate L f = Prog.op .switch (fun _ => Atomic.fetchUpdateBody L f) ∧
      (Atomic.fetchUpdateBody L f).SwitchFree) :=
  Atomic.ops_are_switch_then_switchFree_body L

/-- … and that body, run by the real segment semantics `runSegment`, computes exactly std's
`fetch_update(f)` (`AtomicState.rmw`: heap update `value := v % 2^bits` when `f old = some v`,
result `(Ok/Err, old)`), touching nothing else (`RmwEffect`: rest of the shared state, other
tasks, continuations, scheduler, log unchanged; only the caller's vector clock moves), for any
lawful lens and any state in which the calling task exists. -/
theorem atomic_fetch_update_is_rmw {P : Program} {σ : Type} (S : Scheduler σ) (me : Nat)
    {L : Lens P.U AtomicState} (hL : L.Lawful) {st : ExecState P σ} {tk : Task}
    (h : st.k.tasks[me]? = some tk) (fuel : Nat) (f : Nat → Option Nat)
    (k : Bool × Nat → Prog P.U Unit) :
    ∃ st', runSegment S me (fuel + Atomic.fetchUpdateCost f (L.get st.u)) st
          (Atomic.fetchUpdateBody L f >>= k) =
        runSegment S me fuel st' (k ((L.get st.u).rmw f).2) ∧
      Atomic.RmwEffect L me f st st' :=
  Atomic.fetchUpdateBody_runSegment S me hL h fuel f k

/-- `load` = `fetch_update(|_| None)` returning the value -/
theorem atomic_load_is_rmw {P : Program} {σ : Type} (S : Scheduler σ) (me : Nat)
    {L : Lens P.U AtomicState} (hL : L.Lawful) {st : ExecState P σ} {tk : Task}
    (h : st.k.tasks[me]? = some tk) (fuel : Nat) (k : Nat → Prog P.U Unit) :
    ∃ st', runSegment S me (fuel + 5) st (Atomic.loadBody L >>= k) =
        runSegment S me fuel st' (k (L.get st.u).value) ∧
      Atomic.RmwEffect L me (fun _ => none) st st' :=
  Atomic.loadBody_runSegment S me hL h fuel k

/-- `store v` = `fetch_update(|_| Some(v))`, result ignored -/
theorem atomic_store_is_rmw {P : Program} {σ : Type} (S : Scheduler σ) (me : Nat)
    {L : Lens P.U AtomicState} (hL : L.Lawful) {st : ExecState P σ} {tk : Task}
    (h : st.k.tasks[me]? = some tk) (fuel : Nat) (v : Nat) (k : Unit → Prog P.U Unit) :
    ∃ st', runSegment S me (fuel + 7) st (Atomic.storeBody L v >>= k) = runSegment S me fuel st' (k ()) ∧
      Atomic.RmwEffect L me (fun _ => some v) st st' :=
  Atomic.storeBody_runSegment S me hL h fuel v k

/-- `swap v` = `fetch_update(|_| Some(v))` returning the previous value -/
theorem atomic_swap_is_rmw {P : Program} {σ : Type} (S : Scheduler σ) (me : Nat)
    {L : Lens P.U AtomicState} (hL : L.Lawful) {st : ExecState P σ} {tk : Task}
    (h : st.k.tasks[me]? = some tk) (fuel : Nat) (v : Nat) (k : Nat → Prog P.U Unit) :
    ∃ st', runSegment S me (fuel + 11) st (Atomic.swapBody L v >>= k) =
        runSegment S me fuel st' (k (L.get st.u).value) ∧
      Atomic.RmwEffect L me (fun _ => some v) st st' :=
  Atomic.swapBody_runSegment S me hL h fuel v k

/-- std instances: `fetch_add(n)` wraps at `2^bits`; `compare_exchange(cur, new)` -/
theorem atomic_std_instances (a : AtomicState) (n cur new : Nat) :
    a.rmw (fun old => some (old + n)) = ({ a with value := (a.value + n) % 2 ^ a.bits }, true, a.value) ∧
    a.rmw (fun old => if old == cur then some new else none) =
      (if a.value = cur then ({ a with value := new % 2 ^ a.bits }, true, a.value)
       else (a, false, a.value)) :=
  ⟨Atomic.rmw_fetchAdd a n, Atomic.rmw_compareExchange a cur new⟩

/-- `fetch_add(10)` on an `AtomicU8` holding 250 returns `Ok(250)` and leaves 4 -/
example (fuel : Nat) (k : Bool × Nat → Prog P8.U Unit) :
    ∃ st', runSegment S0 0 (fuel + 11) st0 (Atomic.fetchUpdateBody idL (fun old => some (old + 10)) >>= k) =
        runSegment S0 0 fuel st' (k (true, 250)) ∧ (idL.get st'.u).value = 4 := by
  obtain ⟨st', e, hv, _⟩ := Atomic.fetchAdd_runSegment S0 0 idL_lawful st0_task fuel 10 k
  exact ⟨st', e, hv⟩
example : (({ value := 250, bits := 8 } : AtomicState).rmw (fun old => some (old + 10))).1.value = 4 ∧
    (({ value := 250, bits := 8 } : AtomicState).rmw (fun old => some (old + 10))).2 = (true, 250) := by
  decide

/-- Total order: (a) a switch-free piece of program (in particular the body of an atomic operation)
is executed inside ONE segment: `runSegment` never stops at a scheduling point inside it — it
reaches the continuation `k a`, or the task fails / runs out of segment fuel;
(b) an atomic operation first yields (`atSwitch`, shared state untouched, the stored continuation is
the body), and the segment that later resumes the body performs exactly the operation and stops at
the task's next scheduling point. Hence every operation takes effect in exactly one iteration of
`runLoop`, the iterations are totally ordered, and a task's operations take effect in program
order (each starts with its own scheduling point, reached only after the previous body is done). -/
theorem atomic_total_order {P : Program} {σ : Type} (S : Scheduler σ) (me : Nat) :
    (∀ {α : Type} {p : Prog P.U α}, p.SwitchFree → ∀ (k : α → Prog P.U Unit) (fuel : Nat)
        (st : ExecState P σ), SwitchFreeOutcome S me fuel st k (runSegment S me fuel st (p >>= k))) ∧
    (∀ (L : Lens P.U AtomicState) (fuel : Nat) (st : ExecState P σ) (f : Nat → Option Nat)
        (k : Bool × Nat → Prog P.U Unit),
        runSegment S me (fuel + 1) st (Atomic.fetchUpdate L f >>= k) =
          .atSwitch { st with conts := st.conts.set me (Atomic.fetchUpdateBody L f >>= k) }) ∧
    (∀ (L : Lens P.U AtomicState), L.Lawful → ∀ (st : ExecState P σ) (tk : Task),
        st.k.tasks[me]? = some tk → ∀ (fuel : Nat) (f : Nat → Option Nat)
        (kont : Bool × Nat → Unit → Prog P.U Unit),
        ∃ st', runSegment S me (fuel + 1 + Atomic.fetchUpdateCost f (L.get st.u)) st
              (Atomic.fetchUpdateBody L f >>= fun r => .op .switch (kont r)) =
            .atSwitch { st' with conts := st'.conts.set me (kont ((L.get st.u).rmw f).2 ()) } ∧
          Atomic.RmwEffect L me f st st') :=
  ⟨fun hp k fuel st => runSegment_switchFree S me hp k fuel st,
   fun _ fuel st f k => Atomic.fetchUpdate_runSegment_atSwitch S me fuel st f k,
   fun _ hL _ _ h fuel f kont => Atomic.fetchUpdateBody_segment S me hL h fuel f kont⟩

/-- the same at the level of the run loop: one iteration = exactly one atomic operation -/
theorem atomic_one_loop_iteration {P : Program} {σ : Type} (S : Scheduler σ)
    {L : Lens P.U AtomicState} (hL : L.Lawful) (sf fuel : Nat)
    (st : ExecState P σ) (k : Kernel) (s : σ) (ev : Option Ev) (t : Nat) (tk : Task)
    (f : Nat → Option Nat) (kont : Bool × Nat → Unit → Prog P.U Unit)
    (hs : st.k.schedule S st.sch = .ok k s ev) (hc : k.advance.current = .some t)
    (hp : st.conts[t]? = some (Atomic.fetchUpdateBody L f >>= fun r => .op .switch (kont r)))
    (ht : k.tasks[t]? = some tk) :
    ∃ st', runLoop S (sf + 1 + Atomic.fetchUpdateCost f (L.get st.u)) (fuel + 1) st =
        runLoop S (sf + 1 + Atomic.fetchUpdateCost f (L.get st.u)) fuel
          { st' with conts := st'.conts.set t (kont ((L.get st.u).rmw f).2 ()) } ∧
      Atomic.RmwEffect L t f (afterSchedule st k s ev) st' :=
  runLoop_fetchUpdateBody S hL sf fuel st k s ev t tk f kont hs hc hp ht

example (fuel : Nat) (k : Bool × Nat → Prog P8.U Unit) :
    runSegment S0 0 (fuel + 1) st0 (Atomic.fetchUpdate idL (fun o => some (o + 10)) >>= k) =
      .atSwitch { st0 with conts := st0.conts.set 0 (Atomic.fetchUpdateBody idL (fun o => some (o + 10)) >>= k) } :=
  Atomic.fetchUpdate_runSegment_atSwitch S0 0 fuel st0 _ k

end Atomics
end C04
end ShuttleModel
