import ShuttleProofs.Lemmas.KernelExamples

/-!
# C08 — the contract between the runtime kernel and a `Scheduler`

Model: `ShuttleModel/Kernel.lean` (`Kernel.schedule` = `ExecutionState::schedule`, `Kernel.advance` =
`advance_to_next_task`, `runLoop` = `run_to_completion`, `execute` = `Execution::run`).  Everything below holds
for **every** program `P`, **every** scheduler `S` (any state type, any behaviour), every `MaxSteps`, seed,
initial scheduler state and every amount of model fuel.

Vocabulary (defined in `ShuttleProofs/Lemmas/Kernel*.lean`):
* `initState P ms seed s` — the state in which `Execution::run` enters the loop; `execute_eq`.
* `Reach S segFuel st0 st` — loop head `st` is reached from loop head `st0` by iterating the loop body.
* `Consults k` — `schedule()` called in kernel state `k` reaches `Scheduler::next_task`
  (`next_task = None`, step bound not hit, `¬(!any_runnable || (!unfinished_attached && all_runnable_detached))`).
* `Decision S segFuel st0 st ev` — `st` is reachable from `st0`, `Consults st.k`, the scheduler's answer `ch`
  was `None` or an offered task, and the consultation was logged as `ev = .dec st.k.offered st.k.current.id
  st.k.hasYielded ch`.
* `LoopInv ms st` — loop-head invariant.

`log_decisions` shows that the `dec` events of the final log of `execute …` are exactly produced by such
`Decision`s, so a statement "for every `Decision … st (.dec off cur y ch)`" is a statement about every
scheduling decision of every execution, made at the kernel state `st.k` in which it was taken.
-/

namespace ShuttleProofs.C08
open ShuttleModel ShuttleProofs.Kernel

variable {P : Program} {σ : Type}

/-- Every `dec` event in the log of an execution was produced by a `Decision` at a reachable loop head. -/
theorem log_decisions (P : Program) (S : Scheduler σ) (ms : MaxSteps) (seed : Nat) (s : σ) (fuel segFuel : Nat)
    (off : List Nat) (cur : Option Nat) (y : Bool) (ch : Option Nat)
    (h : .dec off cur y ch ∈ (execute P S ms seed s fuel segFuel).st.log.toList) :
    ∃ st, Decision S segFuel (initState P ms seed s) st (.dec off cur y ch) := by
  rw [execute_eq] at h
  rcases runLoop_dec_origin S segFuel fuel ms _ (LoopInv.init P ms seed s) _ h rfl with h | h
  · simp [initState] at h
  · exact h

/-- Conversely, every `Decision` taken at a loop head reached within the loop fuel is in the log: the `dec`
events of the log are exactly the scheduling decisions of the execution. -/
theorem decisions_logged (P : Program) (S : Scheduler σ) (ms : MaxSteps) (seed : Nat) (s : σ) (fuel segFuel : Nat)
    (m : Nat) (st : ExecState P σ) (ev : Ev) (hr : ReachN S segFuel m (initState P ms seed s) st)
    (hd : Decision S segFuel (initState P ms seed s) st ev) (hfuel : m < fuel) :
    ev ∈ (execute P S ms seed s fuel segFuel).st.log.toList := by
  rw [execute_eq]
  exact decision_logged (LoopInv.init P ms seed s) hr hd fuel hfuel

section per_decision
variable {S : Scheduler σ} {segFuel : Nat} {st0 st : ExecState P σ}
  {off : List Nat} {cur : Option Nat} {y : Bool} {ch : Option Nat}

/-- the logged fields are what `schedule()` passed to `next_task` -/
theorem decision_fields (h : Decision S segFuel st0 st (.dec off cur y ch)) :
    off = st.k.offered ∧ cur = st.k.current.id ∧ y = st.k.hasYielded :=
  ⟨h.fields.1, h.fields.2.1, h.fields.2.2.1⟩

/-- **offered_nonempty** -/
theorem offered_nonempty (h : Decision S segFuel st0 st (.dec off cur y ch)) : off ≠ [] := by
  rw [h.fields.1]
  exact offered_ne_nil_of_anyRunnable h.consults.anyRunnable

/-- **offered_strictly_ascending** (hence duplicate-free) -/
theorem offered_strictly_ascending (h : Decision S segFuel st0 st (.dec off cur y ch)) :
    off.Pairwise (· < ·) := by
  rw [h.fields.1]; exact offered_pairwise st.k

theorem offered_nodup (h : Decision S segFuel st0 st (.dec off cur y ch)) : off.Nodup := by
  rw [h.fields.1]; exact Kernel.offered_nodup st.k

/-- **offered_unfinished**: every offered id is a task of the execution and is not finished. -/
theorem offered_unfinished (h : Decision S segFuel st0 st (.dec off cur y ch)) :
    ∀ i ∈ off, ∃ tk, st.k.tasks[i]? = some tk ∧ tk.state ≠ .finished := by
  rw [h.fields.1]
  intro i hi
  obtain ⟨tk, h1, h2⟩ := mem_live.mp (offered_subset_live hi)
  refine ⟨tk, h1, ?_⟩
  intro hf
  rw [(Task.finished_iff tk).mpr hf] at h2
  cases h2

/-- **offered_superset_runnable**: every runnable task is offered. -/
theorem offered_superset_runnable (h : Decision S segFuel st0 st (.dec off cur y ch)) :
    ∀ i tk, st.k.tasks[i]? = some tk → tk.state = .runnable → i ∈ off := by
  rw [h.fields.1]
  intro i tk h1 h2
  exact mem_offered.mpr ⟨tk, h1, Or.inl ((Task.runnable_iff tk).mpr h2)⟩

/-- **offered_subset_runnable_or_spurious**: an offered task is `Runnable` or `Blocked { allow_spurious_wakeups: true }`. -/
theorem offered_subset_runnable_or_spurious (h : Decision S segFuel st0 st (.dec off cur y ch)) :
    ∀ i ∈ off, ∃ tk, st.k.tasks[i]? = some tk ∧ (tk.state = .runnable ∨ tk.state = .blocked true) := by
  rw [h.fields.1]
  intro i hi
  obtain ⟨tk, h1, h2⟩ := mem_offered.mp hi
  refine ⟨tk, h1, ?_⟩
  rcases h2 with h2 | h2
  · exact Or.inl ((Task.runnable_iff tk).mp h2)
  · exact Or.inr ((Task.canSpuriouslyWakeup_iff tk).mp h2)

/-- a logged choice was offered (anything else makes `schedule()` panic, see `choice_not_offered_panics`) -/
theorem choice_offered (h : Decision S segFuel st0 st (.dec off cur y ch)) : ∀ t, ch = some t → t ∈ off := by
  obtain ⟨h1, _, _, _, _, h2⟩ := h.fields
  rw [h1]; exact h2

/-- **current_is_last_chosen** (state form): `cur` is the answer of the most recent earlier consultation of
this execution (`none` if there is none). -/
theorem current_is_last_chosen_at {ms : MaxSteps} (h0 : LoopInv ms st0)
    (h : Decision S segFuel st0 st (.dec off cur y ch)) : cur = lastChoice st.log.toList := by
  rw [h.fields.2.1]; exact (h.inv h0).cur

/-- **yielding_iff_requested**, part 1: the flag handed to the scheduler is `has_yielded` … -/
theorem yielding_is_flag (h : Decision S segFuel st0 st (.dec off cur y ch)) : y = st.k.hasYielded :=
  h.fields.2.2.1

end per_decision

/-- **offered_nonempty / offered_strictly_ascending on the log** of any execution. -/
theorem log_offered_nonempty_ascending (P : Program) (S : Scheduler σ) (ms : MaxSteps) (seed : Nat) (s : σ)
    (fuel segFuel : Nat) (off : List Nat) (cur : Option Nat) (y : Bool) (ch : Option Nat)
    (h : .dec off cur y ch ∈ (execute P S ms seed s fuel segFuel).st.log.toList) :
    off ≠ [] ∧ off.Pairwise (· < ·) ∧ ∀ t, ch = some t → t ∈ off := by
  obtain ⟨st, hd⟩ := log_decisions P S ms seed s fuel segFuel off cur y ch h
  exact ⟨offered_nonempty hd, offered_strictly_ascending hd, choice_offered hd⟩

/-- **current_is_last_chosen** (log form): in the log of any execution, the `cur` field of the `i`-th event, if
it is a `dec`, equals the answer of the last `dec` event before position `i` (`none` for the first). -/
theorem current_is_last_chosen (P : Program) (S : Scheduler σ) (ms : MaxSteps) (seed : Nat) (s : σ)
    (fuel segFuel : Nat) (i : Nat) (off : List Nat) (cur : Option Nat) (y : Bool) (ch : Option Nat)
    (h : (execute P S ms seed s fuel segFuel).st.log.toList[i]? = some (.dec off cur y ch)) :
    cur = lastChoice ((execute P S ms seed s fuel segFuel).st.log.toList.take i) := by
  rw [execute_eq] at h ⊢
  exact runLoop_curChain S segFuel fuel ms _ (LoopInv.init P ms seed s)
    (by simpa [initState] using CurChain.nil) i off cur y ch h

/-! ### `yielding` -/

/-- **yielding_iff_requested**, part 2: … the consultation resets it: the chosen task's segment starts with
`has_yielded = false`, `current = Some(t)`, `next_task = None` and one more recorded step `.task t`. -/
theorem segStart_fields (st : ExecState P σ) (t : Nat) (s' : σ) :
    (segStart st t s').k.hasYielded = false ∧ (segStart st t s').k.current = .some t ∧
      (segStart st t s').k.next = .none ∧ (segStart st t s').k.schedRev = .task t :: st.k.schedRev ∧
      (segStart st t s').k.stepsResetAt = st.k.stepsResetAt ∧ (segStart st t s').conts = st.conts ∧
      (segStart st t s').log.toList = st.log.toList ++ [.dec st.k.offered st.k.current.id st.k.hasYielded (some t)] :=
  ⟨rfl, rfl, rfl, rfl, rfl, rfl, by simp [segStart, decEv]⟩

/-- part 3: executing `request_yield` sets the flag, and it stays set until the end of the segment -/
theorem requestYield_sets_flag (S : Scheduler σ) (me fuel : Nat) (st : ExecState P σ)
    (kont : Unit → Prog P.U Unit) :
    (runSegment S me (fuel + 1) st (.op .requestYield kont)).st.k.hasYielded = true := by
  rw [runSegment]
  exact (runSegment_trace S me fuel _ (kont ())).frame.yieldMono rfl

/-- part 4: nothing else sets it — a segment that issues no `requestYield` before its next `switch` (nor
while unwinding a panic) leaves `has_yielded` unchanged. -/
theorem flag_only_by_requestYield (S : Scheduler σ) (me fuel : Nat) (st : ExecState P σ) (p : Prog P.U Unit)
    (hp : UntilSwitch (P := P) isYield p) (hu : ∀ i, UntilSwitch (P := P) isYield (P.unwind i)) :
    (runSegment S me fuel st p).st.k.hasYielded = st.k.hasYielded :=
  (runSegment_trace S me fuel st p).hasYielded_eq hp hu

/-- the flag is monotone inside a segment -/
theorem flag_monotone (S : Scheduler σ) (me fuel : Nat) (st : ExecState P σ) (p : Prog P.U Unit)
    (h : st.k.hasYielded = true) : (runSegment S me fuel st p).st.k.hasYielded = true :=
  (runSegment_trace S me fuel st p).frame.yieldMono h

/-! ### what happens after the answer -/

/-- **chosen_runs_next**: after a consultation answering `Some(t)` (with `t` offered) the very next thing the
loop does is run task `t`'s continuation `p`, from a state with `current = Some(t)` whose recorded schedule
gained exactly `.task t`; the next loop head (if any) carries the `has_yielded` flag the segment ended with. -/
theorem chosen_runs_next {ms : MaxSteps} (S : Scheduler σ) (segFuel : Nat) {st : ExecState P σ}
    (hi : LoopInv ms st) (hc : Consults st.k) {t : Nat} {s' : σ}
    (hask : ask S st.k st.sch = (.choose (some t), s')) (hmem : t ∈ st.k.offered) :
    ∃ p, st.conts[t]? = some p ∧
      loopStep S segFuel st = finishSeg t (runSegment S t segFuel (segStart st t s') p) ∧
      (segStart st t s').k.current = .some t ∧
      (segStart st t s').k.schedRev = .task t :: st.k.schedRev ∧
      ∀ b, loopStep S segFuel st = .inr b →
        b.k.hasYielded = (runSegment S t segFuel (segStart st t s') p).st.k.hasYielded ∧
        b.k.schedRev = (runSegment S t segFuel (segStart st t s') p).st.k.schedRev := by
  obtain ⟨p, hp, hl⟩ := loopStep_chose S segFuel hi.next hi.conts hc hask hmem
  refine ⟨p, hp, hl, rfl, rfl, ?_⟩
  intro b hb
  rw [hl] at hb
  obtain ⟨_, ts, _, rfl⟩ := finishSeg_inr hb
  exact ⟨rfl, rfl⟩

/-- **chosen_runs_next**, task state: when the chosen task's segment starts the task is `Runnable` — a
spuriously woken (`Blocked{allow_spurious_wakeups}`) task has been unblocked by `schedule()` — and no other
task's state was touched. -/
theorem chosen_task_runnable (st : ExecState P σ) (t : Nat) (s' : σ) (hmem : t ∈ st.k.offered) :
    (∃ tk, (segStart st t s').k.tasks[t]? = some tk ∧ tk.state = .runnable) ∧
    (∀ i, i ≠ t → (segStart st t s').k.tasks[i]? = st.k.tasks[i]?) ∧
    (∀ tk, st.k.tasks[t]? = some tk → tk.state = .runnable → (segStart st t s').k.tasks = st.k.tasks) :=
  segStart_tasks st t s' hmem

/-- a scheduler answering with a task that was not offered makes `schedule()` panic (`unwrap`/`assert!`) -/
theorem choice_not_offered_panics {ms : MaxSteps} (S : Scheduler σ) (segFuel : Nat) {st : ExecState P σ}
    (hi : LoopInv ms st) (hc : Consults st.k) {t : Nat} {s' : σ}
    (hask : ask S st.k st.sch = (.choose (some t), s')) (hmem : t ∉ st.k.offered) :
    ∃ msg st', loopStep S segFuel st = .inl ⟨.schedPanic msg, st'⟩ := by
  obtain ⟨msg, h⟩ := loopStep_choseBad S segFuel hi.next hi.conts hc hask hmem
  exact ⟨msg, _, h⟩

/-- **none_stops_without_failure** (iteration form): answering `None` ends the loop at once with outcome
`stopped`; no task segment runs, the schedule is not extended. -/
theorem none_stops_iter {ms : MaxSteps} (S : Scheduler σ) (segFuel : Nat) {st : ExecState P σ}
    (hi : LoopInv ms st) (hc : Consults st.k) {s' : σ} (hask : ask S st.k st.sch = (.choose none, s')) :
    ∃ st', loopStep S segFuel st = .inl ⟨.stopped, st'⟩ ∧ st'.k.schedRev = st.k.schedRev ∧
      st'.k.current = .stopped ∧ st'.log.toList = st.log.toList ++ [decEv st.k none] := by
  refine ⟨_, loopStep_choseNone S segFuel hi.next hi.conts hc hask, rfl, rfl, by simp⟩

/-- **none_stops_without_failure** (execution form): if some consultation of an execution was answered `None`,
the outcome is `stopped` — never a failure — and that consultation is the last event of the log. -/
theorem none_stops_without_failure (P : Program) (S : Scheduler σ) (ms : MaxSteps) (seed : Nat) (s : σ)
    (fuel segFuel : Nat) (off : List Nat) (cur : Option Nat) (y : Bool)
    (h : .dec off cur y none ∈ (execute P S ms seed s fuel segFuel).st.log.toList) :
    (execute P S ms seed s fuel segFuel).outcome = .stopped ∧
      (execute P S ms seed s fuel segFuel).st.log.toList.getLast? = some (.dec off cur y none) := by
  obtain ⟨stf, _, hi, hf⟩ := execute_final P S ms seed s fuel segFuel
  obtain ⟨decs, evs, hlog, hnd, hdec⟩ := hf.log
  rw [hlog] at h ⊢
  rcases List.mem_append.mp h with h1 | h1
  · rcases List.mem_append.mp h1 with h2 | h2
    · exact absurd rfl (hi.noNone _ h2 off cur y)
    · rcases hdec with rfl | ⟨ch, s', rfl, _, _, _, hnone⟩
      · cases h2
      · simp only [List.mem_singleton] at h2
        have hch : ch = none := by
          simp only [decEv, Ev.dec.injEq] at h2
          exact h2.2.2.2.symm
        obtain ⟨ho, he⟩ := hnone hch
        refine ⟨ho, ?_⟩
        rw [he, ← h2]; simp
  · have := hnd _ h1
    simp [isDec] at this

/-- conversely the outcome `stopped` only arises from a `None` answer (a `ContinueAfter` bound gives
`abandoned` instead), logged as the last event. -/
theorem stopped_only_by_none (P : Program) (S : Scheduler σ) (ms : MaxSteps) (seed : Nat) (s : σ)
    (fuel segFuel : Nat) (h : (execute P S ms seed s fuel segFuel).outcome = .stopped) :
    ∃ off cur y, (execute P S ms seed s fuel segFuel).st.log.toList.getLast? = some (.dec off cur y none) := by
  obtain ⟨stf, _, hi, hf⟩ := execute_final P S ms seed s fuel segFuel
  generalize execute P S ms seed s fuel segFuel = r at h hf
  cases hf with
  | choseNone s' h1 h2 => exact ⟨stf.k.offered, stf.k.current.id, stf.k.hasYielded, by simp [decEv]⟩
  | seg t s' p r h1 h2 h3 h4 h5 =>
    obtain ⟨_, ho, _⟩ := finishSeg_inl h5
    rw [h] at ho
    rcases ho with ho | ⟨_, ho⟩ | ⟨_, ho, _⟩ | ⟨_, ho⟩ <;> cases ho
  | _ => cases h

/-- `StepError::SchedulingError` ("no task was scheduled. This indicates an issue with the scheduler") is
unreachable, whatever the scheduler does: `advance_to_next_task` never leaves `current_task = None`, and (model
bookkeeping) every task id the loop runs has a continuation. -/
theorem no_scheduling_error (P : Program) (S : Scheduler σ) (ms : MaxSteps) (seed : Nat) (s : σ)
    (fuel segFuel : Nat) : (execute P S ms seed s fuel segFuel).outcome ≠ .schedulingError := by
  obtain ⟨stf, _, hi, hf⟩ := execute_final P S ms seed s fuel segFuel
  intro h
  generalize execute P S ms seed s fuel segFuel = r at h hf
  cases hf with
  | seg t s' p r h1 h2 h3 h4 h5 =>
    obtain ⟨_, ho, _⟩ := finishSeg_inl h5
    rw [h] at ho
    rcases ho with ho | ⟨_, ho⟩ | ⟨_, ho, _⟩ | ⟨_, ho⟩ <;> cases ho
  | _ => cases h

/-- **record_exact**: at the end of any execution the recorded schedule is the projection of the log — one
`.task t` per consultation answered `Some(t)`, one `.random` per `draw`, in log order.  The only exception: when
`Scheduler::next_u64` itself panics, its `.random` step has already been pushed (`push_random()` precedes the
call) and has no `draw` event. -/
theorem record_exact (P : Program) (S : Scheduler σ) (ms : MaxSteps) (seed : Nat) (s : σ) (fuel segFuel : Nat) :
    let r := execute P S ms seed s fuel segFuel
    r.st.k.schedule_ = logSteps r.st.log.toList ∨
      (∃ msg, r.outcome = .schedPanic msg ∧ r.st.k.schedule_ = logSteps r.st.log.toList ++ [.random]) := by
  obtain ⟨stf, _, hi, hf⟩ := execute_final P S ms seed s fuel segFuel
  exact hf.record hi

/-- `record_exact` for every outcome other than a scheduler panic -/
theorem record_exact_of_not_schedPanic (P : Program) (S : Scheduler σ) (ms : MaxSteps) (seed : Nat) (s : σ)
    (fuel segFuel : Nat) (h : ∀ msg, (execute P S ms seed s fuel segFuel).outcome ≠ .schedPanic msg) :
    (execute P S ms seed s fuel segFuel).st.k.schedule_ =
      logSteps (execute P S ms seed s fuel segFuel).st.log.toList := by
  rcases record_exact P S ms seed s fuel segFuel with h' | ⟨msg, h1, _⟩
  · exact h'
  · exact absurd h1 (h msg)

/-- the recorded schedule at every loop head is the projection of the log so far -/
theorem record_exact_at (P : Program) (S : Scheduler σ) (ms : MaxSteps) (seed : Nat) (s : σ) (segFuel : Nat)
    (st : ExecState P σ) (h : Reach S segFuel (initState P ms seed s) st) :
    st.k.schedule_ = logSteps st.log.toList :=
  ((LoopInv.init P ms seed s).reach h).record

/-! ### non-vacuity -/

/-- The log of a concrete 2-task execution (main: spawn, switch, request_yield, switch, next_u64; child: switch)
under "first offered": 6 decisions, `yielding = true` exactly after the `request_yield`, `cur` chaining, a
`draw`; the recorded schedule is its projection. -/
example :
    (execute exP firstSched .none 0 () 20 20).st.log.toList =
      [.dec [0] none false (some 0), .dec [0, 1] (some 0) false (some 0), .dec [0, 1] (some 0) true (some 0),
       .draw 7, .dec [1] (some 0) false (some 1), .dec [1] (some 1) false (some 1)] ∧
    (execute exP firstSched .none 0 () 20 20).st.k.schedule_ =
      [.task 0, .task 0, .task 0, .random, .task 1, .task 1] ∧
    (execute exP firstSched .none 0 () 20 20).outcome = .ok := by decide

/-- a scheduler answering `None` at its third consultation: outcome `stopped`, last event is that consultation -/
example :
    (execute exP (stopAfter 2) .none 0 0 20 20).outcome = .stopped ∧
    (execute exP (stopAfter 2) .none 0 0 20 20).st.log.toList.getLast? = some (.dec [0, 1] (some 0) true none) := by
  decide

/-- `Decision` is inhabited: the first consultation of `exP` -/
example : Decision firstSched 20 (initState exP .none 0 ()) (initState exP .none 0 ()) (.dec [0] none false (some 0)) :=
  ⟨Reach.refl _ _ _, ⟨rfl, trivial, by decide⟩, some 0, (), rfl, fun t ht => by cases ht; decide, rfl⟩

end ShuttleProofs.C08
