import ShuttleProofs.Lemmas.SemFrame
import ShuttleProofs.Lemmas.SemNFrame
import ShuttleProofs.Lemmas.SemProg
/-
  C18 — BatchSemaphore (`shuttle-engine/src/future/batch_semaphore.rs`, model
  `ShuttleModel/Prim/Sem.lean`).

  "At all times the permits available plus the permits held by completed, unreleased acquisitions
   equal the initial permits plus those added, an acquisition completes only by removing exactly
   its requested permits, and try_acquire succeeds exactly when an acquire would complete
   immediately. A strictly fair semaphore grants requests strictly in arrival order (no later
   request, blocking or not, overtakes a queued one, and a waiter at the head is granted as soon as
   enough permits exist), while an unfair one lets any waiter that fits win. Dropping an
   acquisition before it completes returns whatever it was granted, leaves no trace in the queue
   and never strands the waiters behind it; close fails every pending and future acquisition; and
   the task released is always the one currently awaiting."

  All statements are about the most-general client of `Lemmas/SemLts.lean`: `Reach s0 g` = the
  ghost-annotated state `g` is reachable from `s0` by any sequence of the atomic state updates the
  `Prog` wrappers of `Sem.lean` perform between two scheduling points (`tryAcquire`, `newAcq`,
  `poll`, `dropAcquire`, `release`, `poisonRelease`, `close`), each step with its own arbitrary
  `fin : Nat → Bool` (finished tasks) and arbitrary clocks.  `Initial n s0` = `s0` is
  `BatchSemaphore::new(n, _)` or `const_new(n, _)`.
-/
namespace ShuttleModel
namespace C18
open SemLts
open Sem (PollOut)

/-! ### concrete runs used for the non-vacuity examples -/

def fin0 : Nat → Bool := fun _ => false
/-- fair, 2 permits: task 1 takes both, tasks 2 and 3 queue for one each, task 1 releases both -/
def opsFair : List SemOp :=
  [.tryAcquire 1 2 [1], .newAcq 2 1 [0, 1], .poll 0 2 2 [0, 1], .newAcq 3 1 [0, 0, 1],
   .poll 1 3 3 [0, 0, 1], .release 1 2 [2]]
/-- unfair, 0 permits: task 1 queues for one permit, task 2 adds one -/
def opsUnfair : List SemOp := [.newAcq 1 1 [], .poll 0 1 1 [], .release 2 1 []]
/-- fair, 1 permit: W0 wants 2, W1 wants 1, W0 is dropped -/
def opsCancel : List SemOp :=
  [.newAcq 1 2 [], .poll 0 1 1 [], .newAcq 2 1 [], .poll 1 2 2 []]
/-- fair, 0 permits: a waiter, then close -/
def opsClose : List SemOp := [.newAcq 1 1 [], .poll 0 1 1 [], .close]

/-! ### invariant of `PermitsAvailable` -/

/-- "the number of permits available is equal to the sum of the batch sizes in the queue" (once the
lazily initialised deque exists) -/
theorem batches_sum_eq_avail {n : Nat} {s0 : SemState} (h0 : Initial n s0) {g : G} (hr : Reach s0 g) :
    ∀ b, g.s.batches = some b → bsum b = g.s.avail :=
  (reach_Inv h0 hr).1.batch

example : ∃ g, Reach (SemState.new 2 true []) g ∧ g.s.batches = some [] ∧ g.s.avail = 0 :=
  ⟨finalOf fin0 _ opsFair, finalOf_reach (by decide), by decide, by decide⟩
example : ∃ g b, Reach (SemState.constNew 0 false) g ∧ g.s.batches = some b ∧ bsum b = 1 :=
  ⟨finalOf fin0 _ opsUnfair, _, finalOf_reach (by decide), rfl, by decide⟩

/-! ### conservation -/

/-- permits available + permits granted to acquisitions that have not completed yet (`pend`: the
waiters with `has_permits` whose `Acquire` is not `completed`) + permits held by completed,
unreleased acquisitions (`held`) = initial permits + permits added by releases that did not give
back a held acquisition. -/
theorem conservation {n : Nat} {s0 : SemState} (h0 : Initial n s0) {g : G} (hr : Reach s0 g) :
    g.s.avail + pend g.s.table + heldSum g.held = n + g.added :=
  (reach_Inv h0 hr).2

/-- per step: `avail + pend` changes by exactly the permits handed to / taken from the client -/
theorem conservation_step {n : Nat} {s0 : SemState} (h0 : Initial n s0) {g : G} (hr : Reach s0 g)
    (fin : Nat → Bool) {op : SemOp} {o : StepOut} (h : step fin g.s op = .ok o) :
    o.s.avail + pend o.s.table + permitsOf (acquiredBy g.s op o.out)
      = g.s.avail + pend g.s.table + permitsOf (releasedBy op) :=
  (step_spec fin (reach_Inv h0 hr).1 h).2

example : ∃ g, Reach (SemState.new 2 true []) g ∧ g.s.avail = 0 ∧ pend g.s.table = 2 ∧
    g.held = [] ∧ g.added = 0 :=
  ⟨finalOf fin0 _ opsFair, finalOf_reach (by decide), by decide, by decide, by decide, by decide⟩
example : ∃ g, Reach (SemState.new 2 true []) g ∧ g.s.avail = 0 ∧ g.held = [(1, 2)] :=
  ⟨finalOf fin0 _ (opsFair.take 5), finalOf_reach (by decide), by decide, by decide⟩

/-! ### the four "key invariants" of `BatchSemaphoreState` -/

/-- (1) for a STRICTLY FAIR semaphore the head waiter never fits at rest (also when it is stale);
(2) `W ∈ waiters ↔ W.is_queued` (and the queue has no duplicates and only live waiters);
(3) `W.is_queued → !W.has_permits`; (4) `closed → waiters.is_empty()`. -/
theorem source_invariants_1_to_4 {n : Nat} {s0 : SemState} (h0 : Initial n s0) {g : G}
    (hr : Reach s0 g) :
    (g.s.fair = true → ∀ head rest w, g.s.queue = head :: rest → g.s.getW head = some w →
        g.s.avail < w.n) ∧
    ((∀ w ∈ g.s.table, (w.isQueued = true ↔ w.wid ∈ g.s.queue)) ∧
      (∀ wid ∈ g.s.queue, ∃ w ∈ g.s.table, w.wid = wid) ∧ g.s.queue.Nodup ∧
      (g.s.table.map (·.wid)).Nodup) ∧
    (∀ w ∈ g.s.table, w.isQueued = true → w.hasPermits = false) ∧
    (g.s.closed = true → g.s.queue = []) := by
  have hi := (reach_Inv h0 hr).1
  exact ⟨hi.headBlocked, ⟨hi.tq.queued_iff, hi.tq.sub, hi.tq.nodupQ, hi.tq.nodupT⟩,
    fun w hw hq => (hi.tq.queuedOk w hw hq).1, hi.closedEmpty⟩

/-- Invariant (1) as written in the source ("we are never in a state where there are enough permits
available for the first waiter") is FALSE for an unfair semaphore: `release` only wakes the
waiters, they stay queued until they poll again. -/
theorem source_invariant_1_unfair_fails_witness :
    ∃ g w, Reach (SemState.new 0 false []) g ∧ g.s.fair = false ∧ g.s.queue = [0] ∧
      g.s.getW 0 = some w ∧ w.n ≤ g.s.avail :=
  ⟨finalOf fin0 _ opsUnfair, _, finalOf_reach (by decide), by decide, by decide, rfl, by decide⟩

example : ∃ g, Reach (SemState.new 2 true []) g ∧ g.s.fair = true ∧ g.s.queue = [0, 1] :=
  ⟨finalOf fin0 _ (opsFair.take 5), finalOf_reach (by decide), by decide, by decide⟩

/-! ### an acquisition removes exactly its requested permits -/

/-- `try_acquire(n)` that succeeds takes exactly `n`; a poll that returns `Ready(Ok)` either
consumes a grant made earlier (which moved exactly `w.n` permits from `avail` to the waiter, see
`conservation_step`) or takes exactly `w.n` now; every other poll result leaves `avail` alone. -/
theorem acquire_removes_exactly_n {n : Nat} {s0 : SemState} (h0 : Initial n s0) {g : G}
    (hr : Reach s0 g) (fin : Nat → Bool) :
    (∀ task k clk o, step fin g.s (.tryAcquire task k clk) = .ok o →
        (o.out = .tried (.ok ()) → o.s.avail + k = g.s.avail) ∧
        (o.out ≠ .tried (.ok ()) → o.s = g.s)) ∧
    (∀ wid me cx clk o w0, g.s.getW wid = some w0 → step fin g.s (.poll wid me cx clk) = .ok o →
        (o.out = .polled (.ready true) →
          (w0.hasPermits = true ∧ o.s.avail = g.s.avail) ∨
          (w0.hasPermits = false ∧ o.s.avail + w0.n = g.s.avail)) ∧
        (o.out ≠ .polled (.ready true) → o.s.avail = g.s.avail)) := by
  have hi := (reach_Inv h0 hr).1
  constructor
  · intro task k clk o h
    simp only [step] at h
    cases hacq : g.s.acquirePermits k clk with
    | error msg => rw [hacq] at h; cases h
    | ok r =>
      rw [hacq] at h
      cases r with
      | ok p =>
        obtain ⟨s', pc⟩ := p
        simp only [Except.ok.injEq] at h
        subst h
        obtain ⟨_, hav, _⟩ := acquirePermits_inv hi hacq
        exact ⟨fun _ => hav, fun hne => absurd rfl hne⟩
      | error e =>
        simp only [Except.ok.injEq] at h
        subst h
        exact ⟨(fun he => by cases he), fun _ => rfl⟩
  · intro wid me cx clk o w0 hw h
    simp only [step, hw] at h
    by_cases hcm : w0.completed = true
    · rw [if_pos hcm] at h; cases h
    · rw [if_neg hcm] at h
      cases hpp : g.s.pollPure wid me cx clk fin with
      | error msg => rw [hpp] at h; cases h
      | ok po =>
        rw [hpp] at h
        simp only [Except.ok.injEq] at h
        subst h
        have pf := pollPure_facts hi hw (by simpa using hcm) hpp
        constructor
        · intro ho
          simp only [Out.polled.injEq] at ho
          rcases pf.readyOk ho with h1 | h2
          · exact Or.inl h1
          · exact Or.inr ⟨h2.1, h2.2.1⟩
        · intro ho
          exact pf.otherwise (fun e => ho (by simp [e]))

example : ∃ o, step fin0 (SemState.new 2 true []) (.tryAcquire 1 2 []) = .ok o ∧
    o.out = .tried (.ok ()) ∧ o.s.avail = 0 := ⟨_, rfl, rfl, by decide⟩

/-! ### try_acquire ⟺ immediate acquire -/

/-- `try_acquire(n)` succeeds exactly when a fresh `acquire(n)` polled once in the same state
returns `Ready(Ok(()))` (whatever the clocks) -/
theorem try_iff_immediate {n : Nat} {s0 : SemState} (h0 : Initial n s0) {g : G} (hr : Reach s0 g)
    (fin : Nat → Bool) (task k : Nat) (c c' : Clock) :
    (∃ o, step fin g.s (.tryAcquire task k c) = .ok o ∧ o.out = .tried (.ok ())) ↔
    (∃ o, stepPollNew fin g.s task k c' = .ok o ∧ o.out = .polled (.ready true)) :=
  try_iff_immediate_aux fin (reach_Inv h0 hr).1 task k c c'

/-- … and both happen exactly when the semaphore is open, enough permits are available and (fair)
nobody is queued -/
theorem try_succeeds_iff {n : Nat} {s0 : SemState} (_h0 : Initial n s0) {g : G} (_hr : Reach s0 g)
    (fin : Nat → Bool) (task k : Nat) (c : Clock) :
    (∃ o, step fin g.s (.tryAcquire task k c) = .ok o ∧ o.out = .tried (.ok ())) ↔
      0 < k ∧ g.s.closed = false ∧ (g.s.queue = [] ∨ g.s.fair = false) ∧ k ≤ g.s.avail := by
  rw [← acquirePermits_ok_iff g.s k c]
  constructor
  · rintro ⟨o, h, ho⟩
    simp only [step] at h
    cases hacq : g.s.acquirePermits k c with
    | error msg => rw [hacq] at h; cases h
    | ok r =>
      rw [hacq] at h
      cases r with
      | ok p => exact ⟨p.1, p.2, rfl⟩
      | error e => simp only [Except.ok.injEq] at h; subst h; cases ho
  · rintro ⟨s', pc, hacq⟩
    exact ⟨{ s := s', out := .tried (.ok ()), effs := s'.reblockEffs fin },
      by simp only [step, hacq], rfl⟩

example : (∃ o, step fin0 (SemState.new 2 true []) (.tryAcquire 1 2 []) = .ok o ∧ o.out = .tried (.ok ())) :=
  ⟨_, rfl, rfl⟩
example : ∃ o, stepPollNew fin0 (SemState.new 2 true []) 1 2 [] = .ok o ∧ o.out = .polled (.ready true) :=
  ⟨_, rfl, rfl⟩

/-! ### strict fairness -/

/-- (a) under EVERY step (fair or not) the queue only loses entries and gains at most one, at the
back: the survivors keep their relative order, nobody is inserted in front of a queued waiter;
(b) fair: neither `try_acquire` nor a poll that takes permits itself succeeds while somebody is
queued — a later request, blocking or not, never overtakes;
(c) fair: after every step the head does not fit (`source_invariants_1_to_4`), i.e. a head that
fits has been granted within the same atomic step;
(d) fair: a `release` serves a PREFIX of the queue in queue order — each served waiter is either
granted exactly its request (task unblocked, waker woken) or discarded as stale — leaves the rest
untouched, and stops at the first waiter that does not fit. -/
theorem fair_fifo {n : Nat} {s0 : SemState} (h0 : Initial n s0) {g : G} (hr : Reach s0 g)
    (fin : Nat → Bool) :
    (∀ op o, step fin g.s op = .ok o → QueueEvolves g.s.queue o.s.queue) ∧
    (g.s.fair = true → g.s.queue ≠ [] →
      (∀ task k c o, step fin g.s (.tryAcquire task k c) = .ok o → o.out ≠ .tried (.ok ())) ∧
      (∀ task k c o, stepPollNew fin g.s task k c = .ok o → o.out ≠ .polled (.ready true)) ∧
      (∀ wid me cx c o w0, g.s.getW wid = some w0 → w0.hasPermits = false →
        step fin g.s (.poll wid me cx c) = .ok o → o.out ≠ .polled (.ready true))) ∧
    (g.s.fair = true → ∀ task k c o, 0 < k → step fin g.s (.release task k c) = .ok o →
      ∃ pre, g.s.queue = pre ++ o.s.queue ∧
        (∀ x ∈ pre, Served fin g.s o.s o.effs x) ∧
        (∀ x ∈ o.s.queue, o.s.getW x = g.s.getW x) ∧
        (∀ head rest w, o.s.queue = head :: rest → o.s.getW head = some w → o.s.avail < w.n)) := by
  have hi := (reach_Inv h0 hr).1
  refine ⟨fun op o h => step_queue fin hi h, ?_, ?_⟩
  · intro hf hne
    have hno : ∀ task k c, ¬ ∃ o, step fin g.s (.tryAcquire task k c) = .ok o ∧ o.out = .tried (.ok ()) := by
      intro task k c hex
      have := (try_succeeds_iff h0 hr fin task k c).mp hex
      rcases this.2.2.1 with h | h
      · exact hne h
      · rw [hf] at h; cases h
    refine ⟨fun task k c o h ho => hno task k c ⟨o, h, ho⟩, ?_, ?_⟩
    · intro task k c o h ho
      exact hno task k c ((try_iff_immediate h0 hr fin task k c c).mpr ⟨o, h, ho⟩)
    · intro wid me cx c o w0 hw hp h ho
      simp only [step, hw] at h
      by_cases hcm : w0.completed = true
      · rw [if_pos hcm] at h; cases h
      · rw [if_neg hcm] at h
        cases hpp : g.s.pollPure wid me cx c fin with
        | error msg => rw [hpp] at h; cases h
        | ok po =>
          rw [hpp] at h
          simp only [Except.ok.injEq] at h
          subst h
          have pf := pollPure_facts hi hw (by simpa using hcm) hpp
          simp only [Out.polled.injEq] at ho
          rcases pf.readyOk ho with h1 | h2
          · rw [hp] at h1; cases h1.1
          · exact hne (h2.2.2.2.2 hf)
  · intro hf task k c o hk h
    simp only [step] at h
    rw [if_neg (by omega)] at h
    simp only [Except.ok.injEq] at h
    subst h
    exact releasePure_fair_served fin k c hi hf

example : ∃ g, Reach (SemState.new 2 true []) g ∧ g.s.fair = true ∧ g.s.queue ≠ [] :=
  ⟨finalOf fin0 _ (opsFair.take 5), finalOf_reach (by decide), by decide, by decide⟩
/-- the release of the example serves both queued waiters, in order -/
example : effsOf fin0 (SemState.new 2 true []) opsFair =
    [[], [], [], [], [], [.joinClock 2 [2], .unblock 2, .wake 2, .joinClock 3 [2], .unblock 3, .wake 3]] := by
  decide

theorem order_prefix {pre rest : List Nat} {a b : Nat} :
    ∀ {l A B C : List Nat}, l.Nodup → l = pre ++ rest → l = A ++ a :: (B ++ b :: C) → b ∈ pre →
      a ∈ pre := by
  induction pre with
  | nil => intro l A B C _ _ _ hb; cases hb
  | cons x pre ih =>
    intro l A B C hnd hl hord hb
    cases A with
    | nil =>
      rw [hl] at hord
      simp only [List.cons_append, List.nil_append, List.cons.injEq] at hord
      rw [← hord.1]; exact List.mem_cons_self ..
    | cons y A =>
      rw [hl] at hord hnd
      simp only [List.cons_append, List.cons.injEq] at hord
      obtain ⟨hxy, htl⟩ := hord
      have hnd' := (List.nodup_cons.mp hnd)
      rcases List.mem_cons.mp hb with hbx | hb'
      · exfalso
        apply hnd'.1
        show x ∈ pre ++ rest
        rw [htl, ← hbx]
        simp
      · exact List.mem_cons_of_mem _ (ih hnd'.2 rfl htl hb')

/-- no overtaking, spelled out: if `a` is queued before `b` in a strictly fair semaphore and a
`release` takes `b` out of the queue (grants it, or discards it as stale), it takes `a` out too -/
theorem fair_no_overtaking {n : Nat} {s0 : SemState} (h0 : Initial n s0) {g : G} (hr : Reach s0 g)
    (fin : Nat → Bool) (hf : g.s.fair = true) {task k : Nat} {c : Clock} {o : StepOut} (hk : 0 < k)
    (h : step fin g.s (.release task k c) = .ok o) {a b : Nat} {A B C : List Nat}
    (hord : g.s.queue = A ++ a :: (B ++ b :: C)) (hb : b ∉ o.s.queue) : a ∉ o.s.queue := by
  have hi := (reach_Inv h0 hr).1
  obtain ⟨pre, hp, _, _, _⟩ := (fair_fifo h0 hr fin).2.2 hf task k c o hk h
  have hbq : b ∈ g.s.queue := by rw [hord]; simp
  have hbpre : b ∈ pre := by
    rw [hp] at hbq
    rcases List.mem_append.mp hbq with h1 | h1
    · exact h1
    · exact absurd h1 hb
  have hapre : a ∈ pre := order_prefix hi.tq.nodupQ hp hord hbpre
  intro ha
  have hnd := hi.tq.nodupQ
  rw [hp, List.nodup_append] at hnd
  exact hnd.2.2 a hapre a ha rfl

/-- the amount an `Acquire` asks for never changes, and waiters only come from `Acquire::new`: a
property of the requested amounts that holds for every created waiter holds for the whole table -/
theorem request_amount_immutable {n : Nat} {s0 : SemState} (h0 : Initial n s0) {g : G}
    (hr : Reach s0 g) (P : Nat → Prop) (fin : Nat → Bool) {op : SemOp} {o : StepOut}
    (h : ∀ w ∈ g.s.table, P w.n) (hnew : ∀ task k c, op = .newAcq task k c → P k)
    (hs : step fin g.s op = .ok o) : ∀ w ∈ o.s.table, P w.n :=
  step_allN P fin (reach_Inv h0 hr).1 h hnew hs

/-! ### unfair semaphores -/

/-- an unfair `release(k)` changes nothing but the permits, and unblocks (and wakes) exactly the
queued, unfinished waiters whose request fits the new number of available permits: any waiter that
fits may win -/
theorem unfair_any_fitting_waiter_woken (fin : Nat → Bool) (s : SemState) (k : Nat) (c : Clock)
    (hf : s.fair = false) :
    (s.releasePure fin k c).1 = s.paRelease k c ∧
    ∀ e, e ∈ (s.releasePure fin k c).2 ↔
      ∃ wid ∈ s.queue, ∃ w, s.getW wid = some w ∧ w.n ≤ s.avail + k ∧ fin w.taskId = false ∧
        (e = Eff.unblock w.taskId ∨ ∃ t, w.waker = some t ∧ e = Eff.wake t) :=
  ⟨releasePure_unfair_state fin k c hf, releasePure_unfair_effs fin k c hf⟩

/-- `reblock_if_unfair` (run after every successful acquisition) blocks exactly the queued,
unfinished waiters that no longer fit -/
theorem unfair_losers_reblocked (fin : Nat → Bool) (s : SemState) (e : Eff) :
    e ∈ s.reblockEffs fin ↔
      s.fair = false ∧ ∃ wid ∈ s.queue, ∃ w, s.getW wid = some w ∧ s.avail < w.n ∧
        fin w.taskId = false ∧ e = Eff.block w.taskId :=
  mem_reblockEffs fin s e

example : effsOf fin0 (SemState.new 0 false []) opsUnfair = [[], [], [.unblock 1, .wake 1]] := by decide
/-- the winner of the race re-blocks the loser: two waiters for one permit, waiter 1 polls first -/
example : effsOf fin0 (SemState.new 0 false [])
    [.newAcq 1 1 [], .poll 0 1 1 [], .newAcq 2 1 [], .poll 1 2 2 [], .release 3 1 [], .poll 1 2 2 []]
    = [[], [], [], [], [.unblock 1, .wake 1, .unblock 2, .wake 2], [.block 1]] := by decide

/-! ### cancellation -/

/-- `Drop for Acquire` in any reachable state: (a) the step (which is always defined, see
`no_internal_assertion_fails`) leaves no trace — the waiter is in neither queue nor table, so it cannot stay
`is_queued` —, keeps every invariant and the permit balance; (b) dropping the head of a strictly
fair semaphore serves the successors that now fit, in order, and re-establishes invariant (1):
the waiters behind it are never stranded; (c) dropping a granted but uncompleted acquisition hands
back exactly `w.n` permits through a full `release` (the wrapper's next step). -/
theorem cancel_safe {n : Nat} {s0 : SemState} (h0 : Initial n s0) {g : G} (hr : Reach s0 g)
    (fin : Nat → Bool) (task wid : Nat) :
    (∀ o, step fin g.s (.dropAcquire task wid) = .ok o →
      o.s.getW wid = none ∧ wid ∉ o.s.queue ∧ (∀ w ∈ o.s.table, w.wid ≠ wid) ∧ Inv o.s ∧
      o.s.avail + pend o.s.table + permitsOf (acquiredBy g.s (.dropAcquire task wid) o.out)
        = g.s.avail + pend g.s.table) ∧
    (∀ rest o, g.s.fair = true → g.s.queue = wid :: rest →
      step fin g.s (.dropAcquire task wid) = .ok o →
      o.out = .dropped 0 ∧ ∃ pre, rest = pre ++ o.s.queue ∧
        (∀ x ∈ pre, Served fin g.s o.s o.effs x) ∧
        (∀ head rest' w, o.s.queue = head :: rest' → o.s.getW head = some w → o.s.avail < w.n)) ∧
    (∀ w, g.s.getW wid = some w → w.hasPermits = true → w.completed = false →
      step fin g.s (.dropAcquire task wid) = .ok { s := g.s.dropW wid, out := .dropped w.n }) := by
  have hi := (reach_Inv h0 hr).1
  refine ⟨?_, ?_, ?_⟩
  · intro o h
    obtain ⟨h1, h2, h3⟩ := drop_no_trace fin hi h
    obtain ⟨h4, h5⟩ := step_spec fin hi h
    exact ⟨h1, h2, h3, h4, by simpa [releasedBy, permitsOf] using h5⟩
  · intro rest o hf hq h
    exact drop_fair_head fin hi hf hq h
  · intro w hw hp hc
    have hq : w.isQueued = false := by
      cases hq : w.isQueued with
      | false => rfl
      | true =>
        have := (hi.tq.queuedOk w (tget_some_mem hw).1 hq).1
        rw [hp] at this; cases this
    exact drop_granted fin hw hp hc hq

/-- W0 (wants 2) heads the queue of a fair semaphore with 1 permit, W1 (wants 1) waits behind it;
dropping W0 grants W1 -/
example : ∃ g, Reach (SemState.new 1 true []) g ∧ g.s.fair = true ∧ g.s.queue = [0, 1] :=
  ⟨finalOf fin0 _ opsCancel, finalOf_reach (by decide), by decide, by decide⟩
example : effsOf fin0 (SemState.new 1 true []) (opsCancel ++ [.dropAcquire 1 0])
    = [[], [], [], [], [.joinClock 2 [], .unblock 2, .wake 2]] := by decide
/-- a granted, never completed acquisition gives its permit back when dropped -/
example : (finalOf fin0 (SemState.new 0 true [])
    [.newAcq 1 1 [], .poll 0 1 1 [], .release 2 1 [], .dropAcquire 1 0, .release 1 1 []]).s.avail = 1 := by
  decide

/-! ### close -/

/-- after `close`: the semaphore is closed and the queue empty; every queued waiter's task was
unblocked (unless finished) and its waker woken; `closed` is permanent; on a closed semaphore
every `try_acquire` fails with `Closed` and every poll returns `Ready(Err)` — unless the permits
had already been granted, then `Ready(Ok)` — without touching `avail`, and never panics. -/
theorem close_fails_all {n : Nat} {s0 : SemState} (h0 : Initial n s0) {g : G} (hr : Reach s0 g)
    (fin : Nat → Bool) :
    ((g.s.closePure fin).1.closed = true ∧ (g.s.closePure fin).1.queue = [] ∧
      (g.s.closed = false → ∀ wid ∈ g.s.queue, ∃ w, g.s.getW wid = some w ∧
        (fin w.taskId = false → Eff.unblock w.taskId ∈ (g.s.closePure fin).2) ∧
        (∃ t, w.waker = some t ∧ Eff.wake t ∈ (g.s.closePure fin).2))) ∧
    (g.s.closed = true →
      (∀ op o, step fin g.s op = .ok o → o.s.closed = true) ∧
      (∀ task k c, 0 < k →
        step fin g.s (.tryAcquire task k c) = .ok { s := g.s, out := .tried (.error .closed) }) ∧
      (∀ wid me cx c w0, g.s.getW wid = some w0 → w0.completed = false →
        ∃ o, step fin g.s (.poll wid me cx c) = .ok o ∧ o.out = .polled (.ready w0.hasPermits) ∧
          o.s.avail = g.s.avail)) := by
  have hi := (reach_Inv h0 hr).1
  obtain ⟨_, _, _, hc, hq⟩ := closePure_spec fin hi
  refine ⟨⟨hc, hq, ?_⟩, ?_⟩
  · intro hnc wid hm
    obtain ⟨w, hw, hwq⟩ := hi.tq.tget_of_mem_queue hm
    rw [← getW_eq] at hw
    have hwk := (hi.tq.queuedOk w (tget_some_mem hw).1 hwq).2.2.1
    refine ⟨w, hw, ?_, ?_⟩
    · intro hfin
      exact (mem_closePure_effs fin hnc _).mpr ⟨wid, hm, w, hw, Or.inl ⟨hfin, rfl⟩⟩
    · cases hwk' : w.waker with
      | none => rw [hwk'] at hwk; cases hwk
      | some t => exact ⟨t, rfl, (mem_closePure_effs fin hnc _).mpr ⟨wid, hm, w, hw, Or.inr ⟨t, hwk', rfl⟩⟩⟩
  · intro hcl
    refine ⟨fun op o h => step_closed_mono fin hi h hcl,
      fun task k c hk => tryAcquire_closed fin task c hcl hk, ?_⟩
    intro wid me cx c w0 hw hnc
    obtain ⟨o, ho⟩ := poll_closed_progress fin (me := me) (cx := cx) (clk := c) hi hcl hw hnc
    exact ⟨o, ho, poll_closed fin hcl hw ho⟩

example : ∃ g, Reach (SemState.new 0 true []) g ∧ g.s.closed = true ∧ g.s.queue = [] ∧
    g.s.table.length = 1 :=
  ⟨finalOf fin0 _ opsClose, finalOf_reach (by decide), by decide, by decide, by decide⟩
example : effsOf fin0 (SemState.new 0 true []) opsClose = [[], [], [.unblock 1, .wake 1]] := by decide

/-- The poisoning `release` (a guard dropped while `should_stop()`) also closes the semaphore and
empties the queue, but — unlike `close` — performs NO kernel effect: the pending acquisitions are
neither failed nor woken, their tasks stay blocked (known finding F11; the source says "we should
not unblock the threads at this point").  So "close fails every pending acquisition" holds for
`close` only. -/
theorem poison_release_wakes_nobody {n : Nat} {s0 : SemState} (h0 : Initial n s0) {g : G}
    (hr : Reach s0 g) (fin : Nat → Bool) (task k : Nat) (hk : 0 < k) :
    ∃ o, step fin g.s (.poisonRelease task k) = .ok o ∧ o.effs = [] ∧ o.s.closed = true ∧
      o.s.queue = [] ∧ o.s.avail = g.s.avail + k := by
  have hi := (reach_Inv h0 hr).1
  refine ⟨{ s := g.s.releasePoison k, out := .done }, ?_, rfl, (releasePoison_spec k hi).2.2.1,
    (releasePoison_spec k hi).2.2.2, ?_⟩
  · simp only [step]; rw [if_neg (by omega)]
  · rw [releasePoison_eq]
    have cs := clear_spec (fun w => { w with isQueued := false })
      (fun w => ⟨rfl, rfl, rfl⟩) (g.s.paRelease k Clock.new).queue (g.s.paRelease k Clock.new)
      g.s.nextWid hi.tq
    exact cs.avail

/-- a queued waiter, then a poisoning release: nobody is woken, the waiter is simply forgotten -/
example : effsOf fin0 (SemState.new 0 true []) [.newAcq 1 1 [], .poll 0 1 1 [], .poisonRelease 2 1]
    = [[], [], []] := by decide

/-! ### the task released is the one currently awaiting -/

/-- a poll that returns `Pending` (re)points the waiter at the polling task `me` and at the waker
`cx` it was given; and when a waiter is granted permits (`Served.granted`, see `fair_fifo`,
`cancel_safe`) the effects unblock exactly `w.taskId` and wake exactly `w.waker` of the waiter's
table entry at that moment — i.e. the values stored by the latest poll. -/
theorem wakes_current_poller {n : Nat} {s0 : SemState} (h0 : Initial n s0) {g : G} (hr : Reach s0 g)
    (fin : Nat → Bool) :
    (∀ wid me cx c o w0, g.s.getW wid = some w0 → step fin g.s (.poll wid me cx c) = .ok o →
      o.out = .polled .pending →
      ∃ w', o.s.getW wid = some w' ∧ w'.isQueued = true ∧ wid ∈ o.s.queue ∧
        w'.taskId = me ∧ w'.waker = some cx ∧ w'.n = w0.n) ∧
    (∀ (r : SemState) (effs : List Eff) (wid : Nat) (w : Waiter),
      g.s.getW wid = some w → fin w.taskId = false → Served fin g.s r effs wid →
      Eff.unblock w.taskId ∈ effs ∧ (∀ t, w.waker = some t → Eff.wake t ∈ effs) ∧
      r.getW wid = some (grantedW w)) := by
  have hi := (reach_Inv h0 hr).1
  constructor
  · intro wid me cx c o w0 hw h ho
    simp only [step, hw] at h
    by_cases hcm : w0.completed = true
    · rw [if_pos hcm] at h; cases h
    · rw [if_neg hcm] at h
      cases hpp : g.s.pollPure wid me cx c fin with
      | error msg => rw [hpp] at h; cases h
      | ok po =>
        rw [hpp] at h
        simp only [Except.ok.injEq] at h
        subst h
        have pf := pollPure_facts hi hw (by simpa using hcm) hpp
        simp only [Out.polled.injEq] at ho
        obtain ⟨w', h1, h2, h3, h4, h5, _, h7⟩ := pf.pending ho
        exact ⟨w', h1, h2, h7, h3, h4, h5⟩
  · intro r effs wid w hw hfin hs
    cases hs with
    | stale w' hw' hf' _ => rw [hw] at hw'; cases hw'; rw [hfin] at hf'; cases hf'
    | granted w' hw' hf' hr' hu hwk => rw [hw] at hw'; cases hw'; exact ⟨hu, hwk, hr'⟩

/-- … and nobody else touches a waiter while it stays queued: after any step other than a poll of
this very `Acquire`, a waiter that is still in the queue has exactly the table entry it had
before — so at the moment it is granted, `task_id` / `waker` are those of its latest poll. -/
theorem waiter_untouched_by_others {n : Nat} {s0 : SemState} (h0 : Initial n s0) {g : G}
    (hr : Reach s0 g) (fin : Nat → Bool) {op : SemOp} {o : StepOut} (h : step fin g.s op = .ok o)
    {wid : Nat} {w : Waiter} (hw : g.s.getW wid = some w) (hq : wid ∈ o.s.queue)
    (hop : ∀ me cx c, op ≠ .poll wid me cx c) : o.s.getW wid = some w :=
  step_frame_queued fin (reach_Inv h0 hr).1 h hw hq hop

/-- task 2 polls an `Acquire` created by task 1: the waiter follows the poller -/
example : (finalOf fin0 (SemState.new 0 true []) [.newAcq 1 1 [], .poll 0 1 1 [], .poll 0 2 2 []]).s.table.map
    (fun w => (w.taskId, w.waker)) = [(2, some 2)] := by decide
example : effsOf fin0 (SemState.new 0 true [])
    [.newAcq 1 1 [], .poll 0 1 1 [], .poll 0 2 2 [], .release 3 1 []]
    = [[], [], [], [.joinClock 2 [], .unblock 2, .wake 2]] := by decide

/-! ### the internal assertions of batch_semaphore.rs never fail -/

/-- In every reachable state: (a) a waiter that is not queued has no waker registered unless it
holds permits, is completed, or the semaphore is closed (`assert_eq!(is_queued, waker.is_some())`
of `Acquire::poll`, together with `source_invariants_1_to_4`); (b) every operation of the client is
defined — none of the `assert!`/`expect`/`unreachable!` of `poll`, `remove_waiter`,
`unblock_waiters_from_front`, `close` can fail — with the single exception of
`assert!(num_permits > 0)` in `acquire_permits` (`try_acquire(0)`, or polling `acquire(0)` on an
open semaphore), and of polling an `Acquire` that is completed or gone (excluded by `&mut self` /
`assert!(!self.completed)`). -/
theorem no_internal_assertion_fails {n : Nat} {s0 : SemState} (h0 : Initial n s0) {g : G}
    (hr : Reach s0 g) (fin : Nat → Bool) :
    (∀ w ∈ g.s.table, w.isQueued = false →
      w.waker = none ∨ w.hasPermits = true ∨ w.completed = true ∨ g.s.closed = true) ∧
    (∀ task k c, 0 < k → ∃ o, step fin g.s (.tryAcquire task k c) = .ok o) ∧
    (∀ wid me cx c w0, g.s.getW wid = some w0 → w0.completed = false →
      (0 < w0.n ∨ w0.hasPermits = true ∨ g.s.closed = true) →
      ∃ o, step fin g.s (.poll wid me cx c) = .ok o) ∧
    (∀ task wid, ∃ o, step fin g.s (.dropAcquire task wid) = .ok o) ∧
    (∀ task k c, ∃ o, step fin g.s (.release task k c) = .ok o) ∧
    (∀ task k, ∃ o, step fin g.s (.poisonRelease task k) = .ok o) ∧
    (∃ o, step fin g.s .close = .ok o) ∧
    (∀ task k c, ∃ o, step fin g.s (.newAcq task k c) = .ok o) := by
  have hi := reach_Inv2 h0 hr
  refine ⟨fun w hw hq => hi.wok w hw (by simp) hq,
    fun task k c hk => step_progress fin hi (.tryAcquire task k c) hk,
    fun wid me cx c w0 hw hnc hn => step_progress fin hi (.poll wid me cx c) ⟨w0, hw, hnc, hn⟩,
    fun task wid => step_progress fin hi (.dropAcquire task wid) trivial,
    fun task k c => step_progress fin hi (.release task k c) trivial,
    fun task k => step_progress fin hi (.poisonRelease task k) trivial,
    step_progress fin hi .close trivial,
    fun task k c => step_progress fin hi (.newAcq task k c) trivial⟩

/-- the one assertion that CAN fail: `try_acquire(0)` panics (the std/tokio semaphores accept 0) -/
theorem try_acquire_zero_panics (fin : Nat → Bool) (s : SemState) (task : Nat) (c : Clock) :
    step fin s (.tryAcquire task 0 c) = .error "assertion failed: num_permits > 0" := rfl

example : ∃ g, Reach (SemState.new 2 true []) g ∧ g.s.queue = [0, 1] ∧
    (∃ o, step fin0 g.s (.dropAcquire 2 0) = .ok o) :=
  ⟨finalOf fin0 _ (opsFair.take 5), finalOf_reach (by decide), by decide, _, rfl⟩

/-! ### the steps of the client are the segments of the wrappers -/

/-- Where the scheduling points of the `Prog` wrappers are: `try_acquire`, `release`, `close` are
ONE `thread::switch()` followed by a body without scheduling point; `Acquire::new` has none;
`Acquire::poll` reads the state, yields at most once, and then runs `Sem.pollBody` — i.e.
`SemState.pollPure` on the state it re-reads, followed by the kernel effects — without scheduling
point. By `atomic_total_order`-style reasoning (`runSegment_switchFree`) each body runs inside one
segment: these bodies are the steps `tryAcquire` / `release` / `poisonRelease` / `close` /
`newAcq` / `poll` of `SemLts.step`. -/
theorem wrappers_atomic_granularity {U : Type} (L : Lens U SemState) :
    (∀ k, Sem.tryAcquire L k = Prog.op .switch (fun _ => Sem.tryAcquireBody L k) ∧
      (Sem.tryAcquireBody L k).SwitchFree) ∧
    (∀ k, Sem.release L k = Prog.op .switch (fun _ => Sem.releaseBody L k) ∧
      (Sem.releaseBody L k).SwitchFree) ∧
    (Sem.close L = Prog.op .switch (fun _ => Sem.closeNoSwitch L) ∧ (Sem.closeNoSwitch L).SwitchFree) ∧
    (∀ k, (Sem.newAcquire L k).SwitchFree) ∧
    (∀ wid cx, (Sem.pollBody L wid cx).SwitchFree ∧
      Sem.poll L wid cx = (do
        let s ← K.getL L
        match s.getW wid with
        | none => K.panic "poll: unknown Acquire"
        | some w =>
          if w.completed then K.panic "assertion failed: !self.completed"
          else if w.neverPolled && ((w.hasPermits || s.closed || s.avail ≥ w.n) || s.fair)
            then Prog.op .switch (fun _ => Sem.pollBody L wid cx)
            else Sem.pollBody L wid cx)) :=
  ⟨fun k => ⟨Sem.tryAcquire_eq L k, Sem.tryAcquireBody_switchFree L k⟩,
   fun k => ⟨Sem.release_eq L k, Sem.releaseBody_switchFree L k⟩,
   ⟨Sem.close_eq L, Sem.closeNoSwitch_switchFree L⟩,
   fun k => Sem.newAcquire_switchFree L k,
   fun wid cx => ⟨Sem.pollBody_switchFree L wid cx, Sem.poll_eq L wid cx⟩⟩

end C18
end ShuttleModel
