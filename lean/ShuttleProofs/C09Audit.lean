import ShuttleProofs.C09

open ShuttleProofs.Dfs

#print axioms dfs_exhaustive
#print axioms dfs_exhaustive_runAll
#print axioms dfs_no_duplicates
#print axioms dfs_iteration_bound
#print axioms dfs_step_bound
#print axioms dfs_never_fails
