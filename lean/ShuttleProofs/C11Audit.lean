import ShuttleProofs.C11

open ShuttleProofs.Pct

#print axioms pct_inv
#print axioms pct_runs_min_priority
#print axioms pct_priority_changes_only
#print axioms pct_demotes_only_current
#print axioms pct_change_points
#print axioms pct_at_most_d_minus_1_change_preemptions
#print axioms pct_k_estimate
#print axioms pct_iterations_exact
#print axioms pct_no_concurrency_panics
#print axioms pct_next_task_no_invariant_panic
-- supporting facts about the bit-exact RNG model
#print axioms shuffle_perm
#print axioms indexSample_spec
