import ShuttleProofs.C06
open ShuttleModel.C06

#print axioms received_is_prefix_of_sent
#print axioms fifo_buffer
#print axioms per_sender_order
#print axioms capacity_invariant
#print axioms rendezvous_no_deposit_without_receiver
#print axioms send_blocks_iff_full_partial
#print axioms send_blocks_while_not_full
#print axioms recv_blocks_iff_empty
#print axioms try_full_empty_exact_partial
#print axioms try_send_full_while_not_full
#print axioms try_recv_blocks_on_rendezvous
#print axioms disconnect_send_fails
#print axioms disconnect_recv_drains_then_fails
#print axioms no_stranded_waiter
#print axioms unblocked_waiter_completes
#print axioms stranded_after_skipped_drop
#print axioms no_stranded_waiter_on_disconnect_partial
#print axioms abstract_refinement
#print axioms no_panic
#print axioms reachable_inv
#print axioms reachable_bound
#print axioms runLabels_reachable
