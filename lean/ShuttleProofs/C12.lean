/-
  C12 — failure reporting, schedule persistence and replay
  (`shuttle-engine/src/runtime/{failure,execution,runner}.rs`).

  Model: `ShuttleModel/Failure.lean` (a state machine over the *process history*; differentially
  tested against the real code by `/verif/harness/src/bin/vh_c12.rs`).  Helper lemmas:
  `ShuttleProofs/Lemmas/Failure.lean`.

  Vocabulary.  `emissionsAfter h r` = the schedules emitted by run `r` when it is executed in a
  process in which the runs `h` already happened; `specEmissions r` = what the property text asks
  for (failing run: exactly one complete schedule, on the channel chosen by `r`'s OWN config; nothing
  with persistence disabled; nothing for a non-failing run); `persistedAfter h t` = the value the
  thread-local `SCHEDULE_PERSISTED_AT` of OS thread `t` holds after `h` (the final schedule length
  of the last failing run on that thread, `0` if none).

  RESULT.  The payload part of C12 holds for all histories.  The emission part does NOT hold for
  the current code: the full statement `emission_depends_only_on_own_config` below is false
  (defects F5, F6); it is proved for the first run of a process, its failure is characterised exactly
  for later runs, and it is proved in full for the minimally fixed code (`Failure.Fixed`,
  `/verif/work/c12_fix.diff`).
-/
import ShuttleProofs.Lemmas.Failure

namespace ShuttleModel.C12
open ShuttleModel.Failure

/-! ## What is raised -/

/-- Every run, whatever happened before in the process, raises what C12 says: a task panic
    re-raises that task's own payload (`resume_unwind(payload)`), a deadlock / an exceeded `FailAfter`
    bound raise the message naming that condition, `ContinueAfter` and passing runs raise nothing. -/
theorem payload_reraised (history : List Run) (r : Run) :
    (outcomeAfter history r).raised = specRaised r.failure :=
  execRun_raised _ r

/-- the same, for every run of a whole process at once -/
theorem payload_reraised_history (h : List Run) :
    (runHistory h).map (·.2) = h.map (fun r => specRaised r.failure) :=
  runHistory_raised h

theorem task_panic_reraises_own_payload (history : List Run) (r : Run) (h : r.failure = .taskPanic) :
    (outcomeAfter history r).raised = .taskPayload := by
  rw [payload_reraised, h]; rfl

theorem deadlock_raises_deadlock_message (history : List Run) (r : Run) (h : r.failure = .deadlock) :
    (outcomeAfter history r).raised = .deadlockMsg := by
  rw [payload_reraised, h]; rfl

theorem step_bound_raises_step_bound_message (history : List Run) (r : Run)
    (h : r.failure = .stepBoundFail) : (outcomeAfter history r).raised = .stepBoundMsg := by
  rw [payload_reraised, h]; rfl

/-- `ContinueAfter`: nothing raised AND nothing emitted, in every process state. -/
theorem continue_after_silent (history : List Run) (r : Run) (h : r.failure = .stepBoundContinue) :
    outcomeAfter history r = ⟨[], .nothing⟩ := by
  have h1 : (outcomeAfter history r).raised = .nothing := by rw [payload_reraised, h]; rfl
  have h2 : (outcomeAfter history r).emissions = [] := by
    unfold outcomeAfter; rw [execRun_emissions]; unfold emissionsClosed; rw [h]
  cases ho : outcomeAfter history r with
  | mk e ra => rw [ho] at h1 h2; simp_all

/-- a passing run never emits or raises -/
theorem pass_silent (history : List Run) (r : Run) (h : r.failure = .pass) :
    outcomeAfter history r = ⟨[], .nothing⟩ := by
  have h1 : (outcomeAfter history r).raised = .nothing := by rw [payload_reraised, h]; rfl
  have h2 : (outcomeAfter history r).emissions = [] := by
    unfold outcomeAfter; rw [execRun_emissions]; unfold emissionsClosed; rw [h]
  cases ho : outcomeAfter history r with
  | mk e ra => rw [ho] at h1 h2; simp_all

-- non-vacuity: a later run after two failing ones
example : (outcomeAfter [⟨.print, .deadlock, 12, 0, 0⟩, ⟨.none, .taskPanic, 3, 0, 1⟩]
    ⟨.file, .taskPanic, 7, 2, 0⟩).raised = .taskPayload := by decide
example : outcomeAfter [⟨.print, .deadlock, 5, 0, 0⟩] ⟨.print, .stepBoundContinue, 5, 0, 0⟩ = ⟨[], .nothing⟩ :=
  continue_after_silent _ _ rfl

/-! ## What is emitted — the full statement is FALSE for the current code

  Full-strength statement (C12: "This holds regardless of what other Shuttle runs with other
  configurations happened earlier in the same process or thread"):

      theorem emission_depends_only_on_own_config (history : List Run) (r : Run) :
          emissionsAfter history r = emissionsAfter [] r

  It is refuted by the two witnesses below (both reproduced on the real code by `vh_c12`). -/

/-- F5.  The hook keeps the FIRST run's config.  After a first run with `Print`, a task panic in a
    run with persistence DISABLED still prints a schedule (alone it prints nothing) — also on another
    OS thread, and on the first run's channel when both are enabled; conversely, after a first run
    with `None`, a task panic in a `Print` run emits nothing at all (alone: one schedule). -/
theorem emission_witness_hook_config :
    emissionsAfter [⟨.print, .taskPanic, 1, 0, 0⟩] ⟨.none, .taskPanic, 2, 0, 0⟩ = [⟨.stderr, 2⟩]
    ∧ emissionsAfter [] ⟨.none, .taskPanic, 2, 0, 0⟩ = []
    ∧ emissionsAfter [⟨.print, .taskPanic, 1, 0, 0⟩] ⟨.none, .taskPanic, 2, 0, 1⟩ = [⟨.stderr, 2⟩]
    ∧ emissionsAfter [⟨.print, .pass, 10, 0, 0⟩] ⟨.file, .taskPanic, 2, 0, 0⟩ = [⟨.stderr, 2⟩]
    ∧ emissionsAfter [⟨.none, .taskPanic, 1, 0, 0⟩] ⟨.print, .taskPanic, 2, 0, 0⟩ = []
    ∧ emissionsAfter [] ⟨.print, .taskPanic, 2, 0, 0⟩ = [⟨.stderr, 2⟩] := by
  decide

/-- F6.  `SCHEDULE_PERSISTED_AT` is never reset.  A failing `Print` run whose schedule has the same
    length as the schedule of the previous failing run on the same OS thread emits nothing (alone:
    one schedule).  The earlier run need not have emitted anything itself (`None` also sets the
    cell), and the kinds need not agree.  On a different OS thread the run is unaffected. -/
theorem emission_witness_persisted_at :
    emissionsAfter [⟨.print, .taskPanic, 4, 0, 0⟩] ⟨.print, .taskPanic, 4, 0, 0⟩ = []
    ∧ emissionsAfter [] ⟨.print, .taskPanic, 4, 0, 0⟩ = [⟨.stderr, 4⟩]
    ∧ emissionsAfter [⟨.none, .deadlock, 5, 0, 0⟩] ⟨.file, .stepBoundFail, 5, 0, 0⟩ = []
    ∧ emissionsAfter [⟨.print, .taskPanic, 4, 0, 0⟩] ⟨.print, .taskPanic, 4, 0, 1⟩ = [⟨.stderr, 4⟩] := by
  decide

/-- The negation of the full statement. -/
theorem emission_depends_only_on_own_config_false :
    ¬ ∀ (history : List Run) (r : Run), emissionsAfter history r = emissionsAfter [] r := by
  intro h
  have := h [⟨.print, .taskPanic, 4, 0, 0⟩] ⟨.print, .taskPanic, 4, 0, 0⟩
  revert this
  decide

/-! ## What is emitted — the provable rest -/

/-- PARTIAL (first run of a process only; later runs: `later_run_deviates_iff`).  The first run of a
    process obeys its own configuration exactly.  Hypotheses: the failure happens after at least one
    scheduling step (`SCHEDULE_PERSISTED_AT` starts at `0`, so a failure at length 0 — impossible,
    the failing task must have been scheduled — would be mistaken for a duplicate), and no schedule
    steps are taken while the panicking task unwinds (see `emission_first_run_unwinding`). -/
theorem emission_first_run_partial (r : Run) (hlen : 0 < r.schedLen) (hu : r.unwind = 0) :
    emissionsAfter [] r = specEmissions r := by
  rw [emissionsAfter_nil, emissionsClosed_eq_spec_iff _ _ _ hu]
  rintro ⟨_, h | h⟩
  · omega
  · exact h.2.2 rfl

/-- spelled out: `Print` ⇒ exactly one stderr emission, `File` ⇒ exactly one file, `None` ⇒ nothing;
    a non-failing run ⇒ nothing. -/
theorem emission_first_run_cases (r : Run) (hlen : 0 < r.schedLen) (hu : r.unwind = 0) :
    emissionsAfter [] r =
      if r.failure.failing then
        match r.persist with
        | .print => [⟨.stderr, r.schedLen⟩]
        | .file => [⟨.file, r.schedLen⟩]
        | .none => []
      else [] := by
  rw [emission_first_run_partial r hlen hu, specEmissions_eq r hu]
  cases r.persist <;> rfl

example : emissionsAfter [] ⟨.file, .deadlock, 12, 0, 0⟩ = [⟨.file, 12⟩] := by decide

/-- Even a first run emits TWICE if the panicking task holds guards: the hook emits the schedule up to
    the panic (`schedLen` steps), the execution takes `unwind` more steps while the task unwinds, and
    `Execution::run` emits the longer, complete schedule.  (New observation of this slice; the first
    of the two does not replay: `emission_witness_unwind`.) -/
theorem emission_first_run_unwinding (r : Run) (hk : r.failure = .taskPanic) (hlen : 0 < r.schedLen)
    (hu : 0 < r.unwind) :
    emissionsAfter [] r = emit r.persist r.schedLen ++ emit r.persist (r.schedLen + r.unwind) := by
  rw [emissionsAfter_nil]; unfold emissionsClosed; rw [hk]
  have h1 : ¬ 0 = r.schedLen := by omega
  have h2 : ¬ r.unwind = 0 := by omega
  simp [h1, h2]

theorem emission_witness_unwind :
    emissionsAfter [] ⟨.print, .taskPanic, 7, 2, 0⟩ = [⟨.stderr, 7⟩, ⟨.stderr, 9⟩]
    ∧ replaysSame ⟨.print, .taskPanic, 7, 2, 0⟩ ⟨.stderr, 7⟩ = false
    ∧ replaysSame ⟨.print, .taskPanic, 7, 2, 0⟩ ⟨.stderr, 9⟩ = true := by
  decide

/-- Closed form of the emissions of ANY later run: they depend on the run itself, on the FIRST run's
    persistence mode `h0.persist` (held by the hook) and on `persistedAfter … r.thread`. -/
theorem emission_later_run_closed_form (h0 : Run) (hist : List Run) (r : Run) :
    emissionsAfter (h0 :: hist) r =
      match r.failure with
      | .taskPanic =>
        (if persistedAfter (h0 :: hist) r.thread = r.schedLen then [] else emit h0.persist r.schedLen) ++
          (if r.unwind = 0 then [] else emit r.persist (r.schedLen + r.unwind))
      | .deadlock =>
        if persistedAfter (h0 :: hist) r.thread = r.schedLen then [] else emit r.persist r.schedLen
      | .stepBoundFail =>
        if persistedAfter (h0 :: hist) r.thread = r.schedLen then [] else emit r.persist r.schedLen
      | .stepBoundContinue => []
      | .pass => [] := by
  rw [emissionsAfter_cons]; rfl

/-- CHARACTERISATION of exactly when a later run deviates from its own configuration (runs without
    unwinding steps).  A run `r` executed after the non-empty history `h0 :: hist` emits something
    other than what its own config asks for  iff  it fails and
    * (F6) the last failing run on the same OS thread ended with the same schedule length and `r`'s
      persistence is enabled (nothing is emitted), or
    * (F5) `r` is a task panic that is not suppressed by F6 and the FIRST run of the process had a
      different persistence mode (the first run's mode is used instead of `r`'s own). -/
theorem later_run_deviates_iff (h0 : Run) (hist : List Run) (r : Run) (hu : r.unwind = 0) :
    emissionsAfter (h0 :: hist) r ≠ specEmissions r ↔
      r.failure.failing = true ∧
        ((persistedAfter (h0 :: hist) r.thread = r.schedLen ∧ r.persist ≠ .none) ∨
         (r.failure = .taskPanic ∧ persistedAfter (h0 :: hist) r.thread ≠ r.schedLen ∧
            h0.persist ≠ r.persist)) := by
  rw [emissionsAfter_cons, Ne, emissionsClosed_eq_spec_iff _ _ _ hu, Classical.not_not]

/-- Consequence: deadlock and step-bound failures are immune to F5 — they deviate only through F6. -/
theorem later_non_panic_deviates_iff (h0 : Run) (hist : List Run) (r : Run)
    (hk : r.failure = .deadlock ∨ r.failure = .stepBoundFail) :
    emissionsAfter (h0 :: hist) r ≠ specEmissions r ↔
      persistedAfter (h0 :: hist) r.thread = r.schedLen ∧ r.persist ≠ .none := by
  have hu' : emissionsAfter (h0 :: hist) r = emissionsAfter (h0 :: hist) { r with unwind := 0 } := by
    rw [emissionsAfter_cons, emissionsAfter_cons]; unfold emissionsClosed
    rcases hk with hk | hk <;> simp [hk]
  have hs : specEmissions r = specEmissions { r with unwind := 0 } := by
    unfold specEmissions Run.finalLen
    rcases hk with hk | hk <;> simp [hk]
  rw [hu', hs, later_run_deviates_iff h0 hist { r with unwind := 0 } rfl]
  rcases hk with hk | hk <;> simp [hk, FailKind.failing]

/-- Consequence: a run on an OS thread on which no run failed before (e.g. every member of a
    `PortfolioRunner`, which runs on a freshly spawned thread) is immune to F6 but not to F5. -/
theorem fresh_thread_deviates_iff (h0 : Run) (hist : List Run) (r : Run) (hu : r.unwind = 0)
    (hlen : 0 < r.schedLen) (hfresh : persistedAfter (h0 :: hist) r.thread = 0) :
    emissionsAfter (h0 :: hist) r ≠ specEmissions r ↔
      r.failure = .taskPanic ∧ h0.persist ≠ r.persist := by
  rw [later_run_deviates_iff h0 hist r hu, hfresh]
  constructor
  · rintro ⟨_, h | h⟩
    · omega
    · exact ⟨h.1, h.2.2⟩
  · rintro ⟨h1, h2⟩
    refine ⟨by rw [h1]; rfl, Or.inr ⟨h1, by omega, h2⟩⟩

-- non-vacuity of the characterisation: both disjuncts occur, and so does the non-deviating case
example : persistedAfter [⟨.print, .taskPanic, 4, 0, 0⟩, ⟨.print, .pass, 9, 0, 0⟩] 0 = 4 := by decide
example : emissionsAfter [⟨.print, .taskPanic, 4, 0, 0⟩] ⟨.print, .deadlock, 4, 0, 0⟩ ≠
    specEmissions ⟨.print, .deadlock, 4, 0, 0⟩ := by decide
example : emissionsAfter [⟨.print, .taskPanic, 4, 0, 0⟩] ⟨.file, .taskPanic, 5, 0, 0⟩ ≠
    specEmissions ⟨.file, .taskPanic, 5, 0, 0⟩ := by decide
example : emissionsAfter [⟨.print, .taskPanic, 4, 0, 0⟩] ⟨.print, .taskPanic, 5, 0, 0⟩ =
    specEmissions ⟨.print, .taskPanic, 5, 0, 0⟩ := by decide

/-- Whatever a run (without unwinding steps) emits is its own complete schedule, i.e. replays to the
    same failure (`replaysSame`: the emitted schedule has the run's final length). -/
theorem emitted_schedule_replays (history : List Run) (r : Run) (hu : r.unwind = 0) :
    ∀ e ∈ emissionsAfter history r, replaysSame r e = true := by
  intro e he
  have key : ∀ (hook : Persist) (a : Nat), e ∈ emissionsClosed hook a r → replaysSame r e = true := by
    intro hook a hm
    unfold emissionsClosed at hm
    unfold replaysSame Run.finalLen
    cases hf : r.failure <;> rw [hf] at hm <;> simp only [hu] at hm
    · by_cases h1 : a = r.schedLen
      · simp [h1] at hm
      · cases hook <;> simp [h1, emit] at hm <;> simp [hm, hu]
    · by_cases h1 : a = r.schedLen
      · simp [h1] at hm
      · cases hp : r.persist <;> simp [h1, emit, hp] at hm <;> simp [hm]
    · by_cases h1 : a = r.schedLen
      · simp [h1] at hm
      · cases hp : r.persist <;> simp [h1, emit, hp] at hm <;> simp [hm]
    · simp at hm
    · simp at hm
  cases history with
  | nil => rw [emissionsAfter_nil] at he; exact key _ _ he
  | cons h0 hist => rw [emissionsAfter_cons] at he; exact key _ _ he

example : ∀ e ∈ emissionsAfter [⟨.file, .pass, 3, 0, 0⟩] ⟨.print, .taskPanic, 4, 0, 0⟩,
    replaysSame ⟨.print, .taskPanic, 4, 0, 0⟩ e = true := emitted_schedule_replays _ _ rfl
example : emissionsAfter [⟨.file, .pass, 3, 0, 0⟩] ⟨.print, .taskPanic, 4, 0, 0⟩ ≠ [] := by decide

/-! ## After the minimal fix (`Failure.Fixed`): the full statement holds -/

/-- The full-strength statement, for the fixed code: the emissions of a run do not depend on what
    happened earlier in the process or on the thread. -/
theorem emission_depends_only_on_own_config_fixed (history : List Run) (r : Run) :
    Fixed.emissionsAfter history r = Fixed.emissionsAfter [] r := by
  unfold Fixed.emissionsAfter Fixed.outcomeAfter
  rw [Fixed.execRun_emissions, Fixed.execRun_emissions]

/-- … and they are exactly what the run's own configuration asks for (no hypothesis on the schedule
    length any more: the cell is an `Option` reset to `None` at the start of every execution). -/
theorem emission_exact_fixed (history : List Run) (r : Run) (hu : r.unwind = 0) :
    Fixed.emissionsAfter history r = specEmissions r := by
  unfold Fixed.emissionsAfter Fixed.outcomeAfter
  rw [Fixed.execRun_emissions, Fixed.emissionsClosed_eq_spec r hu]

/-- the same for every run of a whole process at once -/
theorem emission_exact_fixed_history (h : List Run) (hu : ∀ r ∈ h, r.unwind = 0) :
    (Fixed.runHistory h).map (·.1) = h.map specEmissions := by
  unfold Fixed.runHistory
  rw [List.map_map]
  have := Fixed.runFrom_emissions Fixed.State.init h
  simp only [Function.comp_def]
  rw [this]
  apply List.map_congr_left
  intro r hr
  exact Fixed.emissionsClosed_eq_spec r (hu r hr)

theorem payload_reraised_fixed (history : List Run) (r : Run) :
    (Fixed.outcomeAfter history r).raised = specRaised r.failure :=
  Fixed.execRun_raised _ r

/-- The fix does not change the unwinding behaviour (out of scope of the patch): a task that panics
    holding guards still emits the truncated and the complete schedule, in every process state. -/
theorem emission_unwinding_fixed (history : List Run) (r : Run) (hk : r.failure = .taskPanic)
    (hu : 0 < r.unwind) :
    Fixed.emissionsAfter history r = emit r.persist r.schedLen ++ emit r.persist (r.schedLen + r.unwind) := by
  unfold Fixed.emissionsAfter Fixed.outcomeAfter
  rw [Fixed.execRun_emissions]; unfold Fixed.emissionsClosed; rw [hk]
  have h2 : ¬ r.unwind = 0 := by omega
  simp [h2]

-- the two witnesses are gone
example : Fixed.emissionsAfter [⟨.print, .taskPanic, 1, 0, 0⟩] ⟨.none, .taskPanic, 2, 0, 0⟩ = [] := by decide
example : Fixed.emissionsAfter [⟨.print, .taskPanic, 4, 0, 0⟩] ⟨.print, .taskPanic, 4, 0, 0⟩ = [⟨.stderr, 4⟩] := by
  decide

/-! ## PortfolioRunner -/

/-- A portfolio run fails exactly when one of its members does. -/
theorem portfolio_fails_iff_member_fails (stopOnFirstFailure : Bool) (ms : List Member) :
    (portfolioRun stopOnFirstFailure ms).isSome = true ↔ ∃ m ∈ ms, m.isFailed = true := by
  have hj := joinAll_isSome none ms
  simp only [Option.isSome_none, Bool.false_or] at hj
  unfold portfolioRun
  simp only [hj]
  rw [← List.any_eq_true]
  cases ha : ms.any Member.isFailed
  · have : joinAll none ms = none := by
      cases hq : joinAll none ms with
      | none => rfl
      | some p => rw [hq] at hj; simp [ha] at hj
    simp [this]
  · cases hq : joinAll none ms with
    | none => rw [hq] at hj; simp [ha] at hj
    | some p => cases stopOnFirstFailure <;> simp

/-- With `stop_on_first_failure = true` the payload re-raised is the LAST failing member's (in
    scheduler order): "propagate the first panic we see" in the source comment is inaccurate, the loop
    overwrites. -/
theorem portfolio_reraises_last_failed_member (pre rest : List Member) (p : Nat)
    (hrest : rest.any Member.isFailed = false) :
    portfolioRun true (pre ++ .failed p :: rest) = some (.member p) := by
  unfold portfolioRun
  rw [joinAll_append_failed none pre p rest hrest]
  simp [Member.isFailed]

/-- With `stop_on_first_failure = false` a failing member makes the portfolio fail with the
    `assert!(stop_signal == panic.is_some())` failure, not with the member's payload. -/
theorem portfolio_no_stop_raises_assertion (ms : List Member) (h : ∃ m ∈ ms, m.isFailed = true) :
    portfolioRun false ms = some .assertion := by
  have hj := joinAll_isSome none ms
  simp only [Option.isSome_none, Bool.false_or] at hj
  rw [← List.any_eq_true] at h
  unfold portfolioRun
  simp [hj, h]

example : portfolioRun true [.passed, .failed 1, .passed, .failed 2, .passed] = some (.member 2) := by decide
example : portfolioRun true [.passed, .passed] = none := by decide
example : portfolioRun false [.passed, .failed 7] = some .assertion := by decide

/-- The same at the level of the process model: a portfolio step (its members being ordinary runs on
    fresh threads, in ANY process state `s`) fails iff one of its member runs fails — for the current
    code and for the fixed code. -/
theorem portfolio_step_fails_iff_member_fails (s : State) (stop : Bool) (ms : List Run) :
    (∃ p, (execStep s (.portfolio stop ms)).1.raised = .portfolio (some p)) ↔
      ∃ r ∈ ms, r.failure.failing = true := by
  have h := portfolio_fails_iff_member_fails stop (toMembers 0 (runFrom s ms).1)
  rw [← List.any_eq_true, toMembers_any_failed, runFrom_any_raised, List.any_eq_true] at h
  rw [← h]
  simp only [execStep]
  cases portfolioRun stop (toMembers 0 (runFrom s ms).1) <;> simp

theorem portfolio_step_fails_iff_member_fails_fixed (s : Fixed.State) (stop : Bool) (ms : List Run) :
    (∃ p, (Fixed.execStep s (.portfolio stop ms)).1.raised = .portfolio (some p)) ↔
      ∃ r ∈ ms, r.failure.failing = true := by
  have h := portfolio_fails_iff_member_fails stop (toMembers 0 (Fixed.runFrom s ms).1)
  rw [← List.any_eq_true, toMembers_any_failed, Fixed.runFrom_any_raised, List.any_eq_true] at h
  rw [← h]
  simp only [Fixed.execStep]
  cases portfolioRun stop (toMembers 0 (Fixed.runFrom s ms).1) <;> simp

/-- F5 reaches portfolio members (fresh threads share the process-wide hook): after a `Print` run, a
    portfolio with persistence disabled whose two members fail prints two schedules; fixed: none. -/
theorem portfolio_witness_hook_config :
    (stepHistory [.single ⟨.print, .pass, 10, 0, 0⟩,
        .portfolio true [⟨.none, .taskPanic, 1, 0, 1000⟩, ⟨.none, .taskPanic, 1, 0, 1001⟩]]).map (·.emissions)
      = [[], [⟨.stderr, 1⟩, ⟨.stderr, 1⟩]]
    ∧ (Fixed.stepHistory [.single ⟨.print, .pass, 10, 0, 0⟩,
        .portfolio true [⟨.none, .taskPanic, 1, 0, 1000⟩, ⟨.none, .taskPanic, 1, 0, 1001⟩]]).map (·.emissions)
      = [[], []] := by
  decide

example : ∃ p, (execStep State.init (.portfolio true [⟨.print, .pass, 3, 0, 7⟩, ⟨.print, .taskPanic, 3, 0, 8⟩])).1.raised
    = .portfolio (some p) := ⟨.member 1, by decide⟩

end ShuttleModel.C12
