import ShuttleProofs.C16
import ShuttleProofs.Gen.C16
open ShuttleModel.C16

#print axioms varint_roundtrip
#print axioms varint_read_lt
#print axioms bits_roundtrip
#print axioms bits_roundtrip_steps
#print axioms bits_roundtrip_bytes
#print axioms roundtrip
#print axioms serialize_injective
#print axioms roundtrip_ws
#print axioms serialize_filter
#print axioms roundtrip_ws_insert
#print axioms roundtrip_bytes
#print axioms wrap_width
#print axioms wrap_lines
#print axioms width_minimal
#print axioms reject_empty
#print axioms reject_non_hex
#print axioms reject_odd_length
#print axioms reject_bad_magic
#print axioms reject_width
#print axioms reject_truncated
#print axioms truncated_ok
#print axioms reject_truncated_all_tasks
#print axioms reject_truncated_header

#print axioms ShuttleProofs.Gen.schedule_magic_eq
#print axioms ShuttleProofs.Gen.line_width_eq
