import ShuttleProofs.C07Join
/-! `#print axioms` for every theorem of C07Join (the wait loop of `JoinHandle::join`). -/
open ShuttleProofs

#print axioms C07.joinWait_exits_only_via_finished_answer
#print axioms C07.not_exitsViaNotBlocking_pure
#print axioms C07.runSegment_setWaiter
#print axioms C07.join_returns_only_when_finished_loop
#print axioms C07.joinWait_segment
