import ShuttleModel.Prim.Chan
/-
  C06 — the most general client of one mpsc channel, as a labelled transition system over the
  PURE atomic transitions of ShuttleModel/Prim/Chan.lean.

  * `sendSeg1/2`, `recvSeg1/2`: the atomic segments of `send_internal` / `recv_internal`, i.e. the
    pure transitions composed exactly as the `Prog` wrappers `Chan.sendInternal` /
    `Chan.recvInternal` sequence them between two `K.switch`es (the clocks the wrappers obtain
    from the kernel are parameters: the theorems hold for every clock value).
  * `Cfg`: channel state + ghost history (`sent`, `received`), the ghost set `ub` of tasks that
    received an `Eff.unblock` since they blocked, the value a blocked sender carries (`pv`), and the
    real number of live endpoints (`liveS`, `liveR`; they differ from `known_senders` /
    `known_receivers` only after a drop that was skipped because `should_stop()`).
  * `Label` / `enabled` / `fire` / `Reachable`: any task may start a `send(v)` / `try_send(v)` /
    `recv` / `try_recv`; a task sitting in a waiting queue may run its second segment once it has
    been unblocked; endpoints may be cloned / dropped at any time, subject only to Rust's
    ownership rules (see `enabled`).
  * `ASpec` / `AStep`: the abstract bounded FIFO.
-/
namespace ShuttleModel.C06
open ShuttleModel

/-- tasks unblocked by a list of effects -/
def ubOf (es : List Eff) : List Nat :=
  es.filterMap fun e => match e with | .unblock t => some t | _ => none

/-- sequencing of atomic transitions inside one segment (effects accumulate in order; a panic
keeps the effects already performed) -/
def bindStep {α β : Type} (x : ChanStep α) (f : ChanState → α → ChanStep β) : ChanStep β :=
  match x with
  | .error p => .error p
  | .ok (s, a, e) =>
    match f s a with
    | .error p => .error { p with effs := e ++ p.effs }
    | .ok (s', b, e') => .ok (s', b, e ++ e')

/-- a `send` segment: prefix `first`, then the push if the prefix says so.
Result `none` = the task is now blocked in `waiting_senders`. -/
def sendSeg (first : ChanStep SendStage) (v : Nat) (c : Clock) : ChanStep (Option SendRes) :=
  bindStep first fun s st =>
    match st with
    | .done r => .ok (s, some r, [])
    | .blocked => .ok (s, none, [])
    | .push => bindStep (s.sendPush v c) fun s _ => .ok (s, some .ok, [])

/-- first atomic segment of `send_internal(v, canBlock)` by task `me` (`c` = `increment_clock()`) -/
def sendSeg1 (s : ChanState) (me v : Nat) (canBlock : Bool) (c : Clock) : ChanStep (Option SendRes) :=
  sendSeg (s.sendStart me canBlock) v c

/-- second atomic segment of a blocking `send_internal` (after the sender was unblocked) -/
def sendSeg2 (s : ChanState) (me v : Nat) (c : Clock) : ChanStep (Option SendRes) :=
  sendSeg (s.sendWake me) v c

/-- a `recv` segment (`mine` = the receiver's clock pushed on `receiver_clock`) -/
def recvSeg (first : ChanStep RecvStage) (mine : Clock) : ChanStep (Option RecvRes) :=
  bindStep first fun s st =>
    match st with
    | .done r => .ok (s, some r, [])
    | .blocked => .ok (s, none, [])
    | .pop => bindStep s.recvPop fun s item =>
        bindStep (s.recvAck mine) fun s _ => .ok (s, some (.ok item.1), [])

def recvSeg1 (s : ChanState) (me : Nat) (canBlock : Bool) (mine : Clock) : ChanStep (Option RecvRes) :=
  recvSeg (s.recvStart me canBlock) mine

def recvSeg2 (s : ChanState) (me : Nat) (mine : Clock) : ChanStep (Option RecvRes) :=
  recvSeg (s.recvWake me) mine

/-- channel + ghost state -/
structure Cfg where
  ch : ChanState
  /-- successful sends `(task, value)` in the order of their push -/
  sent : List (Nat × Nat) := []
  /-- values returned by `recv` / `try_recv`, in order -/
  received : List Nat := []
  /-- tasks that received an `Eff.unblock` since they blocked -/
  ub : List Nat := []
  /-- value carried by a blocked sender -/
  pv : Nat → Nat := fun _ => 0
  /-- endpoints that really exist -/
  liveS : Nat := 1
  liveR : Bool := true
  /-- some endpoint drop was skipped (`should_stop()`) -/
  skipped : Bool := false

def Cfg.init (bound : Option Nat) : Cfg := { ch := ChanState.new bound }

inductive Label where
  /-- `send(v)` (`canBlock`) / `try_send(v)` by task `t`, first segment -/
  | sendStart (t v : Nat) (canBlock : Bool) (c : Clock)
  /-- second segment of a blocked `send` -/
  | sendWake (t : Nat) (c : Clock)
  /-- `recv()` (`canBlock`) / `try_recv()` by task `t`, first segment -/
  | recvStart (t : Nat) (canBlock : Bool) (mine : Clock)
  | recvWake (t : Nat) (mine : Clock)
  | cloneS
  /-- `drop(sender)`; `stop` = `should_stop()` at that moment -/
  | dropS (stop : Bool)
  | dropR (stop : Bool)

/-- what the client may do.  Only ownership: an operation needs a live endpoint of its kind; a task
runs one operation at a time; there is one `Receiver` (`&self` methods, not `Clone`, not `Sync`), so
no `recv` starts while another is in flight and the `Receiver` is not dropped then; a `Sender`
borrowed by a blocked `send` is not dropped (at least one live sender remains while
`waiting_senders` is non-empty); second segments run only after an `unblock`. -/
def enabled (c : Cfg) : Label → Prop
  | .sendStart t _ _ _ => 1 ≤ c.liveS ∧ t ∉ c.ch.waitingSenders ∧ t ∉ c.ch.waitingReceivers
  | .sendWake t _ => t ∈ c.ch.waitingSenders ∧ t ∈ c.ub
  | .recvStart t _ _ => c.liveR = true ∧ c.ch.waitingReceivers = [] ∧ t ∉ c.ch.waitingSenders
  | .recvWake t _ => t ∈ c.ch.waitingReceivers ∧ t ∈ c.ub
  | .cloneS => 1 ≤ c.liveS
  | .dropS _ => 1 ≤ c.liveS ∧ (c.ch.waitingSenders ≠ [] → 2 ≤ c.liveS)
  | .dropR _ => c.liveR = true ∧ c.ch.waitingReceivers = []

instance (c : Cfg) (l : Label) : Decidable (enabled c l) := by
  cases l <;> unfold enabled <;> infer_instance

/-- ghost bookkeeping after a send segment of task `t` with value `v` -/
def Cfg.afterSend (c : Cfg) (t v : Nat) (x : ChanState × Option SendRes × List Eff) (wake : Bool) : Cfg :=
  { c with
    ch := x.1
    ub := (if wake then c.ub.filter (· != t) else c.ub) ++ ubOf x.2.2
    sent := if x.2.1 = some .ok then c.sent ++ [(t, v)] else c.sent
    pv := if x.2.1 = none then (fun y => if y = t then v else c.pv y) else c.pv }

def Cfg.afterRecv (c : Cfg) (t : Nat) (x : ChanState × Option RecvRes × List Eff) (wake : Bool) : Cfg :=
  { c with
    ch := x.1
    ub := (if wake then c.ub.filter (· != t) else c.ub) ++ ubOf x.2.2
    received := match x.2.1 with
      | some (.ok v) => c.received ++ [v]
      | _ => c.received }

/-- the transition function (`.error` = the Rust code panics) -/
def fire (c : Cfg) : Label → Except ChanPanic Cfg
  | .sendStart t v cb clk =>
    match sendSeg1 c.ch t v cb clk with
    | .error p => .error p
    | .ok x => .ok (c.afterSend t v x false)
  | .sendWake t clk =>
    match sendSeg2 c.ch t (c.pv t) clk with
    | .error p => .error p
    | .ok x => .ok (c.afterSend t (c.pv t) x true)
  | .recvStart t cb mine =>
    match recvSeg1 c.ch t cb mine with
    | .error p => .error p
    | .ok x => .ok (c.afterRecv t x false)
  | .recvWake t mine =>
    match recvSeg2 c.ch t mine with
    | .error p => .error p
    | .ok x => .ok (c.afterRecv t x true)
  | .cloneS =>
    match c.ch.cloneSenderStep with
    | .error p => .error p
    | .ok x => .ok { c with ch := x.1, ub := c.ub ++ ubOf x.2.2, liveS := c.liveS + 1 }
  | .dropS stop =>
    match c.ch.dropSenderStep stop with
    | .error p => .error p
    | .ok x => .ok { c with ch := x.1, ub := c.ub ++ ubOf x.2.2, liveS := c.liveS - 1,
                            skipped := c.skipped || stop }
  | .dropR stop =>
    match c.ch.dropReceiverStep stop with
    | .error p => .error p
    | .ok x => .ok { c with ch := x.1, ub := c.ub ++ ubOf x.2.2, liveR := false,
                            skipped := c.skipped || stop }

/-- all histories of the most general client of a channel created with `bound` -/
inductive Reachable (bound : Option Nat) : Cfg → Prop where
  | init : Reachable bound (Cfg.init bound)
  | step {c c' : Cfg} (l : Label) : Reachable bound c → enabled c l → fire c l = .ok c' →
      Reachable bound c'

/-- executable form, for concrete witnesses -/
def runLabels (c : Cfg) : List Label → Option Cfg
  | [] => some c
  | l :: ls =>
    if enabled c l then
      match fire c l with
      | .ok c' => runLabels c' ls
      | .error _ => none
    else none

theorem runLabels_reachable {b : Option Nat} {c c' : Cfg} (ls : List Label)
    (h : Reachable b c) (hr : runLabels c ls = some c') : Reachable b c' := by
  induction ls generalizing c with
  | nil => simp [runLabels] at hr; subst hr; exact h
  | cons l ls ih =>
    simp only [runLabels] at hr
    split at hr
    · rename_i hen
      split at hr
      · rename_i c1 hf
        exact ih (Reachable.step l h hen hf) hr
      · cases hr
    · cases hr

/-! ### the abstract specification: a bounded FIFO with endpoint counts -/

/-- abstract state -/
structure ASpec where
  queue : List Nat
  senders : Nat
  receiverAlive : Bool
deriving DecidableEq, Repr

/-- capacity of the buffer: `none` = unbounded; a rendezvous channel buffers the one message that
is being handed off -/
def capOf (bound : Option Nat) : Option Nat := bound.map (max · 1)

def hasRoom (cap : Option Nat) (n : Nat) : Prop :=
  match cap with
  | none => True
  | some k => n < k

/-- the ten-line bounded FIFO -/
inductive AStep (cap : Option Nat) : ASpec → ASpec → Prop where
  | stutter (a) : AStep cap a a
  | push (a v) : a.receiverAlive = true → hasRoom cap a.queue.length →
      AStep cap a { a with queue := a.queue ++ [v] }
  | pop (a v q) : a.queue = v :: q → AStep cap a { a with queue := q }
  | clone (a) : 1 ≤ a.senders → AStep cap a { a with senders := a.senders + 1 }
  | dropS (a) : 1 ≤ a.senders → AStep cap a { a with senders := a.senders - 1 }
  | dropR (a) : a.receiverAlive = true → AStep cap a { a with receiverAlive := false }

/-- the abstraction function -/
def abs (s : ChanState) : ASpec :=
  { queue := s.messages.map (·.1), senders := s.knownSenders, receiverAlive := s.knownReceivers != 0 }

end ShuttleModel.C06
