import ShuttleModel.Sched.Replay
import ShuttleProofs.Lemmas.KernelExamples
/-!
# Concrete programs used by the non-vacuity examples of C01
-/
namespace ShuttleProofs.Replay
open ShuttleModel ShuttleModel.Replay

/-- main spawns two children, draws a number, stores it, switches; child 1 emits what it reads, draws;
child 2 requests a yield, switches, emits -/
def exR : Program :=
  { U := Nat, init := 0,
    bodies := fun i => match i with
      | 0 => do
        let _ ← Prog.lift (.spawn false 1)
        let _ ← Prog.lift (.spawn false 2)
        Prog.lift .switch
        let v ← Prog.lift .rand
        Prog.lift (.setU (v % 1000))
        Prog.lift .switch
        pure ()
      | 1 => do
        Prog.lift .switch
        let u ← Prog.lift .getU
        Prog.lift (.emit (if u % 2 == 0 then "main drew an even number" else "main drew an odd number"))
        let w ← Prog.lift .rand
        Prog.lift (.emit (if w % 2 == 0 then "even" else "odd"))
        pure ()
      | _ => do
        Prog.lift .requestYield
        Prog.lift .switch
        let u ← Prog.lift .getU
        Prog.lift (.emit (if u == 0 then "child 2 ran before main stored" else "child 2 ran after main stored"))
        pure () }

/-- variant: child 1 panics if the drawn number is even (after a draw), main blocks for good: deadlock or panic -/
def exRPanic : Program :=
  { U := Nat, init := 0,
    bodies := fun i => match i with
      | 0 => do
        let _ ← Prog.lift (.spawn false 1)
        Prog.lift .switch
        let v ← Prog.lift .rand
        Prog.lift (.setU v)
        Prog.lift .switch
        pure ()
      | _ => do
        Prog.lift .switch
        let u ← Prog.lift .getU
        if u % 2 == 0 then .panic "even" else pure () }

/-- variant: main draws, then blocks itself forever; child ends: deadlock -/
def exRDeadlock : Program :=
  { U := Nat, init := 0,
    bodies := fun i => match i with
      | 0 => do
        let _ ← Prog.lift (.spawn false 1)
        let _ ← Prog.lift .rand
        Prog.lift (.block false)
        Prog.lift .switch
        pure ()
      | _ => do
        Prog.lift .switch
        pure () }

def rr0 : RRState := { maxIterations := 3 }

/-- the round-robin scheduler's state after its first `new_execution` (which returns seed 0) -/
def rr1 : RRState := { iterations := 1, maxIterations := 3, data := (Rng.RandomDataSource.initialize 0).reinitialize.2 }

theorem rr_newExec : rrScheduler.newExec rr0 = .some 0 rr1 := rfl

/-- a hand-written scheduler: last offered task, draws count up from 100 (NOT a `RandomDataSource` stream) -/
def lastCount : Scheduler Nat :=
  { nextTask := fun s vs _ _ => (.choose (vs.getLast?.map (·.id)), s), nextU64 := fun s => (.ok (100 + s), s + 1) }

/-- first execution of the round-robin scheduler on `P` -/
def rrRun (P : Program) : Option (Nat × Result P RRState) :=
  match rrScheduler.newExec rr0 with
  | .some seed s => some (seed, execute P rrScheduler.sched .none seed s 50 50)
  | _ => none

/-- replay of a recorded schedule -/
def replayRun (P : Program) (sch : Schedule) : Option (Nat × Result P ReplayState) :=
  match replayScheduler.newExec (newFromSchedule sch) with
  | .some seed s => some (seed, execute P replayScheduler.sched .none seed s 50 50)
  | _ => none

def summary {P : Program} {σ : Type} (x : Option (Nat × Result P σ)) : Option (Nat × Outcome × List Ev × List SStep) :=
  x.map (fun p => (p.1, p.2.outcome, p.2.st.log.toList, p.2.st.k.schedule_))

end ShuttleProofs.Replay
