import ShuttleModel.Storage
/-
  Helper lemmas about `ShuttleModel.Storage` (the transcription of storage.rs).
-/
namespace ShuttleModel
namespace Storage
namespace StorageMap
variable {α : Type}

/-! ### association-list facts -/

theorem find_none_of_not_mem {ls : List (StorageKey × Option α)} {k : StorageKey}
    (h : k ∉ ls.map (·.1)) : ls.find? (fun p => p.1 == k) = none := by
  induction ls with
  | nil => rfl
  | cons hd tl ih =>
    simp only [List.map_cons, List.mem_cons, not_or] at h
    have : (hd.1 == k) = false := by simpa using fun e => h.1 e.symm
    simp [List.find?_cons, this, ih h.2]

theorem find_some_mem {ls : List (StorageKey × Option α)} {k : StorageKey} {p : StorageKey × Option α}
    (h : ls.find? (fun p => p.1 == k) = some p) : p.1 = k ∧ k ∈ ls.map (·.1) := by
  have h1 := List.find?_some h
  have h2 := List.mem_of_find?_eq_some h
  have : p.1 = k := by simpa using h1
  exact ⟨this, this ▸ List.mem_map_of_mem h2⟩

theorem lookup_eq_none_iff (m : StorageMap α) (k : StorageKey) : m.lookup k = none ↔ k ∉ m.keys := by
  unfold lookup keys
  constructor
  · intro h hm
    cases hf : m.locals.find? (fun p => p.1 == k) with
    | some p => simp [hf] at h
    | none =>
      rw [List.find?_eq_none] at hf
      obtain ⟨p, hp, rfl⟩ := List.mem_map.1 hm
      exact absurd (hf p hp) (by simp)
  · intro h; simp [find_none_of_not_mem h]

theorem get_eq_none_iff (m : StorageMap α) (k : StorageKey) : m.get k = none ↔ k ∉ m.keys := by
  rw [← lookup_eq_none_iff]; unfold get; cases m.lookup k <;> simp

@[simp] theorem tombstone_nil (k : StorageKey) : tombstone ([] : List (StorageKey × Option α)) k = [] := rfl

theorem tombstone_cons_eq (o : Option α) (tl : List (StorageKey × Option α)) (k : StorageKey) :
    tombstone ((k, o) :: tl) k = (k, none) :: tombstone tl k := by
  simp [tombstone]

theorem tombstone_cons_ne {hd : StorageKey × Option α} (tl : List (StorageKey × Option α)) {k : StorageKey}
    (h : hd.1 ≠ k) : tombstone (hd :: tl) k = hd :: tombstone tl k := by
  simp [tombstone, h]

theorem tombstone_of_not_mem {ls : List (StorageKey × Option α)} {k : StorageKey}
    (h : k ∉ ls.map (·.1)) : tombstone ls k = ls := by
  induction ls with
  | nil => rfl
  | cons hd tl ih =>
    simp only [List.map_cons, List.mem_cons, not_or] at h
    rw [tombstone_cons_ne tl (fun e => h.1 e.symm), ih h.2]

theorem tombstone_keys (ls : List (StorageKey × Option α)) (k : StorageKey) :
    (tombstone ls k).map (·.1) = ls.map (·.1) := by
  induction ls with
  | nil => rfl
  | cons hd tl ih =>
    by_cases h : hd.1 = k
    · obtain ⟨k', o⟩ := hd; simp only at h; subst h
      rw [tombstone_cons_eq]; simp [ih]
    · rw [tombstone_cons_ne tl h]; simp [ih]

theorem liveKeys_subset_keys {ls : List (StorageKey × Option α)} {k : StorageKey}
    (h : k ∈ (ls.filter (fun p => p.2.isSome)).map (·.1)) : k ∈ ls.map (·.1) := by
  obtain ⟨p, hp, rfl⟩ := List.mem_map.1 h
  exact List.mem_map_of_mem (List.mem_filter.1 hp).1

/-- the core of `pop`: in a duplicate-free association list whose live keys start with `k`, the entry
found for `k` is live, and turning it into a tombstone removes exactly that first live entry -/
theorem pop_core {ls : List (StorageKey × Option α)} {k : StorageKey} {rest : List StorageKey}
    (hn : (ls.map (·.1)).Nodup) (ho : (ls.filter (fun p => p.2.isSome)).map (·.1) = k :: rest) :
    ∃ v, ls.find? (fun p => p.1 == k) = some (k, some v) ∧
      ((tombstone ls k).filter (fun p => p.2.isSome)).map (·.1) = rest ∧
      ls.filterMap (·.2) = v :: (tombstone ls k).filterMap (·.2) ∧
      ((tombstone ls k).filter (fun p => p.2.isNone)).length = (ls.filter (fun p => p.2.isNone)).length + 1 ∧
      (tombstone ls k).find? (fun p => p.1 == k) = some (k, none) := by
  induction ls with
  | nil => simp at ho
  | cons hd tl ih =>
    obtain ⟨k', o⟩ := hd
    simp only [List.map_cons, List.nodup_cons] at hn
    cases o with
    | none =>
      simp only [List.filter_cons, Option.isSome_none, Bool.false_eq_true, if_false] at ho
      have hk : k ∈ tl.map (·.1) := liveKeys_subset_keys (by rw [ho]; exact List.mem_cons_self)
      have hne' : k' ≠ k := fun e : k' = k => hn.1 (e ▸ hk)
      have hne : (k' == k) = false := by simpa using hne'
      obtain ⟨v, h1, h2, h3, h4, h5⟩ := ih hn.2 ho
      rw [tombstone_cons_ne (hd := (k', none)) tl hne']
      refine ⟨v, ?_, ?_, ?_, ?_, ?_⟩
      · simp [List.find?_cons, hne, h1]
      · simpa using h2
      · simpa using h3
      · simp [h4]
      · simpa [List.find?_cons, hne] using h5
    | some v =>
      simp only [List.filter_cons, Option.isSome_some, if_true, List.map_cons, List.cons.injEq] at ho
      obtain ⟨rfl, ho⟩ := ho
      have ht := tombstone_of_not_mem hn.1
      rw [tombstone_cons_eq, ht]
      exact ⟨v, by simp [List.find?_cons], by simp [ho], by simp, by simp, by simp [List.find?_cons]⟩

/-! ### `init` -/

theorem insertRaw_fresh {ls : List (StorageKey × Option α)} {k : StorageKey} (v : α)
    (h : k ∉ ls.map (·.1)) : insertRaw ls k v = ls ++ [(k, some v)] := by
  unfold insertRaw
  have : ls.any (fun p => p.1 == k) = false := by
    rw [List.any_eq_false]
    intro p hp e
    exact h (List.mem_map.2 ⟨p, hp, by simpa using e⟩)
  simp [this]

theorem init_fresh (m : StorageMap α) (k : StorageKey) (v : α) (h : k ∉ m.keys) :
    m.init k v = .ok { locals := m.locals ++ [(k, some v)], order := m.order ++ [k] } := by
  unfold init
  rw [(lookup_eq_none_iff m k).2 h]
  simp [insertRaw_fresh v h]

theorem init_present (m : StorageMap α) (k : StorageKey) (v : α) (h : k ∈ m.keys) :
    m.init k v = .error "cannot reinitialize a storage slot" := by
  unfold init
  cases hl : m.lookup k with
  | none => exact absurd h ((lookup_eq_none_iff m k).1 hl)
  | some _ => rfl

theorem init_ok_iff (m : StorageMap α) (k : StorageKey) (v : α) :
    (∃ m', m.init k v = .ok m') ↔ k ∉ m.keys := by
  constructor
  · rintro ⟨m', h⟩ hk; rw [init_present m k v hk] at h; cases h
  · intro h; exact ⟨_, init_fresh m k v h⟩

/-- the state after `init` of a fresh key -/
def pushed (m : StorageMap α) (k : StorageKey) (v : α) : StorageMap α :=
  { locals := m.locals ++ [(k, some v)], order := m.order ++ [k] }

@[simp] theorem pushed_keys (m : StorageMap α) (k : StorageKey) (v : α) :
    (m.pushed k v).keys = m.keys ++ [k] := by simp [pushed, keys]
@[simp] theorem pushed_liveKeys (m : StorageMap α) (k : StorageKey) (v : α) :
    (m.pushed k v).liveKeys = m.liveKeys ++ [k] := by simp [pushed, liveKeys]
@[simp] theorem pushed_liveVals (m : StorageMap α) (k : StorageKey) (v : α) :
    (m.pushed k v).liveVals = m.liveVals ++ [v] := by simp [pushed, liveVals, List.filterMap_append]
@[simp] theorem pushed_tombstones (m : StorageMap α) (k : StorageKey) (v : α) :
    (m.pushed k v).tombstones = m.tombstones := by simp [pushed, tombstones, List.filter_append]
@[simp] theorem pushed_order (m : StorageMap α) (k : StorageKey) (v : α) :
    (m.pushed k v).order = m.order ++ [k] := rfl

theorem pushed_wf {m : StorageMap α} (h : m.WF) {k : StorageKey} (v : α) (hk : k ∉ m.keys) :
    (m.pushed k v).WF := by
  refine ⟨?_, ?_⟩
  · rw [pushed_keys]
    exact List.nodup_append.2 ⟨h.nodup, by simp, by
      intro a ha b hb; simp at hb; subst hb; exact fun e => hk (e ▸ ha)⟩
  · rw [pushed_liveKeys, pushed_order, h.order_eq]

theorem lookup_pushed_self (m : StorageMap α) (k : StorageKey) (v : α) (hk : k ∉ m.keys) :
    (m.pushed k v).lookup k = some (some v) := by
  unfold lookup pushed
  simp only [List.find?_append, find_none_of_not_mem hk]
  simp

theorem lookup_pushed_of_mem (m : StorageMap α) (k k' : StorageKey) (v : α) (hk : k' ∈ m.keys) :
    (m.pushed k v).lookup k' = m.lookup k' := by
  unfold lookup pushed
  simp only [List.find?_append]
  cases hf : m.locals.find? (fun p => p.1 == k') with
  | some p => simp
  | none => exact absurd hk ((lookup_eq_none_iff m k').1 (by simp [lookup, hf]))

theorem new_wf : (new : StorageMap α).WF := ⟨by simp [new, keys], by simp [new, liveKeys]⟩

/-! ### `pop` -/

theorem pop_empty_iff (m : StorageMap α) : m.pop = .empty ↔ m.order = [] := by
  unfold pop
  cases m.order with
  | nil => simp
  | cons k rest =>
    simp only [reduceCtorEq, iff_false]
    cases m.lookup k with
    | none => simp
    | some o => cases o <;> simp

/-- under the representation invariant `pop` never hits its `expect`s; it returns the oldest live value and
leaves a tombstone -/
theorem pop_wf {m : StorageMap α} (h : m.WF) {k : StorageKey} {rest : List StorageKey}
    (ho : m.order = k :: rest) :
    ∃ v m', m.pop = .popped v m' ∧ m'.WF ∧ m'.order = rest ∧ m'.keys = m.keys ∧
      m.liveVals = v :: m'.liveVals ∧ m'.tombstones = m.tombstones + 1 ∧
      m.lookup k = some (some v) ∧ m'.lookup k = some none ∧
      m'.locals = tombstone m.locals k := by
  have ho' : (m.locals.filter (fun p => p.2.isSome)).map (·.1) = k :: rest := by
    have := h.order_eq; rw [ho] at this; exact this.symm
  obtain ⟨v, h1, h2, h3, h4, h5⟩ := pop_core h.nodup ho'
  refine ⟨v, { locals := tombstone m.locals k, order := rest }, ?_, ⟨?_, ?_⟩, rfl, ?_, h3, h4, ?_, ?_, rfl⟩
  · unfold pop; rw [ho]; simp [lookup, h1]
  · simpa [keys, tombstone_keys] using h.nodup
  · simp [liveKeys, h2]
  · simp [keys, tombstone_keys]
  · simp [lookup, h1]
  · simp [lookup, h5]

/-- a tombstone stays a tombstone under `tombstone` of any key -/
theorem lookup_tombstone_none {ls : List (StorageKey × Option α)} {k k' : StorageKey}
    (h : (ls.find? (fun p => p.1 == k')).map (·.2) = some none) :
    ((tombstone ls k).find? (fun p => p.1 == k')).map (·.2) = some none := by
  induction ls with
  | nil => simp at h
  | cons hd tl ih =>
    obtain ⟨k0, o⟩ := hd
    by_cases e2 : k0 = k
    · subst e2
      rw [tombstone_cons_eq]
      by_cases e : k0 = k'
      · subst e; simp [List.find?_cons]
      · have e' : (k0 == k') = false := by simpa using e
        simp only [List.find?_cons, e'] at h ⊢
        exact ih h
    · rw [tombstone_cons_ne (hd := (k0, o)) tl e2]
      by_cases e : k0 = k'
      · subst e
        simp only [List.find?_cons, beq_self_eq_true] at h ⊢
        exact h
      · have e' : (k0 == k') = false := by simpa using e
        simp only [List.find?_cons, e'] at h ⊢
        exact ih h

end StorageMap

/-! ### `try_with` -/

open StorageMap

/-- `LocalKey::try_with` never panics on a well-formed map; it either leaves the map unchanged (the key was
initialised before: live → the stored value, tombstone → `AccessError`) or initialises the fresh key at the
end of the destruction order -/
theorem tryWith_spec {α : Type} {m : StorageMap α} (h : m.WF) (k : StorageKey) (v : α) :
    (k ∉ m.keys ∧ tryWith m k v = .ok (.ok v, m.pushed k v)) ∨
    (k ∈ m.keys ∧ ((∃ x, m.lookup k = some (some x) ∧ tryWith m k v = .ok (.ok x, m)) ∨
                   (m.lookup k = some none ∧ tryWith m k v = .ok (.error .accessError, m)))) := by
  by_cases hk : k ∈ m.keys
  · right
    refine ⟨hk, ?_⟩
    cases hl : m.lookup k with
    | none => exact absurd hk ((lookup_eq_none_iff m k).1 hl)
    | some o =>
      cases o with
      | none => right; simp [tryWith, StorageMap.get, hl]
      | some x => left; exact ⟨x, rfl, by simp [tryWith, StorageMap.get, hl]⟩
  · left
    refine ⟨hk, ?_⟩
    have hg : m.get k = none := (get_eq_none_iff m k).2 hk
    have hi : m.init k v = .ok (m.pushed k v) := init_fresh m k v hk
    have hl := lookup_pushed_self m k v hk
    have hg' : (m.pushed k v).get k = some (.ok v) := by simp [StorageMap.get, hl]
    unfold tryWith
    rw [hg]
    simp only [hi, hg']

theorem tryWith_no_panic {α : Type} {m : StorageMap α} (h : m.WF) (k : StorageKey) (v : α) :
    ∃ r m', tryWith m k v = .ok (r, m') ∧ m'.WF := by
  rcases tryWith_spec h k v with ⟨hk, e⟩ | ⟨_, ⟨x, _, e⟩ | ⟨_, e⟩⟩
  · exact ⟨_, _, e, pushed_wf h v hk⟩
  · exact ⟨_, _, e, h⟩
  · exact ⟨_, _, e, h⟩

/-! ### the destructor loop -/

/-- how one sequence of `try_with` accesses changes a map: it appends freshly initialised slots -/
structure Grows {α : Type} (K : List StorageKey) (m m' : StorageMap α) : Prop where
  wf : m'.WF
  keys : ∃ ks, m'.keys = m.keys ++ ks ∧ ∀ k ∈ ks, k ∈ K
  vals : ∃ vs, m'.liveVals = m.liveVals ++ vs
  tomb : m'.tombstones = m.tombstones
  /-- tombstones are never resurrected -/
  dead : ∀ k, m.lookup k = some none → m'.lookup k = some none

theorem Grows.refl {α : Type} (K : List StorageKey) {m : StorageMap α} (h : m.WF) : Grows K m m :=
  ⟨h, ⟨[], by simp, by simp⟩, ⟨[], by simp⟩, rfl, fun _ h => h⟩

theorem Grows.trans {α : Type} {K : List StorageKey} {a b c : StorageMap α} (h1 : Grows K a b) (h2 : Grows K b c) :
    Grows K a c := by
  obtain ⟨ks1, e1, m1⟩ := h1.keys
  obtain ⟨ks2, e2, m2⟩ := h2.keys
  obtain ⟨vs1, v1⟩ := h1.vals
  obtain ⟨vs2, v2⟩ := h2.vals
  refine ⟨h2.wf, ⟨ks1 ++ ks2, by rw [e2, e1, List.append_assoc], ?_⟩, ⟨vs1 ++ vs2, by rw [v2, v1, List.append_assoc]⟩,
    by rw [h2.tomb, h1.tomb], fun k hk => h2.dead k (h1.dead k hk)⟩
  intro k hk
  rcases List.mem_append.1 hk with hk | hk
  · exact m1 k hk
  · exact m2 k hk

theorem Grows.pushed {α : Type} {K : List StorageKey} {m : StorageMap α} (h : m.WF) {k : StorageKey} (v : α)
    (hk : k ∉ m.keys) (hK : k ∈ K) : Grows K m (m.pushed k v) := by
  refine ⟨pushed_wf h v hk, ⟨[k], by simp, by simpa using hK⟩, ⟨[v], by simp⟩, by simp, ?_⟩
  intro k' hk'
  have : k' ∈ m.keys := by
    apply Classical.byContradiction
    intro hn; rw [(lookup_eq_none_iff m k').2 hn] at hk'; cases hk'
  rw [lookup_pushed_of_mem m k k' v this]; exact hk'

/-- the termination measure of the destructor loop: keys of `K` not yet initialised + live slots -/
def measure {α : Type} (K : List StorageKey) (m : StorageMap α) : Nat :=
  (K.filter (fun k => !m.keys.contains k)).length + m.order.length

theorem filter_length_le {β : Type} (p q : β → Bool) (h : ∀ x, q x = true → p x = true) (l : List β) :
    (l.filter q).length ≤ (l.filter p).length := by
  induction l with
  | nil => simp
  | cons b l ih =>
    simp only [List.filter_cons]
    cases hq : q b with
    | false => cases hp : p b <;> simp <;> omega
    | true => simp [h b hq]; exact ih

theorem filter_length_lt {β : Type} (p q : β → Bool) (h : ∀ x, q x = true → p x = true) {l : List β} {k : β}
    (hk : k ∈ l) (hp : p k = true) (hq : q k = false) : (l.filter q).length < (l.filter p).length := by
  induction l with
  | nil => simp at hk
  | cons b l ih =>
    simp only [List.filter_cons]
    rcases List.mem_cons.1 hk with e | e
    · subst e
      have := filter_length_le p q h l
      simp [hp, hq]; omega
    · have := ih e
      cases hqb : q b with
      | false => cases hpb : p b <;> simp <;> omega
      | true => simp [h b hqb]; exact this

theorem filter_fresh_lt {K : List StorageKey} {ks : List StorageKey} {k : StorageKey} (hK : k ∈ K) (hk : k ∉ ks) :
    (K.filter (fun x => !(ks ++ [k]).contains x)).length < (K.filter (fun x => !ks.contains x)).length := by
  apply filter_length_lt _ _ _ hK
  · simpa using hk
  · simp
  · intro x; simp; intro a _; exact a

theorem measure_pushed {α : Type} {K : List StorageKey} (m : StorageMap α) {k : StorageKey} (v : α)
    (hk : k ∉ m.keys) (hK : k ∈ K) : measure K (m.pushed k v) ≤ measure K m := by
  unfold measure
  rw [pushed_keys, pushed_order]
  have := filter_fresh_lt hK hk
  simp only [List.length_append, List.length_cons, List.length_nil]
  omega

theorem runAccesses_spec {α : Type} {K : List StorageKey} (l : List (StorageKey × α)) :
    ∀ {m : StorageMap α}, m.WF → (∀ p ∈ l, p.1 ∈ K) →
      ∃ m', runAccesses m l = .ok m' ∧ Grows K m m' ∧ measure K m' ≤ measure K m := by
  induction l with
  | nil => intro m h _; exact ⟨m, rfl, Grows.refl K h, Nat.le_refl _⟩
  | cons p rest ih =>
    intro m h hK
    obtain ⟨k, v⟩ := p
    have hk : k ∈ K := hK (k, v) List.mem_cons_self
    have hrest : ∀ p ∈ rest, p.1 ∈ K := fun p hp => hK p (List.mem_cons_of_mem _ hp)
    rcases tryWith_spec h k v with ⟨hfresh, e⟩ | ⟨_, ⟨x, _, e⟩ | ⟨_, e⟩⟩
    · obtain ⟨m', e', g, le⟩ := ih (pushed_wf h v hfresh) hrest
      refine ⟨m', by simp [runAccesses, e, e'], (Grows.pushed h v hfresh hk).trans g, ?_⟩
      exact Nat.le_trans le (measure_pushed m v hfresh hk)
    · obtain ⟨m', e', g, le⟩ := ih h hrest
      exact ⟨m', by simp [runAccesses, e, e'], g, le⟩
    · obtain ⟨m', e', g, le⟩ := ih h hrest
      exact ⟨m', by simp [runAccesses, e, e'], g, le⟩

/-- `init` of a list of `(key, value)` pairs, in order -/
def initAll {α : Type} : StorageMap α → List (StorageKey × α) → Except String (StorageMap α)
  | m, [] => .ok m
  | m, (k, v) :: rest =>
    match m.init k v with
    | .error e => .error e
    | .ok m' => initAll m' rest

theorem initAll_spec {α : Type} (kvs : List (StorageKey × α)) :
    ∀ {m : StorageMap α}, m.WF → (m.keys ++ kvs.map (·.1)).Nodup →
      ∃ m', initAll m kvs = .ok m' ∧ m'.WF ∧ m'.keys = m.keys ++ kvs.map (·.1) ∧
        m'.liveVals = m.liveVals ++ kvs.map (·.2) ∧ m'.tombstones = m.tombstones := by
  induction kvs with
  | nil => intro m h _; exact ⟨m, rfl, h, by simp, by simp, rfl⟩
  | cons p rest ih =>
    intro m h hn
    obtain ⟨k, v⟩ := p
    have hk : k ∉ m.keys := by
      intro hk
      have := (List.nodup_append.1 hn).2.2 k hk k (by simp)
      exact this rfl
    have hi : m.init k v = .ok (m.pushed k v) := init_fresh m k v hk
    obtain ⟨m', e, wf, ks, vs, ts⟩ := ih (pushed_wf h v hk) (by simpa using hn)
    exact ⟨m', by simp [initAll, hi, e], wf, by simp [ks], by simp [vs], by simp [ts]⟩

theorem keys_length {α : Type} (m : StorageMap α) : m.keys.length = m.tombstones + m.liveVals.length := by
  unfold keys tombstones liveVals
  induction m.locals with
  | nil => rfl
  | cons hd tl ih =>
    obtain ⟨k, o⟩ := hd
    cases o <;> simp [List.filter_cons] at ih ⊢ <;> omega

/-- what the destructor loop guarantees when it is given enough fuel -/
structure DrainSpec {α : Type} (K : List StorageKey) (m : StorageMap α) (acc : List α) (r : DrainRes α) : Prop where
  completed : r.completed = true
  noPanic : r.panic = none
  wf : r.final.WF
  /-- nothing is left alive: every slot ever initialised is a tombstone -/
  drained : r.final.order = [] ∧ r.final.liveVals = []
  /-- one destructor run per value ever initialised: the slots that were alive at the start, plus every
  slot a destructor initialised -/
  count : r.dropped.length + m.tombstones = acc.length + r.final.keys.length
  /-- the values alive at the start are dropped first, in initialisation order, then the late ones -/
  order : ∃ late, r.dropped = acc.reverse ++ m.liveVals ++ late
  keys : ∃ ks, r.final.keys = m.keys ++ ks ∧ ∀ k ∈ ks, k ∈ K
  dead : ∀ k, m.lookup k = some none → r.final.lookup k = some none

theorem liveVals_nil_of_order_nil {α : Type} {m : StorageMap α} (h : m.WF) (ho : m.order = []) :
    m.liveVals = [] ∧ m.tombstones = m.keys.length := by
  have h1 : m.liveKeys = [] := by rw [← h.order_eq, ho]
  unfold liveKeys at h1
  have h2 : m.locals.filter (fun p => p.2.isSome) = [] := by simpa using h1
  rw [List.filter_eq_nil_iff] at h2
  constructor
  · unfold liveVals
    rw [List.filterMap_eq_nil_iff]
    intro p hp
    have := h2 p hp
    cases hv : p.2 with
    | none => rfl
    | some v => simp [hv] at this
  · unfold tombstones keys
    rw [List.length_map]
    congr 1
    rw [List.filter_eq_self]
    intro p hp
    have := h2 p hp
    cases hv : p.2 with
    | none => rfl
    | some v => simp [hv] at this

theorem drain_spec {α : Type} {K : List StorageKey} (dtor : α → List (StorageKey × α))
    (hK : ∀ v, ∀ p ∈ dtor v, p.1 ∈ K) :
    ∀ (fuel : Nat) (m : StorageMap α) (acc : List α), m.WF → measure K m < fuel →
      DrainSpec K m acc (drain dtor fuel m acc) := by
  intro fuel
  induction fuel with
  | zero => intro m acc _ hlt; omega
  | succ fuel ih =>
    intro m acc h hlt
    cases ho : m.order with
    | nil =>
      have hp : m.pop = .empty := (pop_empty_iff m).2 ho
      have hv := liveVals_nil_of_order_nil h ho
      unfold drain; rw [hp]
      exact ⟨rfl, rfl, h, ⟨ho, hv.1⟩, by simp [hv.2], ⟨[], by simp [hv.1]⟩, ⟨[], by simp⟩, fun _ h => h⟩
    | cons k rest =>
      obtain ⟨v, m', hp, hwf', ho', hk', hv', ht', hl, hl', hloc⟩ := pop_wf h ho
      obtain ⟨m'', hr, g, hle⟩ := runAccesses_spec (K := K) (dtor v) hwf' (hK v)
      have hm' : measure K m' + 1 = measure K m := by
        unfold measure; rw [hk', ho', ho]; simp; omega
      have ih' := ih m'' (v :: acc) g.wf (by omega)
      unfold drain; rw [hp]; simp only [hr]
      obtain ⟨ks, eks, mks⟩ := g.keys
      obtain ⟨vs, evs⟩ := g.vals
      obtain ⟨late, elate⟩ := ih'.order
      obtain ⟨ks2, eks2, mks2⟩ := ih'.keys
      refine ⟨ih'.completed, ih'.noPanic, ih'.wf, ih'.drained, ?_, ⟨vs ++ late, ?_⟩, ⟨ks ++ ks2, ?_, ?_⟩, ?_⟩
      · have := ih'.count
        rw [g.tomb, ht'] at this
        simp only [List.length_cons] at this
        omega
      · rw [elate, evs, hv']; simp
      · rw [eks2, eks, hk', List.append_assoc]
      · intro k hk
        rcases List.mem_append.1 hk with hk | hk
        · exact mks k hk
        · exact mks2 k hk
      · intro k0 hk0
        apply ih'.dead; apply g.dead
        unfold lookup at hk0 ⊢
        rw [hloc]
        exact lookup_tombstone_none hk0

end Storage
end ShuttleModel
