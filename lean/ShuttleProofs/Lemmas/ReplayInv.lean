import ShuttleProofs.Lemmas.ReplaySim
/-!
# Replay lemmas, part 3: invariants relating the scheduler's state to the event log

`LogInv S J`: the relation `J s log` between a scheduler state and the event log is preserved by every answered
consultation (which appends the `dec` event), every successful draw (which appends the `draw` event) and by
observations.  `execute_logInv`: then `J` holds at the end of every execution that did not end with a scheduler
panic.  Used for: the data stream of the built-in schedulers (`DataFaithful`) and the recording made by the
uncontrolled-nondeterminism checker.
-/

namespace ShuttleProofs.Replay
open ShuttleModel ShuttleProofs.Kernel

variable {P : Program} {σ : Type}

structure LogInv (S : Scheduler σ) (J : σ → List Ev → Prop) : Prop where
  dec : ∀ s l views cur y ch s1, J s l → S.nextTask s views cur y = (.choose ch, s1) →
    J s1 (l ++ [.dec (views.map (·.id)) cur y ch])
  draw : ∀ s l v s1, J s l → S.nextU64 s = (.ok v, s1) → J s1 (l ++ [.draw v])
  obs : ∀ s l x, J s l → J s (l ++ [.obs x])

variable {S : Scheduler σ} {J : σ → List Ev → Prop}

theorem segStep_logInv (hJ : LogInv S J) {me : Nat} {β : Type} {o : KOp P.U β} {st st' : ExecState P σ}
    (h : SegStep S me o st st') (h0 : J st.sch st.log.toList) : J st'.sch st'.log.toList := by
  cases h with
  | nop _ _ _ => exact h0
  | setU _ _ u _ => exact h0
  | obs _ _ x _ => simpa using hJ.obs _ _ x h0
  | tasks _ _ ts _ _ => exact h0
  | yield _ => exact h0
  | reset _ => exact h0
  | rand _ v s' hn => simpa using hJ.draw _ _ v s' h0 hn
  | spawn _ _ _ => exact h0

theorem segTrace_logInv (hJ : LogInv S J) {me : Nat} {st : ExecState P σ} {p : Prog P.U Unit} {e : SegEnd P σ}
    (h : SegTrace S me st p e) (h0 : J st.sch st.log.toList) (hne : ∀ msg st', e ≠ .schedPanic msg st') :
    J e.st.sch e.st.log.toList := by
  induction h with
  | fuel st p => exact h0
  | ret st => exact h0
  | retPanicking st msg => exact h0
  | abort st msg => exact h0
  | unwind st msg pk apk e _ ih => exact ih h0 hne
  | halt o kont st e hh =>
    cases hh with
    | switch _ _ => exact h0
    | panicked _ _ _ msg => exact h0
    | randFail _ _ err s' _ => exact absurd rfl (hne _ _)
  | step o kont st st' b e hs _ ih => exact ih (segStep_logInv hJ hs h0) hne

theorem runLoop_logInv (hJ : LogInv S J) (segFuel fuel : Nat) {ms : MaxSteps} (st : ExecState P σ)
    (hi : LoopInv ms st) (h0 : J st.sch st.log.toList)
    (hne : ∀ msg, (runLoop S segFuel fuel st).outcome ≠ .schedPanic msg) :
    J (runLoop S segFuel fuel st).st.sch (runLoop S segFuel fuel st).st.log.toList := by
  refine runLoop_induct (S := S) (segFuel := segFuel)
    (fun a => LoopInv ms a ∧ J a.sch a.log.toList)
    (fun r => (∀ msg, r.outcome ≠ .schedPanic msg) → J r.st.sch r.st.log.toList)
    ?_ ?_ ?_ fuel st ⟨hi, h0⟩ hne
  · rintro a b ⟨hia, hja⟩ hab
    refine ⟨hia.step hab, ?_⟩
    obtain ⟨t, s', p, e, _, hask, _, _, _, htr, hend, ts, _, rfl⟩ := iter_inr hia.next hia.conts hab
    have h1 : J (segStart a t s').sch (segStart a t s').log.toList := by
      have := hJ.dec _ _ _ _ _ _ _ hja hask
      rw [views_ids] at this
      simpa [segStart, decEv] using this
    exact segTrace_logInv hJ htr h1 (by
      intro msg st' he
      rcases hend with h | h <;> rw [he] at h <;> cases h)
  · rintro a r ⟨hia, hja⟩ har hner
    have hf := loopStep_inl_final hia har
    cases hf with
    | loopFuel => exact hja
    | boundFail n h1 h2 => exact hja
    | boundStop n h1 h2 => exact hja
    | deadlock h1 h2 h3 => exact hja
    | ok h1 h2 h3 => exact hja
    | schedPanic msg s' h1 h2 => exact absurd rfl (hner msg)
    | choseBad t msg s' h1 h2 h3 => exact absurd rfl (hner msg)
    | choseNone s' h1 hask =>
      have := hJ.dec _ _ _ _ _ _ _ hja hask
      rw [views_ids] at this
      simpa [decEv] using this
    | seg t s' p r' h1 hask h3 h4 h5 =>
      have h1 : J (segStart a t s').sch (segStart a t s').log.toList := by
        have := hJ.dec _ _ _ _ _ _ _ hja hask
        rw [views_ids] at this
        simpa [segStart, decEv] using this
      obtain ⟨hst, _, _⟩ := finishSeg_inl h5
      rw [hst]
      refine segTrace_logInv hJ (runSegment_trace S t segFuel (segStart a t s') p) h1 ?_
      intro msg st' he
      rw [he] at h5
      simp only [finishSeg, Sum.inl.injEq] at h5
      exact hner msg (by rw [← h5])
  · rintro a ⟨_, hja⟩ _
    exact hja

theorem execute_logInv (hJ : LogInv S J) (P : Program) (ms : MaxSteps) (seed : Nat) (s : σ) (fuel segFuel : Nat)
    (h0 : J s []) (hne : ∀ msg, (execute P S ms seed s fuel segFuel).outcome ≠ .schedPanic msg) :
    J (execute P S ms seed s fuel segFuel).st.sch (execute P S ms seed s fuel segFuel).st.log.toList := by
  rw [execute_eq] at hne ⊢
  exact runLoop_logInv hJ segFuel fuel (initState P ms seed s) (LoopInv.init P ms seed s)
    (by simpa [initState] using h0) hne

/-! ### schedulers that never cause a scheduler panic -/

/-- `next_task` always answers (with `None` or one of the tasks it was shown) when shown a non-empty list, and
`next_u64` never panics -/
structure WellBehaved (S : Scheduler σ) : Prop where
  task : ∀ s views cur y, views ≠ [] → ∃ ch s1, S.nextTask s views cur y = (.choose ch, s1) ∧
    ∀ t, ch = some t → t ∈ views.map (·.id)
  draw : ∀ s, ∃ v s1, S.nextU64 s = (.ok v, s1)

theorem segTrace_not_schedPanic (hW : WellBehaved S) {me : Nat} {st : ExecState P σ} {p : Prog P.U Unit}
    {e : SegEnd P σ} (h : SegTrace S me st p e) : ∀ msg st', e ≠ .schedPanic msg st' := by
  induction h with
  | fuel st p => intro _ _ h; cases h
  | ret st => intro _ _ h; cases h
  | retPanicking st msg => intro _ _ h; cases h
  | abort st msg => intro _ _ h; cases h
  | unwind st msg pk apk e _ ih => exact ih
  | halt o kont st e hh =>
    cases hh with
    | switch _ _ => intro _ _ h; cases h
    | panicked _ _ _ msg => intro _ _ h; cases h
    | randFail _ _ err s' hn =>
      obtain ⟨v, s1, hv⟩ := hW.draw st.sch
      rw [hv] at hn; cases hn
  | step o kont st st' b e hs _ ih => exact ih

/-- a well-behaved scheduler never makes an execution end with a scheduler panic -/
theorem execute_not_schedPanic (hW : WellBehaved S) (P : Program) (ms : MaxSteps) (seed : Nat) (s : σ)
    (fuel segFuel : Nat) : ∀ msg, (execute P S ms seed s fuel segFuel).outcome ≠ .schedPanic msg := by
  obtain ⟨stf, _, _, hf⟩ := execute_final P S ms seed s fuel segFuel
  have hviews : ∀ (k : Kernel), Consults k → (atConsult k).views k.offered ≠ [] := by
    intro k hc hnil
    have := views_ids k
    rw [hnil] at this
    exact offered_ne_nil_of_anyRunnable hc.anyRunnable this.symm
  generalize execute P S ms seed s fuel segFuel = r at hf
  intro msg hr
  cases hf with
  | loopFuel => cases hr
  | boundFail n h1 h2 => cases hr
  | boundStop n h1 h2 => cases hr
  | deadlock h1 h2 h3 => cases hr
  | ok h1 h2 h3 => cases hr
  | schedPanic m s' hc hask =>
    obtain ⟨ch, s1, h1, _⟩ := hW.task stf.sch _ stf.k.current.id stf.k.hasYielded (hviews _ hc)
    unfold ask at hask
    rw [h1] at hask; cases hask
  | choseBad t m s' hc hask hmem =>
    obtain ⟨ch, s1, h1, h2⟩ := hW.task stf.sch _ stf.k.current.id stf.k.hasYielded (hviews _ hc)
    unfold ask at hask
    rw [h1] at hask
    simp only [Prod.mk.injEq, SchedAns.choose.injEq] at hask
    have := h2 t hask.1
    rw [views_ids] at this
    exact hmem this
  | choseNone s' h1 h2 => cases hr
  | seg t s' p r' h1 h2 h3 h4 h5 =>
    obtain ⟨_, _, h6⟩ := finishSeg_inl h5
    exact h6 (segTrace_not_schedPanic hW (runSegment_trace S t segFuel (segStart stf t s') p)) msg hr

end ShuttleProofs.Replay
