import ShuttleProofs.Lemmas.ReplaySim
import ShuttleModel.Sched.Replay
/-!
# Replay lemmas, part 2: the `ReplayScheduler` follows the log whose projection it was given

`RR sch _ evs rs`: the replay state `rs` (replaying `sch`, no `allow_incomplete`, no target clock) has consumed a
prefix of `sch.steps`, what is left is exactly the projection `logSteps evs` of the events still to come, none of
those is a consultation answered `None`, and its data source will produce exactly the draws among `evs`.
`replay_follows`: `Follows S replayScheduler.sched (RR sch)` for every scheduler `S`.
-/

namespace ShuttleProofs.Replay
open ShuttleModel ShuttleModel.Replay ShuttleProofs.Kernel

/-- the values of the `draw` events -/
def draws : List Ev → List Nat
  | [] => []
  | .draw v :: evs => v :: draws evs
  | _ :: evs => draws evs

/-- the data source `d` produces the values `vs`, in order -/
def DrawsFrom (d : Rng.RandomDataSource) : List Nat → Prop
  | [] => True
  | v :: vs => d.nextU64.1 = v ∧ DrawsFrom d.nextU64.2 vs

/-- the data source of an execution whose schedule seed is `seed`:
`RandomDataSource::initialize(seed)` followed by `reinitialize()` -/
def seededSource (seed : Nat) : Rng.RandomDataSource := (Rng.RandomDataSource.initialize seed).reinitialize.2

/-- **`DataFaithful`**: every `Ev.draw v` of the log, in order, is the corresponding output of the
`RandomDataSource` stream of `seed`. -/
def DataFaithful (seed : Nat) (log : List Ev) : Prop := DrawsFrom (seededSource seed) (draws log)

/-- no consultation among `evs` was answered `None` -/
def NoNone (evs : List Ev) : Prop := ∀ ev ∈ evs, ∀ o c y, ev ≠ .dec o c y none

theorem NoNone.tail {ev : Ev} {evs : List Ev} (h : NoNone (ev :: evs)) : NoNone evs :=
  fun e he => h e (List.mem_cons_of_mem _ he)

theorem reinitialize_initialize (seed : Nat) :
    (Rng.RandomDataSource.initialize seed).reinitialize =
      (seed, { rng := Rng.seedFromU64 seed, nextSeed := none }) := rfl

structure RR {σ : Type} (sch : Schedule) (_s : σ) (evs : List Ev) (rs : ReplayState) : Prop where
  schedule : rs.schedule = sch
  allow : rs.allowIncomplete = false
  target : rs.targetClock = none
  skipped : rs.stepsSkipped = 0
  started : rs.started = true
  le : rs.steps ≤ sch.steps.length
  rest : sch.steps.drop rs.steps = (logSteps evs).map ofSStep
  noNone : NoNone evs
  data : DrawsFrom rs.data (draws evs)

theorem getElem?_of_drop_eq_cons {α : Type} {l : List α} {n : Nat} {x : α} {r : List α}
    (h : l.drop n = x :: r) : l[n]? = some x ∧ l.drop (n + 1) = r ∧ n + 1 ≤ l.length := by
  have h1 : (l.drop n)[0]? = some x := by rw [h]; rfl
  rw [List.getElem?_drop] at h1
  have h2 : l.drop (n + 1) = r := by
    have : l.drop (n + 1) = (l.drop n).tail := by rw [List.tail_drop]
    rw [this, h]; rfl
  refine ⟨by simpa using h1, h2, ?_⟩
  have : n < l.length := by
    rcases Nat.lt_or_ge n l.length with h3 | h3
    · exact h3
    · rw [List.drop_eq_nil_of_le h3] at h; cases h
  omega

theorem find_of_mem_ids {views : List TaskView} {t : Nat} (h : t ∈ views.map (·.id)) :
    ∃ task, views.find? (fun v => v.id == t) = some task := by
  induction views with
  | nil => cases h
  | cons v vs ih =>
    simp only [List.find?_cons]
    by_cases hv : (v.id == t) = true
    · rw [hv]; exact ⟨v, rfl⟩
    · have hv' : (v.id == t) = false := by simpa using hv
      rw [hv']
      simp only [List.map_cons, List.mem_cons] at h
      rcases h with h | h
      · subst h; simp at hv'
      · exact ih h

/-- **The replay scheduler follows the log it was built from.** -/
theorem replay_follows {σ : Type} (S : Scheduler σ) (sch : Schedule) :
    Follows S replayScheduler.sched (RR (σ := σ) sch) where
  dec := by
    intro s rs views off cur y ch evs s1 hR hv hmem _
    cases ch with
    | none => exact absurd rfl (hR.noNone _ (List.mem_cons_self ..) off cur y)
    | some t =>
      have hrest := hR.rest
      simp only [logSteps, List.flatMap_cons, evSteps, List.cons_append, List.nil_append, List.map_cons, ofSStep]
        at hrest
      obtain ⟨hget, hdrop, hle⟩ := getElem?_of_drop_eq_cons hrest
      obtain ⟨task, hfind⟩ := find_of_mem_ids (t := t) (by rw [hv]; exact hmem t rfl)
      refine ⟨{ rs with steps := rs.steps + 1 }, ?_, ?_⟩
      · show Replay.nextTask rs views cur y = _
        unfold Replay.nextTask
        have hf : rs.schedule.steps.length + 1 - rs.steps = (rs.schedule.steps.length - rs.steps) + 1 := by
          rw [hR.schedule]; omega
        rw [hf, nextTaskLoop]
        rw [hR.schedule, hget]
        simp only [hfind, hR.target]
      · exact ⟨hR.schedule, hR.allow, hR.target, hR.skipped, hR.started, hle, hdrop, hR.noNone.tail, hR.data⟩
  draw := by
    intro s rs v evs s1 hR _
    have hrest := hR.rest
    simp only [logSteps, List.flatMap_cons, evSteps, List.cons_append, List.nil_append, List.map_cons, ofSStep]
      at hrest
    obtain ⟨hget, hdrop, hle⟩ := getElem?_of_drop_eq_cons hrest
    have hd := hR.data
    simp only [draws, DrawsFrom] at hd
    refine ⟨{ rs with steps := rs.steps + 1, data := rs.data.nextU64.2 }, ?_, ?_⟩
    · show Replay.nextU64 rs = _
      unfold Replay.nextU64
      rw [hR.schedule, hget]
      simp only [hd.1]
    · exact ⟨hR.schedule, hR.allow, hR.target, hR.skipped, hR.started, hle, hdrop, hR.noNone.tail, hd.2⟩
  obs := by
    intro s rs x evs hR
    exact ⟨hR.schedule, hR.allow, hR.target, hR.skipped, hR.started, hR.le,
      by simpa [logSteps, evSteps] using hR.rest, hR.noNone.tail, by simpa [draws] using hR.data⟩

/-- at the end of the followed log the cursor is exactly at the end of the schedule -/
theorem RR.exhausted {σ : Type} {sch : Schedule} {s : σ} {rs : ReplayState} (h : RR sch s [] rs) :
    rs.steps = sch.steps.length := by
  have h1 := h.rest
  simp only [logSteps, List.flatMap_nil, List.map_nil] at h1
  have h2 := h.le
  have : sch.steps.length ≤ rs.steps := by
    rcases Nat.lt_or_ge rs.steps sch.steps.length with h3 | h3
    · have := List.drop_eq_nil_iff.mp h1
      omega
    · exact h3
  omega

end ShuttleProofs.Replay
