import ShuttleProofs.Lemmas.DfsTree

/-! Single-step computation lemmas for `nextTask` / `descend`. -/

namespace ShuttleProofs.Dfs
open ShuttleModel.Dfs

abbrev APath := List (Nat × Bool)

/-- some level still has an unexplored sibling -/
def hasFalse (p : APath) : Bool := p.any (fun l => !l.2)

@[simp] theorem hasFalse_nil : hasFalse [] = false := rfl
@[simp] theorem hasFalse_cons (c : Nat) (f : Bool) (p : APath) :
    hasFalse ((c, f) :: p) = (!f || hasFalse p) := by simp [hasFalse]

theorem hasMoreChoices_eq (mi : Option Nat) (it : Nat) (pre p : APath) (st : Nat) :
    hasMoreChoices ⟨mi, it, pre ++ p, st⟩ pre.length = hasFalse p := by
  simp [hasMoreChoices, hasFalse]

/-- First visit of a level: take the first offered id. -/
theorem nextTask_first (mi : Option Nat) (it : Nat) (pre : APath) (c : Nat) (r : List Nat) :
    nextTask ⟨mi, it, pre, pre.length⟩ (c :: r)
      = .ok c ⟨mi, it, pre ++ [(c, r.isEmpty)], pre.length + 1⟩ := by
  simp [nextTask]
  cases r <;> simp

/-- Revisit with more work below: keep the choice. -/
theorem nextTask_keep (mi : Option Nat) (it : Nat) (pre p : APath) (c : Nat) (f : Bool)
    (runnable : List Nat) (h : hasFalse p = true) :
    nextTask ⟨mi, it, pre ++ (c, f) :: p, pre.length⟩ runnable
      = .ok c ⟨mi, it, pre ++ (c, f) :: p, pre.length + 1⟩ := by
  have hm : hasMoreChoices ⟨mi, it, pre ++ (c, f) :: p, pre.length⟩ (pre.length + 1) = true := by
    have := hasMoreChoices_eq mi it (pre ++ [(c, f)]) p pre.length
    simpa [h] using this
  simp [nextTask, hm]

/-- Revisit with nothing left below: move to the next sibling. -/
theorem nextTask_change (mi : Option Nat) (it : Nat) (pre p : APath) (c c2 : Nat)
    (r1 r2 : List Nat) (h : hasFalse p = false) (hc : c ∉ r1) :
    nextTask ⟨mi, it, pre ++ (c, false) :: p, pre.length⟩ (r1 ++ c :: c2 :: r2)
      = .ok c2 ⟨mi, it, pre ++ [(c2, r2.isEmpty)], pre.length + 1⟩ := by
  have hm : hasMoreChoices ⟨mi, it, pre ++ (c, false) :: p, pre.length⟩ (pre.length + 1) = false := by
    have := hasMoreChoices_eq mi it (pre ++ [(c, false)]) p pre.length
    simpa [h] using this
  have hpos : (r1 ++ c :: c2 :: r2).findIdx? (fun id => id == c) = some r1.length := by
    rw [List.findIdx?_append]
    have : r1.findIdx? (fun id => id == c) = none := by
      simp [List.findIdx?_eq_none_iff]; intro x hx hxc; exact hc (hxc ▸ hx)
    simp [this, List.findIdx?_cons]
  have hflag : (r1.length + 1 == r1.length + (r2.length + 1)) = r2.isEmpty := by
    cases r2 <;> simp
  have h1 : ¬ (List.length pre + (List.length p + 1) ≤ List.length pre) := by omega
  simp only [nextTask]
  simp [hm, hpos, hflag, h1]

end ShuttleProofs.Dfs
