import ShuttleProofs.Lemmas.ChanReach
import ShuttleProofs.Lemmas.ChanProgress
/-
  C06 — concrete histories (all checked by `decide`).
-/
namespace ShuttleModel.C06
open ShuttleModel

/-- `P` holds of the configuration reached by the labels `ls` from a fresh channel -/
def After (b : Option Nat) (ls : List Label) (P : Cfg → Prop) : Prop :=
  match runLabels (Cfg.init b) ls with
  | some c => P c
  | none => False

instance (b : Option Nat) (ls : List Label) (P : Cfg → Prop) [DecidablePred P] :
    Decidable (After b ls P) := by
  unfold After
  cases runLabels (Cfg.init b) ls <;> infer_instance

theorem After.reachable {b : Option Nat} {ls : List Label} {P : Cfg → Prop} (h : After b ls P) :
    ∃ c, Reachable b c ∧ P c := by
  unfold After at h
  split at h
  · rename_i c hc
    exact ⟨c, runLabels_reachable ls Reachable.init hc, h⟩
  · exact h.elim

/-- result of the first segment of `send` / `try_send` (`none` = it panics; `some none` = blocked) -/
def sendRes (s : ChanState) (me v : Nat) (cb : Bool) : Option (Option SendRes) :=
  match sendSeg1 s me v cb [] with
  | .ok (_, r, _) => some r
  | .error _ => none

theorem sendRes_eq {s : ChanState} {me v : Nat} {cb : Bool} {r : Option SendRes}
    (h : sendRes s me v cb = some r) : ∃ s' e, sendSeg1 s me v cb [] = .ok (s', r, e) := by
  unfold sendRes at h
  split at h
  · rename_i s' r' e heq
    simp at h; subst h; exact ⟨s', e, heq⟩
  · cases h

def recvRes (s : ChanState) (me : Nat) (cb : Bool) : Option (Option RecvRes) :=
  match recvSeg1 s me cb [] with
  | .ok (_, r, _) => some r
  | .error _ => none

theorem recvRes_eq {s : ChanState} {me : Nat} {cb : Bool} {r : Option RecvRes}
    (h : recvRes s me cb = some r) : ∃ s' e, recvSeg1 s me cb [] = .ok (s', r, e) := by
  unfold recvRes at h
  split at h
  · rename_i s' r' e heq
    simp at h; subst h; exact ⟨s', e, heq⟩
  · cases h

/-- result and unblocked tasks of the first segment of `recv` / `try_recv` -/
def recvResU (s : ChanState) (me : Nat) (cb : Bool) : Option (Option RecvRes × List Nat) :=
  match recvSeg1 s me cb [] with
  | .ok (_, r, e) => some (r, ubOf e)
  | .error _ => none

theorem recvResU_eq {s : ChanState} {me : Nat} {cb : Bool} {r : Option RecvRes} {u : List Nat}
    (h : recvResU s me cb = some (r, u)) :
    ∃ s' e, recvSeg1 s me cb [] = .ok (s', r, e) ∧ ubOf e = u := by
  unfold recvResU at h
  split at h
  · rename_i s' r' e heq
    simp at h; obtain ⟨rfl, rfl⟩ := h; exact ⟨s', e, heq, rfl⟩
  · cases h

/-- bounded(1): T0 `send 7` fills the buffer, T1 `send 8` blocks, T0 `recv` takes 7 and unblocks
T1 — T1 has not run yet: the buffer is EMPTY, yet `waiting_senders = [1]` -/
def hReserved : List Label :=
  [.sendStart 0 7 true [], .sendStart 1 8 true [], .recvStart 0 true []]

/-- rendezvous: T1 `send 8` finds no receiver and queues -/
def hRdvQueued : List Label := [.sendStart 1 8 true []]

/-- unbounded: T0 blocks in `recv`, then the only `Sender` is dropped while `should_stop()` -/
def hSkipped : List Label := [.recvStart 0 true [], .dropS true]

end ShuttleModel.C06
