import ShuttleProofs.Lemmas.SemTry
/-
  Running a list of client operations (used to exhibit concrete reachable states), and the two
  initial states.
-/
namespace ShuttleModel
namespace SemLts

/-- run the operations in order (same `fin` for every step); collects the effects of each step -/
def runOps (fin : Nat → Bool) : G → List SemOp → Except String (G × List (List Eff))
  | g, [] => .ok (g, [])
  | g, op :: ops =>
    match gstep fin g op with
    | .error e => .error e
    | .ok (g', _, effs) =>
      match runOps fin g' ops with
      | .error e => .error e
      | .ok (g'', es) => .ok (g'', effs :: es)

theorem runOps_reach {s0 : SemState} (fin : Nat → Bool) {g g' : G} {ops : List SemOp}
    {es : List (List Eff)} (hr : Reach s0 g) (h : runOps fin g ops = .ok (g', es)) : Reach s0 g' := by
  induction ops generalizing g es with
  | nil => simp only [runOps, Except.ok.injEq, Prod.mk.injEq] at h; rw [← h.1]; exact hr
  | cons op ops ih =>
    simp only [runOps] at h
    cases hs : gstep fin g op with
    | error e => rw [hs] at h; cases h
    | ok r =>
      obtain ⟨g1, out, effs⟩ := r
      rw [hs] at h
      simp only at h
      cases hro : runOps fin g1 ops with
      | error e => rw [hro] at h; cases h
      | ok r2 =>
        obtain ⟨g2, es2⟩ := r2
        rw [hro] at h
        simp only [Except.ok.injEq, Prod.mk.injEq] at h
        obtain ⟨h1, _⟩ := h
        subst h1
        exact ih (Reach.step hr hs) hro

/-- the state after running `ops` from `s0` (for concrete examples) -/
def finalOf (fin : Nat → Bool) (s0 : SemState) (ops : List SemOp) : G :=
  match runOps fin { s := s0 } ops with
  | .ok (g, _) => g
  | .error _ => { s := s0 }

/-- the effects of each step of the run -/
def effsOf (fin : Nat → Bool) (s0 : SemState) (ops : List SemOp) : List (List Eff) :=
  match runOps fin { s := s0 } ops with
  | .ok (_, es) => es
  | .error _ => []

def runOk (fin : Nat → Bool) (s0 : SemState) (ops : List SemOp) : Bool :=
  match runOps fin { s := s0 } ops with
  | .ok _ => true
  | .error _ => false

theorem finalOf_reach {fin : Nat → Bool} {s0 : SemState} {ops : List SemOp}
    (h : runOk fin s0 ops = true) : Reach s0 (finalOf fin s0 ops) := by
  unfold runOk at h
  unfold finalOf
  cases hr : runOps fin { s := s0 } ops with
  | error e => rw [hr] at h; cases h
  | ok r =>
    obtain ⟨g, es⟩ := r
    exact runOps_reach fin .init hr

/-- `BatchSemaphore::new(n, fairness)` or `const_new(n, fairness)` -/
def Initial (n : Nat) (s0 : SemState) : Prop :=
  (∃ fair c, s0 = SemState.new n fair c) ∨ (∃ fair, s0 = SemState.constNew n fair)

theorem Initial.inv {n : Nat} {s0 : SemState} (h : Initial n s0) :
    Inv s0 ∧ s0.avail + pend s0.table = n := by
  rcases h with ⟨fair, c, rfl⟩ | ⟨fair, rfl⟩
  · exact ⟨Inv.new n fair c, by simp [SemState.new]⟩
  · exact ⟨Inv.constNew n fair, by simp [SemState.constNew]⟩

theorem reach_Inv {n : Nat} {s0 : SemState} (h0 : Initial n s0) {g : G} (hr : Reach s0 g) :
    Inv g.s ∧ Balance n g :=
  reach_inv h0.inv.1 h0.inv.2 hr

/-- a fair release serves a prefix of the queue, in order, and leaves the rest untouched -/
theorem releasePure_fair_served (fin : Nat → Bool) {s : SemState} (n : Nat) (c : Clock) (hi : Inv s)
    (hf : s.fair = true) :
    ∃ pre, s.queue = pre ++ (s.releasePure fin n c).1.queue ∧
      (∀ x ∈ pre, Served fin s (s.releasePure fin n c).1 (s.releasePure fin n c).2 x) ∧
      (∀ x ∈ (s.releasePure fin n c).1.queue, (s.releasePure fin n c).1.getW x = s.getW x) ∧
      HeadBlocked (s.releasePure fin n c).1 := by
  have hfr : (s.paRelease n c).fair = true := hf
  have htq : TQ (s.paRelease n c).queue (s.paRelease n c).table s.nextWid := hi.tq
  obtain ⟨pre, hp, hs⟩ := unblockFront_served fin (s.paRelease n c).queue (s.paRelease n c) _ htq
  have hu := unblockFront_rest_untouched fin (s.paRelease n c).queue (s.paRelease n c) _ htq
  have sp := unblockFront_spec fin (s.paRelease n c).queue (s.paRelease n c)
  simp only [SemState.releasePure, hfr, if_true]
  exact ⟨pre, hp, fun x hx => (hs x hx).congr rfl rfl, hu, sp.head⟩

end SemLts
end ShuttleModel
