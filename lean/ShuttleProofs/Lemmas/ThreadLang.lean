import ShuttleModel.Lang
import ShuttleProofs.Lemmas.ThreadInv
/-!
# The shape of `threadFn`, `IR.scopedBody` and `scopeClose` (Lang.lean) and what their tails do to the kernel
-/

namespace ShuttleProofs.Thread
open ShuttleModel ShuttleProofs.Kernel

/-- `if switch_before_exit && exit_current_truncates_execution() { thread::switch() }` -/
def exitSwitch (sbe : Bool) : P Unit :=
  if sbe then do
    let t ← K.exitTruncates
    if t then K.switch else pure ()
  else pure ()

/-- the tail of `thread_fn`: `if let Some(waiter) = current_mut().take_waiter() { get_mut(waiter).unblock() }` -/
def joinTail {U : Type} : Prog U Unit :=
  .op .takeWaiter (fun w => match w with
    | some t => .op (.unblock t) (fun _ => .pure ())
    | none => .pure ())

/-- `thread_fn` is: the closure; the optional pre-exit switch; the thread-local destructor loop; and only then
the `take_waiter`/`unblock` pair -/
theorem threadFn_eq (ir : IR) (k : Nat) (f : P Unit) (sbe : Bool) :
    threadFn ir k f sbe =
      Prog.bind f (fun _ => Prog.bind (exitSwitch sbe) (fun _ =>
        Prog.bind (tlsPopLoop ir k (ir.objs.length + 1)) (fun _ => joinTail))) := by
  unfold threadFn exitSwitch joinTail
  cases sbe
  · rfl
  · show Prog.bind f _ = Prog.bind f _
    congr 1; funext _
    show Prog.op _ _ = Prog.op _ _
    congr 1; funext t
    cases t <;> rfl

/-- one round of the destructor loop: it falls through (to whatever follows the loop) only when it has just
read an empty destruction order; otherwise it pops the oldest key, leaves a tombstone, runs the destructor and
loops -/
theorem tlsPopLoop_succ (ir : IR) (k n : Nat) :
    tlsPopLoop ir k (n + 1) =
      Prog.bind (K.getL (Heap.localL k)) (fun l =>
        match l.tlsOrder with
        | [] => Prog.pure ()
        | key :: rest =>
          Prog.bind (K.setL (Heap.localL k) { l with
              tlsOrder := rest,
              tlsSlots := l.tlsSlots.map (fun p => if p.1 == key then (key, false) else p) })
            (fun _ => Prog.bind (tlsDtor ir k key) (fun _ => tlsPopLoop ir k n))) := by
  rw [tlsPopLoop]
  first
    | rfl
    | (congr 1; funext l; cases l.tlsOrder <;> rfl)

variable {σ : Type}

/-- **What the tail of `thread_fn` does.**  It clears the task's `waiter` field; when a joiner `j` was
registered it applies `unblock()` to exactly that task — and to no other; when none was, no task changes state. -/
theorem runSegment_joinTail {Pg : Program} (S : Scheduler σ) (me fuel : Nat) (st : ExecState Pg σ) {tk : Task}
    (h : st.k.tasks[me]? = some tk) :
    (tk.waiter = none →
      runSegment S me (fuel + 1) st joinTail =
        runSegment S me fuel { st with k := st.k.setTask me { tk with waiter := none } } (.pure ())) ∧
    (∀ j, tk.waiter = some j →
      runSegment S me (fuel + 2) st joinTail =
        match (st.k.setTask me { tk with waiter := none }).modTask j (·.unblock) with
        | .ok k' => runSegment S me fuel { st with k := k' } (.pure ())
        | .error e => .panicked e { st with k := st.k.setTask me { tk with waiter := none } }) := by
  constructor
  · intro hw
    unfold joinTail
    rw [runSegment]
    simp only [Kernel.getTask?, h, hw]
  · intro j hw
    unfold joinTail
    rw [runSegment]
    simp only [Kernel.getTask?, h, hw]
    rw [runSegment]
    rfl

/-! ### `thread::scope`

The pinned tree unblocked the scope's main task *unconditionally* when the last scoped thread exited (defect
F10: a main task blocked in a `recv` / `Condvar::wait` / `join` inside the scope closure was woken spuriously).
Repaired in /repo 9ec3e7a: `Scope` has a flag `main_task_waiting`, set by `scope()` right before it blocks at its
end, and the last scoped thread unblocks the main task only if that flag is set.  The model follows
(`ScopeState.mainWaiting`); everything below is about the repaired code. -/

/-- what `Scope::spawn`'s wrapper does after the scoped closure (and its pre-exit switch):
`finished.store(true); if num_running_threads.fetch_sub(1) == 1 && main_task_waiting.load() {
get_mut(main_task).unblock() }` -/
def scopeExit (sid : Nat) : P Unit := do
  let h ← K.getU
  let sc := (h.scopes[sid]?).getD {}
  K.setU { h with scopes := h.scopes.modify sid (fun sc => { sc with running := sc.running - 1 }) }
  if sc.running == 1 && sc.mainWaiting then K.unblock sc.mainTask else pure ()

/-- a scoped thread is `thread_fn(wrapper, switch_before_exit = false)`: its ops, its own pre-exit switch,
`scopeExit`, and only then (in `thread_fn`) its thread-local destructors and its joiner -/
theorem scopedBody_eq (ir : IR) (k sid : Nat) :
    ir.scopedBody k sid =
      threadFn ir k (do
        runOps ir k ((ir.tasks[k]?).getD {}).ops (2 * ((ir.tasks[k]?).getD {}).ops.length + 4) 0
        let t ← K.exitTruncates
        if t then K.switch else pure ()
        scopeExit sid) false := rfl

/-- a program over the harness heap: `IR.program ir` is one (`rfl`) -/
abbrev HeapProgram (i : Heap) (b u : Nat → P Unit) : Program := { U := Heap, init := i, bodies := b, unwind := u }

theorem program_eq (ir : IR) : ir.program = HeapProgram ir.initHeap ir.bodiesA ir.unwind := rfl

/-- `scopeExit` followed by `kont`, in explicit form -/
def scopeExitThen (sid : Nat) (kont : Unit → P Unit) : P Unit :=
  .op .getU (fun h =>
    .op (.setU { h with scopes := h.scopes.modify sid (fun sc => { sc with running := sc.running - 1 }) })
      (fun _ =>
        if (((h.scopes[sid]?).getD {}).running == 1 && ((h.scopes[sid]?).getD {}).mainWaiting) then
          .op (.unblock ((h.scopes[sid]?).getD {}).mainTask) kont
        else kont ()))

theorem scopeExit_bind (sid : Nat) (kont : Unit → P Unit) :
    Prog.bind (scopeExit sid) kont = scopeExitThen sid kont := by
  unfold scopeExit scopeExitThen
  show Prog.op _ _ = Prog.op _ _
  congr 1
  funext h
  show Prog.op _ _ = Prog.op _ _
  congr 1
  funext _
  by_cases hc : (((h.scopes[sid]?).getD {}).running == 1 && ((h.scopes[sid]?).getD {}).mainWaiting) = true
  · simp only [hc]; rfl
  · simp only [hc]; rfl

/-- the heap after `scopeExit` -/
def afterScopeExit (h : Heap) (sid : Nat) : Heap :=
  { h with scopes := h.scopes.modify sid (fun sc => { sc with running := sc.running - 1 }) }

/-- the heap after `scope()` has recorded that its main task is about to block at the end of the scope -/
def withMainWaiting (h : Heap) (sid : Nat) : Heap :=
  { h with scopes := h.scopes.modify sid (fun sc => { sc with mainWaiting := true }) }

/-- `scopeExit` touches nothing but the counter of its own scope: every scope keeps its `mainWaiting` flag and
its `mainTask`, every other scope its counter, and nothing outside `scopes` changes -/
theorem afterScopeExit_spec (h : Heap) (sid : Nat) :
    (afterScopeExit h sid).scopes.length = h.scopes.length ∧
    (∀ s : Nat, ((afterScopeExit h sid).scopes[s]?).map ScopeState.mainWaiting = (h.scopes[s]?).map ScopeState.mainWaiting) ∧
    (∀ s : Nat, ((afterScopeExit h sid).scopes[s]?).map ScopeState.mainTask = (h.scopes[s]?).map ScopeState.mainTask) ∧
    (∀ s : Nat, s ≠ sid → (afterScopeExit h sid).scopes[s]? = h.scopes[s]?) ∧
    ((afterScopeExit h sid).scopes[sid]?).map ScopeState.running = (h.scopes[sid]?).map (fun sc => sc.running - 1) ∧
    { afterScopeExit h sid with scopes := h.scopes } = h := by
  refine ⟨by simp [afterScopeExit], fun s => ?_, fun s => ?_, fun s hs => ?_, ?_, rfl⟩
  · simp only [afterScopeExit, List.getElem?_modify]
    by_cases e : sid = s <;> cases h.scopes[s]? <;> simp [e]
  · simp only [afterScopeExit, List.getElem?_modify]
    by_cases e : sid = s <;> cases h.scopes[s]? <;> simp [e]
  · simp only [afterScopeExit, List.getElem?_modify]
    simp [Ne.symm hs]
  · simp only [afterScopeExit, List.getElem?_modify]
    cases h.scopes[sid]? <;> simp

/-- `withMainWaiting` sets the flag of its own scope and touches nothing else -/
theorem withMainWaiting_spec (h : Heap) (sid : Nat) :
    (withMainWaiting h sid).scopes.length = h.scopes.length ∧
    (∀ s : Nat, s ≠ sid → (withMainWaiting h sid).scopes[s]? = h.scopes[s]?) ∧
    (∀ sc, h.scopes[sid]? = some sc →
      (withMainWaiting h sid).scopes[sid]? = some { sc with mainWaiting := true }) ∧
    { withMainWaiting h sid with scopes := h.scopes } = h := by
  refine ⟨by simp [withMainWaiting], fun s hs => ?_, fun sc hsc => ?_, rfl⟩
  · simp only [withMainWaiting, List.getElem?_modify]
    simp [Ne.symm hs]
  · simp only [withMainWaiting, List.getElem?_modify]
    simp [hsc]

/-- **What `scopeExit` does to the kernel.**  It decrements the scope's counter.  It applies `unblock()` to the
scope's main task **iff** the counter was 1 (last running scoped thread) **and** the scope's `mainWaiting` flag is
set; in every other case — in particular whenever the flag is not set, whatever the counter — the kernel (every
task's state) is exactly what it was. -/
theorem runSegment_scopeExit {i : Heap} {b u : Nat → P Unit} (S : Scheduler σ) (me fuel : Nat)
    (st : ExecState (HeapProgram i b u) σ) (sid : Nat) (kont : Unit → P Unit) :
    ((((st.u.scopes[sid]?).getD {}).running ≠ 1 ∨ ((st.u.scopes[sid]?).getD {}).mainWaiting = false) →
      runSegment S me (fuel + 2) st (Prog.bind (scopeExit sid) kont) =
        runSegment S me fuel { st with u := afterScopeExit st.u sid } (kont ())) ∧
    ((((st.u.scopes[sid]?).getD {}).running = 1 ∧ ((st.u.scopes[sid]?).getD {}).mainWaiting = true) →
      runSegment S me (fuel + 3) st (Prog.bind (scopeExit sid) kont) =
        match st.k.modTask ((st.u.scopes[sid]?).getD {}).mainTask (·.unblock) with
        | .ok k' => runSegment S me fuel { st with u := afterScopeExit st.u sid, k := k' } (kont ())
        | .error e => .panicked e { st with u := afterScopeExit st.u sid }) := by
  rw [scopeExit_bind]
  unfold scopeExitThen
  constructor
  · intro hr
    rw [runSegment, runSegment]
    have : (((st.u.scopes[sid]?).getD {}).running == 1 && ((st.u.scopes[sid]?).getD {}).mainWaiting) = false := by
      rcases hr with hr | hr
      · simp [hr]
      · simp [hr]
    simp only [this]
    rfl
  · intro hr
    rw [runSegment, runSegment]
    have : (((st.u.scopes[sid]?).getD {}).running == 1 && ((st.u.scopes[sid]?).getD {}).mainWaiting) = true := by
      simp [hr.1, hr.2]
    simp only [this, if_true]
    rw [runSegment]
    rfl

/-- **The end of `thread::scope`.**  With no scoped thread running the main task goes on at once and the heap is
untouched (no flag is set).  With scoped threads still running it sets the scope's `mainWaiting` flag, blocks
itself (`block(false)`: not spuriously wakeable) and reaches a scheduling point — all three in one segment, so no
other task runs between the flag being set and the main task being blocked at the end of the scope. -/
theorem runSegment_scopeClose {i : Heap} {b u : Nat → P Unit} (S : Scheduler σ) (me fuel : Nat)
    (st : ExecState (HeapProgram i b u) σ) (sid : Nat) (kont : Unit → P Unit) :
    (((st.u.scopes[sid]?).getD {}).running = 0 →
      runSegment S me (fuel + 1) st (Prog.bind (scopeClose sid) kont) = runSegment S me fuel st (kont ())) ∧
    (((st.u.scopes[sid]?).getD {}).running ≠ 0 →
      runSegment S me (fuel + 4) st (Prog.bind (scopeClose sid) kont) =
        match st.k.modTask me (·.block false) with
        | .ok k' => .atSwitch { st with u := withMainWaiting st.u sid, k := k',
                                        conts := st.conts.set me (kont ()) }
        | .error e => .panicked e { st with u := withMainWaiting st.u sid }) := by
  have hb : Prog.bind (scopeClose sid) kont =
      .op .getU (fun h => if ((h.scopes[sid]?).getD {}).running != 0
        then .op (.setU (withMainWaiting h sid)) (fun _ => .op (.block false) (fun _ => .op .switch kont))
        else kont ()) := by
    unfold scopeClose
    show Prog.op _ _ = Prog.op _ _
    congr 1
    funext h
    show Prog.bind (if (((h.scopes[sid]?).getD {}).running != 0) = true then _ else _) kont = _
    by_cases hc : (((h.scopes[sid]?).getD {}).running != 0) = true
    · rw [if_pos hc, if_pos hc]; rfl
    · rw [if_neg hc, if_neg hc]; rfl
  rw [hb]
  constructor
  · intro hr
    rw [runSegment]
    have : (((st.u.scopes[sid]?).getD {}).running != 0) = false := by simpa using hr
    simp only [this]
    rfl
  · intro hr
    rw [runSegment]
    have : (((st.u.scopes[sid]?).getD {}).running != 0) = true := by simpa using hr
    simp only [this, if_true]
    rw [runSegment, runSegment]
    dsimp only
    cases hm : st.k.modTask me (fun x => x.block false) with
    | error e => rfl
    | ok k' => dsimp only; rw [runSegment]

/-- The F10 scenario, over the harness heap and with the real `scopeExit`.  Scope 0 (main task 0, one running
scoped thread) is open; main (task 0) spawns the scoped thread and then blocks with `block(false)` *inside the
scope closure* — standing for a `recv` / `Condvar::wait` / `join` whose wake-up never comes —; the scoped thread,
the last of its scope, runs `scopeExit 0`.  (In the pinned tree `scopeExit` ended with an unconditional
`unblock(main_task)` and this execution ended `ok` with main past its blocking point; now it is a deadlock.) -/
def exF10 : Program :=
  { U := Heap, init := { scopes := [{ running := 1, mainTask := 0 }] },
    bodies := fun i => match i with
      | 0 => do
        let _ ← Prog.lift (.spawn false 1)
        Prog.lift (.block false)
        Prog.lift .switch
        Prog.lift (.emit "main resumed although nothing it waited for happened")
        pure ()
      | _ => scopeExit 0 }

/-- The regular end of a scope, with the real `scopeClose` / `scopeExit`: main spawns the scoped thread, reaches
a scheduling point, closes the scope and goes on.  Depending on the schedule the scoped thread exits after main
has blocked at the end of the scope (flag set: it unblocks main) or before (flag not set: no unblock, main reads
the counter at 0 and does not block). -/
def exScopeEnd : Program :=
  { U := Heap, init := { scopes := [{ running := 1, mainTask := 0 }] },
    bodies := fun i => match i with
      | 0 => do
        let _ ← Prog.lift (.spawn false 1)
        Prog.lift .switch
        scopeClose 0
        Prog.lift (.emit "scope returned")
        pure ()
      | _ => scopeExit 0 }

end ShuttleProofs.Thread
