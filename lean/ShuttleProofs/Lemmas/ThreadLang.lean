import ShuttleModel.Lang
import ShuttleProofs.Lemmas.ThreadInv
/-!
# The shape of `threadFn`, `IR.scopedBody` and `scopeClose` (Lang.lean) and what their tails do to the kernel
-/

namespace ShuttleProofs.Thread
open ShuttleModel ShuttleProofs.Kernel

/-- `if switch_before_exit && exit_current_truncates_execution() { thread::switch() }` -/
def exitSwitch (sbe : Bool) : P Unit :=
  if sbe then do
    let t ← K.exitTruncates
    if t then K.switch else pure ()
  else pure ()

/-- the tail of `thread_fn`: `if let Some(waiter) = current_mut().take_waiter() { get_mut(waiter).unblock() }` -/
def joinTail {U : Type} : Prog U Unit :=
  .op .takeWaiter (fun w => match w with
    | some t => .op (.unblock t) (fun _ => .pure ())
    | none => .pure ())

/-- `thread_fn` is: the closure; the optional pre-exit switch; the thread-local destructor loop; and only then
the `take_waiter`/`unblock` pair -/
theorem threadFn_eq (ir : IR) (k : Nat) (f : P Unit) (sbe : Bool) :
    threadFn ir k f sbe =
      Prog.bind f (fun _ => Prog.bind (exitSwitch sbe) (fun _ =>
        Prog.bind (tlsPopLoop ir k (ir.objs.length + 1)) (fun _ => joinTail))) := by
  unfold threadFn exitSwitch joinTail
  cases sbe
  · rfl
  · show Prog.bind f _ = Prog.bind f _
    congr 1; funext _
    show Prog.op _ _ = Prog.op _ _
    congr 1; funext t
    cases t <;> rfl

/-- one round of the destructor loop: it falls through (to whatever follows the loop) only when it has just
read an empty destruction order; otherwise it pops the oldest key, leaves a tombstone, runs the destructor and
loops -/
theorem tlsPopLoop_succ (ir : IR) (k n : Nat) :
    tlsPopLoop ir k (n + 1) =
      Prog.bind (K.getL (Heap.localL k)) (fun l =>
        match l.tlsOrder with
        | [] => Prog.pure ()
        | key :: rest =>
          Prog.bind (K.setL (Heap.localL k) { l with
              tlsOrder := rest,
              tlsSlots := l.tlsSlots.map (fun p => if p.1 == key then (key, false) else p) })
            (fun _ => Prog.bind (tlsDtor ir k key) (fun _ => tlsPopLoop ir k n))) := by
  rw [tlsPopLoop]
  first
    | rfl
    | (congr 1; funext l; cases l.tlsOrder <;> rfl)

variable {σ : Type}

/-- **What the tail of `thread_fn` does.**  It clears the task's `waiter` field; when a joiner `j` was
registered it applies `unblock()` to exactly that task — and to no other; when none was, no task changes state. -/
theorem runSegment_joinTail {Pg : Program} (S : Scheduler σ) (me fuel : Nat) (st : ExecState Pg σ) {tk : Task}
    (h : st.k.tasks[me]? = some tk) :
    (tk.waiter = none →
      runSegment S me (fuel + 1) st joinTail =
        runSegment S me fuel { st with k := st.k.setTask me { tk with waiter := none } } (.pure ())) ∧
    (∀ j, tk.waiter = some j →
      runSegment S me (fuel + 2) st joinTail =
        match (st.k.setTask me { tk with waiter := none }).modTask j (·.unblock) with
        | .ok k' => runSegment S me fuel { st with k := k' } (.pure ())
        | .error e => .panicked e { st with k := st.k.setTask me { tk with waiter := none } }) := by
  constructor
  · intro hw
    unfold joinTail
    rw [runSegment]
    simp only [Kernel.getTask?, h, hw]
  · intro j hw
    unfold joinTail
    rw [runSegment]
    simp only [Kernel.getTask?, h, hw]
    rw [runSegment]
    rfl

/-! ### `thread::scope` -/

/-- what `Scope::spawn`'s wrapper does after the scoped closure (and its pre-exit switch):
`finished.store(true); if num_running_threads.fetch_sub(1) == 1 { get_mut(main_task).unblock() }` -/
def scopeExit (sid : Nat) : P Unit := do
  let h ← K.getU
  let sc := (h.scopes[sid]?).getD {}
  K.setU { h with scopes := h.scopes.modify sid (fun sc => { sc with running := sc.running - 1 }) }
  if sc.running == 1 then K.unblock sc.mainTask else pure ()

/-- a scoped thread is `thread_fn(wrapper, switch_before_exit = false)`: its ops, its own pre-exit switch,
`scopeExit`, and only then (in `thread_fn`) its thread-local destructors and its joiner -/
theorem scopedBody_eq (ir : IR) (k sid : Nat) :
    ir.scopedBody k sid =
      threadFn ir k (do
        runOps ir k ((ir.tasks[k]?).getD {}).ops (2 * ((ir.tasks[k]?).getD {}).ops.length + 4) 0
        let t ← K.exitTruncates
        if t then K.switch else pure ()
        scopeExit sid) false := rfl

/-- a program over the harness heap: `IR.program ir` is one (`rfl`) -/
abbrev HeapProgram (i : Heap) (b u : Nat → P Unit) : Program := { U := Heap, init := i, bodies := b, unwind := u }

theorem program_eq (ir : IR) : ir.program = HeapProgram ir.initHeap ir.bodiesA ir.unwind := rfl

/-- `scopeExit` followed by `kont`, in explicit form -/
def scopeExitThen (sid : Nat) (kont : Unit → P Unit) : P Unit :=
  .op .getU (fun h =>
    .op (.setU { h with scopes := h.scopes.modify sid (fun sc => { sc with running := sc.running - 1 }) })
      (fun _ =>
        if ((h.scopes[sid]?).getD {}).running == 1 then
          .op (.unblock ((h.scopes[sid]?).getD {}).mainTask) kont
        else kont ()))

theorem scopeExit_bind (sid : Nat) (kont : Unit → P Unit) :
    Prog.bind (scopeExit sid) kont = scopeExitThen sid kont := by
  unfold scopeExit scopeExitThen
  show Prog.op _ _ = Prog.op _ _
  congr 1
  funext h
  show Prog.op _ _ = Prog.op _ _
  congr 1
  funext _
  by_cases hc : (((h.scopes[sid]?).getD {}).running == 1) = true
  · simp only [hc]; rfl
  · simp only [hc]; rfl

/-- the heap after `scopeExit` -/
def afterScopeExit (h : Heap) (sid : Nat) : Heap :=
  { h with scopes := h.scopes.modify sid (fun sc => { sc with running := sc.running - 1 }) }

/-- **What `scopeExit` does to the kernel.**  It decrements the scope's counter; if the counter was not 1 no
task changes state; if it was 1 it applies `unblock()` to the scope's main task — whatever that task is blocked
on (F10: there is no check that the main task is waiting at the end of the scope). -/
theorem runSegment_scopeExit {i : Heap} {b u : Nat → P Unit} (S : Scheduler σ) (me fuel : Nat)
    (st : ExecState (HeapProgram i b u) σ) (sid : Nat) (kont : Unit → P Unit) :
    (((st.u.scopes[sid]?).getD {}).running ≠ 1 →
      runSegment S me (fuel + 2) st (Prog.bind (scopeExit sid) kont) =
        runSegment S me fuel { st with u := afterScopeExit st.u sid } (kont ())) ∧
    (((st.u.scopes[sid]?).getD {}).running = 1 →
      runSegment S me (fuel + 3) st (Prog.bind (scopeExit sid) kont) =
        match st.k.modTask ((st.u.scopes[sid]?).getD {}).mainTask (·.unblock) with
        | .ok k' => runSegment S me fuel { st with u := afterScopeExit st.u sid, k := k' } (kont ())
        | .error e => .panicked e { st with u := afterScopeExit st.u sid }) := by
  rw [scopeExit_bind]
  unfold scopeExitThen
  constructor
  · intro hr
    rw [runSegment, runSegment]
    have : (((st.u.scopes[sid]?).getD {}).running == 1) = false := by simpa using hr
    simp only [this]
    rfl
  · intro hr
    rw [runSegment, runSegment]
    have : (((st.u.scopes[sid]?).getD {}).running == 1) = true := by simpa using hr
    simp only [this, if_true]
    rw [runSegment]
    rfl

/-- **The end of `thread::scope`.**  With scoped threads still running the main task blocks itself
(`block(false)`: not spuriously wakeable) and reaches a scheduling point; with none running it goes on at once. -/
theorem runSegment_scopeClose {i : Heap} {b u : Nat → P Unit} (S : Scheduler σ) (me fuel : Nat)
    (st : ExecState (HeapProgram i b u) σ) (sid : Nat) (kont : Unit → P Unit) :
    (((st.u.scopes[sid]?).getD {}).running = 0 →
      runSegment S me (fuel + 1) st (Prog.bind (scopeClose sid) kont) = runSegment S me fuel st (kont ())) ∧
    (((st.u.scopes[sid]?).getD {}).running ≠ 0 →
      runSegment S me (fuel + 3) st (Prog.bind (scopeClose sid) kont) =
        match st.k.modTask me (·.block false) with
        | .ok k' => .atSwitch { st with k := k', conts := st.conts.set me (kont ()) }
        | .error e => .panicked e st) := by
  have hb : Prog.bind (scopeClose sid) kont =
      .op .getU (fun h => if ((h.scopes[sid]?).getD {}).running != 0
        then .op (.block false) (fun _ => .op .switch kont) else kont ()) := by
    unfold scopeClose
    show Prog.op _ _ = Prog.op _ _
    congr 1
    funext h
    show Prog.bind (if (((h.scopes[sid]?).getD {}).running != 0) = true then _ else _) kont = _
    by_cases hc : (((h.scopes[sid]?).getD {}).running != 0) = true
    · rw [if_pos hc, if_pos hc]; rfl
    · rw [if_neg hc, if_neg hc]; rfl
  rw [hb]
  constructor
  · intro hr
    rw [runSegment]
    have : (((st.u.scopes[sid]?).getD {}).running != 0) = false := by simpa using hr
    simp only [this]
    rfl
  · intro hr
    rw [runSegment]
    have : (((st.u.scopes[sid]?).getD {}).running != 0) = true := by simpa using hr
    simp only [this, if_true]
    rw [runSegment]
    dsimp only
    cases hm : st.k.modTask me (fun x => x.block false) with
    | error e => rfl
    | ok k' => dsimp only; rw [runSegment]

/-- F10 at the kernel level.  Main (task 0) spawns a thread inside a scope and then blocks with `block(false)`
*inside the scope closure* — standing for a `recv` / `Condvar::wait` / `join` whose wake-up never comes —;
the scoped thread, being the last of its scope, ends with the unconditional `unblock(main_task)`. -/
def exF10 : Program :=
  { U := Nat, init := 0,
    bodies := fun i => match i with
      | 0 => do
        let _ ← Prog.lift (.spawn false 1)
        Prog.lift (.block false)
        Prog.lift .switch
        Prog.lift (.emit "main resumed although nothing it waited for happened")
        pure ()
      | _ => do
        Prog.lift (.unblock 0)
        pure () }

end ShuttleProofs.Thread
