import ShuttleModel.Prim.Condvar
/-
  C05 / Condvar, part 1: the pure transitions of `ShuttleModel.CondvarState` characterised as maps /
  filters over the waiter list, and the ghost "blocked" set driven by the emitted `Eff`s.
-/
namespace ShuttleProofs.C05
open ShuttleModel ShuttleModel.CondvarState

/-! ### ghost: the set of tasks a primitive has left blocked -/

/-- effect of one kernel request on the ghost "is blocked" predicate -/
def applyEff (b : Nat → Bool) : Eff → (Nat → Bool)
  | .unblock t => fun x => if x = t then false else b x
  | .block t => fun x => if x = t then true else b x
  | .wake _ => b
  | .joinClock _ _ => b

def applyEffs (b : Nat → Bool) (es : List Eff) : Nat → Bool := es.foldl applyEff b

@[simp] theorem applyEffs_nil (b : Nat → Bool) : applyEffs b [] = b := rfl
@[simp] theorem applyEffs_cons (b : Nat → Bool) (e : Eff) (es : List Eff) :
    applyEffs b (e :: es) = applyEffs (applyEff b e) es := rfl

/-- a list of `unblock`s only -/
theorem applyEffs_unblocks (ts : List Nat) (b : Nat → Bool) (x : Nat) :
    applyEffs b (ts.map Eff.unblock) x = if x ∈ ts then false else b x := by
  induction ts generalizing b with
  | nil => simp
  | cons t ts ih =>
    simp only [List.map_cons, applyEffs_cons, ih, applyEff, List.mem_cons]
    by_cases h1 : x ∈ ts <;> by_cases h2 : x = t <;> simp [h1, h2]

/-- a list of `block`s only -/
theorem applyEffs_blocks (ts : List Nat) (b : Nat → Bool) (x : Nat) :
    applyEffs b (ts.map Eff.block) x = if x ∈ ts then true else b x := by
  induction ts generalizing b with
  | nil => simp
  | cons t ts ih =>
    simp only [List.map_cons, applyEffs_cons, ih, applyEff, List.mem_cons]
    by_cases h1 : x ∈ ts <;> by_cases h2 : x = t <;> simp [h1, h2]

/-! ### `notifyLoop` -/

theorem notifyLoop_ok (me : Nat) (f : CvStatus → CvStatus) (ws : List (Nat × CvStatus)) :
    (notifyLoop me f ws).2.2 = false ↔ ∀ p ∈ ws, p.1 ≠ me := by
  induction ws with
  | nil => simp [notifyLoop]
  | cons p ws ih =>
    obtain ⟨tid, st⟩ := p
    by_cases h : tid = me
    · simp [notifyLoop, h]
    · simp [notifyLoop, h, ih]

theorem notifyLoop_eq (me : Nat) (f : CvStatus → CvStatus) (ws : List (Nat × CvStatus))
    (h : ∀ p ∈ ws, p.1 ≠ me) :
    notifyLoop me f ws = (ws.map (fun p => (p.1, f p.2)), (ws.map (·.1)).map Eff.unblock, false) := by
  induction ws with
  | nil => simp [notifyLoop]
  | cons p ws ih =>
    obtain ⟨tid, st⟩ := p
    have h1 : tid ≠ me := h (tid, st) (by simp)
    have h2 := ih (fun p hp => h p (by simp [hp]))
    simp [notifyLoop, h1, h2]

theorem notifyOne_ok {s : CondvarState} {me : Nat} {c : Clock} {s' : CondvarState} {effs : List Eff}
    (h : s.notifyOne me c = .ok (s', effs)) :
    (∀ p ∈ s.waiters, p.1 ≠ me) ∧
    s' = { waiters := s.waiters.map (fun p => (p.1, signalStatus s.nextEpoch c p.2)),
           nextEpoch := s.nextEpoch + 1 } ∧
    effs = (s.waiters.map (·.1)).map Eff.unblock := by
  unfold CondvarState.notifyOne at h
  by_cases hb : ∀ p ∈ s.waiters, p.1 ≠ me
  · rw [notifyLoop_eq me _ _ hb] at h
    simp only [Except.ok.injEq, Prod.mk.injEq] at h
    exact ⟨hb, h.1.symm, h.2.symm⟩
  · have hb' : (notifyLoop me (signalStatus s.nextEpoch c) s.waiters).2.2 = true := by
      cases hx : (notifyLoop me (signalStatus s.nextEpoch c) s.waiters).2.2 with
      | true => rfl
      | false => exact absurd ((notifyLoop_ok _ _ _).1 hx) hb
    rcases hn : notifyLoop me (signalStatus s.nextEpoch c) s.waiters with ⟨a, b, d⟩
    rw [hn] at h hb'
    simp only at hb'
    subst hb'
    simp at h

theorem notifyAll_ok {s : CondvarState} {me : Nat} {c : Clock} {s' : CondvarState} {effs : List Eff}
    (h : s.notifyAll me c = .ok (s', effs)) :
    (∀ p ∈ s.waiters, p.1 ≠ me) ∧
    s' = { s with waiters := s.waiters.map (fun p => (p.1, CvStatus.broadcast c)) } ∧
    effs = (s.waiters.map (·.1)).map Eff.unblock := by
  unfold CondvarState.notifyAll at h
  by_cases hb : ∀ p ∈ s.waiters, p.1 ≠ me
  · rw [notifyLoop_eq me _ _ hb] at h
    simp only [Except.ok.injEq, Prod.mk.injEq] at h
    exact ⟨hb, h.1.symm, h.2.symm⟩
  · have hb' : (notifyLoop me (fun _ => CvStatus.broadcast c) s.waiters).2.2 = true := by
      cases hx : (notifyLoop me (fun _ => CvStatus.broadcast c) s.waiters).2.2 with
      | true => rfl
      | false => exact absurd ((notifyLoop_ok _ _ _).1 hx) hb
    rcases hn : notifyLoop me (fun _ => CvStatus.broadcast c) s.waiters with ⟨a, b, d⟩
    rw [hn] at h hb'
    simp only at hb'
    subst hb'
    simp at h

/-- the converse: a notifier that is not itself a registered waiter never fails -/
theorem notifyOne_of_not_waiting (s : CondvarState) (me : Nat) (c : Clock) (h : ∀ p ∈ s.waiters, p.1 ≠ me) :
    s.notifyOne me c = .ok ({ waiters := s.waiters.map (fun p => (p.1, signalStatus s.nextEpoch c p.2)),
                              nextEpoch := s.nextEpoch + 1 }, (s.waiters.map (·.1)).map Eff.unblock) := by
  unfold CondvarState.notifyOne
  rw [notifyLoop_eq me _ _ h]

theorem notifyAll_of_not_waiting (s : CondvarState) (me : Nat) (c : Clock) (h : ∀ p ∈ s.waiters, p.1 ≠ me) :
    s.notifyAll me c = .ok ({ s with waiters := s.waiters.map (fun p => (p.1, CvStatus.broadcast c)) },
                            (s.waiters.map (·.1)).map Eff.unblock) := by
  unfold CondvarState.notifyAll
  rw [notifyLoop_eq me _ _ h]

/-! ### `consumeEpoch` -/

/-- what the loop of `wait` does to one other waiter's status -/
def consume1 (epoch : Nat) : CvStatus → CvStatus
  | .signal eps =>
    if eps.any (fun e => e.1 == epoch) then
      (if (eps.eraseP (fun e => e.1 == epoch)).isEmpty then .waiting
       else .signal (eps.eraseP (fun e => e.1 == epoch)))
    else .signal eps
  | st => st

/-- is this waiter sent back to `Waiting` (and blocked) when `epoch` is withdrawn -/
def reblocked (epoch : Nat) : CvStatus → Bool
  | .signal eps => eps.any (fun e => e.1 == epoch) && (eps.eraseP (fun e => e.1 == epoch)).isEmpty
  | _ => false

theorem consumeEpoch_eq (epoch : Nat) (ws : List (Nat × CvStatus)) :
    consumeEpoch epoch ws =
      (ws.map (fun p => (p.1, consume1 epoch p.2)),
       ((ws.filter (fun p => reblocked epoch p.2)).map (·.1)).map Eff.block) := by
  induction ws with
  | nil => simp [consumeEpoch]
  | cons p ws ih =>
    obtain ⟨tid, st⟩ := p
    simp only [consumeEpoch, ih]
    cases st with
    | waiting => simp [consume1, reblocked]
    | broadcast c => simp [consume1, reblocked]
    | signal eps =>
      have he := List.eraseP_eq_eraseIdx (xs := eps) (p := fun e => e.1 == epoch)
      cases hf : eps.findIdx? (fun e => e.1 == epoch) with
      | none =>
        have hnone : eps.any (fun e => e.1 == epoch) = false := by
          rw [List.findIdx?_eq_none_iff] at hf
          simpa using hf
        simp [consume1, reblocked, hnone, hf]
      | some i =>
        rw [hf] at he
        simp only at he
        have hany : eps.any (fun e => e.1 == epoch) = true := by
          cases hx : eps.any (fun e => e.1 == epoch) with
          | true => rfl
          | false =>
            have : eps.findIdx? (fun e => e.1 == epoch) = none := by
              rw [List.findIdx?_eq_none_iff]; simpa using hx
            rw [this] at hf; cases hf
        simp only [hf, ← he]
        by_cases hemp : (eps.eraseP (fun e => e.1 == epoch)).isEmpty = true
        · simp [consume1, reblocked, hany, hemp]
        · simp [consume1, reblocked, hany, hemp]

theorem consume1_ne_waiting_of_mem {epoch : Nat} {eps : List (Nat × Clock)} {x : Nat × Clock}
    (hx : x ∈ eps) (hne : x.1 ≠ epoch) :
    ∃ eps', consume1 epoch (.signal eps) = .signal eps' ∧ x ∈ eps' ∧ (∀ y ∈ eps', y ∈ eps) := by
  unfold consume1
  by_cases hany : eps.any (fun e => e.1 == epoch) = true
  · have hmem : x ∈ eps.eraseP (fun e => e.1 == epoch) := by
      rw [List.mem_eraseP_of_neg]; exact hx; simpa using hne
    have hnemp : (eps.eraseP (fun e => e.1 == epoch)).isEmpty = false := by
      cases hl : eps.eraseP (fun e => e.1 == epoch) with
      | nil => rw [hl] at hmem; cases hmem
      | cons a l => rfl
    simp only [hany, hnemp, if_true]
    exact ⟨_, rfl, hmem, fun y hy => (List.eraseP_sublist).subset hy⟩
  · simp only [hany]
    exact ⟨eps, rfl, hx, fun y hy => hy⟩

/-- the shape of `consume1` on a signal list -/
theorem consume1_signal_cases (epoch : Nat) (eps : List (Nat × Clock)) :
    (consume1 epoch (.signal eps) = .waiting ∧ reblocked epoch (.signal eps) = true) ∨
    (∃ eps', consume1 epoch (.signal eps) = .signal eps' ∧ reblocked epoch (.signal eps) = false ∧
      List.Sublist eps' eps ∧ (eps ≠ [] → eps' ≠ []) ∧
      ((eps.map (·.1)).Nodup → ∀ y ∈ eps', y.1 = epoch → ¬ eps.any (fun e => e.1 == epoch))) := by
  unfold consume1 reblocked
  by_cases hany : eps.any (fun e => e.1 == epoch) = true
  · by_cases hemp : (eps.eraseP (fun e => e.1 == epoch)).isEmpty = true
    · left; simp [hany, hemp]
    · right
      refine ⟨eps.eraseP (fun e => e.1 == epoch), by simp [hany, hemp], by simp [hany, hemp],
        List.eraseP_sublist, ?_, ?_⟩
      · intro _ hnil; rw [hnil] at hemp; simp at hemp
      · intro hnd y hy hye
        exfalso
        -- `eraseP` removed the unique element with this epoch
        clear hemp
        induction eps with
        | nil => simp at hany
        | cons a l ih =>
          simp only [List.map_cons, List.nodup_cons] at hnd
          by_cases ha : a.1 = epoch
          · have : (a :: l).eraseP (fun e => e.1 == epoch) = l := by simp [ha]
            rw [this] at hy
            exact hnd.1 (by rw [ha, ← hye]; exact List.mem_map_of_mem hy)
          · have : (a :: l).eraseP (fun e => e.1 == epoch) = a :: l.eraseP (fun e => e.1 == epoch) := by
              simp [ha]
            rw [this] at hy
            rcases List.mem_cons.1 hy with h1 | h1
            · exact ha (h1 ▸ hye)
            · have hany' : l.any (fun e => e.1 == epoch) = true := by
                simpa [List.any_cons, ha] using hany
              exact ih hany' hnd.2 h1
  · right
    refine ⟨eps, by simp [hany], by simp [hany], List.Sublist.refl _, fun h => h, ?_⟩
    intro _ _ _ _; exact hany

@[simp] theorem consume1_waiting (e : Nat) : consume1 e .waiting = .waiting := rfl
@[simp] theorem consume1_broadcast (e : Nat) (c : Clock) : consume1 e (.broadcast c) = .broadcast c := rfl
@[simp] theorem reblocked_waiting (e : Nat) : reblocked e .waiting = false := rfl
@[simp] theorem reblocked_broadcast (e : Nat) (c : Clock) : reblocked e (.broadcast c) = false := rfl

/-! ### `register`, `wake` -/

theorem register_ok {s : CondvarState} {me : Nat} {s' : CondvarState} (h : s.register me = .ok s') :
    (∀ p ∈ s.waiters, p.1 ≠ me) ∧ s' = { s with waiters := s.waiters ++ [(me, .waiting)] } := by
  unfold CondvarState.register at h
  by_cases ha : s.waiters.any (fun p => p.1 == me) = true
  · simp [ha] at h
  · simp only [ha] at h
    refine ⟨?_, by simpa using h.symm⟩
    intro p hp hpe
    apply ha
    simp only [List.any_eq_true]
    exact ⟨p, hp, by simp [hpe]⟩

theorem register_of_not_waiting (s : CondvarState) (me : Nat) (h : ∀ p ∈ s.waiters, p.1 ≠ me) :
    s.register me = .ok { s with waiters := s.waiters ++ [(me, .waiting)] } := by
  unfold CondvarState.register
  have : s.waiters.any (fun p => p.1 == me) = false := by
    cases hx : s.waiters.any (fun p => p.1 == me) with
    | false => rfl
    | true =>
      simp only [List.any_eq_true] at hx
      obtain ⟨p, hp, hpe⟩ := hx
      exact absurd (by simpa using hpe) (h p hp)
  simp [this]

/-- what woke the caller: `none` = a broadcast, `some e` = the `notify_one` of epoch `e` -/
def wokenBy (s : CondvarState) (me : Nat) : Option Nat :=
  match s.waiters.find? (·.1 == me) with
  | some (_, .signal ((e, _) :: _)) => some e
  | _ => none

/-- the successful outcomes of `wake` -/
theorem wake_ok {s : CondvarState} {me : Nat} {s' : CondvarState} {c : Clock} {effs : List Eff}
    (h : s.wake me = .ok (s', c, effs)) :
    (∃ st, (me, st) ∈ s.waiters ∧ s.waiters.find? (·.1 == me) = some (me, st) ∧
      ((st = .broadcast c ∧ wokenBy s me = none ∧
          s' = { s with waiters := s.waiters.filter (·.1 != me) } ∧ effs = []) ∨
       (∃ e rest, st = .signal ((e, c) :: rest) ∧ wokenBy s me = some e ∧
          s' = { s with waiters := (s.waiters.filter (·.1 != me)).map (fun p => (p.1, consume1 e p.2)) } ∧
          effs = (((s.waiters.filter (·.1 != me)).filter (fun p => reblocked e p.2)).map (·.1)).map Eff.block))) := by
  unfold CondvarState.wake at h
  cases hf : s.waiters.find? (·.1 == me) with
  | none => simp [hf] at h
  | some p =>
    obtain ⟨t, st⟩ := p
    have hmem := List.mem_of_find?_eq_some hf
    have hkey : t = me := by simpa using List.find?_some hf
    subst hkey
    refine ⟨st, hmem, rfl, ?_⟩
    simp only [hf, CondvarState.remove] at h
    cases st with
    | waiting => simp at h
    | broadcast c' =>
      left
      simp only [Except.ok.injEq, Prod.mk.injEq] at h
      refine ⟨by rw [h.2.1], by simp [wokenBy, hf], h.1.symm, h.2.2.symm⟩
    | signal eps =>
      cases eps with
      | nil => simp at h
      | cons x rest =>
        obtain ⟨e, c'⟩ := x
        right
        simp only [consumeEpoch_eq, Except.ok.injEq, Prod.mk.injEq] at h
        exact ⟨e, rest, by rw [h.2.1], by simp [wokenBy, hf], h.1.symm, h.2.2.symm⟩

/-- "should not have been woken while in Waiting status": the second stage of `wait` run on a
waiter whose status is still `Waiting` panics -/
theorem wake_waiting_panics (s : CondvarState) (me : Nat)
    (h : s.waiters.find? (·.1 == me) = some (me, .waiting)) :
    s.wake me = .error "should not have been woken while in Waiting status" := by
  simp [CondvarState.wake, h]

theorem wake_unregistered_panics (s : CondvarState) (me : Nat) (h : ∀ p ∈ s.waiters, p.1 ≠ me) :
    s.wake me = .error "should be waiting" := by
  have : s.waiters.find? (·.1 == me) = none := by
    rw [List.find?_eq_none]; intro p hp; simpa using h p hp
  simp [CondvarState.wake, this]

end ShuttleProofs.C05
