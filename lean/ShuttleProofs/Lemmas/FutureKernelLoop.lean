import ShuttleProofs.Lemmas.FutureKernelInv
/-!
# C17 helpers, part 3: three facts about `state` / `woken` along every execution

* `SleepInv`  — `Sleeping ⇒ !woken`, in every state of every execution;
* `WokenIs`   — the `woken` flag of an unfinished task *is* the ghost flag "its waker was invoked since its latest
                `sleep_unless_woken`";
* sleeping stability — a `Sleeping` task is not scheduled and keeps `state`/`woken` until a `wake` / `unblock` /
                `block` request names it.
-/

namespace ShuttleProofs.C17
open ShuttleModel ShuttleProofs.Kernel

variable {P : Program} {σ : Type}

/-! ### A. `Sleeping ⇒ !woken` -/

@[reducible] def SleepInv (ts : List ShuttleModel.Task) : Prop :=
  ∀ (i : Nat) (tk : ShuttleModel.Task), ts[i]? = some tk → tk.state = .sleeping → tk.woken = false

theorem SleepInv.set {ts : List Task} (h : SleepInv ts) (t : Nat) (tk : Task)
    (hs : tk.state = .sleeping → tk.woken = false) : SleepInv (ts.set t tk) := by
  intro i tki hi hsl
  by_cases hit : i = t
  · subst hit
    by_cases hlt : i < ts.length
    · rw [List.getElem?_set_self hlt] at hi
      cases hi
      exact hs hsl
    · rw [List.getElem?_eq_none (by simpa using hlt)] at hi
      cases hi
  · rw [List.getElem?_set_ne (Ne.symm hit)] at hi
    exact h i tki hi hsl

theorem SleepInv.kstep {me : Nat} {r : Req} {st st' : ExecState P σ} (h : SleepInv st.k.tasks)
    (hs : KStep me r st st') : SleepInv st'.k.tasks := by
  intro i tk' hi hsl
  rcases hs.cases_new i tk' hi with ⟨tk, hk, he⟩ | ⟨_, hr, _, _⟩
  · exact (he.sleeping_inv (h i tk hk) hsl).1
  · rw [hr] at hsl; cases hsl

theorem SleepInv.ktrace {S : Scheduler σ} {me : Nat} {st : ExecState P σ} {p : Prog P.U Unit}
    {l : List (Req × ExecState P σ)} {e : SegEnd P σ} (h : KTrace S me st p l e) (h0 : SleepInv st.k.tasks) :
    (∀ x ∈ l, SleepInv x.2.k.tasks) ∧ SleepInv e.st.k.tasks := by
  have := KTrace.ghost_inv (G := Unit) (fun g _ => g) (fun _ ts _ => SleepInv ts)
    (fun _ _ _ _ hi hs => SleepInv.kstep hi hs) h () h0
  refine ⟨?_, this.2⟩
  intro x hx
  obtain ⟨a, b, hab⟩ := List.append_of_mem hx
  exact this.1 a x b hab

theorem SleepInv.iter {S : Scheduler σ} {segFuel : Nat} {st b : ExecState P σ} {t : Nat}
    {l : List (Req × ExecState P σ)} (h : IterEv S segFuel st t l b) (h0 : SleepInv st.k.tasks) :
    SleepInv b.k.tasks := by
  refine h.ghost_inv (G := Unit) (fun g _ => g) (fun _ ts => SleepInv ts) () ?_ ?_ ?_ h0
  · intro tk _ _ hi
    exact hi.set t _ (fun hs => by cases hs)
  · intro _ r st1 st2 _ hi hs
    exact hi.kstep hs
  · intro _ ts tk tk' hi _ hf
    obtain ⟨rfl, _⟩ := Task.finish_ok hf
    exact hi.set t _ (fun hs => by cases hs)

theorem SleepInv.init (P : Program) {σ : Type} (ms : MaxSteps) (seed : Nat) (s : σ) :
    SleepInv (initState P ms seed s).k.tasks := by
  intro i tk hi hs
  simp only [initState, Kernel.spawnTask, List.nil_append] at hi
  cases i with
  | zero =>
    simp only [List.getElem?_cons_zero, Option.some.injEq] at hi
    subst hi
    cases hs
  | succ n => simp at hi

theorem SleepInv.reachN {S : Scheduler σ} {segFuel : Nat} {ms : MaxSteps} {n : Nat} {st0 st : ExecState P σ}
    (hi : LoopInv ms st0) (h0 : SleepInv st0.k.tasks) (h : ReachN S segFuel n st0 st) :
    SleepInv st.k.tasks := by
  have := ReachN.invariant (S := S) (segFuel := segFuel) (fun a => LoopInv ms a ∧ SleepInv a.k.tasks)
    (fun a b ha hs => by
      obtain ⟨t, l, hit⟩ := iterEv_of_loopStep ha.1.next ha.1.conts hs
      exact ⟨ha.1.step hs, SleepInv.iter hit ha.2⟩) h ⟨hi, h0⟩
  exact this.2

/-- the invariant also holds in the state in which the execution ends (whatever the outcome) -/
theorem SleepInv.final {S : Scheduler σ} {segFuel : Nat} {stf : ExecState P σ} {r : Result P σ}
    (h0 : SleepInv stf.k.tasks) (hf : FinalSpec S segFuel stf r) : SleepInv r.st.k.tasks := by
  cases hf with
  | loopFuel => exact h0
  | boundFail n _ _ => exact h0
  | boundStop n _ _ => exact h0
  | deadlock _ _ _ => exact h0
  | ok _ _ _ => exact h0
  | schedPanic msg s' _ _ => exact h0
  | choseBad t msg s' _ _ _ => exact h0
  | choseNone s' _ _ => exact h0
  | seg t s' p r' _ _ hoff _ hfs =>
    obtain ⟨l, htr⟩ := runSegment_ktrace S t segFuel (segStart stf t s') p
    obtain ⟨_, hts⟩ := segStart_tasks stf t s' hoff
    have hstart : SleepInv (segStart stf t s').k.tasks := by
      rcases hts with hts | ⟨tk, _, _, hts⟩
      · rw [hts]; exact h0
      · rw [hts]; exact h0.set t _ (fun hs => by cases hs)
    have := (SleepInv.ktrace htr hstart).2
    rw [(finishSeg_inl hfs).1]
    exact this

/-! ### B. `woken` = "woken since the latest `sleep_unless_woken`" -/

/-- the `woken` flag of task `i` (if it exists and is unfinished) is `g`; a task that does not exist yet has
ghost flag `false` -/
def WokenIs (i : Nat) (g : Bool) (ts : List ShuttleModel.Task) : Prop :=
  (∀ tk : ShuttleModel.Task, ts[i]? = some tk → tk.finished = false → tk.woken = g) ∧ (ts[i]? = none → g = false)

theorem WokenIs.set_ne {i t : Nat} {g : Bool} {ts : List Task} (h : WokenIs i g ts) (hne : t ≠ i) (tk : Task) :
    WokenIs i g (ts.set t tk) := by
  unfold WokenIs
  rw [List.getElem?_set_ne hne]
  exact h

theorem WokenIs.set_self {i : Nat} {g : Bool} {ts : List Task} (h : WokenIs i g ts) (tk tk' : Task)
    (hk : ts[i]? = some tk) (hw : tk'.finished = false → tk.finished = false ∧ tk'.woken = tk.woken) :
    WokenIs i g (ts.set i tk') := by
  have hlt := (List.getElem?_eq_some_iff.mp hk).1
  unfold WokenIs
  rw [List.getElem?_set_self hlt]
  refine ⟨?_, fun hh => by cases hh⟩
  intro tk'' he hf
  cases he
  obtain ⟨h1, h2⟩ := hw hf
  rw [h2]
  exact h.1 tk hk h1

theorem WokenIs.kstep {i t : Nat} {g : Bool} {r : Req} {st st' : ExecState P σ}
    (hc : st.k.current = .some t) (h : WokenIs i g st.k.tasks) (hs : KStep t r st st') :
    WokenIs i (ghostStep i t g r) st'.k.tasks := by
  have hlive : liveCur st.k.current = true := by rw [hc]; rfl
  have hnone : st.k.tasks[i]? = none → ghostStep i t g r = false := by
    intro hn
    have hg := h.2 hn
    subst hg
    cases r with
    | wake t' =>
      have := fun ht : t' = i => hs.wakeKnown t' rfl hlive
      have hne : t' ≠ i := by
        intro ht
        have := this ht
        rw [ht] at this
        rw [List.getElem?_eq_none_iff] at hn
        omega
      simp [ghostStep, hne]
    | sleepUnlessWoken => simp [ghostStep]
    | _ => rfl
  refine ⟨?_, ?_⟩
  · intro tk' hi hf
    rcases hs.cases_new i tk' hi with ⟨tk, hk, he⟩ | ⟨hn, _, hw, _⟩
    · rw [hlive] at he
      have hf0 : tk.finished = false := by rw [← he.finished_eq]; exact hf
      rw [he.woken_eq hf0, h.1 tk hk hf0]
    · rw [hw, hnone hn]
  · intro hn'
    apply hnone
    cases ho : st.k.tasks[i]? with
    | none => rfl
    | some tk =>
      obtain ⟨tk', h1, _⟩ := hs.old i tk ho
      rw [hn'] at h1; cases h1

theorem WokenIs.iter {S : Scheduler σ} {segFuel : Nat} {st b : ExecState P σ} {t : Nat}
    {l : List (Req × ExecState P σ)} (h : IterEv S segFuel st t l b) (i : Nat) (g0 : Bool)
    (h0 : WokenIs i g0 st.k.tasks) :
    WokenIs i ((l.map (·.1)).foldl (ghostStep i t) g0) b.k.tasks := by
  refine h.ghost_inv (ghostStep i t) (WokenIs i) g0 ?_ ?_ ?_ h0
  · intro tk hk hs hi
    by_cases hti : t = i
    · subst hti
      exact hi.set_self tk _ hk (fun _ => ⟨by simp [Task.finished, hs], rfl⟩)
    · exact hi.set_ne hti _
  · intro g r st1 st2 hc hi hs
    exact hi.kstep hc hs
  · intro g ts tk tk' hi hk hf
    obtain ⟨rfl, hf0⟩ := Task.finish_ok hf
    by_cases hti : t = i
    · subst hti
      exact hi.set_self tk _ hk (fun hh => by simp [Task.finished] at hh)
    · exact hi.set_ne hti _

theorem WokenIs.reachEv {S : Scheduler σ} {segFuel : Nat} {st0 st : ExecState P σ} {evs : List (Nat × Req)}
    (h : ReachEv S segFuel st0 evs st) (i : Nat) (g0 : Bool) (h0 : WokenIs i g0 st0.k.tasks) :
    WokenIs i (wokenGhost i g0 evs) st.k.tasks := by
  induction h with
  | refl => exact h0
  | @tail st b evs t l _ hit ih =>
    rw [wokenGhost_append]
    have := WokenIs.iter hit i _ ih
    have hm : l.map (fun x => (t, x.1)) = (l.map (·.1)).map (fun r => (t, r)) := by
      rw [List.map_map]; rfl
    rw [hm, wokenGhost_map]
    exact this

theorem WokenIs.init (P : Program) {σ : Type} (ms : MaxSteps) (seed : Nat) (s : σ) (i : Nat) :
    WokenIs i false (initState P ms seed s).k.tasks := by
  refine ⟨?_, fun _ => rfl⟩
  intro tk hi _
  simp only [initState, Kernel.spawnTask, List.nil_append] at hi
  cases i with
  | zero =>
    simp only [List.getElem?_cons_zero, Option.some.injEq] at hi
    subst hi
    rfl
  | succ n => simp at hi

/-! ### C. a `Sleeping` task stays as it is until a request names it -/

/-- task `i` is `Sleeping` with `woken = w` -/
def SleepingAt (i : Nat) (w : Bool) (ts : List ShuttleModel.Task) : Prop :=
  ∃ tk : ShuttleModel.Task, ts[i]? = some tk ∧ tk.state = .sleeping ∧ tk.woken = w

theorem SleepingAt.not_offered {i : Nat} {w : Bool} {k : Kernel} (h : SleepingAt i w k.tasks) :
    i ∉ k.offered := by
  obtain ⟨tk, hk, hs, _⟩ := h
  intro hm
  obtain ⟨tk', hk', hr⟩ := mem_offered.mp hm
  rw [hk] at hk'
  cases hk'
  rcases hr with hr | hr
  · rw [Task.runnable_iff] at hr; rw [hs] at hr; cases hr
  · rw [Task.canSpuriouslyWakeup_iff] at hr; rw [hs] at hr; cases hr

theorem SleepingAt.set_ne {i t : Nat} {w : Bool} {ts : List Task} (h : SleepingAt i w ts) (hne : t ≠ i)
    (tk : Task) : SleepingAt i w (ts.set t tk) := by
  unfold SleepingAt
  rw [List.getElem?_set_ne hne]
  exact h

theorem foldl_quiet (i : Nat) (rs : List Req) (g : Bool) :
    rs.foldl (fun g r => g && !disturbs i r) g = (g && rs.all (fun r => !disturbs i r)) := by
  induction rs generalizing g with
  | nil => simp
  | cons r rs ih => simp [ih, Bool.and_assoc]

theorem SleepingAt.iter {S : Scheduler σ} {segFuel : Nat} {st b : ExecState P σ} {t : Nat}
    {l : List (Req × ExecState P σ)} (h : IterEv S segFuel st t l b) {i : Nat} {w : Bool}
    (h0 : SleepingAt i w st.k.tasks) :
    t ≠ i ∧ ((∀ x ∈ l, disturbs i x.1 = false) → SleepingAt i w b.k.tasks) := by
  have hti : t ≠ i := by
    intro ht
    obtain ⟨_, _, _, _, hoff, _⟩ := h
    rw [ht] at hoff
    exact h0.not_offered hoff
  refine ⟨hti, ?_⟩
  intro hq
  have := h.ghost_inv (fun g r => g && !disturbs i r) (fun g ts => g = true → SleepingAt i w ts) true
    (fun tk _ _ hi hg => (hi hg).set_ne hti _)
    (fun g r st1 st2 _ hi hs hg => by
      simp only [Bool.and_eq_true, Bool.not_eq_true'] at hg
      obtain ⟨tk, hk, hsl, hw⟩ := hi hg.1
      obtain ⟨tk', hk', he⟩ := hs.old i tk hk
      obtain ⟨h1, h2⟩ := he.sleeping_stable hsl hti hg.2
      exact ⟨tk', hk', h1, by rw [h2, hw]⟩)
    (fun g ts tk tk' hi _ _ hg => (hi hg).set_ne hti _)
    (fun _ => h0)
  apply this
  rw [foldl_quiet]
  simp only [Bool.true_and, List.all_eq_true, List.mem_map, Bool.not_eq_true']
  rintro r ⟨x, hx, rfl⟩
  exact hq x hx

theorem SleepingAt.reachEv {S : Scheduler σ} {segFuel : Nat} {st0 st : ExecState P σ} {evs : List (Nat × Req)}
    (h : ReachEv S segFuel st0 evs st) {i : Nat} {w : Bool} (h0 : SleepingAt i w st0.k.tasks)
    (hq : ∀ e ∈ evs, disturbs i e.2 = false) :
    SleepingAt i w st.k.tasks ∧ ∀ e ∈ evs, e.1 ≠ i := by
  induction h with
  | refl => exact ⟨h0, fun e he => by cases he⟩
  | @tail st b evs t l _ hit ih =>
    obtain ⟨ih1, ih2⟩ := ih (fun e he => hq e (List.mem_append_left _ he))
    obtain ⟨hti, hst⟩ := SleepingAt.iter hit ih1
    refine ⟨hst ?_, ?_⟩
    · intro x hx
      exact hq (t, x.1) (List.mem_append_right _ (List.mem_map.mpr ⟨x, hx, rfl⟩))
    · intro e he
      rcases List.mem_append.mp he with he | he
      · exact ih2 e he
      · obtain ⟨x, _, rfl⟩ := List.mem_map.mp he
        exact hti

end ShuttleProofs.C17
