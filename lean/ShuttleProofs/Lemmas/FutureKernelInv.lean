import ShuttleProofs.Lemmas.FutureKernel
/-!
# C17 helpers, part 2: what requests do to `state` / `woken`, ghost-state induction over segments and over
the run loop

* `TaskEffect.spec` — every request, classified by what it does to `finished`, `woken`, `state`;
* `KTrace.ghost_inv` — induction over a segment with a ghost variable updated per request;
* `IterEv` / `ReachEv` — continuing iterations of `run_to_completion` / reachability of loop heads, annotated with
  the requests executed (`(task, request)` pairs, in execution order);
* `IterEv.ghost_inv` — induction over one iteration (spurious un-block by `schedule()`, the segment, `finish()`).
-/

namespace ShuttleProofs.C17
open ShuttleModel ShuttleProofs.Kernel

/-! ### the `Task` transitions, inverted -/

theorem Task.block_ok {tk tk' : Task} {sp : Bool} (h : tk.block sp = .ok tk') :
    tk' = { tk with state := .blocked sp } ∧ tk.finished = false := by
  unfold Task.block at h
  split at h
  · cases h
  · rename_i hf
    simp only [Except.ok.injEq] at h
    exact ⟨h.symm, by simpa using hf⟩

theorem Task.unblock_ok {tk tk' : Task} (h : tk.unblock = .ok tk') :
    tk' = { tk with state := .runnable, blockedInPark := false } ∧ tk.finished = false := by
  unfold Task.unblock at h
  split at h
  · cases h
  · rename_i hf
    simp only [Except.ok.injEq] at h
    exact ⟨h.symm, by simpa using hf⟩

theorem Task.sleep_ok {tk tk' : Task} (h : tk.sleep = .ok tk') :
    tk' = { tk with state := .sleeping } ∧ tk.finished = false := by
  unfold Task.sleep at h
  split at h
  · cases h
  · rename_i hf
    simp only [Except.ok.injEq] at h
    exact ⟨h.symm, by simpa using hf⟩

theorem Task.finish_ok {tk tk' : Task} (h : tk.finish = .ok tk') :
    tk' = { tk with state := .finished } ∧ tk.finished = false := by
  unfold Task.finish at h
  split at h
  · cases h
  · rename_i hf
    simp only [Except.ok.injEq] at h
    exact ⟨h.symm, by simpa using hf⟩

theorem Task.wake_ok {tk tk' : Task} (h : tk.wake = .ok tk') :
    (tk.state = .sleeping ∧ tk' = { tk with woken := true, state := .runnable, blockedInPark := false }) ∨
    (tk.state ≠ .sleeping ∧ tk' = { tk with woken := true }) := by
  by_cases hs : tk.state = .sleeping
  · rw [Task.wake_sleeping tk hs] at h
    simp only [Except.ok.injEq] at h
    exact Or.inl ⟨hs, h.symm⟩
  · rw [Task.wake_not_sleeping tk hs] at h
    simp only [Except.ok.injEq] at h
    exact Or.inr ⟨hs, h.symm⟩

theorem Task.sleepUnlessWoken_ok {tk tk' : Task} (h : tk.sleepUnlessWoken = .ok tk') :
    (tk.woken = true ∧ tk' = { tk with woken := false }) ∨
    (tk.woken = false ∧ tk.finished = false ∧ tk' = { tk with woken := false, state := .sleeping }) := by
  cases hw : tk.woken
  · right
    unfold Task.sleepUnlessWoken at h
    simp only [hw, Bool.false_eq_true, if_false] at h
    obtain ⟨h1, h2⟩ := Task.sleep_ok h
    exact ⟨rfl, h2, h1⟩
  · left
    rw [Task.sleepUnlessWoken_woken tk hw] at h
    simp only [Except.ok.injEq] at h
    exact ⟨rfl, h.symm⟩

theorem Task.park_ok {tk tk' : Task} {b : Bool} (h : tk.park = .ok (b, tk')) :
    tk' = { tk with tokenAvail := false } ∨
    (tk.finished = false ∧ tk' = { tk with blockedInPark := true, state := .blocked true }) := by
  unfold Task.park at h
  split at h
  · cases h
  · split at h
    · cases h
    · split at h
      · simp only [Except.ok.injEq, Prod.mk.injEq] at h
        exact Or.inl h.2.symm
      · split at h
        · rename_i t' hb
          simp only [Except.ok.injEq, Prod.mk.injEq] at h
          obtain ⟨h1, h2⟩ := Task.block_ok hb
          right
          refine ⟨h2, ?_⟩
          rw [← h.2, h1]
        · cases h

theorem Task.unpark_ok {tk tk' : Task} (h : tk.unpark = .ok tk') :
    (tk.finished = false ∧ tk' = { tk with state := .runnable, blockedInPark := false }) ∨
    (tk.blockedInPark = false ∧ tk' = { tk with tokenAvail := true }) := by
  unfold Task.unpark at h
  split at h
  · split at h
    · cases h
    · split at h
      · cases h
      · obtain ⟨h1, h2⟩ := Task.unblock_ok h
        exact Or.inl ⟨h2, h1⟩
  · rename_i hb
    simp only [Except.ok.injEq] at h
    exact Or.inr ⟨by simpa using hb, h.symm⟩

/-- a parked-and-blocked flag on a task that is not blocked makes `unpark` panic -/
theorem Task.unpark_sleeping {tk tk' : Task} (h : tk.unpark = .ok tk') (hs : tk.state = .sleeping) :
    tk' = { tk with tokenAvail := true } := by
  unfold Task.unpark at h
  split at h
  · simp [Task.isBlocked, hs] at h
  · simp only [Except.ok.injEq] at h
    exact h.symm

/-! ### classification of the effect of a request -/

/-- the ghost flag of task `i`: "task `i`'s waker was invoked since `i`'s latest `sleep_unless_woken`" -/
def ghostStep (i me : Nat) (w : Bool) : Req → Bool
  | .wake t => w || decide (t = i)
  | .sleepUnlessWoken => if me = i then false else w
  | _ => w

/-- requests that may end the sleep of task `i` when issued by another task -/
def disturbs (i : Nat) : Req → Bool
  | .wake t => decide (t = i)
  | .unblock t => decide (t = i)
  | .blockTask t => decide (t = i)
  | _ => false

theorem finished_set_state (tk : Task) (s : TState) (w : Bool) (b : Bool) :
    Task.finished { tk with state := s, woken := w, blockedInPark := b } = (s == .finished) := rfl

/-- `finished` never changes inside a segment -/
theorem TaskEffect.finished_eq {me i : Nat} {live : Bool} {r : Req} {tk tk' : Task}
    (h : TaskEffect me i live r tk tk') : tk'.finished = tk.finished := by
  cases r with
  | wake t =>
    simp only [TaskEffect] at h
    split at h
    · rename_i hc
      rcases Task.wake_ok h with ⟨_, rfl⟩ | ⟨_, rfl⟩
      · rw [hc.2.2]; rfl
      · rfl
    · rw [h]
  | unblock t =>
    simp only [TaskEffect] at h
    split at h
    · obtain ⟨rfl, h2⟩ := Task.unblock_ok h
      rw [h2]; rfl
    · rw [h]
  | blockTask t =>
    simp only [TaskEffect] at h
    split at h
    · obtain ⟨rfl, h2⟩ := Task.block_ok h
      rw [h2]; rfl
    · rw [h]
  | block =>
    simp only [TaskEffect] at h
    split at h
    · obtain ⟨sp, h⟩ := h
      obtain ⟨rfl, h2⟩ := Task.block_ok h
      rw [h2]; rfl
    · rw [h]
  | sleepUnlessWoken =>
    simp only [TaskEffect] at h
    split at h
    · rcases Task.sleepUnlessWoken_ok h with ⟨_, rfl⟩ | ⟨_, h2, rfl⟩
      · rfl
      · rw [h2]; rfl
    · rw [h]
  | park =>
    simp only [TaskEffect] at h
    split at h
    · obtain ⟨b, h⟩ := h
      rcases Task.park_ok h with rfl | ⟨h2, rfl⟩
      · rfl
      · rw [h2]; rfl
    · rw [h]
  | unpark t =>
    simp only [TaskEffect] at h
    split at h
    · rcases Task.unpark_ok h with ⟨h2, rfl⟩ | ⟨_, rfl⟩
      · rw [h2]; rfl
      · rfl
    · rw [h]
  | other =>
    obtain ⟨h1, _, _⟩ := h
    simp only [Task.finished, h1]

/-- the `woken` flag follows the ghost flag (for an unfinished task, in a live execution) -/
theorem TaskEffect.woken_eq {me i : Nat} {r : Req} {tk tk' : Task}
    (h : TaskEffect me i true r tk tk') (hf : tk.finished = false) :
    tk'.woken = ghostStep i me tk.woken r := by
  cases r with
  | wake t =>
    simp only [TaskEffect] at h
    split at h
    · rename_i hc
      rcases Task.wake_ok h with ⟨_, rfl⟩ | ⟨_, rfl⟩ <;> simp [ghostStep, hc.1]
    · rename_i hc
      have : t ≠ i := fun ht => hc ⟨ht, trivial, hf⟩
      rw [h]; simp [ghostStep, this]
  | unblock t =>
    simp only [TaskEffect] at h
    split at h
    · obtain ⟨rfl, _⟩ := Task.unblock_ok h
      rfl
    · rw [h]; rfl
  | blockTask t =>
    simp only [TaskEffect] at h
    split at h
    · obtain ⟨rfl, _⟩ := Task.block_ok h
      rfl
    · rw [h]; rfl
  | block =>
    simp only [TaskEffect] at h
    split at h
    · obtain ⟨sp, h⟩ := h
      obtain ⟨rfl, _⟩ := Task.block_ok h
      rfl
    · rw [h]; rfl
  | sleepUnlessWoken =>
    simp only [TaskEffect] at h
    split at h
    · rename_i hme
      rcases Task.sleepUnlessWoken_ok h with ⟨_, rfl⟩ | ⟨_, _, rfl⟩ <;> simp [ghostStep, hme]
    · rename_i hme
      rw [h]; simp [ghostStep, hme]
  | park =>
    simp only [TaskEffect] at h
    split at h
    · obtain ⟨b, h⟩ := h
      rcases Task.park_ok h with rfl | ⟨_, rfl⟩ <;> rfl
    · rw [h]; rfl
  | unpark t =>
    simp only [TaskEffect] at h
    split at h
    · rcases Task.unpark_ok h with ⟨_, rfl⟩ | ⟨_, rfl⟩ <;> rfl
    · rw [h]; rfl
  | other =>
    obtain ⟨_, h2, _⟩ := h
    rw [h2]; rfl

/-- a task becomes `Sleeping` only through its own `sleep_unless_woken` with the flag down; `Sleeping ⇒ !woken`
is preserved by every request -/
theorem TaskEffect.sleeping_inv {me i : Nat} {live : Bool} {r : Req} {tk tk' : Task}
    (h : TaskEffect me i live r tk tk') (hi : tk.state = .sleeping → tk.woken = false)
    (hs : tk'.state = .sleeping) :
    tk'.woken = false ∧ (tk.state = .sleeping ∨ (me = i ∧ r = .sleepUnlessWoken ∧ tk.woken = false)) := by
  cases r with
  | wake t =>
    simp only [TaskEffect] at h
    split at h
    · rcases Task.wake_ok h with ⟨_, rfl⟩ | ⟨h1, rfl⟩
      · cases hs
      · exact absurd hs h1
    · subst h; exact ⟨hi hs, Or.inl hs⟩
  | unblock t =>
    simp only [TaskEffect] at h
    split at h
    · obtain ⟨rfl, _⟩ := Task.unblock_ok h
      cases hs
    · subst h; exact ⟨hi hs, Or.inl hs⟩
  | blockTask t =>
    simp only [TaskEffect] at h
    split at h
    · obtain ⟨rfl, _⟩ := Task.block_ok h
      cases hs
    · subst h; exact ⟨hi hs, Or.inl hs⟩
  | block =>
    simp only [TaskEffect] at h
    split at h
    · obtain ⟨sp, h⟩ := h
      obtain ⟨rfl, _⟩ := Task.block_ok h
      cases hs
    · subst h; exact ⟨hi hs, Or.inl hs⟩
  | sleepUnlessWoken =>
    simp only [TaskEffect] at h
    split at h
    · rename_i hme
      rcases Task.sleepUnlessWoken_ok h with ⟨_, rfl⟩ | ⟨hw, _, rfl⟩
      · exact ⟨rfl, Or.inl hs⟩
      · exact ⟨rfl, Or.inr ⟨hme, rfl, hw⟩⟩
    · subst h; exact ⟨hi hs, Or.inl hs⟩
  | park =>
    simp only [TaskEffect] at h
    split at h
    · obtain ⟨b, h⟩ := h
      rcases Task.park_ok h with rfl | ⟨_, rfl⟩
      · exact ⟨hi hs, Or.inl hs⟩
      · cases hs
    · subst h; exact ⟨hi hs, Or.inl hs⟩
  | unpark t =>
    simp only [TaskEffect] at h
    split at h
    · rcases Task.unpark_ok h with ⟨_, rfl⟩ | ⟨_, rfl⟩
      · cases hs
      · exact ⟨hi hs, Or.inl hs⟩
    · subst h; exact ⟨hi hs, Or.inl hs⟩
  | other =>
    obtain ⟨h1, h2, _⟩ := h
    rw [h1] at hs
    exact ⟨by rw [h2]; exact hi hs, Or.inl hs⟩

/-- a `Sleeping` task stays exactly as it is (`state`, `woken`, `detached`-monotone) under every request of
another task except `wake` / `unblock` / `block` addressed to it -/
theorem TaskEffect.sleeping_stable {me i : Nat} {live : Bool} {r : Req} {tk tk' : Task}
    (h : TaskEffect me i live r tk tk') (hs : tk.state = .sleeping) (hme : me ≠ i)
    (hd : disturbs i r = false) : tk'.state = .sleeping ∧ tk'.woken = tk.woken := by
  cases r with
  | wake t =>
    have : t ≠ i := by simpa [disturbs] using hd
    simp only [TaskEffect] at h
    rw [if_neg (fun hc => this hc.1)] at h
    subst h; exact ⟨hs, rfl⟩
  | unblock t =>
    have : t ≠ i := by simpa [disturbs] using hd
    simp only [TaskEffect, if_neg this] at h
    subst h; exact ⟨hs, rfl⟩
  | blockTask t =>
    have : t ≠ i := by simpa [disturbs] using hd
    simp only [TaskEffect, if_neg this] at h
    subst h; exact ⟨hs, rfl⟩
  | block =>
    simp only [TaskEffect, if_neg hme] at h
    subst h; exact ⟨hs, rfl⟩
  | sleepUnlessWoken =>
    simp only [TaskEffect, if_neg hme] at h
    subst h; exact ⟨hs, rfl⟩
  | park =>
    simp only [TaskEffect, if_neg hme] at h
    subst h; exact ⟨hs, rfl⟩
  | unpark t =>
    simp only [TaskEffect] at h
    split at h
    · rw [Task.unpark_sleeping h hs]
      exact ⟨hs, rfl⟩
    · subst h; exact ⟨hs, rfl⟩
  | other =>
    obtain ⟨h1, h2, _⟩ := h
    exact ⟨by rw [h1]; exact hs, h2⟩

/-- `detached` is never cleared -/
theorem TaskEffect.detached_mono {me i : Nat} {live : Bool} {r : Req} {tk tk' : Task}
    (h : TaskEffect me i live r tk tk') (hd : tk.detached = true) : tk'.detached = true := by
  cases r with
  | wake t =>
    simp only [TaskEffect] at h
    split at h
    · rcases Task.wake_ok h with ⟨_, rfl⟩ | ⟨_, rfl⟩ <;> exact hd
    · rw [h]; exact hd
  | unblock t =>
    simp only [TaskEffect] at h
    split at h
    · obtain ⟨rfl, _⟩ := Task.unblock_ok h
      exact hd
    · rw [h]; exact hd
  | blockTask t =>
    simp only [TaskEffect] at h
    split at h
    · obtain ⟨rfl, _⟩ := Task.block_ok h
      exact hd
    · rw [h]; exact hd
  | block =>
    simp only [TaskEffect] at h
    split at h
    · obtain ⟨sp, h⟩ := h
      obtain ⟨rfl, _⟩ := Task.block_ok h
      exact hd
    · rw [h]; exact hd
  | sleepUnlessWoken =>
    simp only [TaskEffect] at h
    split at h
    · rcases Task.sleepUnlessWoken_ok h with ⟨_, rfl⟩ | ⟨_, _, rfl⟩ <;> exact hd
    · rw [h]; exact hd
  | park =>
    simp only [TaskEffect] at h
    split at h
    · obtain ⟨b, h⟩ := h
      rcases Task.park_ok h with rfl | ⟨_, rfl⟩ <;> exact hd
    · rw [h]; exact hd
  | unpark t =>
    simp only [TaskEffect] at h
    split at h
    · rcases Task.unpark_ok h with ⟨_, rfl⟩ | ⟨_, rfl⟩ <;> exact hd
    · rw [h]; exact hd
  | other => exact h.2.2 hd

variable {P : Program} {σ : Type}

/-- every task of the state after a request is an old task (with the request's effect) or a fresh one -/
theorem KStep.cases_new {me : Nat} {r : Req} {st st' : ExecState P σ} (h : KStep me r st st') (i : Nat)
    (tk' : Task) (hi : st'.k.tasks[i]? = some tk') :
    (∃ tk, st.k.tasks[i]? = some tk ∧ TaskEffect me i (liveCur st.k.current) r tk tk') ∨
    (st.k.tasks[i]? = none ∧ tk'.state = .runnable ∧ tk'.woken = false ∧ tk'.detached = false) := by
  cases ho : st.k.tasks[i]? with
  | some tk =>
    obtain ⟨tk'', h1, h2⟩ := h.old i tk ho
    rw [hi] at h1
    cases h1
    exact Or.inl ⟨tk, rfl, h2⟩
  | none =>
    exact Or.inr ⟨rfl, h.fresh i tk' (List.getElem?_eq_none_iff.mp ho) hi⟩

/-! ### ghost-state induction over a segment -/

/-- Induction over a segment with a ghost variable `g` that is updated by every executed request: if
`I g tasks current` holds initially and every request preserves it (w.r.t. the update), it holds — with the ghost
folded over the requests executed so far — in every intermediate state and in the final state. -/
theorem KTrace.ghost_inv {G : Type} {S : Scheduler σ} {me : Nat} (upd : G → Req → G)
    (I : G → List Task → Cur → Prop)
    (hstep : ∀ g r (st st' : ExecState P σ), I g st.k.tasks st.k.current → KStep me r st st' →
      I (upd g r) st'.k.tasks st'.k.current)
    {st : ExecState P σ} {p : Prog P.U Unit} {l : List (Req × ExecState P σ)} {e : SegEnd P σ}
    (h : KTrace S me st p l e) (g0 : G) (h0 : I g0 st.k.tasks st.k.current) :
    (∀ a x b, l = a ++ x :: b →
      I (((a ++ [x]).map (·.1)).foldl upd g0) x.2.k.tasks x.2.k.current) ∧
    I ((l.map (·.1)).foldl upd g0) e.st.k.tasks e.st.k.current := by
  induction h generalizing g0 with
  | done st p e he =>
    refine ⟨?_, ?_⟩
    · intro a x b hl
      cases a <;> cases hl
    · rw [he.1, he.2]; exact h0
  | unwind st msg pk apk l e _ ih => exact ih g0 h0
  | step o kont st st' b l e hs _ ih =>
    have h1 := hstep g0 _ st st' h0 hs
    obtain ⟨ih1, ih2⟩ := ih (upd g0 (req o)) h1
    refine ⟨?_, ?_⟩
    · intro a x b' hl
      cases a with
      | nil =>
        simp only [List.nil_append, List.cons.injEq] at hl
        obtain ⟨rfl, _⟩ := hl
        exact h1
      | cons y a' =>
        simp only [List.cons_append, List.cons.injEq] at hl
        obtain ⟨rfl, hl⟩ := hl
        have := ih1 a' x b' hl
        simpa using this
    · simpa using ih2

/-! ### iterations and reachability, annotated with the executed requests -/

/-- a continuing iteration of `run_to_completion` at loop head `st`: the scheduler chose the offered task `t`,
whose segment executed the requests `l`; `b` is the next loop head -/
def IterEv (S : Scheduler σ) (segFuel : Nat) (st : ExecState P σ) (t : Nat)
    (l : List (Req × ExecState P σ)) (b : ExecState P σ) : Prop :=
  ∃ s' p, Consults st.k ∧ ask S st.k st.sch = (.choose (some t), s') ∧ t ∈ st.k.offered ∧
    st.conts[t]? = some p ∧
    KTrace S t (segStart st t s') p l (runSegment S t segFuel (segStart st t s') p) ∧
    finishSeg t (runSegment S t segFuel (segStart st t s') p) = .inr b

theorem iterEv_of_loopStep {S : Scheduler σ} {segFuel : Nat} {st b : ExecState P σ}
    (hn : st.k.next = .none) (hc : st.conts.length = st.k.tasks.length)
    (h : loopStep S segFuel st = .inr b) : ∃ t l, IterEv S segFuel st t l b := by
  obtain ⟨t, s', p, h1, h2, h3, h4, h5⟩ := (loopStep_spec S segFuel st hn hc).inr_inv h
  obtain ⟨l, hl⟩ := runSegment_ktrace S t segFuel (segStart st t s') p
  exact ⟨t, l, s', p, h1, h2, h3, h4, hl, h5⟩

theorem IterEv.loopStep {S : Scheduler σ} {segFuel : Nat} {st b : ExecState P σ} {t : Nat}
    {l : List (Req × ExecState P σ)} (hn : st.k.next = .none) (hc : st.conts.length = st.k.tasks.length)
    (h : IterEv S segFuel st t l b) : Kernel.loopStep S segFuel st = .inr b := by
  obtain ⟨s', p, h1, h2, h3, h4, _, h6⟩ := h
  have hs := loopStep_spec S segFuel st hn hc
  generalize Kernel.loopStep S segFuel st = x at hs
  cases hs with
  | boundFail n a b => exact absurd a (fun a => by have := h1.bound; unfold BoundOK at this; rw [a] at this; simp_all)
  | boundStop n a b => exact absurd a (fun a => by have := h1.bound; unfold BoundOK at this; rw [a] at this; simp_all)
  | deadlock a b c => rw [h1.goOn] at b; cases b
  | ok a b c => rw [h1.goOn] at b; cases b
  | schedPanic msg s'' a b => rw [h2] at b; cases b
  | choseBad t' msg s'' a b c => rw [h2] at b; cases b; exact absurd h3 c
  | choseNone s'' a b => rw [h2] at b; cases b
  | chose t' s'' p' a b c d =>
    rw [h2] at b
    cases b
    rw [h4] at d
    cases d
    exact h6

/-- the tasks at the start of the chosen task's segment: the loop head's, except that a chosen task that was
blocked with spurious wake-ups allowed has been un-blocked -/
theorem segStart_tasks (st : ExecState P σ) (t : Nat) (s' : σ) (hoff : t ∈ st.k.offered) :
    (segStart st t s').k.current = .some t ∧
    ((segStart st t s').k.tasks = st.k.tasks ∨
      ∃ tk, st.k.tasks[t]? = some tk ∧ tk.state = .blocked true ∧
        (segStart st t s').k.tasks = st.k.tasks.set t { tk with state := .runnable, blockedInPark := false }) := by
  refine ⟨rfl, ?_⟩
  obtain ⟨tk, hk, hr⟩ := mem_offered.mp hoff
  simp only [segStart, chosenK, wokenTasks, hk]
  cases hrun : tk.runnable
  · right
    rcases hr with hr | hr
    · rw [hrun] at hr; cases hr
    · exact ⟨tk, rfl, (Task.canSpuriouslyWakeup_iff tk).mp hr, by simp⟩
  · left; simp

/-- Induction over one iteration with a ghost variable. -/
theorem IterEv.ghost_inv {G : Type} {S : Scheduler σ} {segFuel : Nat} {st b : ExecState P σ} {t : Nat}
    {l : List (Req × ExecState P σ)} (h : IterEv S segFuel st t l b) (upd : G → Req → G)
    (I : G → List Task → Prop) (g0 : G)
    (hsched : ∀ tk, st.k.tasks[t]? = some tk → tk.state = .blocked true → I g0 st.k.tasks →
      I g0 (st.k.tasks.set t { tk with state := .runnable, blockedInPark := false }))
    (hstep : ∀ g r (st1 st2 : ExecState P σ), st1.k.current = .some t → I g st1.k.tasks → KStep t r st1 st2 →
      I (upd g r) st2.k.tasks)
    (hfin : ∀ g ts tk tk', I g ts → ts[t]? = some tk → tk.finish = .ok tk' → I g (ts.set t tk'))
    (h0 : I g0 st.k.tasks) :
    I ((l.map (·.1)).foldl upd g0) b.k.tasks := by
  obtain ⟨s', p, _, _, hoff, _, htr, hfs⟩ := h
  obtain ⟨hcur, hts⟩ := segStart_tasks st t s' hoff
  have hstart : I g0 (segStart st t s').k.tasks := by
    rcases hts with hts | ⟨tk, hk, hs, hts⟩
    · rw [hts]; exact h0
    · rw [hts]; exact hsched tk hk hs h0
  have hseg := (KTrace.ghost_inv upd (fun g ts c => c = .some t ∧ I g ts)
    (fun g r st1 st2 hi hs => ⟨by rw [hs.current]; exact hi.1, hstep g r st1 st2 hi.1 hi.2 hs⟩)
    htr g0 ⟨hcur, hstart⟩).2.2
  generalize runSegment S t segFuel (segStart st t s') p = e at hfs hseg
  cases e with
  | atSwitch st' =>
    simp only [finishSeg, Sum.inr.injEq] at hfs
    subst hfs
    exact hseg
  | returned st' =>
    simp only [finishSeg] at hfs
    cases hm : st'.k.modTask t (fun x => x.finish) with
    | error e => rw [hm] at hfs; cases hfs
    | ok k' =>
      rw [hm] at hfs
      simp only [Sum.inr.injEq] at hfs
      obtain ⟨tk, tk', h1, h2, rfl⟩ := modTask_ok hm
      subst hfs
      exact hfin _ _ tk tk' hseg h1 h2
  | panicked msg st' => cases hfs
  | schedPanic msg st' => cases hfs
  | outOfFuel st' => cases hfs
  | aborted msg st' => cases hfs

/-- loop head `st'` is reached from loop head `st`; `evs` = the requests executed on the way, each with the
task that issued it, in execution order -/
inductive ReachEv (S : Scheduler σ) (segFuel : Nat) :
    ExecState P σ → List (Nat × Req) → ExecState P σ → Prop
  | refl (st : ExecState P σ) : ReachEv S segFuel st [] st
  | tail {st0 st b : ExecState P σ} {evs : List (Nat × Req)} {t : Nat} {l : List (Req × ExecState P σ)} :
      ReachEv S segFuel st0 evs st → IterEv S segFuel st t l b →
      ReachEv S segFuel st0 (evs ++ l.map (fun x => (t, x.1))) b

theorem reachEv_of_reachN {S : Scheduler σ} {segFuel : Nat} {ms : MaxSteps} {n : Nat} {st0 st : ExecState P σ}
    (hi : LoopInv ms st0) (h : ReachN S segFuel n st0 st) : ∃ evs, ReachEv S segFuel st0 evs st := by
  induction n generalizing st with
  | zero =>
    cases h
    exact ⟨[], .refl _⟩
  | succ n ih =>
    -- peel the last iteration
    have : ∃ mid, ReachN S segFuel n st0 mid ∧ loopStep S segFuel mid = .inr st := by
      clear ih hi
      generalize hm : n + 1 = m at h
      induction h generalizing n with
      | refl st => cases hm
      | @head k a b c h1 h2 ih2 =>
        cases n with
        | zero =>
          have : k = 0 := by omega
          subst this
          cases h2
          exact ⟨a, .refl a, h1⟩
        | succ n' =>
          obtain ⟨mid, hm1, hm2⟩ := ih2 n' (by omega)
          exact ⟨mid, .head h1 hm1, hm2⟩
    obtain ⟨mid, hm1, hm2⟩ := this
    obtain ⟨evs, he⟩ := ih hm1
    have him : LoopInv ms mid := hi.reach ⟨n, hm1⟩
    obtain ⟨t, l, hit⟩ := iterEv_of_loopStep him.next him.conts hm2
    exact ⟨_, .tail he hit⟩

/-- ghost flag of task `i` over a global event list -/
def wokenGhost (i : Nat) (w : Bool) (evs : List (Nat × Req)) : Bool :=
  evs.foldl (fun w e => ghostStep i e.1 w e.2) w

theorem wokenGhost_append (i : Nat) (w : Bool) (a b : List (Nat × Req)) :
    wokenGhost i w (a ++ b) = wokenGhost i (wokenGhost i w a) b := by
  simp [wokenGhost, List.foldl_append]

theorem wokenGhost_map (i t : Nat) (w : Bool) (l : List Req) :
    wokenGhost i w (l.map (fun r => (t, r))) = l.foldl (ghostStep i t) w := by
  simp [wokenGhost, List.foldl_map]

end ShuttleProofs.C17
