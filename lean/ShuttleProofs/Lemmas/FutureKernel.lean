import ShuttleProofs.Lemmas.KernelExamples
/-!
# C17 helpers, part 1: a task-precise relational semantics of `runSegment`

The relational semantics of `Lemmas/KernelSegment.lean` (`SegStep`) abstracts every update of the task table
to "some task's fields changed".  The properties of the async layer are about exactly those fields (`state`,
`woken`), so this file gives a second, finer view of the same function:

* `Req`                — the label of a kernel request (what matters for `state` / `woken`);
* `TaskEffect me i live r tk tk'` — what an executed request labelled `r`, issued by task `me`, does to the
                         record of task `i` (`live` = `current_task` is neither `Stopped` nor `Finished`);
* `KStep me r st st'`  — one executed request that lets the segment continue;
* `KTrace S me st p l e` — running `p` from `st` ends with `e` after executing the requests `l` (each with the
                         state it produced);
* `runSegment_ktrace`  — soundness: every `runSegment` result has a `KTrace`.
-/

namespace ShuttleProofs.C17
open ShuttleModel ShuttleProofs.Kernel

/-! ### `Task::wake`, `Task::sleep_unless_woken` -/

theorem Task.wake_sleeping (t : Task) (h : t.state = .sleeping) :
    t.wake = .ok { t with woken := true, state := .runnable, blockedInPark := false } := by
  simp [Task.wake, Task.sleeping, Task.unblock, Task.finished, h]

theorem Task.wake_not_sleeping (t : Task) (h : t.state ≠ .sleeping) :
    t.wake = .ok { t with woken := true } := by
  simp [Task.wake, Task.sleeping, h]

theorem Task.sleepUnlessWoken_woken (t : Task) (h : t.woken = true) :
    t.sleepUnlessWoken = .ok { t with woken := false } := by
  simp [Task.sleepUnlessWoken, h]

theorem Task.sleepUnlessWoken_not_woken (t : Task) (h : t.woken = false) (hf : t.state ≠ .finished) :
    t.sleepUnlessWoken = .ok { t with woken := false, state := .sleeping } := by
  simp [Task.sleepUnlessWoken, h, Task.sleep, Task.finished, hf]

theorem Task.sleepUnlessWoken_finished (t : Task) (h : t.woken = false) (hf : t.state = .finished) :
    ∃ e, t.sleepUnlessWoken = .error e := by
  simp [Task.sleepUnlessWoken, h, Task.sleep, Task.finished, hf]

theorem Task.setWaiter_ok {tk tk' : Task} {w : Nat} {b : Bool} (h : tk.setWaiter w = .ok (b, tk')) :
    tk'.state = tk.state ∧ tk'.woken = tk.woken ∧ tk'.detached = tk.detached := by
  unfold Task.setWaiter at h
  split at h
  · cases h
  · split at h <;>
      (simp only [Except.ok.injEq, Prod.mk.injEq] at h; obtain ⟨_, rfl⟩ := h; exact ⟨rfl, rfl, rfl⟩)

/-! ### labels -/

/-- what a kernel request is, as far as the `state` and `woken` fields of tasks are concerned -/
inductive Req where
  | wake (t : Nat)
  | unblock (t : Nat)
  | blockTask (t : Nat)
  | block
  | sleepUnlessWoken
  | park
  | unpark (t : Nat)
  | other
deriving DecidableEq, Repr

def req {U : Type} : {β : Type} → KOp U β → Req
  | _, .wake t => .wake t
  | _, .unblock t => .unblock t
  | _, .blockTask t => .blockTask t
  | _, .block _ => .block
  | _, .sleepUnlessWoken => .sleepUnlessWoken
  | _, .park => .park
  | _, .unpark t => .unpark t
  | _, _ => .other

/-- `!ExecutionState::is_finished()` -/
def liveCur (c : Cur) : Bool := !(c == .stopped || c == .finished)

/-- What an executed request labelled `r`, issued by task `me`, does to the record `tk` of task `i`. -/
def TaskEffect (me i : Nat) (live : Bool) : Req → Task → Task → Prop
  | .wake t, tk, tk' =>
    if t = i ∧ live = true ∧ tk.finished = false then tk.wake = .ok tk' else tk' = tk
  | .unblock t, tk, tk' => if t = i then tk.unblock = .ok tk' else tk' = tk
  | .blockTask t, tk, tk' => if t = i then tk.block false = .ok tk' else tk' = tk
  | .block, tk, tk' => if me = i then ∃ sp, tk.block sp = .ok tk' else tk' = tk
  | .sleepUnlessWoken, tk, tk' => if me = i then tk.sleepUnlessWoken = .ok tk' else tk' = tk
  | .park, tk, tk' => if me = i then ∃ b, tk.park = .ok (b, tk') else tk' = tk
  | .unpark t, tk, tk' => if t = i then tk.unpark = .ok tk' else tk' = tk
  | .other, tk, tk' =>
    tk'.state = tk.state ∧ tk'.woken = tk.woken ∧ (tk.detached = true → tk'.detached = true)

variable {P : Program} {σ : Type}

/-- one executed request (issued by `me`, labelled `r`) after which the segment continues -/
structure KStep (me : Nat) (r : Req) (st st' : ExecState P σ) : Prop where
  current : st'.k.current = st.k.current
  len : st.k.tasks.length ≤ st'.k.tasks.length
  old : ∀ i tk, st.k.tasks[i]? = some tk →
    ∃ tk', st'.k.tasks[i]? = some tk' ∧ TaskEffect me i (liveCur st.k.current) r tk tk'
  /-- tasks created by the request are fresh -/
  fresh : ∀ i tk', st.k.tasks.length ≤ i → st'.k.tasks[i]? = some tk' →
    tk'.state = .runnable ∧ tk'.woken = false ∧ tk'.detached = false
  /-- an effective `wake` is for a known task (`get_mut` panics otherwise) -/
  wakeKnown : ∀ t, r = .wake t → liveCur st.k.current = true → t < st.k.tasks.length

/-- the way a segment ends: the task table and `current_task` are those of the last state -/
def KEnd (st : ExecState P σ) (e : SegEnd P σ) : Prop :=
  e.st.k.tasks = st.k.tasks ∧ e.st.k.current = st.k.current

theorem TaskEffect.other_refl (me i : Nat) (live : Bool) (tk : Task) : TaskEffect me i live .other tk tk :=
  ⟨rfl, rfl, fun h => h⟩

/-- the request changed nothing in the task table -/
theorem KStep.of_tasks_eq (me : Nat) {st st' : ExecState P σ} (ht : st'.k.tasks = st.k.tasks)
    (hc : st'.k.current = st.k.current) : KStep me .other st st' where
  current := hc
  len := by rw [ht]; exact Nat.le_refl _
  old := fun i tk h => ⟨tk, by rw [ht]; exact h, TaskEffect.other_refl me i _ tk⟩
  fresh := fun i tk' hi h => by
    rw [ht] at h
    have := (List.getElem?_eq_some_iff.mp h).1
    omega
  wakeKnown := fun t h => by cases h

/-- the request replaced the record of task `t` -/
theorem KStep.of_setTask (me : Nat) (r : Req) {st : ExecState P σ} {t : Nat} {tk0 tk0' : Task}
    (hk : st.k.tasks[t]? = some tk0)
    (hself : TaskEffect me t (liveCur st.k.current) r tk0 tk0')
    (hoth : ∀ i tk, i ≠ t → TaskEffect me i (liveCur st.k.current) r tk tk)
    (hw : ∀ t', r = .wake t' → t' = t) :
    KStep me r st { st with k := st.k.setTask t tk0' } where
  current := rfl
  len := by simp [Kernel.setTask]
  old := fun i tk h => by
    by_cases hi : i = t
    · subst hi
      rw [hk] at h
      cases h
      refine ⟨tk0', ?_, hself⟩
      simp only [Kernel.setTask]
      rw [List.getElem?_set_self (List.getElem?_eq_some_iff.mp hk).1]
    · refine ⟨tk, ?_, hoth i tk hi⟩
      simp only [Kernel.setTask]
      rw [List.getElem?_set_ne (Ne.symm hi)]
      exact h
  fresh := fun i tk' hi h => by
    simp only [Kernel.setTask] at h
    have := (List.getElem?_eq_some_iff.mp h).1
    simp only [List.length_set] at this
    omega
  wakeKnown := fun t' h _ => by
    rw [hw t' h]
    exact (List.getElem?_eq_some_iff.mp hk).1

/-! ### one request -/

/-- what one request does, task-precisely -/
def KOutcome (S : Scheduler σ) (me fuel : Nat) (st : ExecState P σ) {β : Type} (o : KOp P.U β)
    (kont : β → Prog P.U Unit) (e : SegEnd P σ) : Prop :=
  (∃ b st', KStep me (req o) st st' ∧ e = runSegment S me fuel st' (kont b)) ∨ KEnd st e

theorem kend_panicked (st : ExecState P σ) (msg : String) : KEnd st (.panicked msg st) := ⟨rfl, rfl⟩

theorem onTask_koutcome (S : Scheduler σ) (me fuel : Nat) (st : ExecState P σ) {β : Type} (o : KOp P.U β)
    (kont : β → Prog P.U Unit) (b : β) (t : Nat) (f : Task → Except String Task)
    (hself : ∀ tk tk', st.k.tasks[t]? = some tk → f tk = .ok tk' →
      TaskEffect me t (liveCur st.k.current) (req o) tk tk')
    (hoth : ∀ i tk, i ≠ t → TaskEffect me i (liveCur st.k.current) (req o) tk tk)
    (hw : ∀ t', req o = .wake t' → t' = t) :
    KOutcome S me fuel st o kont
      (match st.k.modTask t f with
        | .ok k' => runSegment S me fuel { st with k := k' } (kont b)
        | .error e => SegEnd.panicked e st) := by
  cases h : st.k.modTask t f with
  | error e => exact Or.inr (kend_panicked st e)
  | ok k' =>
    obtain ⟨tk, tk', h1, h2, rfl⟩ := modTask_ok h
    exact Or.inl ⟨b, _, KStep.of_setTask me (req o) h1 (hself tk tk' h1 h2) hoth hw, rfl⟩

theorem same_koutcome (S : Scheduler σ) (me fuel : Nat) (st st' : ExecState P σ) {β : Type} (o : KOp P.U β)
    (hr : req o = .other) (kont : β → Prog P.U Unit) (b : β) (ht : st'.k.tasks = st.k.tasks)
    (hc : st'.k.current = st.k.current) :
    KOutcome S me fuel st o kont (runSegment S me fuel st' (kont b)) :=
  Or.inl ⟨b, st', by rw [hr]; exact KStep.of_tasks_eq me ht hc, rfl⟩

/-- a request that updates fields other than `state`, `woken` of one task (`detached` only upwards) -/
theorem setOther_koutcome (S : Scheduler σ) (me fuel : Nat) (st : ExecState P σ) {β : Type} (o : KOp P.U β)
    (hr : req o = .other) (kont : β → Prog P.U Unit) (b : β) (t : Nat) (tk tk' : Task)
    (hk : st.k.tasks[t]? = some tk) (h1 : tk'.state = tk.state) (h2 : tk'.woken = tk.woken)
    (h3 : tk.detached = true → tk'.detached = true) :
    KOutcome S me fuel st o kont (runSegment S me fuel { st with k := st.k.setTask t tk' } (kont b)) := by
  refine Or.inl ⟨b, _, ?_, rfl⟩
  rw [hr]
  exact KStep.of_setTask me .other hk ⟨h1, h2, h3⟩ (fun i tk _ => TaskEffect.other_refl me i _ tk)
    (fun t' h => by cases h)

theorem spawn_kstep (me : Nat) (st : ExecState P σ) (body : Nat) :
    KStep me .other st
      { st with k := (st.k.spawnTask (some me)).2, conts := st.conts ++ [P.bodies body] } := by
  simp only [Kernel.spawnTask, Kernel.getTask?]
  cases h : st.k.tasks[me]? with
  | none => exact KStep.of_tasks_eq me rfl rfl
  | some ptk =>
    have hlt : me < st.k.tasks.length := (List.getElem?_eq_some_iff.mp h).1
    refine ⟨rfl, by simp [Kernel.setTask], ?_, ?_, fun t h => by cases h⟩
    · intro i tk hi
      have hilt : i < st.k.tasks.length := (List.getElem?_eq_some_iff.mp hi).1
      simp only [Kernel.setTask]
      rw [List.getElem?_append_left (by simpa using hilt)]
      by_cases him : i = me
      · subst him
        rw [h] at hi; cases hi
        rw [List.getElem?_set_self hlt]
        exact ⟨_, rfl, rfl, rfl, fun h => h⟩
      · rw [List.getElem?_set_ne (Ne.symm him)]
        exact ⟨tk, hi, TaskEffect.other_refl me i _ tk⟩
    · intro i tk' hi hg
      simp only [Kernel.setTask] at hg
      rw [List.getElem?_append_right (by simpa using hi)] at hg
      simp only [List.length_set] at hg
      cases hd : i - st.k.tasks.length with
      | zero =>
        rw [hd] at hg
        simp only [List.getElem?_cons_zero, Option.some.injEq] at hg
        subst hg
        exact ⟨rfl, rfl, rfl⟩
      | succ n => rw [hd] at hg; simp at hg

theorem runSegment_kop (S : Scheduler σ) (me fuel : Nat) (st : ExecState P σ) {β : Type} (o : KOp P.U β)
    (kont : β → Prog P.U Unit) :
    KOutcome S me fuel st o kont (runSegment S me (fuel + 1) st (.op o kont)) := by
  cases o with
  | switch => rw [runSegment]; exact Or.inr ⟨rfl, rfl⟩
  | me => rw [runSegment]; exact same_koutcome S me fuel st st _ rfl kont _ rfl rfl
  | getU => rw [runSegment]; exact same_koutcome S me fuel st st _ rfl kont _ rfl rfl
  | setU u => rw [runSegment]; exact same_koutcome S me fuel st _ _ rfl kont _ rfl rfl
  | emit s => rw [runSegment]; exact same_koutcome S me fuel st _ _ rfl kont _ rfl rfl
  | block sp =>
    rw [runSegment]
    refine onTask_koutcome S me fuel st _ kont () me _ ?_ ?_ (fun t' h => by cases h)
    · intro tk tk' _ hf
      simp only [req, TaskEffect, if_true]
      exact ⟨sp, hf⟩
    · intro i tk hi
      simp only [req, TaskEffect, if_neg (Ne.symm hi)]
  | blockTask t =>
    rw [runSegment]
    refine onTask_koutcome S me fuel st _ kont () t _ ?_ ?_ (fun t' h => by cases h)
    · intro tk tk' _ hf
      simp only [req, TaskEffect, if_true]
      exact hf
    · intro i tk hi
      simp only [req, TaskEffect, if_neg (Ne.symm hi)]
  | sleepUnlessWoken =>
    rw [runSegment]
    refine onTask_koutcome S me fuel st _ kont () me _ ?_ ?_ (fun t' h => by cases h)
    · intro tk tk' _ hf
      simp only [req, TaskEffect, if_true]
      exact hf
    · intro i tk hi
      simp only [req, TaskEffect, if_neg (Ne.symm hi)]
  | unblock t =>
    rw [runSegment]
    refine onTask_koutcome S me fuel st _ kont () t _ ?_ ?_ (fun t' h => by cases h)
    · intro tk tk' _ hf
      simp only [req, TaskEffect, if_true]
      exact hf
    · intro i tk hi
      simp only [req, TaskEffect, if_neg (Ne.symm hi)]
  | wake t =>
    rw [runSegment]
    split
    · -- the execution is over: no-op
      rename_i hc
      refine Or.inl ⟨(), st, ⟨rfl, Nat.le_refl _, ?_, ?_, ?_⟩, rfl⟩
      · intro i tk hi
        refine ⟨tk, hi, ?_⟩
        have : liveCur st.k.current = false := by simp [liveCur, hc]
        simp [req, TaskEffect, this]
      · intro i tk' hi h
        have := (List.getElem?_eq_some_iff.mp h).1
        omega
      · intro t' _ hl
        simp [liveCur, hc] at hl
    · rename_i hc
      have hlive : liveCur st.k.current = true := by
        cases h : (st.k.current == Cur.stopped || st.k.current == Cur.finished)
        · simp [liveCur, h]
        · exact absurd h hc
      split
      · exact Or.inr (kend_panicked st _)
      · rename_i tk hk
        split
        · -- the task is finished: no-op
          rename_i hfin
          refine Or.inl ⟨(), st, ⟨rfl, Nat.le_refl _, ?_, ?_, ?_⟩, rfl⟩
          · intro i tki hi
            refine ⟨tki, hi, ?_⟩
            by_cases hti : t = i
            · subst hti
              have : tki = tk := by
                simp only [Kernel.getTask?] at hk
                rw [hk] at hi; cases hi; rfl
              subst this
              simp [req, TaskEffect, hfin]
            · simp [req, TaskEffect, hti]
          · intro i tk' hi h
            have := (List.getElem?_eq_some_iff.mp h).1
            omega
          · intro t' h _
            simp only [req, Req.wake.injEq] at h
            subst h
            simp only [Kernel.getTask?] at hk
            exact (List.getElem?_eq_some_iff.mp hk).1
        · rename_i hfin
          refine onTask_koutcome S me fuel st _ kont () t _ ?_ ?_ ?_
          · intro tk1 tk' hk1 hf
            have : tk1 = tk := by
              simp only [Kernel.getTask?] at hk
              rw [hk] at hk1; cases hk1; rfl
            subst this
            have hfin' : tk1.finished = false := by simpa using hfin
            simp only [req, TaskEffect, hlive, hfin', and_self, if_true]
            exact hf
          · intro i tki hi
            show (if t = i ∧ liveCur st.k.current = true ∧ tki.finished = false then tki.wake = .ok tki
              else tki = tki)
            rw [if_neg (fun h => hi h.1.symm)]
          · intro t' h
            simp only [req, Req.wake.injEq] at h
            exact h.symm
  | isFinished t => rw [runSegment]; exact same_koutcome S me fuel st st _ rfl kont _ rfl rfl
  | requestYield => rw [runSegment]; exact same_koutcome S me fuel st _ _ rfl kont _ rfl rfl
  | rand =>
    rw [runSegment]
    rcases h : S.nextU64 st.sch with ⟨r, s'⟩
    cases r with
    | ok v => exact same_koutcome S me fuel st _ _ rfl kont _ rfl rfl
    | error e => exact Or.inr ⟨rfl, rfl⟩
  | spawn fut body =>
    rw [runSegment]
    exact Or.inl ⟨_, _, spawn_kstep me st body, rfl⟩
  | park =>
    rw [runSegment]
    split
    · exact Or.inr (kend_panicked st _)
    · rename_i tk hk
      split
      · rename_i b tk' hp
        refine Or.inl ⟨b, _, ?_, rfl⟩
        refine KStep.of_setTask me .park hk ?_ ?_ (fun t' h => by cases h)
        · simp only [TaskEffect, if_true]
          exact ⟨b, hp⟩
        · intro i tki hi
          simp only [TaskEffect, if_neg (Ne.symm hi)]
      · exact Or.inr (kend_panicked st _)
  | unpark t =>
    rw [runSegment]
    refine onTask_koutcome S me fuel st _ kont () t _ ?_ ?_ (fun t' h => by cases h)
    · intro tk tk' _ hf
      simp only [req, TaskEffect, if_true]
      exact hf
    · intro i tk hi
      simp only [req, TaskEffect, if_neg (Ne.symm hi)]
  | setWaiter target =>
    rw [runSegment]
    split
    · exact Or.inr (kend_panicked st _)
    · rename_i tk hk
      split
      · rename_i b tk' hp
        obtain ⟨h1, h2, h3⟩ := Task.setWaiter_ok hp
        exact setOther_koutcome S me fuel st _ rfl kont b target tk tk' hk h1 h2 (fun h => by rw [h3]; exact h)
      · exact Or.inr (kend_panicked st _)
  | takeWaiter =>
    rw [runSegment]
    split
    · exact Or.inr (kend_panicked st _)
    · rename_i tk hk
      exact setOther_koutcome S me fuel st _ rfl kont _ me tk _ hk rfl rfl (fun h => h)
  | detach t =>
    rw [runSegment]
    refine onTask_koutcome S me fuel st _ kont () t _ ?_ ?_ (fun t' h => by cases h)
    · intro tk tk' _ hf
      simp only [Except.ok.injEq] at hf
      subst hf
      exact ⟨rfl, rfl, fun _ => rfl⟩
    · intro i tk _
      exact TaskEffect.other_refl me i _ tk
  | clock => rw [runSegment]; exact same_koutcome S me fuel st st _ rfl kont _ rfl rfl
  | clockOf t => rw [runSegment]; exact same_koutcome S me fuel st st _ rfl kont _ rfl rfl
  | updateClock c =>
    rw [runSegment]
    refine onTask_koutcome S me fuel st _ kont () me _ ?_ ?_ (fun t' h => by cases h)
    · intro tk tk' _ hf
      simp only [Except.ok.injEq] at hf
      subst hf
      exact ⟨rfl, rfl, fun h => h⟩
    · intro i tk _
      exact TaskEffect.other_refl me i _ tk
  | incClock =>
    rw [runSegment]
    split
    · exact Or.inr (kend_panicked st _)
    · rename_i tk hk
      exact setOther_koutcome S me fuel st _ rfl kont _ me tk _ hk rfl rfl (fun h => h)
  | joinClockOf t c =>
    rw [runSegment]
    refine onTask_koutcome S me fuel st _ kont () t _ ?_ ?_ (fun t' h => by cases h)
    · intro tk tk' _ hf
      simp only [Except.ok.injEq] at hf
      subst hf
      exact ⟨rfl, rfl, fun h => h⟩
    · intro i tk _
      exact TaskEffect.other_refl me i _ tk
  | exitTruncates => rw [runSegment]; exact same_koutcome S me fuel st st _ rfl kont _ rfl rfl
  | resetSteps => rw [runSegment]; exact same_koutcome S me fuel st _ _ rfl kont _ rfl rfl
  | ctxSwitches => rw [runSegment]; exact same_koutcome S me fuel st st _ rfl kont _ rfl rfl
  | isPanicking => rw [runSegment]; exact same_koutcome S me fuel st st _ rfl kont _ rfl rfl

/-! ### traces -/

/-- `KTrace S me st p l e`: the segment of task `me` that runs `p` from `st` executes the requests `l` (each
paired with the state it produced) and ends with `e`, whose task table is that of the last state. -/
inductive KTrace (S : Scheduler σ) (me : Nat) :
    ExecState P σ → Prog P.U Unit → List (Req × ExecState P σ) → SegEnd P σ → Prop
  /-- the segment ends here: `switch`, the closure returned, a panic reached the run loop, fuel … -/
  | done (st : ExecState P σ) (p : Prog P.U Unit) (e : SegEnd P σ) : KEnd st e → KTrace S me st p [] e
  /-- a panic starts unwinding (only the panic bookkeeping changes) and the task goes on with its destructors -/
  | unwind (st : ExecState P σ) (msg : String) (pk : Option (Nat × String)) (apk : List (Nat × String))
      (l : List (Req × ExecState P σ)) (e : SegEnd P σ) :
      KTrace S me { st with k := { st.k with panicking := pk, alsoPanicking := apk } } (P.unwind me) l e →
      KTrace S me st (.panic msg) l e
  | step {β : Type} (o : KOp P.U β) (kont : β → Prog P.U Unit) (st st' : ExecState P σ) (b : β)
      (l : List (Req × ExecState P σ)) (e : SegEnd P σ) :
      KStep me (req o) st st' → KTrace S me st' (kont b) l e →
      KTrace S me st (.op o kont) ((req o, st') :: l) e

theorem runSegment_ktrace (S : Scheduler σ) (me : Nat) :
    ∀ (fuel : Nat) (st : ExecState P σ) (p : Prog P.U Unit),
      ∃ l, KTrace S me st p l (runSegment S me fuel st p)
  | 0, st, p => by rw [runSegment]; exact ⟨[], .done st p _ ⟨rfl, rfl⟩⟩
  | fuel + 1, st, .pure () => by
    rw [runSegment]
    refine ⟨[], .done st _ _ ?_⟩
    repeat' split
    all_goals exact ⟨rfl, rfl⟩
  | fuel + 1, st, .panic msg => by
    rw [runSegment]
    split
    · split
      · exact ⟨[], .done st _ _ ⟨rfl, rfl⟩⟩
      · obtain ⟨l, h⟩ := runSegment_ktrace S me fuel
          { st with k := { st.k with alsoPanicking := st.k.alsoPanicking ++ [(me, msg)] } } (P.unwind me)
        exact ⟨l, .unwind st msg st.k.panicking _ l _ h⟩
    · obtain ⟨l, h⟩ := runSegment_ktrace S me fuel
        { st with k := { st.k with panicking := some (me, msg) } } (P.unwind me)
      exact ⟨l, .unwind st msg _ st.k.alsoPanicking l _ h⟩
  | fuel + 1, st, .op o kont => by
    rcases runSegment_kop S me fuel st o kont with ⟨b, st', hs, he⟩ | hh
    · rw [he]
      obtain ⟨l, h⟩ := runSegment_ktrace S me fuel st' (kont b)
      exact ⟨_, .step o kont st st' b l _ hs h⟩
    · exact ⟨[], .done st _ _ hh⟩

end ShuttleProofs.C17
