import ShuttleProofs.C18
import ShuttleModel.Wrap.TokioMpsc
/-
  The most-general client of the tokio-wrapper mpsc channel over the PURE transitions of
  `ShuttleModel/Wrap/TokioMpsc.lean` and of the two `BatchSemaphore`s (`SemLts.step`, the layer the
  C18 theorems talk about).

  One `MOp` is one atomic state update a `Prog` wrapper of `Mpsc` performs between two scheduling
  points:

  * `sendSem op`  — any acquisition-side step on `send_semaphore` (`try_acquire`, `Acquire::new`,
                    a poll, `Drop for Acquire`, `close`): permits it hands out become `reserved`;
  * `unreserve`   — the `release(n)` by which a cancelled, already granted `Acquire` gives its
                    permits back (`Drop for Acquire`, second half);
  * `push v`      — `Channel::send` by a sender that holds a reserved permit (bounded channel);
                    when the channel is closed the message is refused and the permit stays reserved;
  * `recvSem op`  — any step on `recv_semaphore` (frame for the statements below);
  * `pop kind`    — `Channel::recv` (the pop itself) inside `recv` / `try_recv` / `blocking_recv`;
  * `giveSlot`    — the `send_semaphore.release(1)` that follows a pop in `recv` and `try_recv`
                    (and in the repaired `blocking_recv`);
  * `takeMessages`— `drop_receiver` discarding the buffered messages;
  * `cloneSender` / `dropSender` — the sender count.

  Ghost fields: `reserved` (send permits acquired whose message is not pushed yet), `owed` (pops
  whose `release(1)` is still to come), `leaked` (slots of popped / discarded messages that nobody
  will give back), `pushed` / `popped` / `discarded` (histories).
-/
namespace ShuttleModel
namespace Tokio
namespace MpscLts
open SemLts

inductive RecvKind where
  | recv
  | tryRecv
  | blockingRecv
deriving Repr, DecidableEq

inductive MOp where
  | sendSem (op : SemOp)
  | unreserve (task n : Nat) (clk : Clock)
  | push (v : Nat)
  | recvSem (op : SemOp)
  | pop (kind : RecvKind)
  | giveSlot (task : Nat) (clk : Clock)
  | takeMessages
  | cloneSender
  | dropSender
deriving Repr

structure M where
  s : TMpsc
  reserved : Nat := 0
  owed : Nat := 0
  leaked : Nat := 0
  pushed : List Nat := []
  popped : List Nat := []
  discarded : List Nat := []

/-- the steps of `send_semaphore` that are not releases -/
def acqSide : SemOp → Bool
  | .release _ _ _ => false
  | .poisonRelease _ _ => false
  | _ => true

/-- does this pop give its slot back later? (`fixedF4 = false`: `blocking_recv` as it is) -/
def returnsSlot (fixedF4 : Bool) : RecvKind → Bool
  | .blockingRecv => fixedF4
  | _ => true

/-- one atomic step; `none` = not enabled (or the wrapper panics) -/
def mstep (fixedF4 : Bool) (fin : Nat → Bool) (m : M) : MOp → Option M
  | .sendSem op =>
    if acqSide op then
      match step fin m.s.sendSem op with
      | .ok o => some { m with s := { m.s with sendSem := o.s },
                               reserved := m.reserved + permitsOf (acquiredBy m.s.sendSem op o.out) }
      | .error _ => none
    else none
  | .unreserve task n clk =>
    if n ≤ m.reserved then
      match step fin m.s.sendSem (.release task n clk) with
      | .ok o => some { m with s := { m.s with sendSem := o.s }, reserved := m.reserved - n }
      | .error _ => none
    else none
  | .push v =>
    if m.s.isBounded && m.reserved == 0 then none
    else match m.s.push v with
      | .ok s' => some { m with s := s', reserved := if m.s.isBounded then m.reserved - 1 else m.reserved,
                                pushed := m.pushed ++ [v] }
      | .closed => some m
      | .overflow => none
  | .recvSem op =>
    match step fin m.s.recvSem op with
    | .ok o => some { m with s := { m.s with recvSem := o.s } }
    | .error _ => none
  | .pop kind =>
    match m.s.pop with
    | none => none
    | some (v, s', _) =>
      if returnsSlot fixedF4 kind then
        some { m with s := s', popped := m.popped ++ [v], owed := if m.s.isBounded then m.owed + 1 else m.owed }
      else
        some { m with s := s', popped := m.popped ++ [v], leaked := if m.s.isBounded then m.leaked + 1 else m.leaked }
  | .giveSlot task clk =>
    if 0 < m.owed then
      match step fin m.s.sendSem (.release task 1 clk) with
      | .ok o => some { m with s := { m.s with sendSem := o.s }, owed := m.owed - 1 }
      | .error _ => none
    else none
  | .takeMessages =>
    some { m with s := m.s.takeMessages, discarded := m.discarded ++ m.s.messages,
                  leaked := if m.s.isBounded then m.leaked + m.s.messages.length else m.leaked }
  | .cloneSender => some { m with s := m.s.cloneSenderPure }
  | .dropSender =>
    match m.s.dropSenderPure with
    | .ok (s', _) => some { m with s := s' }
    | .error _ => none

/-- the states the most general client reaches from a fresh `channel(b)` / `unbounded_channel()`;
the list records the operations performed, newest first -/
inductive Reach (fixedF4 : Bool) (bound : Option Nat) (c : Clock) : M → List MOp → Prop
  | init : Reach fixedF4 bound c { s := TMpsc.new bound c } []
  | step {m m' : M} {ops : List MOp} {fin : Nat → Bool} {op : MOp} :
      Reach fixedF4 bound c m ops → mstep fixedF4 fin m op = some m' → Reach fixedF4 bound c m' (op :: ops)

/-- the invariant -/
structure MInv (b : Nat) (m : M) : Prop where
  bounded : m.s.bound = some b
  semInv : Inv m.s.sendSem
  balance : m.s.sendSem.avail + pend m.s.sendSem.table + m.s.messages.length + m.reserved + m.owed + m.leaked = b
  /-- while nothing was discarded (the receiver is alive) -/
  hist : m.discarded = [] → m.popped ++ m.s.messages = m.pushed

theorem acqSide_released {op : SemOp} (h : acqSide op = true) : releasedBy op = none := by
  cases op <;> simp_all [acqSide, releasedBy]

theorem release_balance (fin : Nat → Bool) {s : SemState} {task n : Nat} {clk : Clock} {o : StepOut}
    (hi : Inv s) (h : step fin s (.release task n clk) = .ok o) :
    Inv o.s ∧ o.s.avail + pend o.s.table = s.avail + pend s.table + n := by
  have sp := step_spec fin hi h
  have ha : acquiredBy s (.release task n clk) o.out = none := by cases o.out <;> rfl
  have hr : permitsOf (releasedBy (.release task n clk)) = n := by
    simp only [releasedBy]
    split
    · rename_i h0; simp [permitsOf, h0]
    · rfl
  have h2 := sp.2
  rw [ha, hr] at h2
  have h0 : permitsOf (none : Option (Nat × Nat)) = 0 := rfl
  rw [h0] at h2
  exact ⟨sp.1, by omega⟩

theorem isBounded_of {m : M} {b : Nat} (h : m.s.bound = some b) : m.s.isBounded = true := by
  simp [TMpsc.isBounded, h]

theorem push_ok_facts {s s' : TMpsc} {v : Nat} (h : s.push v = .ok s') :
    s'.messages = s.messages ++ [v] ∧ s'.sendSem = s.sendSem ∧ s'.bound = s.bound ∧
    (∀ b, s.bound = some b → s.messages.length < b) := by
  unfold TMpsc.push at h
  split at h
  · cases h
  · split at h
    · rename_i b hb
      split at h
      · cases h
        refine ⟨rfl, rfl, rfl, ?_⟩
        intro b' hb'; rw [hb] at hb'; cases hb'; assumption
      · cases h
    · rename_i hb
      cases h
      exact ⟨rfl, rfl, rfl, by intro b' hb'; rw [hb] at hb'; cases hb'⟩

theorem pop_facts {s s' : TMpsc} {v : Nat} {cl : Bool} (h : s.pop = some (v, s', cl)) :
    s.messages = v :: s'.messages ∧ s'.sendSem = s.sendSem ∧ s'.bound = s.bound := by
  unfold TMpsc.pop at h
  split at h
  · cases h
  · rename_i m rest hm
    cases h
    exact ⟨hm, rfl, rfl⟩

theorem mstep_inv {fixedF4 : Bool} {fin : Nat → Bool} {b : Nat} {m m' : M} {op : MOp}
    (hi : MInv b m) (h : mstep fixedF4 fin m op = some m') : MInv b m' := by
  have hb := isBounded_of hi.bounded
  cases op with
  | sendSem op =>
    simp only [mstep] at h
    split at h
    · rename_i ha
      split at h
      · rename_i o ho
        cases h
        have sp := step_spec fin hi.semInv ho
        have hr := acqSide_released ha
        rw [hr] at sp
        refine ⟨hi.bounded, sp.1, ?_, hi.hist⟩
        have h2 := sp.2
        have h0 : permitsOf (none : Option (Nat × Nat)) = 0 := rfl
        rw [h0] at h2
        have := hi.balance
        show o.s.avail + pend o.s.table + m.s.messages.length +
          (m.reserved + permitsOf (acquiredBy m.s.sendSem op o.out)) + m.owed + m.leaked = b
        omega
      · cases h
    · cases h
  | unreserve task n clk =>
    simp only [mstep] at h
    split at h
    · rename_i hle
      split at h
      · rename_i o ho
        cases h
        have sp := release_balance fin hi.semInv ho
        refine ⟨hi.bounded, sp.1, ?_, hi.hist⟩
        have := hi.balance
        have h2 := sp.2
        show o.s.avail + pend o.s.table + m.s.messages.length + (m.reserved - n) + m.owed + m.leaked = b
        omega
      · cases h
    · cases h
  | push v =>
    simp only [mstep] at h
    split at h
    · cases h
    · rename_i hne
      split at h
      · rename_i s' hp
        cases h
        have pf := push_ok_facts hp
        have hres : m.reserved ≠ 0 := by
          intro h0; apply hne; simp [hb, h0]
        refine ⟨by rw [pf.2.2.1]; exact hi.bounded, by rw [pf.2.1]; exact hi.semInv, ?_, ?_⟩
        · have := hi.balance
          simp only [pf.1, pf.2.1, hb, if_true, List.length_append, List.length_singleton]
          omega
        · intro hd
          have hh := hi.hist hd
          simp only [pf.1]
          rw [← hh]; simp
      · cases h; exact hi
      · cases h
  | recvSem op =>
    simp only [mstep] at h
    split at h
    · cases h
      exact ⟨hi.bounded, hi.semInv, hi.balance, hi.hist⟩
    · cases h
  | pop kind =>
    simp only [mstep] at h
    split at h
    · cases h
    · rename_i v s' cl hp
      have pf := pop_facts hp
      split at h
      · cases h
        refine ⟨by rw [pf.2.2]; exact hi.bounded, by rw [pf.2.1]; exact hi.semInv, ?_, ?_⟩
        · have := hi.balance
          simp only [pf.2.1, hb, if_true]
          rw [pf.1] at this
          simp only [List.length_cons] at this
          omega
        · intro hd
          have hh := hi.hist hd
          rw [pf.1] at hh
          simpa using hh
      · cases h
        refine ⟨by rw [pf.2.2]; exact hi.bounded, by rw [pf.2.1]; exact hi.semInv, ?_, ?_⟩
        · have := hi.balance
          simp only [pf.2.1, hb, if_true]
          rw [pf.1] at this
          simp only [List.length_cons] at this
          omega
        · intro hd
          have hh := hi.hist hd
          rw [pf.1] at hh
          simpa using hh
  | giveSlot task clk =>
    simp only [mstep] at h
    split at h
    · rename_i hpos
      split at h
      · rename_i o ho
        cases h
        have sp := release_balance fin hi.semInv ho
        refine ⟨hi.bounded, sp.1, ?_, hi.hist⟩
        have := hi.balance
        have h2 := sp.2
        show o.s.avail + pend o.s.table + m.s.messages.length + m.reserved + (m.owed - 1) + m.leaked = b
        omega
      · cases h
    · cases h
  | takeMessages =>
    simp only [mstep] at h
    cases h
    refine ⟨hi.bounded, hi.semInv, ?_, ?_⟩
    · have := hi.balance
      simp only [TMpsc.takeMessages, hb, if_true, List.length_nil]
      omega
    · intro hd
      simp only [List.append_eq_nil_iff] at hd
      have hh := hi.hist hd.1
      simp only [TMpsc.takeMessages, hd.2, List.append_nil] at hh ⊢
      exact hh
  | cloneSender =>
    simp only [mstep] at h
    cases h
    exact ⟨hi.bounded, hi.semInv, hi.balance, hi.hist⟩
  | dropSender =>
    simp only [mstep] at h
    split at h
    · rename_i s' l hd
      cases h
      unfold TMpsc.dropSenderPure at hd
      split at hd
      · cases hd
      · cases hd
        exact ⟨hi.bounded, hi.semInv, hi.balance, hi.hist⟩
    · cases h

end MpscLts
end Tokio
end ShuttleModel
