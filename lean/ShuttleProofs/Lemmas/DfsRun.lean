import ShuttleProofs.Lemmas.DfsWalk

/-! The driver loop: iterating executions walks through `apaths t`. -/

namespace ShuttleProofs.Dfs
open ShuttleModel.Dfs

theorem hasMoreChoices_zero (mi : Option Nat) (it : Nat) (p : APath) (st : Nat) :
    hasMoreChoices ⟨mi, it, p, st⟩ 0 = hasFalse p := by
  simp [hasMoreChoices, hasFalse]

theorem newExecution_stop_iter (k it : Nat) (p : APath) (st : Nat) (h : k ≤ it) :
    newExecution ⟨some k, it, p, st⟩ = none := by
  simp [newExecution, h]

theorem newExecution_stop_last (mi : Option Nat) (it : Nat) (p : APath) (st : Nat)
    (h : 0 < it) (hp : hasFalse p = false) :
    newExecution ⟨mi, it, p, st⟩ = none := by
  simp [newExecution, hasMoreChoices_zero, hp, h]

theorem newExecution_go (mi : Option Nat) (it : Nat) (p : APath) (st : Nat)
    (hk : ∀ k, mi = some k → it < k) (hp : it = 0 ∨ hasFalse p = true) :
    newExecution ⟨mi, it, p, st⟩ = some ⟨mi, it + 1, p, 0⟩ := by
  have h1 : (mi.map (fun mi => decide (it ≥ mi))).getD false = false := by
    cases mi with
    | none => rfl
    | some k => have := hk k rfl; simp; omega
  have h2 : (decide (it > 0) && !hasFalse p) = false := by
    rcases hp with hp | hp <;> simp [hp]
  simp [newExecution, hasMoreChoices_zero, h1, h2]

/-- what the iteration bound leaves of the remaining executions -/
def budget {α : Type} (mi : Option Nat) (it : Nat) (l : List α) : List α :=
  match mi with
  | none => l
  | some k => l.take (k - it)

/-- result of the driver loop when exactly the executions `l` remain -/
def outcome (fuel : Nat) (l : List (List Nat)) : List (List Nat) × RunEnd :=
  if fuel ≤ l.length then (l.take fuel, .outOfFuel) else (l, .done)

theorem outcome_succ (fuel : Nat) (a : List Nat) (l : List (List Nat)) :
    outcome (fuel + 1) (a :: l) = (a :: (outcome fuel l).1, (outcome fuel l).2) := by
  unfold outcome
  by_cases h : fuel ≤ l.length <;> simp [h]

theorem runAllEnd_enum (t : Tree) : ∀ (l : List APath) (p : APath), Enum (Step t) Last (p :: l) →
    ∀ fuel mi it st, 0 < it →
      runAllEnd fuel ⟨mi, it, p, st⟩ t = outcome fuel ((budget mi it l).map strip) := by
  intro l
  induction l with
  | nil =>
    intro p h fuel mi it st hit
    cases h with
    | last hl =>
      cases fuel with
      | zero => cases mi <;> simp [runAllEnd, outcome, budget]
      | succ fuel =>
        simp only [runAllEnd, newExecution_stop_last mi it p st hit hl]
        cases mi <;> simp [outcome, budget]
  | cons b l ih =>
    intro p h fuel mi it st hit
    cases h with
    | cons hs hrest =>
      cases fuel with
      | zero => simp [runAllEnd, outcome]
      | succ fuel =>
        by_cases hk : ∀ k, mi = some k → it < k
        · have hgo := newExecution_go mi it p st hk (Or.inr hs.1)
          have hrun := hs.2 mi (it + 1) []
          simp only [List.nil_append, List.length_nil, Nat.zero_add] at hrun
          have hb : budget mi it (b :: l) = b :: budget mi (it + 1) l := by
            cases mi with
            | none => rfl
            | some k =>
              have := hk k rfl
              have e : k - it = (k - (it + 1)) + 1 := by omega
              simp only [budget]; rw [e, List.take_succ_cons]
          simp only [runAllEnd, hgo, runOne, hrun]
          rw [ih b hrest fuel mi (it + 1) _ (by omega), hb, List.map_cons, outcome_succ]
        · have ⟨k, hk1, hk2⟩ : ∃ k, mi = some k ∧ k ≤ it := by
            cases mi with
            | none => exact absurd (fun k hk => by cases hk) hk
            | some k => exact ⟨k, rfl, by
                apply Nat.le_of_not_lt; intro hlt; apply hk; intro k' hk'; cases hk'; exact hlt⟩
          subst hk1
          simp only [runAllEnd, newExecution_stop_iter k it p st hk2]
          have : k - it = 0 := by omega
          simp [outcome, budget, this]

/-- Everything the driver loop does from a fresh scheduler. -/
theorem runAllEnd_new (t : Tree) (h : t.WF) (mi : Option Nat) (fuel : Nat) :
    runAllEnd fuel (DfsState.new mi) t = outcome fuel (budget mi 0 (paths t)) := by
  obtain ⟨p0, l, hp, hf⟩ := first_ok t h
  have he := enumT t h
  rw [hp] at he
  have hpaths : paths t = strip p0 :: l.map strip := by
    rw [← strip_apaths, hp, List.map_cons]
  cases fuel with
  | zero => simp [runAllEnd, outcome]
  | succ fuel =>
    by_cases hk : ∀ k, mi = some k → 0 < k
    · have hgo := newExecution_go mi 0 [] 0 hk (Or.inl rfl)
      have hrun := hf mi 1 []
      simp only [List.nil_append, List.length_nil, Nat.zero_add] at hrun
      have hb : budget mi 0 (paths t) = strip p0 :: (budget mi 1 l).map strip := by
        rw [hpaths]
        cases mi with
        | none => rfl
        | some k =>
          have := hk k rfl
          have e : k - 0 = (k - 1) + 1 := by omega
          simp only [budget]; rw [e, List.take_succ_cons, List.map_take]
      simp only [DfsState.new, runAllEnd, hgo, runOne, hrun]
      rw [runAllEnd_enum t l p0 he fuel mi 1 _ (by omega), hb, outcome_succ]
    · have hk1 : mi = some 0 := by
        cases mi with
        | none => exact absurd (fun k hk => by cases hk) hk
        | some k =>
          cases k with
          | zero => rfl
          | succ k => exact absurd (fun k' hk' => by cases hk'; omega) hk
      subst hk1
      simp [DfsState.new, runAllEnd, newExecution, outcome, budget]

/-- `.done` after a list of `n` executions means: the state reached after exactly `n` executions refuses to
start another one. -/
theorem iterExec_of_done (t : Tree) : ∀ (n : Nat) (s : DfsState) (ps : List (List Nat)),
    runAllEnd (n + 1) s t = (ps, .done) → ps.length = n →
    ∃ s', iterExec n s t = some s' ∧ newExecution s' = none := by
  intro n
  induction n with
  | zero =>
    intro s ps h hl
    cases hne : newExecution s with
    | none => exact ⟨s, rfl, hne⟩
    | some s1 =>
      simp only [runAllEnd, hne] at h
      rcases hr : runOne s1 t with ⟨_ | p, s2⟩
      · simp [hr] at h
      · simp only [hr] at h
        have := congrArg Prod.fst h
        simp at this; subst this; simp at hl
  | succ n ih =>
    intro s ps h hl
    rw [runAllEnd] at h
    cases hne : newExecution s with
    | none => simp only [hne] at h; have := congrArg Prod.fst h; simp at this; subst this; simp at hl
    | some s1 =>
      simp only [hne] at h
      rcases hr : runOne s1 t with ⟨_ | p, s2⟩
      · simp [hr] at h
      · simp only [hr] at h
        have h1 := congrArg Prod.fst h
        have h2 := congrArg Prod.snd h
        simp only at h1 h2
        subst h1
        have hl' : (runAllEnd (n + 1) s2 t).1.length = n := by simpa using hl
        obtain ⟨s', hs', hn'⟩ := ih s2 _ (Prod.ext rfl h2) hl'
        exact ⟨s', by simp only [iterExec, hne, hr, hs'], hn'⟩

end ShuttleProofs.Dfs
