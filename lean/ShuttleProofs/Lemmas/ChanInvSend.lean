import ShuttleProofs.Lemmas.ChanInv
/-
  C06 — the invariant is preserved by the two `send` segments.
-/
namespace ShuttleModel.C06
open ShuttleModel

theorem inv_send_blocked {c : Cfg} {t v : Nat} {e : List Eff} (hi : Inv c)
    (he : 1 ≤ c.liveS ∧ t ∉ c.ch.waitingSenders ∧ t ∉ c.ch.waitingReceivers)
    (h0 : c.ch.knownReceivers ≠ 0) (hm : c.ch.senderMustBlock = true) (hu : ubOf e = []) :
    Inv (c.afterSend t v ({ c.ch with waitingSenders := c.ch.waitingSenders ++ [t] }, none, e) false) := by
  have hmb := (senderMustBlock_iff _).mp hm
  clear hm
  obtain ⟨⟨b, m, rc, ks, kr, ws, wr⟩, sent, received, ub, pv, liveS, liveR, skipped⟩ := c
  cases hi
  simp at *
  rcases ws with _ | ⟨w, wtl⟩ <;> simp at * <;>
  constructor <;> simp [Cfg.afterSend, hu] <;> grind

theorem inv_send_noop {c : Cfg} {t v : Nat} {r : SendRes} {e : List Eff} (hi : Inv c)
    (hr : r ≠ .ok) (hu : ubOf e = []) : Inv (c.afterSend t v (c.ch, some r, e) false) := by
  have : c.afterSend t v (c.ch, some r, e) false = c := by
    cases r <;> simp [Cfg.afterSend, hu] at hr ⊢
  rw [this]; exact hi

theorem inv_push_direct {c : Cfg} {t v : Nat} {clk : Clock} {e : List Eff}
    (hi : Inv c) (he : 1 ≤ c.liveS ∧ t ∉ c.ch.waitingSenders ∧ t ∉ c.ch.waitingReceivers)
    (h0 : c.ch.knownReceivers ≠ 0) (hm : c.ch.senderMustBlock = false)
    (hu : ubOf e = c.ch.waitingReceivers.head?.toList ++ pushNext c.ch)
    (hrc : c.ch.bound ≠ some 0 → c.ch.receiverClock ≠ some []) :
    Inv (c.afterSend t v ({ c.ch with messages := c.ch.messages ++ [(v, clk)],
                                      receiverClock := pushRc c.ch }, some .ok, e) false) := by
  obtain ⟨hroom, hwsE, hrdv⟩ := not_mustBlock hm
  clear hm
  have hpn : pushNext c.ch = [] := by simp [pushNext, hwsE]
  rw [hpn] at hu
  clear hpn
  obtain ⟨⟨b, m, rc, ks, kr, ws, wr⟩, sent, received, ub, pv, liveS, liveR, skipped⟩ := c
  cases hi
  simp [pushRc] at *
  subst hwsE
  rcases wr with _ | ⟨w, wtl⟩ <;> rcases b with _ | _ | k <;> simp at * <;>
  constructor <;> simp [Cfg.afterSend, hu] <;> grind

theorem inv_wake_disc {c : Cfg} {t v : Nat} {e : List Eff} (hi : Inv c)
    (he : t ∈ c.ch.waitingSenders ∧ t ∈ c.ub) (h0 : c.ch.knownReceivers = 0) (hu : ubOf e = []) :
    Inv (c.afterSend t v ({ c.ch with waitingSenders := c.ch.waitingSenders.filter (· != t) },
      some .disconnected, e) true) := by
  obtain ⟨⟨b, m, rc, ks, kr, ws, wr⟩, sent, received, ub, pv, liveS, liveR, skipped⟩ := c
  cases hi
  simp at *
  constructor <;> simp [Cfg.afterSend, hu] <;> grind

theorem inv_wake_push {c : Cfg} {t v : Nat} {clk : Clock} {rest : List Nat} {e : List Eff}
    {s1 : ChanState} (hs1 : s1 = { c.ch with waitingSenders := rest })
    (hi : Inv c) (he : t ∈ c.ch.waitingSenders ∧ t ∈ c.ub)
    (h0 : c.ch.knownReceivers ≠ 0) (hw : c.ch.waitingSenders = t :: rest)
    (hu : ubOf e = c.ch.waitingReceivers.head?.toList ++ pushNext s1)
    (hrc : c.ch.bound ≠ some 0 → c.ch.receiverClock ≠ some []) :
    Inv (c.afterSend t v ({ s1 with messages := c.ch.messages ++ [(v, clk)],
                                    receiverClock := pushRc s1 }, some .ok, e) true) := by
  subst hs1
  obtain ⟨⟨b, m, rc, ks, kr, ws, wr⟩, sent, received, ub, pv, liveS, liveR, skipped⟩ := c
  cases hi
  simp [pushRc, pushNext] at *
  subst hw
  rcases wr with _ | ⟨w, wtl⟩ <;> rcases rest with _ | ⟨w2, rest⟩ <;> rcases b with _ | _ | k <;>
    simp at * <;>
  constructor <;> simp [Cfg.afterSend, hu] <;> grind

theorem inv_sendStart {c c' : Cfg} {t v : Nat} {cb : Bool} {clk : Clock} (hi : Inv c)
    (he : enabled c (.sendStart t v cb clk)) (hf : fire c (.sendStart t v cb clk) = .ok c') :
    Inv c' := by
  obtain ⟨s', r, e, hx, rfl⟩ := fire_sendStart hf
  simp only [enabled] at he
  rcases sendSeg1_ok hx with ⟨h0, rfl, rfl, hu⟩ | ⟨h0, hm, rfl, rfl, rfl, hu⟩ |
      ⟨h0, hm, rfl, rfl, rfl, hu⟩ | ⟨h0, hm, rfl, o, e', hp, hu⟩
  · exact inv_send_noop hi (by simp) hu
  · exact inv_send_noop hi (by simp) hu
  · exact inv_send_blocked hi he h0 hm hu
  · obtain ⟨rfl, hue, hrc⟩ := sendPush_state hp
    exact inv_push_direct hi he h0 hm (hu.trans hue) hrc

theorem inv_sendWake {c c' : Cfg} {t : Nat} {clk : Clock} (hi : Inv c)
    (he : enabled c (.sendWake t clk)) (hf : fire c (.sendWake t clk) = .ok c') :
    Inv c' := by
  obtain ⟨s', r, e, hx, rfl⟩ := fire_sendWake hf
  simp only [enabled] at he
  rcases sendSeg2_ok hx with ⟨h0, rfl, rfl, hu⟩ | ⟨h0, rfl, rest, o, e', hw, hp, hu⟩
  · exact inv_wake_disc hi he h0 hu
  · obtain ⟨rfl, hue, hrc⟩ := sendPush_state hp
    exact inv_wake_push rfl hi he h0 hw (hu.trans hue) hrc

end ShuttleModel.C06
