import ShuttleProofs.Lemmas.ChanReach
/-
  C06 — every transition of the channel LTS is a transition (or a stutter) of the abstract bounded
  FIFO `AStep`, under the abstraction `abs`.
-/
namespace ShuttleModel.C06
open ShuttleModel

theorem abs_push (s : ChanState) (v : Nat) (clk : Clock) (rc : Option (List Clock)) (ws : List Nat) :
    abs { s with messages := s.messages ++ [(v, clk)], receiverClock := rc, waitingSenders := ws } =
      { abs s with queue := (abs s).queue ++ [v] } := by
  simp [abs]

theorem astep_push {cap : Option Nat} {s : ChanState} {v : Nat} {clk : Clock}
    {rc : Option (List Clock)} {ws : List Nat} (h0 : s.knownReceivers ≠ 0)
    (hroom : hasRoom cap s.messages.length) :
    AStep cap (abs s)
      (abs { s with messages := s.messages ++ [(v, clk)], receiverClock := rc, waitingSenders := ws }) := by
  rw [abs_push]
  refine AStep.push _ v ?_ ?_
  · simp [abs, h0]
  · simpa [abs] using hroom

theorem astep_pop {cap : Option Nat} {s : ChanState} {item : Nat × Clock} {rest : List (Nat × Clock)}
    {rc : Option (List Clock)} {wr : List Nat} (hm : s.messages = item :: rest) :
    AStep cap (abs s) (abs { s with messages := rest, receiverClock := rc, waitingReceivers := wr }) := by
  have : abs { s with messages := rest, receiverClock := rc, waitingReceivers := wr } =
      { abs s with queue := rest.map (·.1) } := by simp [abs]
  rw [this]
  exact AStep.pop _ item.1 _ (by simp [abs, hm])

theorem refine_step {b : Option Nat} {c c' : Cfg} {l : Label} (h : Reachable b c)
    (he : enabled c l) (hf : fire c l = .ok c') : AStep (capOf b) (abs c.ch) (abs c'.ch) := by
  have hi := reachable_inv h
  have hb := reachable_bound h
  cases l with
  | sendStart t v cb clk =>
    obtain ⟨s', r, e, hx, rfl⟩ := fire_sendStart hf
    rcases sendSeg1_ok hx with ⟨h0, rfl, rfl, hu⟩ | ⟨h0, hm, rfl, rfl, rfl, hu⟩ |
        ⟨h0, hm, rfl, rfl, rfl, hu⟩ | ⟨h0, hm, rfl, o, e', hp, hu⟩
    · exact AStep.stutter _
    · exact AStep.stutter _
    · exact AStep.stutter _
    · obtain ⟨rfl, -, -⟩ := sendPush_state hp
      obtain ⟨hroom, -, -⟩ := not_mustBlock hm
      refine astep_push (ws := c.ch.waitingSenders) h0 ?_
      rw [← hb]
      unfold capOf hasRoom
      rcases hbb : c.ch.bound with _ | k
      · simp
      · simp
        have := hroom k hbb
        rcases k with _ | k
        · simp [this.1 rfl]
        · have := this.2 (by omega); omega
  | sendWake t clk =>
    obtain ⟨s', r, e, hx, rfl⟩ := fire_sendWake hf
    simp only [enabled] at he
    rcases sendSeg2_ok hx with ⟨h0, rfl, rfl, hu⟩ | ⟨h0, rfl, rest, o, e', hw, hp, hu⟩
    · exact AStep.stutter _
    · obtain ⟨rfl, -, -⟩ := sendPush_state hp
      refine astep_push (ws := rest) h0 ?_
      rw [← hb]
      unfold capOf hasRoom
      rcases hbb : c.ch.bound with _ | k
      · simp
      · simp
        have := hi.sub_room h0 t he.2 he.1 k hbb
        rcases k with _ | k
        · simp [(this.2 rfl).1]
        · have := this.1 (by omega); omega
  | recvStart t cb mine =>
    obtain ⟨s', r, e, hx, rfl⟩ := fire_recvStart hf
    simp only [enabled] at he
    rcases recvSeg1_ok he.2.1 hx with ⟨hm, hk, rfl, rfl, hu⟩ | ⟨hm, hk, hcb, hz, rfl, rfl, hu⟩ |
        ⟨hm, hk, hcb, rfl, rfl, hu⟩ | ⟨item, rest, hm, rfl, hu, ha⟩
    · exact AStep.stutter _
    · exact AStep.stutter _
    · exact AStep.stutter _
    · have := recvAck_state ha
      subst this
      exact astep_pop (wr := c.ch.waitingReceivers) hm
  | recvWake t mine =>
    obtain ⟨s', r, e, hx, rfl⟩ := fire_recvWake hf
    rcases recvSeg2_ok hx with ⟨hm, hk, rfl, rfl, hu⟩ | ⟨h0, wrest, item, rest, hw, hm, rfl, hu, ha⟩
    · exact AStep.stutter _
    · have := recvAck_state ha
      subst this
      exact astep_pop (wr := wrest) hm
  | cloneS =>
    simp [fire, ChanState.cloneSenderStep] at hf; subst hf
    simp only [enabled] at he
    have : 1 ≤ c.ch.knownSenders := Nat.le_trans he hi.ks_ge
    exact AStep.clone _ (by simpa [abs] using this)
  | dropS stop =>
    simp only [fire, ChanState.dropSenderStep] at hf
    simp only [enabled] at he
    cases stop
    · by_cases h0 : c.ch.knownSenders = 0
      · simp [h0] at hf
      · simp [h0] at hf; subst hf
        exact AStep.dropS _ (by simp [abs]; omega)
    · simp at hf; subst hf; exact AStep.stutter _
  | dropR stop =>
    simp only [fire, ChanState.dropReceiverStep] at hf
    simp only [enabled] at he
    cases stop
    · by_cases h0 : c.ch.knownReceivers = 0
      · simp [h0] at hf
      · simp [h0] at hf; subst hf
        have hk := hi.kr_le
        have : abs { c.ch with knownReceivers := c.ch.knownReceivers - 1 } =
            { abs c.ch with receiverAlive := false } := by
          simp [abs]; omega
        simp only []
        rw [this]
        exact AStep.dropR _ (by simp [abs, h0])
    · simp at hf; subst hf; exact AStep.stutter _

end ShuttleModel.C06
