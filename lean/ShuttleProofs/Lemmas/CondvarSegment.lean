import ShuttleModel.Prim.Condvar
/-
  C05 / Condvar, part 3: the registration stage of `Condvar::wait` executed by the kernel
  (`runSegment`): what the atomic segment between the drop of the guard and the `switch` does to
  the shared state and to the calling task.
-/
namespace ShuttleProofs.C05
open ShuttleModel

/-- Run by the kernel from any execution state in which `CondvarState.register` succeeds, the
registration stage followed by the `switch` of `wait`: writes the shared state only through the
condvar's lens, blocks the caller with `block(false)` (no spurious wake-ups), and stops at the
scheduling point with the rest of `wait` as the caller's continuation. -/
theorem registerStage_segment (P : Program) {σ : Type} (S : Scheduler σ) (L : Lens P.U CondvarState) (me : Nat)
    (st : ExecState P σ) (tk : Task) (hk : st.k.getTask? me = some tk) (hf : tk.finished = false)
    (s' : CondvarState) (hr : (L.get st.u).register me = .ok s') (kont : Prog P.U Unit) (fuel : Nat) :
    runSegment S me (fuel + 6) st (do Condvar.registerStage L me; K.switch; kont) =
      .atSwitch { st with u := L.set s' st.u, k := st.k.setTask me { tk with state := .blocked false },
                          conts := st.conts.set me kont } := by
  simp [Condvar.registerStage, K.getL, K.setL, K.getU, K.setU, K.block, K.switch, Prog.lift, Bind.bind, Prog.bind,
    runSegment, hr, Kernel.modTask, hk, Task.block, hf, Pure.pure]

/-- a caller that is already registered panics with the `debug_assert!` message, the state
untouched -/
theorem registerStage_segment_panics (P : Program) {σ : Type} (S : Scheduler σ) (L : Lens P.U CondvarState)
    (me : Nat) (st : ExecState P σ) (hp : st.k.panicking = none) (msg : String)
    (hr : (L.get st.u).register me = .error msg) (kont : Prog P.U Unit) (fuel : Nat) :
    runSegment S me (fuel + 3) st (do Condvar.registerStage L me; K.switch; kont) =
      runSegment S me (fuel + 1) { st with k := { st.k with panicking := some (me, msg) } } (P.unwind me) := by
  simp [Condvar.registerStage, K.getL, K.getU, K.panic, Prog.lift, Bind.bind, Prog.bind,
    runSegment, hr, hp, Pure.pure]

end ShuttleProofs.C05
