import ShuttleModel.Prim.Future
/-!
# C17 helpers: the most-general client of one spawned future, over the PURE transitions of
`ShuttleModel/Prim/Future.lean` (`JoinState.pollJoin`, `JoinState.publish`, `JoinState.setAborted`)

One `FOp` is the state update one of the wrappers performs atomically (between two scheduling points):

* `pollBegin`     — `Fut.taskLoop`, start of an iteration = start of `Wrapper::poll`: read the `aborted` flag;
                    set ⇒ the cancel path, all of it: drop the inner future (`dropFut`), thread-local destructors,
                    `publish false` (= `Err(Cancelled)`), `Ready`; not set ⇒ enter the poll of the inner future;
* `pollEnd ready` — the poll of the inner future returns (it may have spanned several scheduling points, during
                    which every other operation may have happened): `Ready` ⇒ thread-local destructors,
                    `publish true`, `Ready`; `Pending` ⇒ `Pending` (then `sleep_unless_woken(); switch()`);
* `joinPoll cx`   — `JoinHandle::poll` by task `cx` (`Fut.pollLeaf (.join b)`/`pollJoinHandle`): allowed for the
                    owner of the handle — the harness table (`handle = true`, first poll: the handle is moved into
                    the awaiting future) or the future already awaiting it (`joiner = some cx`); a `Ready` handle
                    is dropped by the `.await` (⇒ `detach`); without the handle: `"nohandle"`;
* `abort`         — `JoinHandle::abort` / `AbortHandle::abort` after its scheduling point;
* `dropHandle`    — `drop(JoinHandle)` by the harness (`Fut.detach`);
* `dropJoiner cx` — the future that awaits the handle is itself dropped (`Fut.dropLeaf (.join b) .joining`).

The ghost fields (`phase`, `cancelSeen`, counters) record what happened; `j` is the model's `JoinState`.
-/
namespace ShuttleProofs.C17.Lts
open ShuttleModel

inductive WPhase where
  /-- between two polls of the `Wrapper` (not yet polled, or the last poll returned `Pending`) -/
  | idle
  /-- `Wrapper::poll` has read `aborted = false` and is inside `future.poll(cx)` -/
  | midPoll
  /-- `Wrapper::poll` returned `Ready(())`: the task's closure returns -/
  | done
deriving DecidableEq, Repr

structure G where
  j : JoinState
  phase : WPhase := .idle
  /-- the value of `aborted` read by the latest `pollBegin` -/
  cancelSeen : Bool := false
  /-- polls of the inner future begun so far -/
  innerPolls : Nat := 0
  /-- the inner future returned `Ready` -/
  innerCompleted : Bool := false
  /-- the inner future was dropped un-completed (`dropFut`: its destructors ran) -/
  dropped : Bool := false
  /-- how many times the thread-local destructors were run -/
  tlsRun : Nat := 0
  /-- the result handed to `publish`, and how many times `publish` ran -/
  published : Option Bool := none
  pubCount : Nat := 0
  /-- what `Ready` polls of the `JoinHandle` returned, and how many there were -/
  taken : Option Bool := none
  takenCount : Nat := 0
  /-- the task that owns the `JoinHandle` through a pending `.await` -/
  joiner : Option Nat := none
  /-- `Task.detached` of the future's task -/
  detached : Bool := false
deriving Repr

inductive FOp where
  | pollBegin
  | pollEnd (ready : Bool)
  | joinPoll (cx : Nat)
  | abort
  | dropHandle
  | dropJoiner (cx : Nat)
deriving Repr, DecidableEq

inductive Out where
  /-- `pollBegin`: was the cancel path taken? -/
  | began (cancelled : Bool)
  | polled (ready : Bool)
  /-- `JoinHandle::poll`: `some true` = `Ready(Ok(_))`, `some false` = `Ready(Err(Cancelled))`, `none` = `Pending` -/
  | joined (r : Option Bool)
  | nohandle
  | unit
deriving Repr, DecidableEq

/-- the state just after `future::spawn` + the harness storing the handle (`Fut.register`) -/
def init (tid : Nat) : G := { j := { tid := some tid, handle := true } }

/-- one step; `none` = the operation cannot happen in this state (the Wrapper is not at that point / the caller
does not own what it needs) -/
def step (tid : Nat) (g : G) : FOp → Option (G × Out × List Eff)
  | .pollBegin =>
    if g.phase ≠ .idle then none
    else if g.j.aborted then
      some ({ g with j := (g.j.publish false).1, phase := .done, cancelSeen := true, dropped := true,
                     tlsRun := g.tlsRun + 1, published := some false, pubCount := g.pubCount + 1 },
            .began true, (g.j.publish false).2)
    else some ({ g with phase := .midPoll, cancelSeen := false, innerPolls := g.innerPolls + 1 }, .began false, [])
  | .pollEnd ready =>
    if g.phase ≠ .midPoll then none
    else if ready then
      some ({ g with j := (g.j.publish true).1, phase := .done, innerCompleted := true,
                     tlsRun := g.tlsRun + 1, published := some true, pubCount := g.pubCount + 1 },
            .polled true, (g.j.publish true).2)
    else some ({ g with phase := .idle }, .polled false, [])
  | .joinPoll cx =>
    if g.j.handle || g.joiner == some cx then
      match (({ g.j with handle := false } : JoinState).pollJoin cx) with
      | (some v, j') =>
        some ({ g with j := j', joiner := none, detached := true, taken := some v,
                       takenCount := g.takenCount + 1 }, .joined (some v), [])
      | (none, j') => some ({ g with j := j', joiner := some cx }, .joined none, [])
    else some (g, .nohandle, [])
  | .abort => some ({ g with j := (g.j.setAborted tid).1 }, .unit, (g.j.setAborted tid).2)
  | .dropHandle =>
    if g.j.handle then some ({ g with j := { g.j with handle := false }, detached := true }, .unit, [])
    else some (g, .nohandle, [])
  | .dropJoiner cx =>
    if g.joiner == some cx then some ({ g with joiner := none, detached := true }, .unit, []) else none

/-- states reachable from `init tid` by any sequence of operations -/
inductive Reach (tid : Nat) : G → Prop
  | init : Reach tid (init tid)
  | step {g g' : G} {op : FOp} {o : Out} {effs : List Eff} :
      Reach tid g → step tid g op = some (g', o, effs) → Reach tid g'

/-- run a list of operations (for concrete examples); an operation that cannot happen is skipped -/
def run (tid : Nat) : G → List FOp → G × List Out
  | g, [] => (g, [])
  | g, op :: ops =>
    match step tid g op with
    | some (g', o, _) => let r := run tid g' ops; (r.1, o :: r.2)
    | none => run tid g ops

theorem run_reach {tid : Nat} {g : G} (h : Reach tid g) (ops : List FOp) : Reach tid (run tid g ops).1 := by
  induction ops generalizing g with
  | nil => exact h
  | cons op ops ih =>
    simp only [run]
    cases hs : step tid g op with
    | none => exact ih h
    | some r =>
      obtain ⟨g', o, effs⟩ := r
      exact ih (Reach.step h hs)

/-! ### the invariant -/

structure Inv (g : G) : Prop where
  /-- `publish` ran exactly when the Wrapper is done, at most once; so did the thread-local destructors -/
  pubDone : g.phase = .done ↔ g.published.isSome = true
  pubCount : g.pubCount = if g.published.isSome then 1 else 0
  tls : g.tlsRun = g.pubCount
  /-- the result slot holds the published value until a `Ready` poll takes it -/
  slotFull : ∀ r, g.j.result = some r → g.published = some r ∧ g.takenCount = 0 ∧ g.taken = none
  slotEmpty : g.j.result = none → g.taken = g.published ∧ g.takenCount = g.pubCount ∨
    (g.published = none ∧ g.takenCount = 0 ∧ g.taken = none)
  /-- the published value is `Cancelled` iff the last `pollBegin` saw the flag -/
  value : ∀ v, g.published = some v → v = !g.cancelSeen
  seenAborted : g.cancelSeen = true → g.j.aborted = true
  cancelFx : g.phase = .done → g.cancelSeen = true → g.dropped = true ∧ g.innerCompleted = false
  okFx : g.phase = .done → g.cancelSeen = false → g.dropped = false ∧ g.innerCompleted = true
  notDone : g.phase ≠ .done → g.dropped = false ∧ g.innerCompleted = false
  mid : g.phase = .midPoll → g.cancelSeen = false
  /-- the handle is in one place at most, and is gone for good once a `Ready` poll consumed it -/
  owner : ¬ (g.j.handle = true ∧ g.joiner.isSome = true)
  takenGone : g.takenCount ≥ 1 → g.j.handle = false ∧ g.joiner = none
  detachedIff : g.detached = false → g.j.handle = true ∨ g.joiner.isSome = true

theorem Inv.init (tid : Nat) : Inv (init tid) := by
  constructor <;> simp [Lts.init]

theorem publish_result (j : JoinState) (r : Bool) :
    (j.publish r).1.result = some r ∧ (j.publish r).1.aborted = j.aborted ∧
      (j.publish r).1.handle = j.handle ∧ (j.publish r).1.tid = j.tid := by
  simp [JoinState.publish]

theorem setAborted_fields (j : JoinState) (tid : Nat) :
    (j.setAborted tid).1.result = j.result ∧ (j.setAborted tid).1.aborted = true ∧
      (j.setAborted tid).1.handle = j.handle ∧ (j.setAborted tid).1.tid = j.tid ∧
      (j.setAborted tid).1.waker = j.waker := by
  unfold JoinState.setAborted
  split <;> simp_all

theorem pollJoin_some {j j' : JoinState} {cx : Nat} {v : Bool} (h : j.pollJoin cx = (some v, j')) :
    j.result = some v ∧ j'.result = none ∧ j'.aborted = j.aborted ∧ j'.handle = j.handle := by
  unfold JoinState.pollJoin at h
  split at h
  · rename_i r hr
    simp only [Prod.mk.injEq, Option.some.injEq] at h
    obtain ⟨rfl, rfl⟩ := h
    exact ⟨hr, rfl, rfl, rfl⟩
  · simp at h

theorem pollJoin_none {j j' : JoinState} {cx : Nat} (h : j.pollJoin cx = (none, j')) :
    j.result = none ∧ j'.result = none ∧ j'.aborted = j.aborted ∧ j'.handle = j.handle ∧
      j'.waker = some cx := by
  unfold JoinState.pollJoin at h
  split at h
  · simp at h
  · rename_i hr
    simp only [Prod.mk.injEq, true_and] at h
    subst h
    exact ⟨hr, hr, rfl, rfl, rfl⟩

theorem Inv.step {tid : Nat} {g g' : G} {op : FOp} {o : Out} {effs : List Eff} (hi : Inv g)
    (hs : step tid g op = some (g', o, effs)) : Inv g' := by
  obtain ⟨h1, h2, h3, h4, h5, h6, h7, h8, h9, h10, h11, h12, h13, h14⟩ := hi
  cases op with
  | pollBegin =>
    simp only [Lts.step] at hs
    split at hs
    · cases hs
    · rename_i hph
      have hph : g.phase = .idle := by simpa using hph
      have hnd : g.phase ≠ .done := by rw [hph]; decide
      have hpn : g.published = none := by
        cases hp : g.published with
        | none => rfl
        | some v => exact absurd (h1.mpr (by simp [hp])) hnd
      have hrn : g.j.result = none := by
        cases hr : g.j.result with
        | none => rfl
        | some r => have := (h4 r hr).1; rw [hpn] at this; cases this
      have hc0 : g.pubCount = 0 := by rw [h2, hpn]; rfl
      split at hs
      · rename_i hab
        simp only [Option.some.injEq, Prod.mk.injEq] at hs
        obtain ⟨rfl, _, _⟩ := hs
        obtain ⟨p1, p2, p3, p4⟩ := publish_result g.j false
        have h5' := h5 hrn
        constructor <;> simp_all
        all_goals (rcases h5 with ⟨a, b⟩ | ⟨a, b⟩ <;> exact ⟨by assumption, by assumption⟩)
      · rename_i hab
        simp only [Option.some.injEq, Prod.mk.injEq] at hs
        obtain ⟨rfl, _, _⟩ := hs
        constructor <;> simp_all
  | pollEnd ready =>
    simp only [Lts.step] at hs
    split at hs
    · cases hs
    · rename_i hph
      have hph : g.phase = .midPoll := by simpa using hph
      have hnd : g.phase ≠ .done := by rw [hph]; decide
      have hpn : g.published = none := by
        cases hp : g.published with
        | none => rfl
        | some v => exact absurd (h1.mpr (by simp [hp])) hnd
      have hrn : g.j.result = none := by
        cases hr : g.j.result with
        | none => rfl
        | some r => have := (h4 r hr).1; rw [hpn] at this; cases this
      have hc0 : g.pubCount = 0 := by rw [h2, hpn]; rfl
      have hcs := h11 hph
      split at hs
      · simp only [Option.some.injEq, Prod.mk.injEq] at hs
        obtain ⟨rfl, _, _⟩ := hs
        obtain ⟨p1, p2, p3, p4⟩ := publish_result g.j true
        have h5' := h5 hrn
        constructor <;> simp_all
        all_goals (rcases h5 with ⟨a, b⟩ | ⟨a, b⟩ <;> exact ⟨by assumption, by assumption⟩)
      · simp only [Option.some.injEq, Prod.mk.injEq] at hs
        obtain ⟨rfl, _, _⟩ := hs
        constructor <;> simp_all
  | joinPoll cx =>
    simp only [Lts.step] at hs
    split at hs
    · rename_i hown
      split at hs
      · rename_i v j' hp
        simp only [Option.some.injEq, Prod.mk.injEq] at hs
        obtain ⟨rfl, _, _⟩ := hs
        obtain ⟨q1, q2, q3, q4⟩ := pollJoin_some hp
        have q1' : g.j.result = some v := q1
        obtain ⟨r1, r2, r3⟩ := h4 v q1'
        have hpc : g.pubCount = 1 := by rw [h2, r1]; rfl
        exact {
          pubDone := h1, pubCount := h2, tls := h3
          slotFull := fun r hr => by rw [q2] at hr; cases hr
          slotEmpty := fun _ => Or.inl ⟨r1.symm, by show g.takenCount + 1 = g.pubCount; omega⟩
          value := h6
          seenAborted := fun h => by rw [q3]; exact h7 h
          cancelFx := h8, okFx := h9, notDone := h10, mid := h11
          owner := fun h => by simp at h
          takenGone := fun _ => ⟨by rw [q4], rfl⟩
          detachedIff := fun h => by simp at h }
      · rename_i j' hp
        simp only [Option.some.injEq, Prod.mk.injEq] at hs
        obtain ⟨rfl, _, _⟩ := hs
        obtain ⟨q1, q2, q3, q4, _⟩ := pollJoin_none hp
        have q1' : g.j.result = none := q1
        have h5' := h5 q1'
        have htc : g.takenCount = 0 := by
          cases hc : g.takenCount with
          | zero => rfl
          | succ n =>
            have := h13 (by omega)
            simp_all
        constructor <;> simp_all
    · simp only [Option.some.injEq, Prod.mk.injEq] at hs
      obtain ⟨rfl, _, _⟩ := hs
      exact ⟨h1, h2, h3, h4, h5, h6, h7, h8, h9, h10, h11, h12, h13, h14⟩
  | abort =>
    simp only [Lts.step, Option.some.injEq, Prod.mk.injEq] at hs
    obtain ⟨rfl, _, _⟩ := hs
    obtain ⟨s1, s2, s3, s4, s5⟩ := setAborted_fields g.j tid
    constructor <;> simp_all
  | dropHandle =>
    simp only [Lts.step] at hs
    split at hs
    · simp only [Option.some.injEq, Prod.mk.injEq] at hs
      obtain ⟨rfl, _, _⟩ := hs
      constructor <;> simp_all
    · simp only [Option.some.injEq, Prod.mk.injEq] at hs
      obtain ⟨rfl, _, _⟩ := hs
      exact ⟨h1, h2, h3, h4, h5, h6, h7, h8, h9, h10, h11, h12, h13, h14⟩
  | dropJoiner cx =>
    simp only [Lts.step] at hs
    split at hs
    · simp only [Option.some.injEq, Prod.mk.injEq] at hs
      obtain ⟨rfl, _, _⟩ := hs
      constructor <;> simp_all
    · cases hs

theorem reach_inv {tid : Nat} {g : G} (h : Reach tid g) : Inv g := by
  induction h with
  | init => exact Inv.init tid
  | step _ hs ih => exact ih.step hs

end ShuttleProofs.C17.Lts
