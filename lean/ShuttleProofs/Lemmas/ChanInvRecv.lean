import ShuttleProofs.Lemmas.ChanInv
/-
  C06 — the invariant is preserved by the two `recv` segments.
-/
namespace ShuttleModel.C06
open ShuttleModel

theorem inv_recv_noop {c : Cfg} {t : Nat} {r : RecvRes} {e : List Eff} (hi : Inv c)
    (hr : r = .disconnected ∨ r = .empty) (hu : ubOf e = []) :
    Inv (c.afterRecv t (c.ch, some r, e) false) := by
  have : c.afterRecv t (c.ch, some r, e) false = c := by
    rcases hr with rfl | rfl <;> simp [Cfg.afterRecv, hu]
  rw [this]; exact hi

theorem inv_recv_blocked {c : Cfg} {t : Nat} {e : List Eff} (hi : Inv c)
    (he : c.liveR = true ∧ c.ch.waitingReceivers = [] ∧ t ∉ c.ch.waitingSenders)
    (hm : c.ch.messages = []) (hk : c.ch.knownSenders ≠ 0)
    (hu : ubOf e = if c.ch.bound = some 0 then c.ch.waitingSenders.head?.toList else []) :
    Inv (c.afterRecv t ({ c.ch with waitingReceivers := [t] }, none, e) false) := by
  obtain ⟨⟨b, m, rc, ks, kr, ws, wr⟩, sent, received, ub, pv, liveS, liveR, skipped⟩ := c
  cases hi
  simp at *
  obtain ⟨rfl, rfl, he⟩ := he
  subst hm
  rcases ws with _ | ⟨w, wtl⟩ <;> rcases b with _ | _ | k <;> simp at * <;>
  constructor <;> simp [Cfg.afterRecv, hu] <;> grind

theorem inv_recv_pop {c : Cfg} {t : Nat} {mine : Clock} {item : Nat × Clock}
    {rest : List (Nat × Clock)} {e : List Eff} {s1 : ChanState}
    (hs1 : s1 = { c.ch with messages := rest }) (hi : Inv c)
    (he : c.liveR = true ∧ c.ch.waitingReceivers = [] ∧ t ∉ c.ch.waitingSenders)
    (hm : c.ch.messages = item :: rest) (hu : ubOf e = popUb c.ch rest) :
    Inv (c.afterRecv t ({ s1 with receiverClock := ackRc s1 mine }, some (.ok item.1), e) false) := by
  subst hs1
  obtain ⟨⟨b, m, rc, ks, kr, ws, wr⟩, sent, received, ub, pv, liveS, liveR, skipped⟩ := c
  cases hi
  simp [popUb, ackRc] at *
  obtain ⟨rfl, rfl, he⟩ := he
  subst hm
  rcases ws with _ | ⟨w, wtl⟩ <;> rcases b with _ | _ | k <;> rcases rc with _ | l <;> simp at * <;>
  constructor <;> simp [Cfg.afterRecv, hu] <;> grind

theorem inv_rwake_disc {c : Cfg} {t : Nat} {e : List Eff} (hi : Inv c)
    (he : t ∈ c.ch.waitingReceivers ∧ t ∈ c.ub) (hm : c.ch.messages = [])
    (hk : c.ch.knownSenders = 0) (hu : ubOf e = []) :
    Inv (c.afterRecv t ({ c.ch with waitingReceivers := c.ch.waitingReceivers.filter (· != t) },
      some .disconnected, e) true) := by
  obtain ⟨⟨b, m, rc, ks, kr, ws, wr⟩, sent, received, ub, pv, liveS, liveR, skipped⟩ := c
  cases hi
  simp at *
  subst hm hk
  rcases wr with _ | ⟨w, _ | ⟨w2, wtl⟩⟩ <;> simp at * <;>
  constructor <;> simp [Cfg.afterRecv, hu] <;> grind

theorem inv_rwake_pop {c : Cfg} {t : Nat} {mine : Clock} {item : Nat × Clock}
    {rest : List (Nat × Clock)} {wrest : List Nat} {e : List Eff} {s0 s1 : ChanState}
    (hs0 : s0 = { c.ch with waitingReceivers := wrest })
    (hs1 : s1 = { c.ch with waitingReceivers := wrest, messages := rest }) (hi : Inv c)
    (he : t ∈ c.ch.waitingReceivers ∧ t ∈ c.ub)
    (hw : c.ch.waitingReceivers = t :: wrest)
    (hm : c.ch.messages = item :: rest) (hu : ubOf e = popUb s0 rest) :
    Inv (c.afterRecv t ({ s1 with receiverClock := ackRc s1 mine }, some (.ok item.1), e) true) := by
  subst hs0 hs1
  have hwl := hi.wr_le
  rw [hw] at hwl
  simp at hwl
  subst hwl
  obtain ⟨⟨b, m, rc, ks, kr, ws, wr⟩, sent, received, ub, pv, liveS, liveR, skipped⟩ := c
  cases hi
  simp [popUb, ackRc] at *
  subst hw hm
  rcases ws with _ | ⟨w, wtl⟩ <;> rcases b with _ | _ | k <;> rcases rc with _ | l <;> simp at * <;>
  constructor <;> simp [Cfg.afterRecv, hu] <;> grind

theorem inv_recvStart {c c' : Cfg} {t : Nat} {cb : Bool} {mine : Clock} (hi : Inv c)
    (he : enabled c (.recvStart t cb mine)) (hf : fire c (.recvStart t cb mine) = .ok c') :
    Inv c' := by
  obtain ⟨s', r, e, hx, rfl⟩ := fire_recvStart hf
  simp only [enabled] at he
  rcases recvSeg1_ok he.2.1 hx with ⟨hm, hk, rfl, rfl, hu⟩ | ⟨hm, hk, hcb, hz, rfl, rfl, hu⟩ |
      ⟨hm, hk, hcb, rfl, rfl, hu⟩ | ⟨item, rest, hm, rfl, hu, ha⟩
  · exact inv_recv_noop hi (Or.inl rfl) hu
  · exact inv_recv_noop hi (Or.inr rfl) hu
  · exact inv_recv_blocked hi he hm hk hu
  · have := recvAck_state ha
    subst this
    exact inv_recv_pop rfl hi he hm hu

theorem inv_recvWake {c c' : Cfg} {t : Nat} {mine : Clock} (hi : Inv c)
    (he : enabled c (.recvWake t mine)) (hf : fire c (.recvWake t mine) = .ok c') :
    Inv c' := by
  obtain ⟨s', r, e, hx, rfl⟩ := fire_recvWake hf
  simp only [enabled] at he
  rcases recvSeg2_ok hx with ⟨hm, hk, rfl, rfl, hu⟩ | ⟨h0, wrest, item, rest, hw, hm, rfl, hu, ha⟩
  · exact inv_rwake_disc hi he hm hk hu
  · have := recvAck_state ha
    subst this
    exact inv_rwake_pop rfl rfl hi he hw hm hu

end ShuttleModel.C06
