/-
  Helper lemmas for C10: `accept` (one iteration of the u32 `gen_index` rejection loop as a
  function of the raw 32-bit draw) and its connection to the executable `genIndex` / `choose`.
-/
import ShuttleModel.Rng
import ShuttleProofs.Lemmas.RngAccept

namespace ShuttleProofs.Rng
open ShuttleModel.Rng

/-- The index that the single-draw step of the u32 `gen_index(n)` algorithm returns for the raw
    32-bit draw `v`: `none` = rejected (draw again).
    (`zone = (n << n.leading_zeros()) - 1`; accept iff `lo(v·n) ≤ zone`, result `hi(v·n)`.) -/
def accept (n v : Nat) : Option Nat := wmulStep two32 n (zoneSingle 32 n) v

/-- Same for the `usize`/`u64` path of `gen_index` (taken when `n > u32::MAX`). -/
def accept64 (n v : Nat) : Option Nat := wmulStep two64 n (zoneSingle 64 n) v

-- The PCG arithmetic is never unfolded below.
attribute [local irreducible] ShuttleModel.Rng.nextU64

/-- `iter f k a = f (… (f a))` (`k` times, innermost first). Kept generic in `f` so that its
    equations are checked with `f` opaque: the kernel must never be asked whether two *different*
    generator states are definitionally equal (it would unfold the 128-bit arithmetic). -/
def iter {α : Type} (f : α → α) : Nat → α → α
  | 0, a => a
  | k + 1, a => iter f k (f a)

theorem iter_zero {α : Type} (f : α → α) (a : α) : iter f 0 a = a := rfl

theorem iter_succ {α : Type} (f : α → α) (k : Nat) (a : α) : iter f (k + 1) a = iter f k (f a) :=
  rfl

/-- The generator after `k` raw draws. -/
def advance (k : Nat) (g : Pcg) : Pcg := iter (fun g => (nextU64 g).2) k g

/-- The `j`-th raw 32-bit draw from `g` (`next_u32` = low half of the `j`-th `next_u64`). -/
def rawDraw (g : Pcg) (j : Nat) : Nat := (nextU32 (advance j g)).1

theorem nextU32_fst (g : Pcg) : (nextU32 g).1 = (nextU64 g).1 % two32 := by
  unfold nextU32; rfl

theorem nextU32_snd (g : Pcg) : (nextU32 g).2 = (nextU64 g).2 := by
  unfold nextU32; rfl

/-! Generic facts about the fuelled retry loop (`body` is a variable here, so nothing about the
    generator is ever unfolded). -/

theorem retryLoop_zero {α : Type} (body : Pcg → Option α × Pcg) (g : Pcg) :
    retryLoop body 0 g = none := rfl

theorem retryLoop_succ_of_some {α : Type} {body : Pcg → Option α × Pcg} {g g' : Pcg} {a : α}
    (fuel : Nat) (h : body g = (some a, g')) : retryLoop body (fuel + 1) g = some (a, g') := by
  unfold retryLoop
  rw [h]

theorem retryLoop_succ_of_none {α : Type} {body : Pcg → Option α × Pcg} {g g' : Pcg}
    (fuel : Nat) (h : body g = (none, g')) :
    retryLoop body (fuel + 1) g = retryLoop body fuel g' := by
  conv => lhs; unfold retryLoop
  rw [h]

theorem nextU32_lt (g : Pcg) : (nextU32 g).1 < two32 := by
  rw [nextU32_fst]
  exact Nat.mod_lt _ (by decide)

theorem rawDraw_lt (g : Pcg) (j : Nat) : rawDraw g j < two32 := nextU32_lt _


-- NB: no `rfl` between terms that differ in a generator argument: the kernel would try to decide
-- `g ≡ (nextU64 g).2` by unfolding the 128-bit multiplication.
theorem advance_zero (g : Pcg) : advance 0 g = g := by
  unfold advance
  rw [iter_zero]

theorem advance_succ (g : Pcg) (k : Nat) : advance (k + 1) g = advance k (nextU64 g).2 := by
  unfold advance
  rw [iter_succ]

theorem rawDraw_zero (g : Pcg) : rawDraw g 0 = (nextU32 g).1 := by
  unfold rawDraw
  rw [advance_zero]

theorem rawDraw_succ (g : Pcg) (j : Nat) : rawDraw g (j + 1) = rawDraw (nextU64 g).2 j := by
  unfold rawDraw
  rw [advance_succ]

theorem accept_lt {n v i : Nat} (hn : 0 < n) (hv : v < two32) (h : accept n v = some i) : i < n :=
  wmulStep_lt hn hv h

/-- A successful retry loop ends with an accepting `body` step that returns the final generator. -/
theorem retryLoop_some_elim {α : Type} {body : Pcg → Option α × Pcg} :
    ∀ (fuel : Nat) (g : Pcg) (a : α) (g' : Pcg),
      retryLoop body fuel g = some (a, g') → ∃ g0, body g0 = (some a, g') := by
  intro fuel
  induction fuel with
  | zero => intro g a g' h; rw [retryLoop_zero] at h; cases h
  | succ fuel ih =>
    intro g a g' h
    cases hb : body g with
    | mk o g1 =>
      cases o with
      | none =>
        rw [retryLoop_succ_of_none fuel hb] at h
        exact ih g1 a g' h
      | some a0 =>
        rw [retryLoop_succ_of_some fuel hb] at h
        simp only [Option.some.injEq, Prod.mk.injEq] at h
        obtain ⟨rfl, rfl⟩ := h
        exact ⟨g, hb⟩

theorem nextU64_lt (g : Pcg) : (nextU64 g).1 < two64 := by
  simp only [nextU64, outputXslRr, rotr64]
  exact Nat.mod_lt _ (by decide)

/-- The u32 rejection loop returns `low.wrapping_add(hi)` for some `hi < range`
    (this is the first half of `ShuttleProofs.Pct.SampleLoopsInRange`). -/
theorem sampleLoop32_in_range (range zone low fuel : Nat) (g : Pcg) (r : Nat) (g' : Pcg)
    (hr : 0 < range) (h : sampleLoop32 range zone low fuel g = some (r, g')) :
    ∃ hi, hi < range ∧ r = (low + hi) % two32 := by
  unfold sampleLoop32 at h
  obtain ⟨g0, hb⟩ := retryLoop_some_elim fuel g r g' h
  unfold sampleBody32 at hb
  simp only [Prod.mk.injEq, Option.map_eq_some_iff] at hb
  obtain ⟨⟨hi, hw, rfl⟩, _⟩ := hb
  exact ⟨hi, wmulStep_lt hr (nextU32_lt g0) hw, rfl⟩

/-- The u64/usize rejection loop returns `low.wrapping_add(hi)` for some `hi < range`
    (second half of `ShuttleProofs.Pct.SampleLoopsInRange`). -/
theorem sampleLoop64_in_range (range zone low fuel : Nat) (g : Pcg) (r : Nat) (g' : Pcg)
    (hr : 0 < range) (h : sampleLoop64 range zone low fuel g = some (r, g')) :
    ∃ hi, hi < range ∧ r = (low + hi) % two64 := by
  unfold sampleLoop64 at h
  obtain ⟨g0, hb⟩ := retryLoop_some_elim fuel g r g' h
  unfold sampleBody64 at hb
  simp only [Prod.mk.injEq, Option.map_eq_some_iff] at hb
  obtain ⟨⟨hi, hw, rfl⟩, _⟩ := hb
  exact ⟨hi, wmulStep_lt hr (nextU64_lt g0) hw, rfl⟩

/-- For `0 < n ≤ u32::MAX`, `gen_index(rng, n)` is the u32 rejection loop with `range = n`,
    `low = 0` and the `leading_zeros` zone. -/
theorem genIndex_eq_loop {n : Nat} (hn : 0 < n) (hlt : n < two32) (g : Pcg) (fuel : Nat) :
    genIndex g n fuel = sampleLoop32 n (zoneSingle 32 n) 0 fuel g := by
  have hr : (n - 1 + two32 - 0 + 1) % two32 = n := by
    have : n - 1 + two32 - 0 + 1 = n + two32 := by omega
    rw [this, Nat.add_mod_right, Nat.mod_eq_of_lt hlt]
  have h1 : n ≤ two32 - 1 := by omega
  have h2 : 0 < n ∧ n < two32 := ⟨hn, hlt⟩
  have h3 : 0 ≤ n - 1 ∧ n - 1 < two32 := ⟨Nat.zero_le _, by omega⟩
  have h4 : ¬ n = 0 := by omega
  unfold genIndex genRangeU32 sampleSingleInclusiveU32
  simp only [h1, h2, h3, hr, h4, if_true, if_false, and_self]

theorem genIndex_zero {n : Nat} (hn : 0 < n) (hlt : n < two32) (g : Pcg) :
    genIndex g n 0 = none := by
  rw [genIndex_eq_loop hn hlt]
  unfold sampleLoop32
  rw [retryLoop_zero]

/-- **Connection of `accept` with the executable `genIndex`**: with first raw draw `v`, if
    `accept n v = some i` the call returns `i` (and the generator advanced by one draw), otherwise
    it recurses with the next draw. -/
theorem genIndex_succ {n : Nat} (hn : 0 < n) (hlt : n < two32) (g : Pcg) (fuel : Nat) :
    genIndex g n (fuel + 1) =
      match accept n (nextU32 g).1 with
      | some i => some (i, (nextU64 g).2)
      | none => genIndex (nextU64 g).2 n fuel := by
  rw [genIndex_eq_loop hn hlt, genIndex_eq_loop hn hlt]
  unfold sampleLoop32
  cases h : accept n (nextU32 g).1 with
  | none =>
    have hb : sampleBody32 n (zoneSingle 32 n) 0 g = (none, (nextU64 g).2) := by
      unfold accept at h
      unfold sampleBody32
      rw [h, nextU32_snd]
      rfl
    rw [retryLoop_succ_of_none fuel hb]
  | some i =>
    have hi : i < n := accept_lt hn (nextU32_lt g) h
    have hb : sampleBody32 n (zoneSingle 32 n) 0 g = (some i, (nextU64 g).2) := by
      unfold accept at h
      unfold sampleBody32
      rw [h, nextU32_snd]
      simp only [Option.map_some, Nat.zero_add]
      rw [Nat.mod_eq_of_lt (by omega)]
    rw [retryLoop_succ_of_some fuel hb]

/-- Full characterisation of `genIndex`: it returns `(i, g')` iff for some `k < fuel` the first `k`
    raw draws are rejected, the `k`-th is accepted with index `i`, and `g'` is the generator after
    exactly those `k+1` draws. -/
theorem genIndex_eq_some_iff {n : Nat} (hn : 0 < n) (hlt : n < two32) :
    ∀ (fuel : Nat) (g : Pcg) (i : Nat) (g' : Pcg),
      genIndex g n fuel = some (i, g') ↔
        ∃ k, k < fuel ∧ (∀ j, j < k → accept n (rawDraw g j) = none) ∧
          accept n (rawDraw g k) = some i ∧ g' = advance (k + 1) g := by
  intro fuel
  induction fuel with
  | zero =>
    intro g i g'
    rw [genIndex_zero hn hlt]
    constructor
    · intro h; cases h
    · rintro ⟨k, hk, _⟩; omega
  | succ fuel ih =>
    intro g i g'
    rw [genIndex_succ hn hlt]
    cases h : accept n (nextU32 g).1 with
    | some i0 =>
      simp only [Option.some.injEq, Prod.mk.injEq]
      constructor
      · rintro ⟨rfl, rfl⟩
        exact ⟨0, by omega, by intro j hj; omega, by rw [rawDraw_zero]; exact h,
          by rw [advance_succ, advance_zero]⟩
      · rintro ⟨k, _, hrej, hacc, hg⟩
        cases k with
        | zero =>
          rw [rawDraw_zero, h] at hacc
          cases hacc
          rw [advance_succ, advance_zero] at hg
          exact ⟨rfl, hg.symm⟩
        | succ k =>
          have := hrej 0 (by omega)
          rw [rawDraw_zero, h] at this
          cases this
    | none =>
      simp only
      rw [ih]
      constructor
      · rintro ⟨k, hk, hrej, hacc, hg⟩
        refine ⟨k + 1, by omega, ?_, by rw [rawDraw_succ]; exact hacc,
          by rw [advance_succ (k := k + 1)]; exact hg⟩
        intro j hj
        cases j with
        | zero => rw [rawDraw_zero]; exact h
        | succ j => rw [rawDraw_succ]; exact hrej j (by omega)
      · rintro ⟨k, hk, hrej, hacc, hg⟩
        cases k with
        | zero =>
          rw [rawDraw_zero, h] at hacc
          cases hacc
        | succ k =>
          rw [rawDraw_succ] at hacc
          rw [advance_succ (k := k + 1)] at hg
          refine ⟨k, by omega, fun j hj => ?_, hacc, hg⟩
          have := hrej (j + 1) (by omega)
          rw [rawDraw_succ] at this
          exact this

theorem genIndex_lt {n : Nat} (hn : 0 < n) (hlt : n < two32) {fuel : Nat} {g g' : Pcg} {i : Nat}
    (h : genIndex g n fuel = some (i, g')) : i < n := by
  obtain ⟨k, _, _, hacc, _⟩ := (genIndex_eq_some_iff hn hlt fuel g i g').1 h
  exact accept_lt hn (rawDraw_lt g k) hacc

/-- `choose` on a non-empty slice is `gen_index(len)` followed by an (always in-bounds) lookup. -/
theorem choose_eq_some_iff {α : Type} {xs : List α} (hne : xs ≠ []) (hlt : xs.length < two32)
    (fuel : Nat) (g g' : Pcg) (r : Option α) :
    choose g xs fuel = some (r, g') ↔
      ∃ i, genIndex g xs.length fuel = some (i, g') ∧ i < xs.length ∧ r = xs[i]? := by
  have hn : 0 < xs.length := List.length_pos_iff.mpr hne
  have he : xs.isEmpty = false := by
    cases xs with
    | nil => exact absurd rfl hne
    | cons _ _ => rfl
  unfold choose
  simp only [he, Bool.false_eq_true, if_false]
  cases hgi : genIndex g xs.length fuel with
  | none => simp
  | some p =>
    obtain ⟨i, g1⟩ := p
    have hi : i < xs.length := genIndex_lt hn hlt hgi
    simp only [List.getElem?_eq_getElem hi, Option.some.injEq, Prod.mk.injEq]
    constructor
    · rintro ⟨rfl, rfl⟩
      exact ⟨i, ⟨rfl, rfl⟩, hi, (List.getElem?_eq_getElem hi).symm⟩
    · rintro ⟨i', ⟨rfl, rfl⟩, hi', hr⟩
      rw [List.getElem?_eq_getElem hi'] at hr
      exact ⟨hr.symm, rfl⟩

end ShuttleProofs.Rng
