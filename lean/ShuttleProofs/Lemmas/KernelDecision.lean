import ShuttleProofs.Lemmas.KernelSim
/-!
# Kernel lemmas, part 11: the log only grows; every `Decision` taken within the fuel is in the final log;
the chosen task is `Runnable` when its segment starts; `.task` steps vs consultations
-/

namespace ShuttleProofs.Kernel
open ShuttleModel

variable {P : Program} {σ : Type}

/-! ### the log only grows -/

theorem iter_log_prefix {S : Scheduler σ} {segFuel : Nat} {ms : MaxSteps} {a b : ExecState P σ}
    (hi : LoopInv ms a) (h : loopStep S segFuel a = .inr b) : ∃ l, b.log.toList = a.log.toList ++ l := by
  obtain ⟨t, s', _, _, _, _, evs, hlog, _, _⟩ := iter_frame hi.next hi.conts h
  exact ⟨[decEv a.k (some t)] ++ evs, by rw [hlog]; simp [segStart]⟩

theorem reach_log_prefix {S : Scheduler σ} {segFuel : Nat} {ms : MaxSteps} {a b : ExecState P σ}
    (hi : LoopInv ms a) (h : Reach S segFuel a b) : ∃ l, b.log.toList = a.log.toList ++ l := by
  have : LoopInv ms b ∧ ∃ l, b.log.toList = a.log.toList ++ l :=
    h.invariant (fun st => LoopInv ms st ∧ ∃ l, st.log.toList = a.log.toList ++ l)
      (fun x y ⟨h1, l, h2⟩ hs => by
        obtain ⟨l', h3⟩ := iter_log_prefix h1 hs
        exact ⟨h1.step hs, l ++ l', by rw [h3, h2, List.append_assoc]⟩)
      ⟨hi, [], by simp⟩
  exact this.2

theorem runLoop_log_prefix (S : Scheduler σ) (segFuel fuel : Nat) {ms : MaxSteps} {st : ExecState P σ}
    (hi : LoopInv ms st) : ∃ l, (runLoop S segFuel fuel st).st.log.toList = st.log.toList ++ l := by
  obtain ⟨stf, hr, _, hf⟩ := runLoop_final S segFuel fuel ms st hi
  obtain ⟨l, hl⟩ := reach_log_prefix hi hr
  obtain ⟨decs, evs, hlog, _, _⟩ := hf.log
  exact ⟨l ++ decs ++ evs, by rw [hlog, hl]; simp⟩

/-- running `m` continuing iterations consumes `m` units of loop fuel -/
theorem runLoop_of_reachN {S : Scheduler σ} {segFuel m : Nat} {a b : ExecState P σ}
    (h : ReachN S segFuel m a b) (f : Nat) : runLoop S segFuel (m + f) a = runLoop S segFuel f b := by
  induction h with
  | refl st => simp
  | @head n x y z h1 _ ih =>
    have : n + 1 + f = (n + f) + 1 := by omega
    rw [this, runLoop_succ, h1]
    exact ih

/-- **Every `Decision` taken within the loop fuel is in the final log.** -/
theorem decision_logged {S : Scheduler σ} {segFuel m : Nat} {ms : MaxSteps} {st0 st : ExecState P σ} {ev : Ev}
    (h0 : LoopInv ms st0) (hr : ReachN S segFuel m st0 st) (hd : Decision S segFuel st0 st ev)
    (fuel : Nat) (hfuel : m < fuel) : ev ∈ (runLoop S segFuel fuel st0).st.log.toList := by
  have hi : LoopInv ms st := h0.reach ⟨m, hr⟩
  obtain ⟨f, rfl⟩ : ∃ f, fuel = m + (f + 1) := ⟨fuel - m - 1, by omega⟩
  rw [runLoop_of_reachN hr, runLoop_succ]
  obtain ⟨ch, s', hask, hmem, rfl⟩ := hd.answer
  cases ch with
  | none =>
    rw [loopStep_choseNone S segFuel hi.next hi.conts hd.consults hask]
    simp
  | some t =>
    obtain ⟨p, _, hl⟩ := loopStep_chose S segFuel hi.next hi.conts hd.consults hask (hmem t rfl)
    have htr := runSegment_trace S t segFuel (segStart st t s') p
    have hin : decEv st.k (some t) ∈ (runSegment S t segFuel (segStart st t s') p).st.log.toList := by
      rcases htr.log with ⟨evs, a, _, _⟩ | ⟨_, _, he, evs, a, _, _⟩
      · rw [a]; simp [segStart]
      · rw [he]; simp only [SegEnd.st]; rw [a]; simp [segStart]
    cases hls : loopStep S segFuel st with
    | inl r =>
      simp only
      rw [hl] at hls
      rw [(finishSeg_inl hls).1]
      exact hin
    | inr b =>
      simp only
      have hb : LoopInv ms b := hi.step hls
      obtain ⟨l, hl'⟩ := runLoop_log_prefix S segFuel f hb
      rw [hl']
      apply List.mem_append_left
      rw [hl] at hls
      obtain ⟨_, ts, _, rfl⟩ := finishSeg_inr hls
      exact hin

/-! ### the chosen task -/

/-- when the chosen task's segment starts, that task is `Runnable` (a spuriously woken one has been
unblocked, which also clears `blocked_in_park`); every other task is untouched -/
theorem segStart_tasks (st : ExecState P σ) (t : Nat) (s' : σ) (hmem : t ∈ st.k.offered) :
    (∃ tk, (segStart st t s').k.tasks[t]? = some tk ∧ tk.state = .runnable) ∧
    (∀ i, i ≠ t → (segStart st t s').k.tasks[i]? = st.k.tasks[i]?) ∧
    (∀ tk, st.k.tasks[t]? = some tk → tk.state = .runnable → (segStart st t s').k.tasks = st.k.tasks) := by
  obtain ⟨tk, h1, h2⟩ := mem_offered.mp hmem
  have hlt : t < st.k.tasks.length := (List.getElem?_eq_some_iff.mp h1).1
  show (∃ tk, (wokenTasks st.k t)[t]? = some tk ∧ tk.state = .runnable) ∧
    (∀ i, i ≠ t → (wokenTasks st.k t)[i]? = st.k.tasks[i]?) ∧
    (∀ tk, st.k.tasks[t]? = some tk → tk.state = .runnable → wokenTasks st.k t = st.k.tasks)
  unfold wokenTasks
  rw [h1]
  simp only
  cases hr : tk.runnable with
  | true =>
    simp only [if_true]
    exact ⟨⟨tk, h1, (Task.runnable_iff tk).mp hr⟩, fun _ _ => trivial, fun _ _ _ => trivial⟩
  | false =>
    simp only [Bool.false_eq_true, if_false]
    refine ⟨⟨_, by rw [List.getElem?_set_self hlt], rfl⟩, ?_, ?_⟩
    · intro i hne
      rw [List.getElem?_set_ne (Ne.symm hne)]
    · intro tk' h3 h4
      cases h3
      rw [(Task.runnable_iff tk).mpr h4] at hr; cases hr

/-! ### `.task` steps -/

def isTaskStep : SStep → Bool
  | .task _ => true
  | .random => false

/-- number of `.task` steps of a schedule -/
def taskCount (l : List SStep) : Nat := (l.filter isTaskStep).length

theorem taskCount_append (l l' : List SStep) : taskCount (l ++ l') = taskCount l + taskCount l' := by
  simp [taskCount]

theorem taskCount_logSteps_le (l : List Ev) : taskCount (logSteps l) ≤ decCount l := by
  induction l with
  | nil => exact Nat.le_refl _
  | cons ev l ih =>
    have h1 : logSteps (ev :: l) = evSteps ev ++ logSteps l := by simp [logSteps]
    have h2 : decCount (ev :: l) = decCount [ev] + decCount l := decCount_append [ev] l
    rw [h1, taskCount_append, h2]
    have : taskCount (evSteps ev) ≤ decCount [ev] := by
      cases ev with
      | dec o c y ch => cases ch <;> exact Nat.le_of_ble_eq_true rfl
      | draw v => exact Nat.le_of_ble_eq_true rfl
      | obs s => exact Nat.le_of_ble_eq_true rfl
    omega

end ShuttleProofs.Kernel
