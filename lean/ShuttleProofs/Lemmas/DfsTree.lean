import ShuttleModel.Sched.Dfs

/-!
Abstract choice trees and the driver loop around the DFS scheduler model (core Lean only, executable).
-/

namespace ShuttleProofs.Dfs
open ShuttleModel.Dfs

/-- The tree a deterministic program presents to the scheduler.  The execution ends at a `leaf`; at a
`node kids` the runtime offers `kids.map (·.1)` (in that order) and continues in the sub-tree of the chosen id.
The offered list may depend arbitrarily on the choices made so far. -/
inductive Tree where
  | leaf
  | node (kids : List (Nat × Tree))
deriving Repr

abbrev Forest := List (Nat × Tree)

mutual
/-- Well-formed: every node has a non-empty kid list with pairwise distinct ids, recursively. -/
def Tree.WF : Tree → Prop
  | .leaf => True
  | .node kids => kids ≠ [] ∧ (kids.map (·.1)).Nodup ∧ WFF kids
def WFF : Forest → Prop
  | [] => True
  | (_, t) :: rest => t.WF ∧ WFF rest
end

mutual
/-- All root-to-leaf choice sequences, in left-to-right (depth-first) order. -/
def paths : Tree → List (List Nat)
  | .leaf => [[]]
  | .node kids => pathsF kids
def pathsF : Forest → List (List Nat)
  | [] => []
  | (c, t) :: rest => (paths t).map (c :: ·) ++ pathsF rest
end

mutual
/-- One execution from state `s` on (sub)tree `t`: at each node ask `nextTask`, descend into the chosen kid.
`none` = failure (a `.panic`, or a choice that is not among the offered ids). -/
def runFrom (s : DfsState) : Tree → Option (List Nat) × DfsState
  | .leaf => (some [], s)
  | .node kids =>
    match nextTask s (kids.map (·.1)) with
    | .panic _ => (none, s)
    | .ok c s' => descend s' c kids
def descend (s : DfsState) (c : Nat) : Forest → Option (List Nat) × DfsState
  | [] => (none, s)
  | (c', t) :: rest =>
    if c' = c then
      match runFrom s t with
      | (r, s') => (r.map (c :: ·), s')
    else descend s c rest
end

/-- One execution: follow the tree from the root. -/
def runOne (s : DfsState) (t : Tree) : Option (List Nat) × DfsState := runFrom s t

/-- How a run of the driver loop ended. -/
inductive RunEnd where
  | done        -- `newExecution` returned `none`
  | failed      -- an execution failed (scheduler panic / choice not offered)
  | outOfFuel   -- the fuel bound of the model loop was hit before `newExecution` returned `none`
deriving Repr, DecidableEq

/-- The driver loop `repeat { newExecution; if none stop; runOne }`, collecting the executed paths, together with
the reason the loop stopped. -/
def runAllEnd : Nat → DfsState → Tree → List (List Nat) × RunEnd
  | 0, _, _ => ([], .outOfFuel)
  | fuel + 1, s, t =>
    match newExecution s with
    | none => ([], .done)
    | some s1 =>
      match runOne s1 t with
      | (none, _) => ([], .failed)
      | (some p, s2) =>
        match runAllEnd fuel s2 t with
        | (ps, e) => (p :: ps, e)

/-- The scheduler state after exactly `n` successful executions (`none` if the loop stops or fails earlier). -/
def iterExec : Nat → DfsState → Tree → Option DfsState
  | 0, s, _ => some s
  | n + 1, s, t =>
    match newExecution s with
    | none => none
    | some s1 =>
      match runOne s1 t with
      | (none, _) => none
      | (some _, s2) => iterExec n s2 t

def runAll (fuel : Nat) (s : DfsState) (t : Tree) : List (List Nat) := (runAllEnd fuel s t).1

end ShuttleProofs.Dfs
