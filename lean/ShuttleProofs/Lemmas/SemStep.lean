import ShuttleProofs.Lemmas.SemPollSpec
/-
  Every step of the most-general client keeps `Inv` and the permit balance; hence both hold in
  every reachable state.
-/
namespace ShuttleModel
namespace SemLts
open Sem (PollOut)

def permitsOf : Option (Nat × Nat) → Nat
  | none => 0
  | some (_, n) => n

theorem tget_append_of_some {T B : List Waiter} {wid : Nat} {x : Waiter} (h : tget T wid = some x) :
    tget (T ++ B) wid = some x := by
  induction T with
  | nil => simp at h
  | cons y T ih => grind [tget_cons]

theorem Inv.dropW {s : SemState} {wid : Nat} {w : Waiter} (hi : Inv s) (hw : s.getW wid = some w)
    (hq : w.isQueued = false) :
    Inv (s.dropW wid) ∧ pend (s.dropW wid).table + wpend w = pend s.table := by
  rw [getW_eq] at hw
  have hnotin : wid ∉ s.queue := by
    intro hin
    have := (hi.tq.queued_of_tget hw).mpr hin
    rw [hq] at this; cases this
  refine ⟨⟨hi.tq.drop hnotin, hi.batch, hi.closedEmpty, ?_⟩, pend_tdrop hi.tq.nodupT hw⟩
  intro hf wid0 rest w0 hq0 hg
  simp only [dropW_queue, dropW_fair, dropW_avail] at hq0 hf ⊢
  rw [getW_eq, dropW_table, tget_tdrop] at hg
  by_cases e : wid0 = wid
  · rw [if_pos e] at hg; cases hg
  · rw [if_neg e] at hg
    exact hi.headBlocked hf wid0 rest w0 hq0 hg

theorem Inv.newAcquire {s : SemState} (hi : Inv s) (me n : Nat) (c : Clock) :
    Inv (s.newAcquire me n c).2 ∧ pend (s.newAcquire me n c).2.table = pend s.table ∧
      (s.newAcquire me n c).2.avail = s.avail := by
  refine ⟨⟨hi.tq.new (w := { wid := s.nextWid, taskId := me, n := n, clock := c }) rfl rfl,
    hi.batch, hi.closedEmpty, ?_⟩, ?_, rfl⟩
  · intro hf wid0 rest w0 hq0 hg
    have hq0' : s.queue = wid0 :: rest := hq0
    obtain ⟨x, hx, _⟩ := hi.tq.tget_of_mem_queue (wid := wid0) (by rw [hq0']; exact List.mem_cons_self ..)
    have hg' : tget (s.table ++ [{ wid := s.nextWid, taskId := me, n := n, clock := c }]) wid0 = some w0 := hg
    rw [tget_append_of_some hx] at hg'
    have e := Option.some.inj hg'
    rw [← e]
    exact hi.headBlocked hf wid0 rest x hq0' hx
  · show pend (s.table ++ [{ wid := s.nextWid, taskId := me, n := n, clock := c }]) = pend s.table
    simp only [pend_append, pend_cons, pend_nil, wpend]
    simp

theorem step_spec (fin : Nat → Bool) {s : SemState} {op : SemOp} {o : StepOut} (hi : Inv s)
    (h : step fin s op = .ok o) :
    Inv o.s ∧ o.s.avail + pend o.s.table + permitsOf (acquiredBy s op o.out)
      = s.avail + pend s.table + permitsOf (releasedBy op) := by
  cases op with
  | tryAcquire task n clk =>
    simp only [step] at h
    cases hacq : s.acquirePermits n clk with
    | error msg => rw [hacq] at h; cases h
    | ok r =>
      rw [hacq] at h
      cases r with
      | ok p =>
        obtain ⟨s', pc⟩ := p
        simp only [Except.ok.injEq] at h
        subst h
        obtain ⟨i1, hav, ht, _⟩ := acquirePermits_inv hi hacq
        refine ⟨i1, ?_⟩
        simp only [acquiredBy, releasedBy, permitsOf, ht]
        omega
      | error e =>
        simp only [Except.ok.injEq] at h
        subst h
        exact ⟨hi, by simp [acquiredBy, releasedBy, permitsOf]⟩
  | newAcq task n clk =>
    simp only [step, Except.ok.injEq] at h
    subst h
    obtain ⟨i1, hp, ha⟩ := hi.newAcquire task n clk
    refine ⟨i1, ?_⟩
    simp only [acquiredBy, releasedBy, permitsOf, hp, ha]
  | poll wid me cx clk =>
    simp only [step] at h
    cases hw : s.getW wid with
    | none => rw [hw] at h; cases h
    | some w0 =>
      rw [hw] at h
      simp only at h
      by_cases hc : w0.completed = true
      · rw [if_pos hc] at h; cases h
      · rw [if_neg hc] at h
        cases hpp : s.pollPure wid me cx clk fin with
        | error msg => rw [hpp] at h; cases h
        | ok po =>
          rw [hpp] at h
          simp only [Except.ok.injEq] at h
          subst h
          have sp := pollPure_spec hi hw (by simpa using hc) hpp
          refine ⟨sp.inv, ?_⟩
          have c := sp.cons
          simp only [releasedBy, permitsOf]
          cases hr : po.res with
          | pending =>
            rw [hr] at c
            simp only [acquiredBy, reduceCtorEq, if_false] at c ⊢
            omega
          | ready ok =>
            rw [hr] at c
            cases ok with
            | true =>
              simp only [acquiredBy, hw, Option.map_some, if_true] at c ⊢
              omega
            | false =>
              simp only [acquiredBy, PollRes.ready.injEq, Bool.false_eq_true, if_false] at c ⊢
              omega
  | dropAcquire task wid =>
    simp only [step] at h
    cases hw : s.getW wid with
    | none =>
      rw [hw] at h
      simp only [Except.ok.injEq] at h
      subst h
      exact ⟨hi, by simp [acquiredBy, releasedBy, permitsOf]⟩
    | some w =>
      rw [hw] at h
      simp only at h
      by_cases hq : w.isQueued = true
      · rw [if_pos hq] at h
        cases hrm : s.removeWaiterPure fin wid with
        | error msg => rw [hrm] at h; cases h
        | ok r =>
          obtain ⟨s', effs⟩ := r
          rw [hrm] at h
          simp only [Except.ok.injEq] at h
          subst h
          obtain ⟨w', hw', _, rs⟩ := removeWaiterPure_spec fin hi hrm
          rw [hw] at hw'; cases hw'
          obtain ⟨i2, p2⟩ := rs.inv.dropW rs.getW rfl
          refine ⟨i2, ?_⟩
          have hp : w.hasPermits = false := (hi.tq.queuedOk w (tget_some_mem hw).1 hq).1
          have e : wpend ({ w with isQueued := false } : Waiter) = 0 := wpend_zero (Or.inl hp)
          have c := rs.cons
          simp only [acquiredBy, releasedBy, permitsOf, dropW_avail] at p2 ⊢
          omega
      · rw [if_neg hq] at h
        have hq' : w.isQueued = false := by simpa using hq
        obtain ⟨i2, p2⟩ := hi.dropW hw hq'
        by_cases hg : (w.hasPermits && !w.completed) = true
        · rw [if_pos hg] at h
          simp only [Except.ok.injEq] at h
          subst h
          refine ⟨i2, ?_⟩
          have e : wpend w = w.n := by simp [wpend, hg]
          simp only [releasedBy, permitsOf, dropW_avail] at p2 ⊢
          cases hn : w.n with
          | zero => simp only [acquiredBy]; omega
          | succ k => simp only [acquiredBy]; omega
        · rw [if_neg hg] at h
          simp only [Except.ok.injEq] at h
          subst h
          refine ⟨i2, ?_⟩
          have e : wpend w = 0 := by simp [wpend, hg]
          simp only [acquiredBy, releasedBy, permitsOf, dropW_avail] at p2 ⊢
          omega
  | release task n clk =>
    simp only [step] at h
    by_cases hn : n = 0
    · rw [if_pos hn] at h
      simp only [Except.ok.injEq] at h
      subst h
      exact ⟨hi, by simp [acquiredBy, releasedBy, permitsOf, hn]⟩
    · rw [if_neg hn] at h
      simp only [Except.ok.injEq] at h
      subst h
      obtain ⟨i1, c⟩ := releasePure_spec fin n clk hi
      refine ⟨i1, ?_⟩
      simp only [acquiredBy, releasedBy, permitsOf, hn, if_false]
      omega
  | close =>
    simp only [step, Except.ok.injEq] at h
    subst h
    obtain ⟨i1, ha, hp, _⟩ := closePure_spec fin hi
    refine ⟨i1, ?_⟩
    simp only [acquiredBy, releasedBy, permitsOf, ha, hp]
  | poisonRelease task n =>
    simp only [step] at h
    by_cases hn : n = 0
    · rw [if_pos hn] at h
      simp only [Except.ok.injEq] at h
      subst h
      exact ⟨hi, by simp [acquiredBy, releasedBy, permitsOf, hn]⟩
    · rw [if_neg hn] at h
      simp only [Except.ok.injEq] at h
      subst h
      obtain ⟨i1, c, _⟩ := releasePoison_spec n hi
      refine ⟨i1, ?_⟩
      simp only [acquiredBy, releasedBy, permitsOf, hn, if_false]
      omega

/-! ### the ghost balance -/

/-- permits available + permits granted to uncompleted acquisitions + permits held by completed,
unreleased acquisitions = initial permits + permits added -/
def Balance (n0 : Nat) (g : G) : Prop :=
  g.s.avail + pend g.s.table + heldSum g.held = n0 + g.added

theorem heldSum_erase {l : List (Nat × Nat)} {p : Nat × Nat} (h : p ∈ l) :
    heldSum (l.erase p) + p.2 = heldSum l := by
  induction l with
  | nil => cases h
  | cons x l ih =>
    obtain ⟨t, n⟩ := x
    by_cases e : (t, n) = p
    · subst e; simp [heldSum]; omega
    · have hm : p ∈ l := by
        rcases List.mem_cons.mp h with h | h
        · exact absurd h.symm e
        · exact h
      rw [List.erase_cons_tail (by simpa using e)]
      simp only [heldSum]
      have := ih hm
      omega

theorem giveBack_spec (g : G) (r : Option (Nat × Nat)) :
    (giveBack g r).s = g.s ∧
      heldSum (giveBack g r).held + permitsOf r + g.added = heldSum g.held + (giveBack g r).added := by
  cases r with
  | none => exact ⟨rfl, by simp [giveBack, permitsOf]⟩
  | some p =>
    obtain ⟨t, n⟩ := p
    simp only [giveBack, permitsOf]
    by_cases hm : (t, n) ∈ g.held
    · rw [if_pos hm]
      have := heldSum_erase hm
      exact ⟨rfl, by simp only; omega⟩
    · rw [if_neg hm]
      exact ⟨rfl, by simp only; omega⟩

theorem take_spec (g : G) (r : Option (Nat × Nat)) :
    (take g r).s = g.s ∧ (take g r).added = g.added ∧
      heldSum (take g r).held = heldSum g.held + permitsOf r := by
  cases r with
  | none => exact ⟨rfl, rfl, by simp [take, permitsOf]⟩
  | some p =>
    obtain ⟨t, n⟩ := p
    exact ⟨rfl, rfl, by simp [take, permitsOf, heldSum]; omega⟩

theorem gstep_spec (fin : Nat → Bool) {g g' : G} {op : SemOp} {out : Out} {effs : List Eff} {n0 : Nat}
    (hi : Inv g.s) (hb : Balance n0 g) (h : gstep fin g op = .ok (g', out, effs)) :
    Inv g'.s ∧ Balance n0 g' := by
  unfold gstep at h
  cases hs : step fin g.s op with
  | error msg => rw [hs] at h; cases h
  | ok o =>
    rw [hs] at h
    simp only [Except.ok.injEq, Prod.mk.injEq] at h
    obtain ⟨rfl, _, _⟩ := h
    obtain ⟨i1, c⟩ := step_spec fin hi hs
    refine ⟨i1, ?_⟩
    obtain ⟨g1s, g1b⟩ := giveBack_spec g (releasedBy op)
    obtain ⟨_, g2a, g2h⟩ := take_spec (giveBack g (releasedBy op)) (acquiredBy g.s op o.out)
    unfold Balance at hb ⊢
    simp only
    omega

theorem reach_inv {s0 : SemState} {n0 : Nat} (h0 : Inv s0) (hb0 : s0.avail + pend s0.table = n0)
    {g : G} (hr : Reach s0 g) : Inv g.s ∧ Balance n0 g := by
  induction hr with
  | init => exact ⟨h0, by simp [Balance, heldSum]; omega⟩
  | step _ hstep ih => exact gstep_spec _ ih.1 ih.2 hstep

end SemLts
end ShuttleModel
