import ShuttleProofs.Lemmas.SemInv
/-
  Every pure transition preserves `Inv`, and changes `avail + pend` by exactly the permits it
  hands to / takes from the client.
-/
namespace ShuttleModel
namespace SemLts

/-! ### `acquire_permits` -/

theorem acquirePermits_ok {s s' : SemState} {n : Nat} {c pc : Clock}
    (h : s.acquirePermits n c = .ok (.ok (s', pc))) :
    0 < n ∧ s.closed = false ∧ (s.queue = [] ∨ s.fair = false) ∧ s.paAcquire n c = some (s', pc) := by
  unfold SemState.acquirePermits at h
  by_cases h0 : n = 0
  · simp [h0] at h
  · by_cases hc : s.closed = true
    · simp [h0, hc] at h
    · by_cases hq : (s.queue.isEmpty || !s.fair) = true
      · simp only [h0, hc, hq, if_false, if_true, Bool.false_eq_true] at h
        cases hpa : s.paAcquire n c with
        | none => simp [hpa] at h
        | some r =>
          simp only [hpa, Except.ok.injEq] at h
          refine ⟨by omega, by simpa using hc, ?_, by rw [h]⟩
          simp only [Bool.or_eq_true, List.isEmpty_iff, Bool.not_eq_eq_eq_not, Bool.not_true] at hq
          exact hq
      · simp [h0, hc, hq] at h

theorem acquirePermits_noPermits {s : SemState} {n : Nat} {c : Clock}
    (h : s.acquirePermits n c = .ok (.error .noPermits)) :
    0 < n ∧ s.closed = false ∧
      ((s.queue ≠ [] ∧ s.fair = true) ∨ s.avail < n) := by
  unfold SemState.acquirePermits at h
  by_cases h0 : n = 0
  · simp [h0] at h
  · by_cases hc : s.closed = true
    · simp [h0, hc] at h
    · by_cases hq : (s.queue.isEmpty || !s.fair) = true
      · simp only [h0, hc, hq, if_false, if_true, Bool.false_eq_true] at h
        cases hpa : s.paAcquire n c with
        | none => exact ⟨by omega, by simpa using hc, Or.inr (paAcquire_none hpa)⟩
        | some r => simp [hpa] at h
      · refine ⟨by omega, by simpa using hc, Or.inl ?_⟩
        simp only [Bool.or_eq_true, List.isEmpty_iff, Bool.not_eq_eq_eq_not, Bool.not_true,
          not_or] at hq
        exact ⟨hq.1, by simpa using hq.2⟩

theorem acquirePermits_closed {s : SemState} {n : Nat} {c : Clock}
    (h : s.acquirePermits n c = .ok (.error .closed)) : s.closed = true := by
  unfold SemState.acquirePermits at h
  by_cases h0 : n = 0
  · simp [h0] at h
  · by_cases hc : s.closed = true
    · exact hc
    · by_cases hq : (s.queue.isEmpty || !s.fair) = true
      · simp only [h0, hc, hq, if_false, if_true, Bool.false_eq_true] at h
        cases hpa : s.paAcquire n c <;> simp [hpa] at h
      · simp [h0, hc, hq] at h

/-- a successful `acquire_permits` keeps the invariant: in fair mode it needs an empty queue -/
theorem acquirePermits_inv {s s' : SemState} {n : Nat} {c pc : Clock} (hi : Inv s)
    (h : s.acquirePermits n c = .ok (.ok (s', pc))) :
    Inv s' ∧ s'.avail + n = s.avail ∧ s'.table = s.table ∧ s'.queue = s.queue ∧
      s'.closed = s.closed ∧ s'.fair = s.fair ∧ s'.nextWid = s.nextWid := by
  obtain ⟨_, _, hq, hpa⟩ := acquirePermits_ok h
  obtain ⟨fr, hav, hb⟩ := paAcquire_some hpa
  refine ⟨⟨?_, hb hi.batch, ?_, ?_⟩, hav, fr.table, fr.queue, fr.closed, fr.fair, fr.nextWid⟩
  · rw [fr.queue, fr.table, fr.nextWid]; exact hi.tq
  · rw [fr.queue, fr.closed]; exact hi.closedEmpty
  · intro hf wid rest w hqq
    rw [fr.fair] at hf
    rw [fr.queue] at hqq
    rcases hq with hq | hq
    · rw [hq] at hqq; cases hqq
    · rw [hq] at hf; cases hf

/-! ### clearing the queue (`close`, poisoning `release`) -/

def clearStep (f : Waiter → Waiter) (s : SemState) (wid : Nat) : SemState :=
  match s.getW wid with
  | some w => s.setW (f w)
  | none => s

structure ClearSpec (s r : SemState) (nx : Nat) : Prop where
  tq : TQ [] r.table nx
  pend : pend r.table = pend s.table
  avail : r.avail = s.avail
  batches : r.batches = s.batches
  fair : r.fair = s.fair
  nextWid : r.nextWid = s.nextWid
  closed : r.closed = s.closed

theorem clear_spec (f : Waiter → Waiter)
    (hf : ∀ w, (f w).wid = w.wid ∧ (f w).isQueued = false ∧ wpend (f w) = wpend w)
    (q : List Nat) (s : SemState) (nx : Nat) (h : TQ q s.table nx) :
    ClearSpec s (q.foldl (clearStep f) s) nx := by
  induction q generalizing s with
  | nil => exact ⟨h, rfl, rfl, rfl, rfl, rfl, rfl⟩
  | cons wid rest ih =>
    simp only [List.foldl_cons]
    obtain ⟨w, hw, _⟩ := h.tget_of_mem_queue (List.mem_cons_self ..)
    have hstep : clearStep f s wid = s.setW (f w) := by
      simp only [clearStep, getW_eq, hw]
    rw [hstep]
    have h1 := ih (s.setW (f w)) (by
      simp only [setW_table]
      exact h.pop hw (by rw [(hf w).1]; exact (tget_some_mem hw).2) (hf w).2.1)
    have h2 := pend_tset h.nodupT (w := f w) (old := w) (by
      rw [(hf w).1, (tget_some_mem hw).2]; exact hw)
    refine ⟨h1.tq, ?_, h1.avail, h1.batches, h1.fair, h1.nextWid, h1.closed⟩
    rw [h1.pend]; simp only [setW_table]
    have := (hf w).2.2
    omega

/-! ### `release` -/

theorem paRelease_frame (s : SemState) (n : Nat) (c : Clock) :
    (s.paRelease n c).queue = s.queue ∧ (s.paRelease n c).table = s.table ∧
    (s.paRelease n c).nextWid = s.nextWid ∧ (s.paRelease n c).closed = s.closed ∧
    (s.paRelease n c).fair = s.fair ∧ (s.paRelease n c).avail = s.avail + n :=
  ⟨rfl, rfl, rfl, rfl, rfl, rfl⟩

theorem releasePure_spec (fin : Nat → Bool) {s : SemState} (n : Nat) (c : Clock) (hi : Inv s) :
    Inv (s.releasePure fin n c).1 ∧
      (s.releasePure fin n c).1.avail + pend (s.releasePure fin n c).1.table
        = s.avail + pend s.table + n := by
  unfold SemState.releasePure
  obtain ⟨fq, ft, fn, fc, ff, fa⟩ := paRelease_frame s n c
  by_cases hfair : (s.paRelease n c).fair = true
  · simp only [hfair, if_true]
    have sp := unblockFront_spec fin (s.paRelease n c).queue (s.paRelease n c)
    have htq : TQ (s.paRelease n c).queue (s.paRelease n c).table s.nextWid := by
      rw [fq, ft]; exact hi.tq
    refine ⟨⟨?_, sp.batch (paRelease_batchOk n c hi.batch), ?_, fun _ => sp.head⟩, ?_⟩
    · rw [sp.nextWid, fn]; exact sp.tq _ htq
    · intro hcl
      rw [sp.closed, fc] at hcl
      obtain ⟨pre, hp⟩ := sp.suffix
      have hq0 : (s.paRelease n c).queue = [] := by rw [fq]; exact hi.closedEmpty hcl
      have := hp.symm.trans hq0
      simp only [List.append_eq_nil_iff] at this
      exact this.2
    · rw [sp.cons _ htq, fa, ft]; omega
  · simp only [hfair, Bool.false_eq_true, if_false]
    refine ⟨⟨?_, paRelease_batchOk n c hi.batch, ?_, ?_⟩, ?_⟩
    · rw [fq, ft, fn]; exact hi.tq
    · rw [fq, fc]; exact hi.closedEmpty
    · intro hf; exact absurd hf hfair
    · rw [fa, ft]; omega

theorem releasePoison_eq (s : SemState) (n : Nat) :
    s.releasePoison n =
      { ((s.paRelease n Clock.new).queue.foldl (clearStep (fun w => { w with isQueued := false }))
          (s.paRelease n Clock.new)) with queue := [], closed := true } := rfl

theorem closePure_eq (fin : Nat → Bool) (s : SemState) (h : s.closed = false) :
    (s.closePure fin).1 =
      { (s.queue.foldl (clearStep (fun w => { w with isQueued := false, waker := none })) s)
          with closed := true, queue := [] } := by
  simp only [SemState.closePure, h, Bool.false_eq_true, if_false]
  rfl

theorem releasePoison_spec {s : SemState} (n : Nat) (hi : Inv s) :
    Inv (s.releasePoison n) ∧
      (s.releasePoison n).avail + pend (s.releasePoison n).table = s.avail + pend s.table + n ∧
      (s.releasePoison n).closed = true ∧ (s.releasePoison n).queue = [] := by
  rw [releasePoison_eq]
  obtain ⟨fq, ft, fn, fc, ff, fa⟩ := paRelease_frame s n Clock.new
  have cs := clear_spec (fun w => { w with isQueued := false })
    (fun w => ⟨rfl, rfl, rfl⟩) (s.paRelease n Clock.new).queue (s.paRelease n Clock.new) s.nextWid
    (by rw [fq, ft]; exact hi.tq)
  refine ⟨⟨?_, ?_, fun _ => rfl, ?_⟩, ?_, rfl, rfl⟩
  · simp only; rw [cs.nextWid, fn]; exact cs.tq
  · intro b hb
    simp only at hb ⊢
    rw [cs.batches] at hb
    rw [cs.avail]
    exact paRelease_batchOk n Clock.new hi.batch b hb
  · intro _ wid rest w hq; simp at hq
  · simp only; rw [cs.avail, cs.pend, fa, ft]; omega

/-! ### `close` -/

theorem closePure_spec (fin : Nat → Bool) {s : SemState} (hi : Inv s) :
    Inv (s.closePure fin).1 ∧ (s.closePure fin).1.avail = s.avail ∧
      pend (s.closePure fin).1.table = pend s.table ∧
      (s.closePure fin).1.closed = true ∧ (s.closePure fin).1.queue = [] := by
  by_cases hc : s.closed = true
  · have : s.closePure fin = (s, []) := by simp [SemState.closePure, hc]
    rw [this]
    exact ⟨hi, rfl, rfl, hc, hi.closedEmpty hc⟩
  · rw [closePure_eq fin s (by simpa using hc)]
    have cs := clear_spec (fun w => { w with isQueued := false, waker := none })
      (fun w => ⟨rfl, rfl, rfl⟩) s.queue s s.nextWid hi.tq
    refine ⟨⟨?_, ?_, fun _ => rfl, ?_⟩, cs.avail, cs.pend, rfl, rfl⟩
    · simp only; rw [cs.nextWid]; exact cs.tq
    · intro b hb
      simp only at hb ⊢
      rw [cs.batches] at hb
      rw [cs.avail]
      exact hi.batch b hb
    · intro _ wid rest w hq; simp at hq

/-! ### `remove_waiter` -/

theorem findIdx_erase {q : List Nat} {wid idx : Nat} (h : q.findIdx? (· == wid) = some idx) :
    q.eraseIdx idx = q.erase wid ∧ wid ∈ q ∧ (idx = 0 → ∃ rest, q = wid :: rest) ∧
      (idx ≠ 0 → ∃ hd rest, q = hd :: rest ∧ hd ≠ wid) := by
  induction q generalizing idx with
  | nil => simp at h
  | cons x xs ih =>
    rw [List.findIdx?_cons] at h
    by_cases hx : x = wid
    · subst hx
      simp only [beq_self_eq_true, if_true, Option.some.injEq] at h
      subst h
      exact ⟨by simp, by simp, fun _ => ⟨xs, rfl⟩, fun h => absurd rfl h⟩
    · have hx' : (x == wid) = false := by simpa using hx
      simp only [hx', Bool.false_eq_true, if_false, Option.map_eq_some_iff] at h
      obtain ⟨j, hj, rfl⟩ := h
      obtain ⟨h1, h2, _, _⟩ := ih hj
      refine ⟨?_, List.mem_cons_of_mem _ h2, fun h => by omega, fun _ => ⟨x, xs, rfl, hx⟩⟩
      rw [List.eraseIdx_cons_succ, h1, List.erase_cons_tail (by simpa using hx)]

/-- the state of `remove_waiter` after taking the waiter out of the queue -/
def rmState (s : SemState) (w : Waiter) (idx : Nat) : SemState :=
  ({ s with queue := s.queue.eraseIdx idx }).setW { w with isQueued := false }

theorem removeWaiterPure_eq (fin : Nat → Bool) {s : SemState} {wid idx : Nat} {w : Waiter}
    (hw : s.getW wid = some w) (hc : s.closed = false) (hp : w.hasPermits = false)
    (hidx : s.queue.findIdx? (· == wid) = some idx) :
    s.removeWaiterPure fin wid =
      if (s.fair && idx == 0) = true then
        .ok (SemState.unblockFront fin (rmState s w idx).queue (rmState s w idx))
      else .ok (rmState s w idx, []) := by
  unfold SemState.removeWaiterPure
  rw [hw]
  simp only
  rw [if_neg (by simp [hc]), if_neg (by simp [hp]), hidx]
  rfl

structure RemoveSpec (s s' : SemState) (wid : Nat) (w : Waiter) : Prop where
  inv : Inv s'
  cons : s'.avail + pend s'.table = s.avail + pend s.table
  getW : s'.getW wid = some { w with isQueued := false }
  notQueued : wid ∉ s'.queue
  fair : s'.fair = s.fair
  nextWid : s'.nextWid = s.nextWid
  closed : s'.closed = false
  availLe : s'.avail ≤ s.avail
  queueSub : s'.queue.Sublist s.queue
  /-- unfair: nothing but the removal happens -/
  unfair : s.fair = false → s'.avail = s.avail ∧ s'.queue = s.queue.erase wid

theorem removeWaiterPure_pre {fin : Nat → Bool} {s s' : SemState} {effs : List Eff} {wid : Nat}
    (h : s.removeWaiterPure fin wid = .ok (s', effs)) :
    ∃ w idx, s.getW wid = some w ∧ s.closed = false ∧ w.hasPermits = false ∧
      s.queue.findIdx? (· == wid) = some idx := by
  unfold SemState.removeWaiterPure at h
  cases hw : s.getW wid with
  | none => simp [hw] at h
  | some w =>
    simp only [hw] at h
    by_cases hc : s.closed = true
    · simp [hc] at h
    · by_cases hp : w.hasPermits = true
      · simp [hc, hp] at h
      · cases hidx : s.queue.findIdx? (· == wid) with
        | none => simp [hc, hp, hidx] at h
        | some idx => exact ⟨w, idx, rfl, by simpa using hc, by simpa using hp, rfl⟩

theorem removeWaiterPure_spec (fin : Nat → Bool) {s s' : SemState} {effs : List Eff} {wid : Nat}
    (hi : Inv s) (h : s.removeWaiterPure fin wid = .ok (s', effs)) :
    ∃ w, s.getW wid = some w ∧ w.isQueued = true ∧ RemoveSpec s s' wid w := by
  obtain ⟨w, idx, hw, hnc, hp, hidx⟩ := removeWaiterPure_pre h
  rw [removeWaiterPure_eq fin hw hnc hp hidx] at h
  obtain ⟨he, hmem, h0, hne⟩ := findIdx_erase hidx
  rw [getW_eq] at hw
  have hwid : w.wid = wid := (tget_some_mem hw).2
  have hq : w.isQueued = true := (hi.tq.queued_of_tget hw).mpr hmem
  have hwp : wpend w = 0 := wpend_of_queued hi.tq hw hmem
  -- the state after removing the waiter from the queue
  have r_queue : (rmState s w idx).queue = s.queue.erase wid := by rw [← he]; rfl
  have r_table : (rmState s w idx).table = tset s.table { w with isQueued := false } := rfl
  have r_avail : (rmState s w idx).avail = s.avail := rfl
  have r_fair : (rmState s w idx).fair = s.fair := rfl
  have r_closed : (rmState s w idx).closed = s.closed := rfl
  have r_next : (rmState s w idx).nextWid = s.nextWid := rfl
  have r_batch : BatchOk (rmState s w idx) := hi.batch
  have htq : TQ (rmState s w idx).queue (rmState s w idx).table s.nextWid := by
    have := hi.tq.erase (w := w) (w' := { w with isQueued := false })
      (by simpa [hwid] using hw) rfl
    rw [r_queue, r_table]
    simpa [hwid] using this
  have hpend : pend (rmState s w idx).table = pend s.table := by
    have := pend_tset hi.tq.nodupT (w := { w with isQueued := false }) (old := w)
      (by simpa [hwid] using hw)
    have h4 : wpend { w with isQueued := false } = wpend w := rfl
    rw [r_table]
    omega
  have hget : tget (rmState s w idx).table wid = some { w with isQueued := false } := by
    have := tget_tset_self (T := s.table) (w := { w with isQueued := false }) (old := w)
      (by simpa [hwid] using hw)
    rw [r_table]
    simpa [hwid] using this
  have hnotin : wid ∉ (rmState s w idx).queue := by
    rw [r_queue, hi.tq.nodupQ.mem_erase_iff]; simp
  refine ⟨w, hw, hq, ?_⟩
  generalize rmState s w idx = S2 at *
  by_cases hb : (s.fair && idx == 0) = true
  · rw [if_pos hb] at h
    simp only [Except.ok.injEq] at h
    have sp := unblockFront_spec fin S2.queue S2
    rw [h] at sp
    refine ⟨⟨?_, sp.batch r_batch, ?_, fun _ => sp.head⟩, ?_, ?_, ?_, by rw [sp.fair, r_fair],
      by rw [sp.nextWid, r_next], by rw [sp.closed, r_closed]; exact hnc,
      by rw [← r_avail]; exact sp.availLe, ?_, ?_⟩
    rotate_left 5
    · obtain ⟨pre, hpre⟩ := sp.suffix
      have h1 : s'.queue.Sublist S2.queue := by rw [hpre]; exact List.sublist_append_right _ _
      rw [r_queue] at h1
      exact h1.trans List.erase_sublist
    · intro hf; rw [hf] at hb; simp at hb
    · rw [sp.nextWid, r_next]; exact sp.tq _ htq
    · intro hcl; rw [sp.closed, r_closed, hnc] at hcl; cases hcl
    · rw [sp.cons _ htq, hpend, r_avail]
    · rw [getW_eq, sp.other wid hnotin]; exact hget
    · obtain ⟨pre, hpre⟩ := sp.suffix
      intro hin
      exact hnotin (by rw [hpre]; exact List.mem_append_right _ hin)
  · rw [if_neg hb] at h
    simp only [Except.ok.injEq, Prod.mk.injEq] at h
    obtain ⟨rfl, _⟩ := h
    refine ⟨⟨by rw [r_next]; exact htq, r_batch, ?_, ?_⟩, by rw [hpend, r_avail], hget, hnotin,
      r_fair, r_next, by rw [r_closed]; exact hnc, by rw [r_avail]; exact Nat.le_refl _,
      by rw [r_queue]; exact List.erase_sublist, fun _ => ⟨r_avail, r_queue⟩⟩
    · intro hcl; rw [r_closed, hnc] at hcl; cases hcl
    · intro hf
      rw [r_fair] at hf
      simp only [hf, Bool.true_and, beq_iff_eq] at hb
      obtain ⟨hd, rest, hqe, hdne⟩ := hne hb
      intro wid0 rest0 w0 hq0 hg0
      rw [r_queue, hqe, List.erase_cons_tail (by simpa using hdne)] at hq0
      simp only [List.cons.injEq] at hq0
      obtain ⟨rfl, _⟩ := hq0
      rw [getW_eq, r_table, tget_tset_ne (by simpa [hwid] using hdne)] at hg0
      rw [r_avail]
      exact hi.headBlocked hf hd rest w0 hqe hg0

end SemLts
end ShuttleModel
