import ShuttleModel.Prim.Sem
import ShuttleModel.Prim.Chan
import ShuttleModel.Prim.Barrier
import ShuttleModel.Prim.Once
import ShuttleModel.Prim.Condvar
import ShuttleProofs.Lemmas.ClockKernel
import ShuttleProofs.Lemmas.LocksAtomic
/-!
# Vector-clock lemmas, part 4: one lemma per happens-before edge, on the PURE transitions

Each lemma says: the clock the second task ends up with (the value the wrapper hands to `update_clock` /
`joinClockOf`, joined into its own clock) dominates the clock the first task published.
-/

namespace ShuttleProofs.Clock
open ShuttleModel
open ShuttleModel.Atomic (exhaleSpec inhaleSpec loadSpec storeSpec swapSpec fetchUpdateSpec)

/-! ### spawn: parent → child -/

/-- **`spawn_edge`**: the child's initial clock *is* the parent's clock after the spawn (incremented,
extended); it dominates the parent's clock before, and the parent's tick is in it. -/
theorem spawn_edge (k : Kernel) (p : Nat) (ptk : Task) (h : k.getTask? p = some ptk) :
    ∃ ptk' ctk, (k.spawnTask (some p)).2.getTask? p = some ptk' ∧
      (k.spawnTask (some p)).2.getTask? (k.spawnTask (some p)).1 = some ctk ∧
      (k.spawnTask (some p)).1 = k.tasks.length ∧
      ctk.clock = ptk'.clock ∧ ctk.clock = (ptk.clock.increment p).extend k.tasks.length ∧
      ple ptk.clock ctk.clock := by
  have hlt : p < k.tasks.length := by
    unfold Kernel.getTask? at h
    rcases Nat.lt_or_ge p k.tasks.length with hh | hh
    · exact hh
    · rw [List.getElem?_eq_none hh] at h; cases h
  have e : k.spawnTask (some p) =
      (k.tasks.length,
        { (k.setTask p { ptk with clock := (ptk.clock.increment p).extend k.tasks.length }) with
          tasks := (k.setTask p { ptk with clock := (ptk.clock.increment p).extend k.tasks.length }).tasks ++
            [{ clock := (ptk.clock.increment p).extend k.tasks.length, parent := some p }] }) := by
    unfold Kernel.spawnTask
    simp only [h]
  rw [e]
  refine ⟨{ ptk with clock := (ptk.clock.increment p).extend k.tasks.length },
    { clock := (ptk.clock.increment p).extend k.tasks.length, parent := some p }, ?_, ?_, rfl, rfl, rfl, ?_⟩
  · show ((k.tasks.set p _) ++ _)[p]? = _
    rw [List.getElem?_append_left (by simpa using hlt)]
    simp [List.getElem?_set_self hlt]
  · show ((k.tasks.set p _) ++ _)[k.tasks.length]? = _
    rw [List.getElem?_append_right (by simp)]
    simp
  · exact ple_trans (ple_increment _ _) (ple_extend _ _)

/-- the parent's tick is visible in the child -/
theorem spawn_edge_tick (c : Clock) (p tid : Nat) (hp : p < List.length c) :
    Clock.get ((c.increment p).extend tid) p = Clock.get c p + 1 := by
  rw [get_extend, get_increment_self c p hp]

/-! ### join: child end → joiner -/

/-- **`join_edge`**: `update_clock(&get_clock(target))` — the joiner's new clock dominates the target's
(final) clock and its own old clock, and has ticked. -/
theorem join_edge (own target : Clock) (me : Nat) :
    ple target ((own.increment me).update target) ∧ ple own ((own.increment me).update target) :=
  ⟨ple_updateClock_arg own target me, ple_updateClock_self own target me⟩

/-- the same at the kernel level: the two requests `clockOf target; updateClock _` of `JoinHandle::join` -/
theorem join_edge_kernel (k k' : Kernel) (me target : Nat) (tt : Task) (ht : k.getTask? target = some tt)
    (h : k.modTask me (fun tk => .ok { tk with clock := (tk.clock.increment me).update tt.clock }) = .ok k') :
    ∃ jt', k'.getTask? me = some jt' ∧ ple tt.clock jt'.clock := by
  unfold Kernel.modTask at h
  cases hg : k.getTask? me with
  | none => rw [hg] at h; cases h
  | some jt =>
    rw [hg] at h
    simp only [Except.ok.injEq] at h
    subst h
    have hlt : me < k.tasks.length := by
      unfold Kernel.getTask? at hg
      rcases Nat.lt_or_ge me k.tasks.length with hh | hh
      · exact hh
      · rw [List.getElem?_eq_none hh] at hg; cases hg
    refine ⟨{ jt with clock := (jt.clock.increment me).update tt.clock }, ?_,
      ple_updateClock_arg jt.clock tt.clock me⟩
    unfold Kernel.getTask? Kernel.setTask
    simp [List.getElem?_set_self hlt]

/-! ### semaphore: release → the acquire that consumes its batch -/

/-- the clocks of the batches an acquisition of `n` permits touches (fully or partially) -/
def consumed : Nat → List (Nat × Clock) → List Clock
  | _, [] => []
  | n, (b, c) :: rest => c :: (if n ≤ b then [] else consumed (n - b) rest)

/-- **the clock returned by the batch loop is exactly the join of the start value and of the clocks of the
batches consumed** — nothing less (soundness) and nothing more (FIFO attribution, no extra order) -/
theorem takeBatches_clock : ∀ (bs : List (Nat × Clock)) (n : Nat) (acc : Clock),
    (SemState.takeBatches n bs acc).2 = (consumed n bs).foldl Clock.update acc
  | [], n, acc => by simp [SemState.takeBatches, consumed]
  | (b, c) :: rest, n, acc => by
    unfold SemState.takeBatches consumed
    simp only
    by_cases h1 : n < b
    · simp [h1, Nat.le_of_lt h1]
    · by_cases h2 : n = b
      · subst h2; simp
      · have h3 : ¬ n ≤ b := by omega
        simp only [h1, h2, h3, if_false, List.foldl_cons]
        exact takeBatches_clock rest (n - b) (acc.update c)

theorem ple_foldl_update_acc : ∀ (cs : List Clock) (acc : Clock), ple acc (cs.foldl Clock.update acc)
  | [], acc => ple_refl _
  | c :: cs, acc => ple_trans (ple_update_left acc c) (ple_foldl_update_acc cs (acc.update c))

theorem ple_foldl_update_mem : ∀ (cs : List Clock) (acc c : Clock), c ∈ cs → ple c (cs.foldl Clock.update acc)
  | [], _, _, h => by cases h
  | d :: cs, acc, c, h => by
    rcases List.mem_cons.mp h with h | h
    · subst h; exact ple_trans (ple_update_right acc c) (ple_foldl_update_acc cs (acc.update c))
    · exact ple_foldl_update_mem cs (acc.update d) c h

/-- an upper bound of the start value and of every consumed batch bounds the result: **no clock that was
not consumed leaks into the acquirer** -/
theorem foldl_update_ple : ∀ (cs : List Clock) (acc ub : Clock), ple acc ub → (∀ c ∈ cs, ple c ub) →
    ple (cs.foldl Clock.update acc) ub
  | [], _, _, h, _ => h
  | d :: cs, acc, ub, h, hs =>
    foldl_update_ple cs (acc.update d) ub (update_ple h (hs d (List.mem_cons_self ..)))
      (fun c hc => hs c (List.mem_cons_of_mem _ hc))

def batchSum (l : List (Nat × Clock)) : Nat := (l.map (·.1)).sum

/-- a batch is consumed as soon as the batches in front of it do not suffice -/
theorem mem_consumed_last : ∀ (pre : List (Nat × Clock)) (n b : Nat) (c : Clock),
    batchSum pre < n → c ∈ consumed n (pre ++ [(b, c)])
  | [], n, b, c, _ => by simp [consumed]
  | (b1, c1) :: pre, n, b, c, h => by
    have hs : b1 + batchSum pre < n := by simpa [batchSum] using h
    have h3 : ¬ n ≤ b1 := by omega
    simp only [List.cons_append, consumed, h3, if_false]
    exact List.mem_cons_of_mem _ (mem_consumed_last pre (n - b1) b c (by omega))

/-- **`sem_release_acquire_edge`**: after `release(k)` with clock `c`, an acquisition that needs more
permits than were available before that release returns a clock that dominates `c`.
(`s.avail = batchSum s.initBatches` is the C18 invariant "available = sum of the batch sizes".) -/
theorem sem_release_acquire_edge (s : SemState) (k n : Nat) (c acq : Clock) (s' : SemState) (out : Clock)
    (hinv : s.avail = batchSum s.initBatches) (hneed : s.avail < n)
    (h : (s.paRelease k c).paAcquire n acq = some (s', out)) : ple c out := by
  unfold SemState.paAcquire at h
  have hn : ¬ n = 0 := by omega
  simp only [hn, if_false] at h
  split at h
  · simp only [Option.some.injEq, Prod.mk.injEq] at h
    obtain ⟨_, rfl⟩ := h
    have hb : (s.paRelease k c).initBatches = s.initBatches ++ [(k, c)] := by
      simp [SemState.paRelease, SemState.initBatches]
    rw [hb, takeBatches_clock]
    exact ple_foldl_update_mem _ _ _ (mem_consumed_last _ _ _ _ (by omega))
  · cases h

/-- every batch an acquisition consumes is below the clock it returns (mutex hand-over is the instance
with one batch of one permit) -/
theorem sem_consumed_edge (s : SemState) (n : Nat) (acq : Clock) (s' : SemState) (out : Clock)
    (h : s.paAcquire n acq = some (s', out)) (hn : n ≠ 0) : ∀ c ∈ consumed n s.initBatches, ple c out := by
  unfold SemState.paAcquire at h
  simp only [hn, if_false] at h
  split at h
  · simp only [Option.some.injEq, Prod.mk.injEq] at h
    obtain ⟨_, rfl⟩ := h
    intro c hc
    rw [takeBatches_clock]
    exact ple_foldl_update_mem _ _ _ hc
  · cases h

/-- … and nothing else: the returned clock is below any bound of the consumed batches -/
theorem sem_acquire_exact (s : SemState) (n : Nat) (acq : Clock) (s' : SemState) (out ub : Clock)
    (h : s.paAcquire n acq = some (s', out)) (hub : ∀ c ∈ consumed n s.initBatches, ple c ub) : ple out ub := by
  unfold SemState.paAcquire at h
  split at h
  · simp only [Option.some.injEq, Prod.mk.injEq] at h
    obtain ⟨_, rfl⟩ := h
    exact new_ple _
  · split at h
    · simp only [Option.some.injEq, Prod.mk.injEq] at h
      obtain ⟨_, rfl⟩ := h
      rw [takeBatches_clock]
      exact foldl_update_ple _ _ _ (new_ple _) hub
    · cases h

/-! ### atomics: write (inhale) → later read (exhale) -/

/-- the atomic's clock (`None` = all zeros) -/
def aclk (a : AtomicState) : Clock := a.clock.getD Clock.new

theorem inhale_publishes (me : Nat) (a : AtomicState) (c : Clock) :
    ple (inhaleSpec me a c).2 (aclk (inhaleSpec me a c).1) ∧ ple (aclk a) (aclk (inhaleSpec me a c).1) := by
  unfold inhaleSpec aclk
  exact ⟨ple_update_right _ _, ple_update_left _ _⟩

theorem exhale_receives (me : Nat) (a : AtomicState) (c : Clock) :
    ple (aclk a) (exhaleSpec me a c).2 ∧ aclk (exhaleSpec me a c).1 = aclk a ∧ ple c (exhaleSpec me a c).2 := by
  unfold exhaleSpec aclk
  exact ⟨ple_update_right _ _, rfl, ple_updateClock_self _ _ _⟩

/-- no atomic operation lowers the atomic's clock -/
theorem atomic_clock_mono_store (me v : Nat) (a : AtomicState) (c : Clock) :
    ple (aclk a) (aclk (storeSpec me v a c).1) := (inhale_publishes me a c).2

theorem atomic_clock_mono_load (me : Nat) (a : AtomicState) (c : Clock) :
    ple (aclk a) (aclk (loadSpec me a c).1) := by
  unfold loadSpec; rw [(exhale_receives me a c).2.1]; exact ple_refl _

/-- **`atomic_write_read_edge`**: a `store` by `w` (clock `cw` before) followed — after any operations
that do not lower the atomic's clock — by a `load` by `r`: the reader's clock after the load dominates the
writer's clock after the store. -/
theorem atomic_write_read_edge (w r v : Nat) (a a' : AtomicState) (cw cr : Clock)
    (hmono : ple (aclk (storeSpec w v a cw).1) (aclk a')) :
    ple (storeSpec w v a cw).2 (loadSpec r a' cr).2 :=
  ple_trans (inhale_publishes w a cw).1 (ple_trans hmono (exhale_receives r a' cr).1)

/-- the same for a successful read-modify-write as the writer and any RMW as the reader -/
theorem atomic_rmw_rmw_edge (w r : Nat) (f g : Nat → Option Nat) (a a' : AtomicState) (cw cr : Clock) (v : Nat)
    (hf : f a.value = some v)
    (hmono : ple (aclk (fetchUpdateSpec w f a cw).1) (aclk a')) :
    ple (fetchUpdateSpec w f a cw).2 (fetchUpdateSpec r g a' cr).2 := by
  have hw : ple (fetchUpdateSpec w f a cw).2 (aclk (fetchUpdateSpec w f a cw).1) := by
    unfold fetchUpdateSpec; rw [hf]; exact (inhale_publishes w _ _).1
  have hr : ple (aclk a') (fetchUpdateSpec r g a' cr).2 := by
    unfold fetchUpdateSpec
    cases g a'.value with
    | none => exact (exhale_receives r a' cr).1
    | some u =>
      simp only
      refine ple_trans (exhale_receives r a' cr).1 ?_
      unfold inhaleSpec
      exact ple_increment _ _
  exact ple_trans hw (ple_trans hmono hr)

/-! ### channels: the message carries the sender's clock -/

theorem sendPush_messages (s s' : ChanState) (v : Nat) (c : Clock) (out : PushOut) (effs : List Eff)
    (h : s.sendPush v c = .ok (s', out, effs)) : s'.messages = s.messages ++ [(v, c)] := by
  unfold ChanState.sendPush at h
  simp only at h
  repeat' (split at h)
  all_goals first
    | (cases h; done)
    | (simp only [Except.ok.injEq, Prod.mk.injEq] at h; obtain ⟨rfl, _, _⟩ := h; rfl)

theorem recvPop_head (s s' : ChanState) (item : Nat × Clock) (effs : List Eff)
    (h : s.recvPop = .ok (s', item, effs)) : s.messages = item :: s'.messages := by
  unfold ChanState.recvPop at h
  split at h
  · cases h
  · rename_i it rest hm
    simp only at h
    split at h
    · cases h
    · simp only [Except.ok.injEq, Prod.mk.injEq] at h
      obtain ⟨rfl, rfl, _⟩ := h
      exact hm

/-- **`chan_send_recv_edge`** (FIFO, shown for the message at the head after `i` earlier pops): the
message pushed with the sender's clock `c` is delivered with exactly that clock, and the receiver's clock
after `get_clock_mut(me).update(&clock)` dominates it. -/
theorem chan_send_recv_edge (s s1 s2 : ChanState) (v : Nat) (c : Clock) (out : PushOut) (e1 e2 : List Eff)
    (item : Nat × Clock) (mine : Clock)
    (hempty : s.messages = [])
    (hs : s.sendPush v c = .ok (s1, out, e1)) (hr : s1.recvPop = .ok (s2, item, e2)) :
    item = (v, c) ∧ ple c (mine.update item.2) := by
  have h1 := sendPush_messages s s1 v c out e1 hs
  have h2 := recvPop_head s1 s2 item e2 hr
  rw [hempty, h2] at h1
  simp only [List.nil_append, List.cons.injEq] at h1
  obtain ⟨rfl, _⟩ := h1
  exact ⟨rfl, ple_update_right _ _⟩

/-- FIFO in general: a push never disturbs the messages in front, a pop removes the front one -/
theorem chan_fifo (s s1 : ChanState) (v : Nat) (c : Clock) (out : PushOut) (e1 : List Eff)
    (hs : s.sendPush v c = .ok (s1, out, e1)) (i : Nat) (hi : i < s.messages.length) :
    s1.messages[i]? = s.messages[i]? ∧ s1.messages[s.messages.length]? = some (v, c) := by
  rw [sendPush_messages s s1 v c out e1 hs]
  exact ⟨List.getElem?_append_left hi, by simp⟩

/-- **`recv → send` on a bounded channel**: `recvAck` appends the receiver's clock to `receiver_clock`,
the sender that uses the freed slot pops the front one and joins it. -/
theorem chan_recv_send_edge (s s1 s2 : ChanState) (mine : Clock) (b : Nat) (v : Nat) (c : Clock) (out : PushOut)
    (e1 e2 : List Eff) (hb : s.bound = some b) (hpos : 0 < b) (hrc : s.receiverClock = some [])
    (ha : s.recvAck mine = .ok (s1, (), e1)) (hs : s1.sendPush v c = .ok (s2, out, e2)) :
    out.rc = some mine := by
  have h1 : s1 = { s with receiverClock := some ([] ++ [mine]), bound := some b } := by
    unfold ChanState.recvAck at ha
    rw [hrc, hb] at ha
    simp only [hpos, if_true] at ha
    split at ha
    · cases ha
    · simp only [Except.ok.injEq, Prod.mk.injEq] at ha
      exact ha.1.symm
  subst h1
  unfold ChanState.sendPush at hs
  have hb0 : (some b == some 0) = false := by
    have : b ≠ 0 := by omega
    simp [this]
  simp only [ChanState.isRdv, hb0, List.nil_append] at hs
  split at hs
  · cases hs
  · simp only [Bool.not_false, if_true, Except.ok.injEq, Prod.mk.injEq] at hs
    obtain ⟨_, rfl, _⟩ := hs
    rfl

/-! ### barrier: every arrival → every departure -/

/-- an arrival puts its (incremented) clock into the barrier's clock, which never decreases -/
theorem barrier_arrive_clock (s s' : BarrierState) (me : Nat) (c : Clock) (clk : Nat → Clock)
    (a : BarrierArrival) (effs : List Eff) (h : s.arrive me c clk = .ok (s', a, effs)) :
    s'.clock = s.clock.update c := by
  unfold BarrierState.arrive at h
  simp only at h
  repeat' (split at h)
  all_goals first
    | (cases h; done)
    | (simp only [Except.ok.injEq, Prod.mk.injEq] at h; obtain ⟨rfl, _, _⟩ := h; rfl)

theorem releaseEffs_ge (clk : Nat → Clock) (B : Clock) : ∀ (l : List Nat) (t : Nat) (x : Clock),
    Eff.joinClock t x ∈ BarrierState.releaseEffs clk B l → t ∈ l ∧ ple B x ∧ ple (clk t) x
  | [], t, x, h => by simp [BarrierState.releaseEffs] at h
  | tid :: rest, t, x, h => by
    simp only [BarrierState.releaseEffs, List.mem_cons] at h
    rcases h with h | h | h
    · simp only [Eff.joinClock.injEq] at h
      obtain ⟨rfl, rfl⟩ := h
      exact ⟨List.mem_cons_self .., ple_update_right _ _, ple_updateClock_self _ _ _⟩
    · cases h
    · obtain ⟨h1, h2⟩ := releaseEffs_ge clk B rest t x h
      exact ⟨List.mem_cons_of_mem _ h1, h2⟩

theorem releaseEffs_all (clk : Nat → Clock) (B : Clock) : ∀ (l : List Nat) (t : Nat), t ∈ l →
    Eff.joinClock t (((clk t).increment t).update B) ∈ BarrierState.releaseEffs clk B l
  | [], t, h => by cases h
  | tid :: rest, t, h => by
    simp only [BarrierState.releaseEffs, List.mem_cons]
    rcases List.mem_cons.mp h with h | h
    · subst h; exact Or.inl rfl
    · exact Or.inr (Or.inr (releaseEffs_all clk B rest t h))

/-- **`barrier_edge`**: when the releasing arrival completes the group, every member `t` (the earlier
arrivals and the releaser itself) gets a `joinClock` with a clock that dominates the barrier's clock —
which contains the clock `c` of this arrival and (by `barrier_arrive_clock`, arrival by arrival) the clock
of every earlier arrival. -/
theorem barrier_edge (s s' : BarrierState) (me : Nat) (c : Clock) (clk : Nat → Clock) (e : Nat) (effs : List Eff)
    (h : s.arrive me c clk = .ok (s', .released e, effs)) :
    (∀ t x, Eff.joinClock t x ∈ effs → ple (s.clock.update c) x ∧ (t ∈ s.waiters ∨ t = me)) ∧
    (∀ t, t ∈ s.waiters ∨ t = me → ∃ x, Eff.joinClock t x ∈ effs ∧ ple c x ∧ ple s.clock x) := by
  unfold BarrierState.arrive at h
  simp only at h
  repeat' (split at h)
  all_goals first
    | (cases h; done)
    | skip
  simp only [Except.ok.injEq, Prod.mk.injEq] at h
  obtain ⟨_, _, rfl⟩ := h
  constructor
  · intro t x hx
    obtain ⟨h1, h2, _⟩ := releaseEffs_ge clk _ _ t x hx
    refine ⟨h2, ?_⟩
    simpa using h1
  · intro t ht
    refine ⟨_, releaseEffs_all clk _ _ t (by simpa using ht), ?_, ?_⟩
    · exact ple_trans (ple_update_right s.clock c) (ple_update_right _ _)
    · exact ple_trans (ple_update_left s.clock c) (ple_update_right _ _)

/-! ### Once: completion → later callers -/

/-- **`once_edge`**: after the winner's `finish` with clock `c`, `call_once` (`enter`) and `is_completed`
hand exactly `c` to `update_clock`, whose result dominates it. -/
theorem once_edge (s : OnceState) (c own : Clock) (me : Nat) :
    ((s.finish c).enter).2 = some c ∧ (s.finish c).isCompleted = some c ∧
    ple c ((own.increment me).update c) := by
  refine ⟨?_, rfl, ple_updateClock_arg own c me⟩
  simp [OnceState.finish, OnceState.enter]

/-! ### Condvar: notify → the wait it wakes -/

theorem notifyLoop_map (me : Nat) (f : CvStatus → CvStatus) : ∀ (ws ws' : List (Nat × CvStatus)) (effs : List Eff),
    CondvarState.notifyLoop me f ws = (ws', effs, false) → ws' = ws.map (fun p => (p.1, f p.2))
  | [], ws', effs, h => by
    simp only [CondvarState.notifyLoop, Prod.mk.injEq] at h
    rw [← h.1]; rfl
  | (tid, st) :: rest, ws', effs, h => by
    unfold CondvarState.notifyLoop at h
    split at h
    · simp only [Prod.mk.injEq] at h; cases h.2.2
    · rcases hr : CondvarState.notifyLoop me f rest with ⟨r', e', b'⟩
      rw [hr] at h
      simp only [Prod.mk.injEq] at h
      obtain ⟨h1, _, h3⟩ := h
      subst h3
      rw [← h1, notifyLoop_map me f rest r' e' hr]
      rfl

theorem find_map_status (w : Nat) (f : CvStatus → CvStatus) : ∀ (ws : List (Nat × CvStatus)) (st : CvStatus),
    ws.find? (·.1 == w) = some (w, st) →
    (ws.map (fun p => (p.1, f p.2))).find? (·.1 == w) = some (w, f st)
  | [], _, h => by cases h
  | (t, s0) :: rest, st, h => by
    simp only [List.map_cons, List.find?_cons] at h ⊢
    by_cases ht : (t == w) = true
    · simp only [ht] at h ⊢
      simp only [Option.some.injEq, Prod.mk.injEq] at h
      obtain ⟨rfl, rfl⟩ := h
      rfl
    · simp only [ht] at h ⊢
      exact find_map_status w f rest st h

/-- **`condvar_notify_wait_edge`**: a waiter registered as `Waiting`, then one `notify_one` with the
notifier's clock `c`: the `wait` that resumes consumes exactly `c` (and `update_clock(c)` dominates it). -/
theorem condvar_notify_wait_edge (s s1 : CondvarState) (notifier w : Nat) (c : Clock) (e1 : List Eff)
    (hw : s.waiters.find? (·.1 == w) = some (w, .waiting))
    (hn : s.notifyOne notifier c = .ok (s1, e1)) :
    ∃ s2 e2, s1.wake w = .ok (s2, c, e2) := by
  unfold CondvarState.notifyOne at hn
  rcases hl : CondvarState.notifyLoop notifier (CondvarState.signalStatus s.nextEpoch c) s.waiters with ⟨ws, effs, bad⟩
  rw [hl] at hn
  cases bad with
  | true => cases hn
  | false =>
    simp only [Except.ok.injEq, Prod.mk.injEq] at hn
    obtain ⟨rfl, _⟩ := hn
    have hm := notifyLoop_map notifier _ s.waiters ws effs hl
    have hf := find_map_status w (CondvarState.signalStatus s.nextEpoch c) s.waiters .waiting hw
    rw [← hm] at hf
    unfold CondvarState.wake
    simp only [hf, CondvarState.signalStatus]
    exact ⟨_, _, rfl⟩

/-- the broadcast case -/
theorem condvar_notifyAll_wait_edge (s s1 : CondvarState) (notifier w : Nat) (c : Clock) (e1 : List Eff)
    (st : CvStatus) (hw : s.waiters.find? (·.1 == w) = some (w, st))
    (hn : s.notifyAll notifier c = .ok (s1, e1)) :
    ∃ s2 e2, s1.wake w = .ok (s2, c, e2) := by
  unfold CondvarState.notifyAll at hn
  rcases hl : CondvarState.notifyLoop notifier (fun _ => CvStatus.broadcast c) s.waiters with ⟨ws, effs, bad⟩
  rw [hl] at hn
  cases bad with
  | true => cases hn
  | false =>
    simp only [Except.ok.injEq, Prod.mk.injEq] at hn
    obtain ⟨rfl, _⟩ := hn
    have hm := notifyLoop_map notifier _ s.waiters ws effs hl
    have hf := find_map_status w (fun _ => CvStatus.broadcast c) s.waiters st hw
    rw [← hm] at hf
    unfold CondvarState.wake
    simp only [hf]
    exact ⟨_, _, rfl⟩

end ShuttleProofs.Clock
