import ShuttleProofs.Lemmas.PlAdvance
/-
  The permit-accounting invariant of the parking_lot `RawRwLock` model and its preservation by
  every atomic step of the most-general client (`PlCfg.step`).
-/
namespace ShuttleProofs.Pl
open ShuttleModel

/-- permit accounting: what the semaphores have left plus what the clients own is the total;
queued requests belong to clients waiting for exactly that; a client is queued at most once -/
structure Inv (M : Nat) (c : PlCfg) : Prop where
  sem : c.sem.avail + total (PlPhase.semPermits M) c.ph = M
  up : c.up.avail + total PlPhase.upPermits c.ph = 1
  semQ : QOk (PlPhase.waitsSem M) c.sem.queue c.ph
  upQ : QOk PlPhase.waitsUp c.up.queue c.ph
  semND : (c.sem.queue.map (·.1)).Nodup
  upND : (c.up.queue.map (·.1)).Nodup

theorem phase_eq (c : PlCfg) (t : Nat) : c.phase t = phAt c.ph t := rfl

/-! ### phase algebra -/

theorem up_grantSem (p : PlPhase) : p.grantSem.upPermits = p.upPermits := by cases p <;> rfl
theorem waitsUp_grantSem (p : PlPhase) : p.grantSem.waitsUp = p.waitsUp := by cases p <;> rfl
theorem sem_grantUp (M : Nat) (p : PlPhase) : p.grantUp.semPermits M = p.semPermits M := by cases p <;> rfl
theorem waitsSem_grantUp (M : Nat) (p : PlPhase) : p.grantUp.waitsSem M = p.waitsSem M := by cases p <;> rfl
theorem sem_grantSem (M : Nat) (p : PlPhase) (n : Nat) (h : p.waitsSem M = some n) :
    p.grantSem.semPermits M = p.semPermits M + n := by
  cases p <;> simp [PlPhase.waitsSem] at h <;> subst h <;> simp [PlPhase.grantSem, PlPhase.semPermits] <;> omega
theorem up_grantUp (p : PlPhase) (n : Nat) (h : p.waitsUp = some n) :
    p.grantUp.upPermits = p.upPermits + n := by
  cases p <;> simp [PlPhase.waitsUp] at h <;> subst h <;> simp [PlPhase.grantUp, PlPhase.upPermits]

/-! ### queues -/

theorem QOk_set (w : PlPhase → Option Nat) (q : List (Nat × Nat)) (ph : List PlPhase) (t : Nat) (p : PlPhase)
    (h : QOk w q ph) (hw : w p = w (phAt ph t)) : QOk w q (ph.set t p) := by
  intro e he
  have := h e he
  simp only [List.length_set]
  refine ⟨this.1, ?_⟩
  by_cases hte : t = e.1
  · subst hte; rw [phAt_set_eq _ _ _ this.1, hw]; exact this.2
  · rw [phAt_set_ne _ _ _ _ hte]; exact this.2

theorem not_mem_queue (w : PlPhase → Option Nat) (q : List (Nat × Nat)) (ph : List PlPhase) (t : Nat)
    (h : QOk w q ph) (hw : w (phAt ph t) = none) : t ∉ q.map (·.1) := by
  intro hm
  obtain ⟨e, he, rfl⟩ := List.mem_map.mp hm
  have := (h e he).2
  rw [hw] at this
  cases this

theorem QOk_append (w : PlPhase → Option Nat) (q : List (Nat × Nat)) (ph : List PlPhase) (t n : Nat)
    (h : QOk w q ph) (ht : t < ph.length) (hw : w (phAt ph t) = some n) : QOk w (q ++ [(t, n)]) ph := by
  intro e he
  simp only [List.mem_append, List.mem_singleton] at he
  rcases he with he | rfl
  · exact h e he
  · exact ⟨ht, hw⟩

theorem QOk_advance_same (w : PlPhase → Option Nat) (g : PlPhase → PlPhase) (gs q : List (Nat × Nat))
    (ph : List PlPhase) (h : QOk w (gs ++ q) ph) (hnd : ((gs ++ q).map (·.1)).Nodup) :
    QOk w q (PlCfg.advance g gs ph) := by
  intro e he
  have := h e (by simp [he])
  rw [advance_length]
  refine ⟨this.1, ?_⟩
  have hnm : e.1 ∉ gs.map (·.1) := by
    intro hm
    rw [List.map_append, List.nodup_append] at hnd
    exact hnd.2.2 _ hm _ (List.mem_map_of_mem he) rfl
  rw [advance_not_mem _ _ _ _ hnm]
  exact this.2

theorem QOk_advance_other (w : PlPhase → Option Nat) (g : PlPhase → PlPhase) (hg : ∀ p, w (g p) = w p)
    (gs q : List (Nat × Nat)) (ph : List PlPhase) (h : QOk w q ph) : QOk w q (PlCfg.advance g gs ph) := by
  intro e he
  have := h e he
  rw [advance_length, advance_pointwise g w hg]
  exact this

/-! ### the six primitives -/

variable {M : Nat}

/-- `sem.release(n)` by a task that owns at least `n` permits -/
theorem inv_relSem (c : PlCfg) (t : Nat) (p : PlPhase) (n : Nat) (h : Inv M c) (ht : t < c.ph.length)
    (hs : (c.phase t).semPermits M = p.semPermits M + n) (hu : p.upPermits = (c.phase t).upPermits)
    (hws : p.waitsSem M = (c.phase t).waitsSem M) (hwu : p.waitsUp = (c.phase t).waitsUp) :
    Inv M (c.relSem t p n) := by
  show Inv M { c with sem := { avail := (FSem.grant c.sem.queue (c.sem.avail + n)).2.2,
                               queue := (FSem.grant c.sem.queue (c.sem.avail + n)).2.1 },
                      ph := PlCfg.advance PlPhase.grantSem (FSem.grant c.sem.queue (c.sem.avail + n)).1 (c.ph.set t p) }
  have hg := grant_spec c.sem.queue (c.sem.avail + n)
  have hQ1 : QOk (PlPhase.waitsSem M) c.sem.queue (c.ph.set t p) := QOk_set _ _ _ _ _ h.semQ hws
  have hgsQ : QOk (PlPhase.waitsSem M) (FSem.grant c.sem.queue (c.sem.avail + n)).1 (c.ph.set t p) := by
    intro e he; exact hQ1 e (by rw [hg.1]; simp [he])
  have hnd := h.semND
  rw [hg.1, List.map_append, List.nodup_append] at hnd
  have h1 := total_set (PlPhase.semPermits M) c.ph t p ht
  have h2 := total_set PlPhase.upPermits c.ph t p ht
  rw [phase_eq] at hs hu
  constructor
  · show (FSem.grant _ _).2.2 + total _ (PlCfg.advance _ _ _) = M
    rw [advance_total _ _ (PlPhase.waitsSem M) (sem_grantSem M) _ _ hgsQ hnd.1]
    have := h.sem
    simp only [phAt] at hs h1
    omega
  · show c.up.avail + total _ (PlCfg.advance _ _ _) = 1
    rw [advance_total_eq _ _ up_grantSem]
    have := h.up
    simp only [phAt] at hu h2
    omega
  · show QOk _ (FSem.grant _ _).2.1 (PlCfg.advance _ _ _)
    apply QOk_advance_same
    · rw [← hg.1]; exact hQ1
    · rw [← hg.1]; exact h.semND
  · show QOk _ c.up.queue (PlCfg.advance _ _ _)
    apply QOk_advance_other _ _ waitsUp_grantSem
    exact QOk_set _ _ _ _ _ h.upQ hwu
  · show ((FSem.grant _ _).2.1.map (·.1)).Nodup
    exact hnd.2.1
  · exact h.upND

/-- `upgradable_sem.release(1)` by a task that owns the slot -/
theorem inv_relUp (c : PlCfg) (t : Nat) (p : PlPhase) (h : Inv M c) (ht : t < c.ph.length)
    (hs : p.semPermits M = (c.phase t).semPermits M) (hu : (c.phase t).upPermits = p.upPermits + 1)
    (hws : p.waitsSem M = (c.phase t).waitsSem M) (hwu : p.waitsUp = (c.phase t).waitsUp) :
    Inv M (c.relUp t p) := by
  show Inv M { c with up := { avail := (FSem.grant c.up.queue (c.up.avail + 1)).2.2,
                              queue := (FSem.grant c.up.queue (c.up.avail + 1)).2.1 },
                      ph := PlCfg.advance PlPhase.grantUp (FSem.grant c.up.queue (c.up.avail + 1)).1 (c.ph.set t p) }
  have hg := grant_spec c.up.queue (c.up.avail + 1)
  have hQ1 : QOk PlPhase.waitsUp c.up.queue (c.ph.set t p) := QOk_set _ _ _ _ _ h.upQ hwu
  have hgsQ : QOk PlPhase.waitsUp (FSem.grant c.up.queue (c.up.avail + 1)).1 (c.ph.set t p) := by
    intro e he; exact hQ1 e (by rw [hg.1]; simp [he])
  have hnd := h.upND
  rw [hg.1, List.map_append, List.nodup_append] at hnd
  have h1 := total_set (PlPhase.semPermits M) c.ph t p ht
  have h2 := total_set PlPhase.upPermits c.ph t p ht
  rw [phase_eq] at hs hu
  constructor
  · show c.sem.avail + total _ (PlCfg.advance _ _ _) = M
    rw [advance_total_eq _ _ (sem_grantUp M)]
    have := h.sem
    simp only [phAt] at hs h1
    omega
  · show (FSem.grant _ _).2.2 + total _ (PlCfg.advance _ _ _) = 1
    rw [advance_total _ _ PlPhase.waitsUp up_grantUp _ _ hgsQ hnd.1]
    have := h.up
    simp only [phAt] at hu h2
    omega
  · show QOk _ c.sem.queue (PlCfg.advance _ _ _)
    apply QOk_advance_other _ _ (waitsSem_grantUp M)
    exact QOk_set _ _ _ _ _ h.semQ hws
  · show QOk _ (FSem.grant _ _).2.1 (PlCfg.advance _ _ _)
    apply QOk_advance_same
    · rw [← hg.1]; exact hQ1
    · rw [← hg.1]; exact h.upND
  · exact h.semND
  · show ((FSem.grant _ _).2.1.map (·.1)).Nodup
    exact hnd.2.1

/-- a successful `try_acquire(n)` on `sem` -/
theorem inv_trySem (c : PlCfg) (t : Nat) (p : PlPhase) (n : Nat) (s : FSem) (h : Inv M c) (ht : t < c.ph.length)
    (hty : c.sem.tryAcq n = some s)
    (hs : p.semPermits M = (c.phase t).semPermits M + n) (hu : p.upPermits = (c.phase t).upPermits)
    (hws : p.waitsSem M = (c.phase t).waitsSem M) (hwu : p.waitsUp = (c.phase t).waitsUp) :
    Inv M { c with sem := s, ph := c.ph.set t p } := by
  unfold FSem.tryAcq at hty
  split at hty
  · rename_i hc
    simp only [Bool.and_eq_true, decide_eq_true_eq, List.isEmpty_iff] at hc
    cases hty
    have h1 := total_set (PlPhase.semPermits M) c.ph t p ht
    have h2 := total_set PlPhase.upPermits c.ph t p ht
    rw [phase_eq] at hs hu
    constructor
    · show c.sem.avail - n + total _ (c.ph.set t p) = M
      have := h.sem
      simp only [phAt] at hs h1
      omega
    · show c.up.avail + total _ (c.ph.set t p) = 1
      have := h.up
      simp only [phAt] at hu h2
      omega
    · exact QOk_set _ _ _ _ _ h.semQ hws
    · exact QOk_set _ _ _ _ _ h.upQ hwu
    · exact h.semND
    · exact h.upND
  · cases hty

/-- a successful `try_acquire(1)` on `upgradable_sem` -/
theorem inv_tryUp (c : PlCfg) (t : Nat) (p : PlPhase) (s : FSem) (h : Inv M c) (ht : t < c.ph.length)
    (hty : c.up.tryAcq 1 = some s)
    (hs : p.semPermits M = (c.phase t).semPermits M) (hu : p.upPermits = (c.phase t).upPermits + 1)
    (hws : p.waitsSem M = (c.phase t).waitsSem M) (hwu : p.waitsUp = (c.phase t).waitsUp) :
    Inv M { c with up := s, ph := c.ph.set t p } := by
  unfold FSem.tryAcq at hty
  split at hty
  · rename_i hc
    simp only [Bool.and_eq_true, decide_eq_true_eq, List.isEmpty_iff] at hc
    cases hty
    have h1 := total_set (PlPhase.semPermits M) c.ph t p ht
    have h2 := total_set PlPhase.upPermits c.ph t p ht
    rw [phase_eq] at hs hu
    constructor
    · show c.sem.avail + total _ (c.ph.set t p) = M
      have := h.sem
      simp only [phAt] at hs h1
      omega
    · show c.up.avail - 1 + total _ (c.ph.set t p) = 1
      have := h.up
      simp only [phAt] at hu h2
      omega
    · exact QOk_set _ _ _ _ _ h.semQ hws
    · exact QOk_set _ _ _ _ _ h.upQ hwu
    · exact h.semND
    · exact h.upND
  · cases hty

/-- only the phase of a task changes, to one with the same permits and the same queue status -/
theorem inv_setPh (c : PlCfg) (t : Nat) (p : PlPhase) (h : Inv M c) (ht : t < c.ph.length)
    (hs : p.semPermits M = (c.phase t).semPermits M) (hu : p.upPermits = (c.phase t).upPermits)
    (hws : p.waitsSem M = (c.phase t).waitsSem M) (hwu : p.waitsUp = (c.phase t).waitsUp) :
    Inv M (c.setPh t p) := by
  have h1 := total_set (PlPhase.semPermits M) c.ph t p ht
  have h2 := total_set PlPhase.upPermits c.ph t p ht
  rw [phase_eq] at hs hu
  constructor
  · show c.sem.avail + total _ (c.ph.set t p) = M
    have := h.sem
    simp only [phAt] at hs h1
    omega
  · show c.up.avail + total _ (c.ph.set t p) = 1
    have := h.up
    simp only [phAt] at hu h2
    omega
  · exact QOk_set _ _ _ _ _ h.semQ hws
  · exact QOk_set _ _ _ _ _ h.upQ hwu
  · exact h.semND
  · exact h.upND

/-- blocking acquire on `sem` by a task that is in no queue -/
theorem inv_acqSem (c : PlCfg) (t n : Nat) (ok wait : PlPhase) (h : Inv M c) (ht : t < c.ph.length)
    (hnq : (c.phase t).waitsSem M = none) (hnu : (c.phase t).waitsUp = none)
    (hs : ok.semPermits M = (c.phase t).semPermits M + n) (hu : ok.upPermits = (c.phase t).upPermits)
    (hws : ok.waitsSem M = none) (hwu : ok.waitsUp = none)
    (hs' : wait.semPermits M = (c.phase t).semPermits M) (hu' : wait.upPermits = (c.phase t).upPermits)
    (hws' : wait.waitsSem M = some n) (hwu' : wait.waitsUp = none) :
    Inv M (c.acqSem t n ok wait) := by
  unfold PlCfg.acqSem FSem.acq
  cases hty : c.sem.tryAcq n with
  | some s =>
    exact inv_trySem c t ok n s h ht hty hs hu (by rw [hws, hnq]) (by rw [hwu, hnu])
  | none =>
    have hb := inv_setPh (M := M) { c with sem := { c.sem with queue := c.sem.queue } } t wait h ht hs' hu'
    simp only [Bool.false_eq_true, if_false]
    have h1 := total_set (PlPhase.semPermits M) c.ph t wait ht
    have h2 := total_set PlPhase.upPermits c.ph t wait ht
    have hnm := not_mem_queue _ _ _ t h.semQ (by rw [← phase_eq]; exact hnq)
    rw [phase_eq] at hs' hu'
    constructor
    · show c.sem.avail + total _ (c.ph.set t wait) = M
      have := h.sem
      simp only [phAt] at hs' h1
      omega
    · show c.up.avail + total _ (c.ph.set t wait) = 1
      have := h.up
      simp only [phAt] at hu' h2
      omega
    · show QOk _ (c.sem.queue ++ [(t, n)]) (c.ph.set t wait)
      intro e he
      simp only [List.mem_append, List.mem_singleton] at he
      simp only [List.length_set]
      rcases he with he | rfl
      · have := h.semQ e he
        refine ⟨this.1, ?_⟩
        have hne : t ≠ e.1 := fun heq => hnm (by rw [heq]; exact List.mem_map_of_mem he)
        rw [phAt_set_ne _ _ _ _ hne]; exact this.2
      · exact ⟨ht, by rw [phAt_set_eq _ _ _ ht]; exact hws'⟩
    · exact QOk_set _ _ _ _ _ h.upQ (by rw [hwu', ← phase_eq, hnu])
    · show ((c.sem.queue ++ [(t, n)]).map (·.1)).Nodup
      rw [List.map_append, List.nodup_append]
      refine ⟨h.semND, by simp, ?_⟩
      intro a ha b hb hab
      simp at hb
      subst hb; subst hab
      exact hnm ha
    · exact h.upND

/-- blocking acquire on `upgradable_sem` by a task that is in no queue -/
theorem inv_acqUp (c : PlCfg) (t : Nat) (ok wait : PlPhase) (h : Inv M c) (ht : t < c.ph.length)
    (hnq : (c.phase t).waitsSem M = none) (hnu : (c.phase t).waitsUp = none)
    (hs : ok.semPermits M = (c.phase t).semPermits M) (hu : ok.upPermits = (c.phase t).upPermits + 1)
    (hws : ok.waitsSem M = none) (hwu : ok.waitsUp = none)
    (hs' : wait.semPermits M = (c.phase t).semPermits M) (hu' : wait.upPermits = (c.phase t).upPermits)
    (hws' : wait.waitsSem M = none) (hwu' : wait.waitsUp = some 1) :
    Inv M (c.acqUp t ok wait) := by
  unfold PlCfg.acqUp FSem.acq
  cases hty : c.up.tryAcq 1 with
  | some s =>
    exact inv_tryUp c t ok s h ht hty hs hu (by rw [hws, hnq]) (by rw [hwu, hnu])
  | none =>
    simp only [Bool.false_eq_true, if_false]
    have h1 := total_set (PlPhase.semPermits M) c.ph t wait ht
    have h2 := total_set PlPhase.upPermits c.ph t wait ht
    have hnm := not_mem_queue _ _ _ t h.upQ (by rw [← phase_eq]; exact hnu)
    rw [phase_eq] at hs' hu'
    constructor
    · show c.sem.avail + total _ (c.ph.set t wait) = M
      have := h.sem
      simp only [phAt] at hs' h1
      omega
    · show c.up.avail + total _ (c.ph.set t wait) = 1
      have := h.up
      simp only [phAt] at hu' h2
      omega
    · exact QOk_set _ _ _ _ _ h.semQ (by rw [hws', ← phase_eq, hnq])
    · show QOk _ (c.up.queue ++ [((t, 1) : Nat × Nat)]) (c.ph.set t wait)
      intro e he
      simp only [List.mem_append, List.mem_singleton] at he
      simp only [List.length_set]
      rcases he with he | rfl
      · have := h.upQ e he
        refine ⟨this.1, ?_⟩
        have hne : t ≠ e.1 := fun heq => hnm (by rw [heq]; exact List.mem_map_of_mem he)
        rw [phAt_set_ne _ _ _ _ hne]; exact this.2
      · exact ⟨ht, by rw [phAt_set_eq _ _ _ ht]; exact hwu'⟩
    · exact h.semND
    · show ((c.up.queue ++ [((t, 1) : Nat × Nat)]).map (·.1)).Nodup
      rw [List.map_append, List.nodup_append]
      refine ⟨h.upND, by simp, ?_⟩
      intro a ha b hb hab
      simp at hb
      subst hb; subst hab
      exact hnm ha

end ShuttleProofs.Pl
