import ShuttleProofs.Lemmas.KernelBound
/-!
# Kernel lemmas, part 10: the configured `MaxSteps` is only ever read by `schedule()`'s bound check

`withMS ms k` / `stMS ms st` replace the `maxSteps` field.  A task segment commutes with that replacement
(`runSegment_stMS`), and so does a whole loop iteration as long as the bound is not reached
(`loopStep_stMS`); `runLoop_stMS` lifts this to runs.
-/

namespace ShuttleProofs.Kernel
open ShuttleModel

variable {P : Program} {σ : Type}

def withMS (ms : MaxSteps) (k : Kernel) : Kernel := { k with maxSteps := ms }

def stMS (ms : MaxSteps) (st : ExecState P σ) : ExecState P σ := { st with k := withMS ms st.k }

def endMS (ms : MaxSteps) : SegEnd P σ → SegEnd P σ
  | .atSwitch st => .atSwitch (stMS ms st)
  | .returned st => .returned (stMS ms st)
  | .panicked m st => .panicked m (stMS ms st)
  | .schedPanic m st => .schedPanic m (stMS ms st)
  | .outOfFuel st => .outOfFuel (stMS ms st)
  | .aborted m st => .aborted m (stMS ms st)

def resMS (ms : MaxSteps) (r : Result P σ) : Result P σ := ⟨r.outcome, stMS ms r.st⟩

def sumMS (ms : MaxSteps) : Result P σ ⊕ ExecState P σ → Result P σ ⊕ ExecState P σ
  | .inl r => .inl (resMS ms r)
  | .inr st => .inr (stMS ms st)

theorem modTask_withMS (ms : MaxSteps) (k : Kernel) (t : Nat) (f : Task → Except String Task) :
    (withMS ms k).modTask t f =
      match k.modTask t f with
      | .ok k' => .ok (withMS ms k')
      | .error e => .error e := by
  unfold Kernel.modTask Kernel.getTask?
  show (match k.tasks[t]? with
    | none => _
    | some tk => _) = _
  cases k.tasks[t]? with
  | none => rfl
  | some tk =>
    simp only
    cases f tk <;> rfl

theorem spawnTask_withMS (ms : MaxSteps) (k : Kernel) (me : Nat) :
    (withMS ms k).spawnTask (some me) =
      ((k.spawnTask (some me)).1, withMS ms (k.spawnTask (some me)).2) := by
  simp only [Kernel.spawnTask, Kernel.getTask?]
  show (match k.tasks[me]? with
    | none => _
    | some ptk => _) = _
  cases k.tasks[me]? <;> rfl

section segment
variable (S : Scheduler σ) (me fuel : Nat) (ms : MaxSteps)
  (ih : ∀ (st : ExecState P σ) (p : Prog P.U Unit),
    runSegment S me fuel (stMS ms st) p = endMS ms (runSegment S me fuel st p))
include ih

theorem onTask_sim (st : ExecState P σ) (t : Nat) (g : Task → Except String Task) (cont : Prog P.U Unit) :
    (match (stMS ms st).k.modTask t g with
      | .ok k' => runSegment S me fuel { stMS ms st with k := k' } cont
      | .error e => SegEnd.panicked e (stMS ms st)) =
    endMS ms (match st.k.modTask t g with
      | .ok k' => runSegment S me fuel { st with k := k' } cont
      | .error e => SegEnd.panicked e st) := by
  show (match (withMS ms st.k).modTask t g with
      | .ok k' => runSegment S me fuel { stMS ms st with k := k' } cont
      | .error e => SegEnd.panicked e (stMS ms st)) = _
  rw [modTask_withMS]
  cases st.k.modTask t g with
  | error e => rfl
  | ok k' => exact ih { st with k := k' } cont

theorem runSegment_op_stMS (st : ExecState P σ) {β : Type} (o : KOp P.U β) (kont : β → Prog P.U Unit) :
    runSegment S me (fuel + 1) (stMS ms st) (.op o kont) =
      endMS ms (runSegment S me (fuel + 1) st (.op o kont)) := by
  cases o with
  | switch => rw [runSegment, runSegment]; rfl
  | me => rw [runSegment, runSegment]; exact ih st _
  | getU => rw [runSegment, runSegment]; exact ih st _
  | setU u => rw [runSegment, runSegment]; exact ih { st with u := u } _
  | emit s => rw [runSegment, runSegment]; exact ih { st with log := st.log.push (.obs s) } _
  | block sp => rw [runSegment, runSegment]; exact onTask_sim S me fuel ms ih st _ _ _
  | blockTask t => rw [runSegment, runSegment]; exact onTask_sim S me fuel ms ih st _ _ _
  | sleepUnlessWoken => rw [runSegment, runSegment]; exact onTask_sim S me fuel ms ih st _ _ _
  | unblock t => rw [runSegment, runSegment]; exact onTask_sim S me fuel ms ih st _ _ _
  | wake t =>
    rw [runSegment, runSegment]
    show (if (st.k.current == Cur.stopped || st.k.current == Cur.finished) = true then _ else
      match st.k.tasks[t]? with
      | none => _
      | some tk => _) = _
    split
    · exact ih st _
    · simp only [Kernel.getTask?]
      cases st.k.tasks[t]? with
      | none => rfl
      | some tk =>
        simp only
        split
        · exact ih st _
        · exact onTask_sim S me fuel ms ih st _ _ _
  | isFinished t => rw [runSegment, runSegment]; exact ih st _
  | requestYield =>
    rw [runSegment, runSegment]; exact ih { st with k := { st.k with hasYielded := true } } _
  | rand =>
    rw [runSegment, runSegment]
    show (match S.nextU64 st.sch with
      | (.ok v, s') => _
      | (.error e, s') => _) = _
    rcases S.nextU64 st.sch with ⟨r, s'⟩
    cases r with
    | ok v =>
      exact ih { st with k := { st.k with schedRev := .random :: st.k.schedRev }, sch := s',
                         log := st.log.push (.draw v) } _
    | error e => rfl
  | spawn fut body =>
    rw [runSegment, runSegment]
    have h1 : (stMS ms st).k.getTask? me = st.k.tasks[me]? := rfl
    have h2 : st.k.getTask? me = st.k.tasks[me]? := rfl
    simp only [Kernel.spawnTask, h1, h2]
    cases st.k.tasks[me]? with
    | none => exact ih { st with conts := st.conts ++ [P.bodies body] } _
    | some ptk =>
      exact ih { st with
        k := { st.k.setTask me { ptk with clock := (ptk.clock.increment me).extend st.k.tasks.length } with
          tasks := (st.k.setTask me { ptk with clock := (ptk.clock.increment me).extend st.k.tasks.length }).tasks
            ++ [{ clock := (ptk.clock.increment me).extend st.k.tasks.length, parent := some me }] },
        conts := st.conts ++ [P.bodies body] } _
  | park =>
    rw [runSegment, runSegment]
    show (match st.k.tasks[me]? with
      | none => _
      | some tk => _) = _
    simp only [Kernel.getTask?]
    cases st.k.tasks[me]? with
    | none => rfl
    | some tk =>
      simp only
      cases tk.park with
      | error e => rfl
      | ok x => exact ih { st with k := st.k.setTask me x.2 } _
  | unpark t => rw [runSegment, runSegment]; exact onTask_sim S me fuel ms ih st _ _ _
  | setWaiter target =>
    rw [runSegment, runSegment]
    show (match st.k.tasks[target]? with
      | none => _
      | some tk => _) = _
    simp only [Kernel.getTask?]
    cases st.k.tasks[target]? with
    | none => rfl
    | some tk =>
      simp only
      cases tk.setWaiter me with
      | error e => rfl
      | ok x => exact ih { st with k := st.k.setTask target x.2 } _
  | takeWaiter =>
    rw [runSegment, runSegment]
    show (match st.k.tasks[me]? with
      | none => _
      | some tk => _) = _
    simp only [Kernel.getTask?]
    cases st.k.tasks[me]? with
    | none => rfl
    | some tk => exact ih { st with k := st.k.setTask me { tk with waiter := none } } _
  | detach t => rw [runSegment, runSegment]; exact onTask_sim S me fuel ms ih st _ _ _
  | clock => rw [runSegment, runSegment]; exact ih st _
  | clockOf t => rw [runSegment, runSegment]; exact ih st _
  | updateClock c => rw [runSegment, runSegment]; exact onTask_sim S me fuel ms ih st _ _ _
  | incClock =>
    rw [runSegment, runSegment]
    show (match st.k.tasks[me]? with
      | none => _
      | some tk => _) = _
    simp only [Kernel.getTask?]
    cases st.k.tasks[me]? with
    | none => rfl
    | some tk => exact ih { st with k := st.k.setTask me { tk with clock := tk.clock.increment me } } _
  | joinClockOf t c => rw [runSegment, runSegment]; exact onTask_sim S me fuel ms ih st _ _ _
  | exitTruncates => rw [runSegment, runSegment]; exact ih st _
  | resetSteps =>
    rw [runSegment, runSegment]; exact ih { st with k := { st.k with stepsResetAt := st.k.schedLen } } _
  | ctxSwitches => rw [runSegment, runSegment]; exact ih st _
  | isPanicking => rw [runSegment, runSegment]; exact ih st _

end segment

/-- **A task segment never reads `maxSteps`.** -/
theorem runSegment_stMS (S : Scheduler σ) (me : Nat) (ms : MaxSteps) :
    ∀ (fuel : Nat) (st : ExecState P σ) (p : Prog P.U Unit),
      runSegment S me fuel (stMS ms st) p = endMS ms (runSegment S me fuel st p)
  | 0, st, p => by rw [runSegment, runSegment]; rfl
  | fuel + 1, st, .pure () => by
    rw [runSegment, runSegment]
    have hp : (stMS ms st).k.panicking = st.k.panicking := rfl
    have ha : (stMS ms st).k.alsoPanicking = st.k.alsoPanicking := rfl
    rw [hp, ha]
    repeat' split
    all_goals rfl
  | fuel + 1, st, .panic msg => by
    rw [runSegment, runSegment]
    have hp : (stMS ms st).k.panicking = st.k.panicking := rfl
    have ha : (stMS ms st).k.alsoPanicking = st.k.alsoPanicking := rfl
    rw [hp, ha]
    split
    · split
      · rfl
      · exact runSegment_stMS S me ms fuel
          { st with k := { st.k with alsoPanicking := st.k.alsoPanicking ++ [(me, msg)] } } _
    · exact runSegment_stMS S me ms fuel { st with k := { st.k with panicking := some (me, msg) } } _
  | fuel + 1, st, .op o kont =>
    runSegment_op_stMS S me fuel ms (runSegment_stMS S me ms fuel) st o kont

theorem finishSeg_endMS (ms : MaxSteps) (t : Nat) (e : SegEnd P σ) :
    finishSeg t (endMS ms e) = sumMS ms (finishSeg t e) := by
  cases e with
  | returned st' =>
    simp only [endMS, finishSeg]
    show (match (withMS ms st'.k).modTask t (fun x => x.finish) with
      | .ok k' => _
      | .error e => _) = _
    rw [modTask_withMS]
    cases st'.k.modTask t (fun x => x.finish) <;> rfl
  | _ => rfl

/-! ### `schedule()` -/

def stepMS {σ : Type} (ms : MaxSteps) : Kernel.SchedStep σ → Kernel.SchedStep σ
  | .ok k s ev => .ok (withMS ms k) s ev
  | .err e k s => .err e (withMS ms k) s
  | .schedPanic m k s => .schedPanic m (withMS ms k) s

/-- the part of `schedule()` after the bound check does not read `maxSteps` -/
theorem scheduleCore_withMS (S : Scheduler σ) (ms : MaxSteps) (k : Kernel) (s : σ) :
    scheduleCore S (withMS ms k) s = stepMS ms (scheduleCore S k s) := by
  unfold scheduleCore
  have he : endsHere (withMS ms k) = endsHere k := rfl
  have ha : ask S (withMS ms k) s = ask S k s := rfl
  have ht : ∀ t : Nat, (withMS ms k).tasks[t]? = k.tasks[t]? := fun _ => rfl
  rw [he, ha]
  cases endsHere k with
  | true => rfl
  | false =>
    simp only [Bool.false_eq_true, if_false]
    rcases ask S k s with ⟨ans, s'⟩
    cases ans with
    | panic msg => rfl
    | choose ch =>
      cases ch with
      | none => rfl
      | some t =>
        simp only [ht]
        cases k.tasks[t]? with
        | none => rfl
        | some tk =>
          simp only
          split
          · rfl
          · split
            · split
              · rfl
              · cases tk.unblock <;> rfl
            · rfl

/-- below the bound, `schedule()` under `FailAfter n`/`ContinueAfter n` does exactly what it does without
a bound -/
theorem schedule_withMS (S : Scheduler σ) (ms : MaxSteps) (k : Kernel) (s : σ) (hk : k.maxSteps = .none)
    (hb : ∀ n, boundOf ms = some n → k.stepBoundExceeded n = false) :
    (withMS ms k).schedule S s = stepMS ms (k.schedule S s) := by
  rw [schedule_eq, schedule_eq, hk]
  have hn : (withMS ms k).next = k.next := rfl
  rw [hn]
  split
  · rfl
  · have hm : (withMS ms k).maxSteps = ms := rfl
    have hx : ∀ n, (withMS ms k).stepBoundExceeded n = k.stepBoundExceeded n := fun _ => rfl
    rw [hm]
    cases ms with
    | none => exact scheduleCore_withMS S _ k s
    | failAfter n =>
      simp only [hx, hb n rfl, Bool.false_eq_true, if_false]
      exact scheduleCore_withMS S _ k s
    | continueAfter n =>
      simp only [hx, hb n rfl, Bool.false_eq_true, if_false]
      exact scheduleCore_withMS S _ k s

/-! ### one iteration, whole runs -/

theorem advance_withMS (ms : MaxSteps) (k : Kernel) : (withMS ms k).advance = withMS ms k.advance := by
  obtain ⟨tasks, current, next, hy, cs, ra, sr, seed, ms', pk, apk⟩ := k
  cases next <;> rfl

theorem afterSched_stMS (ms : MaxSteps) (st : ExecState P σ) (k : Kernel) (s : σ) (ev : Option Ev) :
    afterSched (stMS ms st) (withMS ms k) s ev = stMS ms (afterSched st k s ev) := by
  unfold afterSched
  rw [advance_withMS]
  rfl

theorem afterOk_stMS (S : Scheduler σ) (segFuel : Nat) (ms : MaxSteps) (st1 : ExecState P σ) (ev : Option Ev)
    (h : st1.k.current ≠ .stopped ∨ ∃ e, ev = some e) :
    afterOk S segFuel (stMS ms st1) ev = sumMS ms (afterOk S segFuel st1 ev) := by
  unfold afterOk
  have hc : (stMS ms st1).k.current = st1.k.current := rfl
  rw [hc]
  cases hcur : st1.k.current with
  | none => rfl
  | stopped =>
    rcases h with h | ⟨e, rfl⟩
    · exact absurd hcur h
    · simp only [byBound_some]; rfl
  | finished =>
    simp only
    have hu : (stMS ms st1).k.unfinishedAttached = st1.k.unfinishedAttached := rfl
    rw [hu]
    cases st1.k.unfinishedAttached <;> rfl
  | some t =>
    simp only
    have hp : (stMS ms st1).conts[t]? = st1.conts[t]? := rfl
    rw [hp]
    cases st1.conts[t]? with
    | none => rfl
    | some p =>
      simp only
      rw [runSegment_stMS, finishSeg_endMS]

/-- **One iteration below the bound is unaffected by the bound.** -/
theorem loopStep_stMS (S : Scheduler σ) (segFuel : Nat) (ms : MaxSteps) (st : ExecState P σ)
    (hn : st.k.next = .none) (hk : st.k.maxSteps = .none)
    (hb : ∀ n, boundOf ms = some n → st.k.stepBoundExceeded n = false) :
    loopStep S segFuel (stMS ms st) = sumMS ms (loopStep S segFuel st) := by
  have hs := schedule_spec S st.k st.sch
  have e1 : (stMS ms st).k.schedule S (stMS ms st).sch = stepMS ms (st.k.schedule S st.sch) :=
    schedule_withMS S ms st.k st.sch hk hb
  unfold loopStep
  rw [e1]
  generalize st.k.schedule S st.sch = r at hs
  cases hs with
  | already h => exact absurd hn h
  | boundFail n h1 h2 h3 => rw [hk] at h2; cases h2
  | boundStop n h1 h2 h3 => rw [hk] at h2; cases h2
  | finished h1 h2 h3 =>
    simp only [stepMS]
    rw [afterSched_stMS, afterOk_stMS]
    left
    simp [afterSched, advance_finished, endedK]
  | schedPanic msg s' h1 h2 => rfl
  | choseBad t msg s' h1 h2 h3 => rfl
  | choseNone s' h1 h2 =>
    simp only [stepMS]
    rw [afterSched_stMS, afterOk_stMS]
    exact Or.inr ⟨_, rfl⟩
  | choseRunnable t tk s' h1 h2 h3 h4 =>
    simp only [stepMS]
    rw [afterSched_stMS, afterOk_stMS]
    exact Or.inr ⟨_, rfl⟩
  | choseSpurious t tk s' h1 h2 h3 h4 =>
    simp only [stepMS]
    rw [afterSched_stMS, afterOk_stMS]
    exact Or.inr ⟨_, rfl⟩

/-- **Whole runs**: if no loop head of the unbounded run reaches the bound, the bounded run is the same run
(same outcome, same final state up to the `maxSteps` field). -/
theorem runLoop_stMS (S : Scheduler σ) (segFuel : Nat) (ms : MaxSteps) :
    ∀ (fuel : Nat) (st : ExecState P σ), LoopInv .none st →
      (∀ st', Reach S segFuel st st' → ∀ n, boundOf ms = some n → st'.k.stepBoundExceeded n = false) →
      runLoop S segFuel fuel (stMS ms st) = resMS ms (runLoop S segFuel fuel st)
  | 0, st, _, _ => by rw [runLoop_zero, runLoop_zero]; rfl
  | fuel + 1, st, hi, hb => by
    rw [runLoop_succ, runLoop_succ,
      loopStep_stMS S segFuel ms st hi.next hi.maxSteps (hb st (Reach.refl S segFuel st))]
    cases h : loopStep S segFuel st with
    | inl r => rfl
    | inr st' =>
      simp only [sumMS]
      apply runLoop_stMS S segFuel ms fuel st' (hi.step h)
      intro st'' ⟨n, hr⟩
      exact hb st'' ⟨n + 1, .head h hr⟩

end ShuttleProofs.Kernel
