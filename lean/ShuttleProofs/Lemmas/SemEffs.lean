import ShuttleProofs.Lemmas.SemFifo
/-
  The kernel effects of the unfair `release`, of `reblock_if_unfair` and of `close`, characterised
  exactly.
-/
namespace ShuttleModel
namespace SemLts

theorem mem_wakeList {o : Option Nat} {e : Eff} :
    e ∈ (match o with | some t => [Eff.wake t] | none => []) ↔ ∃ t, o = some t ∧ e = Eff.wake t := by
  cases o <;> simp

/-- an unfair `release` only adds the permits … -/
theorem releasePure_unfair_state (fin : Nat → Bool) {s : SemState} (n : Nat) (c : Clock)
    (hf : s.fair = false) : (s.releasePure fin n c).1 = s.paRelease n c := by
  have : (s.paRelease n c).fair = false := hf
  simp [SemState.releasePure, this]

/-- … and unblocks (and wakes) exactly the queued, unfinished waiters whose request fits the new
number of available permits -/
theorem releasePure_unfair_effs (fin : Nat → Bool) {s : SemState} (n : Nat) (c : Clock)
    (hf : s.fair = false) (e : Eff) :
    e ∈ (s.releasePure fin n c).2 ↔
      ∃ wid ∈ s.queue, ∃ w, s.getW wid = some w ∧ w.n ≤ s.avail + n ∧ fin w.taskId = false ∧
        (e = Eff.unblock w.taskId ∨ ∃ t, w.waker = some t ∧ e = Eff.wake t) := by
  have hfr : (s.paRelease n c).fair = false := hf
  have hq : (s.paRelease n c).queue = s.queue := rfl
  have hg : ∀ wid, (s.paRelease n c).getW wid = s.getW wid := fun _ => rfl
  have ha : (s.paRelease n c).avail = s.avail + n := rfl
  simp only [SemState.releasePure, hfr, Bool.false_eq_true, if_false, List.mem_flatMap, hq, hg, ha]
  constructor
  · rintro ⟨wid, hm, he⟩
    refine ⟨wid, hm, ?_⟩
    cases hw : s.getW wid with
    | none => rw [hw] at he; simp at he
    | some w =>
      rw [hw] at he
      simp only at he
      by_cases hfit : w.n ≤ s.avail + n
      · rw [if_pos hfit] at he
        by_cases hfin : fin w.taskId = true
        · rw [if_pos hfin] at he; simp at he
        · rw [if_neg hfin] at he
          refine ⟨w, rfl, hfit, by simpa using hfin, ?_⟩
          rcases List.mem_append.mp he with h1 | h2
          · left; simpa using h1
          · right; exact mem_wakeList.mp h2
      · rw [if_neg hfit] at he; simp at he
  · rintro ⟨wid, hm, w, hw, hfit, hfin, he⟩
    refine ⟨wid, hm, ?_⟩
    rw [hw]
    simp only
    rw [if_pos hfit, if_neg (by simp [hfin])]
    rcases he with h1 | h2
    · exact List.mem_append_left _ (by simp [h1])
    · exact List.mem_append_right _ (mem_wakeList.mpr h2)

/-- `reblock_if_unfair` blocks exactly the queued, unfinished waiters that no longer fit -/
theorem mem_reblockEffs (fin : Nat → Bool) (s : SemState) (e : Eff) :
    e ∈ s.reblockEffs fin ↔
      s.fair = false ∧ ∃ wid ∈ s.queue, ∃ w, s.getW wid = some w ∧ s.avail < w.n ∧
        fin w.taskId = false ∧ e = Eff.block w.taskId := by
  unfold SemState.reblockEffs
  by_cases hf : s.fair = true
  · simp [hf]
  · have hf' : s.fair = false := by simpa using hf
    simp only [hf, Bool.false_eq_true, if_false, List.mem_flatMap, true_and]
    constructor
    · rintro ⟨wid, hm, he⟩
      refine ⟨wid, hm, ?_⟩
      cases hw : s.getW wid with
      | none => rw [hw] at he; simp at he
      | some w =>
        rw [hw] at he
        simp only at he
        by_cases hc : (decide (s.avail < w.n) && !fin w.taskId) = true
        · rw [if_pos hc] at he
          simp only [Bool.and_eq_true, decide_eq_true_eq, Bool.not_eq_eq_eq_not, Bool.not_true] at hc
          exact ⟨w, rfl, hc.1, hc.2, by simpa using he⟩
        · rw [if_neg hc] at he; simp at he
    · rintro ⟨wid, hm, w, hw, hlt, hfin, he⟩
      refine ⟨wid, hm, ?_⟩
      rw [hw]
      simp only
      rw [if_pos (by simp [hlt, hfin])]
      simp [he]

/-- `close` unblocks every queued waiter whose task is unfinished and wakes every registered waker -/
theorem mem_closePure_effs (fin : Nat → Bool) {s : SemState} (hc : s.closed = false) (e : Eff) :
    e ∈ (s.closePure fin).2 ↔
      ∃ wid ∈ s.queue, ∃ w, s.getW wid = some w ∧
        ((fin w.taskId = false ∧ e = Eff.unblock w.taskId) ∨ ∃ t, w.waker = some t ∧ e = Eff.wake t) := by
  simp only [SemState.closePure, hc, Bool.false_eq_true, if_false, List.mem_flatMap]
  constructor
  · rintro ⟨wid, hm, he⟩
    refine ⟨wid, hm, ?_⟩
    cases hw : s.getW wid with
    | none => rw [hw] at he; simp at he
    | some w =>
      rw [hw] at he
      simp only at he
      refine ⟨w, rfl, ?_⟩
      rcases List.mem_append.mp he with h1 | h2
      · left
        by_cases hfin : fin w.taskId = true
        · rw [if_pos hfin] at h1; simp at h1
        · rw [if_neg hfin] at h1
          exact ⟨by simpa using hfin, by simpa using h1⟩
      · right; exact mem_wakeList.mp h2
  · rintro ⟨wid, hm, w, hw, he⟩
    refine ⟨wid, hm, ?_⟩
    rw [hw]
    simp only
    rcases he with ⟨hfin, h1⟩ | h2
    · exact List.mem_append_left _ (by simp [hfin, h1])
    · exact List.mem_append_right _ (mem_wakeList.mpr h2)

end SemLts
end ShuttleModel
