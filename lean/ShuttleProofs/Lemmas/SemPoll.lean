import ShuttleProofs.Lemmas.SemOps
/-
  Case analysis of `SemState.pollPure` (the atomic part of `Acquire::poll`) and its specification.
-/
namespace ShuttleModel
namespace SemLts
open Sem (PollOut)

/-- the waiter as `poll` sees it (`never_polled := false`) -/
def polled (w0 : Waiter) : Waiter := { w0 with neverPolled := false }
/-- … once its `Acquire` has completed without taking permits now -/
def finishedW (w0 : Waiter) : Waiter := { polled w0 with completed := true }
/-- … once `poll` has taken the permits itself -/
def gotW (w : Waiter) : Waiter := { w with hasPermits := true, completed := true, neverPolled := false }
/-- … registered (again) for task `me` with waker `cx` -/
def waitW (w0 : Waiter) (me cx : Nat) : Waiter := { polled w0 with waker := some cx, taskId := me }
/-- … newly enqueued -/
def enqW (w0 : Waiter) (me cx : Nat) : Waiter :=
  { polled w0 with waker := some cx, taskId := me, isQueued := true }
/-- … taken out of the queue by `remove_waiter` -/
def unqW (w : Waiter) : Waiter := { w with isQueued := false }

section fields
variable (w : Waiter) (me cx : Nat)
@[simp] theorem polled_wid : (polled w).wid = w.wid := rfl
@[simp] theorem polled_n : (polled w).n = w.n := rfl
@[simp] theorem polled_isQueued : (polled w).isQueued = w.isQueued := rfl
@[simp] theorem polled_hasPermits : (polled w).hasPermits = w.hasPermits := rfl
@[simp] theorem polled_completed : (polled w).completed = w.completed := rfl
@[simp] theorem polled_waker : (polled w).waker = w.waker := rfl
@[simp] theorem polled_taskId : (polled w).taskId = w.taskId := rfl
@[simp] theorem finishedW_wid : (finishedW w).wid = w.wid := rfl
@[simp] theorem finishedW_n : (finishedW w).n = w.n := rfl
@[simp] theorem finishedW_isQueued : (finishedW w).isQueued = w.isQueued := rfl
@[simp] theorem finishedW_hasPermits : (finishedW w).hasPermits = w.hasPermits := rfl
@[simp] theorem finishedW_completed : (finishedW w).completed = true := rfl
@[simp] theorem gotW_wid : (gotW w).wid = w.wid := rfl
@[simp] theorem gotW_n : (gotW w).n = w.n := rfl
@[simp] theorem gotW_isQueued : (gotW w).isQueued = w.isQueued := rfl
@[simp] theorem gotW_hasPermits : (gotW w).hasPermits = true := rfl
@[simp] theorem gotW_completed : (gotW w).completed = true := rfl
@[simp] theorem gotW_taskId : (gotW w).taskId = w.taskId := rfl
@[simp] theorem waitW_wid : (waitW w me cx).wid = w.wid := rfl
@[simp] theorem waitW_n : (waitW w me cx).n = w.n := rfl
@[simp] theorem waitW_isQueued : (waitW w me cx).isQueued = w.isQueued := rfl
@[simp] theorem waitW_hasPermits : (waitW w me cx).hasPermits = w.hasPermits := rfl
@[simp] theorem waitW_completed : (waitW w me cx).completed = w.completed := rfl
@[simp] theorem waitW_waker : (waitW w me cx).waker = some cx := rfl
@[simp] theorem waitW_taskId : (waitW w me cx).taskId = me := rfl
@[simp] theorem enqW_wid : (enqW w me cx).wid = w.wid := rfl
@[simp] theorem enqW_n : (enqW w me cx).n = w.n := rfl
@[simp] theorem enqW_isQueued : (enqW w me cx).isQueued = true := rfl
@[simp] theorem enqW_hasPermits : (enqW w me cx).hasPermits = w.hasPermits := rfl
@[simp] theorem enqW_completed : (enqW w me cx).completed = w.completed := rfl
@[simp] theorem enqW_waker : (enqW w me cx).waker = some cx := rfl
@[simp] theorem enqW_taskId : (enqW w me cx).taskId = me := rfl
@[simp] theorem unqW_wid : (unqW w).wid = w.wid := rfl
@[simp] theorem unqW_n : (unqW w).n = w.n := rfl
@[simp] theorem unqW_isQueued : (unqW w).isQueued = false := rfl
@[simp] theorem unqW_hasPermits : (unqW w).hasPermits = w.hasPermits := rfl
@[simp] theorem unqW_completed : (unqW w).completed = w.completed := rfl
@[simp] theorem unqW_taskId : (unqW w).taskId = w.taskId := rfl
@[simp] theorem unqW_waker : (unqW w).waker = w.waker := rfl
end fields

/-- the six ways `pollPure` can return -/
inductive PollCase (s : SemState) (wid me cx : Nat) (clk : Clock) (fin : Nat → Bool) (w0 : Waiter)
    (o : PollOut) : Prop
  /-- the permits had been granted by a `release` (or a cancellation) before -/
  | granted (hp : w0.hasPermits = true) (hq : w0.isQueued = false)
      (ho : o = { s := s.setW (finishedW w0), res := .ready true })
  /-- the semaphore is closed -/
  | closed (hp : w0.hasPermits = false) (hc : s.closed = true) (hq : w0.isQueued = false)
      (ho : o = { s := s.setW (finishedW w0), res := .ready false })
  /-- `acquire_permits` succeeded for a waiter that is not queued -/
  | acquiredFresh (hp : w0.hasPermits = false) (hc : s.closed = false) (hq : w0.isQueued = false)
      (s' : SemState) (pc : Clock) (hacq : s.acquirePermits w0.n clk = .ok (.ok (s', pc)))
      (ho : o = { s := (s'.setW (polled w0)).setW (gotW (polled w0)),
                  res := .ready true, pc := some pc,
                  effs := ((s'.setW (polled w0)).setW (gotW (polled w0))).reblockEffs fin })
  /-- `acquire_permits` succeeded for a queued waiter (unfair semaphores only) -/
  | acquiredQueued (hp : w0.hasPermits = false) (hc : s.closed = false) (hq : w0.isQueued = true)
      (hf : s.fair = false) (hwk : w0.waker.isSome = true)
      (s' s3 : SemState) (pc : Clock) (effs : List Eff) (w4 : Waiter)
      (hacq : s.acquirePermits w0.n clk = .ok (.ok (s', pc)))
      (hrm : (s'.setW (polled w0)).removeWaiterPure fin wid = .ok (s3, effs))
      (hw4 : s3.getW wid = some w4)
      (ho : o = { s := s3.setW (gotW w4), res := .ready true, pc := some pc,
                  effs := effs ++ (s3.setW (gotW w4)).reblockEffs fin })
  /-- not enough permits (or, fair, somebody queued): the waiter is appended to the queue -/
  | enqueued (hp : w0.hasPermits = false) (hc : s.closed = false) (hq : w0.isQueued = false)
      (hwk : w0.waker.isSome = false)
      (hacq : s.acquirePermits w0.n clk = .ok (.error .noPermits))
      (ho : o = { s := ({ s with queue := s.queue ++ [wid] }).setW (enqW w0 me cx), res := .pending })
  /-- an unfair waiter polled again without enough permits: stays where it is -/
  | stillQueued (hp : w0.hasPermits = false) (hc : s.closed = false) (hq : w0.isQueued = true)
      (hf : s.fair = false) (hwk : w0.waker.isSome = true)
      (hacq : s.acquirePermits w0.n clk = .ok (.error .noPermits))
      (ho : o = { s := s.setW (waitW w0 me cx), res := .pending })
  /-- a queued waiter of a fair semaphore does not try: it only refreshes its waker / task -/
  | fairWait (hp : w0.hasPermits = false) (hc : s.closed = false) (hq : w0.isQueued = true)
      (hf : s.fair = true) (hwk : w0.waker.isSome = true)
      (ho : o = { s := s.setW (waitW w0 me cx), res := .pending })

theorem pollPure_cases {s : SemState} {wid me cx : Nat} {clk : Clock} {fin : Nat → Bool}
    {w0 : Waiter} {o : PollOut} (hw : s.getW wid = some w0)
    (h : s.pollPure wid me cx clk fin = .ok o) : PollCase s wid me cx clk fin w0 o := by
  unfold SemState.pollPure at h
  rw [hw] at h
  simp only at h
  by_cases hp : w0.hasPermits = true
  · rw [if_pos hp] at h
    by_cases hq : w0.isQueued = true
    · rw [if_pos hq] at h; cases h
    · rw [if_neg hq] at h
      simp only [Except.ok.injEq] at h
      exact .granted hp (by simpa using hq) h.symm
  · rw [if_neg hp] at h
    have hp' : w0.hasPermits = false := by simpa using hp
    by_cases hc : s.closed = true
    · rw [if_pos hc] at h
      by_cases hq : w0.isQueued = true
      · rw [if_pos hq] at h; cases h
      · rw [if_neg hq] at h
        simp only [Except.ok.injEq] at h
        exact .closed hp' hc (by simpa using hq) h.symm
    · rw [if_neg hc] at h
      have hc' : s.closed = false := by simpa using hc
      by_cases hqw : (w0.isQueued != w0.waker.isSome) = true
      · rw [if_pos hqw] at h; cases h
      · rw [if_neg hqw] at h
        have hqw' : w0.isQueued = w0.waker.isSome := by simpa using hqw
        by_cases hfq : (!(s.fair && w0.isQueued)) = true
        · rw [if_pos hfq] at h
          cases hacq : s.acquirePermits w0.n clk with
          | error msg => rw [hacq] at h; cases h
          | ok r =>
            rw [hacq] at h
            cases r with
            | ok p =>
              obtain ⟨s', pc⟩ := p
              simp only at h
              by_cases hq : w0.isQueued = true
              · rw [if_pos hq] at h
                cases hrm : (s'.setW { w0 with neverPolled := false }).removeWaiterPure fin wid with
                | error msg => rw [hrm] at h; cases h
                | ok r3 =>
                  obtain ⟨s3, effs⟩ := r3
                  rw [hrm] at h
                  simp only at h
                  cases hw4 : s3.getW wid with
                  | none => rw [hw4] at h; cases h
                  | some w4 =>
                    rw [hw4] at h
                    simp only [Except.ok.injEq] at h
                    have hf : s.fair = false := by
                      simp only [hq, Bool.and_true, Bool.not_eq_eq_eq_not, Bool.not_true] at hfq
                      exact hfq
                    exact .acquiredQueued hp' hc' hq hf (by rw [← hqw']; exact hq)
                      s' s3 pc effs w4 hacq hrm hw4 h.symm
              · rw [if_neg hq] at h
                simp only at h
                have hg : (s'.setW { w0 with neverPolled := false }).getW wid
                    = some { w0 with neverPolled := false } := by
                  obtain ⟨_, _, _, hpa⟩ := acquirePermits_ok hacq
                  obtain ⟨fr, _, _⟩ := paAcquire_some hpa
                  rw [getW_eq] at hw ⊢
                  simp only [setW_table, fr.table]
                  have hwid : w0.wid = wid := (tget_some_mem hw).2
                  have := tget_tset_self (T := s.table) (w := { w0 with neverPolled := false })
                    (old := w0) (by simpa [hwid] using hw)
                  simpa [hwid] using this
                rw [hg] at h
                simp only [Except.ok.injEq, List.nil_append] at h
                exact .acquiredFresh hp' hc' (by simpa using hq) s' pc hacq h.symm
            | error e =>
              cases e with
              | closed => simp only at h; cases h
              | noPermits =>
                simp only at h
                by_cases hq : w0.isQueued = true
                · have : (!w0.isQueued) = false := by simp [hq]
                  rw [if_neg (by simp [hq])] at h
                  simp only [Except.ok.injEq] at h
                  have hf : s.fair = false := by
                    simp only [hq, Bool.and_true, Bool.not_eq_eq_eq_not, Bool.not_true] at hfq
                    exact hfq
                  exact .stillQueued hp' hc' hq hf (by rw [← hqw']; exact hq) hacq h.symm
                · rw [if_pos (by simpa using hq)] at h
                  simp only [Except.ok.injEq] at h
                  have hq' : w0.isQueued = false := by simpa using hq
                  exact .enqueued hp' hc' hq' (by rw [← hqw']; exact hq') hacq h.symm
        · rw [if_neg hfq] at h
          simp only [Except.ok.injEq] at h
          have hfq : s.fair = true ∧ w0.isQueued = true := by
            cases hf : s.fair <;> cases hq : w0.isQueued <;> simp [hf, hq] at hfq ⊢
          exact .fairWait hp' hc' hfq.2 hfq.1 (by rw [← hqw']; exact hfq.2) h.symm


end SemLts
end ShuttleModel
