import ShuttleProofs.C08
/-!
# Replay lemmas, part 1: a scheduler that *follows the log* of an execution reproduces that execution

`Follows S S' R`: whenever the follower `S'` (state `s'`) is related by `R s evs s'` to the state `s` of the original
scheduler `S` and to the list `evs` of events the original execution is still going to log, and the next of those
events is a consultation (resp. a draw) that `S` answered with `ch` (resp. `v`), then `S'` gives the same answer and
the relation holds again for the rest of the events.

`execute_follows`: under `Follows S S' R`, if `R s (log of the whole execution) s'` holds initially and the original
execution did not end with a scheduler panic, the execution under `S'` is the same execution: same kernel, user
state, continuations, log and outcome (`reRes`), and `R … [] …` holds at the end.

`reSt st s'` = `st` with the scheduler state replaced by `s'` (of another type).
-/

namespace ShuttleProofs.Replay
open ShuttleModel ShuttleProofs.Kernel

variable {P : Program} {σ σ' : Type}

def reSt (st : ExecState P σ) (s' : σ') : ExecState P σ' :=
  { k := st.k, u := st.u, conts := st.conts, sch := s', log := st.log }

@[simp] theorem reSt_k (st : ExecState P σ) (s' : σ') : (reSt st s').k = st.k := rfl
@[simp] theorem reSt_sch (st : ExecState P σ) (s' : σ') : (reSt st s').sch = s' := rfl
@[simp] theorem reSt_log (st : ExecState P σ) (s' : σ') : (reSt st s').log = st.log := rfl
@[simp] theorem reSt_u (st : ExecState P σ) (s' : σ') : (reSt st s').u = st.u := rfl
@[simp] theorem reSt_conts (st : ExecState P σ) (s' : σ') : (reSt st s').conts = st.conts := rfl

def reEnd : SegEnd P σ → σ' → SegEnd P σ'
  | .atSwitch st, s' => .atSwitch (reSt st s')
  | .returned st, s' => .returned (reSt st s')
  | .panicked m st, s' => .panicked m (reSt st s')
  | .schedPanic m st, s' => .schedPanic m (reSt st s')
  | .outOfFuel st, s' => .outOfFuel (reSt st s')
  | .aborted m st, s' => .aborted m (reSt st s')

def reRes (r : Result P σ) (s' : σ') : Result P σ' := ⟨r.outcome, reSt r.st s'⟩

def reSum : Result P σ ⊕ ExecState P σ → σ' → Result P σ' ⊕ ExecState P σ'
  | .inl r, s' => .inl (reRes r s')
  | .inr st, s' => .inr (reSt st s')

/-- the state carried by a loop-iteration result -/
def sumSt : Result P σ ⊕ ExecState P σ → ExecState P σ
  | .inl r => r.st
  | .inr st => st

structure Follows (S : Scheduler σ) (S' : Scheduler σ') (R : σ → List Ev → σ' → Prop) : Prop where
  dec : ∀ (s : σ) (s' : σ') (views : List TaskView) (off : List Nat) (cur : Option Nat) (y : Bool)
      (ch : Option Nat) (evs : List Ev) (s1 : σ),
      R s (.dec off cur y ch :: evs) s' → views.map (·.id) = off → (∀ t, ch = some t → t ∈ off) →
      S.nextTask s views cur y = (.choose ch, s1) →
      ∃ s1', S'.nextTask s' views cur y = (.choose ch, s1') ∧ R s1 evs s1'
  draw : ∀ (s : σ) (s' : σ') (v : Nat) (evs : List Ev) (s1 : σ),
      R s (.draw v :: evs) s' → S.nextU64 s = (.ok v, s1) →
      ∃ s1', S'.nextU64 s' = (.ok v, s1') ∧ R s1 evs s1'
  obs : ∀ (s : σ) (s' : σ') (x : String) (evs : List Ev), R s (.obs x :: evs) s' → R s evs s'

/-! ### list facts -/

theorem drop_length_cons {α : Type} (a b : List α) (x : α) : (a ++ x :: b).drop a.length = x :: b := by
  simp

theorem drop_length_succ {α : Type} (a b : List α) (x : α) : (a ++ x :: b).drop (a.length + 1) = b := by
  have h : a ++ x :: b = (a ++ [x]) ++ b := by simp
  have h2 : a.length + 1 = (a ++ [x]).length := by simp
  rw [h, h2, List.drop_left]

theorem drop_of_push_prefix {full : List Ev} {l : Array Ev} {x : Ev} {l' : List Ev}
    (h1 : (l.push x).toList <+: l') (h2 : l' <+: full) :
    full.drop l.size = x :: full.drop (l.size + 1) := by
  obtain ⟨t1, rfl⟩ := h1
  obtain ⟨t2, rfl⟩ := h2
  have h : (l.push x).toList ++ t1 ++ t2 = l.toList ++ x :: (t1 ++ t2) := by simp
  rw [h, ← Array.length_toList, drop_length_cons, drop_length_succ]

theorem runSegment_log_prefix (S : Scheduler σ) (me fuel : Nat) (st : ExecState P σ) (p : Prog P.U Unit) :
    st.log.toList <+: (runSegment S me fuel st p).st.log.toList := by
  rcases (runSegment_trace S me fuel st p).log with ⟨evs, h, _⟩ | ⟨msg, st', he, evs, h, _⟩
  · exact ⟨evs, h.symm⟩
  · rw [he]; exact ⟨evs, h.symm⟩

/-! ### one task segment -/

section segment
variable {S : Scheduler σ} {S' : Scheduler σ'} {R : σ → List Ev → σ' → Prop} (hF : Follows S S' R)
  (full : List Ev) (me : Nat)

/-- the statement proved by induction on the segment fuel -/
def SegSimAt (S : Scheduler σ) (S' : Scheduler σ') (R : σ → List Ev → σ' → Prop) (full : List Ev)
    (me fuel : Nat) : Prop :=
  ∀ (st : ExecState P σ) (p : Prog P.U Unit) (s' : σ') (e : SegEnd P σ),
    runSegment S me fuel st p = e → (∀ msg x, e ≠ .schedPanic msg x) → e.st.log.toList <+: full →
    R st.sch (full.drop st.log.size) s' →
    ∃ s'', runSegment S' me fuel (reSt st s') p = reEnd e s'' ∧ R e.st.sch (full.drop e.st.log.size) s''

variable {fuel : Nat} (ih : SegSimAt (P := P) S S' R full me fuel)
include ih

theorem onTask_follows (st : ExecState P σ) (t : Nat) (g : Task → Except String Task) (cont : Prog P.U Unit)
    (s' : σ') (e : SegEnd P σ)
    (he : (match st.k.modTask t g with
      | .ok k' => runSegment S me fuel { st with k := k' } cont
      | .error m => SegEnd.panicked m st) = e)
    (hne : ∀ msg x, e ≠ .schedPanic msg x) (hpre : e.st.log.toList <+: full)
    (hR : R st.sch (full.drop st.log.size) s') :
    ∃ s'', (match (reSt st s').k.modTask t g with
      | .ok k' => runSegment S' me fuel { reSt st s' with k := k' } cont
      | .error m => SegEnd.panicked m (reSt st s')) = reEnd e s'' ∧
      R e.st.sch (full.drop e.st.log.size) s'' := by
  show ∃ s'', (match st.k.modTask t g with
      | .ok k' => runSegment S' me fuel { reSt st s' with k := k' } cont
      | .error m => SegEnd.panicked m (reSt st s')) = reEnd e s'' ∧ _
  cases hm : st.k.modTask t g with
  | error m =>
    rw [hm] at he
    subst he
    exact ⟨s', rfl, hR⟩
  | ok k' =>
    rw [hm] at he
    exact ih { st with k := k' } cont s' e he hne hpre hR

include hF in
theorem runSegment_op_follows (st : ExecState P σ) {β : Type} (o : KOp P.U β) (kont : β → Prog P.U Unit)
    (s' : σ') (e : SegEnd P σ)
    (he : runSegment S me (fuel + 1) st (.op o kont) = e)
    (hne : ∀ msg x, e ≠ .schedPanic msg x) (hpre : e.st.log.toList <+: full)
    (hR : R st.sch (full.drop st.log.size) s') :
    ∃ s'', runSegment S' me (fuel + 1) (reSt st s') (.op o kont) = reEnd e s'' ∧
      R e.st.sch (full.drop e.st.log.size) s'' := by
  cases o with
  | switch => rw [runSegment] at he; rw [runSegment]; subst he; exact ⟨s', rfl, hR⟩
  | me => rw [runSegment] at he; rw [runSegment]; exact ih st _ s' e he hne hpre hR
  | getU => rw [runSegment] at he; rw [runSegment]; exact ih st _ s' e he hne hpre hR
  | setU u => rw [runSegment] at he; rw [runSegment]; exact ih { st with u := u } _ s' e he hne hpre hR
  | emit x =>
    rw [runSegment] at he; rw [runSegment]
    refine ih { st with log := st.log.push (.obs x) } _ s' e he hne hpre ?_
    have hp := runSegment_log_prefix S me fuel { st with log := st.log.push (.obs x) } (kont ())
    rw [he] at hp
    have hd := drop_of_push_prefix hp hpre
    rw [hd] at hR
    have := hF.obs _ _ _ _ hR
    simpa using this
  | block sp => rw [runSegment] at he; rw [runSegment]; exact onTask_follows full me ih st _ _ _ s' e he hne hpre hR
  | blockTask t => rw [runSegment] at he; rw [runSegment]; exact onTask_follows full me ih st _ _ _ s' e he hne hpre hR
  | sleepUnlessWoken =>
    rw [runSegment] at he; rw [runSegment]; exact onTask_follows full me ih st _ _ _ s' e he hne hpre hR
  | unblock t => rw [runSegment] at he; rw [runSegment]; exact onTask_follows full me ih st _ _ _ s' e he hne hpre hR
  | wake t =>
    rw [runSegment] at he; rw [runSegment]
    split at he
    · rename_i hc
      have hc' : ((reSt st s').k.current == Cur.stopped || (reSt st s').k.current == Cur.finished) = true := hc
      rw [if_pos hc']
      exact ih st _ s' e he hne hpre hR
    · rename_i hc
      have hc' : ¬ ((reSt st s').k.current == Cur.stopped || (reSt st s').k.current == Cur.finished) = true := hc
      rw [if_neg hc']
      cases hg : st.k.getTask? t with
      | none =>
        have hg' : (reSt st s').k.getTask? t = none := hg
        rw [hg] at he; rw [hg']; subst he; exact ⟨s', rfl, hR⟩
      | some tk =>
        have hg' : (reSt st s').k.getTask? t = some tk := hg
        rw [hg] at he; rw [hg']
        simp only at he ⊢
        split at he
        · rename_i hf
          rw [if_pos hf]
          exact ih st _ s' e he hne hpre hR
        · rename_i hf
          rw [if_neg hf]
          exact onTask_follows full me ih st _ _ _ s' e he hne hpre hR
  | isFinished t => rw [runSegment] at he; rw [runSegment]; exact ih st _ s' e he hne hpre hR
  | requestYield =>
    rw [runSegment] at he; rw [runSegment]
    exact ih { st with k := { st.k with hasYielded := true } } _ s' e he hne hpre hR
  | rand =>
    rw [runSegment] at he; rw [runSegment]
    simp only [reSt_sch]
    rcases hn : S.nextU64 st.sch with ⟨r, s1⟩
    rw [hn] at he
    cases r with
    | error m => exact absurd he.symm (hne _ _)
    | ok v =>
      simp only at he
      have hp := runSegment_log_prefix S me fuel
        { st with k := { st.k with schedRev := .random :: st.k.schedRev }, sch := s1,
                  log := st.log.push (.draw v) } (kont v)
      rw [he] at hp
      have hd := drop_of_push_prefix hp hpre
      rw [hd] at hR
      obtain ⟨s1', hn', hR'⟩ := hF.draw _ _ _ _ _ hR hn
      rw [hn']
      exact ih { st with k := { st.k with schedRev := .random :: st.k.schedRev }, sch := s1,
                         log := st.log.push (.draw v) } _ s1' e he hne hpre (by simpa using hR')
  | spawn fut body =>
    rw [runSegment] at he; rw [runSegment]
    exact ih { st with k := (st.k.spawnTask (some me)).2, conts := st.conts ++ [P.bodies body] } _ s' e he
      hne hpre hR
  | park =>
    rw [runSegment] at he; rw [runSegment]
    simp only [reSt_k]
    cases hg : st.k.getTask? me with
    | none => rw [hg] at he; subst he; exact ⟨s', rfl, hR⟩
    | some tk =>
      rw [hg] at he
      simp only at he ⊢
      cases hp : tk.park with
      | error m => rw [hp] at he; subst he; exact ⟨s', rfl, hR⟩
      | ok x =>
        rw [hp] at he
        exact ih { st with k := st.k.setTask me x.2 } _ s' e he hne hpre hR
  | unpark t => rw [runSegment] at he; rw [runSegment]; exact onTask_follows full me ih st _ _ _ s' e he hne hpre hR
  | setWaiter target =>
    rw [runSegment] at he; rw [runSegment]
    simp only [reSt_k]
    cases hg : st.k.getTask? target with
    | none => rw [hg] at he; subst he; exact ⟨s', rfl, hR⟩
    | some tk =>
      rw [hg] at he
      simp only at he ⊢
      cases hp : tk.setWaiter me with
      | error m => rw [hp] at he; subst he; exact ⟨s', rfl, hR⟩
      | ok x =>
        rw [hp] at he
        exact ih { st with k := st.k.setTask target x.2 } _ s' e he hne hpre hR
  | takeWaiter =>
    rw [runSegment] at he; rw [runSegment]
    simp only [reSt_k]
    cases hg : st.k.getTask? me with
    | none => rw [hg] at he; subst he; exact ⟨s', rfl, hR⟩
    | some tk =>
      rw [hg] at he
      exact ih { st with k := st.k.setTask me { tk with waiter := none } } _ s' e he hne hpre hR
  | detach t => rw [runSegment] at he; rw [runSegment]; exact onTask_follows full me ih st _ _ _ s' e he hne hpre hR
  | clock => rw [runSegment] at he; rw [runSegment]; exact ih st _ s' e he hne hpre hR
  | clockOf t => rw [runSegment] at he; rw [runSegment]; exact ih st _ s' e he hne hpre hR
  | updateClock c =>
    rw [runSegment] at he; rw [runSegment]; exact onTask_follows full me ih st _ _ _ s' e he hne hpre hR
  | incClock =>
    rw [runSegment] at he; rw [runSegment]
    simp only [reSt_k]
    cases hg : st.k.getTask? me with
    | none => rw [hg] at he; subst he; exact ⟨s', rfl, hR⟩
    | some tk =>
      rw [hg] at he
      exact ih { st with k := st.k.setTask me { tk with clock := tk.clock.increment me } } _ s' e he hne hpre hR
  | joinClockOf t c =>
    rw [runSegment] at he; rw [runSegment]; exact onTask_follows full me ih st _ _ _ s' e he hne hpre hR
  | exitTruncates => rw [runSegment] at he; rw [runSegment]; exact ih st _ s' e he hne hpre hR
  | resetSteps =>
    rw [runSegment] at he; rw [runSegment]
    exact ih { st with k := { st.k with stepsResetAt := st.k.schedLen } } _ s' e he hne hpre hR
  | ctxSwitches => rw [runSegment] at he; rw [runSegment]; exact ih st _ s' e he hne hpre hR
  | isPanicking => rw [runSegment] at he; rw [runSegment]; exact ih st _ s' e he hne hpre hR

end segment

/-- `panic!` inside a segment: abort iff this task is already unwinding -/
def abortCond (k : Kernel) (me : Nat) : Bool :=
  match k.panicking with
  | some (t, _) => t == me || k.alsoPanicking.any (·.1 == me)
  | none => false

theorem runSegment_panic_eq {σ : Type} (S : Scheduler σ) (me fuel : Nat) (st : ExecState P σ) (msg : String) :
    runSegment S me (fuel + 1) st (.panic msg) =
      if st.k.panicking.isNone then
        runSegment S me fuel { st with k := { st.k with panicking := some (me, msg) } } (P.unwind me)
      else if abortCond st.k me then .aborted msg st
      else runSegment S me fuel
        { st with k := { st.k with alsoPanicking := st.k.alsoPanicking ++ [(me, msg)] } } (P.unwind me) := by
  rw [runSegment]
  unfold abortCond
  cases h : st.k.panicking with
  | none => rfl
  | some x => rfl

/-- **A task segment under a follower is the same segment.** -/
theorem runSegment_follows {S : Scheduler σ} {S' : Scheduler σ'} {R : σ → List Ev → σ' → Prop}
    (hF : Follows S S' R) (full : List Ev) (me : Nat) :
    ∀ (fuel : Nat) (st : ExecState P σ) (p : Prog P.U Unit) (s' : σ') (e : SegEnd P σ),
      runSegment S me fuel st p = e → (∀ msg x, e ≠ .schedPanic msg x) → e.st.log.toList <+: full →
      R st.sch (full.drop st.log.size) s' →
      ∃ s'', runSegment S' me fuel (reSt st s') p = reEnd e s'' ∧ R e.st.sch (full.drop e.st.log.size) s''
  | 0, st, p, s', e, he, hne, hpre, hR => by
    rw [runSegment] at he; rw [runSegment]; subst he; exact ⟨s', rfl, hR⟩
  | fuel + 1, st, .pure (), s', e, he, hne, hpre, hR => by
    rw [runSegment] at he; rw [runSegment]
    simp only [reSt_k]
    revert he
    cases st.k.panicking with
    | none => intro he; subst he; exact ⟨s', rfl, hR⟩
    | some x =>
      obtain ⟨t, msg⟩ := x
      simp only
      split
      · intro he; subst he; exact ⟨s', rfl, hR⟩
      · cases st.k.alsoPanicking.find? (·.1 == me) with
        | none => intro he; subst he; exact ⟨s', rfl, hR⟩
        | some y => intro he; subst he; exact ⟨s', rfl, hR⟩
  | fuel + 1, st, .panic msg, s', e, he, hne, hpre, hR => by
    rw [runSegment_panic_eq] at he; rw [runSegment_panic_eq]
    split at he
    · rename_i h
      have h' : (reSt st s').k.panicking.isNone = true := h
      rw [if_pos h']
      exact runSegment_follows hF full me fuel { st with k := { st.k with panicking := some (me, msg) } } _ s' e
        he hne hpre hR
    · rename_i h
      have h' : ¬ (reSt st s').k.panicking.isNone = true := h
      rw [if_neg h']
      split at he
      · rename_i h2
        have h2' : abortCond (reSt st s').k me = true := h2
        rw [if_pos h2']
        subst he; exact ⟨s', rfl, hR⟩
      · rename_i h2
        have h2' : ¬ abortCond (reSt st s').k me = true := h2
        rw [if_neg h2']
        exact runSegment_follows hF full me fuel
          { st with k := { st.k with alsoPanicking := st.k.alsoPanicking ++ [(me, msg)] } } _ s' e he hne hpre hR
  | fuel + 1, st, .op o kont, s', e, he, hne, hpre, hR =>
    runSegment_op_follows hF full me (fun st p s' e => runSegment_follows hF full me fuel st p s' e) st o kont s' e
      he hne hpre hR

/-! ### one loop iteration -/

theorem finishSeg_reEnd (t : Nat) (e : SegEnd P σ) (s'' : σ') :
    finishSeg t (reEnd e s'') = reSum (finishSeg t e) s'' := by
  cases e with
  | returned st =>
    simp only [reEnd, finishSeg, reSt_k]
    cases st.k.modTask t (fun x => x.finish) <;> rfl
  | _ => rfl

theorem sumSt_finishSeg_log (t : Nat) (e : SegEnd P σ) : (sumSt (finishSeg t e)).log = e.st.log := by
  cases e with
  | returned st =>
    simp only [finishSeg]
    cases st.k.modTask t (fun x => x.finish) <;> rfl
  | _ => rfl

theorem sumSt_finishSeg_sch (t : Nat) (e : SegEnd P σ) : (sumSt (finishSeg t e)).sch = e.st.sch := by
  cases e with
  | returned st =>
    simp only [finishSeg]
    cases st.k.modTask t (fun x => x.finish) <;> rfl
  | _ => rfl

/-- the views handed to the scheduler carry exactly the offered ids -/
theorem views_ids_of (k : Kernel) : ∀ (l : List Nat), (∀ i ∈ l, ∃ tk, k.tasks[i]? = some tk) →
    (k.views l).map (·.id) = l
  | [], _ => rfl
  | i :: l, h => by
    obtain ⟨tk, htk⟩ := h i (List.mem_cons_self ..)
    have ih := views_ids_of k l (fun j hj => h j (List.mem_cons_of_mem _ hj))
    unfold Kernel.views at ih ⊢
    simp only [Kernel.getTask?] at ih
    simp only [List.filterMap_cons, Kernel.getTask?, htk, Option.map_some, List.map_cons]
    rw [ih]

theorem views_ids (k : Kernel) : ((atConsult k).views k.offered).map (·.id) = k.offered :=
  views_ids_of (atConsult k) k.offered (fun i hi => by
    obtain ⟨tk, h, _⟩ := mem_offered.mp hi
    exact ⟨tk, h⟩)

theorem loopStep_follows {S : Scheduler σ} {S' : Scheduler σ'} {R : σ → List Ev → σ' → Prop}
    (hF : Follows S S' R) (full : List Ev) (segFuel : Nat) {ms : MaxSteps} (st : ExecState P σ) (s' : σ')
    (hi : LoopInv ms st) (x : Result P σ ⊕ ExecState P σ) (hx : loopStep S segFuel st = x)
    (hne : ∀ msg st1, x ≠ .inl ⟨.schedPanic msg, st1⟩)
    (hpre : (sumSt x).log.toList <+: full)
    (hR : R st.sch (full.drop st.log.size) s') :
    ∃ s'', loopStep S' segFuel (reSt st s') = reSum x s'' ∧
      R (sumSt x).sch (full.drop (sumSt x).log.size) s'' := by
  have hn := hi.next
  have hc := hi.conts
  have hn' : (reSt st s').k.next = .none := hn
  have hc' : (reSt st s').conts.length = (reSt st s').k.tasks.length := hc
  have h := loopStep_spec S segFuel st hn hc
  rw [hx] at h
  cases h with
  | boundFail n hm he => exact ⟨s', loopStep_boundFail S' segFuel hn' hc' hm he, hR⟩
  | boundStop n hm he => exact ⟨s', loopStep_boundStop S' segFuel hn' hc' hm he, hR⟩
  | deadlock hb he hu =>
    refine ⟨s', ?_, hR⟩
    have := loopStep_ends S' segFuel hn' hc' hb he
    rw [this]
    have hu' : (reSt st s').k.unfinishedAttached = true := hu
    rw [hu']; rfl
  | ok hb he hu =>
    refine ⟨s', ?_, hR⟩
    have := loopStep_ends S' segFuel hn' hc' hb he
    rw [this]
    have hu' : (reSt st s').k.unfinishedAttached = false := hu
    rw [hu']; rfl
  | schedPanic msg s1 hcons hask => exact absurd rfl (hne _ _)
  | choseBad t msg s1 hcons hask hmem => exact absurd rfl (hne _ _)
  | choseNone s1 hcons hask =>
    have hd := drop_of_push_prefix (l := st.log) (x := decEv st.k none) (List.prefix_refl _) hpre
    rw [hd] at hR
    obtain ⟨s1', hask', hR'⟩ := hF.dec _ _ _ _ _ _ _ _ _ hR (views_ids st.k) (by intro t ht; cases ht) hask
    have hask'' : ask S' (reSt st s').k (reSt st s').sch = (.choose none, s1') := hask'
    exact ⟨s1', loopStep_choseNone S' segFuel hn' hc' hcons hask'', by simpa [sumSt] using hR'⟩
  | chose t s1 p hcons hask hmem hp =>
    rw [sumSt_finishSeg_log] at hpre
    have hpe := runSegment_log_prefix S t segFuel (segStart st t s1) p
    have hd := drop_of_push_prefix (l := st.log) (x := decEv st.k (some t)) hpe hpre
    rw [hd] at hR
    obtain ⟨s1', hask', hR'⟩ := hF.dec _ _ _ _ _ _ _ _ _ hR (views_ids st.k)
      (by intro t' ht'; cases ht'; exact hmem) hask
    have hask'' : ask S' (reSt st s').k (reSt st s').sch = (.choose (some t), s1') := hask'
    obtain ⟨p', hp', hl⟩ := loopStep_chose S' segFuel hn' hc' hcons hask'' hmem
    have hpp : p' = p := by
      have : st.conts[t]? = some p' := hp'
      rw [hp] at this
      exact (Option.some.inj this).symm
    subst hpp
    have hne_e : ∀ msg x, runSegment S t segFuel (segStart st t s1) p' ≠ .schedPanic msg x := by
      intro msg x hxe
      exact hne msg x (by rw [hxe]; rfl)
    obtain ⟨s'', hseg, hR''⟩ := runSegment_follows hF full t segFuel (segStart st t s1) p' s1' _ rfl hne_e hpre
      (by simpa [segStart] using hR')
    refine ⟨s'', ?_, ?_⟩
    · rw [hl]
      have : segStart (reSt st s') t s1' = reSt (segStart st t s1) s1' := rfl
      rw [this, hseg, finishSeg_reEnd]
    · rw [sumSt_finishSeg_log, sumSt_finishSeg_sch]
      exact hR''

/-! ### the whole loop -/

theorem loopStep_log_prefix (S : Scheduler σ) (segFuel : Nat) {ms : MaxSteps} (st : ExecState P σ)
    (hi : LoopInv ms st) : st.log.toList <+: (sumSt (loopStep S segFuel st)).log.toList := by
  have h := loopStep_spec S segFuel st hi.next hi.conts
  generalize loopStep S segFuel st = x at h
  cases h with
  | chose t s1 p hcons hask hmem hp =>
    rw [sumSt_finishSeg_log]
    refine List.IsPrefix.trans ?_ (runSegment_log_prefix S t segFuel (segStart st t s1) p)
    exact ⟨[decEv st.k (some t)], by simp [segStart]⟩
  | choseNone s1 hcons hask => exact ⟨[decEv st.k none], by simp [sumSt]⟩
  | _ => exact List.prefix_refl _

theorem runLoop_log_prefix (S : Scheduler σ) (segFuel : Nat) {ms : MaxSteps} :
    ∀ (fuel : Nat) (st : ExecState P σ), LoopInv ms st →
      st.log.toList <+: (runLoop S segFuel fuel st).st.log.toList
  | 0, st, _ => by rw [runLoop_zero]; exact List.prefix_refl _
  | fuel + 1, st, hi => by
    rw [runLoop_succ]
    have hp := loopStep_log_prefix S segFuel st hi
    cases hx : loopStep S segFuel st with
    | inl r => rw [hx] at hp; exact hp
    | inr st1 =>
      rw [hx] at hp
      exact hp.trans (runLoop_log_prefix S segFuel fuel st1 (hi.step hx))

/-- **The run loop under a follower is the same run.** -/
theorem runLoop_follows {S : Scheduler σ} {S' : Scheduler σ'} {R : σ → List Ev → σ' → Prop}
    (hF : Follows S S' R) (full : List Ev) (segFuel : Nat) {ms : MaxSteps} :
    ∀ (fuel : Nat) (st : ExecState P σ) (s' : σ'), LoopInv ms st →
      (∀ msg, (runLoop S segFuel fuel st).outcome ≠ .schedPanic msg) →
      (runLoop S segFuel fuel st).st.log.toList <+: full →
      R st.sch (full.drop st.log.size) s' →
      ∃ s'', runLoop S' segFuel fuel (reSt st s') = reRes (runLoop S segFuel fuel st) s'' ∧
        R (runLoop S segFuel fuel st).st.sch (full.drop (runLoop S segFuel fuel st).st.log.size) s''
  | 0, st, s', _, _, _, hR => by
    rw [runLoop_zero, runLoop_zero]; exact ⟨s', rfl, hR⟩
  | fuel + 1, st, s', hi, hne, hpre, hR => by
    rw [runLoop_succ S segFuel fuel st] at hne hpre ⊢
    rw [runLoop_succ S' segFuel fuel]
    cases hx : loopStep S segFuel st with
    | inl r =>
      rw [hx] at hne hpre
      simp only at hne hpre ⊢
      obtain ⟨s'', hl, hR'⟩ := loopStep_follows hF full segFuel st s' hi _ hx
        (by intro msg st1 h; cases h; exact hne msg rfl) hpre hR
      rw [hl]
      exact ⟨s'', rfl, hR'⟩
    | inr st1 =>
      rw [hx] at hne hpre
      simp only at hne hpre ⊢
      have hi1 := hi.step hx
      obtain ⟨s1', hl, hR'⟩ := loopStep_follows hF full segFuel st s' hi _ hx
        (by intro msg st1 h; cases h) ((runLoop_log_prefix S segFuel fuel st1 hi1).trans hpre) hR
      rw [hl]
      exact runLoop_follows hF full segFuel fuel st1 s1' hi1 hne hpre hR'

/-- **An execution under a follower is the same execution.** -/
theorem execute_follows {S : Scheduler σ} {S' : Scheduler σ'} {R : σ → List Ev → σ' → Prop}
    (hF : Follows S S' R) (P : Program) (ms : MaxSteps) (seed : Nat) (s : σ) (s' : σ') (fuel segFuel : Nat)
    (hne : ∀ msg, (execute P S ms seed s fuel segFuel).outcome ≠ .schedPanic msg)
    (hR : R s (execute P S ms seed s fuel segFuel).st.log.toList s') :
    ∃ s'', execute P S' ms seed s' fuel segFuel = reRes (execute P S ms seed s fuel segFuel) s'' ∧
      R (execute P S ms seed s fuel segFuel).st.sch [] s'' := by
  rw [execute_eq] at hne hR ⊢
  rw [execute_eq]
  obtain ⟨s'', h1, h2⟩ := runLoop_follows hF (runLoop S segFuel fuel (initState P ms seed s)).st.log.toList segFuel
    fuel (initState P ms seed s) s' (LoopInv.init P ms seed s) hne (List.prefix_refl _)
    (by simpa [initState] using hR)
  refine ⟨s'', h1, ?_⟩
  rw [← Array.length_toList, List.drop_length] at h2
  exact h2

end ShuttleProofs.Replay
