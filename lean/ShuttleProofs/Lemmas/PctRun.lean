import ShuttleProofs.Lemmas.PctNext

/-!
# Runs of the PCT scheduler: sequences of successful calls, step counting
-/

namespace ShuttleProofs.Pct
open ShuttleModel ShuttleModel.Pct

/-- A call made by the engine to the scheduler. -/
inductive Call where
  | exec
  | task (runnable : List Nat) (current : Option Nat) (isYielding : Bool)
  | u64
deriving Repr, DecidableEq

/-- The call is a `next_task` with more than one offered task (a "multi-choice decision"). -/
def Call.isMulti : Call → Bool
  | .task r _ _ => decide (r.length > 1)
  | _ => false

def Call.isExec : Call → Bool
  | .exec => true
  | _ => false

/-- Perform one call; `none` if the scheduler panics or `new_execution` returns `None`. -/
def applyCall (s : PctState) : Call → Option PctState
  | .exec => match newExecution s with
    | .some _ s' => some s'
    | _ => none
  | .task r c y => match nextTask s r c y with
    | .ok _ s' => some s'
    | .panic _ => none
  | .u64 => some (nextU64 s).2

/-- Perform a sequence of calls. -/
def runCalls (s : PctState) : List Call → Option PctState
  | [] => some s
  | c :: cs => match applyCall s c with
    | none => none
    | some s' => runCalls s' cs

/-- The body of one execution: calls other than `new_execution`. -/
def NoExec (cs : List Call) : Prop := ∀ c ∈ cs, c.isExec = false

instance (cs : List Call) : Decidable (NoExec cs) := by unfold NoExec; infer_instance

/-- Number of multi-choice decisions in a call sequence. -/
def multiCount (cs : List Call) : Nat := (cs.filter Call.isMulti).length

/-- The values of `self.steps` seen (before the increment) by the successive multi-choice decisions of a run. -/
def multiSteps (s : PctState) : List Call → List Nat
  | [] => []
  | c :: cs => match applyCall s c with
    | none => []
    | some s' => if c.isMulti then s.steps :: multiSteps s' cs else multiSteps s' cs

/-- One or several whole executions: `new_execution` followed by the calls of the body. -/
def runExecs (s : PctState) : List (List Call) → Option PctState
  | [] => some s
  | e :: es => match runCalls s (.exec :: e) with
    | none => none
    | some s' => runExecs s' es

theorem multiCount_cons (c : Call) (cs : List Call) :
    multiCount (c :: cs) = (if c.isMulti then 1 else 0) + multiCount cs := by
  unfold multiCount; rw [List.filter_cons]; split <;> simp <;> omega

/-- Effect of a non-`new_execution` call on the fields other than `priorities`/`next_priority`/`rng`/`data`. -/
theorem applyCall_noExec {s s' : PctState} {c : Call} (hI : Inv s) (hc : c.isExec = false)
    (h : applyCall s c = some s') :
    Inv s' ∧ s'.maxIterations = s.maxIterations ∧ s'.maxDepth = s.maxDepth ∧ s'.iterations = s.iterations ∧
    s'.changePoints = s.changePoints ∧
    s'.steps = (if c.isMulti then s.steps + 1 else s.steps) ∧
    s'.maxSteps = (if c.isMulti then max s.maxSteps (s.steps + 1) else s.maxSteps) := by
  cases c with
  | exec => simp [Call.isExec] at hc
  | u64 =>
    simp only [applyCall, Option.some.injEq] at h; subst h
    refine ⟨inv_nextU64 hI, ?_⟩
    unfold nextU64
    cases s.data.nextU64 with
    | mk v ds => simp [Call.isMulti]
  | task r cur y =>
    simp only [applyCall] at h
    cases hn : nextTask s r cur y with
    | panic m => simp [hn] at h
    | ok ch s1 =>
      simp only [hn, Option.some.injEq] at h; subst h
      obtain ⟨_, _, _, _, _, _, _, _, _, _, _, b1, b2, b3, b4, _, b7, b8, _⟩ := nextTask_spec hI hn
      refine ⟨inv_nextTask hI hn, b1, b2, b3, b4, ?_, ?_⟩
      · rw [b7]; simp [Call.isMulti]
      · rw [b8]; simp [Call.isMulti]

theorem applyCall_exec {s s' : PctState} (h : applyCall s .exec = some s') :
    ∃ seed, newExecution s = .some seed s' := by
  simp only [applyCall] at h
  cases hn : newExecution s with
  | none => simp [hn] at h
  | panic m => simp [hn] at h
  | some seed s1 => simp only [hn, Option.some.injEq] at h; subst h; exact ⟨seed, rfl⟩

/-- The body of an execution: `steps` counts the multi-choice decisions, `max_steps` is the running maximum, the
    successive multi-choice decisions see `steps = c, c+1, c+2, …`. -/
theorem runCalls_noExec : ∀ (cs : List Call) (s s' : PctState), Inv s → s.steps ≤ s.maxSteps → NoExec cs →
    runCalls s cs = some s' →
    Inv s' ∧ s'.maxIterations = s.maxIterations ∧ s'.maxDepth = s.maxDepth ∧ s'.iterations = s.iterations ∧
    s'.changePoints = s.changePoints ∧
    s'.steps = s.steps + multiCount cs ∧
    s'.maxSteps = max s.maxSteps (s.steps + multiCount cs) ∧
    multiSteps s cs = List.range' s.steps (multiCount cs) := by
  intro cs
  induction cs with
  | nil =>
    intro s s' hI hsm _ h
    simp only [runCalls, Option.some.injEq] at h; subst h
    simp [multiCount, multiSteps, hI]; omega
  | cons c cs ih =>
    intro s s' hI hsm hne h
    simp only [runCalls] at h
    cases ha : applyCall s c with
    | none => simp [ha] at h
    | some s1 =>
      simp only [ha] at h
      have hc : c.isExec = false := hne c (by simp)
      obtain ⟨a0, a1, a2, a3, a4, a5, a6⟩ := applyCall_noExec hI hc ha
      have hsm1 : s1.steps ≤ s1.maxSteps := by rw [a5, a6]; split <;> omega
      obtain ⟨b0, b1, b2, b3, b4, b5, b6, b7⟩ := ih s1 s' a0 hsm1 (fun c' hc' => hne c' (by simp [hc'])) h
      refine ⟨b0, by omega, by omega, by omega, by rw [b4, a4], ?_, ?_, ?_⟩
      · rw [b5, a5, multiCount_cons]; split <;> omega
      · rw [b6, a6, a5, multiCount_cons]; split <;> omega
      · simp only [multiSteps, ha]
        rw [b7, a5, multiCount_cons]
        split
        · rw [Nat.add_comm 1, List.range'_succ]
        · simp

end ShuttleProofs.Pct

namespace ShuttleProofs.Pct
open ShuttleModel ShuttleModel.Pct

theorem foldl_max_ge (l : List Nat) (a : Nat) : a ≤ l.foldl max a := (foldl_max_spec l a).2.1

/-- Whole executions: `iterations` counts them, `max_steps` is the maximum of the per-execution numbers of
    multi-choice decisions (and of its initial value). -/
theorem runExecs_spec : ∀ (es : List (List Call)) (s s' : PctState), Inv s → s.iterations ≤ s.maxIterations →
    (∀ e ∈ es, NoExec e) → runExecs s es = some s' →
    Inv s' ∧ s'.maxIterations = s.maxIterations ∧ s'.maxDepth = s.maxDepth ∧
    s'.iterations = s.iterations + es.length ∧ s'.iterations ≤ s'.maxIterations ∧
    s'.maxSteps = (es.map multiCount).foldl max s.maxSteps := by
  intro es
  induction es with
  | nil =>
    intro s s' hI hit _ h
    simp only [runExecs, Option.some.injEq] at h; subst h
    exact ⟨hI, rfl, rfl, rfl, hit, rfl⟩
  | cons e es ih =>
    intro s s' hI hit hne h
    simp only [runExecs, runCalls] at h
    cases ha : applyCall s .exec with
    | none => simp [ha] at h
    | some s1 =>
      simp only [ha] at h
      obtain ⟨seed, hex⟩ := applyCall_exec ha
      obtain ⟨c0, c1, c2, c3, c4, c5, _, _, _⟩ := newExecution_some hI hex
      have hI1 := inv_newExecution hI hex
      cases hr : runCalls s1 e with
      | none => simp [hr] at h
      | some s2 =>
        simp only [hr] at h
        obtain ⟨b0, b1, b2, b3, _, _, b6, _⟩ := runCalls_noExec e s1 s2 hI1 (by omega) (hne e (by simp)) hr
        obtain ⟨d0, d1, d2, d3, d4, d5⟩ := ih s2 s' b0 (by omega) (fun e' he' => hne e' (by simp [he'])) h
        refine ⟨d0, by omega, by omega, by simp; omega, d4, ?_⟩
        rw [d5, b6, c4, c5]; simp

end ShuttleProofs.Pct
