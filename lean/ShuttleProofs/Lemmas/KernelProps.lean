import ShuttleProofs.Lemmas.KernelFinal
/-!
# Kernel lemmas, part 8: determinism of an iteration given what `schedule()` sees, and log-level invariants
-/

namespace ShuttleProofs.Kernel
open ShuttleModel

variable {P : Program} {σ : Type}

/-! ### contradictions between the branches of `schedule()` -/

theorem BoundOK.not_failAfter {k : Kernel} (h : BoundOK k) {n : Nat} (hm : k.maxSteps = .failAfter n)
    (he : k.stepBoundExceeded n = true) : False := by
  unfold BoundOK at h; rw [hm] at h; simp only at h; rw [h] at he; cases he

theorem BoundOK.not_continueAfter {k : Kernel} (h : BoundOK k) {n : Nat} (hm : k.maxSteps = .continueAfter n)
    (he : k.stepBoundExceeded n = true) : False := by
  unfold BoundOK at h; rw [hm] at h; simp only at h; rw [h] at he; cases he

theorem Consults.not_ends {k : Kernel} (h : Consults k) (he : endsHere k = true) : False := by
  rw [h.goOn] at he; cases he

/-! ### an iteration is determined by what `schedule()` sees -/

section determinism
variable (S : Scheduler σ) (segFuel : Nat) {st : ExecState P σ}
  (hn : st.k.next = .none) (hc : st.conts.length = st.k.tasks.length)
include hn hc

theorem loopStep_boundFail {n : Nat} (hm : st.k.maxSteps = .failAfter n) (he : st.k.stepBoundExceeded n = true) :
    loopStep S segFuel st = .inl ⟨.stepBoundFail n, { st with k := bump st.k }⟩ := by
  have h := loopStep_spec S segFuel st hn hc
  generalize loopStep S segFuel st = x at h ⊢
  cases h with
  | boundFail n' h1 h2 => rw [hm] at h1; cases h1; rfl
  | boundStop n' h1 h2 => rw [hm] at h1; cases h1
  | deadlock h1 h2 h3 => exact (h1.not_failAfter hm he).elim
  | ok h1 h2 h3 => exact (h1.not_failAfter hm he).elim
  | schedPanic msg s' h1 h2 => exact (h1.bound.not_failAfter hm he).elim
  | choseBad t msg s' h1 h2 h3 => exact (h1.bound.not_failAfter hm he).elim
  | choseNone s' h1 h2 => exact (h1.bound.not_failAfter hm he).elim
  | chose t s' p h1 h2 h3 h4 => exact (h1.bound.not_failAfter hm he).elim

theorem loopStep_boundStop {n : Nat} (hm : st.k.maxSteps = .continueAfter n)
    (he : st.k.stepBoundExceeded n = true) :
    loopStep S segFuel st = .inl ⟨.abandoned, { st with k := endedK (bump st.k) .stopped }⟩ := by
  have h := loopStep_spec S segFuel st hn hc
  generalize loopStep S segFuel st = x at h ⊢
  cases h with
  | boundFail n' h1 h2 => rw [hm] at h1; cases h1
  | boundStop n' h1 h2 => rfl
  | deadlock h1 h2 h3 => exact (h1.not_continueAfter hm he).elim
  | ok h1 h2 h3 => exact (h1.not_continueAfter hm he).elim
  | schedPanic msg s' h1 h2 => exact (h1.bound.not_continueAfter hm he).elim
  | choseBad t msg s' h1 h2 h3 => exact (h1.bound.not_continueAfter hm he).elim
  | choseNone s' h1 h2 => exact (h1.bound.not_continueAfter hm he).elim
  | chose t s' p h1 h2 h3 h4 => exact (h1.bound.not_continueAfter hm he).elim

/-- `schedule()` decides the execution is over: deadlock iff some attached task is unfinished -/
theorem loopStep_ends (hb : BoundOK st.k) (he : endsHere st.k = true) :
    loopStep S segFuel st =
      .inl ⟨if st.k.unfinishedAttached then .deadlock st.k.deadlockList else .ok,
            { st with k := endedK (bump st.k) .finished }⟩ := by
  have h := loopStep_spec S segFuel st hn hc
  generalize loopStep S segFuel st = x at h ⊢
  cases h with
  | boundFail n' h1 h2 => exact (hb.not_failAfter h1 h2).elim
  | boundStop n' h1 h2 => exact (hb.not_continueAfter h1 h2).elim
  | deadlock h1 h2 h3 => rw [h3]; rfl
  | ok h1 h2 h3 => rw [h3]; rfl
  | schedPanic msg s' h1 h2 => exact (h1.not_ends he).elim
  | choseBad t msg s' h1 h2 h3 => exact (h1.not_ends he).elim
  | choseNone s' h1 h2 => exact (h1.not_ends he).elim
  | chose t s' p h1 h2 h3 h4 => exact (h1.not_ends he).elim

theorem loopStep_choseNone (hcons : Consults st.k) {s' : σ} (hask : ask S st.k st.sch = (.choose none, s')) :
    loopStep S segFuel st =
      .inl ⟨.stopped, { st with k := endedK (atConsult st.k) .stopped, sch := s',
                                 log := st.log.push (decEv st.k none) }⟩ := by
  have h := loopStep_spec S segFuel st hn hc
  generalize loopStep S segFuel st = x at h ⊢
  cases h with
  | boundFail n' h1 h2 => exact (hcons.bound.not_failAfter h1 h2).elim
  | boundStop n' h1 h2 => exact (hcons.bound.not_continueAfter h1 h2).elim
  | deadlock h1 h2 h3 => exact (hcons.not_ends h2).elim
  | ok h1 h2 h3 => exact (hcons.not_ends h2).elim
  | schedPanic msg s'' h1 h2 => rw [hask] at h2; cases h2
  | choseBad t msg s'' h1 h2 h3 => rw [hask] at h2; cases h2
  | choseNone s'' h1 h2 => rw [hask] at h2; cases h2; rfl
  | chose t s'' p h1 h2 h3 h4 => rw [hask] at h2; cases h2

theorem loopStep_chose (hcons : Consults st.k) {t : Nat} {s' : σ}
    (hask : ask S st.k st.sch = (.choose (some t), s')) (hmem : t ∈ st.k.offered) :
    ∃ p, st.conts[t]? = some p ∧
      loopStep S segFuel st = finishSeg t (runSegment S t segFuel (segStart st t s') p) := by
  have h := loopStep_spec S segFuel st hn hc
  generalize loopStep S segFuel st = x at h ⊢
  cases h with
  | boundFail n' h1 h2 => exact (hcons.bound.not_failAfter h1 h2).elim
  | boundStop n' h1 h2 => exact (hcons.bound.not_continueAfter h1 h2).elim
  | deadlock h1 h2 h3 => exact (hcons.not_ends h2).elim
  | ok h1 h2 h3 => exact (hcons.not_ends h2).elim
  | schedPanic msg s'' h1 h2 => rw [hask] at h2; cases h2
  | choseBad t' msg s'' h1 h2 h3 => rw [hask] at h2; cases h2; exact (h3 hmem).elim
  | choseNone s'' h1 h2 => rw [hask] at h2; cases h2
  | chose t' s'' p h1 h2 h3 h4 => rw [hask] at h2; cases h2; exact ⟨p, h4, rfl⟩

/-- a scheduler that answers with a task it was not offered makes the run fail with a scheduler panic -/
theorem loopStep_choseBad (hcons : Consults st.k) {t : Nat} {s' : σ}
    (hask : ask S st.k st.sch = (.choose (some t), s')) (hmem : t ∉ st.k.offered) :
    ∃ msg, loopStep S segFuel st = .inl ⟨.schedPanic msg, { st with k := atConsult st.k, sch := s' }⟩ := by
  have h := loopStep_spec S segFuel st hn hc
  generalize loopStep S segFuel st = x at h ⊢
  cases h with
  | boundFail n' h1 h2 => exact (hcons.bound.not_failAfter h1 h2).elim
  | boundStop n' h1 h2 => exact (hcons.bound.not_continueAfter h1 h2).elim
  | deadlock h1 h2 h3 => exact (hcons.not_ends h2).elim
  | ok h1 h2 h3 => exact (hcons.not_ends h2).elim
  | schedPanic msg s'' h1 h2 => rw [hask] at h2; cases h2
  | choseBad t' msg s'' h1 h2 h3 => rw [hask] at h2; cases h2; exact ⟨msg, rfl⟩
  | choseNone s'' h1 h2 => rw [hask] at h2; cases h2
  | chose t' s'' p h1 h2 h3 h4 => rw [hask] at h2; cases h2; exact (hmem h3).elim

end determinism

/-- a terminal iteration is one of the `FinalSpec` cases -/
theorem loopStep_inl_final {S : Scheduler σ} {segFuel : Nat} {ms : MaxSteps} {st : ExecState P σ}
    {r : Result P σ} (hi : LoopInv ms st) (h : loopStep S segFuel st = .inl r) : FinalSpec S segFuel st r :=
  (loopStep_spec S segFuel st hi.next hi.conts).final h

/-- with an unfinished attached task, `schedule()` declares the execution over iff no task is runnable -/
theorem endsHere_of_unfinishedAttached {k : Kernel} (hu : k.unfinishedAttached = true) :
    endsHere k = true ↔ k.anyRunnable = false := by
  unfold endsHere
  rw [hu]
  cases k.anyRunnable <;> simp

/-- without one, iff all runnable tasks are detached -/
theorem endsHere_of_not_unfinishedAttached {k : Kernel} (hu : k.unfinishedAttached = false) :
    endsHere k = true ↔ (k.anyRunnable = false ∨ k.allRunnableDetached = true) := by
  unfold endsHere
  rw [hu]
  cases k.anyRunnable <;> cases k.allRunnableDetached <;> simp

/-! ### facts available at a `Decision` -/

theorem Decision.inv {S : Scheduler σ} {segFuel : Nat} {ms : MaxSteps} {st0 st : ExecState P σ} {ev : Ev}
    (h : Decision S segFuel st0 st ev) (h0 : LoopInv ms st0) : LoopInv ms st := h0.reach h.reach

theorem Decision.fields {S : Scheduler σ} {segFuel : Nat} {st0 st : ExecState P σ}
    {off : List Nat} {cur : Option Nat} {y : Bool} {ch : Option Nat}
    (h : Decision S segFuel st0 st (.dec off cur y ch)) :
    off = st.k.offered ∧ cur = st.k.current.id ∧ y = st.k.hasYielded ∧
      ∃ s', ask S st.k st.sch = (.choose ch, s') ∧ ∀ t, ch = some t → t ∈ st.k.offered := by
  obtain ⟨ch', s', ha, hm, he⟩ := h.answer
  simp only [decEv, Ev.dec.injEq] at he
  obtain ⟨rfl, rfl, rfl, rfl⟩ := he
  exact ⟨rfl, rfl, rfl, s', ha, hm⟩

theorem Consults.anyRunnable {k : Kernel} (h : Consults k) : k.anyRunnable = true := by
  have := h.goOn
  unfold endsHere at this
  cases hr : k.anyRunnable
  · rw [hr] at this; simp at this
  · rfl

theorem Consults.progress {k : Kernel} (h : Consults k) :
    k.unfinishedAttached = true ∨ k.allRunnableDetached = false := by
  have := h.goOn
  unfold endsHere at this
  cases hu : k.unfinishedAttached
  · cases ha : k.allRunnableDetached
    · exact Or.inr rfl
    · rw [hu, ha] at this; simp at this
  · exact Or.inl rfl

/-! ### `current` chains through the log -/

/-- every `dec` event's `cur` field is the answer of the previous `dec` event (`none` for the first) -/
def CurChain (l : List Ev) : Prop :=
  ∀ i off cur y ch, l[i]? = some (.dec off cur y ch) → cur = lastChoice (l.take i)

theorem CurChain.nil : CurChain [] := by
  intro i off cur y ch h; simp at h

theorem CurChain.append_nodec {l evs : List Ev} (h : CurChain l) (hnd : ∀ ev ∈ evs, isDec ev = false) :
    CurChain (l ++ evs) := by
  intro i off cur y ch hi
  by_cases hlt : i < l.length
  · rw [List.getElem?_append_left hlt] at hi
    rw [List.take_append_of_le_length (Nat.le_of_lt hlt)]
    exact h i off cur y ch hi
  · rw [List.getElem?_append_right (Nat.le_of_not_lt hlt)] at hi
    have := hnd _ (List.mem_of_getElem? hi)
    simp [isDec] at this

theorem CurChain.snoc_dec {l : List Ev} (h : CurChain l) (off : List Nat) (y : Bool) (ch : Option Nat) :
    CurChain (l ++ [.dec off (lastChoice l) y ch]) := by
  intro i off' cur y' ch' hi
  by_cases hlt : i < l.length
  · rw [List.getElem?_append_left hlt] at hi
    rw [List.take_append_of_le_length (Nat.le_of_lt hlt)]
    exact h i off' cur y' ch' hi
  · have hle := Nat.le_of_not_lt hlt
    rw [List.getElem?_append_right hle] at hi
    have hi0 : i - l.length = 0 := by
      cases hd : i - l.length with
      | zero => rfl
      | succ m => rw [hd] at hi; simp at hi
    rw [hi0] at hi
    simp only [List.getElem?_cons_zero, Option.some.injEq, Ev.dec.injEq] at hi
    obtain ⟨_, rfl, _, _⟩ := hi
    have : i = l.length := by omega
    subst this
    simp

theorem curChain_step {S : Scheduler σ} {segFuel : Nat} {ms : MaxSteps} {a b : ExecState P σ}
    (hi : LoopInv ms a) (hch : CurChain a.log.toList) (h : loopStep S segFuel a = .inr b) :
    CurChain b.log.toList := by
  obtain ⟨t, s', _, _, _, _, evs, hlog, hnd, _⟩ := iter_frame hi.next hi.conts h
  rw [hlog]
  apply CurChain.append_nodec _ hnd
  simp only [segStart, Array.toList_push, decEv]
  rw [hi.cur]
  exact hch.snoc_dec _ _ _

theorem curChain_final {S : Scheduler σ} {segFuel : Nat} {ms : MaxSteps} {st : ExecState P σ}
    {r : Result P σ} (hi : LoopInv ms st) (hch : CurChain st.log.toList) (hf : FinalSpec S segFuel st r) :
    CurChain r.st.log.toList := by
  obtain ⟨decs, evs, hlog, hnd, hdec⟩ := hf.log
  rw [hlog]
  apply CurChain.append_nodec _ hnd
  rcases hdec with rfl | ⟨ch, s', rfl, _⟩
  · simpa using hch
  · simp only [decEv]
    rw [hi.cur]
    exact hch.snoc_dec _ _ _

theorem runLoop_curChain (S : Scheduler σ) (segFuel fuel : Nat) (ms : MaxSteps) (st0 : ExecState P σ)
    (h0 : LoopInv ms st0) (hch : CurChain st0.log.toList) :
    CurChain (runLoop S segFuel fuel st0).st.log.toList := by
  obtain ⟨stf, hr, hi, hf⟩ := runLoop_final S segFuel fuel ms st0 h0
  have : LoopInv ms stf ∧ CurChain stf.log.toList :=
    hr.invariant (fun st => LoopInv ms st ∧ CurChain st.log.toList)
      (fun a b ⟨h1, h2⟩ hs => ⟨h1.step hs, curChain_step h1 h2 hs⟩) ⟨h0, hch⟩
  exact curChain_final hi this.2 hf

/-! ### the recorded schedule at the end -/

theorem FinalSpec.record {S : Scheduler σ} {segFuel : Nat} {ms : MaxSteps} {st : ExecState P σ}
    {r : Result P σ} (hf : FinalSpec S segFuel st r) (hi : LoopInv ms st) :
    r.st.k.schedule_ = logSteps r.st.log.toList ∨
      (∃ msg, r.outcome = .schedPanic msg ∧ r.st.k.schedule_ = logSteps r.st.log.toList ++ [.random]) := by
  have hrec := hi.record
  cases hf with
  | loopFuel => exact Or.inl hrec
  | boundFail n h1 h2 => exact Or.inl hrec
  | boundStop n h1 h2 => exact Or.inl hrec
  | deadlock h1 h2 h3 => exact Or.inl hrec
  | ok h1 h2 h3 => exact Or.inl hrec
  | schedPanic msg s' h1 h2 => exact Or.inl hrec
  | choseBad t msg s' h1 h2 h3 => exact Or.inl hrec
  | choseNone s' h1 h2 =>
    left
    show st.k.schedRev.reverse = logSteps (st.log.push (decEv st.k none)).toList
    rw [hrec]
    simp [logSteps, decEv, evSteps]
  | seg t s' p r h1 h2 h3 h4 h5 =>
    obtain ⟨hst, hout, _⟩ := finishSeg_inl h5
    have htr := runSegment_trace S t segFuel (segStart st t s') p
    have hstart : (segStart st t s').k.schedRev.reverse = logSteps (segStart st t s').log.toList := by
      simp only [segStart, chosenK, Array.toList_push, List.reverse_cons, logSteps_append, ← hrec]
      simp [logSteps, decEv, evSteps]
    unfold Kernel.schedule_
    rw [hst]
    rcases htr.log with ⟨evs, a, _, c⟩ | ⟨msg, st', he, evs, a, _, c⟩
    · left
      rw [c, a, logSteps_append, ← hstart]
      simp
    · right
      rw [he] at h5 hst
      simp only [finishSeg, Sum.inl.injEq] at h5
      subst h5
      refine ⟨msg, rfl, ?_⟩
      rw [he]
      show st'.k.schedRev.reverse = logSteps st'.log.toList ++ [SStep.random]
      rw [c, a, logSteps_append, ← hstart]
      simp

end ShuttleProofs.Kernel
