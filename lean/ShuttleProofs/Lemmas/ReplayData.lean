import ShuttleProofs.Lemmas.ReplaySched
import ShuttleProofs.Lemmas.ReplayInv
/-!
# Replay lemmas, part 4: schedulers whose `next_u64` is a `RandomDataSource` re-seeded by `new_execution`
produce `DataFaithful` executions; the round-robin, random and DFS schedulers are such schedulers.
-/

namespace ShuttleProofs.Replay
open ShuttleModel ShuttleModel.Replay ShuttleProofs.Kernel

variable {σ : Type}

/-- `d` produces `vs` and is then in state `d'` -/
def StreamTo (d : Rng.RandomDataSource) : List Nat → Rng.RandomDataSource → Prop
  | [], d' => d' = d
  | v :: vs, d' => d.nextU64.1 = v ∧ StreamTo d.nextU64.2 vs d'

theorem StreamTo.snoc {d d' : Rng.RandomDataSource} {vs : List Nat} (h : StreamTo d vs d') :
    StreamTo d (vs ++ [d'.nextU64.1]) d'.nextU64.2 := by
  induction vs generalizing d with
  | nil => simp only [StreamTo] at h; subst h; exact ⟨rfl, rfl⟩
  | cons v vs ih => exact ⟨h.1, ih h.2⟩

theorem StreamTo.drawsFrom {d d' : Rng.RandomDataSource} {vs : List Nat} (h : StreamTo d vs d') :
    DrawsFrom d vs := by
  induction vs generalizing d with
  | nil => trivial
  | cons v vs ih => exact ⟨h.1, ih h.2⟩

theorem draws_append (l l' : List Ev) : draws (l ++ l') = draws l ++ draws l' := by
  induction l with
  | nil => rfl
  | cons ev l ih => cases ev <;> simp [draws, ih]

/-- the scheduler's random data is a `RandomDataSource` kept in its state (`proj`), untouched by `next_task` -/
structure DataProj (S : Scheduler σ) (proj : σ → Rng.RandomDataSource) : Prop where
  task : ∀ s views cur y ch s1, S.nextTask s views cur y = (.choose ch, s1) → proj s1 = proj s
  draw : ∀ s v s1, S.nextU64 s = (.ok v, s1) → (proj s).nextU64 = (v, proj s1)

theorem dataProj_logInv {S : Scheduler σ} {proj : σ → Rng.RandomDataSource} (h : DataProj S proj)
    (d0 : Rng.RandomDataSource) : LogInv S (fun s l => StreamTo d0 (draws l) (proj s)) where
  dec := by
    intro s l views cur y ch s1 hj hn
    rw [draws_append, h.task _ _ _ _ _ _ hn]
    simpa [draws] using hj
  draw := by
    intro s l v s1 hj hn
    have hd := h.draw _ _ _ hn
    have := hj.snoc
    rw [hd] at this
    rw [draws_append]
    simpa [draws] using this
  obs := by
    intro s l x hj
    rw [draws_append]
    simpa [draws] using hj

/-- every execution of such a scheduler started with its data source freshly re-seeded with `seed` is
`DataFaithful` -/
theorem dataFaithful_of_proj {S : Scheduler σ} {proj : σ → Rng.RandomDataSource} (h : DataProj S proj)
    (P : Program) (ms : MaxSteps) (seed : Nat) (s : σ) (fuel segFuel : Nat) (hs : proj s = seededSource seed)
    (hne : ∀ msg, (execute P S ms seed s fuel segFuel).outcome ≠ .schedPanic msg) :
    DataFaithful seed (execute P S ms seed s fuel segFuel).st.log.toList := by
  have := execute_logInv (dataProj_logInv h (seededSource seed)) P ms seed s fuel segFuel
    (by show StreamTo _ [] _; exact hs) hne
  exact this.drawsFrom

/-- a full scheduler whose `new_execution` returns the seed it has just re-seeded its data source with -/
structure DataFull (F : FullScheduler σ) (proj : σ → Rng.RandomDataSource) : Prop where
  sched : DataProj F.sched proj
  newExec : ∀ s seed s', F.newExec s = .some seed s' → proj s' = seededSource seed

/-- what `builtin_data_faithful` says of one `(seed, result)` pair of a run -/
def ExecFaithful {P : Program} (x : Nat × Result P σ) : Prop :=
  (∀ msg, x.2.outcome ≠ .schedPanic msg) → DataFaithful x.1 x.2.st.log.toList

theorem runner_data_faithful {F : FullScheduler σ} {proj : σ → Rng.RandomDataSource} (hF : DataFull F proj)
    (P : Program) (ms : MaxSteps) (fuel segFuel : Nat) :
    ∀ (iters : Nat) (s : σ) (acc : List (Nat × Result P σ)), (∀ x ∈ acc, ExecFaithful x) →
      ∀ x ∈ (runner P F ms fuel segFuel iters s acc).execs, ExecFaithful x
  | 0, s, acc, hacc => by
    intro x hx
    simp only [runner, List.mem_reverse] at hx
    exact hacc x hx
  | iters + 1, s, acc, hacc => by
    intro x hx
    rw [runner] at hx
    cases hn : F.newExec s with
    | none => rw [hn] at hx; simp only [List.mem_reverse] at hx; exact hacc x hx
    | panic msg => rw [hn] at hx; simp only [List.mem_reverse] at hx; exact hacc x hx
    | some seed s' =>
      rw [hn] at hx
      simp only at hx
      have hnew : ExecFaithful (seed, execute P F.sched ms seed s' fuel segFuel) := fun hne =>
        dataFaithful_of_proj hF.sched P ms seed s' fuel segFuel (hF.newExec _ _ _ hn) hne
      have hacc' : ∀ y ∈ (seed, execute P F.sched ms seed s' fuel segFuel) :: acc, ExecFaithful y := by
        intro y hy
        rcases List.mem_cons.mp hy with rfl | hy
        · exact hnew
        · exact hacc y hy
      split at hx
      · simp only [List.mem_reverse] at hx
        exact hacc' x hx
      · exact runner_data_faithful hF P ms fuel segFuel iters _ _ hacc' x hx

/-! ### the built-in schedulers -/

theorem reinitialize_snd (d : Rng.RandomDataSource) : d.reinitialize.2 = seededSource d.reinitialize.1 := rfl

theorem rr_dataFull : DataFull rrScheduler (fun s => s.data) where
  sched := {
    task := by
      intro s views cur y ch s1 h
      simp only [rrScheduler] at h
      split at h
      · split at h <;> simp only [Prod.mk.injEq] at h <;> first | (rw [← h.2]) | (cases h.1)
      · split at h
        · simp only [Prod.mk.injEq] at h; rw [← h.2]
        · split at h <;> simp only [Prod.mk.injEq] at h <;> first | (rw [← h.2]) | (cases h.1)
    draw := by
      intro s v s1 h
      simp only [rrScheduler, Prod.mk.injEq, Except.ok.injEq] at h
      obtain ⟨h1, h2⟩ := h
      subst h1 h2
      rfl }
  newExec := by
    intro s seed s' h
    simp only [rrScheduler] at h
    split at h
    · simp only [NewExec.some.injEq] at h
      obtain ⟨h1, h2⟩ := h
      subst h1 h2
      exact reinitialize_snd s.data
    · cases h

theorem random_dataFull : DataFull randomScheduler (fun s => s.dataSource) where
  sched := {
    task := by
      intro s views cur y ch s1 h
      simp only [randomScheduler, Rng.RandomScheduler.nextTask] at h
      split at h
      · rename_i t s2 heq
        simp only [Prod.mk.injEq] at h
        rw [← h.2]
        split at heq
        · simp only [Prod.mk.injEq] at heq; rw [← heq.2]
        · simp only [Prod.mk.injEq] at heq; rw [← heq.2]
      · simp only [Prod.mk.injEq] at h; cases h.1
    draw := by
      intro s v s1 h
      simp only [randomScheduler, Rng.RandomScheduler.nextU64, Prod.mk.injEq, Except.ok.injEq] at h
      obtain ⟨h1, h2⟩ := h
      subst h1 h2
      rfl }
  newExec := by
    intro s seed s' h
    simp only [randomScheduler, Rng.RandomScheduler.newExecution] at h
    split at h
    · rename_i sd s2 heq
      simp only [NewExec.some.injEq] at h
      obtain ⟨h1, h2⟩ := h
      subst h1 h2
      split at heq
      · cases heq
      · simp only [Option.some.injEq, Prod.mk.injEq] at heq
        obtain ⟨h1, h2⟩ := heq
        subst h1 h2
        exact reinitialize_snd s.dataSource
    · cases h

theorem dfs_dataFull : DataFull dfsScheduler (fun s => s.data.dataSource) where
  sched := {
    task := by
      intro s views cur y ch s1 h
      simp only [dfsScheduler] at h
      split at h
      · simp only [Prod.mk.injEq] at h; rw [← h.2]
      · simp only [Prod.mk.injEq] at h; cases h.1
    draw := by
      intro s v s1 h
      simp only [dfsScheduler] at h
      split at h
      · simp only [Prod.mk.injEq] at h; cases h.1
      · simp only [Rng.FixedDataSource.nextU64, Prod.mk.injEq, Except.ok.injEq] at h
        obtain ⟨h1, h2⟩ := h
        subst h1 h2
        rfl }
  newExec := by
    intro s seed s' h
    simp only [dfsScheduler] at h
    split at h
    · simp only [NewExec.some.injEq] at h
      obtain ⟨h1, h2⟩ := h
      subst h1 h2
      rfl
    · cases h

/-- the round-robin scheduler always answers with an offered task and never panics in `next_u64` -/
theorem rr_wellBehaved : WellBehaved rrScheduler.sched where
  task := by
    intro s views cur y hne
    obtain ⟨v, vs, rfl⟩ := List.exists_cons_of_ne_nil hne
    simp only [rrScheduler, List.map_cons, List.head?_cons]
    cases cur with
    | none => exact ⟨_, _, rfl, fun t ht => by cases ht; simp⟩
    | some c =>
      simp only
      split
      · rename_i t hf
        refine ⟨_, _, rfl, fun t' ht' => ?_⟩
        cases ht'
        exact List.mem_of_find?_eq_some hf
      · exact ⟨_, _, rfl, fun t ht => by cases ht; simp⟩
  draw := fun s => ⟨_, _, rfl⟩

end ShuttleProofs.Replay
