import ShuttleProofs.Lemmas.SemEffs
/-
  Per-step facts used by the C18 theorems: how the queue evolves, how `avail` changes when an
  acquisition completes, `try_acquire` vs. a first poll, cancellation, and the closed semaphore.
-/
namespace ShuttleModel
namespace SemLts
open Sem (PollOut)

/-! ### the queue only grows at the back -/

/-- `q'` is obtained from `q` by deleting entries and appending at most one new id at the back:
relative order of the survivors is kept (FIFO), nobody is inserted in front of a queued waiter -/
def QueueEvolves (q q' : List Nat) : Prop :=
  ∃ back, back.length ≤ 1 ∧ q'.Sublist (q ++ back) ∧ ∀ x ∈ back, x ∉ q

theorem QueueEvolves.refl (q : List Nat) : QueueEvolves q q :=
  ⟨[], by simp, by simp, by simp⟩

theorem QueueEvolves.of_sublist {q q' : List Nat} (h : q'.Sublist q) : QueueEvolves q q' :=
  ⟨[], by simp, by simpa using h, by simp⟩

theorem pollPure_queue {s : SemState} {wid me cx : Nat} {clk : Clock} {fin : Nat → Bool}
    {w0 : Waiter} {o : PollOut} (hi : Inv s) (hw : s.getW wid = some w0)
    (h : s.pollPure wid me cx clk fin = .ok o) : QueueEvolves s.queue o.s.queue := by
  have hwid : w0.wid = wid := (tget_some_mem hw).2
  cases pollPure_cases hw h with
  | granted hp hq ho => subst ho; exact .refl _
  | closed hp hc hq ho => subst ho; exact .refl _
  | acquiredFresh hp hc hq s' pc hacq ho =>
    subst ho
    obtain ⟨_, _, _, hqq, _⟩ := acquirePermits_inv hi hacq
    simp only [setW_queue, hqq]; exact .refl _
  | acquiredQueued hp hc hq hf hwk s' s3 pc effs w4 hacq hrm hw4 ho =>
    subst ho
    obtain ⟨i1, hav, ht, hqq, _⟩ := acquirePermits_inv hi hacq
    have hw1 : s'.getW (polled w0).wid = some w0 := by rw [getW_eq, ht, polled_wid, hwid]; exact hw
    have hq0 := hi.tq.queuedOk w0 (tget_some_mem hw).1 hq
    obtain ⟨i2, _⟩ := i1.setW_same (w1 := polled w0) hw1 rfl rfl
      (by intro _; exact ⟨hp, by simpa using hq0.2.1, hwk, hq0.2.2.2⟩) rfl rfl
    obtain ⟨w, _, _, rs⟩ := removeWaiterPure_spec fin i2 hrm
    have := rs.queueSub
    simp only [setW_queue, hqq] at this ⊢
    exact .of_sublist this
  | enqueued hp hc hq hwk hacq ho =>
    subst ho
    refine ⟨[wid], by simp, by simp [SemState.setW], ?_⟩
    intro x hx hin
    simp only [List.mem_singleton] at hx
    subst hx
    have := (hi.tq.queued_of_tget (by rw [← getW_eq]; exact hw)).mpr hin
    rw [hq] at this; cases this
  | stillQueued hp hc hq hf hwk hacq ho => subst ho; exact .refl _
  | fairWait hp hc hq hf hwk ho => subst ho; exact .refl _

theorem releasePure_queue (fin : Nat → Bool) (s : SemState) (n : Nat) (c : Clock) :
    ∃ pre, s.queue = pre ++ (s.releasePure fin n c).1.queue := by
  unfold SemState.releasePure
  by_cases hf : (s.paRelease n c).fair = true
  · simp only [hf, if_true]
    exact (unblockFront_spec fin (s.paRelease n c).queue (s.paRelease n c)).suffix
  · simp only [hf, Bool.false_eq_true, if_false]
    exact ⟨[], rfl⟩

theorem step_queue (fin : Nat → Bool) {s : SemState} {op : SemOp} {o : StepOut} (hi : Inv s)
    (h : step fin s op = .ok o) : QueueEvolves s.queue o.s.queue := by
  cases op with
  | tryAcquire task n clk =>
    simp only [step] at h
    cases hacq : s.acquirePermits n clk with
    | error msg => rw [hacq] at h; cases h
    | ok r =>
      rw [hacq] at h
      cases r with
      | ok p =>
        obtain ⟨s', pc⟩ := p
        simp only [Except.ok.injEq] at h
        subst h
        obtain ⟨_, _, _, hq, _⟩ := acquirePermits_inv hi hacq
        simp only [hq]; exact .refl _
      | error e =>
        simp only [Except.ok.injEq] at h
        subst h; exact .refl _
  | newAcq task n clk =>
    simp only [step, Except.ok.injEq] at h
    subst h; exact .refl _
  | poll wid me cx clk =>
    simp only [step] at h
    cases hw : s.getW wid with
    | none => rw [hw] at h; cases h
    | some w0 =>
      rw [hw] at h
      simp only at h
      by_cases hc : w0.completed = true
      · rw [if_pos hc] at h; cases h
      · rw [if_neg hc] at h
        cases hpp : s.pollPure wid me cx clk fin with
        | error msg => rw [hpp] at h; cases h
        | ok po =>
          rw [hpp] at h
          simp only [Except.ok.injEq] at h
          subst h
          exact pollPure_queue hi hw hpp
  | dropAcquire task wid =>
    simp only [step] at h
    cases hw : s.getW wid with
    | none =>
      rw [hw] at h
      simp only [Except.ok.injEq] at h
      subst h; exact .refl _
    | some w =>
      rw [hw] at h
      simp only at h
      by_cases hq : w.isQueued = true
      · rw [if_pos hq] at h
        cases hrm : s.removeWaiterPure fin wid with
        | error msg => rw [hrm] at h; cases h
        | ok r =>
          obtain ⟨s', effs⟩ := r
          rw [hrm] at h
          simp only [Except.ok.injEq] at h
          subst h
          obtain ⟨w', _, _, rs⟩ := removeWaiterPure_spec fin hi hrm
          exact .of_sublist rs.queueSub
      · rw [if_neg hq] at h
        by_cases hg : (w.hasPermits && !w.completed) = true
        · rw [if_pos hg] at h
          simp only [Except.ok.injEq] at h
          subst h; exact .refl _
        · rw [if_neg hg] at h
          simp only [Except.ok.injEq] at h
          subst h; exact .refl _
  | release task n clk =>
    simp only [step] at h
    by_cases hn : n = 0
    · rw [if_pos hn] at h
      simp only [Except.ok.injEq] at h
      subst h; exact .refl _
    · rw [if_neg hn] at h
      simp only [Except.ok.injEq] at h
      subst h
      obtain ⟨pre, hp⟩ := releasePure_queue fin s n clk
      refine .of_sublist ?_
      simp only
      rw [hp]; exact List.sublist_append_right _ _
  | close =>
    simp only [step, Except.ok.injEq] at h
    subst h
    obtain ⟨_, _, _, _, hq⟩ := closePure_spec fin hi
    simp only [hq]
    exact .of_sublist (List.nil_sublist _)
  | poisonRelease task n =>
    simp only [step] at h
    by_cases hn : n = 0
    · rw [if_pos hn] at h
      simp only [Except.ok.injEq] at h
      subst h; exact .refl _
    · rw [if_neg hn] at h
      simp only [Except.ok.injEq] at h
      subst h
      obtain ⟨_, _, _, hq⟩ := releasePoison_spec n hi
      simp only [hq]
      exact .of_sublist (List.nil_sublist _)

/-! ### how a poll changes `avail` and what it records -/

structure PollFacts (s : SemState) (wid me cx : Nat) (w0 : Waiter) (o : PollOut) : Prop where
  /-- `Ready(Ok)`: either the permits had been granted before (then `avail` is untouched), or the
  poll takes exactly `w0.n` permits now — which needs an open semaphore and, if fair, an empty queue -/
  readyOk : o.res = .ready true →
    (w0.hasPermits = true ∧ o.s.avail = s.avail) ∨
    (w0.hasPermits = false ∧ o.s.avail + w0.n = s.avail ∧ s.closed = false ∧ 0 < w0.n ∧
      (s.fair = true → s.queue = []))
  /-- any other result leaves `avail` alone -/
  otherwise : o.res ≠ .ready true → o.s.avail = s.avail
  /-- `Ready(Err)` exactly when closed and no permits were granted before -/
  readyErr : o.res = .ready false ↔ (w0.hasPermits = false ∧ s.closed = true)
  /-- `Pending`: the waiter is queued and points at the current poller and its waker -/
  pending : o.res = .pending →
    ∃ w', o.s.getW wid = some w' ∧ w'.isQueued = true ∧ w'.taskId = me ∧ w'.waker = some cx ∧
      w'.n = w0.n ∧ w'.hasPermits = false ∧ wid ∈ o.s.queue
  /-- a finished poll leaves a completed, unqueued waiter -/
  ready : ∀ b, o.res = .ready b →
    ∃ w', o.s.getW wid = some w' ∧ w'.isQueued = false ∧ w'.completed = true ∧ wid ∉ o.s.queue

theorem getW_setW_of {s : SemState} {w0 w1 : Waiter} {wid : Nat} (hw : s.getW wid = some w0)
    (hwid : w1.wid = wid) : (s.setW w1).getW wid = some w1 := by
  have := getW_setW_self (s := s) (w0 := w0) (w1 := w1) (by rw [hwid]; exact hw)
  rwa [hwid] at this

theorem pollPure_facts {s : SemState} {wid me cx : Nat} {clk : Clock} {fin : Nat → Bool}
    {w0 : Waiter} {o : PollOut} (hi : Inv s) (hw : s.getW wid = some w0)
    (hnc : w0.completed = false) (h : s.pollPure wid me cx clk fin = .ok o) :
    PollFacts s wid me cx w0 o := by
  have hwid : w0.wid = wid := (tget_some_mem hw).2
  have hnotq : w0.isQueued = false → wid ∉ s.queue := by
    intro hq hin
    have := (hi.tq.queued_of_tget (by rw [← getW_eq]; exact hw)).mpr hin
    rw [hq] at this; cases this
  cases pollPure_cases hw h with
  | granted hp hq ho =>
    subst ho
    refine ⟨fun _ => Or.inl ⟨hp, rfl⟩, fun h => absurd rfl h, ?_, (fun h => by cases h), ?_⟩
    · simp [hp]
    · intro b _
      exact ⟨finishedW w0, getW_setW_of hw hwid, hq, rfl, hnotq hq⟩
  | closed hp hc hq ho =>
    subst ho
    refine ⟨(fun h => by simp at h), fun _ => rfl, ?_, (fun h => by cases h), ?_⟩
    · simp [hp, hc]
    · intro b _
      exact ⟨finishedW w0, getW_setW_of hw hwid, hq, rfl, hnotq hq⟩
  | acquiredFresh hp hc hq s' pc hacq ho =>
    subst ho
    obtain ⟨i1, hav, ht, hqq, _⟩ := acquirePermits_inv hi hacq
    obtain ⟨hn0, _, hqe, _⟩ := acquirePermits_ok hacq
    have hw1 : s'.getW wid = some w0 := by rw [getW_eq, ht]; exact hw
    refine ⟨fun _ => Or.inr ⟨hp, by simpa using hav, hc, hn0, ?_⟩, fun h => absurd rfl h, ?_,
      (fun h => by cases h), ?_⟩
    · intro hf; rcases hqe with h | h
      · exact h
      · rw [hf] at h; cases h
    · simp [hc]
    · intro b _
      refine ⟨gotW (polled w0), ?_, hq, rfl, ?_⟩
      · exact getW_setW_of (w0 := polled w0) (getW_setW_of hw1 hwid) hwid
      · simp only [setW_queue, hqq]; exact hnotq hq
  | acquiredQueued hp hc hq hf hwk s' s3 pc effs w4 hacq hrm hw4 ho =>
    subst ho
    obtain ⟨i1, hav, ht, hqq, _, hff, _⟩ := acquirePermits_inv hi hacq
    obtain ⟨hn0, _, _, _⟩ := acquirePermits_ok hacq
    have hw1 : s'.getW (polled w0).wid = some w0 := by rw [getW_eq, ht, polled_wid, hwid]; exact hw
    have hq0 := hi.tq.queuedOk w0 (tget_some_mem hw).1 hq
    obtain ⟨i2, _⟩ := i1.setW_same (w1 := polled w0) hw1 rfl rfl
      (by intro _; exact ⟨hp, hnc, hwk, hq0.2.2.2⟩) rfl rfl
    obtain ⟨w, _, _, rs⟩ := removeWaiterPure_spec fin i2 hrm
    have hun := rs.unfair (by simp only [setW_fair, hff]; exact hf)
    refine ⟨fun _ => Or.inr ⟨hp, ?_, hc, hn0, (fun h => by rw [hf] at h; cases h)⟩,
      fun h => absurd rfl h, ?_, (fun h => by cases h), ?_⟩
    · simp only [setW_avail] at hun ⊢; omega
    · simp [hc]
    · intro b _
      exact ⟨gotW w4, getW_setW_of hw4 (by simp [(tget_some_mem hw4).2]),
        by simp [(show w4.isQueued = false from by
          have := rs.getW; rw [hw4] at this; cases this; rfl)], rfl, rs.notQueued⟩
  | enqueued hp hc hq hwk hacq ho =>
    subst ho
    refine ⟨(fun h => by cases h), fun _ => rfl, by simp [hc], ?_, (fun b h => by cases h)⟩
    intro _
    refine ⟨enqW w0 me cx, ?_, rfl, rfl, rfl, rfl, hp, by simp [SemState.setW]⟩
    exact getW_setW_of (s := { s with queue := s.queue ++ [wid] }) hw hwid
  | stillQueued hp hc hq hf hwk hacq ho =>
    subst ho
    refine ⟨(fun h => by cases h), fun _ => rfl, by simp [hc], ?_, (fun b h => by cases h)⟩
    intro _
    exact ⟨waitW w0 me cx, getW_setW_of hw hwid, hq, rfl, rfl, rfl, hp,
      (hi.tq.queued_of_tget (by rw [← getW_eq]; exact hw)).mp hq⟩
  | fairWait hp hc hq hf hwk ho =>
    subst ho
    refine ⟨(fun h => by cases h), fun _ => rfl, by simp [hc], ?_, (fun b h => by cases h)⟩
    intro _
    exact ⟨waitW w0 me cx, getW_setW_of hw hwid, hq, rfl, rfl, rfl, hp,
      (hi.tq.queued_of_tget (by rw [← getW_eq]; exact hw)).mp hq⟩

end SemLts
end ShuttleModel
