import ShuttleProofs.Lemmas.KernelInv
/-!
# Kernel lemmas, part 7: how an execution ends (`FinalSpec`), decisions, and facts about the final log
-/

namespace ShuttleProofs.Kernel
open ShuttleModel

variable {P : Program} {σ : Type}

/-- All the ways a run of the loop can produce its result `r` at loop head `st`. -/
inductive FinalSpec (S : Scheduler σ) (segFuel : Nat) (st : ExecState P σ) : Result P σ → Prop
  /-- the model's loop fuel ran out at this loop head -/
  | loopFuel : FinalSpec S segFuel st ⟨.outOfFuel, st⟩
  | boundFail (n : Nat) : st.k.maxSteps = .failAfter n → st.k.stepBoundExceeded n = true →
      FinalSpec S segFuel st ⟨.stepBoundFail n, { st with k := bump st.k }⟩
  | boundStop (n : Nat) : st.k.maxSteps = .continueAfter n → st.k.stepBoundExceeded n = true →
      FinalSpec S segFuel st ⟨.abandoned, { st with k := endedK (bump st.k) .stopped }⟩
  | deadlock : BoundOK st.k → endsHere st.k = true → st.k.unfinishedAttached = true →
      FinalSpec S segFuel st ⟨.deadlock st.k.deadlockList, { st with k := endedK (bump st.k) .finished }⟩
  | ok : BoundOK st.k → endsHere st.k = true → st.k.unfinishedAttached = false →
      FinalSpec S segFuel st ⟨.ok, { st with k := endedK (bump st.k) .finished }⟩
  | schedPanic (msg : String) (s' : σ) : Consults st.k → ask S st.k st.sch = (.panic msg, s') →
      FinalSpec S segFuel st ⟨.schedPanic msg, { st with k := atConsult st.k, sch := s' }⟩
  | choseBad (t : Nat) (msg : String) (s' : σ) : Consults st.k →
      ask S st.k st.sch = (.choose (some t), s') → t ∉ st.k.offered →
      FinalSpec S segFuel st ⟨.schedPanic msg, { st with k := atConsult st.k, sch := s' }⟩
  | choseNone (s' : σ) : Consults st.k → ask S st.k st.sch = (.choose none, s') →
      FinalSpec S segFuel st
        ⟨.stopped, { st with k := endedK (atConsult st.k) .stopped, sch := s',
                              log := st.log.push (decEv st.k none) }⟩
  /-- the chosen task's segment ended the execution (panic, double panic, scheduler panic in `next_u64`,
  segment fuel) -/
  | seg (t : Nat) (s' : σ) (p : Prog P.U Unit) (r : Result P σ) : Consults st.k →
      ask S st.k st.sch = (.choose (some t), s') → t ∈ st.k.offered → st.conts[t]? = some p →
      finishSeg t (runSegment S t segFuel (segStart st t s') p) = .inl r → FinalSpec S segFuel st r

theorem IterSpec.final {S : Scheduler σ} {segFuel : Nat} {st : ExecState P σ} {r : Result P σ}
    {x : Result P σ ⊕ ExecState P σ} (h : IterSpec S segFuel st x) (hx : x = .inl r) :
    FinalSpec S segFuel st r := by
  cases h with
  | boundFail n h1 h2 => cases hx; exact .boundFail n h1 h2
  | boundStop n h1 h2 => cases hx; exact .boundStop n h1 h2
  | deadlock h1 h2 h3 => cases hx; exact .deadlock h1 h2 h3
  | ok h1 h2 h3 => cases hx; exact .ok h1 h2 h3
  | schedPanic msg s' h1 h2 => cases hx; exact .schedPanic msg s' h1 h2
  | choseBad t msg s' h1 h2 h3 => cases hx; exact .choseBad t msg s' h1 h2 h3
  | choseNone s' h1 h2 => cases hx; exact .choseNone s' h1 h2
  | chose t s' p h1 h2 h3 h4 => exact .seg t s' p r h1 h2 h3 h4 hx

/-- **How every run ends.** -/
theorem runLoop_final (S : Scheduler σ) (segFuel fuel : Nat) (ms : MaxSteps) (st0 : ExecState P σ)
    (h0 : LoopInv ms st0) :
    ∃ stf, Reach S segFuel st0 stf ∧ LoopInv ms stf ∧ FinalSpec S segFuel stf (runLoop S segFuel fuel st0) := by
  obtain ⟨n, stf, hr, hc⟩ := runLoop_reach S segFuel fuel st0
  have hi : LoopInv ms stf := h0.reach ⟨n, hr⟩
  refine ⟨stf, ⟨n, hr⟩, hi, ?_⟩
  rcases hc with ⟨_, h2⟩ | ⟨_, h2⟩
  · rw [h2]; exact .loopFuel
  · exact (loopStep_spec S segFuel stf hi.next hi.conts).final h2

theorem execute_final (P : Program) {σ : Type} (S : Scheduler σ) (ms : MaxSteps) (seed : Nat) (s : σ)
    (fuel segFuel : Nat) :
    ∃ stf, Reach S segFuel (initState P ms seed s) stf ∧ LoopInv ms stf ∧
      FinalSpec S segFuel stf (execute P S ms seed s fuel segFuel) :=
  runLoop_final S segFuel fuel ms _ (LoopInv.init P ms seed s)

theorem finishSeg_inl {t : Nat} {e : SegEnd P σ} {r : Result P σ} (h : finishSeg t e = .inl r) :
    r.st = e.st ∧ (r.outcome = .outOfFuel ∨ (∃ msg, r.outcome = .panic t msg) ∨
      (∃ msg, r.outcome = .schedPanic msg ∧ e = .schedPanic msg e.st) ∨ (∃ msg, r.outcome = .abort msg)) ∧
      ((∀ msg st', e ≠ .schedPanic msg st') → ∀ msg, r.outcome ≠ .schedPanic msg) := by
  cases e with
  | atSwitch st' => cases h
  | returned st' =>
    simp only [finishSeg] at h
    cases hm : st'.k.modTask t (fun x => x.finish) with
    | error e =>
      rw [hm] at h
      simp only [Sum.inl.injEq] at h
      subst h
      exact ⟨rfl, Or.inr (Or.inl ⟨e, rfl⟩), fun _ msg hh => by cases hh⟩
    | ok k' => rw [hm] at h; cases h
  | panicked msg st' =>
    simp only [finishSeg, Sum.inl.injEq] at h
    subst h
    exact ⟨rfl, Or.inr (Or.inl ⟨msg, rfl⟩), fun _ msg hh => by cases hh⟩
  | schedPanic msg st' =>
    simp only [finishSeg, Sum.inl.injEq] at h
    subst h
    exact ⟨rfl, Or.inr (Or.inr (Or.inl ⟨msg, rfl, rfl⟩)), fun hne => absurd rfl (hne msg st')⟩
  | outOfFuel st' =>
    simp only [finishSeg, Sum.inl.injEq] at h
    subst h
    exact ⟨rfl, Or.inl rfl, fun _ msg hh => by cases hh⟩
  | aborted msg st' =>
    simp only [finishSeg, Sum.inl.injEq] at h
    subst h
    exact ⟨rfl, Or.inr (Or.inr (Or.inr ⟨msg, rfl⟩)), fun _ msg hh => by cases hh⟩

/-! ### decisions -/

/-- `Decision S segFuel st0 st ev`: in the run of the loop from `st0`, `schedule()` was called at the
(reachable) loop head `st`, got as far as calling `Scheduler::next_task`, the scheduler answered `ch`
(`None`, or a task that had been offered), and the consultation was logged as `ev`. -/
structure Decision (S : Scheduler σ) (segFuel : Nat) (st0 st : ExecState P σ) (ev : Ev) : Prop where
  reach : Reach S segFuel st0 st
  consults : Consults st.k
  answer : ∃ ch s', ask S st.k st.sch = (.choose ch, s') ∧ (∀ t, ch = some t → t ∈ st.k.offered) ∧
    ev = decEv st.k ch

/-- the part of the final log produced by the last iteration -/
theorem FinalSpec.log {S : Scheduler σ} {segFuel : Nat} {st : ExecState P σ} {r : Result P σ}
    (h : FinalSpec S segFuel st r) :
    ∃ decs evs, r.st.log.toList = st.log.toList ++ decs ++ evs ∧ (∀ ev ∈ evs, isDec ev = false) ∧
      (decs = [] ∨ ∃ ch s', decs = [decEv st.k ch] ∧ Consults st.k ∧
        ask S st.k st.sch = (.choose ch, s') ∧ (∀ t, ch = some t → t ∈ st.k.offered) ∧
        (ch = none → r.outcome = .stopped ∧ evs = [])) := by
  cases h with
  | loopFuel => exact ⟨[], [], by simp, by simp, Or.inl rfl⟩
  | boundFail n h1 h2 => exact ⟨[], [], by simp, by simp, Or.inl rfl⟩
  | boundStop n h1 h2 => exact ⟨[], [], by simp, by simp, Or.inl rfl⟩
  | deadlock h1 h2 h3 => exact ⟨[], [], by simp, by simp, Or.inl rfl⟩
  | ok h1 h2 h3 => exact ⟨[], [], by simp, by simp, Or.inl rfl⟩
  | schedPanic msg s' h1 h2 => exact ⟨[], [], by simp, by simp, Or.inl rfl⟩
  | choseBad t msg s' h1 h2 h3 => exact ⟨[], [], by simp, by simp, Or.inl rfl⟩
  | choseNone s' h1 h2 =>
    exact ⟨[decEv st.k none], [], by simp, by simp,
      Or.inr ⟨none, s', rfl, h1, h2, fun t ht => (by cases ht), fun _ => ⟨rfl, rfl⟩⟩⟩
  | seg t s' p r h1 h2 h3 h4 h5 =>
    obtain ⟨hst, _, _⟩ := finishSeg_inl h5
    have htr := runSegment_trace S t segFuel (segStart st t s') p
    have hl : ∃ evs, (runSegment S t segFuel (segStart st t s') p).st.log.toList
        = (segStart st t s').log.toList ++ evs ∧ (∀ ev ∈ evs, isDec ev = false) := by
      rcases htr.log with ⟨evs, a, b, _⟩ | ⟨_, _, he, evs, a, b, _⟩
      · exact ⟨evs, a, b⟩
      · refine ⟨evs, ?_, b⟩
        rw [he]; exact a
    obtain ⟨evs, a, b⟩ := hl
    refine ⟨[decEv st.k (some t)], evs, ?_, b, Or.inr ⟨some t, s', rfl, h1, h2, ?_, fun hh => (by cases hh)⟩⟩
    · rw [hst, a]; simp [segStart]
    · intro t' ht'; cases ht'; exact h3

/-- **Every `dec` event of the final log was produced by a `Decision`.** -/
theorem runLoop_dec_origin (S : Scheduler σ) (segFuel fuel : Nat) (ms : MaxSteps) (st0 : ExecState P σ)
    (h0 : LoopInv ms st0) (ev : Ev) (hev : ev ∈ (runLoop S segFuel fuel st0).st.log.toList)
    (hd : isDec ev = true) : ev ∈ st0.log.toList ∨ ∃ st, Decision S segFuel st0 st ev := by
  obtain ⟨stf, hr, hi, hf⟩ := runLoop_final S segFuel fuel ms st0 h0
  -- invariant along the reachable loop heads
  have hinv : Reach S segFuel st0 stf ∧ LoopInv ms stf ∧ ∀ ev ∈ stf.log.toList, isDec ev = true →
      ev ∈ st0.log.toList ∨ ∃ st', Decision S segFuel st0 st' ev := by
    refine hr.invariant (fun st => Reach S segFuel st0 st ∧ LoopInv ms st ∧ ∀ ev ∈ st.log.toList,
      isDec ev = true → ev ∈ st0.log.toList ∨ ∃ st', Decision S segFuel st0 st' ev) ?_
      ⟨Reach.refl S segFuel st0, h0, fun ev h _ => Or.inl h⟩
    intro mid b ⟨hmid, himid, ih⟩ hstep
    refine ⟨hmid.tail hstep, himid.step hstep, ?_⟩
    obtain ⟨t, s', hc, ha, hmem, _, evs, hlog, hnd, _⟩ := iter_frame himid.next himid.conts hstep
    intro ev hev hd
    rw [hlog] at hev
    rcases List.mem_append.mp hev with hev | hev
    · simp only [segStart, Array.toList_push] at hev
      rcases List.mem_append.mp hev with hev | hev
      · exact ih ev hev hd
      · simp only [List.mem_singleton] at hev
        exact Or.inr ⟨mid, hmid, hc, some t, s', ha, fun t' ht' => by cases ht'; exact hmem, hev⟩
    · rw [hnd ev hev] at hd; cases hd
  obtain ⟨decs, evs, hlog, hnd, hdec⟩ := hf.log
  rw [hlog] at hev
  rcases List.mem_append.mp hev with hev | hev
  · rcases List.mem_append.mp hev with hev | hev
    · exact hinv.2.2 ev hev hd
    · rcases hdec with rfl | ⟨ch, s', rfl, hc, ha, hmem, _⟩
      · cases hev
      · simp only [List.mem_singleton] at hev
        exact Or.inr ⟨stf, hr, hc, ch, s', ha, hmem, hev⟩
  · rw [hnd ev hev] at hd; cases hd

end ShuttleProofs.Kernel
