import ShuttleProofs.Lemmas.DfsStep

/-! The walk lemmas: one execution moves the scheduler from one annotated path to the next. -/

namespace ShuttleProofs.Dfs
open ShuttleModel.Dfs

mutual
/-- `paths` annotated with the scheduler's "was that the last sibling" flag. -/
def apaths : Tree → List APath
  | .leaf => [[]]
  | .node kids => apathsF kids
def apathsF : Forest → List APath
  | [] => []
  | (c, t) :: rest => (apaths t).map ((c, rest.isEmpty) :: ·) ++ apathsF rest
end

def strip (p : APath) : List Nat := p.map (·.1)

mutual
theorem strip_apaths : (t : Tree) → (apaths t).map strip = paths t
  | .leaf => by simp [apaths, paths, strip]
  | .node kids => by simp only [apaths, paths]; exact strip_apathsF kids
theorem strip_apathsF : (ks : Forest) → (apathsF ks).map strip = pathsF ks
  | [] => by simp [apathsF, pathsF]
  | (c, t) :: rest => by
    simp only [apathsF, pathsF, List.map_append, List.map_map]
    rw [← strip_apathsF rest, ← strip_apaths t]
    simp [strip, Function.comp_def]
end

/-- A non-empty list in which consecutive elements are `R`-related and the final element satisfies `L`. -/
inductive Enum {α : Type} (R : α → α → Prop) (L : α → Prop) : List α → Prop
  | last {a : α} : L a → Enum R L [a]
  | cons {a b : α} {l : List α} : R a b → Enum R L (b :: l) → Enum R L (a :: b :: l)

theorem Enum.map {α β : Type} {R : α → α → Prop} {L : α → Prop} {R' : β → β → Prop} {L' : β → Prop}
    (f : α → β) (hR : ∀ a b, R a b → R' (f a) (f b)) (hL : ∀ a, L a → L' (f a)) :
    ∀ {l : List α}, Enum R L l → Enum R' L' (l.map f)
  | _, .last h => .last (hL _ h)
  | _, .cons h t => .cons (hR _ _ h) (Enum.map f hR hL t)

theorem Enum.append {α : Type} {R : α → α → Prop} {L1 L : α → Prop} {b : α} {l2 : List α}
    (h2 : Enum R L (b :: l2)) (hB : ∀ a, L1 a → R a b) :
    ∀ {l1 : List α}, Enum R L1 l1 → Enum R L (l1 ++ b :: l2)
  | _, .last h => .cons (hB _ h) h2
  | _, .cons h t => .cons h (Enum.append h2 hB t)

theorem Enum.ne_nil {α : Type} {R : α → α → Prop} {L : α → Prop} {l : List α} (h : Enum R L l) : l ≠ [] := by
  cases h <;> simp

theorem descend_find (s : DfsState) (c : Nat) (t : Tree) (ks1 ks2 : Forest) (hc : c ∉ ks1.map (·.1)) :
    descend s c (ks1 ++ (c, t) :: ks2) = ((runFrom s t).1.map (c :: ·), (runFrom s t).2) := by
  induction ks1 with
  | nil => simp [descend]
  | cons k ks1 ih =>
    obtain ⟨c', t'⟩ := k
    have h1 : c' ≠ c := by intro h; apply hc; simp [h]
    have h2 : c ∉ ks1.map (·.1) := by intro h; apply hc; simp at h ⊢; right; exact h
    simp [descend, h1, ih h2]

/-- Entering `t` for the first time at depth `|pre|` follows `p0` and records it. -/
def FirstOK (t : Tree) (p0 : APath) : Prop :=
  ∀ mi it pre, runFrom ⟨mi, it, pre, pre.length⟩ t
    = (some (strip p0), ⟨mi, it, pre ++ p0, pre.length + p0.length⟩)

/-- Re-entering `t` at depth `|pre|` with recorded path `p` (which has an unexplored sibling somewhere) follows
`p'` and records it. -/
def Step (t : Tree) (p p' : APath) : Prop :=
  hasFalse p = true ∧
  ∀ mi it pre, runFrom ⟨mi, it, pre ++ p, pre.length⟩ t
    = (some (strip p'), ⟨mi, it, pre ++ p', pre.length + p'.length⟩)

def Last (p : APath) : Prop := hasFalse p = false

theorem first_ok : (t : Tree) → t.WF → ∃ p0 l, apaths t = p0 :: l ∧ FirstOK t p0
  | .leaf, _ => ⟨[], [], by simp [apaths], by intro mi it pre; simp [runFrom, strip]⟩
  | .node [], h => by simp [Tree.WF] at h
  | .node ((c, t) :: rest), h => by
    simp only [Tree.WF, WFF] at h
    obtain ⟨p0, l, hp, hf⟩ := first_ok t h.2.2.1
    refine ⟨(c, rest.isEmpty) :: p0, l.map ((c, rest.isEmpty) :: ·) ++ apathsF rest, ?_, ?_⟩
    · simp [apaths, apathsF, hp]
    · intro mi it pre
      have hd := descend_find ⟨mi, it, pre ++ [(c, rest.isEmpty)], pre.length + 1⟩ c t [] rest (by simp)
      have hf' := hf mi it (pre ++ [(c, rest.isEmpty)])
      simp only [List.length_append, List.length_cons, List.length_nil] at hf'
      simp only [runFrom, List.map_cons, nextTask_first, List.isEmpty_map]
      simp only [List.nil_append] at hd
      rw [hd, hf']
      simp [strip]; omega

theorem step_keep {t : Tree} {a b : APath} (c : Nat) (f : Bool) (ks1 rest : Forest)
    (h : Step t a b) (hc : c ∉ ks1.map (·.1)) :
    Step (.node (ks1 ++ (c, t) :: rest)) ((c, f) :: a) ((c, f) :: b) := by
  obtain ⟨hf, hrun⟩ := h
  refine ⟨by simp [hf], ?_⟩
  intro mi it pre
  have hd := descend_find ⟨mi, it, pre ++ (c, f) :: a, pre.length + 1⟩ c t ks1 rest hc
  have hr := hrun mi it (pre ++ [(c, f)])
  simp only [List.length_append, List.length_cons, List.length_nil, List.append_assoc,
    List.cons_append, List.nil_append] at hr
  simp only [runFrom, nextTask_keep _ _ _ _ _ _ _ hf]
  rw [hd, hr]
  simp [strip]; omega

theorem step_change {t t2 : Tree} {q p0 : APath} (c c2 : Nat) (ks1 rest : Forest)
    (hq : hasFalse q = false) (h0 : FirstOK t2 p0) (hc : c ∉ ks1.map (·.1))
    (hc2 : c2 ∉ (ks1 ++ [(c, t)]).map (·.1)) :
    Step (.node (ks1 ++ (c, t) :: (c2, t2) :: rest)) ((c, false) :: q) ((c2, rest.isEmpty) :: p0) := by
  refine ⟨by simp, ?_⟩
  intro mi it pre
  have hd := descend_find ⟨mi, it, pre ++ [(c2, rest.isEmpty)], pre.length + 1⟩ c2 t2 (ks1 ++ [(c, t)]) rest hc2
  have hr := h0 mi it (pre ++ [(c2, rest.isEmpty)])
  simp only [List.length_append, List.length_cons, List.length_nil, List.append_assoc,
    List.cons_append, List.nil_append] at hr hd
  have hn := nextTask_change mi it pre q c c2 (ks1.map (·.1)) (rest.map (·.1)) hq hc
  simp only [List.isEmpty_map] at hn
  simp only [runFrom, List.map_append, List.map_cons, hn]
  rw [hd, hr]
  simp [strip]; omega

mutual
theorem enumT : (t : Tree) → t.WF → Enum (Step t) Last (apaths t)
  | .leaf, _ => by simp only [apaths]; exact .last rfl
  | .node kids, h => by
    simp only [Tree.WF] at h
    simpa [apaths] using enumF kids [] h.1 (by simpa using h.2.1) h.2.2
theorem enumF : (ks2 : Forest) → (ks1 : Forest) → ks2 ≠ [] → ((ks1 ++ ks2).map (·.1)).Nodup → WFF ks2 →
    Enum (Step (.node (ks1 ++ ks2))) Last (apathsF ks2)
  | [], _, h, _, _ => absurd rfl h
  | [(c, t)], ks1, _, hnd, hwf => by
    simp only [WFF] at hwf
    have hc : c ∉ ks1.map (·.1) := by
      simp only [List.map_append, List.map_cons, List.map_nil] at hnd
      have := (List.nodup_append.1 hnd).2.2
      intro hm; exact this c hm c (by simp) rfl
    simp only [apathsF, List.isEmpty_nil, List.append_nil]
    exact Enum.map _ (fun a b hab => step_keep c true ks1 [] hab hc)
      (fun a ha => by simpa [Last] using ha) (enumT t hwf.1)
  | (c, t) :: (c2, t2) :: rest, ks1, _, hnd, hwf => by
    simp only [WFF] at hwf
    simp only [List.map_append, List.map_cons] at hnd
    have hnd' := List.nodup_append.1 hnd
    have hc : c ∉ ks1.map (·.1) := by
      intro hm; exact hnd'.2.2 c hm c (by simp) rfl
    have hc2 : c2 ∉ (ks1 ++ [(c, t)]).map (·.1) := by
      simp only [List.map_append, List.map_cons, List.map_nil, List.mem_append, List.mem_singleton]
      rintro (hm | hm)
      · exact hnd'.2.2 c2 hm c2 (by simp) rfl
      · have := hnd'.2.1; simp at this; exact this.1.1 hm.symm
    obtain ⟨p0, l0, hp0, hf0⟩ := first_ok t2 hwf.2.1
    have ih := enumF ((c2, t2) :: rest) (ks1 ++ [(c, t)]) (by simp)
      (by simpa using hnd) (by simp only [WFF]; exact hwf.2)
    simp only [List.append_assoc, List.cons_append, List.nil_append] at ih
    have e1 : Enum (Step (.node (ks1 ++ (c, t) :: (c2, t2) :: rest)))
        (fun a => ∃ q, a = (c, false) :: q ∧ hasFalse q = false)
        ((apaths t).map ((c, false) :: ·)) :=
      Enum.map _ (fun a b hab => step_keep c false ks1 _ hab hc)
        (fun a ha => ⟨a, rfl, ha⟩) (enumT t hwf.1)
    have hsplit : apathsF ((c2, t2) :: rest)
        = ((c2, rest.isEmpty) :: p0) :: (l0.map ((c2, rest.isEmpty) :: ·) ++ apathsF rest) := by
      simp [apathsF, hp0]
    rw [hsplit] at ih
    have := Enum.append ih (fun a ⟨q, ha, hq⟩ => by
      subst ha; exact step_change c c2 ks1 rest hq hf0 hc hc2) e1
    have hx : apathsF ((c, t) :: (c2, t2) :: rest)
        = (apaths t).map ((c, false) :: ·) ++ apathsF ((c2, t2) :: rest) := by
      simp [apathsF]
    rw [hx, hsplit]; exact this
end

end ShuttleProofs.Dfs
