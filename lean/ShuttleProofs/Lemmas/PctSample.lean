import ShuttleProofs.Lemmas.PctRng

/-!
# Specification of `Rng.indexSample` (all four algorithms), relative to one explicit hypothesis

`SampleLoopsInRange` says that the widening-multiply rejection loops `sampleLoop32` / `sampleLoop64` return
`low + hi (mod 2^k)` for some `hi < range`.  It is an elementary fact (`hi = ⌊v·range / 2^k⌋` with `v < 2^k`; see
`wmulStep_lt`, which IS proved), but unfolding `sampleLoop32 … (fuel+1) g` makes Lean's kernel normalise
`wmulStep … (nextU32 g).1` on the symbolic 128-bit PCG state, which does not terminate in reasonable time, so the
one-line induction over `fuel` could not be checked.  Everything else (the four sampling algorithms built on top) is proved.
-/

namespace ShuttleProofs.Pct
open ShuttleModel ShuttleModel.Rng

theorem wmulStep_lt {B range zone v hi : Nat} (h : wmulStep B range zone v = some hi) (hv : v < B)
    (hr : 0 < range) : hi < range := by
  unfold wmulStep at h
  simp only at h
  split at h
  · cases h
    apply Nat.div_lt_of_lt_mul
    exact Nat.mul_lt_mul_of_pos_right hv hr
  · cases h

/-- EXPLICIT HYPOTHESIS (not proved, see the module comment): the rejection loops return `(low + hi) % 2^k` with
    `hi < range`. -/
def SampleLoopsInRange : Prop :=
  (∀ (range zone low fuel : Nat) (g : Pcg) (r : Nat) (g' : Pcg), 0 < range →
    sampleLoop32 range zone low fuel g = some (r, g') → ∃ hi, hi < range ∧ r = (low + hi) % two32) ∧
  (∀ (range zone low fuel : Nat) (g : Pcg) (r : Nat) (g' : Pcg), 0 < range →
    sampleLoop64 range zone low fuel g = some (r, g') → ∃ hi, hi < range ∧ r = (low + hi) % two64)

theorem nextU32_lt (g : Pcg) : (nextU32 g).1 < two32 := by
  simp only [nextU32]
  exact Nat.mod_lt _ (by decide)

/-- `gen_range(0..=high)` at `u32` returns a value `≤ high`. -/
theorem genRangeInclusiveU32_le (H : SampleLoopsInRange) {high fuel r : Nat} {g g' : Pcg}
    (h : genRangeInclusiveU32 0 high g fuel = some (r, g')) : r ≤ high := by
  unfold genRangeInclusiveU32 sampleSingleInclusiveU32 at h
  split at h
  · next hc =>
    simp only at h
    split at h
    · next h0 =>
      simp only [Option.some.injEq] at h
      have := nextU32_lt g
      rw [h] at this
      simp only [two32] at h0 hc this ⊢
      omega
    · next h0 =>
      obtain ⟨hi, h1, h2⟩ := H.1 _ _ _ _ _ _ _ (Nat.pos_of_ne_zero h0) h
      simp only [two32] at h0 hc h1 h2 ⊢
      omega
  · cases h

/-- `gen_range(low..high)` at `u32` returns a value in `[low, high)`. -/
theorem genRangeU32_spec (H : SampleLoopsInRange) {low high fuel r : Nat} {g g' : Pcg}
    (h : genRangeU32 low high g fuel = some (r, g')) : low ≤ r ∧ r < high := by
  unfold genRangeU32 at h
  split at h
  · next hc =>
    unfold sampleSingleInclusiveU32 at h
    split at h
    · next hc2 =>
      simp only at h
      split at h
      · next h0 => simp only [two32] at h0 hc hc2; omega
      · next h0 =>
        obtain ⟨hi, h1, h2⟩ := H.1 _ _ _ _ _ _ _ (Nat.pos_of_ne_zero h0) h
        simp only [two32] at h0 hc hc2 h1 h2 ⊢
        omega
    · cases h
  · cases h

theorem uniformSampleU32_lt (H : SampleLoopsInRange) {high fuel r : Nat} {g g' : Pcg}
    (h : uniformSampleU32 high g fuel = some (r, g')) : r < high := by
  unfold uniformSampleU32 at h
  split at h
  · next hc =>
    obtain ⟨hi, h1, h2⟩ := H.1 _ _ _ _ _ _ _ hc.1 h
    simp only [two32] at hc h2 ⊢
    omega
  · cases h

theorem uniformSampleU64_lt (H : SampleLoopsInRange) {high fuel r : Nat} {g g' : Pcg}
    (h : uniformSampleU64 high g fuel = some (r, g')) : r < high := by
  unfold uniformSampleU64 at h
  split at h
  · next hc =>
    obtain ⟨hi, h1, h2⟩ := H.2 _ _ _ _ _ _ _ hc.1 h
    simp only [two64] at hc h2 ⊢
    omega
  · cases h

/-- `gen_range(0..high)` at `usize` returns a value `< high`. -/
theorem genRangeUsize_lt (H : SampleLoopsInRange) {high fuel r : Nat} {g g' : Pcg}
    (h : genRangeUsize 0 high g fuel = some (r, g')) : r < high := by
  unfold genRangeUsize genRangeU64 at h
  split at h
  · next hc =>
    unfold sampleSingleInclusiveU64 at h
    split at h
    · next hc2 =>
      simp only at h
      split at h
      · next h0 => simp only [two64] at h0 hc hc2; omega
      · next h0 =>
        obtain ⟨hi, h1, h2⟩ := H.2 _ _ _ _ _ _ _ (Nat.pos_of_ne_zero h0) h
        simp only [two64] at h0 hc hc2 h1 h2 ⊢
        omega
    · cases h
  · cases h

/-! ## The sampling algorithms -/

/-- "`res` is a list of pairwise distinct values below `bound`". -/
def DistinctBelow (bound : Nat) (res : List Nat) : Prop := res.Nodup ∧ ∀ x ∈ res, x < bound

theorem DistinctBelow.add {j : Nat} {indices new : List Nat} (h : DistinctBelow j indices) {x : Nat}
    (hx : x ∉ indices) (hxj : x ≤ j) (hp : new.Perm (x :: indices)) :
    DistinctBelow (j + 1) new ∧ new.length = indices.length + 1 := by
  refine ⟨⟨?_, ?_⟩, ?_⟩
  · exact (hp.nodup_iff).2 (List.nodup_cons.2 ⟨hx, h.1⟩)
  · intro y hy
    rcases List.mem_cons.1 ((hp.mem_iff).1 hy) with rfl | hy
    · omega
    · have := h.2 y hy; omega
  · rw [hp.length_eq]; simp

theorem position_none {t : Nat} : ∀ {xs : List Nat}, position t xs = none → t ∉ xs := by
  intro xs
  induction xs with
  | nil => intro _; simp
  | cons x xs ih =>
    intro h
    simp only [position] at h
    split at h
    · cases h
    · next hne =>
      have : position t xs = none := by
        cases hp : position t xs with
        | none => rfl
        | some v => rw [hp] at h; simp at h
      simp only [List.mem_cons, not_or]
      exact ⟨fun e => hne e.symm, ih this⟩

theorem insertAt_perm (xs : List Nat) (pos j : Nat) : (insertAt xs pos j).Perm (j :: xs) := by
  unfold insertAt
  have := @List.perm_middle _ j (xs.take pos) (xs.drop pos)
  rwa [List.take_append_drop] at this

theorem floydLoop_spec (H : SampleLoopsInRange) (fs : Bool) (fuel : Nat) :
    ∀ (count j : Nat) (indices : List Nat) (g : Pcg) (res : List Nat) (g' : Pcg),
    floydLoop fs fuel count j indices g = some (res, g') → DistinctBelow j indices →
    DistinctBelow (j + count) res ∧ res.length = indices.length + count := by
  intro count
  induction count with
  | zero =>
    intro j indices g res g' h hd
    simp only [floydLoop, Option.some.injEq, Prod.mk.injEq] at h
    rw [← h.1]; exact ⟨hd, rfl⟩
  | succ n ih =>
    intro j indices g res g' h hd
    simp only [floydLoop] at h
    cases hgr : genRangeInclusiveU32 0 j g fuel with
    | none => rw [hgr] at h; cases h
    | some tg =>
      obtain ⟨t, g1⟩ := tg
      rw [hgr] at h
      simp only at h
      have htj : t ≤ j := genRangeInclusiveU32_le H hgr
      have hjn : j ∉ indices := fun hm => Nat.lt_irrefl _ (hd.2 j hm)
      have fin : ∀ new, (∃ x, x ∉ indices ∧ x ≤ j ∧ new.Perm (x :: indices)) →
          floydLoop fs fuel n (j + 1) new g1 = some (res, g') →
          DistinctBelow (j + (n + 1)) res ∧ res.length = indices.length + (n + 1) := by
        intro new ⟨x, hx, hxj, hp⟩ hrec
        obtain ⟨d1, l1⟩ := hd.add hx hxj hp
        obtain ⟨d2, l2⟩ := ih (j + 1) new g1 res g' hrec d1
        refine ⟨?_, by omega⟩
        rw [show j + (n + 1) = j + 1 + n by omega]; exact d2
      by_cases hfs : fs = true
      · simp only [hfs, if_true] at h
        cases hpos : position t indices with
        | some pos =>
          rw [hpos] at h
          exact fin _ ⟨j, hjn, Nat.le_refl _, insertAt_perm indices pos j⟩ (hfs ▸ h)
        | none =>
          rw [hpos] at h
          exact fin _ ⟨t, position_none hpos, htj, List.perm_append_singleton t indices⟩ (hfs ▸ h)
      · have hfs' : fs = false := by cases fs <;> simp_all
        subst hfs'
        simp only [Bool.false_eq_true, if_false] at h
        by_cases hc : indices.contains t = true
        · simp only [hc, if_true] at h
          exact fin _ ⟨j, hjn, Nat.le_refl _, List.perm_append_singleton j indices⟩ h
        · simp only [hc] at h
          have : t ∉ indices := by simpa using hc
          exact fin _ ⟨t, this, htj, List.perm_append_singleton t indices⟩ h

theorem floydShuffleLoop_perm (fuel : Nat) : ∀ (k : Nat) (xs : List Nat) (g : Pcg) (ys : List Nat) (g' : Pcg),
    floydShuffleLoop fuel k xs g = some (ys, g') → ys.Perm xs := by
  intro k
  induction k with
  | zero => intro xs g ys g' h; simp [floydShuffleLoop] at h; rw [h.1]
  | succ i ih =>
    intro xs g ys g' h
    simp only [floydShuffleLoop] at h
    split at h
    · cases h
    · next j g1 _ =>
      split at h
      · cases h
      · next xs' hs => exact (ih xs' g1 ys g' h).trans (swap?_perm hs)

theorem inplaceLoop_perm (fuel length : Nat) : ∀ (count i : Nat) (xs : List Nat) (g : Pcg) (ys : List Nat) (g' : Pcg),
    inplaceLoop fuel length count i xs g = some (ys, g') → ys.Perm xs := by
  intro count
  induction count with
  | zero => intro i xs g ys g' h; simp [inplaceLoop] at h; rw [h.1]
  | succ n ih =>
    intro i xs g ys g' h
    simp only [inplaceLoop] at h
    split at h
    · cases h
    · next j g1 _ =>
      split at h
      · cases h
      · next xs' hs => exact (ih (i + 1) xs' g1 ys g' h).trans (swap?_perm hs)

theorem rejectionDraw_spec {sample : Pcg → Option (Nat × Pcg)} {seen : List Nat} :
    ∀ (k : Nat) (g : Pcg) (pos : Nat) (g' : Pcg), rejectionDraw sample seen k g = some (pos, g') →
    pos ∉ seen ∧ ∃ g0, sample g0 = some (pos, g') := by
  intro k
  induction k with
  | zero => intro g pos g' h; simp [rejectionDraw] at h
  | succ n ih =>
    intro g pos g' h
    simp only [rejectionDraw] at h
    cases hs : sample g with
    | none => rw [hs] at h; cases h
    | some pg =>
      obtain ⟨p, g1⟩ := pg
      rw [hs] at h
      simp only at h
      by_cases hc : seen.contains p = true
      · simp only [hc, if_true] at h; exact ih g1 pos g' h
      · simp only [hc] at h
        simp only [Bool.false_eq_true, if_false, Option.some.injEq, Prod.mk.injEq] at h
        obtain ⟨rfl, rfl⟩ := h
        exact ⟨by simpa using hc, g, hs⟩

theorem rejectionLoop_spec {sample : Pcg → Option (Nat × Pcg)} {length : Nat} (fuel : Nat)
    (hs : ∀ g pos g', sample g = some (pos, g') → pos < length) :
    ∀ (count : Nat) (indices : List Nat) (g : Pcg) (res : List Nat) (g' : Pcg),
    rejectionLoop sample fuel count indices g = some (res, g') → DistinctBelow length indices →
    DistinctBelow length res ∧ res.length = indices.length + count := by
  intro count
  induction count with
  | zero =>
    intro indices g res g' h hd
    simp only [rejectionLoop, Option.some.injEq, Prod.mk.injEq] at h
    rw [← h.1]; exact ⟨hd, rfl⟩
  | succ n ih =>
    intro indices g res g' h hd
    simp only [rejectionLoop] at h
    cases hdr : rejectionDraw sample indices fuel g with
    | none => rw [hdr] at h; cases h
    | some pg =>
      obtain ⟨p, g1⟩ := pg
      rw [hdr] at h
      simp only at h
      obtain ⟨hp, g0, hg0⟩ := rejectionDraw_spec _ _ _ _ hdr
      have hpl := hs _ _ _ hg0
      have hd1 : DistinctBelow length (indices ++ [p]) := by
        refine ⟨?_, ?_⟩
        · exact ((List.perm_append_singleton p indices).nodup_iff).2 (List.nodup_cons.2 ⟨hp, hd.1⟩)
        · intro x hx
          rcases List.mem_append.1 hx with hx | hx
          · exact hd.2 x hx
          · simp at hx; omega
      obtain ⟨d2, l2⟩ := ih (indices ++ [p]) g1 res g' h hd1
      exact ⟨d2, by rw [l2]; simp; omega⟩

/-- `rand::seq::index::sample(rng, length, amount)` returns `amount` pairwise distinct indices below `length`
    (all four algorithms), given `SampleLoopsInRange`. -/
theorem indexSample_spec (H : SampleLoopsInRange) {g g' : Pcg} {length amount fuel : Nat} {cps : List Nat}
    (h : indexSample g length amount fuel = some (cps, g')) :
    cps.length = amount ∧ cps.Nodup ∧ ∀ c ∈ cps, c < length := by
  unfold indexSample at h
  split at h
  · cases h
  · next hguard =>
    have hal : amount ≤ length := by omega
    split at h
    · -- Floyd
      unfold sampleFloyd at h
      simp only at h
      cases hf : floydLoop (decide (amount < 50)) fuel amount (length - amount) [] g with
      | none => rw [hf] at h; cases h
      | some rg =>
        obtain ⟨idx, g1⟩ := rg
        rw [hf] at h
        simp only at h
        obtain ⟨⟨d1, d2⟩, l⟩ := floydLoop_spec H _ fuel _ _ _ _ _ _ hf ⟨List.nodup_nil, by simp⟩
        rw [show length - amount + amount = length by omega] at d2
        simp only [List.length_nil, Nat.zero_add] at l
        split at h
        · simp only [Option.some.injEq, Prod.mk.injEq] at h
          rw [← h.1]; exact ⟨l, d1, d2⟩
        · have hp := floydShuffleLoop_perm _ _ _ _ _ _ h
          exact ⟨by rw [hp.length_eq]; exact l, (hp.nodup_iff).2 d1, fun c hc => d2 c ((hp.mem_iff).1 hc)⟩
    · -- in-place
      unfold sampleInplace at h
      cases hi : inplaceLoop fuel length amount 0 (List.range length) g with
      | none => rw [hi] at h; cases h
      | some rg =>
        obtain ⟨xs, g1⟩ := rg
        rw [hi] at h
        simp only [Option.some.injEq, Prod.mk.injEq] at h
        have hp := inplaceLoop_perm _ _ _ _ _ _ _ _ hi
        have hn : xs.Nodup := (hp.nodup_iff).2 List.nodup_range
        rw [← h.1]
        refine ⟨?_, hn.sublist (List.take_sublist _ _), ?_⟩
        · rw [List.length_take, hp.length_eq, List.length_range]; omega
        · intro c hc
          have := (hp.mem_iff).1 (List.mem_of_mem_take hc)
          simpa using this
    · -- rejection, u32
      unfold sampleRejectionU32 at h
      split at h
      · obtain ⟨⟨d1, d2⟩, l⟩ := rejectionLoop_spec (length := length) fuel
          (fun g pos g' hs => uniformSampleU32_lt H hs) _ _ _ _ _ h ⟨List.nodup_nil, by simp⟩
        exact ⟨by simpa using l, d1, d2⟩
      · cases h
    · -- rejection, usize
      unfold sampleRejectionUsize at h
      split at h
      · obtain ⟨⟨d1, d2⟩, l⟩ := rejectionLoop_spec (length := length) fuel
          (fun g pos g' hs => uniformSampleU64_lt H hs) _ _ _ _ _ h ⟨List.nodup_nil, by simp⟩
        exact ⟨by simpa using l, d1, d2⟩
      · cases h

end ShuttleProofs.Pct
