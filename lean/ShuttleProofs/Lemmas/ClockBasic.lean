import ShuttleModel.Clock
/-!
# Vector-clock lemmas, part 1: `get`, `update` (= join), `increment`, `extend`, and the pointwise order

Everything is stated through `Clock.get` (component with zero-extension), i.e. extensionally:
two clocks that differ only by trailing zeros are the same vector.

`Clock` is an (irreducible-for-`simp`) `def` for `List Nat`; the list-level mirrors `lget`, `lupd`, … are
proved equal to the model's functions once, and every lemma is then transported.
-/

namespace ShuttleProofs.Clock
open ShuttleModel

/-! ### list-level mirrors -/

def lget (l : List Nat) (i : Nat) : Nat := (l[i]?).getD 0

def lupd : List Nat → List Nat → List Nat
  | [], o => o
  | c, [] => c
  | a :: c, b :: o => (max a b) :: lupd c o

theorem get_eq (c : List Nat) (i : Nat) : Clock.get c i = lget c i := rfl

theorem update_eq : ∀ (a b : List Nat), Clock.update a b = lupd a b
  | [], o => by cases o <;> rfl
  | a :: c, [] => rfl
  | a :: c, b :: o => by
    show (max a b :: Clock.update c o : List Nat) = max a b :: lupd c o
    rw [update_eq c o]

theorem increment_eq (c : List Nat) (t : Nat) : Clock.increment c t = c.modify t (· + 1) := rfl

theorem extend_eq (c : List Nat) (t : Nat) :
    Clock.extend c t = c ++ List.replicate (t + 1 - c.length) 0 := rfl

@[simp] theorem lget_nil (i : Nat) : lget [] i = 0 := by simp [lget]
@[simp] theorem lget_cons_zero (a : Nat) (c : List Nat) : lget (a :: c) 0 = a := by simp [lget]
@[simp] theorem lget_cons_succ (a : Nat) (c : List Nat) (i : Nat) : lget (a :: c) (i + 1) = lget c i := by
  simp [lget]

theorem lget_eq_zero_of_length_le (c : List Nat) (i : Nat) (h : c.length ≤ i) : lget c i = 0 := by
  unfold lget; rw [List.getElem?_eq_none h]; rfl

theorem lget_of_lt (c : List Nat) (i : Nat) (h : i < c.length) : lget c i = c[i] := by
  unfold lget; rw [List.getElem?_eq_getElem h]; rfl

theorem lget_lupd : ∀ (a b : List Nat) (i : Nat), lget (lupd a b) i = max (lget a i) (lget b i)
  | [], o, i => by simp [lupd]
  | a :: c, [], i => by simp [lupd]
  | a :: c, b :: o, 0 => by simp [lupd]
  | a :: c, b :: o, i + 1 => by simpa [lupd] using lget_lupd c o i

theorem length_lupd : ∀ (a b : List Nat), (lupd a b).length = max a.length b.length
  | [], o => by simp [lupd]
  | a :: c, [] => by simp [lupd]
  | a :: c, b :: o => by
    have ih := length_lupd c o
    simp only [lupd, List.length_cons, ih]
    omega

theorem lext_of_length_eq : ∀ (a b : List Nat), a.length = b.length → (∀ i, lget a i = lget b i) → a = b
  | [], [], _, _ => rfl
  | [], _ :: _, h, _ => by simp at h
  | _ :: _, [], h, _ => by simp at h
  | a :: c, b :: o, hl, h => by
    have h0 := h 0
    simp only [lget_cons_zero] at h0
    have ht : c = o := lext_of_length_eq c o (by simpa using hl) (fun i => by simpa using h (i + 1))
    rw [h0, ht]

theorem lget_modify (c : List Nat) (t i : Nat) :
    lget (c.modify t (· + 1)) i = if i = t ∧ t < c.length then lget c i + 1 else lget c i := by
  unfold lget
  rw [List.getElem?_modify]
  by_cases hit : t = i
  · subst hit
    by_cases hl : t < c.length
    · simp [hl, List.getElem?_eq_getElem hl]
    · have : c[t]? = none := List.getElem?_eq_none (Nat.le_of_not_lt hl)
      simp [hl, this]
  · have : ¬ i = t := fun h => hit h.symm
    simp [hit, this]

theorem lget_append_zeros (c : List Nat) (n i : Nat) : lget (c ++ List.replicate n 0) i = lget c i := by
  unfold lget
  by_cases h : i < c.length
  · rw [List.getElem?_append_left h]
  · have hle : c.length ≤ i := Nat.le_of_not_lt h
    rw [List.getElem?_append_right hle, List.getElem?_eq_none hle]
    cases hh : (List.replicate n 0)[i - c.length]? with
    | none => rfl
    | some v =>
      have := List.mem_of_getElem? hh
      rw [List.mem_replicate] at this
      simp [this.2]

/-! ### the pointwise order -/

/-- the pointwise order with zero-extension — what "dominates" means in the property text -/
def ple (a b : Clock) : Prop := ∀ i, Clock.get a i ≤ Clock.get b i

theorem ple_refl (a : Clock) : ple a a := fun _ => Nat.le_refl _

theorem ple_trans {a b c : Clock} (h1 : ple a b) (h2 : ple b c) : ple a c :=
  fun i => Nat.le_trans (h1 i) (h2 i)

/-- extensional equality: the same vector up to trailing zeros -/
def peq (a b : Clock) : Prop := ∀ i, Clock.get a i = Clock.get b i

theorem ple_antisymm {a b : Clock} (h1 : ple a b) (h2 : ple b a) : peq a b :=
  fun i => Nat.le_antisymm (h1 i) (h2 i)

@[simp] theorem get_new (i : Nat) : Clock.get Clock.new i = 0 := lget_nil i

theorem new_ple (a : Clock) : ple Clock.new a := fun i => by rw [get_new]; exact Nat.zero_le _

theorem get_eq_zero_of_length_le (c : Clock) (i : Nat) (h : List.length c ≤ i) : Clock.get c i = 0 :=
  lget_eq_zero_of_length_le c i h

/-! ### `update` is the join -/

/-- **`update` is the pointwise maximum with zero-extension** (`update_is_join`). -/
theorem get_update_l (a b : List Nat) (i : Nat) :
    Clock.get (Clock.update a b) i = max (Clock.get a i) (Clock.get b i) := by
  rw [update_eq]; exact lget_lupd a b i

theorem get_update (a b : Clock) (i : Nat) :
    Clock.get (Clock.update a b) i = max (Clock.get a i) (Clock.get b i) := get_update_l a b i

theorem length_update_l (a b : List Nat) : List.length (Clock.update a b) = max a.length b.length := by
  rw [update_eq]; exact length_lupd a b

theorem length_update (a b : Clock) : List.length (Clock.update a b) = max (List.length a) (List.length b) :=
  length_update_l a b

/-- extensional equality of clocks of the same length is equality -/
theorem ext_of_length_eq (a b : Clock) (hl : List.length a = List.length b) (h : peq a b) : a = b :=
  lext_of_length_eq a b hl h

/-- `update` is commutative … -/
theorem update_comm (a b : Clock) : Clock.update a b = Clock.update b a :=
  ext_of_length_eq _ _ (by rw [length_update, length_update, Nat.max_comm])
    (fun i => by rw [get_update, get_update, Nat.max_comm])

/-- … associative … -/
theorem update_assoc (a b c : Clock) :
    Clock.update (Clock.update a b) c = Clock.update a (Clock.update b c) :=
  ext_of_length_eq _ _ (by simp only [length_update]; omega)
    (fun i => by simp only [get_update]; omega)

/-- … and idempotent: a join semilattice (as lists, not only up to trailing zeros). -/
theorem update_idem (a : Clock) : Clock.update a a = a :=
  ext_of_length_eq _ _ (by rw [length_update, Nat.max_self]) (fun i => by rw [get_update, Nat.max_self])

theorem update_new_right (a : Clock) : Clock.update a Clock.new = a :=
  ext_of_length_eq _ _ (by rw [length_update]; show max _ 0 = _; omega)
    (fun i => by rw [get_update, get_new]; omega)

theorem update_new_left (a : Clock) : Clock.update Clock.new a = a := by
  rw [update_comm, update_new_right]

theorem ple_update_left (a b : Clock) : ple a (Clock.update a b) := fun i => by
  rw [get_update]; exact Nat.le_max_left _ _

theorem ple_update_right (a b : Clock) : ple b (Clock.update a b) := fun i => by
  rw [get_update]; exact Nat.le_max_right _ _

/-- the join is the least upper bound -/
theorem update_ple {a b c : Clock} (h1 : ple a c) (h2 : ple b c) : ple (Clock.update a b) c := fun i => by
  rw [get_update]; exact Nat.max_le.mpr ⟨h1 i, h2 i⟩

theorem update_mono {a a' b b' : Clock} (h1 : ple a a') (h2 : ple b b') :
    ple (Clock.update a b) (Clock.update a' b') :=
  update_ple (ple_trans h1 (ple_update_left _ _)) (ple_trans h2 (ple_update_right _ _))

/-- joining something that is already below changes nothing (extensionally) -/
theorem update_of_ple {a b : Clock} (h : ple b a) : peq (Clock.update a b) a := fun i => by
  rw [get_update]; exact Nat.max_eq_left (h i)

/-! ### `increment` and `extend` -/

theorem get_increment (c : Clock) (t i : Nat) :
    Clock.get (Clock.increment c t) i =
      if i = t ∧ t < List.length c then Clock.get c i + 1 else Clock.get c i :=
  lget_modify c t i

theorem length_increment (c : Clock) (t : Nat) : List.length (Clock.increment c t) = List.length c := by
  show (List.modify (c : List Nat) t (· + 1)).length = _
  exact List.length_modify ..

theorem ple_increment (c : Clock) (t : Nat) : ple c (Clock.increment c t) := fun i => by
  rw [get_increment]; split <;> omega

/-- `increment` really ticks an existing component … -/
theorem get_increment_self (c : Clock) (t : Nat) (h : t < List.length c) :
    Clock.get (Clock.increment c t) t = Clock.get c t + 1 := by
  rw [get_increment, if_pos ⟨rfl, h⟩]

/-- … and no other -/
theorem get_increment_other (c : Clock) (t i : Nat) (h : i ≠ t) :
    Clock.get (Clock.increment c t) i = Clock.get c i := by
  rw [get_increment, if_neg (fun hh => h hh.1)]

/-- `extend` only appends zeros -/
theorem get_extend (c : Clock) (t i : Nat) : Clock.get (Clock.extend c t) i = Clock.get c i :=
  lget_append_zeros c _ i

theorem length_extend (c : Clock) (t : Nat) :
    List.length (Clock.extend c t) = max (List.length c) (t + 1) := by
  have h : ∀ (l : List Nat), (l ++ List.replicate (t + 1 - l.length) 0).length = max l.length (t + 1) := by
    intro l; rw [List.length_append, List.length_replicate]; omega
  exact h c

theorem lt_length_extend (c : Clock) (t : Nat) : t < List.length (Clock.extend c t) := by
  rw [length_extend]; omega

theorem ple_extend (c : Clock) (t : Nat) : ple c (Clock.extend c t) :=
  fun i => by rw [get_extend]; exact Nat.le_refl _

theorem extend_ple (c : Clock) (t : Nat) : ple (Clock.extend c t) c :=
  fun i => by rw [get_extend]; exact Nat.le_refl _

/-- `update_clock(c)` of task `t` = `(clock.increment t).update c` dominates both the old clock and `c` -/
theorem ple_updateClock_self (own c : Clock) (t : Nat) :
    ple own (Clock.update (Clock.increment own t) c) :=
  ple_trans (ple_increment own t) (ple_update_left _ _)

theorem ple_updateClock_arg (own c : Clock) (t : Nat) :
    ple c (Clock.update (Clock.increment own t) c) :=
  ple_update_right _ _

/-! ### `strip` (the log's canonical form) does not change any component -/

theorem lget_snoc_zero : ∀ (l : List Nat) (i : Nat), lget (l ++ [0]) i = lget l i
  | [], 0 => by simp [lget]
  | [], i + 1 => by simp [lget]
  | a :: l, 0 => by simp
  | a :: l, i + 1 => by simpa using lget_snoc_zero l i

theorem lget_dropWhile_rev : ∀ (r : List Nat) (i : Nat),
    lget ((r.dropWhile (· == 0)).reverse) i = lget r.reverse i
  | [], i => rfl
  | a :: r, i => by
    by_cases h : a = 0
    · subst h
      have ih := lget_dropWhile_rev r i
      simp only [List.dropWhile_cons, beq_self_eq_true, if_true, List.reverse_cons]
      rw [ih, lget_snoc_zero]
    · have : (a == 0) = false := by simp [h]
      simp [List.dropWhile_cons, this]

theorem get_strip (c : Clock) (i : Nat) : Clock.get (Clock.strip c : List Nat) i = Clock.get c i := by
  have h : ∀ (l : List Nat), lget ((l.reverse.dropWhile (· == 0)).reverse) i = lget l i := by
    intro l
    have := lget_dropWhile_rev l.reverse i
    rwa [List.reverse_reverse] at this
  exact h c

end ShuttleProofs.Clock
