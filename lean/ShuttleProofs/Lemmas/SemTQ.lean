import ShuttleProofs.Lemmas.SemBasic
/-
  The table/queue well-formedness invariant `TQ` (source invariants (2) and (3) of
  batch_semaphore.rs plus the model's bookkeeping: distinct waiter ids, queue ⊆ table) and its
  preservation by the elementary table/queue updates.
-/
namespace ShuttleModel
namespace SemLts

structure TQ (q : List Nat) (T : List Waiter) (nx : Nat) : Prop where
  nodupT : WidsNodup T
  ltNext : ∀ w ∈ T, w.wid < nx
  nodupQ : q.Nodup
  /-- source invariant (2): `W` is in `waiters` iff `W.is_queued` -/
  queued_iff : ∀ w ∈ T, (w.isQueued = true ↔ w.wid ∈ q)
  sub : ∀ wid ∈ q, ∃ w ∈ T, w.wid = wid
  /-- source invariant (3) `W.is_queued ⟹ !W.has_permits`, and what `Acquire::poll` asserts /
  `acquire_permits` guarantees about a queued waiter -/
  queuedOk : ∀ w ∈ T, w.isQueued = true →
    w.hasPermits = false ∧ w.completed = false ∧ w.waker.isSome = true ∧ 0 < w.n

theorem TQ.tget_of_mem_queue {q T nx} (h : TQ q T nx) {wid : Nat} (hq : wid ∈ q) :
    ∃ w, tget T wid = some w ∧ w.isQueued = true := by
  obtain ⟨w, hw, rfl⟩ := h.sub wid hq
  exact ⟨w, tget_of_mem h.nodupT hw, (h.queued_iff w hw).mpr hq⟩

theorem TQ.queued_of_tget {q T nx} (h : TQ q T nx) {wid : Nat} {w : Waiter}
    (hw : tget T wid = some w) : w.isQueued = true ↔ wid ∈ q := by
  obtain ⟨hm, rfl⟩ := tget_some_mem hw
  exact h.queued_iff w hm

/-- replace a waiter by one with the same queue status -/
theorem TQ.tset_same {q T nx} (h : TQ q T nx) {w w' : Waiter} (hw : tget T w'.wid = some w)
    (hq : w'.isQueued = w.isQueued)
    (hok : w'.isQueued = true →
      w'.hasPermits = false ∧ w'.completed = false ∧ w'.waker.isSome = true ∧ 0 < w'.n) :
    TQ q (tset T w') nx := by
  obtain ⟨hm, hwid⟩ := tget_some_mem hw
  refine ⟨tset_nodup _ h.nodupT, ?_, h.nodupQ, ?_, ?_, ?_⟩
  · intro x hx
    rcases mem_tset.mp hx with ⟨hx, _⟩ | ⟨rfl, _⟩
    · exact h.ltNext x hx
    · rw [← hwid]; exact h.ltNext w hm
  · intro x hx
    rcases mem_tset.mp hx with ⟨hx, _⟩ | ⟨rfl, _⟩
    · exact h.queued_iff x hx
    · rw [hq, ← hwid]; exact h.queued_iff w hm
  · intro v hv
    obtain ⟨y, hy, rfl⟩ := h.sub v hv
    by_cases e : y.wid = w'.wid
    · exact ⟨w', mem_tset.mpr (Or.inr ⟨rfl, y, hy, e⟩), e.symm⟩
    · exact ⟨y, mem_tset.mpr (Or.inl ⟨hy, e⟩), rfl⟩
  · intro x hx hxq
    rcases mem_tset.mp hx with ⟨hx, _⟩ | ⟨rfl, _⟩
    · exact h.queuedOk x hx hxq
    · exact hok hxq

/-- take a waiter out of the queue (anywhere) -/
theorem TQ.erase {q T nx} (h : TQ q T nx) {w w' : Waiter} (hw : tget T w'.wid = some w)
    (hq : w'.isQueued = false) : TQ (q.erase w'.wid) (tset T w') nx := by
  obtain ⟨hm, hwid⟩ := tget_some_mem hw
  refine ⟨tset_nodup _ h.nodupT, ?_, h.nodupQ.erase _, ?_, ?_, ?_⟩
  · intro x hx
    rcases mem_tset.mp hx with ⟨hx, _⟩ | ⟨rfl, _⟩
    · exact h.ltNext x hx
    · rw [← hwid]; exact h.ltNext w hm
  · intro x hx
    rw [h.nodupQ.mem_erase_iff]
    rcases mem_tset.mp hx with ⟨hx, hne⟩ | ⟨rfl, _⟩
    · rw [h.queued_iff x hx]; simp [hne]
    · simp [hq]
  · intro v hv
    rw [h.nodupQ.mem_erase_iff] at hv
    obtain ⟨y, hy, rfl⟩ := h.sub v hv.2
    exact ⟨y, mem_tset.mpr (Or.inl ⟨hy, hv.1⟩), rfl⟩
  · intro x hx hxq
    rcases mem_tset.mp hx with ⟨hx, _⟩ | ⟨rfl, _⟩
    · exact h.queuedOk x hx hxq
    · simp [hq] at hxq

/-- pop the head of the queue -/
theorem TQ.pop {wid rest T nx} (h : TQ (wid :: rest) T nx) {w w' : Waiter}
    (hw : tget T wid = some w) (hwid : w'.wid = wid) (hq : w'.isQueued = false) :
    TQ rest (tset T w') nx := by
  have := h.erase (w' := w') (by rw [hwid]; exact hw) hq
  simpa [hwid] using this

/-- append a not yet queued waiter to the queue -/
theorem TQ.push {q T nx} (h : TQ q T nx) {w w' : Waiter} (hw : tget T w'.wid = some w)
    (hnq : w.isQueued = false) (hq : w'.isQueued = true)
    (hok : w'.hasPermits = false ∧ w'.completed = false ∧ w'.waker.isSome = true ∧ 0 < w'.n) :
    TQ (q ++ [w'.wid]) (tset T w') nx := by
  obtain ⟨hm, hwid⟩ := tget_some_mem hw
  have hnot : w'.wid ∉ q := by
    intro hin; rw [← hwid, ← h.queued_iff w hm] at hin; simp [hnq] at hin
  refine ⟨tset_nodup _ h.nodupT, ?_, ?_, ?_, ?_, ?_⟩
  · intro x hx
    rcases mem_tset.mp hx with ⟨hx, _⟩ | ⟨rfl, _⟩
    · exact h.ltNext x hx
    · rw [← hwid]; exact h.ltNext w hm
  · rw [List.nodup_append]
    refine ⟨h.nodupQ, by simp, ?_⟩
    intro a ha b hb; simp at hb; subst hb; intro e; exact hnot (e ▸ ha)
  · intro x hx
    rcases mem_tset.mp hx with ⟨hx, hne⟩ | ⟨rfl, _⟩
    · rw [h.queued_iff x hx]; simp [hne]
    · simp [hq]
  · intro v hv
    rcases List.mem_append.mp hv with hv | hv
    · obtain ⟨y, hy, rfl⟩ := h.sub v hv
      have : y.wid ≠ w'.wid := fun e => hnot (e ▸ hv)
      exact ⟨y, mem_tset.mpr (Or.inl ⟨hy, this⟩), rfl⟩
    · simp at hv; subst hv
      exact ⟨w', mem_tset.mpr (Or.inr ⟨rfl, w, hm, hwid⟩), rfl⟩
  · intro x hx hxq
    rcases mem_tset.mp hx with ⟨hx, _⟩ | ⟨rfl, _⟩
    · exact h.queuedOk x hx hxq
    · exact hok

/-- forget a waiter that is not queued (`Drop for Acquire`) -/
theorem TQ.drop {q T nx} (h : TQ q T nx) {wid : Nat} (hnq : wid ∉ q) : TQ q (tdrop T wid) nx := by
  refine ⟨tdrop_nodup _ h.nodupT, ?_, h.nodupQ, ?_, ?_, ?_⟩
  · intro x hx; exact h.ltNext x (mem_tdrop.mp hx).1
  · intro x hx; exact h.queued_iff x (mem_tdrop.mp hx).1
  · intro v hv
    obtain ⟨y, hy, rfl⟩ := h.sub v hv
    exact ⟨y, mem_tdrop.mpr ⟨hy, fun e => hnq (e ▸ hv)⟩, rfl⟩
  · intro x hx; exact h.queuedOk x (mem_tdrop.mp hx).1

/-- `Acquire::new` -/
theorem TQ.new {q T nx} (h : TQ q T nx) {w : Waiter} (hwid : w.wid = nx) (hq : w.isQueued = false) :
    TQ q (T ++ [w]) (nx + 1) := by
  have hnq : nx ∉ q := by
    intro hin; obtain ⟨y, hy, e⟩ := h.sub nx hin
    have := h.ltNext y hy; omega
  refine ⟨?_, ?_, h.nodupQ, ?_, ?_, ?_⟩
  · unfold WidsNodup
    rw [List.map_append, List.nodup_append]
    refine ⟨h.nodupT, by simp, ?_⟩
    intro a ha b hb
    simp only [List.map_cons, List.map_nil, List.mem_singleton] at hb
    obtain ⟨y, hy, rfl⟩ := List.mem_map.mp ha
    have := h.ltNext y hy
    omega
  · intro x hx
    rcases List.mem_append.mp hx with hx | hx
    · have := h.ltNext x hx; omega
    · simp at hx; subst hx; omega
  · intro x hx
    rcases List.mem_append.mp hx with hx | hx
    · exact h.queued_iff x hx
    · simp at hx; subst hx; simp [hq, hwid, hnq]
  · intro v hv
    obtain ⟨y, hy, rfl⟩ := h.sub v hv
    exact ⟨y, List.mem_append_left _ hy, rfl⟩
  · intro x hx hxq
    rcases List.mem_append.mp hx with hx | hx
    · exact h.queuedOk x hx hxq
    · simp at hx; subst hx; simp [hq] at hxq

theorem TQ.init (nx : Nat) : TQ [] [] nx :=
  ⟨by simp, by simp, by simp, by simp, by simp, by simp⟩

end SemLts
end ShuttleModel
