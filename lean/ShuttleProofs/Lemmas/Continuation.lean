import ShuttleModel.Continuation
/-
  Invariants of the continuation life-cycle (`ShuttleModel/Continuation.lean`).
-/
namespace ShuttleProofs.Continuation
open ShuttleModel ShuttleModel.Continuation

variable {F : Type}

/-- at rest (between calls) the cell holds a function exactly in state `Initialized`, and the coroutine stack
holds a suspended function exactly in state `Ready` -/
structure ContWF (c : Cont F) : Prop where
  fn : c.function.isSome = true ↔ c.state = .initialized
  stack : c.onStack.isSome = true ↔ c.state = .ready

/-- the documented pool invariant ("if c is in this queue, c.reusable() == true"), strengthened by what makes
reuse safe: a pooled continuation holds no function, neither in its cell nor on its stack -/
def PoolInv (p : Pool F) : Prop :=
  ∀ c ∈ p.queue, c.reusable = true ∧ c.function = none ∧ c.onStack = none

theorem reusable_iff (c : Cont F) : c.reusable = true ↔ c.state = .notReady ∨ c.state = .finishedIteration := by
  unfold Cont.reusable; cases c.state <;> simp

theorem wf_of_pooled {c : Cont F} (h : c.reusable = true ∧ c.function = none ∧ c.onStack = none) : ContWF c := by
  obtain ⟨h1, h2, h3⟩ := h
  rcases (reusable_iff c).1 h1 with e | e <;> exact ⟨by simp [h2, e], by simp [h3, e]⟩

theorem new_wf : ContWF (Cont.new : Cont F) := ⟨by simp [Cont.new], by simp [Cont.new]⟩

theorem poolInv_new : PoolInv (Pool.new : Pool F) := by intro c hc; simp [Pool.new] at hc

theorem init_spec {c : Cont F} (h : ContWF c) (f : F) :
    (c.reusable = true → ∃ c', c.init f = .ok c' ∧ ContWF c' ∧ c'.state = .initialized ∧
        c'.function = some f ∧ c'.onStack = none) ∧
    (c.reusable = false → ∃ e, c.init f = .error e) := by
  constructor
  · intro hr
    have hs := (reusable_iff c).1 hr
    have hfn : c.function = none := by
      cases hf : c.function with
      | none => rfl
      | some g =>
        have := h.fn.1 (by simp [hf])
        rcases hs with e | e <;> simp [e] at this
    have hst : c.onStack = none := by
      cases hf : c.onStack with
      | none => rfl
      | some g =>
        have := h.stack.1 (by simp [hf])
        rcases hs with e | e <;> simp [e] at this
    refine ⟨{ c with function := some f, state := .initialized }, by simp [Cont.init, hr, hfn], ⟨by simp, by simp [hst]⟩,
      rfl, rfl, hst⟩
  · intro hr; exact ⟨"shouldn't replace a function before it completes", by simp [Cont.init, hr]⟩

theorem resume_spec {c : Cont F} (h : ContWF c) (o : Cont.StepOutcome) :
    match c.resume o with
    | .ok fin c' fate =>
      (c.state = .initialized ∨ c.state = .ready) ∧ ContWF c' ∧ c'.function = none ∧
        (fin = true ↔ o = .finished) ∧
        (fin = true → c'.state = .finishedIteration ∧ c'.onStack = none ∧ ∃ f, fate = some (.completed f)) ∧
        (fin = false → c'.state = .ready ∧ fate = none)
    | .userPanic c' fate =>
      (c.state = .initialized ∨ c.state = .ready) ∧ o = .panicked ∧ ContWF c' ∧ c'.state = .running ∧
        c'.function = none ∧ c'.onStack = none ∧ ∃ f, fate = .panicked f
    | .assertFailed _ => c.state ≠ .initialized ∧ c.state ≠ .ready := by
  unfold Cont.resume
  cases hs : c.state with
  | initialized =>
    cases hf : c.function with
    | none => have := h.fn.2 hs; simp [hf] at this
    | some f => cases o <;> simp <;> constructor <;> simp
  | ready =>
    cases hf : c.onStack with
    | none => have := h.stack.2 hs; simp [hf] at this
    | some f =>
      have hfn : c.function = none := by
        cases hg : c.function with
        | none => rfl
        | some g => have := h.fn.1 (by simp [hg]); simp [hs] at this
      cases o <;> simp [hfn] <;> constructor <;> simp [hfn, hf]
  | notReady => simp
  | running => simp
  | finishedIteration => simp
  | exited => simp

theorem acquire_spec {p : Pool F} (h : PoolInv p) :
    ContWF p.acquire.1 ∧ p.acquire.1.reusable = true ∧ p.acquire.1.function = none ∧ p.acquire.1.onStack = none ∧
      PoolInv p.acquire.2 := by
  unfold Pool.acquire
  cases hq : p.queue with
  | nil => exact ⟨new_wf, by simp [Cont.new, Cont.reusable], rfl, rfl, h⟩
  | cons c rest =>
    have hc := h c (by simp [hq])
    refine ⟨wf_of_pooled hc, hc.1, hc.2.1, hc.2.2, ?_⟩
    intro d hd
    exact h d (by simp [hq]; exact .inr hd)

/-- spawning a task from a well-formed pool never trips the `debug_assert!`s of `initialize` -/
theorem spawn_spec {p : Pool F} (h : PoolInv p) (f : F) :
    ∃ c p', p.spawn f = .ok (c, p') ∧ ContWF c ∧ c.state = .initialized ∧ c.function = some f ∧
      c.onStack = none ∧ PoolInv p' := by
  obtain ⟨wf, hr, _, _, hp⟩ := acquire_spec h
  obtain ⟨c', e, wf', hs, hf, ho⟩ := (init_spec wf f).1 hr
  refine ⟨c', p.acquire.2, ?_, wf', hs, hf, ho, hp⟩
  unfold Pool.spawn
  simp only [e]

theorem poolInv_push {p : Pool F} (h : PoolInv p) {c : Cont F}
    (hc : c.reusable = true ∧ c.function = none ∧ c.onStack = none) : PoolInv { queue := p.queue ++ [c] } := by
  intro d hd
  simp only [List.mem_append, List.mem_singleton] at hd
  rcases hd with hd | rfl
  · exact h d hd
  · exact hc

/-- everything `Drop for PooledContinuation` can do, by the state of the continuation -/
theorem dropPooled_spec {p : Pool F} (hp : PoolInv p) {c : Cont F} (h : ContWF c) (panicking : Bool)
    (beh : FunctionBehavior) :
    let r := p.dropPooled c panicking beh
    PoolInv r.pool ∧
    (r.pooled = true ↔ c.state = .notReady ∨ c.state = .finishedIteration ∨ c.state = .initialized) ∧
    (c.reusable = true → r.pool.queue = p.queue ++ [c] ∧ r.fate = none) ∧
    (c.state = .initialized → ∃ f, c.function = some f ∧
        r.pool.queue = p.queue ++ [{ c with function := none, state := .notReady }] ∧
        r.fate = some (if panicking = true ∧ beh = .leak then .forgotten f else .droppedUnrun f)) ∧
    (c.state = .ready → r.pooled = false ∧ r.pool = p ∧ ∃ f, c.onStack = some f ∧
        r.fate = some (if panicking = true then .leaked f else .unwound f)) ∧
    (c.state = .running ∨ c.state = .exited → r.pooled = false ∧ r.pool = p ∧ r.fate = none) := by
  have hfn_none : c.state ≠ .initialized → c.function = none := by
    intro hne
    cases hg : c.function with
    | none => rfl
    | some g => exact absurd (h.fn.1 (by simp [hg])) hne
  have hst_none : c.state ≠ .ready → c.onStack = none := by
    intro hne
    cases hg : c.onStack with
    | none => rfl
    | some g => exact absurd (h.stack.1 (by simp [hg])) hne
  cases hs : c.state with
  | notReady =>
    have hr : c.reusable = true := by simp [Cont.reusable, hs]
    simp only [Pool.dropPooled, hr, if_true]
    refine ⟨poolInv_push hp ⟨hr, hfn_none (by simp [hs]), hst_none (by simp [hs])⟩, by simp, by simp, by simp, by simp, by simp⟩
  | finishedIteration =>
    have hr : c.reusable = true := by simp [Cont.reusable, hs]
    simp only [Pool.dropPooled, hr, if_true]
    refine ⟨poolInv_push hp ⟨hr, hfn_none (by simp [hs]), hst_none (by simp [hs])⟩, by simp, by simp, by simp, by simp, by simp⟩
  | initialized =>
    have hr : c.reusable = false := by simp [Cont.reusable, hs]
    obtain ⟨f, hf⟩ : ∃ f, c.function = some f := by
      have := h.fn.2 hs
      cases hg : c.function with
      | none => simp [hg] at this
      | some g => exact ⟨g, rfl⟩
    simp only [Pool.dropPooled, hr, hs]
    refine ⟨poolInv_push hp ⟨by simp [Cont.reusable], rfl, hst_none (by simp [hs])⟩, by simp, by simp, ?_, by simp, by simp⟩
    intro _
    refine ⟨f, hf, by simp, ?_⟩
    cases panicking <;> cases beh <;> simp [hf]
  | ready =>
    have hr : c.reusable = false := by simp [Cont.reusable, hs]
    obtain ⟨f, hf⟩ : ∃ f, c.onStack = some f := by
      have := h.stack.2 hs
      cases hg : c.onStack with
      | none => simp [hg] at this
      | some g => exact ⟨g, rfl⟩
    simp only [Pool.dropPooled, hr, hs]
    refine ⟨hp, by simp, by simp, by simp, ?_, by simp⟩
    intro _
    refine ⟨by simp, by simp, f, hf, ?_⟩
    cases panicking <;> simp [Cont.dropCont, hs, hf]
  | running =>
    have hr : c.reusable = false := by simp [Cont.reusable, hs]
    simp only [Pool.dropPooled, hr, hs]
    refine ⟨hp, by simp, by simp, by simp, by simp, ?_⟩
    intro _
    simp [Cont.dropCont, hs, hst_none (by simp [hs])]
  | exited =>
    have hr : c.reusable = false := by simp [Cont.reusable, hs]
    simp only [Pool.dropPooled, hr, hs]
    refine ⟨hp, by simp, by simp, by simp, by simp, ?_⟩
    intro _
    simp [Cont.dropCont, hs]

end ShuttleProofs.Continuation
