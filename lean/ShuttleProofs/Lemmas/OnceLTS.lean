import ShuttleModel.Prim.Once
/-
  C05 / Once: the LTS of one `Once` cell under a most general client, and its invariant.

  `Once::call_once` is: `OnceState.enter` (one atomic segment; already `Complete` ⇒ return), then a
  full `Mutex.lock` of the internal mutex, then — in the segment in which the lock is obtained —
  the test of the flag: set ⇒ unlock and return; clear ⇒ run the initializer (arbitrary code with
  scheduling points), then `OnceState.finish` (flag := true, `Complete(clock)`, one atomic segment),
  unlock, return.  The internal mutex is abstracted to its holder: *mutual exclusion is a hypothesis
  of this LTS* (it is property C04): `acquire` is enabled only while nobody holds it.  Panicking
  initializers (poisoning) end the execution and are not transitions.
-/
namespace ShuttleProofs.C05
open ShuttleModel ShuttleModel.OnceState

/-- what the holder of the internal mutex is doing -/
inductive OncePhase where
  /-- found the flag set: will unlock and return without running its closure -/
  | skip
  /-- found the flag clear: is running its closure -/
  | init
  /-- has finished its closure and executed `finish`: will unlock and return -/
  | done
deriving DecidableEq, Repr

structure OnceG where
  s : OnceState
  /-- callers that left `enter` with the `Rc<Mutex>` and have not obtained the lock yet -/
  waiting : List Nat
  holder : Option (Nat × OncePhase)

inductive OnceEv where
  /-- first segment of `call_once` by `t`; `complete` = the cell was `Complete`, the call returned -/
  | enter (t : Nat) (complete : Bool)
  /-- `t` obtained the internal mutex and read `flag` -/
  | acquired (t : Nat) (flag : Bool)
  /-- `t`'s initializer has run to its end; the cell is now `Complete` -/
  | initDone (t : Nat)
  /-- `t` unlocked the internal mutex and returned from `call_once`; `ran` = its closure ran -/
  | ret (t : Nat) (ran : Bool)
  /-- `is_completed()` by `t` -/
  | isCompleted (t : Nat) (res : Bool)
deriving DecidableEq, Repr

def OnceG.busy (g : OnceG) (t : Nat) : Prop := t ∈ g.waiting ∨ ∃ ph, g.holder = some (t, ph)

inductive OnceStep : OnceG → OnceEv → OnceG → Prop where
  | enterDone {g : OnceG} {t : Nat} {c : Clock} :
      ¬ g.busy t → g.s.enter.2 = some c →
      OnceStep g (.enter t true) { g with s := g.s.enter.1 }
  | enterRace {g : OnceG} {t : Nat} :
      ¬ g.busy t → g.s.enter.2 = none →
      OnceStep g (.enter t false) { g with s := g.s.enter.1, waiting := t :: g.waiting }
  /-- hypothesis C04: the lock is granted only when nobody holds it -/
  | acquire {g : OnceG} {t : Nat} :
      t ∈ g.waiting → g.holder = none →
      OnceStep g (.acquired t (g.s.flag != 0))
        { g with waiting := g.waiting.filter (· != t),
                 holder := some (t, if g.s.flag != 0 then .skip else .init) }
  | initDone {g : OnceG} {t : Nat} {c : Clock} :
      g.holder = some (t, .init) →
      OnceStep g (.initDone t) { g with s := g.s.finish c, holder := some (t, .done) }
  | unlockSkip {g : OnceG} {t : Nat} :
      g.holder = some (t, .skip) → OnceStep g (.ret t false) { g with holder := none }
  | unlockDone {g : OnceG} {t : Nat} :
      g.holder = some (t, .done) → OnceStep g (.ret t true) { g with holder := none }
  | isCompleted {g : OnceG} {t : Nat} :
      OnceStep g (.isCompleted t g.s.isCompleted.isSome) g

def onceInit : OnceG := ⟨{}, [], none⟩

inductive OnceReach : List OnceEv → OnceG → Prop where
  | init : OnceReach [] onceInit
  | step {h : List OnceEv} {g : OnceG} {e : OnceEv} {g' : OnceG} :
      OnceReach h g → OnceStep g e g' → OnceReach (e :: h) g'

/-- how many callers started running their initializer -/
def initRuns (h : List OnceEv) : Nat :=
  h.countP (fun e => match e with | .acquired _ false => true | _ => false)

@[simp] theorem enter_flag (s : OnceState) : s.enter.1.flag = s.flag := by
  unfold OnceState.enter OnceState.flag
  cases hm : s.mutex <;> simp [hm]

@[simp] theorem enter_complete (s : OnceState) : s.enter.1.complete = s.complete := by
  unfold OnceState.enter
  cases hm : s.mutex <;> simp

@[simp] theorem enter_snd (s : OnceState) : s.enter.2 = s.complete := by
  unfold OnceState.enter
  cases hm : s.mutex <;> simp

@[simp] theorem finish_flag (s : OnceState) (c : Clock) : (s.finish c).flag = 1 := by
  simp [OnceState.finish, OnceState.flag]

@[simp] theorem finish_complete (s : OnceState) (c : Clock) : (s.finish c).complete = some c := rfl

structure OnceInv (h : List OnceEv) (g : OnceG) : Prop where
  flag_iff : g.s.flag ≠ 0 ↔ g.s.complete.isSome = true
  done_iff : g.s.complete.isSome = true ↔ ∃ t, OnceEv.initDone t ∈ h
  phase : ∀ t ph, g.holder = some (t, ph) → (ph = .init → g.s.complete = none) ∧
      (ph ≠ .init → g.s.complete.isSome = true)
  runs : (initRuns h = 0 ∧ g.s.complete = none ∧ ∀ t, g.holder ≠ some (t, .init)) ∨
      (initRuns h = 1 ∧ (g.s.complete.isSome = true ∨ ∃ t, g.holder = some (t, .init)))

theorem onceInv_init : OnceInv [] onceInit := by
  constructor <;> simp [onceInit, OnceState.flag, initRuns]

theorem initRuns_cons (e : OnceEv) (h : List OnceEv) :
    initRuns (e :: h) = initRuns h + (match e with | .acquired _ false => 1 | _ => 0) := by
  unfold initRuns
  rw [List.countP_cons]
  cases e with
  | acquired t f => cases f <;> simp
  | _ => simp

theorem onceInv_step {h : List OnceEv} {g : OnceG} (I : OnceInv h g) {e : OnceEv} {g' : OnceG}
    (hs : OnceStep g e g') : OnceInv (e :: h) g' := by
  have hdone_mono : ∀ e', (∀ t, e' ≠ OnceEv.initDone t) →
      ((∃ t, OnceEv.initDone t ∈ e' :: h) ↔ ∃ t, OnceEv.initDone t ∈ h) := by
    intro e' hne
    constructor
    · rintro ⟨t, ht⟩
      rcases List.mem_cons.1 ht with ht | ht
      · exact absurd ht.symm (hne t)
      · exact ⟨t, ht⟩
    · rintro ⟨t, ht⟩
      exact ⟨t, List.mem_cons_of_mem _ ht⟩
  cases hs with
  | enterDone _ _ =>
    constructor
    · simpa using I.flag_iff
    · rw [hdone_mono _ (by intro t h; cases h)]; simpa using I.done_iff
    · simpa using I.phase
    · rw [initRuns_cons]; simpa using I.runs
  | enterRace _ _ =>
    constructor
    · simpa using I.flag_iff
    · rw [hdone_mono _ (by intro t h; cases h)]; simpa using I.done_iff
    · simpa using I.phase
    · rw [initRuns_cons]; simpa using I.runs
  | @acquire t hw hh =>
    constructor
    · exact I.flag_iff
    · rw [hdone_mono _ (by intro t h; cases h)]; exact I.done_iff
    · intro t' ph hph
      simp only [Option.some.injEq, Prod.mk.injEq] at hph
      obtain ⟨rfl, rfl⟩ := hph
      by_cases hf : g.s.flag = 0
      · have hc : g.s.complete = none := by
          cases hx : g.s.complete with
          | none => rfl
          | some c => exact absurd hf (I.flag_iff.2 (by simp [hx]))
        simp [hf, hc]
      · have hc := I.flag_iff.1 hf
        simp [hf, hc]
    · rw [initRuns_cons]
      by_cases hf : g.s.flag = 0
      · have hc : g.s.complete = none := by
          cases hx : g.s.complete with
          | none => rfl
          | some c => exact absurd hf (I.flag_iff.2 (by simp [hx]))
        rcases I.runs with ⟨h0, _, _⟩ | ⟨_, h1 | ⟨t', h1⟩⟩
        · right; simp [hf, h0]
        · rw [hc] at h1; cases h1
        · rw [hh] at h1; cases h1
      · have hc := I.flag_iff.1 hf
        rcases I.runs with ⟨_, h0, _⟩ | ⟨h1, _⟩
        · rw [h0] at hc; cases hc
        · right; simp [hf, h1, hc]
  | @initDone t c hh =>
    constructor
    · simp
    · simp only [finish_complete, Option.isSome_some, true_iff]
      exact ⟨t, List.mem_cons_self ..⟩
    · intro t' ph hph
      simp only [Option.some.injEq, Prod.mk.injEq] at hph
      obtain ⟨rfl, rfl⟩ := hph
      simp
    · rw [initRuns_cons]
      rcases I.runs with ⟨_, _, h0⟩ | ⟨h1, _⟩
      · exact absurd hh (h0 t)
      · right; simp [h1]
  | @unlockSkip t hh =>
    constructor
    · exact I.flag_iff
    · rw [hdone_mono _ (by intro t h; cases h)]; exact I.done_iff
    · intro t' ph hph; cases hph
    · rw [initRuns_cons]
      rcases I.runs with ⟨h0, h1, _⟩ | ⟨h1, h2 | ⟨t', h2⟩⟩
      · left; exact ⟨by simpa using h0, h1, fun t' h => by cases h⟩
      · right; exact ⟨by simpa using h1, Or.inl h2⟩
      · rw [hh] at h2; cases h2
  | @unlockDone t hh =>
    have hc := (I.phase t .done hh).2 (by decide)
    constructor
    · exact I.flag_iff
    · rw [hdone_mono _ (by intro t h; cases h)]; exact I.done_iff
    · intro t' ph hph; cases hph
    · rw [initRuns_cons]
      rcases I.runs with ⟨_, h1, _⟩ | ⟨h1, _⟩
      · rw [h1] at hc; cases hc
      · right; exact ⟨by simpa using h1, Or.inl hc⟩
  | isCompleted =>
    constructor
    · exact I.flag_iff
    · rw [hdone_mono _ (by intro t h; cases h)]; exact I.done_iff
    · exact I.phase
    · rw [initRuns_cons]; simpa using I.runs

theorem onceReach_inv {h : List OnceEv} {g : OnceG} (hr : OnceReach h g) : OnceInv h g := by
  induction hr with
  | init => exact onceInv_init
  | step _ hs ih => exact onceInv_step ih hs

end ShuttleProofs.C05
