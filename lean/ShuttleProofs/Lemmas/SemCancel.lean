import ShuttleProofs.Lemmas.SemMore
/-
  Cancellation (`Drop for Acquire`), the closed semaphore, and `try_acquire` vs. a first poll.
-/
namespace ShuttleModel
namespace SemLts
open Sem (PollOut)

/-! ### when does `acquire_permits` succeed -/

theorem acquirePermits_ok_iff (s : SemState) (n : Nat) (c : Clock) :
    (∃ s' pc, s.acquirePermits n c = .ok (.ok (s', pc))) ↔
      0 < n ∧ s.closed = false ∧ (s.queue = [] ∨ s.fair = false) ∧ n ≤ s.avail := by
  constructor
  · rintro ⟨s', pc, h⟩
    obtain ⟨h1, h2, h3, h4⟩ := acquirePermits_ok h
    refine ⟨h1, h2, h3, ?_⟩
    have := (paAcquire_isSome s n c).mp (by rw [h4]; rfl)
    exact this
  · rintro ⟨h1, h2, h3, h4⟩
    have hs := (paAcquire_isSome s n c).mpr h4
    cases hpa : s.paAcquire n c with
    | none => rw [hpa] at hs; cases hs
    | some r =>
      refine ⟨r.1, r.2, ?_⟩
      unfold SemState.acquirePermits
      have hq : (s.queue.isEmpty || !s.fair) = true := by
        rcases h3 with h | h <;> simp [h]
      rw [if_neg (by omega), if_neg (by simp [h2]), if_pos hq, hpa]

/-! ### `closed` is permanent -/

theorem unblockFront_closed (fin : Nat → Bool) (q : List Nat) (s : SemState) :
    (SemState.unblockFront fin q s).1.closed = s.closed := (unblockFront_spec fin q s).closed

theorem step_closed_mono (fin : Nat → Bool) {s : SemState} {op : SemOp} {o : StepOut} (hi : Inv s)
    (h : step fin s op = .ok o) (hc : s.closed = true) : o.s.closed = true := by
  cases op with
  | tryAcquire task n clk =>
    simp only [step] at h
    cases hacq : s.acquirePermits n clk with
    | error msg => rw [hacq] at h; cases h
    | ok r =>
      rw [hacq] at h
      cases r with
      | ok p =>
        obtain ⟨h1, h2, _⟩ := acquirePermits_ok hacq
        rw [hc] at h2; cases h2
      | error e =>
        simp only [Except.ok.injEq] at h
        subst h; exact hc
  | newAcq task n clk =>
    simp only [step, Except.ok.injEq] at h
    subst h; exact hc
  | poll wid me cx clk =>
    simp only [step] at h
    cases hw : s.getW wid with
    | none => rw [hw] at h; cases h
    | some w0 =>
      rw [hw] at h
      simp only at h
      by_cases hcm : w0.completed = true
      · rw [if_pos hcm] at h; cases h
      · rw [if_neg hcm] at h
        cases hpp : s.pollPure wid me cx clk fin with
        | error msg => rw [hpp] at h; cases h
        | ok po =>
          rw [hpp] at h
          simp only [Except.ok.injEq] at h
          subst h
          cases pollPure_cases hw hpp with
          | granted hp hq ho => subst ho; exact hc
          | closed hp hc' hq ho => subst ho; exact hc
          | acquiredFresh hp hc' => rw [hc] at hc'; cases hc'
          | acquiredQueued hp hc' => rw [hc] at hc'; cases hc'
          | enqueued hp hc' => rw [hc] at hc'; cases hc'
          | stillQueued hp hc' => rw [hc] at hc'; cases hc'
          | fairWait hp hc' => rw [hc] at hc'; cases hc'
  | dropAcquire task wid =>
    simp only [step] at h
    cases hw : s.getW wid with
    | none =>
      rw [hw] at h
      simp only [Except.ok.injEq] at h
      subst h; exact hc
    | some w =>
      rw [hw] at h
      simp only at h
      by_cases hq : w.isQueued = true
      · have hin := (hi.tq.queued_of_tget (by rw [← getW_eq]; exact hw)).mp hq
        rw [hi.closedEmpty hc] at hin; cases hin
      · rw [if_neg hq] at h
        by_cases hg : (w.hasPermits && !w.completed) = true
        · rw [if_pos hg] at h
          simp only [Except.ok.injEq] at h
          subst h; exact hc
        · rw [if_neg hg] at h
          simp only [Except.ok.injEq] at h
          subst h; exact hc
  | release task n clk =>
    simp only [step] at h
    by_cases hn : n = 0
    · rw [if_pos hn] at h
      simp only [Except.ok.injEq] at h
      subst h; exact hc
    · rw [if_neg hn] at h
      simp only [Except.ok.injEq] at h
      subst h
      simp only [SemState.releasePure]
      by_cases hf : (s.paRelease n clk).fair = true
      · rw [if_pos hf, unblockFront_closed]; exact hc
      · rw [if_neg hf]; exact hc
  | close =>
    simp only [step, Except.ok.injEq] at h
    subst h
    exact (closePure_spec fin hi).2.2.2.1
  | poisonRelease task n =>
    simp only [step] at h
    by_cases hn : n = 0
    · rw [if_pos hn] at h
      simp only [Except.ok.injEq] at h
      subst h; exact hc
    · rw [if_neg hn] at h
      simp only [Except.ok.injEq] at h
      subst h
      exact (releasePoison_spec n hi).2.2.1

/-! ### cancellation -/

theorem getW_dropW_self (s : SemState) (wid : Nat) : (s.dropW wid).getW wid = none := by
  rw [getW_eq, dropW_table, tget_tdrop]; simp

theorem getW_dropW_ne (s : SemState) {wid wid' : Nat} (h : wid' ≠ wid) :
    (s.dropW wid).getW wid' = s.getW wid' := by
  rw [getW_eq, dropW_table, tget_tdrop]; simp [h]; rfl

/-- `Drop for Acquire` leaves no trace: the waiter is neither in the table nor in the queue -/
theorem drop_no_trace (fin : Nat → Bool) {s : SemState} {task wid : Nat} {o : StepOut} (hi : Inv s)
    (h : step fin s (.dropAcquire task wid) = .ok o) :
    o.s.getW wid = none ∧ wid ∉ o.s.queue ∧ ∀ w ∈ o.s.table, w.wid ≠ wid := by
  have key : o.s.getW wid = none → Inv o.s →
      o.s.getW wid = none ∧ wid ∉ o.s.queue ∧ ∀ w ∈ o.s.table, w.wid ≠ wid := by
    intro hg hi'
    refine ⟨hg, ?_, tget_none_iff.mp hg⟩
    intro hin
    obtain ⟨w, hw, _⟩ := hi'.tq.tget_of_mem_queue hin
    rw [getW_eq] at hg; rw [hg] at hw; cases hw
  have hinv := (step_spec fin hi h).1
  refine key ?_ hinv
  simp only [step] at h
  cases hw : s.getW wid with
  | none =>
    rw [hw] at h
    simp only [Except.ok.injEq] at h
    subst h; exact hw
  | some w =>
    rw [hw] at h
    simp only at h
    by_cases hq : w.isQueued = true
    · rw [if_pos hq] at h
      cases hrm : s.removeWaiterPure fin wid with
      | error msg => rw [hrm] at h; cases h
      | ok r =>
        obtain ⟨s', effs⟩ := r
        rw [hrm] at h
        simp only [Except.ok.injEq] at h
        subst h
        exact getW_dropW_self _ _
    · rw [if_neg hq] at h
      by_cases hg : (w.hasPermits && !w.completed) = true
      · rw [if_pos hg] at h
        simp only [Except.ok.injEq] at h
        subst h; exact getW_dropW_self _ _
      · rw [if_neg hg] at h
        simp only [Except.ok.injEq] at h
        subst h; exact getW_dropW_self _ _

/-- dropping an `Acquire` whose permits were granted but never consumed hands exactly `w.n` permits
to a full `release`; `avail` itself is not touched by the drop -/
theorem drop_granted (fin : Nat → Bool) {s : SemState} {task wid : Nat} {w : Waiter}
    (hw : s.getW wid = some w) (hp : w.hasPermits = true) (hc : w.completed = false)
    (hq : w.isQueued = false) :
    step fin s (.dropAcquire task wid) = .ok { s := s.dropW wid, out := .dropped w.n } := by
  simp only [step, hw]
  rw [if_neg (by simp [hq]), if_pos (by simp [hp, hc])]

/-- dropping a completed (or never polled) `Acquire` just forgets it -/
theorem drop_plain (fin : Nat → Bool) {s : SemState} {task wid : Nat} {w : Waiter}
    (hw : s.getW wid = some w) (hq : w.isQueued = false)
    (hpc : (w.hasPermits && !w.completed) = false) :
    step fin s (.dropAcquire task wid) = .ok { s := s.dropW wid, out := .dropped 0 } := by
  simp only [step, hw]
  rw [if_neg (by simp [hq]), if_neg (by simp [hpc])]

theorem Served.congr {fin : Nat → Bool} {s r s2 r2 : SemState} {effs : List Eff} {wid : Nat}
    (h : Served fin s r effs wid) (hs : s2.getW wid = s.getW wid) (hr : r2.getW wid = r.getW wid) :
    Served fin s2 r2 effs wid := by
  cases h with
  | stale w hw hf hr' => exact .stale w (hs ▸ hw) hf (hr ▸ hr')
  | granted w hw hf hr' hu hwk => exact .granted w (hs ▸ hw) hf (hr ▸ hr') hu hwk

/-- dropping the head waiter of a strictly fair semaphore: the successors that now fit are served
in queue order (a prefix `pre` of the remaining queue), the new head does not fit -/
theorem drop_fair_head (fin : Nat → Bool) {s : SemState} {task wid : Nat} {rest : List Nat}
    {o : StepOut} (hi : Inv s) (hf : s.fair = true) (hq : s.queue = wid :: rest)
    (h : step fin s (.dropAcquire task wid) = .ok o) :
    o.out = .dropped 0 ∧
    ∃ pre, rest = pre ++ o.s.queue ∧ (∀ x ∈ pre, Served fin s o.s o.effs x) ∧ HeadBlocked o.s := by
  obtain ⟨w, hw, hwq⟩ := hi.tq.tget_of_mem_queue (wid := wid) (by rw [hq]; exact List.mem_cons_self ..)
  rw [← getW_eq] at hw
  have hwid : w.wid = wid := (tget_some_mem hw).2
  have hinv := (step_spec fin hi h).1
  simp only [step, hw] at h
  rw [if_pos hwq] at h
  cases hrm : s.removeWaiterPure fin wid with
  | error msg => rw [hrm] at h; cases h
  | ok r =>
    obtain ⟨s', effs⟩ := r
    rw [hrm] at h
    simp only [Except.ok.injEq] at h
    subst h
    refine ⟨rfl, ?_⟩
    obtain ⟨w', idx, hw', hnc, hp, hidx⟩ := removeWaiterPure_pre hrm
    rw [hw] at hw'; cases hw'
    have hidx0 : idx = 0 := by
      rw [hq, List.findIdx?_cons] at hidx
      simpa using hidx.symm
    subst hidx0
    rw [removeWaiterPure_eq fin hw hnc hp hidx, if_pos (by simp [hf])] at hrm
    simp only [Except.ok.injEq] at hrm
    have r_queue : (rmState s w 0).queue = rest := by simp [rmState, hq]
    have r_table : (rmState s w 0).table = tset s.table { w with isQueued := false } := rfl
    have htq : TQ (rmState s w 0).queue (rmState s w 0).table s.nextWid := by
      have := hi.tq.erase (w := w) (w' := { w with isQueued := false })
        (by rw [← getW_eq]; simpa [hwid] using hw) rfl
      rw [r_queue, r_table]
      simpa [hwid, hq] using this
    obtain ⟨pre, hpre, hserved⟩ := unblockFront_served fin (rmState s w 0).queue (rmState s w 0) _ htq
    rw [hrm] at hpre hserved
    simp only at hpre hserved
    have hnotin : wid ∉ rest := by
      have := hi.tq.nodupQ; rw [hq] at this; exact (List.nodup_cons.mp this).1
    have sp := unblockFront_spec fin (rmState s w 0).queue (rmState s w 0)
    rw [hrm] at sp
    have hfair : (s'.dropW wid).fair = true := by
      rw [dropW_fair, sp.fair]; exact hf
    refine ⟨pre, by rw [← r_queue]; exact hpre, ?_, hinv.headBlocked hfair⟩
    intro x hx
    have hxr : x ∈ rest := by rw [← r_queue, hpre]; exact List.mem_append_left _ hx
    have hne : x ≠ wid := fun e => hnotin (e ▸ hxr)
    refine (hserved x hx).congr ?_ (getW_dropW_ne _ hne)
    show tget s.table x = tget (tset s.table { w with isQueued := false }) x
    exact (tget_tset_ne (by simpa [hwid] using hne)).symm

/-! ### the closed semaphore -/

theorem tryAcquire_closed (fin : Nat → Bool) {s : SemState} (task : Nat) {n : Nat} (clk : Clock)
    (hc : s.closed = true) (hn : 0 < n) :
    step fin s (.tryAcquire task n clk) = .ok { s := s, out := .tried (.error .closed) } := by
  simp only [step, SemState.acquirePermits]
  rw [if_neg (by omega), if_pos hc]

theorem poll_closed (fin : Nat → Bool) {s : SemState} {wid me cx : Nat} {clk : Clock} {o : StepOut}
    {w0 : Waiter} (hc : s.closed = true) (hw : s.getW wid = some w0)
    (h : step fin s (.poll wid me cx clk) = .ok o) :
    o.out = .polled (.ready w0.hasPermits) ∧ o.s.avail = s.avail := by
  simp only [step, hw] at h
  by_cases hcm : w0.completed = true
  · rw [if_pos hcm] at h; cases h
  · rw [if_neg hcm] at h
    cases hpp : s.pollPure wid me cx clk fin with
    | error msg => rw [hpp] at h; cases h
    | ok po =>
      rw [hpp] at h
      simp only [Except.ok.injEq] at h
      subst h
      cases pollPure_cases hw hpp with
      | granted hp hq ho => subst ho; exact ⟨by simp [hp], rfl⟩
      | closed hp hc' hq ho => subst ho; exact ⟨by simp [hp], rfl⟩
      | acquiredFresh hp hc' => rw [hc] at hc'; cases hc'
      | acquiredQueued hp hc' => rw [hc] at hc'; cases hc'
      | enqueued hp hc' => rw [hc] at hc'; cases hc'
      | stillQueued hp hc' => rw [hc] at hc'; cases hc'
      | fairWait hp hc' => rw [hc] at hc'; cases hc'

/-- a poll on a closed semaphore cannot panic (its assertions hold by the invariant) -/
theorem poll_closed_progress (fin : Nat → Bool) {s : SemState} {wid me cx : Nat} {clk : Clock}
    {w0 : Waiter} (hi : Inv s) (hc : s.closed = true) (hw : s.getW wid = some w0)
    (hnc : w0.completed = false) :
    ∃ o, step fin s (.poll wid me cx clk) = .ok o := by
  have hq : w0.isQueued = false := by
    cases hq : w0.isQueued with
    | false => rfl
    | true =>
      have hin := (hi.tq.queued_of_tget (by rw [← getW_eq]; exact hw)).mp hq
      rw [hi.closedEmpty hc] at hin; cases hin
  simp only [step, hw, hnc, Bool.false_eq_true, if_false, SemState.pollPure, hq, hc, if_true]
  by_cases hp : w0.hasPermits = true
  · simp [hp]
  · simp [hp]

end SemLts
end ShuttleModel
