import ShuttleProofs.Lemmas.SemRun
/-
  The internal assertions of batch_semaphore.rs never fail: in every reachable state the model's
  error branches of `poll` / `Drop for Acquire` are unreachable, except the documented
  `assert!(num_permits > 0)` of `acquire_permits`.

  This needs one more invariant, the one `Acquire::poll` asserts with
  `assert_eq!(is_queued, waker.is_some())`: a waiter that is not queued has no waker registered —
  unless it holds permits / is completed / the semaphore is closed (those paths never look at it).
-/
namespace ShuttleModel
namespace SemLts
open Sem (PollOut)

/-- local condition on one waiter (`c` = the semaphore is closed) -/
def wakerCond (c : Bool) (w : Waiter) : Prop :=
  w.isQueued = false → w.waker = none ∨ w.hasPermits = true ∨ w.completed = true ∨ c = true

/-- every waiter except possibly `ex` satisfies `wakerCond` -/
def WOkX (ex : Option Nat) (c : Bool) (T : List Waiter) : Prop :=
  ∀ w ∈ T, some w.wid ≠ ex → wakerCond c w

abbrev WOk (c : Bool) (T : List Waiter) : Prop := WOkX none c T

theorem WOkX.tset {ex : Option Nat} {c : Bool} {T : List Waiter} (h : WOkX ex c T) {w' : Waiter}
    (hw : some w'.wid ≠ ex → wakerCond c w') : WOkX ex c (SemLts.tset T w') := by
  intro x hx hne
  rcases mem_tset.mp hx with ⟨hx, _⟩ | ⟨rfl, _⟩
  · exact h x hx hne
  · exact hw hne

/-- overwriting the exceptional waiter with a good one restores the invariant -/
theorem WOkX.tset_ex {c : Bool} {T : List Waiter} {w' : Waiter} (h : WOkX (some w'.wid) c T)
    (hw : wakerCond c w') : WOk c (SemLts.tset T w') := by
  intro x hx _
  rcases mem_tset.mp hx with ⟨hx, hne⟩ | ⟨rfl, _⟩
  · exact h x hx (by simpa using hne)
  · exact hw

theorem WOkX.tdrop_ex {c : Bool} {T : List Waiter} {wid : Nat} (h : WOkX (some wid) c T) :
    WOk c (SemLts.tdrop T wid) := by
  intro x hx _
  obtain ⟨hx, hne⟩ := mem_tdrop.mp hx
  exact h x hx (by simpa using hne)

theorem WOkX.tdrop {ex : Option Nat} {c : Bool} {T : List Waiter} (wid : Nat) (h : WOkX ex c T) :
    WOkX ex c (SemLts.tdrop T wid) := fun x hx hne => h x (mem_tdrop.mp hx).1 hne

theorem WOkX.weaken {c : Bool} {T : List Waiter} (ex : Option Nat) (h : WOk c T) : WOkX ex c T :=
  fun x hx _ => h x hx (by simp)

theorem WOkX.closed {ex : Option Nat} (T : List Waiter) : WOkX ex true T :=
  fun _ _ _ _ => Or.inr (Or.inr (Or.inr rfl))

theorem unblockFront_wok (fin : Nat → Bool) (ex : Option Nat) (q : List Nat) (s : SemState)
    (h : WOkX ex s.closed s.table) :
    WOkX ex (SemState.unblockFront fin q s).1.closed (SemState.unblockFront fin q s).1.table := by
  induction q generalizing s with
  | nil => exact h
  | cons wid rest ih =>
    rw [SemState.unblockFront]
    cases hw : s.getW wid with
    | none => exact ih s h
    | some w =>
      simp only
      by_cases hf : fin w.taskId = true
      · rw [if_pos hf]
        exact ih (s.setW (staleW w)) (h.tset (fun _ _ => Or.inl rfl))
      · rw [if_neg hf]
        by_cases hfit : w.n ≤ s.avail
        · rw [if_pos hfit]
          cases hpa : s.paAcquire w.n w.clock with
          | none => exact h
          | some r =>
            obtain ⟨s', c⟩ := r
            simp only
            obtain ⟨fr, _, _⟩ := paAcquire_some hpa
            have h' : WOkX ex s'.closed s'.table := by rw [fr.closed, fr.table]; exact h
            exact ih (s'.setW (grantedW w)) (h'.tset (fun _ _ => Or.inl rfl))
        · rw [if_neg hfit]; exact h

/-- the full invariant used for panic-freedom -/
structure Inv2 (s : SemState) : Prop where
  inv : Inv s
  wok : WOk s.closed s.table

theorem Inv2.new (n : Nat) (fair : Bool) (c : Clock) : Inv2 (SemState.new n fair c) :=
  ⟨Inv.new n fair c, by intro w hw; simp [SemState.new] at hw⟩

theorem Inv2.constNew (n : Nat) (fair : Bool) : Inv2 (SemState.constNew n fair) :=
  ⟨Inv.constNew n fair, by intro w hw; simp [SemState.constNew] at hw⟩

/-! ### `remove_waiter` never fails on a queued waiter of an open semaphore -/

theorem removeWaiterPure_progress (fin : Nat → Bool) {s : SemState} {wid : Nat} {w : Waiter}
    (hi : Inv s) (hw : s.getW wid = some w) (hq : w.isQueued = true) :
    ∃ r, s.removeWaiterPure fin wid = .ok r := by
  have hin : wid ∈ s.queue := (hi.tq.queued_of_tget (by rw [← getW_eq]; exact hw)).mp hq
  have hnc : s.closed = false := by
    cases hc : s.closed with
    | false => rfl
    | true => rw [hi.closedEmpty hc] at hin; cases hin
  have hp : w.hasPermits = false := (hi.tq.queuedOk w (tget_some_mem hw).1 hq).1
  cases hidx : s.queue.findIdx? (· == wid) with
  | none =>
    rw [List.findIdx?_eq_none_iff] at hidx
    have := hidx wid hin
    simp at this
  | some idx =>
    rw [removeWaiterPure_eq fin hw hnc hp hidx]
    by_cases hb : (s.fair && idx == 0) = true
    · rw [if_pos hb]; exact ⟨_, rfl⟩
    · rw [if_neg hb]; exact ⟨_, rfl⟩

theorem removeWaiterPure_wok (fin : Nat → Bool) {s s' : SemState} {effs : List Eff} {wid : Nat}
    (hw2 : WOk s.closed s.table) (h : s.removeWaiterPure fin wid = .ok (s', effs)) :
    WOkX (some wid) s'.closed s'.table := by
  obtain ⟨w, idx, hw, hnc, hp, hidx⟩ := removeWaiterPure_pre h
  rw [removeWaiterPure_eq fin hw hnc hp hidx] at h
  have hwid : w.wid = wid := (tget_some_mem hw).2
  have h2 : WOkX (some wid) (rmState s w idx).closed (rmState s w idx).table := by
    show WOkX (some wid) s.closed (tset s.table { w with isQueued := false })
    exact (WOkX.weaken (some wid) hw2).tset (fun hne => absurd (by simp [hwid]) hne)
  by_cases hb : (s.fair && idx == 0) = true
  · rw [if_pos hb] at h
    simp only [Except.ok.injEq] at h
    have := unblockFront_wok fin (some wid) (rmState s w idx).queue (rmState s w idx) h2
    rw [h] at this; exact this
  · rw [if_neg hb] at h
    simp only [Except.ok.injEq, Prod.mk.injEq] at h
    rw [← h.1]; exact h2

/-! ### `poll`: the only way to panic is `acquire(0)` -/

theorem pollPure_progress {s : SemState} {wid me cx : Nat} {clk : Clock} {fin : Nat → Bool}
    {w0 : Waiter} (hi : Inv2 s) (hw : s.getW wid = some w0) (hnc : w0.completed = false)
    (hn : 0 < w0.n ∨ w0.hasPermits = true ∨ s.closed = true) :
    ∃ o, s.pollPure wid me cx clk fin = .ok o := by
  have hwid : w0.wid = wid := (tget_some_mem hw).2
  have hmem : w0 ∈ s.table := (tget_some_mem hw).1
  have hqp : w0.isQueued = true → w0.hasPermits = false ∧ w0.waker.isSome = true ∧ s.closed = false := by
    intro hq
    have h1 := hi.inv.tq.queuedOk w0 hmem hq
    refine ⟨h1.1, h1.2.2.1, ?_⟩
    cases hc : s.closed with
    | false => rfl
    | true =>
      have hin := (hi.inv.tq.queued_iff w0 hmem).mp hq
      rw [hi.inv.closedEmpty hc] at hin; cases hin
  unfold SemState.pollPure
  rw [hw]
  simp only
  by_cases hp : w0.hasPermits = true
  · rw [if_pos hp]
    have hq : ¬ w0.isQueued = true := fun hq => by rw [(hqp hq).1] at hp; cases hp
    rw [if_neg hq]; exact ⟨_, rfl⟩
  · rw [if_neg hp]
    by_cases hc : s.closed = true
    · rw [if_pos hc]
      have hq : ¬ w0.isQueued = true := fun hq => by rw [(hqp hq).2.2] at hc; cases hc
      rw [if_neg hq]; exact ⟨_, rfl⟩
    · rw [if_neg hc]
      have hn' : 0 < w0.n := by
        rcases hn with h | h | h
        · exact h
        · exact absurd h hp
        · exact absurd h hc
      have hqw : ¬ (w0.isQueued != w0.waker.isSome) = true := by
        cases hq : w0.isQueued with
        | true => rw [(hqp hq).2.1]; simp
        | false =>
          rcases hi.wok w0 hmem (by simp) hq with h | h | h | h
          · rw [h]; simp
          · exact absurd h hp
          · rw [hnc] at h; cases h
          · exact absurd h hc
      rw [if_neg hqw]
      by_cases hfq : (!(s.fair && w0.isQueued)) = true
      · rw [if_pos hfq]
        cases hacq : s.acquirePermits w0.n clk with
        | error msg =>
          exfalso
          unfold SemState.acquirePermits at hacq
          rw [if_neg (by omega)] at hacq
          by_cases h1 : s.closed = true
          · rw [if_pos h1] at hacq; cases hacq
          · rw [if_neg h1] at hacq
            by_cases h2 : (s.queue.isEmpty || !s.fair) = true
            · rw [if_pos h2] at hacq
              cases hpa : s.paAcquire w0.n clk <;> rw [hpa] at hacq <;> cases hacq
            · rw [if_neg h2] at hacq; cases hacq
        | ok r =>
          cases r with
          | ok p =>
            obtain ⟨s', pc⟩ := p
            simp only
            obtain ⟨i1, _, ht, _⟩ := acquirePermits_inv hi.inv hacq
            have hw1 : s'.getW (polled w0).wid = some w0 := by
              rw [getW_eq, ht, polled_wid, hwid]; exact hw
            by_cases hq : w0.isQueued = true
            · rw [if_pos hq]
              have hq0 := hi.inv.tq.queuedOk w0 hmem hq
              obtain ⟨i2, _⟩ := i1.setW_same (w1 := polled w0) hw1 rfl rfl
                (by intro _; exact ⟨hq0.1, hnc, hq0.2.2.1, hq0.2.2.2⟩) rfl rfl
              have hg1 : (s'.setW (polled w0)).getW wid = some (polled w0) := by
                have := getW_setW_self hw1; rwa [polled_wid, hwid] at this
              obtain ⟨r, hr⟩ := removeWaiterPure_progress fin i2 hg1 hq
              obtain ⟨s3, effs⟩ := r
              have hr' : (s'.setW { w0 with neverPolled := false }).removeWaiterPure fin wid
                  = .ok (s3, effs) := hr
              rw [hr']
              simp only
              obtain ⟨w, hgw, _, rs⟩ := removeWaiterPure_spec fin i2 hr
              rw [rs.getW]; exact ⟨_, rfl⟩
            · rw [if_neg hq]
              simp only
              have hg1 : (s'.setW (polled w0)).getW wid = some (polled w0) := by
                have := getW_setW_self hw1; rwa [polled_wid, hwid] at this
              have hg1' : (s'.setW { w0 with neverPolled := false }).getW wid
                  = some { w0 with neverPolled := false } := hg1
              rw [hg1']; exact ⟨_, rfl⟩
          | error e =>
            cases e with
            | closed => exact absurd (acquirePermits_closed hacq) hc
            | noPermits =>
              simp only
              by_cases hq : (!w0.isQueued) = true
              · rw [if_pos hq]; exact ⟨_, rfl⟩
              · rw [if_neg hq]; exact ⟨_, rfl⟩
      · rw [if_neg hfq]; exact ⟨_, rfl⟩

/-! ### preservation of the waker invariant -/

theorem wakerCond_of {c : Bool} {w : Waiter}
    (h : w.waker = none ∨ w.hasPermits = true ∨ w.completed = true ∨ c = true ∨ w.isQueued = true) :
    wakerCond c w := by
  intro hq
  rcases h with h | h | h | h | h
  · exact Or.inl h
  · exact Or.inr (Or.inl h)
  · exact Or.inr (Or.inr (Or.inl h))
  · exact Or.inr (Or.inr (Or.inr h))
  · rw [hq] at h; cases h

theorem pollPure_wok {s : SemState} {wid me cx : Nat} {clk : Clock} {fin : Nat → Bool}
    {w0 : Waiter} {o : PollOut} (hi : Inv2 s) (hw : s.getW wid = some w0)
    (h : s.pollPure wid me cx clk fin = .ok o) :
    WOk o.s.closed o.s.table := by
  have hwid : w0.wid = wid := (tget_some_mem hw).2
  cases pollPure_cases hw h with
  | granted hp hq ho =>
    subst ho; exact hi.wok.tset (fun _ => wakerCond_of (Or.inr (Or.inr (Or.inl rfl))))
  | closed hp hc hq ho =>
    subst ho; exact hi.wok.tset (fun _ => wakerCond_of (Or.inr (Or.inr (Or.inl rfl))))
  | acquiredFresh hp hc hq s' pc hacq ho =>
    subst ho
    obtain ⟨_, _, ht, _, hcl, _⟩ := acquirePermits_inv hi.inv hacq
    have h1 : WOk s'.closed s'.table := by rw [hcl, ht]; exact hi.wok
    have h2 : WOk s'.closed (tset s'.table (polled w0)) :=
      h1.tset (fun _ => by
        have := hi.wok w0 (tget_some_mem hw).1 (by simp)
        rw [hcl]; exact this)
    exact h2.tset (fun _ => wakerCond_of (Or.inr (Or.inl rfl)))
  | acquiredQueued hp hc hq hf hwk s' s3 pc effs w4 hacq hrm hw4 ho =>
    subst ho
    obtain ⟨_, _, ht, _, hcl, _⟩ := acquirePermits_inv hi.inv hacq
    have h1 : WOk s'.closed s'.table := by rw [hcl, ht]; exact hi.wok
    have h2 : WOk (s'.setW (polled w0)).closed (s'.setW (polled w0)).table :=
      h1.tset (fun _ => wakerCond_of (Or.inr (Or.inr (Or.inr (Or.inr hq)))))
    have h3 := removeWaiterPure_wok fin h2 hrm
    have hw4id : (gotW w4).wid = wid := by simp [(tget_some_mem hw4).2]
    have h3' : WOkX (some (gotW w4).wid) s3.closed s3.table := by rw [hw4id]; exact h3
    exact h3'.tset_ex (wakerCond_of (Or.inr (Or.inl rfl)))
  | enqueued hp hc hq hwk hacq ho =>
    subst ho
    exact WOkX.tset (T := s.table) (c := s.closed) hi.wok
      (fun _ => wakerCond_of (Or.inr (Or.inr (Or.inr (Or.inr rfl)))))
  | stillQueued hp hc hq hf hwk hacq ho =>
    subst ho
    exact hi.wok.tset (fun _ => wakerCond_of (Or.inr (Or.inr (Or.inr (Or.inr hq)))))
  | fairWait hp hc hq hf hwk ho =>
    subst ho
    exact hi.wok.tset (fun _ => wakerCond_of (Or.inr (Or.inr (Or.inr (Or.inr hq)))))

theorem step_inv2 (fin : Nat → Bool) {s : SemState} {op : SemOp} {o : StepOut} (hi : Inv2 s)
    (h : step fin s op = .ok o) : Inv2 o.s := by
  refine ⟨(step_spec fin hi.inv h).1, ?_⟩
  cases op with
  | tryAcquire task n clk =>
    simp only [step] at h
    cases hacq : s.acquirePermits n clk with
    | error msg => rw [hacq] at h; cases h
    | ok r =>
      rw [hacq] at h
      cases r with
      | ok p =>
        obtain ⟨s', pc⟩ := p
        simp only [Except.ok.injEq] at h
        subst h
        obtain ⟨_, _, ht, _, hcl, _⟩ := acquirePermits_inv hi.inv hacq
        simp only [hcl, ht]; exact hi.wok
      | error e =>
        simp only [Except.ok.injEq] at h
        subst h; exact hi.wok
  | newAcq task n clk =>
    simp only [step, Except.ok.injEq] at h
    subst h
    intro w hw _
    have hw' : w ∈ s.table ++ [{ wid := s.nextWid, taskId := task, n := n, clock := clk }] := hw
    rcases List.mem_append.mp hw' with h1 | h1
    · exact hi.wok w h1 (by simp)
    · simp only [List.mem_singleton] at h1
      subst h1; exact fun _ => Or.inl rfl
  | poll wid me cx clk =>
    simp only [step] at h
    cases hw : s.getW wid with
    | none => rw [hw] at h; cases h
    | some w0 =>
      rw [hw] at h
      simp only at h
      by_cases hc : w0.completed = true
      · rw [if_pos hc] at h; cases h
      · rw [if_neg hc] at h
        cases hpp : s.pollPure wid me cx clk fin with
        | error msg => rw [hpp] at h; cases h
        | ok po =>
          rw [hpp] at h
          simp only [Except.ok.injEq] at h
          subst h
          exact pollPure_wok hi hw hpp
  | dropAcquire task wid =>
    simp only [step] at h
    cases hw : s.getW wid with
    | none =>
      rw [hw] at h
      simp only [Except.ok.injEq] at h
      subst h; exact hi.wok
    | some w =>
      rw [hw] at h
      simp only at h
      by_cases hq : w.isQueued = true
      · rw [if_pos hq] at h
        cases hrm : s.removeWaiterPure fin wid with
        | error msg => rw [hrm] at h; cases h
        | ok r =>
          obtain ⟨s', effs⟩ := r
          rw [hrm] at h
          simp only [Except.ok.injEq] at h
          subst h
          exact (removeWaiterPure_wok fin hi.wok hrm).tdrop_ex
      · rw [if_neg hq] at h
        by_cases hg : (w.hasPermits && !w.completed) = true
        · rw [if_pos hg] at h
          simp only [Except.ok.injEq] at h
          subst h; exact hi.wok.tdrop wid
        · rw [if_neg hg] at h
          simp only [Except.ok.injEq] at h
          subst h; exact hi.wok.tdrop wid
  | release task n clk =>
    simp only [step] at h
    by_cases hn : n = 0
    · rw [if_pos hn] at h
      simp only [Except.ok.injEq] at h
      subst h; exact hi.wok
    · rw [if_neg hn] at h
      simp only [Except.ok.injEq] at h
      subst h
      simp only [SemState.releasePure]
      by_cases hf : (s.paRelease n clk).fair = true
      · rw [if_pos hf]
        exact unblockFront_wok fin none _ (s.paRelease n clk) hi.wok
      · rw [if_neg hf]; exact hi.wok
  | close =>
    simp only [step, Except.ok.injEq] at h
    subst h
    rw [(closePure_spec fin hi.inv).2.2.2.1]
    exact WOkX.closed _
  | poisonRelease task n =>
    simp only [step] at h
    by_cases hn : n = 0
    · rw [if_pos hn] at h
      simp only [Except.ok.injEq] at h
      subst h; exact hi.wok
    · rw [if_neg hn] at h
      simp only [Except.ok.injEq] at h
      subst h
      rw [(releasePoison_spec n hi.inv).2.2.1]
      exact WOkX.closed _

theorem reach_Inv2 {n : Nat} {s0 : SemState} (h0 : Initial n s0) {g : G} (hr : Reach s0 g) :
    Inv2 g.s := by
  induction hr with
  | init =>
    rcases h0 with ⟨fair, c, rfl⟩ | ⟨fair, rfl⟩
    · exact Inv2.new n fair c
    · exact Inv2.constNew n fair
  | @step g1 g2 fin op out effs _ hstep ih =>
    unfold gstep at hstep
    cases hs : step fin g1.s op with
    | error msg => rw [hs] at hstep; cases hstep
    | ok o =>
      rw [hs] at hstep
      simp only [Except.ok.injEq, Prod.mk.injEq] at hstep
      obtain ⟨rfl, _, _⟩ := hstep
      exact step_inv2 fin ih hs

/-- every step of the client is defined (no assertion of the Rust code fails) in every reachable
state, the single exception being `assert!(num_permits > 0)` for `try_acquire(0)` / polling an
`acquire(0)` on an open semaphore, and the API misuse of polling a completed or dropped `Acquire` -/
theorem step_progress (fin : Nat → Bool) {s : SemState} (hi : Inv2 s) (op : SemOp)
    (hop : match op with
      | .tryAcquire _ n _ => 0 < n
      | .poll wid _ _ _ => ∃ w0, s.getW wid = some w0 ∧ w0.completed = false ∧
          (0 < w0.n ∨ w0.hasPermits = true ∨ s.closed = true)
      | _ => True) :
    ∃ o, step fin s op = .ok o := by
  cases op with
  | tryAcquire task n clk =>
    simp only at hop
    simp only [step]
    cases hacq : s.acquirePermits n clk with
    | error msg =>
      exfalso
      unfold SemState.acquirePermits at hacq
      rw [if_neg (by omega)] at hacq
      by_cases h1 : s.closed = true
      · rw [if_pos h1] at hacq; cases hacq
      · rw [if_neg h1] at hacq
        by_cases h2 : (s.queue.isEmpty || !s.fair) = true
        · rw [if_pos h2] at hacq
          cases hpa : s.paAcquire n clk <;> rw [hpa] at hacq <;> cases hacq
        · rw [if_neg h2] at hacq; cases hacq
    | ok r =>
      cases r with
      | ok p => exact ⟨_, rfl⟩
      | error e => exact ⟨_, rfl⟩
  | newAcq task n clk => exact ⟨_, rfl⟩
  | poll wid me cx clk =>
    obtain ⟨w0, hw, hnc, hn⟩ := hop
    obtain ⟨po, hpo⟩ := pollPure_progress (me := me) (cx := cx) (clk := clk) (fin := fin) hi hw hnc hn
    exact ⟨{ s := po.s, out := .polled po.res, effs := po.effs },
      by simp only [step, hw, hnc, Bool.false_eq_true, if_false, hpo]⟩
  | dropAcquire task wid =>
    simp only [step]
    cases hw : s.getW wid with
    | none => exact ⟨_, rfl⟩
    | some w =>
      simp only
      by_cases hq : w.isQueued = true
      · rw [if_pos hq]
        obtain ⟨r, hr⟩ := removeWaiterPure_progress fin hi.inv hw hq
        rw [hr]; exact ⟨_, rfl⟩
      · rw [if_neg hq]
        by_cases hg : (w.hasPermits && !w.completed) = true
        · rw [if_pos hg]; exact ⟨_, rfl⟩
        · rw [if_neg hg]; exact ⟨_, rfl⟩
  | release task n clk =>
    simp only [step]
    by_cases hn : n = 0
    · rw [if_pos hn]; exact ⟨_, rfl⟩
    · rw [if_neg hn]; exact ⟨_, rfl⟩
  | close => exact ⟨_, rfl⟩
  | poisonRelease task n =>
    simp only [step]
    by_cases hn : n = 0
    · rw [if_pos hn]; exact ⟨_, rfl⟩
    · rw [if_neg hn]; exact ⟨_, rfl⟩

end SemLts
end ShuttleModel
