/-
  Helper lemmas for C12 (`ShuttleModel/Failure.lean`): closed forms of one run from an arbitrary
  process state, and the process state after an arbitrary history.
-/
import ShuttleModel.Failure

namespace ShuttleModel.Failure

/-! ### small facts -/

@[simp] theorem emit_none (l : Nat) : emit .none l = [] := rfl

theorem emit_eq_nil_iff (p : Persist) (l : Nat) : emit p l = [] ↔ p = .none := by
  cases p <;> simp [emit]

theorem emit_inj (p q : Persist) (l : Nat) : emit p l = emit q l ↔ p = q := by
  cases p <;> cases q <;> simp [emit]

/-- the config the hook uses during a run with own config `c` started in state `s` -/
def effHook (s : State) (c : Persist) : Persist :=
  match s.hookConfig with
  | some h => h
  | none => c

@[simp] theorem initHook_hookConfig (c : Persist) (s : State) :
    (initHook c s).hookConfig = some (effHook s c) := by
  unfold initHook effHook; split <;> simp_all

@[simp] theorem initHook_persistedAt (c : Persist) (s : State) :
    (initHook c s).persistedAt = s.persistedAt := by
  unfold initHook; split <;> rfl

@[simp] theorem effHook_init (c : Persist) : effHook State.init c = c := rfl

theorem effHook_of_some {s : State} {h : Persist} (hs : s.hookConfig = some h) (c : Persist) :
    effHook s c = h := by
  unfold effHook; rw [hs]

/-! ### one run from an arbitrary state: closed forms -/

/-- emissions of one run, as a function of the two pieces of inherited state -/
def emissionsClosed (hook : Persist) (a : Nat) (r : Run) : List Emission :=
  match r.failure with
  | .taskPanic =>
    (if a = r.schedLen then [] else emit hook r.schedLen) ++
      (if r.unwind = 0 then [] else emit r.persist (r.schedLen + r.unwind))
  | .deadlock => if a = r.schedLen then [] else emit r.persist r.schedLen
  | .stepBoundFail => if a = r.schedLen then [] else emit r.persist r.schedLen
  | .stepBoundContinue => []
  | .pass => []

theorem execRun_emissions (s : State) (r : Run) :
    (execRun s r).1.emissions = emissionsClosed (effHook s r.persist) (s.persistedAt r.thread) r := by
  unfold execRun emissionsClosed
  cases hf : r.failure <;> simp only [hookFire, persistFailure, initHook_hookConfig, initHook_persistedAt]
  · -- taskPanic
    by_cases h1 : s.persistedAt r.thread = r.schedLen
    · by_cases h2 : r.unwind = 0
      · simp [h1, h2]
      · simp [h1, h2]
    · by_cases h2 : r.unwind = 0
      · simp [h1, h2, setAt]
      · simp [h1, h2, setAt]
  · by_cases h1 : s.persistedAt r.thread = r.schedLen
    · simp [h1]
    · simp [h1, setAt]
  · by_cases h1 : s.persistedAt r.thread = r.schedLen
    · simp [h1]
    · simp [h1, setAt]

theorem execRun_raised (s : State) (r : Run) : (execRun s r).1.raised = specRaised r.failure := by
  unfold execRun specRaised
  cases hf : r.failure <;> rfl

theorem execRun_hookConfig (s : State) (r : Run) :
    (execRun s r).2.hookConfig = some (effHook s r.persist) := by
  unfold execRun
  cases hf : r.failure <;>
    simp only [hookFire, persistFailure, initHook_hookConfig, initHook_persistedAt] <;>
    (repeat' split) <;> simp_all

/-- one step of the thread-local cell -/
def persistedStep (t : Nat) (a : Nat) (r : Run) : Nat :=
  if r.failure.failing = true ∧ r.thread = t then r.finalLen else a

theorem persistFailure_persistedAt (c : Persist) (t l : Nat) (s : State) (t' : Nat) :
    (persistFailure c t l s).2.persistedAt t' = if t' = t then l else s.persistedAt t' := by
  unfold persistFailure
  by_cases h : s.persistedAt t = l
  · by_cases ht : t' = t
    · subst ht; simp [h]
    · simp [h, ht]
  · simp [h, setAt]

theorem hookFire_persistedAt (t l : Nat) (s : State) (c : Persist) (hs : s.hookConfig = some c)
    (t' : Nat) : (hookFire t l s).2.persistedAt t' = if t' = t then l else s.persistedAt t' := by
  unfold hookFire; rw [hs]; exact persistFailure_persistedAt c t l s t'

theorem persistFailure_hookConfig (c : Persist) (t l : Nat) (s : State) :
    (persistFailure c t l s).2.hookConfig = s.hookConfig := by
  unfold persistFailure; split <;> rfl

theorem execRun_persistedAt (s : State) (r : Run) (t : Nat) :
    (execRun s r).2.persistedAt t = persistedStep t (s.persistedAt t) r := by
  have hh : (initHook r.persist s).hookConfig = some (effHook s r.persist) := initHook_hookConfig _ _
  unfold execRun persistedStep Run.finalLen
  cases hf : r.failure <;> simp only [FailKind.failing]
  · rw [persistFailure_persistedAt, hookFire_persistedAt _ _ _ _ hh, initHook_persistedAt]
    by_cases ht : t = r.thread
    · simp [ht]
    · have : ¬ r.thread = t := fun h => ht h.symm
      simp [ht, this]
  · rw [hookFire_persistedAt _ _ _ (effHook s r.persist) (by rw [persistFailure_hookConfig, hh]),
      persistFailure_persistedAt, initHook_persistedAt]
    by_cases ht : t = r.thread
    · simp [ht]
    · have : ¬ r.thread = t := fun h => ht h.symm
      simp [ht, this]
  · rw [hookFire_persistedAt _ _ _ (effHook s r.persist) (by rw [persistFailure_hookConfig, hh]),
      persistFailure_persistedAt, initHook_persistedAt]
    by_cases ht : t = r.thread
    · simp [ht]
    · have : ¬ r.thread = t := fun h => ht h.symm
      simp [ht, this]
  · simp
  · simp

/-! ### the state after a history -/

/-- the value of `SCHEDULE_PERSISTED_AT` on thread `t` after `h`, starting from `a` -/
def persistedFrom (t : Nat) (a : Nat) (h : List Run) : Nat := h.foldl (persistedStep t) a

/-- … in a fresh process: the final schedule length of the last failing run on thread `t`, else `0` -/
def persistedAfter (h : List Run) (t : Nat) : Nat := persistedFrom t 0 h

theorem runFrom_persistedAt (s : State) (h : List Run) (t : Nat) :
    (runFrom s h).2.persistedAt t = persistedFrom t (s.persistedAt t) h := by
  induction h generalizing s with
  | nil => rfl
  | cons r rs ih =>
    simp only [runFrom, persistedFrom, List.foldl_cons]
    rw [ih, execRun_persistedAt]; rfl

theorem runFrom_hookConfig_of_some (s : State) (h : List Run) (c : Persist)
    (hs : s.hookConfig = some c) : (runFrom s h).2.hookConfig = some c := by
  induction h generalizing s with
  | nil => exact hs
  | cons r rs ih =>
    simp only [runFrom]
    apply ih
    rw [execRun_hookConfig, effHook_of_some hs]

theorem stateAfter_persistedAt (h : List Run) (t : Nat) :
    (stateAfter h).persistedAt t = persistedAfter h t := by
  unfold stateAfter persistedAfter
  rw [runFrom_persistedAt]; rfl

/-- after a non-empty history the hook holds the FIRST run's config -/
theorem stateAfter_hookConfig (h0 : Run) (hist : List Run) :
    (stateAfter (h0 :: hist)).hookConfig = some h0.persist := by
  unfold stateAfter
  simp only [runFrom]
  apply runFrom_hookConfig_of_some
  rw [execRun_hookConfig]; rfl

theorem emissionsAfter_nil (r : Run) :
    emissionsAfter [] r = emissionsClosed r.persist 0 r := by
  unfold emissionsAfter outcomeAfter
  rw [execRun_emissions]; rfl

theorem emissionsAfter_cons (h0 : Run) (hist : List Run) (r : Run) :
    emissionsAfter (h0 :: hist) r =
      emissionsClosed h0.persist (persistedAfter (h0 :: hist) r.thread) r := by
  unfold emissionsAfter outcomeAfter
  rw [execRun_emissions, effHook_of_some (stateAfter_hookConfig h0 hist), stateAfter_persistedAt]

/-! ### `runHistory` is the list of the `outcomeAfter` of every prefix -/

theorem runFrom_append (s : State) (h : List Run) (r : Run) :
    runFrom s (h ++ [r]) =
      ((runFrom s h).1 ++ [(execRun (runFrom s h).2 r).1], (execRun (runFrom s h).2 r).2) := by
  induction h generalizing s with
  | nil => simp [runFrom]
  | cons x xs ih => simp [runFrom, ih]

theorem runHistory_append (h : List Run) (r : Run) :
    runHistory (h ++ [r]) =
      runHistory h ++ [((outcomeAfter h r).emissions, (outcomeAfter h r).raised)] := by
  unfold runHistory outcomeAfter stateAfter
  rw [runFrom_append]; simp

theorem runFrom_raised (s : State) (h : List Run) :
    (runFrom s h).1.map (·.raised) = h.map (fun r => specRaised r.failure) := by
  induction h generalizing s with
  | nil => rfl
  | cons r rs ih => simp [runFrom, ih, execRun_raised]

theorem runHistory_raised (h : List Run) :
    (runHistory h).map (·.2) = h.map (fun r => specRaised r.failure) := by
  unfold runHistory
  rw [List.map_map]
  exact runFrom_raised State.init h

/-! ### specification vs closed form (no unwinding steps) -/

theorem specEmissions_eq (r : Run) (hu : r.unwind = 0) :
    specEmissions r = if r.failure.failing then emit r.persist r.schedLen else [] := by
  unfold specEmissions Run.finalLen
  cases hf : r.failure <;> simp [hu]

/-- when does the closed form agree with the spec? -/
theorem emissionsClosed_eq_spec_iff (hook : Persist) (a : Nat) (r : Run) (hu : r.unwind = 0) :
    emissionsClosed hook a r = specEmissions r ↔
      ¬ (r.failure.failing = true ∧
          ((a = r.schedLen ∧ r.persist ≠ .none) ∨
           (r.failure = .taskPanic ∧ a ≠ r.schedLen ∧ hook ≠ r.persist))) := by
  rw [specEmissions_eq r hu]
  unfold emissionsClosed
  cases hf : r.failure <;> simp only [FailKind.failing, hu]
  · -- taskPanic
    by_cases h1 : a = r.schedLen
    · simp [h1, emit_eq_nil_iff]
    · simp [h1, emit_inj]
  · by_cases h1 : a = r.schedLen
    · simp [h1, emit_eq_nil_iff]
    · simp [h1]
  · by_cases h1 : a = r.schedLen
    · simp [h1, emit_eq_nil_iff]
    · simp [h1]
  · simp
  · simp

/-! ### the fixed behaviour -/
namespace Fixed

def emissionsClosed (r : Run) : List Emission :=
  match r.failure with
  | .taskPanic =>
    emit r.persist r.schedLen ++ (if r.unwind = 0 then [] else emit r.persist (r.schedLen + r.unwind))
  | .deadlock => emit r.persist r.schedLen
  | .stepBoundFail => emit r.persist r.schedLen
  | .stepBoundContinue => []
  | .pass => []

@[simp] theorem setAt_same {α : Type} (f : Nat → α) (t : Nat) (v : α) : setAt f t v t = v := by
  simp [setAt]

theorem execRun_emissions (s : State) (r : Run) :
    (execRun s r).1.emissions = emissionsClosed r := by
  unfold execRun emissionsClosed
  cases hf : r.failure <;> simp only [hookFire, persistFailure, initHook, setAt_same]
  · by_cases h2 : r.unwind = 0
    · simp [h2]
    · simp [h2]
  · simp
  · simp

theorem execRun_raised (s : State) (r : Run) : (execRun s r).1.raised = specRaised r.failure := by
  unfold execRun specRaised
  cases hf : r.failure <;> rfl

theorem emissionsClosed_eq_spec (r : Run) (hu : r.unwind = 0) : emissionsClosed r = specEmissions r := by
  rw [specEmissions_eq r hu]
  unfold emissionsClosed
  cases hf : r.failure <;> simp [FailKind.failing, hu]

theorem runFrom_raised (s : State) (h : List Run) :
    (runFrom s h).1.map (·.raised) = h.map (fun r => specRaised r.failure) := by
  induction h generalizing s with
  | nil => rfl
  | cons r rs ih => simp [runFrom, ih, execRun_raised]

theorem runFrom_emissions (s : State) (h : List Run) :
    (runFrom s h).1.map (·.emissions) = h.map emissionsClosed := by
  induction h generalizing s with
  | nil => rfl
  | cons r rs ih => simp [runFrom, ih, execRun_emissions]

end Fixed

/-! ### portfolio -/

theorem joinAll_isSome (acc : Option Nat) (ms : List Member) :
    (joinAll acc ms).isSome = (acc.isSome || ms.any Member.isFailed) := by
  induction ms generalizing acc with
  | nil => simp [joinAll]
  | cons m ms ih =>
    cases m with
    | passed => simp [joinAll, ih, Member.isFailed]
    | failed p => simp [joinAll, ih, Member.isFailed]

/-- the payload kept by the join loop is the LAST failing member's -/
theorem joinAll_append_failed (acc : Option Nat) (ms : List Member) (p : Nat) (rest : List Member)
    (hrest : rest.any Member.isFailed = false) :
    joinAll acc (ms ++ .failed p :: rest) = some p := by
  induction ms generalizing acc with
  | nil =>
    simp only [List.nil_append, joinAll]
    induction rest with
    | nil => rfl
    | cons m ms ih =>
      cases m with
      | passed => simp only [joinAll]; apply ih; simpa [Member.isFailed] using hrest
      | failed q => simp [Member.isFailed] at hrest
  | cons m ms ih =>
    cases m with
    | passed => simpa [joinAll] using ih acc
    | failed q => simpa [joinAll] using ih (some q)

/-! ### portfolio steps -/

theorem specRaised_eq_nothing_iff (k : FailKind) : specRaised k = .nothing ↔ k.failing = false := by
  cases k <;> simp [specRaised, FailKind.failing]

theorem toMembers_any_failed (j : Nat) (os : List Outcome) :
    (toMembers j os).any Member.isFailed = os.any (fun o => decide (o.raised ≠ .nothing)) := by
  induction os generalizing j with
  | nil => rfl
  | cons o os ih =>
    simp only [toMembers, List.any_cons, ih]
    by_cases h : o.raised = .nothing <;> simp [h, Member.isFailed]

theorem runFrom_any_raised (s : State) (ms : List Run) :
    (runFrom s ms).1.any (fun o => decide (o.raised ≠ .nothing)) = ms.any (fun r => r.failure.failing) := by
  induction ms generalizing s with
  | nil => rfl
  | cons r rs ih =>
    simp only [runFrom, List.any_cons, ih, execRun_raised]
    congr 1
    cases r.failure <;> simp [specRaised, FailKind.failing]

theorem Fixed.runFrom_any_raised (s : Fixed.State) (ms : List Run) :
    (Fixed.runFrom s ms).1.any (fun o => decide (o.raised ≠ .nothing)) =
      ms.any (fun r => r.failure.failing) := by
  induction ms generalizing s with
  | nil => rfl
  | cons r rs ih =>
    simp only [Fixed.runFrom, List.any_cons, ih, Fixed.execRun_raised]
    congr 1
    cases r.failure <;> simp [specRaised, FailKind.failing]

end ShuttleModel.Failure
