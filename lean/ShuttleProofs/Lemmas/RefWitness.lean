import ShuttleModel.Ref

/-!
# Concrete witnesses for C02: programs as Lean terms, and paths of the reference semantics

The programs are written as `IR` terms (not parsed) so that the kernel only has to evaluate the
reference semantics itself.
-/

namespace ShuttleProofs.C02.Witness
open ShuttleModel ShuttleModel.Ref

/-- `corpus/C02/f1_mpsc_drop_no_switch.vp` -/
def mpscDrop : IR :=
  { name := "c02_f1_mpsc_drop", clocks := false,
    objs := [{ name := "c", kind := "chan", args := ["unb"] }],
    tasks := [{ ops := [⟨"spawn", ["1"]⟩, ⟨"drop_tx", ["c"]⟩, ⟨"recv", ["c"]⟩, ⟨"try_recv", ["c"]⟩] },
              { ops := [⟨"send", ["c", "1"]⟩, ⟨"drop_tx", ["c"]⟩] }],
    run := "dfs:100" }

/-- spawn 1 · drop_tx (task 0) · send (task 1) · recv (task 0) · try_recv (task 0) · the implicit
drop of task 0's `Receiver` · drop_tx (task 1): at every state the first enabled transition -/
def mpscDropPath : List Nat := [0, 0, 0, 0, 0, 0, 0]

/-- task 0: `ok, ok, v:1, err:empty`; task 1: `ok, ok`; every task finished -/
def mpscDropMissing : Ref.Outcome :=
  { results := [[(0, .word .ok), (1, .word .ok), (2, .val .v (.int 1)), (3, .word .errEmpty)],
                [(0, .word .ok), (1, .word .ok)]],
    term := .ok }

theorem mpscDrop_ref_reaches :
    runPath mpscDrop { spuriousPark := false, leaderLast := true } mpscDropPath (init mpscDrop) = some mpscDropMissing := by
  decide +kernel

end ShuttleProofs.C02.Witness
