import ShuttleProofs.Lemmas.PctNext
import ShuttleProofs.Lemmas.PctSample

/-!
# Under the invariant, `next_task` can only fail through the model's RNG fuel
-/

namespace ShuttleProofs.Pct
open ShuttleModel ShuttleModel.Pct

def rngPanic : String := "model: rng (gen_range)"

theorem newTaskStep_total (H : SampleLoopsInRange) {st : LoopState} (hI : MInv st.priorities st.nextPriority)
    (hlen : 0 < st.priorities.length) :
    (∃ st', newTaskStep st st.priorities.length = .ok st') ∨
    newTaskStep st st.priorities.length = .error rngPanic := by
  unfold newTaskStep
  rw [if_neg (by omega)]
  cases hg : Rng.genRangeUsize 0 st.priorities.length st.rng with
  | none => right; rfl
  | some rg =>
    obtain ⟨r, g⟩ := rg
    left
    have hr : r < st.priorities.length := genRangeUsize_lt H hg
    simp only
    by_cases ht : r + 1 = st.priorities.length
    · simp only [ht, if_true]
      rw [(mapGet_eq_none_iff hI.keys _).2 (Nat.le_refl _)]
      exact ⟨_, rfl⟩
    · simp only [ht, if_false]
      have htl : r + 1 < st.priorities.length := by omega
      obtain ⟨old, hold⟩ := hI.get_of_lt htl
      simp only [hold]
      have h1 := hI.insert_known htl
      have hl1 := length_insert_lt hI.keys htl st.nextPriority
      rw [(mapGet_eq_none_iff h1.keys _).2 (by omega)]
      exact ⟨_, rfl⟩

theorem newTaskLoop_total (H : SampleLoopsInRange) : ∀ (count : Nat) (st : LoopState),
    MInv st.priorities st.nextPriority → 0 < st.priorities.length →
    (∃ st', newTaskLoop count st.priorities.length st = .ok st') ∨
    newTaskLoop count st.priorities.length st = .error rngPanic := by
  intro count
  induction count with
  | zero => intro st _ _; left; exact ⟨st, rfl⟩
  | succ n ih =>
    intro st hI hlen
    simp only [newTaskLoop]
    rcases newTaskStep_total H hI hlen with ⟨st1, hs⟩ | hs
    · rw [hs]
      simp only
      obtain ⟨_, hI1, hl1, _⟩ := newTaskLoop_spec 1 st st1 hI (by simp only [newTaskLoop, hs])
      have := ih st1 hI1 (by omega)
      rw [hl1] at this
      exact this
    · rw [hs]; right; rfl

/-- Under the invariant, with at least one known task, a non-empty offer, and (when the demotion guard holds) a known
    `current`, `next_task` returns — unless the model's RNG fuel runs out. None of the `expect`/`unwrap`/`debug_assert!`
    sites of pct.rs:113-164 is reachable. -/
theorem nextTask_total (H : SampleLoopsInRange) {s : PctState} {runnable : List Nat} {current : Option Nat} {y : Bool}
    (hI : Inv s) (hlen : 0 < s.priorities.length) (hr : runnable ≠ [])
    (hcur : Demote s runnable y → ∃ cur, current = some cur ∧
      (cur < s.priorities.length ∨ ∃ t ∈ runnable, cur ≤ t)) :
    (∃ c s', nextTask s runnable current y = .ok c s') ∨ nextTask s runnable current y = .panic rngPanic := by
  unfold nextTask
  obtain ⟨mx, hmx⟩ := listMax_isSome hr
  obtain ⟨_, hle⟩ := listMax_spec hmx
  simp only [hmx]
  rcases newTaskLoop_total H (1 + mx - s.priorities.length)
      { priorities := s.priorities, nextPriority := s.nextPriority, rng := s.rng } hI hlen with ⟨st, hl⟩ | hl
  · simp only at hl
    rw [hl]
    simp only
    obtain ⟨_, hI1, hl1, _⟩ := newTaskLoop_spec _
      { priorities := s.priorities, nextPriority := s.nextPriority, rng := s.rng } st hI hl
    simp only at hl1
    left
    have hcs : ∃ s1, changeStep { s with priorities := st.priorities, nextPriority := st.nextPriority, rng := st.rng }
        runnable.length current y = .ok s1 := by
      unfold changeStep
      by_cases hn : runnable.length > 1
      · simp only [hn, if_true]
        by_cases hc : (s.changePoints.contains s.steps || y) = true
        · simp only [hc, if_true]
          obtain ⟨cur, rfl, hk⟩ := hcur ⟨hn, by simpa using hc⟩
          have hcl : cur < st.priorities.length := by
            rcases hk with hk | ⟨t, ht, hk⟩
            · omega
            · have := hle t ht; omega
          obtain ⟨old, hold⟩ := hI1.get_of_lt hcl
          simp only [hold]
          exact ⟨_, rfl⟩
        · simp only [hc]; exact ⟨_, rfl⟩
      · simp only [hn, if_false]; exact ⟨_, rfl⟩
    obtain ⟨s1, hs1⟩ := hcs
    rw [hs1]
    simp only
    obtain ⟨c, hc⟩ := minByKey_isSome (key := mapGet s1.priorities) hr
    rw [hc]
    exact ⟨c, s1, rfl⟩
  · simp only at hl
    rw [hl]
    right; rfl

end ShuttleProofs.Pct
