import ShuttleProofs.Lemmas.SemCancel
/-
  `try_acquire` succeeds exactly when a fresh `acquire` polled once would complete immediately.
-/
namespace ShuttleModel
namespace SemLts
open Sem (PollOut)

theorem tget_append_new {T : List Waiter} {w : Waiter} (h : ∀ x ∈ T, x.wid ≠ w.wid) :
    tget (T ++ [w]) w.wid = some w := by
  induction T with
  | nil => simp
  | cons y T ih => grind [tget_cons]

/-- the state seen by the first poll of a fresh `Acquire` -/
theorem newAcquire_getW {s : SemState} (hi : Inv s) (me n : Nat) (c : Clock) :
    (s.newAcquire me n c).2.getW s.nextWid
      = some { wid := s.nextWid, taskId := me, n := n, clock := c } := by
  show tget (s.table ++ [{ wid := s.nextWid, taskId := me, n := n, clock := c }]) s.nextWid = _
  exact tget_append_new (w := { wid := s.nextWid, taskId := me, n := n, clock := c })
    (fun x hx => by have := hi.tq.ltNext x hx; simp only; omega)

theorem acquirePermits_newAcquire_ok_iff (s : SemState) (me n : Nat) (c c' : Clock) :
    (∃ s' pc, (s.newAcquire me n c).2.acquirePermits n c' = .ok (.ok (s', pc))) ↔
      (∃ s' pc, s.acquirePermits n c' = .ok (.ok (s', pc))) := by
  rw [acquirePermits_ok_iff, acquirePermits_ok_iff]
  exact Iff.rfl

/-- a first poll whose `acquire_permits` succeeds returns `Ready(Ok)` -/
theorem pollPure_fresh_ok {s1 : SemState} {wid me cx : Nat} {clk : Clock} {fin : Nat → Bool}
    {w : Waiter} (hw : s1.getW wid = some w) (hp : w.hasPermits = false) (hq : w.isQueued = false)
    (hwk : w.waker = none) (hc : s1.closed = false) {s' : SemState} {pc : Clock}
    (hacq : s1.acquirePermits w.n clk = .ok (.ok (s', pc))) :
    ∃ o, s1.pollPure wid me cx clk fin = .ok o ∧ o.res = .ready true := by
  have hwid : w.wid = wid := (tget_some_mem hw).2
  obtain ⟨_, _, _, hpa⟩ := acquirePermits_ok hacq
  obtain ⟨fr, _, _⟩ := paAcquire_some hpa
  have hg : ∀ w1 : Waiter, w1.wid = wid → (s'.setW w1).getW wid = some w1 := by
    intro w1 h1
    have hw1 : s'.getW wid = some w := by rw [getW_eq, fr.table]; exact hw
    exact getW_setW_of hw1 h1
  unfold SemState.pollPure
  rw [hw]
  simp only [hp, hq, hwk, hc, hacq, Bool.false_eq_true, if_false, Option.isSome_none, bne_self_eq_false,
    Bool.and_false, Bool.not_false, if_true]
  split
  · next h => rw [hg _ (by exact hwid)] at h; cases h
  · exact ⟨_, rfl, rfl⟩

theorem try_iff_immediate_aux (fin : Nat → Bool) {s : SemState} (hi : Inv s) (task n : Nat)
    (c c' : Clock) :
    (∃ o, step fin s (.tryAcquire task n c) = .ok o ∧ o.out = .tried (.ok ())) ↔
    (∃ o, stepPollNew fin s task n c' = .ok o ∧ o.out = .polled (.ready true)) := by
  have hg := newAcquire_getW hi task n c'
  constructor
  · rintro ⟨o, h, ho⟩
    simp only [step] at h
    cases hacq : s.acquirePermits n c with
    | error msg => rw [hacq] at h; cases h
    | ok r =>
      rw [hacq] at h
      cases r with
      | error e =>
        simp only [Except.ok.injEq] at h
        subst h; cases ho
      | ok p =>
        obtain ⟨s', pc⟩ := p
        have h1 : ∃ s' pc, s.acquirePermits n c' = .ok (.ok (s', pc)) := by
          rw [acquirePermits_ok_iff]; exact (acquirePermits_ok_iff s n c).mp ⟨s', pc, hacq⟩
        obtain ⟨s2, pc2, hacq2⟩ := (acquirePermits_newAcquire_ok_iff s task n c' c').mpr h1
        obtain ⟨_, hcl, _⟩ := acquirePermits_ok hacq
        obtain ⟨po, hpo, hres⟩ := pollPure_fresh_ok (fin := fin) (me := task) (cx := task) hg rfl rfl rfl
          (show (s.newAcquire task n c').2.closed = false from hcl) hacq2
        refine ⟨{ s := po.s, out := .polled po.res, effs := po.effs }, ?_, by rw [hres]⟩
        simp only [stepPollNew, step, hg, Bool.false_eq_true, if_false, hpo]
  · rintro ⟨o, h, ho⟩
    simp only [stepPollNew, step, hg, Bool.false_eq_true, if_false] at h
    cases hpp : (s.newAcquire task n c').2.pollPure s.nextWid task task c' fin with
    | error msg => rw [hpp] at h; cases h
    | ok po =>
      rw [hpp] at h
      simp only [Except.ok.injEq] at h
      subst h
      simp only [Out.polled.injEq] at ho
      have hok : ∃ s' pc, (s.newAcquire task n c').2.acquirePermits n c' = .ok (.ok (s', pc)) := by
        cases pollPure_cases hg hpp with
        | granted hp => cases hp
        | closed hp hc hq ho' => subst ho'; cases ho
        | acquiredFresh hp hc hq s' pc hacq => exact ⟨s', pc, hacq⟩
        | acquiredQueued hp hc hq => cases hq
        | enqueued hp hc hq hwk hacq ho' => subst ho'; cases ho
        | stillQueued hp hc hq => cases hq
        | fairWait hp hc hq => cases hq
      have h1 := (acquirePermits_newAcquire_ok_iff s task n c' c').mp hok
      rw [acquirePermits_ok_iff] at h1
      obtain ⟨s', pc, hacq⟩ := (acquirePermits_ok_iff s n c).mpr h1
      exact ⟨{ s := s', out := .tried (.ok ()), effs := s'.reblockEffs fin }, by simp [step, hacq], rfl⟩

end SemLts
end ShuttleModel
