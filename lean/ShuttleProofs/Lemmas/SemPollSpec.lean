import ShuttleProofs.Lemmas.SemPoll
/-
  `pollPure` preserves the invariant and hands out exactly the requested permits.
-/
namespace ShuttleModel
namespace SemLts
open Sem (PollOut)

theorem wpend_zero {w : Waiter} (h : w.hasPermits = false ∨ w.completed = true) : wpend w = 0 := by
  rcases h with h | h <;> simp [wpend, h]

theorem wpend_full {w : Waiter} (h1 : w.hasPermits = true) (h2 : w.completed = false) : wpend w = w.n := by
  simp [wpend, h1, h2]

/-! ### updating one waiter without touching the queue -/

theorem HeadBlocked.setW {s : SemState} {w0 w1 : Waiter} (h : HeadBlocked s)
    (hw : s.getW w1.wid = some w0) (hn : w1.n = w0.n) : HeadBlocked (s.setW w1) := by
  intro wid0 rest w hq hg
  rw [getW_eq, setW_table, tget_tset] at hg
  simp only [setW_queue] at hq
  simp only [setW_avail]
  rw [getW_eq] at hw
  by_cases e : wid0 = w1.wid
  · rw [if_pos e, hw] at hg
    simp only [Option.isSome_some, if_true, Option.some.injEq] at hg
    subst hg
    rw [hn]; exact h w1.wid rest w0 (e ▸ hq) hw
  · rw [if_neg e] at hg
    exact h wid0 rest w hq hg

theorem Inv.setW_same {s : SemState} {w0 w1 : Waiter} (hi : Inv s)
    (hw : s.getW w1.wid = some w0) (hq : w1.isQueued = w0.isQueued) (hn : w1.n = w0.n)
    (hok : w1.isQueued = true →
      w1.hasPermits = false ∧ w1.completed = false ∧ w1.waker.isSome = true ∧ 0 < w1.n)
    {a b : Nat} (ha : wpend w0 = a) (hb : wpend w1 = b) :
    Inv (s.setW w1) ∧ pend (s.setW w1).table + a = pend s.table + b := by
  refine ⟨⟨hi.tq.tset_same hw hq hok, hi.batch, hi.closedEmpty,
    fun hf => (hi.headBlocked hf).setW hw hn⟩, ?_⟩
  rw [← ha, ← hb]
  exact pend_tset hi.tq.nodupT hw

theorem getW_setW_self {s : SemState} {w0 w1 : Waiter} (hw : s.getW w1.wid = some w0) :
    (s.setW w1).getW w1.wid = some w1 := tget_tset_self hw

/-- the queue after enqueueing keeps invariant (1) -/
theorem HeadBlocked.enqueue {s : SemState} {w0 w1 : Waiter} {wid : Nat} (hi : Inv s) (hf : s.fair = true)
    (hw : s.getW wid = some w0) (hq : w0.isQueued = false) (hwid : w1.wid = wid) (hn : w1.n = w0.n)
    (hfit : s.queue = [] → s.avail < w0.n) :
    HeadBlocked (({ s with queue := s.queue ++ [wid] }).setW w1) := by
  intro wid0 rest w hq0 hg
  have hq0' : s.queue ++ [wid] = wid0 :: rest := hq0
  have hg' : tget (tset s.table w1) wid0 = some w := hg
  have hav : (({ s with queue := s.queue ++ [wid] }).setW w1).avail = s.avail := rfl
  rw [hav]
  rw [getW_eq] at hw
  have hnotin : wid ∉ s.queue := by
    intro hin
    have := (hi.tq.queued_of_tget hw).mpr hin
    rw [hq] at this; cases this
  rw [tget_tset, hwid] at hg'
  cases hqs : s.queue with
  | nil =>
    rw [hqs] at hq0'
    simp only [List.nil_append, List.cons.injEq] at hq0'
    obtain ⟨e, _⟩ := hq0'
    subst e
    rw [if_pos rfl, hw] at hg'
    simp only [Option.isSome_some, if_true, Option.some.injEq] at hg'
    subst hg'
    rw [hn]; exact hfit hqs
  | cons hd tl =>
    rw [hqs] at hq0'
    simp only [List.cons_append, List.cons.injEq] at hq0'
    obtain ⟨e, _⟩ := hq0'
    subst e
    have hne : hd ≠ wid := fun e => hnotin (by rw [hqs, e]; exact List.mem_cons_self ..)
    rw [if_neg hne] at hg'
    exact hi.headBlocked hf hd tl w hqs hg'

structure PollSpec (s : SemState) (w0 : Waiter) (o : PollOut) : Prop where
  inv : Inv o.s
  cons : o.s.avail + pend o.s.table + (if o.res = .ready true then w0.n else 0)
    = s.avail + pend s.table

theorem pollPure_spec {s : SemState} {wid me cx : Nat} {clk : Clock} {fin : Nat → Bool}
    {w0 : Waiter} {o : PollOut} (hi : Inv s) (hw : s.getW wid = some w0)
    (hnc : w0.completed = false) (h : s.pollPure wid me cx clk fin = .ok o) : PollSpec s w0 o := by
  have hwid : w0.wid = wid := (tget_some_mem hw).2
  have hw' : s.getW w0.wid = some w0 := by rw [hwid]; exact hw
  cases pollPure_cases hw h with
  | granted hp hq ho =>
    subst ho
    obtain ⟨h1, h2⟩ := hi.setW_same (w1 := finishedW w0) hw' rfl rfl
      (by intro hq'; simp [hq] at hq') (wpend_full hp hnc) (wpend_zero (Or.inr rfl))
    refine ⟨h1, ?_⟩
    simp only [setW_avail, if_true] at h2 ⊢
    omega
  | closed hp hc hq ho =>
    subst ho
    obtain ⟨h1, h2⟩ := hi.setW_same (w1 := finishedW w0) hw' rfl rfl
      (by intro hq'; simp [hq] at hq') (wpend_zero (Or.inl hp)) (wpend_zero (Or.inr rfl))
    refine ⟨h1, ?_⟩
    simp only [setW_avail, PollRes.ready.injEq, Bool.false_eq_true, if_false] at h2 ⊢
    omega
  | acquiredFresh hp hc hq s' pc hacq ho =>
    subst ho
    obtain ⟨i1, hav, ht, _, _, _, _⟩ := acquirePermits_inv hi hacq
    have hw1 : s'.getW (polled w0).wid = some w0 := by rw [getW_eq, ht]; exact hw'
    obtain ⟨i2, p2⟩ := i1.setW_same (w1 := polled w0) hw1 rfl rfl
      (by intro hq'; simp [hq] at hq') (wpend_zero (Or.inl hp)) (wpend_zero (Or.inl hp))
    have hw2 : (s'.setW (polled w0)).getW (gotW (polled w0)).wid = some (polled w0) :=
      getW_setW_self hw1
    obtain ⟨i3, p3⟩ := i2.setW_same (w1 := gotW (polled w0)) hw2 rfl rfl
      (by intro hq'; simp [hq] at hq') (wpend_zero (Or.inl hp)) (wpend_zero (Or.inr rfl))
    refine ⟨i3, ?_⟩
    have hts : pend s'.table = pend s.table := by rw [ht]
    simp only [setW_avail, setW_table, if_true] at p2 p3 ⊢
    omega
  | acquiredQueued hp hc hq hf hwk s' s3 pc effs w4 hacq hrm hw4 ho =>
    subst ho
    obtain ⟨i1, hav, ht, _, _, _, _⟩ := acquirePermits_inv hi hacq
    have hw1 : s'.getW (polled w0).wid = some w0 := by rw [getW_eq, ht]; exact hw'
    have hq0 := hi.tq.queuedOk w0 (tget_some_mem hw).1 hq
    obtain ⟨i2, p2⟩ := i1.setW_same (w1 := polled w0) hw1 rfl rfl
      (by intro _; exact ⟨hp, hnc, hwk, hq0.2.2.2⟩) (wpend_zero (Or.inl hp)) (wpend_zero (Or.inl hp))
    obtain ⟨w, hgw, _, rs⟩ := removeWaiterPure_spec fin i2 hrm
    have hgw' : (s'.setW (polled w0)).getW wid = some (polled w0) := by
      have := getW_setW_self hw1
      rwa [polled_wid, hwid] at this
    rw [hgw'] at hgw
    cases hgw
    have hw4' : s3.getW wid = some (unqW (polled w0)) := rs.getW
    rw [hw4] at hw4'
    cases hw4'
    have hw3 : s3.getW (gotW (unqW (polled w0))).wid = some (unqW (polled w0)) := by
      simpa [hwid] using hw4
    obtain ⟨i3, p3⟩ := rs.inv.setW_same (w1 := gotW (unqW (polled w0))) hw3 rfl rfl
      (by intro hq'; simp at hq') (wpend_zero (Or.inl hp)) (wpend_zero (Or.inr rfl))
    refine ⟨i3, ?_⟩
    have c := rs.cons
    have hts : pend s'.table = pend s.table := by rw [ht]
    simp only [setW_avail, setW_table, if_true] at p2 p3 c ⊢
    omega
  | enqueued hp hc hq hwk hacq ho =>
    subst ho
    obtain ⟨hn0, _, hnp⟩ := acquirePermits_noPermits hacq
    have htq := hi.tq.push (w := w0) (w' := enqW w0 me cx)
      (by rw [← getW_eq]; exact hw') hq rfl ⟨hp, hnc, rfl, hn0⟩
    have hp2 := pend_tset hi.tq.nodupT (w := enqW w0 me cx) (old := w0) (by rw [← getW_eq]; exact hw')
    rw [wpend_zero (w := w0) (Or.inl hp), wpend_zero (w := enqW w0 me cx) (Or.inl hp)] at hp2
    refine ⟨⟨?_, hi.batch, ?_, ?_⟩, ?_⟩
    · rw [enqW_wid, hwid] at htq; exact htq
    · intro hcl
      have : s.closed = true := hcl
      rw [hc] at this; cases this
    · intro hf
      have hf' : s.fair = true := hf
      refine HeadBlocked.enqueue hi hf' hw hq hwid rfl ?_
      intro hqe
      rcases hnp with ⟨hne, _⟩ | hlt
      · exact absurd hqe hne
      · exact hlt
    · have e1 : (({ s with queue := s.queue ++ [wid] }).setW (enqW w0 me cx)).table
          = tset s.table (enqW w0 me cx) := rfl
      have e2 : (({ s with queue := s.queue ++ [wid] }).setW (enqW w0 me cx)).avail = s.avail := rfl
      simp only [e1, e2, reduceCtorEq, if_false]
      omega
  | stillQueued hp hc hq hf hwk hacq ho =>
    subst ho
    have hq0 := hi.tq.queuedOk w0 (tget_some_mem hw).1 hq
    obtain ⟨h1, h2⟩ := hi.setW_same (w1 := waitW w0 me cx) hw' rfl rfl
      (by intro _; exact ⟨hp, hnc, rfl, hq0.2.2.2⟩) (wpend_zero (Or.inl hp)) (wpend_zero (Or.inl hp))
    refine ⟨h1, ?_⟩
    simp only [setW_avail, reduceCtorEq, if_false] at h2 ⊢
    omega
  | fairWait hp hc hq hf hwk ho =>
    subst ho
    have hq0 := hi.tq.queuedOk w0 (tget_some_mem hw).1 hq
    obtain ⟨h1, h2⟩ := hi.setW_same (w1 := waitW w0 me cx) hw' rfl rfl
      (by intro _; exact ⟨hp, hnc, rfl, hq0.2.2.2⟩) (wpend_zero (Or.inl hp)) (wpend_zero (Or.inl hp))
    refine ⟨h1, ?_⟩
    simp only [setW_avail, reduceCtorEq, if_false] at h2 ⊢
    omega

end SemLts
end ShuttleModel
