import ShuttleModel.Ref

/-!
# Reachability in the reference semantics (relational form of `Ref.outcomes`)

`Ref.outcomes` is an executable search (hash sets); the statements of C02 are phrased with the
relational `HasOutcome`, and `runPath` (replay of one path of `Ref.succs`) is its kernel-checkable
certificate.
-/

namespace ShuttleProofs.C02
open ShuttleModel ShuttleModel.Ref

/-- `s'` is reachable from `s` by transitions of the reference semantics -/
inductive Reaches (ir : IR) (cfg : Cfg) : State → State → Prop
  | refl (s : State) : Reaches ir cfg s s
  | step {s s' s'' : State} : s' ∈ succs ir cfg s → Reaches ir cfg s' s'' → Reaches ir cfg s s''

/-- `o` is the outcome of a maximal sequentially consistent interleaving of `ir` -/
def HasOutcome (ir : IR) (cfg : Cfg) (o : Ref.Outcome) : Prop :=
  ∃ s, Reaches ir cfg (init ir) s ∧ succs ir cfg s = [] ∧ outcomeOf s = o

theorem runPath_reaches {ir : IR} {cfg : Cfg} {o : Ref.Outcome} :
    ∀ (cs : List Nat) (s : State), runPath ir cfg cs s = some o →
      ∃ s', Reaches ir cfg s s' ∧ succs ir cfg s' = [] ∧ outcomeOf s' = o := by
  intro cs
  induction cs with
  | nil =>
    intro s h
    simp only [runPath] at h
    split at h
    · rename_i he
      exact ⟨s, .refl s, by simpa using he, by simpa using h⟩
    · cases h
  | cons c cs ih =>
    intro s h
    simp only [runPath] at h
    split at h
    · rename_i s' hs'
      obtain ⟨s'', hr, he, ho⟩ := ih s' h
      exact ⟨s'', .step (List.mem_of_getElem? hs') hr, he, ho⟩
    · cases h

/-- a successful `runPath` from the initial state certifies an outcome -/
theorem runPath_hasOutcome {ir : IR} {cfg : Cfg} {o : Ref.Outcome} {cs : List Nat}
    (h : runPath ir cfg cs (init ir) = some o) : HasOutcome ir cfg o :=
  runPath_reaches cs (init ir) h

end ShuttleProofs.C02
