import ShuttleModel.Serialize

namespace ShuttleModel

/-! ### Hex digits -/

theorem hexVal_hexDigit_fin : ∀ n : Fin 16, hexVal (hexDigit n.val) = some n.val := by decide

theorem isWhitespace_hexDigit_fin : ∀ n : Fin 16, isWhitespace (hexDigit n.val) = false := by decide

theorem hexDigit_ne_newline_fin : ∀ n : Fin 16, hexDigit n.val ≠ '\n' := by decide

theorem hexVal_hexDigit {n : Nat} (h : n < 16) : hexVal (hexDigit n) = some n :=
  hexVal_hexDigit_fin ⟨n, h⟩

theorem isWhitespace_hexDigit {n : Nat} (h : n < 16) : isWhitespace (hexDigit n) = false :=
  isWhitespace_hexDigit_fin ⟨n, h⟩

theorem hexDigit_ne_newline {n : Nat} (h : n < 16) : hexDigit n ≠ '\n' :=
  hexDigit_ne_newline_fin ⟨n, h⟩

theorem isWhitespace_newline : isWhitespace '\n' = true := by decide

/-- A hex digit is never whitespace (so the two rejection/skip classes are disjoint). -/
theorem hexVal_isSome_not_ws (c : Char) (h : (hexVal c).isSome) : isWhitespace c = false := by
  unfold hexVal at h
  unfold isWhitespace
  simp only at h ⊢
  generalize c.toNat = n at h ⊢
  split at h
  · simp; omega
  · split at h
    · simp; omega
    · split at h
      · simp; omega
      · simp at h

/-! ### `hex::encode` / `hex::decode` -/

@[simp] theorem encodeHex_length (bs : List Nat) : (encodeHex bs).length = 2 * bs.length := by
  induction bs with
  | nil => rfl
  | cons b bs ih => simp [encodeHex, ih]; omega

theorem encodeHex_append (as bs : List Nat) : encodeHex (as ++ bs) = encodeHex as ++ encodeHex bs := by
  induction as with
  | nil => rfl
  | cons a as ih => simp [encodeHex, ih]

theorem decodeHex_encodeHex (bs : List Nat) (h : ∀ b ∈ bs, b < 256) :
    decodeHex (encodeHex bs) = some bs := by
  induction bs with
  | nil => rfl
  | cons b bs ih =>
    have hb : b < 256 := h b (by simp)
    have ih' := ih (fun x hx => h x (by simp [hx]))
    simp only [encodeHex, decodeHex, hexVal_hexDigit (show b / 16 < 16 by omega),
      hexVal_hexDigit (show b % 16 < 16 by omega), ih']
    congr 2; omega

theorem encodeHex_take (j : Nat) (bs : List Nat) :
    (encodeHex bs).take (2 * j) = encodeHex (bs.take j) := by
  induction j generalizing bs with
  | zero => simp [encodeHex]
  | succ j ih =>
    cases bs with
    | nil => simp [encodeHex]
    | cons b bs =>
      have e : 2 * (j + 1) = (2 * j + 1) + 1 := by omega
      rw [e]
      simp only [encodeHex, List.take_succ_cons, ih]

theorem encodeHex_not_ws (bs : List Nat) (h : ∀ b ∈ bs, b < 256) :
    ∀ c ∈ encodeHex bs, isWhitespace c = false ∧ c ≠ '\n' := by
  induction bs with
  | nil => simp [encodeHex]
  | cons b bs ih =>
    have hb : b < 256 := h b (by simp)
    have ih' := ih (fun x hx => h x (by simp [hx]))
    intro c hc
    simp only [encodeHex, List.mem_cons] at hc
    rcases hc with rfl | rfl | hc
    · exact ⟨isWhitespace_hexDigit (by omega), hexDigit_ne_newline (by omega)⟩
    · exact ⟨isWhitespace_hexDigit (by omega), hexDigit_ne_newline (by omega)⟩
    · exact ih' c hc

theorem decodeHex_length : ∀ (l : List Char) (bs : List Nat),
    decodeHex l = some bs → l.length = 2 * bs.length
  | [], bs, h => by simp [decodeHex] at h; subst h; rfl
  | [_], bs, h => by simp [decodeHex] at h
  | hi :: lo :: rest, bs, h => by
    rw [decodeHex] at h
    split at h
    · next x y bs' hh hl hr =>
      simp only [Option.some.injEq] at h
      subst h
      have := decodeHex_length rest bs' hr
      simp [this]; omega
    · simp at h

theorem decodeHex_all_hex : ∀ (l : List Char) (bs : List Nat),
    decodeHex l = some bs → ∀ c ∈ l, (hexVal c).isSome
  | [], _, _ => by simp
  | [_], bs, h => by simp [decodeHex] at h
  | hi :: lo :: rest, bs, h => by
    rw [decodeHex] at h
    split at h
    · next x y bs' hh hl hr =>
      intro c hc
      simp only [List.mem_cons] at hc
      rcases hc with rfl | rfl | hc
      · simp [hh]
      · simp [hl]
      · exact decodeHex_all_hex rest bs' hr c hc
    · simp at h

/-- Bytes produced by `hex::decode` are bytes. -/
theorem decodeHex_lt : ∀ (l : List Char) (bs : List Nat),
    decodeHex l = some bs → ∀ b ∈ bs, b < 256
  | [], bs, h => by simp [decodeHex] at h; subst h; simp
  | [_], bs, h => by simp [decodeHex] at h
  | hi :: lo :: rest, bs, h => by
    rw [decodeHex] at h
    split at h
    · next x y bs' hh hl hr =>
      simp only [Option.some.injEq] at h
      subst h
      intro b hb
      simp only [List.mem_cons] at hb
      rcases hb with rfl | hb
      · have hx : x < 16 := by
          unfold hexVal at hh; simp only at hh; generalize hi.toNat = n at hh
          split at hh
          · simp at hh; omega
          · split at hh
            · simp at hh; omega
            · split at hh
              · simp at hh; omega
              · simp at hh
        have hy : y < 16 := by
          unfold hexVal at hl; simp only at hl; generalize lo.toNat = n at hl
          split at hl
          · simp at hl; omega
          · split at hl
            · simp at hl; omega
            · split at hl
              · simp at hl; omega
              · simp at hl
        omega
      · exact decodeHex_lt rest bs' hr b hb
    · simp at h

end ShuttleModel
