import ShuttleModel.Prim.Future
/-!
# C17 helpers: the poll loops `Fut.taskLoop` / `Fut.blockOnLoop` as programs — unfolding equations, associativity
of `Prog.bind`, and how the kernel runs the lens accessors
-/
namespace ShuttleProofs.C17
open ShuttleModel

theorem Prog.bind_assoc {U : Type} {α β γ : Type} (p : Prog U α) (f : α → Prog U β) (g : β → Prog U γ) :
    Prog.bind (Prog.bind p f) g = Prog.bind p (fun a => Prog.bind (f a) g) := by
  induction p with
  | pure a => rfl
  | op o k ih =>
    simp only [Prog.bind]
    congr
    funext b
    exact ih b
  | panic m => rfl

theorem bind_eq {U : Type} {α β : Type} (p : Prog U α) (f : α → Prog U β) : (p >>= f) = Prog.bind p f := rfl

variable {P : Program} {σ : Type}

/-- `K.getL` is one `getU` request -/
theorem runSegment_getL (S : Scheduler σ) (me fuel : Nat) (st : ExecState P σ) {T : Type} (L : Lens P.U T)
    (k : T → Prog P.U Unit) :
    runSegment S me (fuel + 1) st (Prog.bind (K.getL L) k) = runSegment S me fuel st (k (L.get st.u)) := by
  simp [K.getL, K.getU, Prog.lift, Bind.bind, Prog.bind, runSegment, Pure.pure]

/-- `K.setL` is a `getU` and a `setU` -/
theorem runSegment_setL (S : Scheduler σ) (me fuel : Nat) (st : ExecState P σ) {T : Type} (L : Lens P.U T)
    (v : T) (k : Unit → Prog P.U Unit) :
    runSegment S me (fuel + 2) st (Prog.bind (K.setL L v) k) =
      runSegment S me fuel { st with u := L.set v st.u } (k ()) := by
  simp [K.setL, K.getU, K.setU, Prog.lift, Bind.bind, Prog.bind, runSegment]

/-- the shape of one iteration of the poll loop of a future task -/
theorem taskLoop_succ {U : Type} {τ : Type} (F : Lens U FutHeap) (b : Nat) (poll : τ → Prog U (Option τ))
    (dropFut : τ → Prog U Unit) (tls : Prog U Unit) (fuel : Nat) (s : τ) :
    Fut.taskLoop F b poll dropFut tls (fuel + 1) s =
      Prog.bind (K.getL (Fut.joinL F b)) fun j =>
        if j.aborted = true then Prog.bind (dropFut s) fun _ => Fut.finish F b false tls
        else Prog.bind (poll s) fun r =>
          match r with
          | none => Fut.finish F b true tls
          | some s' =>
            Prog.bind K.sleepUnlessWoken fun _ => Prog.bind K.switch fun _ =>
              Fut.taskLoop F b poll dropFut tls fuel s' := by
  rfl

theorem blockOnLoop_succ {U : Type} (poll : Stage → Prog U LeafRes) (fuel : Nat) (s : Stage) :
    Fut.blockOnLoop poll (fuel + 1) s =
      Prog.bind (poll s) fun r =>
        match r with
        | .ready v => Prog.pure v
        | .pending s' =>
          Prog.bind K.sleepUnlessWoken fun _ => Prog.bind K.switch fun _ => Fut.blockOnLoop poll fuel s' := by
  rfl

/-- `Wrapper::finish` -/
theorem finish_eq {U : Type} (F : Lens U FutHeap) (b : Nat) (ok : Bool) (tls : Prog U Unit) :
    Fut.finish F b ok tls =
      Prog.bind tls fun _ => Prog.bind (K.getL (Fut.joinL F b)) fun j =>
        Prog.bind (K.setL (Fut.joinL F b) (j.publish ok).1) fun _ => runEffs (j.publish ok).2 := by
  rfl

/-- running `p` from `st` takes `c` requests, no scheduling point, and returns `r` in `st1` -/
def AtomicPoll {α : Type} (S : Scheduler σ) (me : Nat) (st : ExecState P σ) (p : Prog P.U α) (c : Nat)
    (st1 : ExecState P σ) (r : α) : Prop :=
  ∀ (fuel : Nat) (k : α → Prog P.U Unit),
    runSegment S me (fuel + c) st (Prog.bind p k) = runSegment S me fuel st1 (k r)

/-- the state after `sleep_unless_woken()` of task `me` (record `tk`), stopped at `switch()` with continuation `p` -/
def parkedAt (st : ExecState P σ) (me : Nat) (tk : Task) (p : Prog P.U Unit) : ExecState P σ :=
  { st with
    k := (st.k.setTask me
      (if tk.woken = true then { tk with woken := false } else { tk with woken := false, state := .sleeping })),
    conts := st.conts.set me p }

end ShuttleProofs.C17
