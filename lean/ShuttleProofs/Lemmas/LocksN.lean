import ShuttleProofs.Lemmas.LocksRw
import ShuttleProofs.Lemmas.SemNFrame
/-
  Every `Acquire` on the inner semaphore of a Mutex asks for 1 permit, of a RwLock for 1 (read) or
  `MAX_READS` (write): the enabling condition of `lockPoll` in `LocksLts` ("the polled Acquire asks
  for the permits of this lock operation") is therefore no restriction on a client that polls the
  Acquire its own `lockStart` created.
-/
namespace ShuttleModel
namespace LocksLts
open SemLts

theorem pollDrop_allN (P : Nat → Prop) {fin : Nat → Bool} {s s' : SemState} {t wid : Nat}
    {clk : Clock} {r : PollRes} (hi : Inv s) (h : AllN P s.table)
    (hp : pollDrop fin s t wid clk = .ok (s', r)) : AllN P s'.table := by
  unfold pollDrop at hp
  cases h1 : step fin s (.poll wid t t clk) with
  | error e => rw [h1] at hp; cases hp
  | ok o1 =>
    rw [h1] at hp
    simp only at hp
    have hi1 := (step_spec fin hi h1).1
    have ha1 := step_allN P fin hi h (fun _ _ _ e => by cases e) h1
    cases hout : o1.out with
    | polled pr =>
      rw [hout] at hp
      cases pr with
      | pending =>
        simp only [Except.ok.injEq, Prod.mk.injEq] at hp
        rw [← hp.1]; exact ha1
      | ready ok =>
        simp only at hp
        cases h2 : step fin o1.s (.dropAcquire t wid) with
        | error e => rw [h2] at hp; cases hp
        | ok o2 =>
          rw [h2] at hp
          simp only [Except.ok.injEq, Prod.mk.injEq] at hp
          rw [← hp.1]
          exact step_allN P fin hi1 ha1 (fun _ _ _ e => by cases e) h2
    | tried _ => rw [hout] at hp; cases hp
    | created _ => rw [hout] at hp; cases hp
    | dropped _ => rw [hout] at hp; cases hp
    | done => rw [hout] at hp; cases hp

theorem newAcquire_allN (P : Nat → Prop) {s : SemState} (h : AllN P s.table) (t n : Nat) (c : Clock)
    (hn : P n) : AllN P (s.newAcquire t n c).2.table := by
  intro w hw
  have hw' : w ∈ s.table ++ [{ wid := s.nextWid, taskId := t, n := n, clock := c }] := hw
  rcases List.mem_append.mp hw' with h1 | h1
  · exact h w h1
  · simp only [List.mem_singleton] at h1
    subst h1; exact hn

theorem relOp_allN (P : Nat → Prop) {fin : Nat → Bool} {s : SemState} {p : Bool} {t n : Nat}
    {clk : Clock} {o : StepOut} (hi : Inv s) (h : AllN P s.table)
    (hs : step fin s (relOp p t n clk) = .ok o) : AllN P o.s.table := by
  refine step_allN P fin hi h (fun _ _ _ e => ?_) hs
  unfold relOp at e
  cases p <;> simp at e

/-- every waiter of a Mutex's semaphore asks for exactly one permit -/
theorem mstep_allN {fin : Nat → Bool} {p : Bool} {m m' : MutexState} {op : MOp} {out : MOut}
    (hi : Inv m.sem) (h : AllN (· = 1) m.sem.table) (hs : mstep fin p m op = .ok (m', out)) :
    AllN (· = 1) m'.sem.table := by
  cases op with
  | lockStart t clk =>
    simp only [mstep] at hs
    by_cases hh : (m.holder == some t) = true
    · rw [if_pos hh] at hs; cases hs
    · rw [if_neg hh] at hs
      simp only [Except.ok.injEq, Prod.mk.injEq] at hs
      rw [← hs.1]
      exact newAcquire_allN _ h t 1 clk rfl
  | lockPoll t wid clk =>
    simp only [mstep] at hs
    cases hp : pollDrop fin m.sem t wid clk with
    | error e => rw [hp] at hs; cases hs
    | ok r =>
      obtain ⟨s', pr⟩ := r
      rw [hp] at hs
      have ha := pollDrop_allN _ hi h hp
      cases pr with
      | pending =>
        simp only [Except.ok.injEq, Prod.mk.injEq] at hs
        rw [← hs.1]; exact ha
      | ready ok =>
        cases ok with
        | false => simp only at hs; cases hs
        | true =>
          simp only at hs
          by_cases hh : m.holder.isSome = true
          · rw [if_pos hh] at hs; cases hs
          · rw [if_neg hh] at hs
            simp only [Except.ok.injEq, Prod.mk.injEq] at hs
            rw [← hs.1]; exact ha
  | lockPoisoned t =>
    simp only [mstep] at hs
    by_cases hh : m.holder.isSome = true
    · rw [if_pos hh] at hs; cases hs
    · rw [if_neg hh] at hs
      simp only [Except.ok.injEq, Prod.mk.injEq] at hs
      rw [← hs.1]; exact h
  | tryLock t clk =>
    simp only [mstep] at hs
    cases h1 : step fin m.sem (.tryAcquire t 1 clk) with
    | error e => rw [h1] at hs; cases hs
    | ok o =>
      rw [h1] at hs
      have ha := step_allN (· = 1) fin hi h (fun _ _ _ e => by cases e) h1
      simp only at hs
      split at hs <;>
      · simp only [Except.ok.injEq, Prod.mk.injEq] at hs
        rw [← hs.1]; exact ha
  | unlock t clk =>
    simp only [mstep] at hs
    cases h1 : step fin m.sem (relOp p t 1 clk) with
    | error e => rw [h1] at hs; cases hs
    | ok o =>
      rw [h1] at hs
      simp only [Except.ok.injEq, Prod.mk.injEq] at hs
      rw [← hs.1]
      exact relOp_allN _ hi h h1
  | write t v =>
    simp only [mstep, Except.ok.injEq, Prod.mk.injEq] at hs
    rw [← hs.1]; exact h

theorem mutex_all_waiters_one {g : MG} (hr : MReach g) : AllN (· = 1) g.m.sem.table := by
  induction hr with
  | init => intro w hw; simp [SemState.constNew] at hw
  | step fin p op hr _ hs ih => exact mstep_allN (mreach_inv hr).sem ih hs

/-- hence the enabling condition of `lockPoll` just says that the polled `Acquire` is alive -/
theorem mutex_lockPoll_enabled_iff {g : MG} (hr : MReach g) (t wid : Nat) (clk : Clock) :
    MEnabled g (.lockPoll t wid clk) ↔ (g.m.sem.getW wid).isSome = true := by
  simp only [MEnabled]
  constructor
  · rintro ⟨w, hw, _⟩; rw [hw]; rfl
  · intro h
    cases hw : g.m.sem.getW wid with
    | none => rw [hw] at h; cases h
    | some w => exact ⟨w, rfl, mutex_all_waiters_one hr w (tget_some_mem hw).1⟩

/-! ### RwLock -/

/-- 1 (read) or `MAX_READS` (write) -/
def RwAmount (n : Nat) : Prop := ∃ write : Bool, n = RwLock.permits write

theorem takeGuard_ok_sem {m m' : RwLockState} {t : Nat} {write p : Bool}
    (h : m.takeGuard t write p = .ok m') : m'.sem = m.sem := by
  unfold RwLockState.takeGuard at h
  cases write <;> cases hh : m.holder <;> simp only [hh] at h
  all_goals first
    | (cases h; rfl)
    | (split at h <;> first | (cases h; rfl) | cases h)
    | cases h

theorem dropGuard_sem (m : RwLockState) (t : Nat) (write p : Bool) :
    (m.dropGuard t write p).1.sem = m.sem := by
  unfold RwLockState.dropGuard
  cases write <;> cases hh : m.holder <;> simp only
  all_goals first
    | rfl
    | (split <;> rfl)

theorem takeOrPanic_sem {m m' : RwLockState} {t : Nat} {write p : Bool} {out : ROut}
    (h : takeOrPanic m t write p = .ok (m', out)) : m'.sem = m.sem := by
  unfold takeOrPanic at h
  cases ht : m.takeGuard t write p with
  | ok m1 =>
    rw [ht] at h
    simp only [Except.ok.injEq, Prod.mk.injEq] at h
    rw [← h.1]; exact takeGuard_ok_sem ht
  | already => rw [ht] at h; cases h
  | incompatible => rw [ht] at h; cases h

theorem rstep_allN {fin : Nat → Bool} {p : Bool} {m m' : RwLockState} {op : ROp} {out : ROut}
    (hi : Inv m.sem) (h : AllN RwAmount m.sem.table) (hs : rstep fin p m op = .ok (m', out)) :
    AllN RwAmount m'.sem.table := by
  cases op with
  | lockStart t write clk =>
    simp only [rstep] at hs
    by_cases hh : m.holds t = true
    · rw [if_pos hh] at hs; cases hs
    · rw [if_neg hh] at hs
      simp only [Except.ok.injEq, Prod.mk.injEq] at hs
      rw [← hs.1]
      exact newAcquire_allN _ h t _ clk ⟨write, rfl⟩
  | lockPoll t wid write clk =>
    simp only [rstep] at hs
    cases hp : pollDrop fin m.sem t wid clk with
    | error e => rw [hp] at hs; cases hs
    | ok r =>
      obtain ⟨s', pr⟩ := r
      rw [hp] at hs
      have ha := pollDrop_allN _ hi h hp
      cases pr with
      | pending =>
        simp only [Except.ok.injEq, Prod.mk.injEq] at hs
        rw [← hs.1]; exact ha
      | ready ok =>
        cases ok with
        | false => simp only at hs; cases hs
        | true =>
          simp only at hs
          rw [takeOrPanic_sem hs]; exact ha
  | lockPoisoned t write =>
    simp only [rstep] at hs
    rw [takeOrPanic_sem hs]; exact h
  | tryLock t write clk =>
    simp only [rstep] at hs
    cases h1 : step fin m.sem (.tryAcquire t (RwLock.permits write) clk) with
    | error e => rw [h1] at hs; cases hs
    | ok o =>
      rw [h1] at hs
      have ha := step_allN RwAmount fin hi h (fun _ _ _ e => by cases e) h1
      simp only at hs
      split at hs
      · split at hs
        · next m1 ht =>
          simp only [Except.ok.injEq, Prod.mk.injEq] at hs
          rw [← hs.1, takeGuard_ok_sem ht]; exact ha
        · simp only [Except.ok.injEq, Prod.mk.injEq] at hs
          rw [← hs.1]; exact ha
        · simp only [Except.ok.injEq, Prod.mk.injEq] at hs
          rw [← hs.1]; exact ha
      · simp only [Except.ok.injEq, Prod.mk.injEq] at hs
        rw [← hs.1]; exact ha
  | tryGiveBack t clk =>
    simp only [rstep] at hs
    cases h1 : step fin m.sem (relOp p t 1 clk) with
    | error e => rw [h1] at hs; cases hs
    | ok o =>
      rw [h1] at hs
      simp only [Except.ok.injEq, Prod.mk.injEq] at hs
      rw [← hs.1]
      exact relOp_allN _ hi h h1
  | unlock t write clk =>
    simp only [rstep] at hs
    cases h1 : step fin m.sem (relOp p t (RwLock.permits write) clk) with
    | error e => rw [h1] at hs; cases hs
    | ok o =>
      rw [h1] at hs
      have ha := relOp_allN RwAmount hi h h1
      simp only at hs
      have hsem := dropGuard_sem ({ m with sem := o.s } : RwLockState) t write p
      split at hs
      · next m1 hd =>
        simp only [Except.ok.injEq, Prod.mk.injEq] at hs
        rw [hd] at hsem
        rw [← hs.1, hsem]; exact ha
      · cases hs
  | write t v =>
    simp only [rstep, Except.ok.injEq, Prod.mk.injEq] at hs
    rw [← hs.1]; exact h

theorem rwlock_all_waiters_amount {fx : Bool} {g : RG} (hr : RReach fx g) :
    AllN RwAmount g.m.sem.table := by
  induction hr with
  | init => intro w hw; simp [SemState.constNew] at hw
  | step fin p op hr _ hs ih =>
    have := rstep_allN (rreach_inv hr).sem ih hs
    rename_i g0 m' out _
    have hm : (rnext g0 m' op out).m = m' := by
      unfold rnext
      cases op <;> cases out <;> simp only [pushGuard] <;> (try split) <;> (try split) <;> (try split) <;> rfl
    rw [hm]; exact this

end LocksLts
end ShuttleModel
