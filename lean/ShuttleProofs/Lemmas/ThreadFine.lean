import ShuttleProofs.Lemmas.KernelInv
/-!
# A task-level refinement of the relational semantics of `runSegment`

`SegStep` (KernelSegment.lean) forgets *which* task a request updates.  `FineStep` keeps it: a request either
leaves the task table and the continuation table alone, or applies one fallible `Task` transition `f` to one
task `t` (`opFun me o = some (t, f)`), or is a `spawn`.  On top of it: what a whole segment / a whole loop
iteration can do to another task (C07).
-/

namespace ShuttleProofs.Thread
open ShuttleModel ShuttleProofs.Kernel

variable {P : Program} {σ : Type}

/-- the task a request updates and the `Task` transition it applies to it -/
def opFun {U : Type} (me : Nat) : {β : Type} → KOp U β → Option (Nat × (Task → Except String Task))
  | _, .block sp => some (me, (·.block sp))
  | _, .blockTask t => some (t, (·.block false))
  | _, .sleepUnlessWoken => some (me, (·.sleepUnlessWoken))
  | _, .unblock t => some (t, (·.unblock))
  | _, .wake t => some (t, (·.wake))
  | _, .park => some (me, fun tk => match tk.park with | .ok (_, tk') => .ok tk' | .error e => .error e)
  | _, .unpark t => some (t, (·.unpark))
  | _, .setWaiter t => some (t, fun tk => match tk.setWaiter me with | .ok (_, tk') => .ok tk' | .error e => .error e)
  | _, .takeWaiter => some (me, fun tk => .ok { tk with waiter := none })
  | _, .detach t => some (t, fun tk => .ok { tk with detached := true })
  | _, .updateClock c => some (me, fun tk => .ok { tk with clock := (tk.clock.increment me).update c })
  | _, .incClock => some (me, fun tk => .ok { tk with clock := tk.clock.increment me })
  | _, .joinClockOf t c => some (t, fun tk => .ok { tk with clock := tk.clock.update c })
  | _, _ => none

inductive FineStep (S : Scheduler σ) (me : Nat) :
    {β : Type} → KOp P.U β → β → ExecState P σ → ExecState P σ → Prop
  /-- neither the task table nor the continuation table changed -/
  | same {β : Type} (o : KOp P.U β) (b : β) (st st' : ExecState P σ) :
      isSwitch o = false → st'.k.tasks = st.k.tasks → st'.conts = st.conts → FineStep S me o b st st'
  /-- one `Task` transition on one task -/
  | upd {β : Type} (o : KOp P.U β) (b : β) (st : ExecState P σ) (t : Nat) (f : Task → Except String Task)
      (tk tk' : Task) : opFun me o = some (t, f) → st.k.tasks[t]? = some tk → f tk = .ok tk' →
      FineStep S me o b st { st with k := st.k.setTask t tk' }
  /-- `spawn`: the new id is the length of the task table; the body's program is appended to `conts` -/
  | spawn (st : ExecState P σ) (fut : Bool) (body : Nat) :
      FineStep S me (.spawn fut body) st.k.tasks.length st
        { st with k := (st.k.spawnTask (some me)).2, conts := st.conts ++ [P.bodies body] }

theorem spawnTask_fst (k : Kernel) (p : Option Nat) : (k.spawnTask p).1 = k.tasks.length := by
  unfold Kernel.spawnTask
  cases p with
  | none => rfl
  | some p => dsimp only; cases k.getTask? p <;> rfl

theorem FineStep.not_switch {S : Scheduler σ} {me : Nat} {β : Type} {o : KOp P.U β} {b : β}
    {st st' : ExecState P σ} (h : FineStep S me o b st st') : isSwitch o = false := by
  cases h with
  | same _ _ _ _ h0 _ _ => exact h0
  | upd _ _ _ t f tk tk' ho _ _ => cases o <;> first | rfl | simp [opFun] at ho
  | spawn _ _ _ => rfl

def OpFine (S : Scheduler σ) (me fuel : Nat) (st : ExecState P σ) {β : Type} (o : KOp P.U β)
    (kont : β → Prog P.U Unit) (e : SegEnd P σ) : Prop :=
  (∃ b st', FineStep S me o b st st' ∧ e = runSegment S me fuel st' (kont b)) ∨ SegHalt S me o kont st e

theorem fine_same (S : Scheduler σ) (me fuel : Nat) (st st' : ExecState P σ) {β : Type} (o : KOp P.U β)
    (kont : β → Prog P.U Unit) (b : β) (h1 : st'.k.tasks = st.k.tasks) (h2 : st'.conts = st.conts)
    (h0 : isSwitch o = false := by rfl) :
    OpFine S me fuel st o kont (runSegment S me fuel st' (kont b)) :=
  Or.inl ⟨b, st', .same o b st st' h0 h1 h2, rfl⟩

theorem fine_onTask (S : Scheduler σ) (me fuel : Nat) (st : ExecState P σ) {β : Type} (o : KOp P.U β)
    (kont : β → Prog P.U Unit) (b : β) (t : Nat) (f : Task → Except String Task)
    (ho : opFun me o = some (t, f)) :
    OpFine S me fuel st o kont
      (match st.k.modTask t f with
        | .ok k' => runSegment S me fuel { st with k := k' } (kont b)
        | .error e => SegEnd.panicked e st) := by
  cases h : st.k.modTask t f with
  | error e => exact Or.inr (SegHalt.panicked o kont st e)
  | ok k' =>
    obtain ⟨tk, tk', h1, h2, rfl⟩ := modTask_ok h
    exact Or.inl ⟨b, _, .upd o b st t f tk tk' ho h1 h2, rfl⟩

theorem fine_setTask (S : Scheduler σ) (me fuel : Nat) (st : ExecState P σ) {β : Type} (o : KOp P.U β)
    (kont : β → Prog P.U Unit) (b : β) (t : Nat) (f : Task → Except String Task) (tk tk' : Task)
    (ho : opFun me o = some (t, f)) (h1 : st.k.tasks[t]? = some tk) (h2 : f tk = .ok tk') :
    OpFine S me fuel st o kont (runSegment S me fuel { st with k := st.k.setTask t tk' } (kont b)) :=
  Or.inl ⟨b, _, .upd o b st t f tk tk' ho h1 h2, rfl⟩

theorem runSegment_op_fine (S : Scheduler σ) (me fuel : Nat) (st : ExecState P σ) {β : Type} (o : KOp P.U β)
    (kont : β → Prog P.U Unit) :
    OpFine S me fuel st o kont (runSegment S me (fuel + 1) st (.op o kont)) := by
  cases o with
  | switch => rw [runSegment]; exact Or.inr (SegHalt.switch kont st)
  | me => rw [runSegment]; exact fine_same S me fuel st st _ kont _ rfl rfl
  | getU => rw [runSegment]; exact fine_same S me fuel st st _ kont _ rfl rfl
  | setU u => rw [runSegment]; exact fine_same S me fuel st _ _ kont () rfl rfl
  | emit s => rw [runSegment]; exact fine_same S me fuel st _ _ kont () rfl rfl
  | block sp => rw [runSegment]; exact fine_onTask S me fuel st _ kont () _ _ rfl
  | blockTask t => rw [runSegment]; exact fine_onTask S me fuel st _ kont () _ _ rfl
  | sleepUnlessWoken => rw [runSegment]; exact fine_onTask S me fuel st _ kont () _ _ rfl
  | unblock t => rw [runSegment]; exact fine_onTask S me fuel st _ kont () _ _ rfl
  | wake t =>
    rw [runSegment]
    split
    · exact fine_same S me fuel st st _ kont _ rfl rfl
    · split
      · exact Or.inr (SegHalt.panicked _ kont st _)
      · split
        · exact fine_same S me fuel st st _ kont _ rfl rfl
        · exact fine_onTask S me fuel st _ kont () _ _ rfl
  | isFinished t => rw [runSegment]; exact fine_same S me fuel st st _ kont _ rfl rfl
  | requestYield => rw [runSegment]; exact fine_same S me fuel st _ _ kont () rfl rfl
  | rand =>
    rw [runSegment]
    rcases h : S.nextU64 st.sch with ⟨r, s'⟩
    cases r with
    | ok v => exact fine_same S me fuel st _ _ kont v rfl rfl
    | error e => exact Or.inr (SegHalt.randFail kont st e s' h)
  | spawn fut body =>
    rw [runSegment]
    have h1 := spawnTask_fst st.k (some me)
    rcases hsp : st.k.spawnTask (some me) with ⟨tid, k'⟩
    rw [hsp] at h1
    simp only at h1
    subst h1
    exact Or.inl ⟨_, _, FineStep.spawn st fut body, by rw [hsp]⟩
  | park =>
    rw [runSegment]
    simp only [Kernel.getTask?]
    cases hg : st.k.tasks[me]? with
    | none => exact Or.inr (SegHalt.panicked _ kont st _)
    | some tk =>
      dsimp only
      cases hp : tk.park with
      | error e => exact Or.inr (SegHalt.panicked _ kont st _)
      | ok r =>
        obtain ⟨b, tk'⟩ := r
        exact fine_setTask S me fuel st .park kont b me _ tk tk' rfl hg (by simp only [hp])
  | unpark t => rw [runSegment]; exact fine_onTask S me fuel st _ kont () _ _ rfl
  | setWaiter target =>
    rw [runSegment]
    simp only [Kernel.getTask?]
    cases hg : st.k.tasks[target]? with
    | none => exact Or.inr (SegHalt.panicked _ kont st _)
    | some tk =>
      dsimp only
      cases hp : tk.setWaiter me with
      | error e => exact Or.inr (SegHalt.panicked _ kont st _)
      | ok r =>
        obtain ⟨b, tk'⟩ := r
        exact fine_setTask S me fuel st (.setWaiter target) kont b target _ tk tk' rfl hg (by simp only [hp])
  | takeWaiter =>
    rw [runSegment]
    simp only [Kernel.getTask?]
    cases hg : st.k.tasks[me]? with
    | none => exact Or.inr (SegHalt.panicked _ kont st _)
    | some tk => exact fine_setTask S me fuel st .takeWaiter kont tk.waiter me _ tk _ rfl hg rfl
  | detach t => rw [runSegment]; exact fine_onTask S me fuel st _ kont () _ _ rfl
  | clock => rw [runSegment]; exact fine_same S me fuel st st _ kont _ rfl rfl
  | clockOf t => rw [runSegment]; exact fine_same S me fuel st st _ kont _ rfl rfl
  | updateClock c => rw [runSegment]; exact fine_onTask S me fuel st _ kont () _ _ rfl
  | incClock =>
    rw [runSegment]
    simp only [Kernel.getTask?]
    cases hg : st.k.tasks[me]? with
    | none => exact Or.inr (SegHalt.panicked _ kont st _)
    | some tk => exact fine_setTask S me fuel st .incClock kont _ me _ tk _ rfl hg rfl
  | joinClockOf t c => rw [runSegment]; exact fine_onTask S me fuel st _ kont () _ _ rfl
  | exitTruncates => rw [runSegment]; exact fine_same S me fuel st st _ kont _ rfl rfl
  | resetSteps => rw [runSegment]; exact fine_same S me fuel st _ _ kont () rfl rfl
  | ctxSwitches => rw [runSegment]; exact fine_same S me fuel st st _ kont _ rfl rfl
  | isPanicking => rw [runSegment]; exact fine_same S me fuel st st _ kont _ rfl rfl

/-- `SegTrace` with `FineStep`s -/
inductive FineTrace (S : Scheduler σ) (me : Nat) : ExecState P σ → Prog P.U Unit → SegEnd P σ → Prop
  | fuel (st : ExecState P σ) (p : Prog P.U Unit) :
      FineTrace S me st p (.outOfFuel { st with conts := st.conts.set me p })
  | ret (st : ExecState P σ) :
      FineTrace S me st (.pure ()) (.returned { st with conts := st.conts.set me (.pure ()) })
  | retPanicking (st : ExecState P σ) (msg : String) : FineTrace S me st (.pure ()) (.panicked msg st)
  | abort (st : ExecState P σ) (msg : String) : FineTrace S me st (.panic msg) (.aborted msg st)
  | unwind (st : ExecState P σ) (msg : String) (pk : Option (Nat × String)) (apk : List (Nat × String))
      (e : SegEnd P σ) :
      FineTrace S me { st with k := { st.k with panicking := pk, alsoPanicking := apk } } (P.unwind me) e →
      FineTrace S me st (.panic msg) e
  | halt {β : Type} (o : KOp P.U β) (kont : β → Prog P.U Unit) (st : ExecState P σ) (e : SegEnd P σ) :
      SegHalt S me o kont st e → FineTrace S me st (.op o kont) e
  | step {β : Type} (o : KOp P.U β) (kont : β → Prog P.U Unit) (st st' : ExecState P σ) (b : β)
      (e : SegEnd P σ) :
      FineStep S me o b st st' → FineTrace S me st' (kont b) e → FineTrace S me st (.op o kont) e

theorem runSegment_fineTrace (S : Scheduler σ) (me : Nat) :
    ∀ (fuel : Nat) (st : ExecState P σ) (p : Prog P.U Unit), FineTrace S me st p (runSegment S me fuel st p)
  | 0, st, p => by rw [runSegment]; exact FineTrace.fuel st p
  | fuel + 1, st, .pure () => by
    rw [runSegment]
    repeat' split
    all_goals first | exact FineTrace.ret st | exact FineTrace.retPanicking st _
  | fuel + 1, st, .panic msg => by
    rw [runSegment]
    split
    · split
      · exact FineTrace.abort st msg
      · exact FineTrace.unwind st msg st.k.panicking _ _ (runSegment_fineTrace S me fuel _ (P.unwind me))
    · exact FineTrace.unwind st msg _ st.k.alsoPanicking _ (runSegment_fineTrace S me fuel _ (P.unwind me))
  | fuel + 1, st, .op o kont => by
    rcases runSegment_op_fine S me fuel st o kont with ⟨b, st', hs, he⟩ | hh
    · rw [he]
      exact FineTrace.step o kont st st' b _ hs (runSegment_fineTrace S me fuel st' (kont b))
    · exact FineTrace.halt o kont st _ hh

/-! ### `Task` transitions: `Finished` is terminal -/

theorem park_finished {tk tk' : Task} {b : Bool} (h : tk.park = .ok (b, tk')) (hs : tk.state = .finished) :
    tk'.state = .finished := by
  unfold Task.park at h
  split at h
  · cases h
  · split at h
    · cases h
    · split at h
      · cases h; exact hs
      · simp [Task.block, Task.finished, hs] at h

theorem setWaiter_state {tk tk' : Task} {w : Nat} {b : Bool} (h : tk.setWaiter w = .ok (b, tk')) :
    tk'.state = tk.state := by
  unfold Task.setWaiter at h
  split at h
  · cases h
  · split at h <;> (cases h; rfl)

theorem unpark_finished {tk tk' : Task} (h : tk.unpark = .ok tk') (hs : tk.state = .finished) :
    tk'.state = .finished := by
  unfold Task.unpark at h
  split at h
  · simp [Task.isBlocked, hs] at h
  · cases h; exact hs

theorem opFun_finished {U : Type} {me : Nat} {β : Type} {o : KOp U β} {t : Nat} {f : Task → Except String Task}
    (ho : opFun me o = some (t, f)) {tk tk' : Task} (hf : f tk = .ok tk') (hfin : tk.finished = true) :
    tk'.finished = true := by
  have hs : tk.state = .finished := (Task.finished_iff tk).1 hfin
  cases o <;> simp only [opFun, Option.some.injEq, Prod.mk.injEq, reduceCtorEq] at ho
  all_goals obtain ⟨rfl, rfl⟩ := ho
  case block sp => simp [Task.block, hfin] at hf
  case blockTask t => simp [Task.block, hfin] at hf
  case sleepUnlessWoken =>
    simp only [Task.sleepUnlessWoken] at hf
    split at hf
    · cases hf; simpa [Task.finished] using hfin
    · simp [Task.sleep, Task.finished, hs] at hf
  case unblock t => simp [Task.unblock, hfin] at hf
  case wake t =>
    simp [Task.wake, Task.sleeping, hs] at hf
    subst hf; simp [Task.finished, hs]
  case park =>
    dsimp only at hf
    cases hp : tk.park with
    | error e => rw [hp] at hf; cases hf
    | ok r =>
      obtain ⟨b, tk''⟩ := r
      rw [hp] at hf; cases hf
      exact (Task.finished_iff _).2 (park_finished hp hs)
  case unpark t => exact (Task.finished_iff _).2 (unpark_finished hf hs)
  case setWaiter t =>
    dsimp only at hf
    cases hp : tk.setWaiter me with
    | error e => rw [hp] at hf; cases hf
    | ok r =>
      obtain ⟨b, tk''⟩ := r
      rw [hp] at hf; cases hf
      exact (Task.finished_iff _).2 ((setWaiter_state hp).trans hs)
  all_goals (simp only [Except.ok.injEq] at hf; subst hf; simpa [Task.finished] using hfin)

end ShuttleProofs.Thread
