import ShuttleModel.Prim.Sem
/-
  Basic facts about the waiter table (`getW` / `setW` / `dropW`), the batch list of
  `PermitsAvailable`, and the ghost quantity `pend` (permits granted to waiters whose `Acquire`
  has not completed yet).
-/
namespace ShuttleModel
namespace SemLts

/-! ### table operations -/

def tget (T : List Waiter) (wid : Nat) : Option Waiter := T.find? (·.wid == wid)
def tset (T : List Waiter) (w : Waiter) : List Waiter := T.map (fun x => if x.wid == w.wid then w else x)
def tdrop (T : List Waiter) (wid : Nat) : List Waiter := T.filter (·.wid != wid)

theorem getW_eq (s : SemState) (wid : Nat) : s.getW wid = tget s.table wid := rfl
theorem setW_eq (s : SemState) (w : Waiter) : s.setW w = { s with table := tset s.table w } := rfl
theorem dropW_eq (s : SemState) (wid : Nat) : s.dropW wid = { s with table := tdrop s.table wid } := rfl

@[simp] theorem setW_table (s : SemState) (w : Waiter) : (s.setW w).table = tset s.table w := rfl
@[simp] theorem setW_queue (s : SemState) (w : Waiter) : (s.setW w).queue = s.queue := rfl
@[simp] theorem setW_avail (s : SemState) (w : Waiter) : (s.setW w).avail = s.avail := rfl
@[simp] theorem setW_fair (s : SemState) (w : Waiter) : (s.setW w).fair = s.fair := rfl
@[simp] theorem setW_closed (s : SemState) (w : Waiter) : (s.setW w).closed = s.closed := rfl
@[simp] theorem setW_batches (s : SemState) (w : Waiter) : (s.setW w).batches = s.batches := rfl
@[simp] theorem setW_nextWid (s : SemState) (w : Waiter) : (s.setW w).nextWid = s.nextWid := rfl
@[simp] theorem setW_lastAcquire (s : SemState) (w : Waiter) : (s.setW w).lastAcquire = s.lastAcquire := rfl
@[simp] theorem dropW_table (s : SemState) (wid : Nat) : (s.dropW wid).table = tdrop s.table wid := rfl
@[simp] theorem dropW_queue (s : SemState) (wid : Nat) : (s.dropW wid).queue = s.queue := rfl
@[simp] theorem dropW_avail (s : SemState) (wid : Nat) : (s.dropW wid).avail = s.avail := rfl
@[simp] theorem dropW_fair (s : SemState) (wid : Nat) : (s.dropW wid).fair = s.fair := rfl
@[simp] theorem dropW_closed (s : SemState) (wid : Nat) : (s.dropW wid).closed = s.closed := rfl
@[simp] theorem dropW_batches (s : SemState) (wid : Nat) : (s.dropW wid).batches = s.batches := rfl
@[simp] theorem dropW_nextWid (s : SemState) (wid : Nat) : (s.dropW wid).nextWid = s.nextWid := rfl

@[simp] theorem tget_nil (wid : Nat) : tget [] wid = none := rfl
@[simp] theorem tget_cons (x : Waiter) (T : List Waiter) (wid : Nat) :
    tget (x :: T) wid = if x.wid = wid then some x else tget T wid := by
  by_cases h : x.wid = wid
  · simp [tget, h]
  · have h' : (x.wid == wid) = false := by simpa using h
    simp [tget, h, h']
@[simp] theorem tset_nil (w : Waiter) : tset [] w = [] := rfl
@[simp] theorem tset_cons (x : Waiter) (T : List Waiter) (w : Waiter) :
    tset (x :: T) w = (if x.wid = w.wid then w else x) :: tset T w := by
  simp only [tset, List.map_cons]; by_cases h : x.wid = w.wid <;> simp [h]
@[simp] theorem tdrop_nil (w : Nat) : tdrop [] w = [] := rfl
@[simp] theorem tdrop_cons (x : Waiter) (T : List Waiter) (wid : Nat) :
    tdrop (x :: T) wid = if x.wid = wid then tdrop T wid else x :: tdrop T wid := by
  simp only [tdrop, List.filter_cons]; by_cases h : x.wid = wid <;> simp [h]

/-- wids of the table are pairwise distinct -/
def WidsNodup (T : List Waiter) : Prop := (T.map (·.wid)).Nodup

@[simp] theorem widsNodup_nil : WidsNodup [] := by simp [WidsNodup]
@[simp] theorem widsNodup_cons (x : Waiter) (T : List Waiter) :
    WidsNodup (x :: T) ↔ (∀ y ∈ T, y.wid ≠ x.wid) ∧ WidsNodup T := by
  simp only [WidsNodup, List.map_cons, List.nodup_cons, List.mem_map, not_exists, not_and]

theorem tget_some_mem {T : List Waiter} {wid : Nat} {w : Waiter} (h : tget T wid = some w) :
    w ∈ T ∧ w.wid = wid := by
  induction T with
  | nil => simp at h
  | cons x T ih => grind [tget_cons]

theorem tget_of_mem {T : List Waiter} (hnd : WidsNodup T) {w : Waiter} (hw : w ∈ T) :
    tget T w.wid = some w := by
  induction T with
  | nil => cases hw
  | cons x T ih => grind [tget_cons, widsNodup_cons]

theorem tget_iff {T : List Waiter} (hnd : WidsNodup T) {wid : Nat} {w : Waiter} :
    tget T wid = some w ↔ w ∈ T ∧ w.wid = wid := by
  constructor
  · exact tget_some_mem
  · rintro ⟨h, rfl⟩; exact tget_of_mem hnd h

theorem tget_none_iff {T : List Waiter} {wid : Nat} : tget T wid = none ↔ ∀ w ∈ T, w.wid ≠ wid := by
  simp [tget]

theorem tset_map_wid (T : List Waiter) (w : Waiter) : (tset T w).map (·.wid) = T.map (·.wid) := by
  induction T with
  | nil => rfl
  | cons x T ih => grind [tset_cons]

theorem tset_nodup {T : List Waiter} (w : Waiter) (h : WidsNodup T) : WidsNodup (tset T w) := by
  unfold WidsNodup; rw [tset_map_wid]; exact h

theorem mem_tset {T : List Waiter} {w x : Waiter} :
    x ∈ tset T w ↔ (x ∈ T ∧ x.wid ≠ w.wid) ∨ (x = w ∧ ∃ y ∈ T, y.wid = w.wid) := by
  induction T with
  | nil => simp
  | cons y T ih => grind [tset_cons]

theorem tget_tset (T : List Waiter) (w : Waiter) (wid : Nat) :
    tget (tset T w) wid =
      if wid = w.wid then (if (tget T w.wid).isSome then some w else none) else tget T wid := by
  induction T with
  | nil => simp
  | cons x T ih => grind [tget_cons, tset_cons]

theorem tget_tset_self {T : List Waiter} {w old : Waiter} (h : tget T w.wid = some old) :
    tget (tset T w) w.wid = some w := by
  rw [tget_tset]; simp [h]

theorem tget_tset_ne {T : List Waiter} {w : Waiter} {wid : Nat} (h : wid ≠ w.wid) :
    tget (tset T w) wid = tget T wid := by
  rw [tget_tset]; simp [h]

theorem mem_tdrop {T : List Waiter} {wid : Nat} {x : Waiter} : x ∈ tdrop T wid ↔ x ∈ T ∧ x.wid ≠ wid := by
  simp [tdrop]

theorem tdrop_nodup {T : List Waiter} (wid : Nat) (h : WidsNodup T) : WidsNodup (tdrop T wid) := by
  unfold WidsNodup tdrop at *
  exact (List.filter_sublist.map _).nodup h

theorem tget_tdrop (T : List Waiter) (wid wid' : Nat) :
    tget (tdrop T wid) wid' = if wid' = wid then none else tget T wid' := by
  induction T with
  | nil => simp
  | cons x T ih => grind [tget_cons, tdrop_cons]

theorem tset_of_not_mem {T : List Waiter} {w : Waiter} (h : ∀ x ∈ T, x.wid ≠ w.wid) :
    tset T w = T := by
  induction T with
  | nil => rfl
  | cons x T ih => grind [tset_cons]

theorem tdrop_of_not_mem {T : List Waiter} {wid : Nat} (h : ∀ x ∈ T, x.wid ≠ wid) :
    tdrop T wid = T := by
  induction T with
  | nil => rfl
  | cons x T ih => grind [tdrop_cons]

/-! ### granted-but-uncompleted permits -/

/-- permits a waiter holds on behalf of an `Acquire` that has not completed yet -/
def wpend (w : Waiter) : Nat := if w.hasPermits && !w.completed then w.n else 0

/-- `Σ` over the table of the permits granted to not yet completed acquisitions -/
def pend : List Waiter → Nat
  | [] => 0
  | w :: T => wpend w + pend T

@[simp] theorem pend_nil : pend [] = 0 := rfl
@[simp] theorem pend_cons (w : Waiter) (T : List Waiter) : pend (w :: T) = wpend w + pend T := rfl

theorem pend_append (A B : List Waiter) : pend (A ++ B) = pend A + pend B := by
  induction A with
  | nil => simp
  | cons x A ih => simp [ih]; omega

theorem pend_tset {T : List Waiter} (hnd : WidsNodup T) {w old : Waiter}
    (h : tget T w.wid = some old) : pend (tset T w) + wpend old = pend T + wpend w := by
  induction T with
  | nil => simp at h
  | cons x T ih =>
    by_cases hx : x.wid = w.wid
    · have hT : tset T w = T := tset_of_not_mem (by grind [widsNodup_cons])
      grind [tget_cons, tset_cons, pend_cons]
    · grind [tget_cons, tset_cons, pend_cons, widsNodup_cons]

theorem pend_tdrop {T : List Waiter} (hnd : WidsNodup T) {wid : Nat} {old : Waiter}
    (h : tget T wid = some old) : pend (tdrop T wid) + wpend old = pend T := by
  induction T with
  | nil => simp at h
  | cons x T ih =>
    by_cases hx : x.wid = wid
    · have hT : tdrop T wid = T := tdrop_of_not_mem (by grind [widsNodup_cons])
      grind [tget_cons, tdrop_cons, pend_cons]
    · grind [tget_cons, tdrop_cons, pend_cons, widsNodup_cons]

theorem tdrop_of_tget_none {T : List Waiter} {wid : Nat} (h : tget T wid = none) : tdrop T wid = T :=
  tdrop_of_not_mem (tget_none_iff.mp h)

/-! ### batches -/

def bsum : List (Nat × Clock) → Nat
  | [] => 0
  | (b, _) :: rest => b + bsum rest

theorem bsum_append (A B : List (Nat × Clock)) : bsum (A ++ B) = bsum A + bsum B := by
  induction A with
  | nil => simp [bsum]
  | cons x A ih => obtain ⟨b, c⟩ := x; simp [bsum, ih]; omega

theorem takeBatches_sum (n : Nat) (bs : List (Nat × Clock)) (acc : Clock) (h : n ≤ bsum bs) :
    bsum (SemState.takeBatches n bs acc).1 + n = bsum bs := by
  induction bs generalizing n acc with
  | nil => simp [bsum] at h; subst h; simp [SemState.takeBatches, bsum]
  | cons x bs ih =>
    obtain ⟨b, c⟩ := x
    simp only [SemState.takeBatches]
    by_cases h1 : n < b
    · rw [if_pos h1]; simp only [bsum]; omega
    · rw [if_neg h1]
      by_cases h2 : n = b
      · rw [if_pos h2]; simp only [bsum]; omega
      · rw [if_neg h2]
        simp only [bsum] at h ⊢
        have := ih (n - b) (acc.update c) (by omega)
        omega

end SemLts
end ShuttleModel
