import ShuttleProofs.Lemmas.KernelDecision
/-!
# Concrete programs and schedulers used by the non-vacuity examples of C08 / C13 / C03
-/

namespace ShuttleProofs.Kernel
open ShuttleModel

/-- always pick the first offered task; `next_u64` always answers 7 -/
def firstSched : Scheduler Unit :=
  { nextTask := fun s vs _ _ => (.choose (vs.head?.map (·.id)), s), nextU64 := fun s => (.ok 7, s) }

/-- always pick the last offered task -/
def lastSched : Scheduler Unit :=
  { nextTask := fun s vs _ _ => (.choose (vs.getLast?.map (·.id)), s), nextU64 := fun s => (.ok 7, s) }

/-- answers `None` at its `n`-th consultation (state = number of consultations so far), else the first task -/
def stopAfter (n : Nat) : Scheduler Nat :=
  { nextTask := fun s vs _ _ => (.choose (if s = n then none else vs.head?.map (·.id)), s + 1),
    nextU64 := fun s => (.ok 7, s) }

/-- main spawns a child, switches, requests a yield, switches, draws a random number, ends;
the child switches once and ends -/
def exP : Program :=
  { U := Nat, init := 0,
    bodies := fun i => match i with
      | 0 => do
        let _ ← Prog.lift (.spawn false 1)
        Prog.lift .switch
        Prog.lift .requestYield
        Prog.lift .switch
        let _ ← Prog.lift .rand
        pure ()
      | _ => do
        Prog.lift .switch
        pure () }

/-- main spawns a child and blocks itself for good (`block(false)`); the child just ends: deadlock with main
blocked -/
def exDeadlock : Program :=
  { U := Nat, init := 0,
    bodies := fun i => match i with
      | 0 => do
        let _ ← Prog.lift (.spawn false 1)
        Prog.lift (.block false)
        Prog.lift .switch
        pure ()
      | _ => pure () }

/-- main parks (a spuriously wakeable block) with nobody to unpark it: `offered = [0]` but no task is
runnable -/
def exPark : Program :=
  { U := Nat, init := 0,
    bodies := fun _ => do
      let _ ← Prog.lift .park
      Prog.lift .switch
      pure () }

/-- main spawns a child, detaches it and ends; the detached child would loop through two more switches -/
def exDetached : Program :=
  { U := Nat, init := 0,
    bodies := fun i => match i with
      | 0 => do
        let c ← Prog.lift (.spawn false 1)
        Prog.lift (.detach c)
        pure ()
      | _ => do
        Prog.lift .switch
        Prog.lift .switch
        pure () }

/-- ten `next_u64` in a row, no scheduling point in between -/
def exRand10 : Program :=
  { U := Nat, init := 0,
    bodies := fun _ => do
      let _ ← Prog.lift .rand
      let _ ← Prog.lift .rand
      let _ ← Prog.lift .rand
      let _ ← Prog.lift .rand
      let _ ← Prog.lift .rand
      let _ ← Prog.lift .rand
      let _ ← Prog.lift .rand
      let _ ← Prog.lift .rand
      let _ ← Prog.lift .rand
      let _ ← Prog.lift .rand
      pure () }

/-- a spin loop: `n` switches -/
def spin : Nat → Prog Nat Unit
  | 0 => pure ()
  | n + 1 => do Prog.lift .switch; spin n

def exSpin (n : Nat) : Program := { U := Nat, init := 0, bodies := fun _ => spin n }

end ShuttleProofs.Kernel
