import ShuttleModel.Prim.Locks
import ShuttleProofs.Lemmas.SemStep
/-
  Most-general-client transition systems for `Mutex` and `RwLock`
  (`ShuttleModel/Prim/Locks.lean`, transcription of shuttle-std/src/sync/{mutex,rwlock}.rs).

  One `MOp` / `ROp` is exactly the state update one of the `Prog` wrappers performs between two
  scheduling points (`K.switch`), composed from `SemLts.step` on the inner semaphore and the pure
  guard functions of `MutexState` / `RwLockState`:

  * `lockStart t`   — the first segment of `lock`: the `closed` test (enabling condition
                      `closed = false`), the re-entrancy test (`.error` with the deadlock message), and
                      `Sem.newAcquire` (`Acquire::new`, no scheduling point);
  * `lockPoll t wid`— one iteration of `Sem.blockOnAcquire`: `Sem.poll` after its (optional)
                      `K.switch`; when it is `Ready`, `Sem.dropAcquire` of the (completed) Acquire and,
                      for `Ready(Ok)`, the holder assertion + `takeGuard`, all in the same segment
                      (`pollDrop`);  a first poll that has no scheduling point of its own runs in the
                      segment of `lockStart`: that is the sequence `lockStart; lockPoll`, which the LTS
                      contains;
  * `lockPoisoned t`— `lock` on a closed semaphore after its `K.switch` (enabling condition
                      `closed = true`: the wrapper tested it before the switch and `closed` is never
                      reset, `step_closed_mono`);
  * `tryLock t`     — `try_lock` after the `K.switch` of `Sem.tryAcquire`;
  * `unlock t`      — `Drop for …Guard` after the `K.switch` of `Sem.release`: `releasePure` when the
                      thread is not panicking, `releasePoison` when it is (`relOp`), then `dropGuard`;
  * `tryGiveBack t` — (RwLock, `fixedF3 = true` only) the `Sem.release 1` of a re-entrant `try_read`
                      after its `K.switch`;
  * `write t v`     — the owner of a (write) guard stores through it.

  Parameters of every single step, arbitrary and independent from step to step:
  `fin : Nat → Bool` (finished tasks), `p : Bool` (`K.isPanicking`), clocks.

  `.error msg` = the wrapper panics with `msg` (the execution is aborted: no successor state).

  Client discipline (the enabling conditions `MEnabled` / `REnabled`, part of `MReach` / `RReach`):
  * a guard is dropped / written through only by a task that owns one (ghost lists `guards`,
    `rguards`, `wguards`; a successful lock pushes, `unlock` erases);
  * `lockPoll` polls an `Acquire` that asks for the permits of this lock operation (`w.n = 1` resp.
    `w.n = permits write`) — true for the Acquire `lockStart` created; *who* polls is not restricted;
  * `tryGiveBack t` only for a task that owes a permit (ghost list `owed`).
-/
namespace ShuttleModel
namespace LocksLts
open SemLts

/-! ### shared pieces -/

/-- the semaphore op `Sem.release` performs after its `K.switch` (`p` = `K.isPanicking`) -/
def relOp (p : Bool) (t n : Nat) (clk : Clock) : SemOp :=
  if p then .poisonRelease t n else .release t n clk

/-- one iteration of `Sem.blockOnAcquire` up to the next scheduling point: `poll` (cx = the polling
task), and when it is `Ready` the `Drop` of the `Acquire`.  The `Drop` of a completed Acquire never
hands permits back (`step_drop_completed`, `pollDrop_cases`: its output is always `.dropped 0`), so the output of the
second step is not inspected. -/
def pollDrop (fin : Nat → Bool) (s : SemState) (t wid : Nat) (clk : Clock) :
    Except String (SemState × PollRes) :=
  match step fin s (.poll wid t t clk) with
  | .error e => .error e
  | .ok o1 =>
    match o1.out with
    | .polled .pending => .ok (o1.s, .pending)
    | .polled (.ready ok) =>
      match step fin o1.s (.dropAcquire t wid) with
      | .error e => .error e
      | .ok o2 => .ok (o2.s, .ready ok)
    | _ => .error "model: poll returns polled"

def unwrapErrMsg : String := "called `Result::unwrap()` on an `Err` value: AcquireError(())"
def holderNoneMsg : String := "assertion failed: state.holder.is_none()"

/-! ### Mutex -/

def mutexDeadlockMsg (t : Nat) : String :=
  s!"deadlock! task TaskId({t}) tried to acquire a Mutex it already holds"

/-- Mutex + ghost: the tasks owning a live `MutexGuard` -/
structure MG where
  m : MutexState := {}
  guards : List Nat := []

inductive MOp where
  | lockStart (t : Nat) (clk : Clock)
  | lockPoll (t wid : Nat) (clk : Clock)
  | lockPoisoned (t : Nat)
  | tryLock (t : Nat) (clk : Clock)
  | unlock (t : Nat) (clk : Clock)
  | write (t v : Nat)

inductive MOut where
  | started (wid : Nat)
  | pending
  /-- `lock` returned a guard (`Ok` / `Err(Poisoned)`) -/
  | locked (r : LockRes)
  /-- `try_lock` returned (`.wouldBlock` = no guard) -/
  | tried (r : LockRes)
  | unlocked
  | wrote
deriving DecidableEq

def mstep (fin : Nat → Bool) (p : Bool) (m : MutexState) : MOp → Except String (MutexState × MOut)
  | .lockStart t clk =>
    if m.holder == some t then .error (mutexDeadlockMsg t)
    else .ok ({ m with sem := (m.sem.newAcquire t 1 clk).2 }, .started (m.sem.newAcquire t 1 clk).1)
  | .lockPoll t wid clk =>
    match pollDrop fin m.sem t wid clk with
    | .error e => .error e
    | .ok (s', .pending) => .ok ({ m with sem := s' }, .pending)
    | .ok (_, .ready false) => .error unwrapErrMsg
    | .ok (s', .ready true) =>
      if m.holder.isSome then .error holderNoneMsg
      else .ok (({ m with sem := s' }).takeGuard t p, .locked ({ m with sem := s' }).result)
  | .lockPoisoned t =>
    if m.holder.isSome then .error holderNoneMsg
    else .ok (m.takeGuard t p, .locked m.result)
  | .tryLock t clk =>
    match step fin m.sem (.tryAcquire t 1 clk) with
    | .error e => .error e
    | .ok o =>
      match o.out with
      | .tried (.ok ()) =>
        .ok (({ m with sem := o.s }).takeGuard t p, .tried ({ m with sem := o.s }).result)
      | _ => .ok ({ m with sem := o.s }, .tried .wouldBlock)
  | .unlock t clk =>
    match step fin m.sem (relOp p t 1 clk) with
    | .error e => .error e
    | .ok o => .ok (({ m with sem := o.s }).dropGuard p, .unlocked)
  | .write _ v => .ok ({ m with value := v }, .wrote)

def MEnabled (g : MG) : MOp → Prop
  | .lockStart _ _ => g.m.sem.closed = false
  | .lockPoll _ wid _ => ∃ w, g.m.sem.getW wid = some w ∧ w.n = 1
  | .lockPoisoned _ => g.m.sem.closed = true
  | .tryLock _ _ => True
  | .unlock t _ => t ∈ g.guards
  | .write t _ => t ∈ g.guards

/-- ghost update: a step that returns a guard to `t` pushes `t`, `unlock t` erases it -/
def mghost (guards : List Nat) : MOp → MOut → List Nat
  | .lockPoll t _ _, .locked _ => guards ++ [t]
  | .lockPoisoned t, .locked _ => guards ++ [t]
  | .tryLock t _, .tried r => if r = .wouldBlock then guards else guards ++ [t]
  | .unlock t _, _ => guards.erase t
  | _, _ => guards

/-- states reachable by the most general (disciplined) client from a fresh `Mutex` -/
inductive MReach : MG → Prop
  | init : MReach {}
  | step {g : MG} {m' : MutexState} {out : MOut} (fin : Nat → Bool) (p : Bool) (op : MOp) :
      MReach g → MEnabled g op → mstep fin p g.m op = .ok (m', out) →
      MReach { m := m', guards := mghost g.guards op out }

/-! ### RwLock -/

def rwDeadlockMsg (t : Nat) : String :=
  s!"deadlock! task TaskId({t}) tried to acquire a RwLock it already holds"
def readersInsertMsg : String := "assertion failed: readers.insert(me)"
def incompatibleMsg : String := "resumed a waiting thread while the lock was in an incompatible state"

/-- RwLock + ghost: owners of live read / write guards, and the tasks whose re-entrant `try_read`
took a permit that they do not keep (`fixedF3 = true`: until their `tryGiveBack`; `false`: for ever) -/
structure RG where
  m : RwLockState := {}
  rguards : List Nat := []
  wguards : List Nat := []
  owed : List Nat := []

inductive ROp where
  | lockStart (t : Nat) (write : Bool) (clk : Clock)
  | lockPoll (t wid : Nat) (write : Bool) (clk : Clock)
  | lockPoisoned (t : Nat) (write : Bool)
  | tryLock (t : Nat) (write : Bool) (clk : Clock)
  | tryGiveBack (t : Nat) (clk : Clock)
  | unlock (t : Nat) (write : Bool) (clk : Clock)
  | write (t v : Nat)

inductive ROut where
  | started (wid : Nat)
  | pending
  | locked (r : LockRes)
  /-- `try_read`/`try_write` returned `r`; `owes` = it took a permit that it does not keep
  (re-entrant `try_read`) -/
  | tried (r : LockRes) (owes : Bool)
  | gaveBack
  | unlocked
  | wrote
deriving DecidableEq

/-- the end of `RwLock::lock` once the permits are held -/
def takeOrPanic (m : RwLockState) (t : Nat) (write p : Bool) : Except String (RwLockState × ROut) :=
  match m.takeGuard t write p with
  | .ok m' => .ok (m', .locked m.result)
  | .already => .error readersInsertMsg
  | .incompatible => .error incompatibleMsg

def rstep (fin : Nat → Bool) (p : Bool) (m : RwLockState) : ROp → Except String (RwLockState × ROut)
  | .lockStart t write clk =>
    if m.holds t then .error (rwDeadlockMsg t)
    else .ok ({ m with sem := (m.sem.newAcquire t (RwLock.permits write) clk).2 },
              .started (m.sem.newAcquire t (RwLock.permits write) clk).1)
  | .lockPoll t wid write clk =>
    match pollDrop fin m.sem t wid clk with
    | .error e => .error e
    | .ok (s', .pending) => .ok ({ m with sem := s' }, .pending)
    | .ok (_, .ready false) => .error unwrapErrMsg
    | .ok (s', .ready true) => takeOrPanic { m with sem := s' } t write p
  | .lockPoisoned t write => takeOrPanic m t write p
  | .tryLock t write clk =>
    match step fin m.sem (.tryAcquire t (RwLock.permits write) clk) with
    | .error e => .error e
    | .ok o =>
      match o.out with
      | .tried (.ok ()) =>
        match ({ m with sem := o.s } : RwLockState).takeGuard t write p with
        | .ok m' => .ok (m', .tried ({ m with sem := o.s } : RwLockState).result false)
        | .already => .ok ({ m with sem := o.s }, .tried .wouldBlock true)
        | .incompatible =>
          .ok ({ m with sem := o.s }, .tried ({ m with sem := o.s } : RwLockState).result false)
      | _ => .ok ({ m with sem := o.s }, .tried .wouldBlock false)
  | .tryGiveBack t clk =>
    match step fin m.sem (relOp p t 1 clk) with
    | .error e => .error e
    | .ok o => .ok ({ m with sem := o.s }, .gaveBack)
  | .unlock t write clk =>
    match step fin m.sem (relOp p t (RwLock.permits write) clk) with
    | .error e => .error e
    | .ok o =>
      match ({ m with sem := o.s } : RwLockState).dropGuard t write p with
      | (m', none) => .ok (m', .unlocked)
      | (_, some msg) => .error msg
  | .write _ v => .ok ({ m with value := v }, .wrote)

def REnabled (fixedF3 : Bool) (g : RG) : ROp → Prop
  | .lockStart _ _ _ => g.m.sem.closed = false
  | .lockPoll _ wid write _ => ∃ w, g.m.sem.getW wid = some w ∧ w.n = RwLock.permits write
  | .lockPoisoned _ _ => g.m.sem.closed = true
  | .tryLock _ _ _ => True
  | .tryGiveBack t _ => fixedF3 = true ∧ t ∈ g.owed
  | .unlock t write _ => if write then t ∈ g.wguards else t ∈ g.rguards
  | .write t _ => t ∈ g.wguards

def pushGuard (g : RG) (t : Nat) (write : Bool) : RG :=
  if write then { g with wguards := g.wguards ++ [t] } else { g with rguards := g.rguards ++ [t] }

/-- successor ghost state -/
def rnext (g : RG) (m' : RwLockState) : ROp → ROut → RG
  | .lockPoll t _ write _, .locked _ => pushGuard { g with m := m' } t write
  | .lockPoisoned t write, .locked _ => pushGuard { g with m := m' } t write
  | .tryLock t write _, .tried r owes =>
    if owes then { g with m := m', owed := g.owed ++ [t] }
    else if r = .wouldBlock then { g with m := m' }
    else pushGuard { g with m := m' } t write
  | .tryGiveBack t _, _ => { g with m := m', owed := g.owed.erase t }
  | .unlock t write _, _ =>
    if write then { g with m := m', wguards := g.wguards.erase t }
    else { g with m := m', rguards := g.rguards.erase t }
  | _, _ => { g with m := m' }

/-- states reachable by the most general (disciplined) client from a fresh `RwLock`;
`fixedF3` = the repaired `try_lock` (F3) -/
inductive RReach (fixedF3 : Bool) : RG → Prop
  | init : RReach fixedF3 {}
  | step {g : RG} {m' : RwLockState} {out : ROut} (fin : Nat → Bool) (p : Bool) (op : ROp) :
      RReach fixedF3 g → REnabled fixedF3 g op → rstep fin p g.m op = .ok (m', out) →
      RReach fixedF3 (rnext g m' op out)

/-! ### facts about single semaphore steps used by both locks -/

open Sem (PollOut)

theorem step_poll_inv {fin : Nat → Bool} {s : SemState} {wid me cx : Nat} {clk : Clock} {o : StepOut}
    (h : step fin s (.poll wid me cx clk) = .ok o) :
    ∃ w0 po, s.getW wid = some w0 ∧ w0.completed = false ∧ s.pollPure wid me cx clk fin = .ok po ∧
      o = { s := po.s, out := .polled po.res, effs := po.effs } := by
  simp only [step] at h
  cases hw : s.getW wid with
  | none => rw [hw] at h; cases h
  | some w0 =>
    rw [hw] at h
    simp only at h
    by_cases hcm : w0.completed = true
    · rw [if_pos hcm] at h; cases h
    · rw [if_neg hcm] at h
      cases hpp : s.pollPure wid me cx clk fin with
      | error msg => rw [hpp] at h; cases h
      | ok po =>
        rw [hpp] at h
        simp only [Except.ok.injEq] at h
        exact ⟨w0, po, rfl, by simpa using hcm, rfl, h.symm⟩

/-- `closed` is never reset -/
theorem step_closed_mono (fin : Nat → Bool) {s : SemState} {op : SemOp} {o : StepOut}
    (h : step fin s op = .ok o) (hc : s.closed = true) : o.s.closed = true := by
  cases op with
  | tryAcquire task n clk =>
    simp only [step] at h
    cases hacq : s.acquirePermits n clk with
    | error msg => rw [hacq] at h; cases h
    | ok r =>
      rw [hacq] at h
      cases r with
      | ok p =>
        obtain ⟨s', pc⟩ := p
        have := (acquirePermits_ok hacq).2.1
        rw [hc] at this; cases this
      | error e =>
        simp only [Except.ok.injEq] at h
        subst h; exact hc
  | newAcq task n clk =>
    simp only [step, Except.ok.injEq] at h
    subst h; exact hc
  | poll wid me cx clk =>
    obtain ⟨w0, po, hw, _, hpp, rfl⟩ := step_poll_inv h
    cases pollPure_cases hw hpp with
    | granted hp hq ho => subst ho; exact hc
    | closed hp hc' hq ho => subst ho; exact hc
    | acquiredFresh hp hc' => rw [hc] at hc'; cases hc'
    | acquiredQueued hp hc' => rw [hc] at hc'; cases hc'
    | enqueued hp hc' => rw [hc] at hc'; cases hc'
    | stillQueued hp hc' => rw [hc] at hc'; cases hc'
    | fairWait hp hc' => rw [hc] at hc'; cases hc'
  | dropAcquire task wid =>
    simp only [step] at h
    cases hw : s.getW wid with
    | none =>
      rw [hw] at h
      simp only [Except.ok.injEq] at h
      subst h; exact hc
    | some w =>
      rw [hw] at h
      simp only at h
      by_cases hq : w.isQueued = true
      · rw [if_pos hq] at h
        cases hrm : s.removeWaiterPure fin wid with
        | error msg => rw [hrm] at h; cases h
        | ok r =>
          obtain ⟨s', effs⟩ := r
          obtain ⟨_, _, _, hnc, _⟩ := removeWaiterPure_pre hrm
          rw [hc] at hnc; cases hnc
      · rw [if_neg hq] at h
        by_cases hg : (w.hasPermits && !w.completed) = true
        · rw [if_pos hg] at h
          simp only [Except.ok.injEq] at h
          subst h; exact hc
        · rw [if_neg hg] at h
          simp only [Except.ok.injEq] at h
          subst h; exact hc
  | release task n clk =>
    simp only [step] at h
    by_cases hn : n = 0
    · rw [if_pos hn] at h
      simp only [Except.ok.injEq] at h
      subst h; exact hc
    · rw [if_neg hn] at h
      simp only [Except.ok.injEq] at h
      subst h
      show (s.releasePure fin n clk).1.closed = true
      unfold SemState.releasePure
      by_cases hfair : (s.paRelease n clk).fair = true
      · simp only [hfair, if_true]
        rw [(unblockFront_spec fin _ _).closed]; exact hc
      · simp only [hfair, Bool.false_eq_true, if_false]; exact hc
  | close =>
    simp only [step, Except.ok.injEq] at h
    subst h
    show (s.closePure fin).1.closed = true
    simp [SemState.closePure, hc]
  | poisonRelease task n =>
    simp only [step] at h
    by_cases hn : n = 0
    · rw [if_pos hn] at h
      simp only [Except.ok.injEq] at h
      subst h; exact hc
    · rw [if_neg hn] at h
      simp only [Except.ok.injEq] at h
      subst h; rfl

/-- after a `Ready` poll the `Acquire` is completed and not queued -/
theorem poll_ready_waiter {fin : Nat → Bool} {s : SemState} {wid me cx : Nat} {clk : Clock}
    {o : StepOut} {b : Bool} (hi : Inv s) (h : step fin s (.poll wid me cx clk) = .ok o)
    (hr : o.out = .polled (.ready b)) :
    ∃ w, o.s.getW wid = some w ∧ w.completed = true ∧ w.isQueued = false := by
  obtain ⟨w0, po, hw, hnc, hpp, rfl⟩ := step_poll_inv h
  have hwid : w0.wid = wid := (tget_some_mem hw).2
  have hw' : s.getW w0.wid = some w0 := by rw [hwid]; exact hw
  simp only [Out.polled.injEq] at hr
  cases pollPure_cases hw hpp with
  | granted hp hq ho =>
    subst ho
    refine ⟨finishedW w0, ?_, rfl, hq⟩
    have := getW_setW_self (w1 := finishedW w0) hw'
    rwa [finishedW_wid, hwid] at this
  | closed hp hc hq ho =>
    subst ho
    refine ⟨finishedW w0, ?_, rfl, hq⟩
    have := getW_setW_self (w1 := finishedW w0) hw'
    rwa [finishedW_wid, hwid] at this
  | acquiredFresh hp hc hq s' pc hacq ho =>
    subst ho
    obtain ⟨i1, hav, ht, _, _, _, _⟩ := acquirePermits_inv hi hacq
    have hw1 : s'.getW (polled w0).wid = some w0 := by rw [getW_eq, ht]; exact hw'
    have hw2 : (s'.setW (polled w0)).getW (gotW (polled w0)).wid = some (polled w0) :=
      getW_setW_self hw1
    refine ⟨gotW (polled w0), ?_, rfl, hq⟩
    have := getW_setW_self (w1 := gotW (polled w0)) hw2
    rwa [gotW_wid, polled_wid, hwid] at this
  | acquiredQueued hp hc hq hf hwk s' s3 pc effs w4 hacq hrm hw4 ho =>
    subst ho
    obtain ⟨i1, hav, ht, _, _, _, _⟩ := acquirePermits_inv hi hacq
    have hw1 : s'.getW (polled w0).wid = some w0 := by rw [getW_eq, ht]; exact hw'
    have hq0 := hi.tq.queuedOk w0 (tget_some_mem hw).1 hq
    obtain ⟨i2, p2⟩ := i1.setW_same (w1 := polled w0) hw1 rfl rfl
      (by intro _; exact ⟨hp, hnc, hwk, hq0.2.2.2⟩) (wpend_zero (Or.inl hp)) (wpend_zero (Or.inl hp))
    obtain ⟨w, hgw, _, rs⟩ := removeWaiterPure_spec fin i2 hrm
    have hgw' : (s'.setW (polled w0)).getW wid = some (polled w0) := by
      have := getW_setW_self hw1
      rwa [polled_wid, hwid] at this
    rw [hgw'] at hgw
    cases hgw
    have hw4' : s3.getW wid = some (unqW (polled w0)) := rs.getW
    rw [hw4] at hw4'
    cases hw4'
    have hw3 : s3.getW (gotW (unqW (polled w0))).wid = some (unqW (polled w0)) := by
      simpa [hwid] using hw4
    refine ⟨gotW (unqW (polled w0)), ?_, rfl, rfl⟩
    have := getW_setW_self (w1 := gotW (unqW (polled w0))) hw3
    simpa [hwid] using this
  | enqueued hp hc hq hwk hacq ho => subst ho; cases hr
  | stillQueued hp hc hq hf hwk hacq ho => subst ho; cases hr
  | fairWait hp hc hq hf hwk ho => subst ho; cases hr

/-- the `Drop` of a completed, not queued `Acquire` just forgets the waiter -/
theorem step_drop_completed (fin : Nat → Bool) {s : SemState} {t wid : Nat} {w : Waiter}
    (hw : s.getW wid = some w) (hc : w.completed = true) (hq : w.isQueued = false) :
    step fin s (.dropAcquire t wid) = .ok { s := s.dropW wid, out := .dropped 0 } := by
  simp only [step, hw, hq, hc]
  simp

/-- the shapes of a `pollDrop` result -/
theorem pollDrop_cases {fin : Nat → Bool} {s s' : SemState} {t wid : Nat} {clk : Clock} {r : PollRes}
    (hi : Inv s) (h : pollDrop fin s t wid clk = .ok (s', r)) :
    ∃ o1, step fin s (.poll wid t t clk) = .ok o1 ∧ o1.out = .polled r ∧
      ((r = .pending ∧ s' = o1.s) ∨
       (∃ b w, r = .ready b ∧ o1.s.getW wid = some w ∧ w.completed = true ∧ w.isQueued = false ∧
          s' = o1.s.dropW wid)) := by
  unfold pollDrop at h
  cases h1 : step fin s (.poll wid t t clk) with
  | error e => rw [h1] at h; cases h
  | ok o1 =>
    rw [h1] at h
    simp only at h
    obtain ⟨w0, po, _, _, _, ho1⟩ := step_poll_inv h1
    have hout : o1.out = .polled po.res := by rw [ho1]
    rw [hout] at h
    refine ⟨o1, rfl, ?_⟩
    cases hres : po.res with
    | pending =>
      rw [hres] at h hout
      simp only [Except.ok.injEq, Prod.mk.injEq] at h
      exact ⟨by rw [hout, h.2], Or.inl ⟨h.2.symm, h.1.symm⟩⟩
    | ready b =>
      rw [hres] at h hout
      obtain ⟨w, hw1, hcm, hq⟩ := poll_ready_waiter hi h1 hout
      rw [step_drop_completed fin hw1 hcm hq] at h
      simp only [Except.ok.injEq, Prod.mk.injEq] at h
      exact ⟨by rw [hout, h.2], Or.inr ⟨b, w, h.2.symm, hw1, hcm, hq, h.1.symm⟩⟩

/-- `pollDrop` keeps the semaphore invariant, never re-opens the semaphore, and takes exactly the
requested permits when (and only when) it returns `Ready(Ok)` -/
theorem pollDrop_spec {fin : Nat → Bool} {s s' : SemState} {t wid : Nat} {clk : Clock} {r : PollRes}
    {w0 : Waiter} (hi : Inv s) (hw : s.getW wid = some w0)
    (h : pollDrop fin s t wid clk = .ok (s', r)) :
    Inv s' ∧ (s.closed = true → s'.closed = true) ∧
      s'.avail + pend s'.table + (if r = .ready true then w0.n else 0) = s.avail + pend s.table := by
  obtain ⟨o1, h1, hout, hcases⟩ := pollDrop_cases hi h
  obtain ⟨i1, c1⟩ := step_spec fin hi h1
  have hm := step_closed_mono fin h1
  rw [hout] at c1
  rcases hcases with ⟨rfl, rfl⟩ | ⟨b, w, rfl, hw1, hcm, hq, rfl⟩
  · refine ⟨i1, hm, ?_⟩
    simp only [acquiredBy, releasedBy, permitsOf, reduceCtorEq, if_false] at c1 ⊢
    omega
  · obtain ⟨i2, p2⟩ := i1.dropW hw1 hq
    have e : wpend w = 0 := wpend_zero (Or.inr hcm)
    refine ⟨i2, hm, ?_⟩
    simp only [dropW_avail]
    cases b with
    | true =>
      simp only [acquiredBy, hw, Option.map_some, releasedBy, permitsOf, if_true] at c1 ⊢
      omega
    | false =>
      simp only [acquiredBy, releasedBy, permitsOf, PollRes.ready.injEq, Bool.false_eq_true,
        if_false] at c1 ⊢
      omega

/-- the two outcomes of a `tryAcquire` step -/
theorem step_tryAcquire_cases {fin : Nat → Bool} {s : SemState} {t n : Nat} {clk : Clock} {o : StepOut}
    (h : step fin s (.tryAcquire t n clk) = .ok o) :
    (∃ s' pc, s.acquirePermits n clk = .ok (.ok (s', pc)) ∧ o.s = s' ∧ o.out = .tried (.ok ())) ∨
    (∃ e, s.acquirePermits n clk = .ok (.error e) ∧ o.s = s ∧ o.out = .tried (.error e)) := by
  simp only [step] at h
  cases hacq : s.acquirePermits n clk with
  | error msg => rw [hacq] at h; cases h
  | ok r =>
    rw [hacq] at h
    cases r with
    | ok p =>
      obtain ⟨s', pc⟩ := p
      simp only [Except.ok.injEq] at h
      subst h
      exact Or.inl ⟨s', pc, rfl, rfl, rfl⟩
    | error e =>
      simp only [Except.ok.injEq] at h
      subst h
      exact Or.inr ⟨e, rfl, rfl, rfl⟩

/-- what a (not panicking / panicking) `release` does to the semaphore -/
theorem relOp_spec {fin : Nat → Bool} {s : SemState} {p : Bool} {t n : Nat} {clk : Clock} {o : StepOut}
    (hi : Inv s) (hn : 0 < n) (h : step fin s (relOp p t n clk) = .ok o) :
    Inv o.s ∧ o.s.avail + pend o.s.table = s.avail + pend s.table + n ∧
      (s.closed = true → o.s.closed = true) ∧ (p = true → o.s.closed = true ∧ o.s.queue = []) := by
  obtain ⟨i1, c1⟩ := step_spec fin hi h
  have hm := step_closed_mono fin h
  have hn0 : n ≠ 0 := by omega
  cases p with
  | false =>
    simp only [relOp, Bool.false_eq_true, if_false] at h c1
    refine ⟨i1, ?_, hm, by intro h; cases h⟩
    simp only [acquiredBy, releasedBy, permitsOf, hn0, if_false] at c1
    omega
  | true =>
    simp only [relOp, if_true] at h c1
    refine ⟨i1, ?_, hm, fun _ => ?_⟩
    · simp only [acquiredBy, releasedBy, permitsOf, hn0, if_false] at c1
      omega
    · simp only [step, hn0, if_false, Except.ok.injEq] at h
      subst h
      obtain ⟨_, _, h3, h4⟩ := releasePoison_spec n hi
      exact ⟨h3, h4⟩

/-- fairness is a constant of the semaphore -/
theorem step_fair (fin : Nat → Bool) {s : SemState} {op : SemOp} {o : StepOut} (hi : Inv s)
    (h : step fin s op = .ok o) : o.s.fair = s.fair := by
  cases op with
  | tryAcquire task n clk =>
    rcases step_tryAcquire_cases h with ⟨s', pc, hacq, hos, _⟩ | ⟨e, _, hos, _⟩
    · rw [hos]; exact (acquirePermits_inv hi hacq).2.2.2.2.2.1
    · rw [hos]
  | newAcq task n clk =>
    simp only [step, Except.ok.injEq] at h
    subst h; rfl
  | poll wid me cx clk =>
    obtain ⟨w0, po, hw, hnc, hpp, rfl⟩ := step_poll_inv h
    have hwid : w0.wid = wid := (tget_some_mem hw).2
    have hw' : s.getW w0.wid = some w0 := by rw [hwid]; exact hw
    cases pollPure_cases hw hpp with
    | granted hp hq ho => subst ho; rfl
    | closed hp hc' hq ho => subst ho; rfl
    | acquiredFresh hp hc hq s' pc hacq ho =>
      subst ho
      exact (acquirePermits_inv hi hacq).2.2.2.2.2.1
    | acquiredQueued hp hc hq hf hwk s' s3 pc effs w4 hacq hrm hw4 ho =>
      subst ho
      obtain ⟨i1, hav, ht, _, _, hfair, _⟩ := acquirePermits_inv hi hacq
      have hw1 : s'.getW (polled w0).wid = some w0 := by rw [getW_eq, ht]; exact hw'
      have hq0 := hi.tq.queuedOk w0 (tget_some_mem hw).1 hq
      obtain ⟨i2, p2⟩ := i1.setW_same (w1 := polled w0) hw1 rfl rfl
        (by intro _; exact ⟨hp, hnc, hwk, hq0.2.2.2⟩) (wpend_zero (Or.inl hp)) (wpend_zero (Or.inl hp))
      obtain ⟨w, hgw, _, rs⟩ := removeWaiterPure_spec fin i2 hrm
      show s3.fair = s.fair
      rw [rs.fair]; exact hfair
    | enqueued hp hc hq hwk hacq ho => subst ho; rfl
    | stillQueued hp hc hq hf hwk hacq ho => subst ho; rfl
    | fairWait hp hc hq hf hwk ho => subst ho; rfl
  | dropAcquire task wid =>
    simp only [step] at h
    cases hw : s.getW wid with
    | none =>
      rw [hw] at h
      simp only [Except.ok.injEq] at h
      subst h; rfl
    | some w =>
      rw [hw] at h
      simp only at h
      by_cases hq : w.isQueued = true
      · rw [if_pos hq] at h
        cases hrm : s.removeWaiterPure fin wid with
        | error msg => rw [hrm] at h; cases h
        | ok r =>
          obtain ⟨s', effs⟩ := r
          rw [hrm] at h
          simp only [Except.ok.injEq] at h
          subst h
          obtain ⟨_, _, _, rs⟩ := removeWaiterPure_spec fin hi hrm
          exact rs.fair
      · rw [if_neg hq] at h
        by_cases hg : (w.hasPermits && !w.completed) = true
        · rw [if_pos hg] at h
          simp only [Except.ok.injEq] at h
          subst h; rfl
        · rw [if_neg hg] at h
          simp only [Except.ok.injEq] at h
          subst h; rfl
  | release task n clk =>
    simp only [step] at h
    by_cases hn : n = 0
    · rw [if_pos hn] at h
      simp only [Except.ok.injEq] at h
      subst h; rfl
    · rw [if_neg hn] at h
      simp only [Except.ok.injEq] at h
      subst h
      show (s.releasePure fin n clk).1.fair = s.fair
      unfold SemState.releasePure
      by_cases hfair : (s.paRelease n clk).fair = true
      · simp only [hfair, if_true]
        rw [(unblockFront_spec fin _ _).fair]; rfl
      · have e : (s.paRelease n clk).fair = false := by simpa using hfair
        simp only [hfair, Bool.false_eq_true, if_false]
        exact e.symm
  | close =>
    simp only [step, Except.ok.injEq] at h
    subst h
    show (s.closePure fin).1.fair = s.fair
    by_cases hc : s.closed = true
    · simp [SemState.closePure, hc]
    · rw [closePure_eq fin s (by simpa using hc)]
      exact (clear_spec (fun w => { w with isQueued := false, waker := none })
        (fun w => ⟨rfl, rfl, rfl⟩) s.queue s s.nextWid hi.tq).fair
  | poisonRelease task n =>
    simp only [step] at h
    by_cases hn : n = 0
    · rw [if_pos hn] at h
      simp only [Except.ok.injEq] at h
      subst h; rfl
    · rw [if_neg hn] at h
      simp only [Except.ok.injEq] at h
      subst h
      show (s.releasePoison n).fair = s.fair
      rw [releasePoison_eq]
      exact (clear_spec (fun w => { w with isQueued := false })
        (fun w => ⟨rfl, rfl, rfl⟩) (s.paRelease n Clock.new).queue (s.paRelease n Clock.new) s.nextWid
        hi.tq).fair

theorem pollDrop_fair {fin : Nat → Bool} {s s' : SemState} {t wid : Nat} {clk : Clock} {r : PollRes}
    (hi : Inv s) (h : pollDrop fin s t wid clk = .ok (s', r)) : s'.fair = s.fair := by
  obtain ⟨o1, h1, _, hcases⟩ := pollDrop_cases hi h
  have := step_fair fin hi h1
  rcases hcases with ⟨_, rfl⟩ | ⟨b, w, _, _, _, _, rfl⟩
  · exact this
  · exact this

/-- `acquire_permits` of an unfair semaphore succeeds exactly when the semaphore is open and has
the permits (the queue does not matter) -/
theorem acquirePermits_unfair_ok_iff {s : SemState} {n : Nat} {c : Clock} (hf : s.fair = false)
    (hn : 0 < n) :
    (∃ s' pc, s.acquirePermits n c = .ok (.ok (s', pc))) ↔ (s.closed = false ∧ n ≤ s.avail) := by
  constructor
  · rintro ⟨s', pc, h⟩
    obtain ⟨_, hc, _, hpa⟩ := acquirePermits_ok h
    refine ⟨hc, ?_⟩
    rw [← paAcquire_isSome s n c, hpa]; rfl
  · rintro ⟨hc, hle⟩
    have hsome := (paAcquire_isSome s n c).mpr hle
    cases hpa : s.paAcquire n c with
    | none => rw [hpa] at hsome; cases hsome
    | some r =>
      obtain ⟨s', pc⟩ := r
      refine ⟨s', pc, ?_⟩
      unfold SemState.acquirePermits
      have h0 : n ≠ 0 := by omega
      simp [h0, hc, hf, hpa]

/-- a poisoning release performs no kernel effect: nobody is unblocked or woken -/
theorem poisonRelease_effs {fin : Nat → Bool} {s : SemState} {t n : Nat} {o : StepOut}
    (h : step fin s (.poisonRelease t n) = .ok o) : o.effs = [] := by
  simp only [step] at h
  by_cases hn : n = 0
  · rw [if_pos hn] at h
    simp only [Except.ok.injEq] at h
    subst h; rfl
  · rw [if_neg hn] at h
    simp only [Except.ok.injEq] at h
    subst h; rfl

end LocksLts
end ShuttleModel
