/-!
# Labelled transition systems for C02 (schedule-tree completeness)

Independent of the concrete primitives.

* `Spec` — the sequentially consistent specification: in every state every task may have visible
  steps (label = what the task observes); an interleaving is any sequence of steps of any tasks.
* `Runtime` — a *switch-normal* implementation: it alternates scheduling points and visible
  steps.  At a scheduling point in state `i` the scheduler is handed `offered i` and picks one of
  the offered tasks; the chosen task then runs up to and including its next visible step
  (`exec`).  "Every visible step is preceded by a scheduling point" is built into the shape of
  `Runtime.Exec`: there is exactly one `exec` between two consecutive choices.
-/

namespace ShuttleProofs.C02

universe u

/-- the specification: `step s t l s'` — in state `s` task `t` can take a visible step that
observes `l` and leads to `s'` -/
structure Spec (T S L : Type u) where
  step : S → T → L → S → Prop

namespace Spec
variable {T S L : Type u}

/-- task `t`'s next operation is enabled (not blocked) in `s` -/
def Enabled (sp : Spec T S L) (s : S) (t : T) : Prop := ∃ l s', sp.step s t l s'

/-- no task can move -/
def Terminal (sp : Spec T S L) (s : S) : Prop := ∀ t, ¬ sp.Enabled s t

/-- an interleaving: the list of (task, observation) in execution order -/
inductive Run (sp : Spec T S L) : S → List (T × L) → S → Prop
  | nil (s : S) : Run sp s [] s
  | cons {s s' s'' : S} {t : T} {l : L} {tr : List (T × L)} :
      sp.step s t l s' → Run sp s' tr s'' → Run sp s ((t, l) :: tr) s''

theorem Run.append {sp : Spec T S L} {s s' s'' : S} {a b : List (T × L)}
    (h1 : sp.Run s a s') (h2 : sp.Run s' b s'') : sp.Run s (a ++ b) s'' := by
  induction h1 with
  | nil _ => simpa using h2
  | cons hs _ ih => exact Run.cons hs (ih h2)

end Spec

/-- a switch-normal runtime -/
structure Runtime (T I L : Type u) where
  /-- the tasks handed to the scheduler at the scheduling point reached in state `i` -/
  offered : I → List T
  /-- the runtime's own notion of "can run" (`TaskState::Runnable`) -/
  runnable : I → T → Prop
  /-- the chosen task runs up to and including its next visible step -/
  exec : I → T → L → I → Prop

namespace Runtime
variable {T I L : Type u}

/-- an execution: the scheduler's choices, the visible steps they produced -/
inductive Exec (rt : Runtime T I L) : I → List T → List (T × L) → I → Prop
  | nil (i : I) : Exec rt i [] [] i
  | cons {i i' i'' : I} {c : T} {l : L} {cs : List T} {tr : List (T × L)} :
      c ∈ rt.offered i → rt.exec i c l i' → Exec rt i' cs tr i'' → Exec rt i (c :: cs) ((c, l) :: tr) i''

/-- every choice of an execution was one of the offered tasks, by construction -/
theorem Exec.choices_eq {rt : Runtime T I L} {i i' : I} {cs : List T} {tr : List (T × L)}
    (h : rt.Exec i cs tr i') : cs = tr.map Prod.fst := by
  induction h with
  | nil _ => rfl
  | cons _ _ _ ih => simp [ih]

end Runtime

end ShuttleProofs.C02
