import ShuttleModel.Kernel
/-!
# Kernel lemmas, part 1: the derived task lists (`indexed`, `offered`, `live`, `deadlockList`) and the
`any`/`all` summaries computed by `schedule()`.
-/

namespace ShuttleProofs.Kernel
open ShuttleModel

/-! ### `Task` predicates -/

theorem Task.runnable_iff (t : Task) : t.runnable = true ↔ t.state = .runnable := by
  simp [Task.runnable]

theorem Task.finished_iff (t : Task) : t.finished = true ↔ t.state = .finished := by
  simp [Task.finished]

theorem Task.sleeping_iff (t : Task) : t.sleeping = true ↔ t.state = .sleeping := by
  simp [Task.sleeping]

theorem Task.canSpuriouslyWakeup_iff (t : Task) : t.canSpuriouslyWakeup = true ↔ t.state = .blocked true := by
  unfold Task.canSpuriouslyWakeup
  cases h : t.state <;> simp

theorem Task.isBlocked_iff (t : Task) : t.isBlocked = true ↔ ∃ sp, t.state = .blocked sp := by
  unfold Task.isBlocked
  cases h : t.state <;> simp

theorem Task.runnable_not_finished (t : Task) (h : t.runnable = true) : t.finished = false := by
  rw [Task.runnable_iff] at h
  simp [Task.finished, h]

theorem Task.spurious_not_finished (t : Task) (h : t.canSpuriouslyWakeup = true) : t.finished = false := by
  rw [Task.canSpuriouslyWakeup_iff] at h
  simp [Task.finished, h]

theorem Task.spurious_not_runnable (t : Task) (h : t.canSpuriouslyWakeup = true) : t.runnable = false := by
  rw [Task.canSpuriouslyWakeup_iff] at h
  simp [Task.runnable, h]

/-! ### `indexed` -/

theorem mem_indexed {k : Kernel} {i : Nat} {tk : Task} :
    (i, tk) ∈ k.indexed ↔ k.tasks[i]? = some tk := by
  unfold Kernel.indexed
  simp only [List.mem_map, Prod.mk.injEq]
  constructor
  · rintro ⟨⟨a, j⟩, hm, rfl, rfl⟩
    exact List.mem_zipIdx_iff_getElem?.mp hm
  · intro h
    exact ⟨(tk, i), List.mem_zipIdx_iff_getElem?.mpr h, rfl, rfl⟩

theorem indexed_map_fst (k : Kernel) : k.indexed.map (·.1) = List.range k.tasks.length := by
  unfold Kernel.indexed
  rw [List.map_map]
  have : ((fun x : Nat × Task => x.1) ∘ fun p : Task × Nat => (p.2, p.1)) = Prod.snd := by
    funext p; rfl
  rw [this, List.zipIdx_map_snd, List.range_eq_range']

/-- The ids of any filtered sub-list of `indexed` are strictly ascending. -/
theorem filter_indexed_pairwise (k : Kernel) (p : Nat × Task → Bool) :
    ((k.indexed.filter p).map (·.1)).Pairwise (· < ·) := by
  have hsub : ((k.indexed.filter p).map (·.1)).Sublist (k.indexed.map (·.1)) :=
    (List.filter_sublist).map _
  rw [indexed_map_fst] at hsub
  exact List.Pairwise.sublist hsub List.pairwise_lt_range

theorem mem_filter_indexed {k : Kernel} {p : Nat × Task → Bool} {i : Nat} :
    i ∈ (k.indexed.filter p).map (·.1) ↔ ∃ tk, k.tasks[i]? = some tk ∧ p (i, tk) = true := by
  simp only [List.mem_map, List.mem_filter]
  constructor
  · rintro ⟨⟨j, tk⟩, ⟨hm, hp⟩, rfl⟩
    exact ⟨tk, mem_indexed.mp hm, hp⟩
  · rintro ⟨tk, h, hp⟩
    exact ⟨(i, tk), ⟨mem_indexed.mpr h, hp⟩, rfl⟩

/-! ### `offered`, `live` -/

theorem mem_offered {k : Kernel} {i : Nat} :
    i ∈ k.offered ↔ ∃ tk, k.tasks[i]? = some tk ∧ (tk.runnable = true ∨ tk.canSpuriouslyWakeup = true) := by
  unfold Kernel.offered
  rw [mem_filter_indexed]
  simp only [Bool.or_eq_true]

theorem mem_live {k : Kernel} {i : Nat} :
    i ∈ k.live ↔ ∃ tk, k.tasks[i]? = some tk ∧ tk.finished = false := by
  unfold Kernel.live
  rw [mem_filter_indexed]
  simp only [Bool.not_eq_true']

theorem offered_pairwise (k : Kernel) : k.offered.Pairwise (· < ·) :=
  filter_indexed_pairwise k _

theorem live_pairwise (k : Kernel) : k.live.Pairwise (· < ·) :=
  filter_indexed_pairwise k _

theorem offered_nodup (k : Kernel) : k.offered.Nodup :=
  (offered_pairwise k).imp (fun h => Nat.ne_of_lt h)

/-- the offered list is a sub-list of `live_tasks` (what the Rust loop iterates over) -/
theorem offered_subset_live {k : Kernel} {i : Nat} (h : i ∈ k.offered) : i ∈ k.live := by
  rw [mem_offered] at h
  rw [mem_live]
  obtain ⟨tk, hk, h | h⟩ := h
  · exact ⟨tk, hk, Task.runnable_not_finished tk h⟩
  · exact ⟨tk, hk, Task.spurious_not_finished tk h⟩

/-- `offered` only reads `tasks` -/
theorem offered_congr {k k' : Kernel} (h : k'.tasks = k.tasks) : k'.offered = k.offered := by
  unfold Kernel.offered Kernel.indexed
  rw [h]

/-! ### the summaries -/

theorem anyRunnable_iff {k : Kernel} :
    k.anyRunnable = true ↔ ∃ (i : Nat) (tk : Task), k.tasks[i]? = some tk ∧ tk.runnable = true := by
  unfold Kernel.anyRunnable
  rw [List.any_eq_true]
  constructor
  · rintro ⟨tk, hm, hr⟩
    obtain ⟨i, hi⟩ := List.mem_iff_getElem?.mp hm
    exact ⟨i, tk, hi, hr⟩
  · rintro ⟨i, tk, hi, hr⟩
    exact ⟨tk, List.mem_of_getElem? hi, hr⟩

theorem anyRunnable_false_iff {k : Kernel} :
    k.anyRunnable = false ↔ ∀ (i : Nat) (tk : Task), k.tasks[i]? = some tk → tk.runnable = false := by
  rw [← Bool.not_eq_true, anyRunnable_iff]
  constructor
  · intro h i tk hi
    cases hr : tk.runnable
    · rfl
    · exact absurd ⟨i, tk, hi, hr⟩ h
  · rintro h ⟨i, tk, hi, hr⟩
    rw [h i tk hi] at hr
    cases hr

theorem unfinishedAttached_iff {k : Kernel} :
    k.unfinishedAttached = true ↔
      ∃ (i : Nat) (tk : Task), k.tasks[i]? = some tk ∧ tk.finished = false ∧ tk.detached = false := by
  unfold Kernel.unfinishedAttached
  rw [List.any_eq_true]
  constructor
  · rintro ⟨tk, hm, hr⟩
    obtain ⟨i, hi⟩ := List.mem_iff_getElem?.mp hm
    simp only [Bool.and_eq_true, Bool.not_eq_true'] at hr
    exact ⟨i, tk, hi, hr.1, hr.2⟩
  · rintro ⟨i, tk, hi, h1, h2⟩
    exact ⟨tk, List.mem_of_getElem? hi, by simp [h1, h2]⟩

theorem unfinishedAttached_false_iff {k : Kernel} :
    k.unfinishedAttached = false ↔
      ∀ (i : Nat) (tk : Task), k.tasks[i]? = some tk → tk.detached = false → tk.finished = true := by
  rw [← Bool.not_eq_true, unfinishedAttached_iff]
  constructor
  · intro h i tk hi hd
    cases hf : tk.finished
    · exact absurd ⟨i, tk, hi, hf, hd⟩ h
    · rfl
  · rintro h ⟨i, tk, hi, hf, hd⟩
    rw [h i tk hi hd] at hf
    cases hf

theorem allRunnableDetached_iff {k : Kernel} :
    k.allRunnableDetached = true ↔
      ∀ (i : Nat) (tk : Task), k.tasks[i]? = some tk → tk.runnable = true → tk.detached = true := by
  unfold Kernel.allRunnableDetached
  rw [List.all_eq_true]
  constructor
  · intro h i tk hi hr
    have := h tk (List.mem_of_getElem? hi)
    simpa [hr] using this
  · intro h tk hm
    obtain ⟨i, hi⟩ := List.mem_iff_getElem?.mp hm
    cases hr : tk.runnable
    · simp
    · simp [h i tk hi hr]

/-- if some task is runnable the list handed to the scheduler is not empty -/
theorem offered_ne_nil_of_anyRunnable {k : Kernel} (h : k.anyRunnable = true) : k.offered ≠ [] := by
  obtain ⟨i, tk, hi, hr⟩ := anyRunnable_iff.mp h
  have : i ∈ k.offered := mem_offered.mpr ⟨tk, hi, Or.inl hr⟩
  intro hnil
  rw [hnil] at this
  cases this

/-! ### `deadlockList` -/

theorem mem_deadlockList {k : Kernel} {x : Nat × Bool × Bool} :
    x ∈ k.deadlockList ↔
      ∃ tk, k.tasks[x.1]? = some tk ∧ tk.finished = false ∧ x.2.1 = tk.detached ∧ x.2.2 = tk.sleeping := by
  unfold Kernel.deadlockList
  simp only [List.mem_map, List.mem_filter, Bool.not_eq_true']
  constructor
  · rintro ⟨⟨i, tk⟩, ⟨hm, hf⟩, rfl⟩
    exact ⟨tk, mem_indexed.mp hm, hf, rfl, rfl⟩
  · rintro ⟨tk, hk, hf, h1, h2⟩
    refine ⟨(x.1, tk), ⟨mem_indexed.mpr hk, hf⟩, ?_⟩
    obtain ⟨a, b, c⟩ := x
    simp only at h1 h2 ⊢
    rw [h1, h2]

theorem deadlockList_ids (k : Kernel) : k.deadlockList.map (·.1) = k.live := by
  unfold Kernel.deadlockList Kernel.live
  rw [List.map_map]
  rfl

theorem deadlockList_ids_pairwise (k : Kernel) : (k.deadlockList.map (·.1)).Pairwise (· < ·) := by
  rw [deadlockList_ids]
  exact live_pairwise k

end ShuttleProofs.Kernel
