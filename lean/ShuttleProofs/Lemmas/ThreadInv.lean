import ShuttleProofs.Lemmas.ThreadFine
/-!
# What a segment / a loop iteration can do to *another* task (helpers for C07)
-/

namespace ShuttleProofs.Thread
open ShuttleModel ShuttleProofs.Kernel

variable {P : Program} {σ : Type}

/-! ### `spawnTask` -/

theorem spawnTask_some_tasks (k : Kernel) (me : Nat) :
    (k.tasks[me]? = none ∧ (k.spawnTask (some me)).2 = k) ∨
    (∃ ptk c, k.tasks[me]? = some ptk ∧
      (k.spawnTask (some me)).2.tasks =
        k.tasks.set me { ptk with clock := c } ++ [{ clock := c, parent := some me }]) := by
  cases h : k.tasks[me]? with
  | none => exact .inl ⟨rfl, by simp [Kernel.spawnTask, Kernel.getTask?, h]⟩
  | some ptk =>
    exact .inr ⟨ptk, (ptk.clock.increment me).extend k.tasks.length, rfl,
      by simp [Kernel.spawnTask, Kernel.getTask?, h, Kernel.setTask]⟩

/-- a predicate on single tasks that every `Task` transition of another task's request, and a clock update,
preserves -/
structure Stable (me : Nat) (j : Nat) (Q : Task → Prop) {U : Type} {β : Type} (o : KOp U β) : Prop where
  upd : ∀ t f tk tk', opFun me o = some (t, f) → t = j → Q tk → f tk = .ok tk' → Q tk'
  clock : ∀ tk c, Q tk → Q { tk with clock := c }

theorem FineStep.preserves {S : Scheduler σ} {me : Nat} {β : Type} {o : KOp P.U β} {b : β}
    {st st' : ExecState P σ} (h : FineStep S me o b st st') {j : Nat} {Q : Task → Prop}
    (hQ : Stable me j Q o) {tk : Task} (hj : st.k.tasks[j]? = some tk) (hq : Q tk) :
    ∃ tk', st'.k.tasks[j]? = some tk' ∧ Q tk' := by
  cases h with
  | same _ _ _ _ _ h1 _ => exact ⟨tk, by rw [h1]; exact hj, hq⟩
  | upd _ _ _ t f tk0 tk0' ho h1 h2 =>
    by_cases e : t = j
    · subst e
      rw [h1] at hj; cases hj
      refine ⟨tk0', ?_, hQ.upd t f tk tk0' ho rfl hq h2⟩
      simp only [Kernel.setTask]
      rw [List.getElem?_set_self (List.getElem?_eq_some_iff.1 h1).1]
    · exact ⟨tk, by simp only [Kernel.setTask]; rw [List.getElem?_set_ne e]; exact hj, hq⟩
  | spawn _ fut body =>
    rcases spawnTask_some_tasks st.k me with ⟨_, h2⟩ | ⟨ptk, c, h1, h2⟩
    · exact ⟨tk, by simp only [h2]; exact hj, hq⟩
    · have hjl : j < st.k.tasks.length := (List.getElem?_eq_some_iff.1 hj).1
      simp only [h2]
      rw [List.getElem?_append_left (by simpa using hjl)]
      by_cases e : me = j
      · subst e
        rw [h1] at hj; cases hj
        exact ⟨_, List.getElem?_set_self hjl, hQ.clock tk c hq⟩
      · exact ⟨tk, by rw [List.getElem?_set_ne e]; exact hj, hq⟩

theorem FineStep.conts_eq {S : Scheduler σ} {me : Nat} {β : Type} {o : KOp P.U β} {b : β}
    {st st' : ExecState P σ} (h : FineStep S me o b st st') :
    st'.conts = st.conts ∨ ∃ body, st'.conts = st.conts ++ [P.bodies body] := by
  cases h with
  | same _ _ _ _ _ _ h2 => exact .inl h2
  | upd _ _ _ t f tk0 tk0' ho h1 h2 => exact .inl rfl
  | spawn _ fut body => exact .inr ⟨body, rfl⟩

theorem untilSwitch_false (p : Prog P.U Unit) : UntilSwitch (P := P) (fun _ => false) p := by
  induction p with
  | pure a => cases a; exact .pure
  | op o k ih => exact .op o k rfl ih
  | panic m => exact .panic m

/-- a request of task `me` satisfying `bad` -/
abbrev BadOp (P : Program) := {β : Type} → KOp P.U β → Bool

/-- **Segment-level preservation.**  If `Q` is stable under every request the program issues before its next
`switch` (and under those of the unwinding code), task `j`'s `Q` survives the segment. -/
theorem FineTrace.preserves {S : Scheduler σ} {me : Nat} {st : ExecState P σ} {p : Prog P.U Unit}
    {e : SegEnd P σ} (h : FineTrace S me st p e) {j : Nat} {Q : Task → Prop} (bad : BadOp P)
    (hstable : ∀ {β : Type} (o : KOp P.U β), bad o = false → Stable me j Q o)
    (hp : UntilSwitch (P := P) bad p) (hu : UntilSwitch (P := P) bad (P.unwind me))
    {tk : Task} (hj : st.k.tasks[j]? = some tk) (hq : Q tk) :
    ∃ tk', e.st.k.tasks[j]? = some tk' ∧ Q tk' := by
  induction h generalizing tk with
  | fuel st p => exact ⟨tk, hj, hq⟩
  | ret st => exact ⟨tk, hj, hq⟩
  | retPanicking st msg => exact ⟨tk, hj, hq⟩
  | abort st msg => exact ⟨tk, hj, hq⟩
  | unwind st msg pk apk e _ ih => exact ih hu hj hq
  | halt o kont st e hh =>
    cases hh with
    | switch _ _ => exact ⟨tk, hj, hq⟩
    | panicked _ _ _ msg => exact ⟨tk, hj, hq⟩
    | randFail _ _ err s' _ => exact ⟨tk, hj, hq⟩
  | step o kont st st' b e hs _ ih =>
    cases hp with
    | switch _ =>
      have := hs.not_switch
      simp [isSwitch] at this
    | op _ _ hb hk =>
      obtain ⟨tk1, h1, q1⟩ := hs.preserves (hstable o hb) hj hq
      exact ih (hk b) h1 q1

/-! ### two stable predicates -/

/-- `Finished` is terminal: no request of any task takes a task out of it -/
theorem stable_finished (me j : Nat) {U : Type} {β : Type} (o : KOp U β) :
    Stable me j (fun tk => tk.finished = true) o :=
  ⟨fun _ _ _ _ ho _ hq hf => opFun_finished ho hf hq, fun _ _ hq => hq⟩

/-- `get_mut(j).unblock()` -/
def isUnblockOf {U : Type} (j : Nat) : {β : Type} → KOp U β → Bool
  | _, .unblock t => t == j
  | _, _ => false

/-- blocked by `block(false)` (join, lock, recv, scope end, …), not by `park` -/
def HardBlocked (tk : Task) : Prop := tk.state = .blocked false ∧ tk.blockedInPark = false

/-- the only request of *another* task that takes `j` out of a non-spurious block is `unblock(j)` -/
theorem stable_blocked {me j : Nat} (hne : j ≠ me) {U : Type} {β : Type} (o : KOp U β)
    (hb : isUnblockOf j o = false) : Stable me j HardBlocked o := by
  refine ⟨?_, fun _ _ hq => hq⟩
  intro t f tk tk' ho ht hq hf
  obtain ⟨hs, hp⟩ := hq
  cases o <;> simp only [opFun, Option.some.injEq, Prod.mk.injEq, reduceCtorEq] at ho
  all_goals obtain ⟨rfl, rfl⟩ := ho
  case block sp => exact absurd ht.symm hne
  case blockTask t =>
    simp only [Task.block] at hf; split at hf
    · cases hf
    · cases hf; exact ⟨rfl, hp⟩
  case sleepUnlessWoken => exact absurd ht.symm hne
  case unblock t => simp [isUnblockOf, ht] at hb
  case wake t =>
    simp only [Task.wake, Task.sleeping, hs] at hf
    simp at hf; subst hf; exact ⟨rfl, hp⟩
  case park => exact absurd ht.symm hne
  case unpark t =>
    simp only [Task.unpark, hp] at hf
    simp at hf; subst hf; exact ⟨hs, rfl⟩
  case setWaiter t =>
    dsimp only at hf
    cases hw : tk.setWaiter me with
    | error e => rw [hw] at hf; cases hf
    | ok r =>
      obtain ⟨b, tk''⟩ := r
      rw [hw] at hf; cases hf
      refine ⟨(setWaiter_state hw).trans hs, ?_⟩
      unfold Task.setWaiter at hw
      split at hw
      · cases hw
      · split at hw <;> (cases hw; exact hp)
  case takeWaiter => exact absurd ht.symm hne
  case detach t => cases hf; exact ⟨hs, hp⟩
  case updateClock c => exact absurd ht.symm hne
  case incClock => exact absurd ht.symm hne
  case joinClockOf t c => cases hf; exact ⟨hs, hp⟩

/-! ### continuations of other tasks -/

theorem FineTrace.conts_other {S : Scheduler σ} {me : Nat} {st : ExecState P σ} {p : Prog P.U Unit}
    {e : SegEnd P σ} (h : FineTrace S me st p e) {i : Nat} (hne : i ≠ me) (hi : i < st.conts.length) :
    e.st.conts[i]? = st.conts[i]? ∧ st.conts.length ≤ e.st.conts.length := by
  induction h with
  | fuel st p => exact ⟨by simp [SegEnd.st, List.getElem?_set_ne (Ne.symm hne)], by simp [SegEnd.st]⟩
  | ret st => exact ⟨by simp [SegEnd.st, List.getElem?_set_ne (Ne.symm hne)], by simp [SegEnd.st]⟩
  | retPanicking st msg => exact ⟨rfl, Nat.le_refl _⟩
  | abort st msg => exact ⟨rfl, Nat.le_refl _⟩
  | unwind st msg pk apk e _ ih => exact ih hi
  | halt o kont st e hh =>
    cases hh with
    | switch _ _ => exact ⟨by simp [SegEnd.st, List.getElem?_set_ne (Ne.symm hne)], by simp [SegEnd.st]⟩
    | panicked _ _ _ msg => exact ⟨rfl, Nat.le_refl _⟩
    | randFail _ _ err s' _ => exact ⟨rfl, Nat.le_refl _⟩
  | step o kont st st' b e hs _ ih =>
    rcases hs.conts_eq with h | ⟨body, h⟩
    · have := ih (by rw [h]; exact hi)
      rw [h] at this; exact this
    · have := ih (by rw [h]; simp; omega)
      rw [h] at this
      refine ⟨this.1.trans (List.getElem?_append_left hi), ?_⟩
      have h2 := this.2
      simp at h2; omega

/-! ### one loop iteration -/

theorem finishSeg_inr_fine {t : Nat} {e : SegEnd P σ} {b : ExecState P σ} (h : finishSeg t e = .inr b) :
    e = .atSwitch b ∨
    ∃ st' tk tk', e = .returned st' ∧ st'.k.tasks[t]? = some tk ∧ tk.finish = .ok tk' ∧
      b = { st' with k := st'.k.setTask t tk' } := by
  cases e with
  | atSwitch st' => simp only [finishSeg, Sum.inr.injEq] at h; subst h; exact .inl rfl
  | returned st' =>
    simp only [finishSeg] at h
    cases hm : st'.k.modTask t (fun x => x.finish) with
    | error e => rw [hm] at h; cases h
    | ok k' =>
      rw [hm] at h
      simp only [Sum.inr.injEq] at h
      obtain ⟨tk, tk', h1, h2, rfl⟩ := modTask_ok hm
      subst h
      exact .inr ⟨st', tk, tk', rfl, h1, h2, rfl⟩
  | panicked msg st' => cases h
  | schedPanic msg st' => cases h
  | outOfFuel st' => cases h
  | aborted msg st' => cases h

/-- shape of a continuing iteration, keeping what happens to the task that ran -/
theorem iter_fine {S : Scheduler σ} {segFuel : Nat} {st b : ExecState P σ} (hn : st.k.next = .none)
    (hc : st.conts.length = st.k.tasks.length) (h : loopStep S segFuel st = .inr b) :
    ∃ t s' p, t ∈ st.k.offered ∧ st.conts[t]? = some p ∧
      (runSegment S t segFuel (segStart st t s') p = .atSwitch b ∨
       ∃ st' tk tk', runSegment S t segFuel (segStart st t s') p = .returned st' ∧
         st'.k.tasks[t]? = some tk ∧ tk.finish = .ok tk' ∧ b = { st' with k := st'.k.setTask t tk' }) := by
  have hs := loopStep_spec S segFuel st hn hc
  obtain ⟨t, s', p, _, _, h3, h4, h5⟩ := hs.inr_inv h
  exact ⟨t, s', p, h3, h4, finishSeg_inr_fine h5⟩

theorem segStart_task_other (st : ExecState P σ) {t j : Nat} (s' : σ) (hne : j ≠ t) :
    (segStart st t s').k.tasks[j]? = st.k.tasks[j]? := by
  simp only [segStart, chosenK, wokenTasks]
  split
  · split
    · rfl
    · exact List.getElem?_set_ne (Ne.symm hne)
  · rfl

theorem segStart_conts (st : ExecState P σ) (t : Nat) (s' : σ) : (segStart st t s').conts = st.conts := rfl

theorem not_offered_of_finished {k : Kernel} {j : Nat} {tk : Task} (hj : k.tasks[j]? = some tk)
    (hf : tk.finished = true) : j ∉ k.offered := by
  intro hm
  obtain ⟨tk', h1, h2⟩ := mem_offered.mp hm
  rw [hj] at h1; cases h1
  rcases h2 with h2 | h2
  · rw [Task.runnable_not_finished tk h2] at hf; cases hf
  · rw [Task.spurious_not_finished tk h2] at hf; cases hf

theorem not_offered_of_hardBlocked {k : Kernel} {j : Nat} {tk : Task} (hj : k.tasks[j]? = some tk)
    (hb : HardBlocked tk) : j ∉ k.offered := by
  intro hm
  obtain ⟨tk', h1, h2⟩ := mem_offered.mp hm
  rw [hj] at h1; cases h1
  rcases h2 with h2 | h2
  · rw [Task.runnable_iff, hb.1] at h2; cases h2
  · rw [Task.canSpuriouslyWakeup_iff, hb.1] at h2; cases h2

/-- **An iteration never runs, and never changes the continuation of, a finished task; and the task stays
finished.** -/
theorem iter_finished {S : Scheduler σ} {segFuel : Nat} {st b : ExecState P σ} (hn : st.k.next = .none)
    (hc : st.conts.length = st.k.tasks.length) (h : loopStep S segFuel st = .inr b)
    {j : Nat} {tk : Task} (hj : st.k.tasks[j]? = some tk) (hf : tk.finished = true) :
    (∃ tk', b.k.tasks[j]? = some tk' ∧ tk'.finished = true) ∧ b.conts[j]? = st.conts[j]? := by
  obtain ⟨t, s', p, hoff, hp, hend⟩ := iter_fine hn hc h
  have hne : j ≠ t := fun e => not_offered_of_finished hj hf (e ▸ hoff)
  have hjl : j < st.conts.length := by rw [hc]; exact (List.getElem?_eq_some_iff.1 hj).1
  have htr := runSegment_fineTrace S t segFuel (segStart st t s') p
  have hj' : (segStart st t s').k.tasks[j]? = some tk := by rw [segStart_task_other st s' hne]; exact hj
  obtain ⟨tk1, h1, q1⟩ := htr.preserves (Q := fun tk => tk.finished = true) (fun _ => false)
    (fun o _ => stable_finished t j o) (untilSwitch_false _) (untilSwitch_false _) hj' hf
  have hco := (htr.conts_other hne (by rw [segStart_conts]; exact hjl)).1
  rcases hend with he | ⟨st', tk0, tk0', he, _, _, rfl⟩
  · rw [he] at h1 hco
    exact ⟨⟨tk1, h1, q1⟩, hco⟩
  · rw [he] at h1 hco
    refine ⟨⟨tk1, ?_, q1⟩, hco⟩
    simp only [Kernel.setTask]
    rw [List.getElem?_set_ne (Ne.symm hne)]; exact h1

/-- **The only thing that resumes a task blocked by `block(false)` is an `unblock` request naming it.**  If
the segment run by this iteration issues no `unblock(j)` before its next `switch`, `j` is still blocked. -/
theorem iter_blocked {S : Scheduler σ} {segFuel : Nat} {st b : ExecState P σ} (hn : st.k.next = .none)
    (hc : st.conts.length = st.k.tasks.length) (h : loopStep S segFuel st = .inr b)
    {j : Nat} {tk : Task} (hj : st.k.tasks[j]? = some tk) (hb : HardBlocked tk)
    (hprog : ∀ t p, t ∈ st.k.offered → st.conts[t]? = some p →
      UntilSwitch (P := P) (isUnblockOf j) p ∧ UntilSwitch (P := P) (isUnblockOf j) (P.unwind t)) :
    ∃ tk', b.k.tasks[j]? = some tk' ∧ HardBlocked tk' := by
  obtain ⟨t, s', p, hoff, hp, hend⟩ := iter_fine hn hc h
  have hne : j ≠ t := fun e => not_offered_of_hardBlocked hj hb (e ▸ hoff)
  have htr := runSegment_fineTrace S t segFuel (segStart st t s') p
  have hj' : (segStart st t s').k.tasks[j]? = some tk := by rw [segStart_task_other st s' hne]; exact hj
  obtain ⟨hp1, hp2⟩ := hprog t p hoff hp
  obtain ⟨tk1, h1, q1⟩ := htr.preserves (Q := HardBlocked) (isUnblockOf j)
    (fun o ho => stable_blocked hne o ho) hp1 hp2 hj' hb
  rcases hend with he | ⟨st', tk0, tk0', he, _, _, rfl⟩
  · rw [he] at h1; exact ⟨tk1, h1, q1⟩
  · rw [he] at h1
    refine ⟨tk1, ?_, q1⟩
    simp only [Kernel.setTask]
    rw [List.getElem?_set_ne (Ne.symm hne)]; exact h1

/-- after the iteration in which task `t`'s closure returned, `t` is `Finished` and its continuation is the
empty program -/
theorem iter_returned_finished {S : Scheduler σ} {segFuel : Nat} {st b : ExecState P σ} {t : Nat} {s' : σ}
    {p : Prog P.U Unit} {st' : ExecState P σ} {tk tk' : Task}
    (he : runSegment S t segFuel (segStart st t s') p = .returned st') (h1 : st'.k.tasks[t]? = some tk)
    (h2 : tk.finish = .ok tk') (hb : b = { st' with k := st'.k.setTask t tk' }) :
    b.k.tasks[t]? = some tk' ∧ tk'.finished = true := by
  subst hb
  refine ⟨?_, ?_⟩
  · simp only [Kernel.setTask]
    exact List.getElem?_set_self (List.getElem?_eq_some_iff.1 h1).1
  · unfold Task.finish at h2
    split at h2
    · cases h2
    · cases h2; rfl

/-- a segment that ends with `returned` has stored the empty program for its task -/
theorem returned_conts {S : Scheduler σ} {me : Nat} {st st' : ExecState P σ} {p : Prog P.U Unit}
    {e : SegEnd P σ} (h : FineTrace S me st p e) (he : e = .returned st') :
    st.conts.length ≤ st'.conts.length ∧ ∃ c : List (Prog P.U Unit), st.conts.length ≤ c.length ∧ st'.conts = c.set me (.pure ()) := by
  induction h with
  | fuel st p => cases he
  | ret st => cases he; exact ⟨by simp, st.conts, Nat.le_refl _, rfl⟩
  | retPanicking st msg => cases he
  | abort st msg => cases he
  | unwind st msg pk apk e _ ih => exact ih he
  | halt o kont st e hh => cases hh <;> cases he
  | step o kont st st' b e hs _ ih =>
    obtain ⟨h1, c, h2, h3⟩ := ih he
    rcases hs.conts_eq with h | ⟨body, h⟩
    · rw [h] at h1 h2; exact ⟨h1, c, h2, h3⟩
    · rw [h] at h1 h2; simp at h1 h2; exact ⟨by omega, c, by omega, h3⟩

/-! ### along the whole execution -/

/-- a finished task stays finished, is never run again and keeps its (empty) continuation, at every later loop
head -/
theorem reach_finished {S : Scheduler σ} {segFuel : Nat} {ms : MaxSteps} {a b : ExecState P σ}
    (hi : LoopInv ms a) (h : Reach S segFuel a b) {j : Nat} {tk : Task} (hj : a.k.tasks[j]? = some tk)
    (hf : tk.finished = true) :
    (∃ tk', b.k.tasks[j]? = some tk' ∧ tk'.finished = true) ∧ b.conts[j]? = a.conts[j]? := by
  have := h.invariant
    (fun x => LoopInv ms x ∧ (∃ tk', x.k.tasks[j]? = some tk' ∧ tk'.finished = true) ∧ x.conts[j]? = a.conts[j]?)
    (fun x y hx hs => by
      obtain ⟨hl, ⟨tk', h1, h2⟩, h3⟩ := hx
      have := iter_finished hl.next hl.conts hs h1 h2
      exact ⟨hl.step hs, this.1, this.2.trans h3⟩)
    ⟨hi, ⟨tk, hj, hf⟩, rfl⟩
  exact this.2

/-- the task table only grows -/
theorem reach_tasks_length {S : Scheduler σ} {segFuel : Nat} {ms : MaxSteps} {a b : ExecState P σ}
    (hi : LoopInv ms a) (h : Reach S segFuel a b) : a.k.tasks.length ≤ b.k.tasks.length := by
  have := h.invariant (fun x => LoopInv ms x ∧ a.k.tasks.length ≤ x.k.tasks.length)
    (fun x y hx hs => by
      obtain ⟨hl, hlen⟩ := hx
      obtain ⟨t, s', _, _, _, hf, _⟩ := iter_frame hl.next hl.conts hs
      have h1 := hf.tasksLen
      simp only [segStart, chosenK, wokenTasks_length] at h1
      exact ⟨hl.step hs, Nat.le_trans hlen h1⟩)
    ⟨hi, Nat.le_refl _⟩
  exact this.2

end ShuttleProofs.Thread
