import ShuttleProofs.Lemmas.ChanLts
/-
  C06 — inversion lemmas: what each pure atomic transition / each segment returns.
-/
set_option linter.unusedSimpArgs false
namespace ShuttleModel.C06
open ShuttleModel

@[simp] theorem ubOf_nil : ubOf [] = [] := rfl
@[simp] theorem ubOf_append (a b : List Eff) : ubOf (a ++ b) = ubOf a ++ ubOf b := by
  simp [ubOf]
@[simp] theorem ubOf_cons_unblock (t : Nat) (r : List Eff) : ubOf (Eff.unblock t :: r) = t :: ubOf r := by
  simp [ubOf]
@[simp] theorem ubOf_map (l : List Nat) : ubOf (l.map Eff.unblock) = l := by
  induction l with
  | nil => rfl
  | cons a l ih => simp [ih]

theorem isRdv_iff (s : ChanState) : s.isRdv = true ↔ s.bound = some 0 := by
  simp [ChanState.isRdv]

/-- `sender_must_block`, spelled out -/
theorem senderMustBlock_iff (s : ChanState) :
    s.senderMustBlock = true ↔
      (∃ b, s.bound = some b ∧ max b 1 ≤ s.messages.length) ∨ s.waitingSenders ≠ [] ∨
      (s.bound = some 0 ∧ s.waitingReceivers = []) := by
  unfold ChanState.senderMustBlock
  cases hb : s.bound with
  | none => simp
  | some b => simp [or_assoc]

theorem receiverMustBlock_iff (s : ChanState) :
    s.receiverMustBlock = true ↔ s.messages = [] ∨ s.waitingReceivers ≠ [] := by
  simp [ChanState.receiverMustBlock]

/-! ### send -/

theorem sendStart_ok {s s' : ChanState} {me : Nat} {cb : Bool} {st : SendStage} {e : List Eff}
    (h : s.sendStart me cb = .ok (s', st, e)) :
    e = [] ∧
    ((s.knownReceivers = 0 ∧ s' = s ∧ st = .done .disconnected) ∨
     (s.knownReceivers ≠ 0 ∧ s.senderMustBlock = true ∧ cb = false ∧ s' = s ∧ st = .done .full) ∨
     (s.knownReceivers ≠ 0 ∧ s.senderMustBlock = true ∧ cb = true ∧
        s' = { s with waitingSenders := s.waitingSenders ++ [me] } ∧ st = .blocked) ∨
     (s.knownReceivers ≠ 0 ∧ s.senderMustBlock = false ∧ s' = s ∧ st = .push)) := by
  unfold ChanState.sendStart at h
  by_cases h0 : s.knownReceivers = 0
  · simp [h0] at h; obtain ⟨rfl, rfl, rfl⟩ := h; simp [h0]
  · cases hm : s.senderMustBlock <;> cases cb <;> simp [h0, hm] at h <;>
      obtain ⟨rfl, rfl, rfl⟩ := h <;> simp [h0, hm]

theorem sendStart_never_panics (s : ChanState) (me : Nat) (cb : Bool) :
    ∃ x, s.sendStart me cb = .ok x := by
  unfold ChanState.sendStart
  by_cases h0 : s.knownReceivers = 0
  · simp [h0]
  · cases hm : s.senderMustBlock <;> cases cb <;> simp [h0]

theorem sendWake_ok {s s' : ChanState} {me : Nat} {st : SendStage} {e : List Eff}
    (h : s.sendWake me = .ok (s', st, e)) :
    e = [] ∧
    ((s.knownReceivers = 0 ∧ s' = { s with waitingSenders := s.waitingSenders.filter (· != me) } ∧
        st = .done .disconnected) ∨
     (s.knownReceivers ≠ 0 ∧ ∃ rest, s.waitingSenders = me :: rest ∧
        s' = { s with waitingSenders := rest } ∧ st = .push)) := by
  unfold ChanState.sendWake at h
  by_cases h0 : s.knownReceivers = 0
  · simp [h0] at h; obtain ⟨rfl, rfl, rfl⟩ := h; simp [h0]
  · simp only [beq_iff_eq, h0, if_false] at h
    cases hw : s.waitingSenders with
    | nil => simp [hw, ChanState.popHead] at h
    | cons a rest =>
      by_cases ha : a = me
      · simp [hw, ChanState.popHead, ha] at h
        obtain ⟨rfl, rfl, rfl⟩ := h
        simp [h0, ha, hw]
      · simp [hw, ChanState.popHead, ha] at h

/-- head of the sender queue that a push of one more message unblocks -/
def pushNext (s : ChanState) : List Nat :=
  match s.waitingSenders.head?, s.bound with
  | some h, some b => if s.messages.length + 1 < b then [h] else []
  | _, _ => []

theorem ubOf_opt (o : Option Nat) :
    ubOf (match o with | some t => [Eff.unblock t] | none => []) = o.toList := by
  cases o <;> simp

theorem nextSender_ok {s : ChanState} {x : Nat × Clock} {next : Option Nat}
    (h : ({ s with messages := s.messages ++ [x] } : ChanState).nextSenderAfterPush = .ok next) :
    pushNext s = next.toList := by
  unfold ChanState.nextSenderAfterPush at h
  unfold pushNext
  rcases hw : s.waitingSenders with _ | ⟨w, ws⟩ <;> rcases hb : s.bound with _ | b <;>
    simp [hw, hb] at h ⊢
  · exact h.symm ▸ rfl
  · exact h.symm ▸ rfl
  · subst h; split <;> simp

theorem sendPush_ok {s s' : ChanState} {v : Nat} {c : Clock} {o : PushOut} {e : List Eff}
    (h : s.sendPush v c = .ok (s', o, e)) :
    s' = { s with messages := s.messages ++ [(v, c)], receiverClock := s'.receiverClock } ∧
    ubOf e = s.waitingReceivers.head?.toList ++ pushNext s ∧
    (s.bound = some 0 → s'.receiverClock = s.receiverClock) ∧
    (s.receiverClock = none → s'.receiverClock = none) ∧
    (s.bound ≠ some 0 → ∀ l, s.receiverClock = some l →
      ∃ x r, l = x :: r ∧ s'.receiverClock = some r) := by
  unfold ChanState.sendPush at h
  simp only [] at h
  split at h
  · simp at h
  · rename_i next hn
    have hp := nextSender_ok hn
    simp only [ChanState.isRdv] at h
    by_cases hz : s.bound = some 0
    · simp [hz] at h; obtain ⟨rfl, rfl, rfl⟩ := h
      simp [hz, hp]
      cases s.waitingReceivers.head? <;> cases next <;> simp
    · simp [hz] at h
      rcases hc : s.receiverClock with _ | _ | ⟨x, l⟩ <;> simp [hc] at h <;>
        obtain ⟨rfl, rfl, rfl⟩ := h <;> simp [hz, hp, hc] <;>
        cases s.waitingReceivers.head? <;> cases next <;> simp

theorem sendSeg_ok {first : ChanStep SendStage} {v : Nat} {c : Clock} {s' : ChanState}
    {r : Option SendRes} {e : List Eff} (h : sendSeg first v c = .ok (s', r, e)) :
    ∃ s1 st e1, first = .ok (s1, st, e1) ∧
      ((∃ res, st = .done res ∧ s' = s1 ∧ r = some res ∧ e = e1) ∨
       (st = .blocked ∧ s' = s1 ∧ r = none ∧ e = e1) ∨
       (st = .push ∧ r = some .ok ∧ ∃ o e', s1.sendPush v c = .ok (s', o, e') ∧ e = e1 ++ e')) := by
  unfold sendSeg bindStep at h
  rcases first with p | ⟨s1, st, e1⟩
  · simp at h
  · refine ⟨s1, st, e1, rfl, ?_⟩
    cases st with
    | done res => simp at h; obtain ⟨rfl, rfl, rfl⟩ := h; simp
    | blocked => simp at h; obtain ⟨rfl, rfl, rfl⟩ := h; simp
    | push =>
      simp only [bindStep] at h
      rcases hp : s1.sendPush v c with p | ⟨s2, o, e2⟩
      · simp [hp] at h
      · simp [hp] at h; obtain ⟨rfl, rfl, rfl⟩ := h; simp

theorem sendSeg1_ok {s s' : ChanState} {me v : Nat} {cb : Bool} {c : Clock}
    {r : Option SendRes} {e : List Eff} (h : sendSeg1 s me v cb c = .ok (s', r, e)) :
    (s.knownReceivers = 0 ∧ s' = s ∧ r = some .disconnected ∧ ubOf e = []) ∨
    (s.knownReceivers ≠ 0 ∧ s.senderMustBlock = true ∧ cb = false ∧ s' = s ∧ r = some .full ∧
      ubOf e = []) ∨
    (s.knownReceivers ≠ 0 ∧ s.senderMustBlock = true ∧ cb = true ∧
      s' = { s with waitingSenders := s.waitingSenders ++ [me] } ∧ r = none ∧ ubOf e = []) ∨
    (s.knownReceivers ≠ 0 ∧ s.senderMustBlock = false ∧ r = some .ok ∧
      ∃ o e', s.sendPush v c = .ok (s', o, e') ∧ ubOf e = ubOf e') := by
  obtain ⟨s1, st, e1, hf, hc⟩ := sendSeg_ok h
  obtain ⟨rfl, hs⟩ := sendStart_ok hf
  rcases hs with ⟨h0, rfl, rfl⟩ | ⟨h0, hm, rfl, rfl, rfl⟩ | ⟨h0, hm, rfl, rfl, rfl⟩ | ⟨h0, hm, rfl, rfl⟩
  · rcases hc with ⟨res, hres, rfl, rfl, rfl⟩ | ⟨hst, _⟩ | ⟨hst, _⟩
    · cases hres; simp [h0]
    · cases hst
    · cases hst
  · rcases hc with ⟨res, hres, rfl, rfl, rfl⟩ | ⟨hst, _⟩ | ⟨hst, _⟩
    · cases hres; simp [h0, hm]
    · cases hst
    · cases hst
  · rcases hc with ⟨res, hres, _⟩ | ⟨_, rfl, rfl, rfl⟩ | ⟨hst, _⟩
    · cases hres
    · simp [h0, hm]
    · cases hst
  · rcases hc with ⟨res, hres, _⟩ | ⟨hst, _⟩ | ⟨_, rfl, o, e', hp, he⟩
    · cases hres
    · cases hst
    · simp [h0, hm]; exact ⟨o, e', hp, by simp [he]⟩

theorem sendSeg2_ok {s s' : ChanState} {me v : Nat} {c : Clock}
    {r : Option SendRes} {e : List Eff} (h : sendSeg2 s me v c = .ok (s', r, e)) :
    (s.knownReceivers = 0 ∧ s' = { s with waitingSenders := s.waitingSenders.filter (· != me) } ∧
      r = some .disconnected ∧ ubOf e = []) ∨
    (s.knownReceivers ≠ 0 ∧ r = some .ok ∧ ∃ rest o e', s.waitingSenders = me :: rest ∧
      ({ s with waitingSenders := rest } : ChanState).sendPush v c = .ok (s', o, e') ∧
      ubOf e = ubOf e') := by
  obtain ⟨s1, st, e1, hf, hc⟩ := sendSeg_ok h
  obtain ⟨rfl, hs⟩ := sendWake_ok hf
  rcases hs with ⟨h0, rfl, rfl⟩ | ⟨h0, rest, hw, rfl, rfl⟩
  · rcases hc with ⟨res, hres, rfl, rfl, rfl⟩ | ⟨hst, _⟩ | ⟨hst, _⟩
    · cases hres; simp [h0]
    · cases hst
    · cases hst
  · rcases hc with ⟨res, hres, _⟩ | ⟨hst, _⟩ | ⟨_, rfl, o, e', hp, he⟩
    · cases hres
    · cases hst
    · right; simp [h0]; exact ⟨rest, hw, o, e', hp, by simp [he]⟩

/-! ### recv -/

/-- tasks unblocked by taking the first message when `rest` remains -/
def popUb (s : ChanState) (rest : List (Nat × Clock)) : List Nat :=
  (match s.waitingSenders.head?, s.bound with
   | some h, some b => if 0 < b ∨ s.waitingReceivers ≠ [] then [h] else []
   | _, _ => []) ++
  (match s.waitingReceivers.head? with
   | some r => if rest ≠ [] then [r] else []
   | none => [])

theorem recvPop_ok {s s' : ChanState} {item : Nat × Clock} {e : List Eff}
    (h : s.recvPop = .ok (s', item, e)) :
    ∃ rest, s.messages = item :: rest ∧ s' = { s with messages := rest } ∧ ubOf e = popUb s rest := by
  unfold ChanState.recvPop at h
  unfold popUb
  rcases hm : s.messages with _ | ⟨it, rest⟩
  · simp [hm] at h
  · refine ⟨rest, ?_⟩
    rcases hw : s.waitingSenders with _ | ⟨w, ws⟩ <;> rcases hb : s.bound with _ | b <;>
      rcases hr : s.waitingReceivers with _ | ⟨r, wr⟩ <;>
      simp [hm, hw, hb, hr] at h ⊢ <;>
      obtain ⟨rfl, rfl, rfl⟩ := h <;> simp <;> (try (split <;> simp_all))

theorem recvAck_ok {s s' : ChanState} {mine : Clock} {e : List Eff}
    (h : s.recvAck mine = .ok (s', (), e)) :
    e = [] ∧ s' = { s with receiverClock := s'.receiverClock } ∧
    (s.receiverClock = none → s'.receiverClock = none) ∧
    (s.bound = some 0 → s'.receiverClock = s.receiverClock) ∧
    (∀ l k, s.receiverClock = some l → s.bound = some (k + 1) →
      l.length < k + 1 ∧ s'.receiverClock = some (l ++ [mine])) := by
  rcases s with ⟨b, m, rc, ks, kr, ws, wr⟩
  unfold ChanState.recvAck at h
  rcases rc with _ | l <;> rcases b with _ | _ | k <;> simp at h ⊢
  all_goals (try (obtain ⟨rfl, rfl⟩ := h; simp))
  · split at h <;> simp at h
    obtain ⟨rfl, rfl⟩ := h
    simp; omega

theorem recvStart_ok {s s' : ChanState} {me : Nat} {cb : Bool} {st : RecvStage} {e : List Eff}
    (hwr : s.waitingReceivers = []) (h : s.recvStart me cb = .ok (s', st, e)) :
    (s.messages = [] ∧ s.knownSenders = 0 ∧ s' = s ∧ st = .done .disconnected ∧ e = []) ∨
    (s.messages = [] ∧ s.knownSenders ≠ 0 ∧ cb = false ∧
      ¬ (s.bound = some 0 ∧ s.waitingSenders ≠ []) ∧ s' = s ∧ st = .done .empty ∧ e = []) ∨
    (s.messages = [] ∧ s.knownSenders ≠ 0 ∧ (cb = true ∨ (s.bound = some 0 ∧ s.waitingSenders ≠ [])) ∧
      s' = { s with waitingReceivers := [me] } ∧ st = .blocked ∧
      ubOf e = if s.bound = some 0 then s.waitingSenders.head?.toList else []) ∨
    (s.messages ≠ [] ∧ s' = s ∧ st = .pop ∧ e = []) := by
  unfold ChanState.recvStart at h
  simp only [ChanState.receiverMustBlock, ChanState.isRdv, hwr] at h
  rcases hm : s.messages with _ | ⟨it, rest⟩
  · by_cases hk : s.knownSenders = 0
    · simp [hm, hk] at h; obtain ⟨rfl, rfl, rfl⟩ := h; simp [hm, hk]
    · by_cases hz : s.bound = some 0
      · rcases hw : s.waitingSenders with _ | ⟨w, ws⟩ <;> cases cb <;>
          simp [hm, hk, hz, hw] at h <;> obtain ⟨rfl, rfl, rfl⟩ := h <;> simp [hm, hk, hz, hw, hwr]
      · cases cb <;> simp [hm, hk, hz] at h <;> obtain ⟨rfl, rfl, rfl⟩ := h <;>
          simp [hm, hk, hz, hwr]
  · by_cases hz : s.bound = some 0 <;> cases cb <;>
      simp [hm, hz] at h <;> obtain ⟨rfl, rfl, rfl⟩ := h <;> simp [hm]

theorem recvWake_ok {s s' : ChanState} {me : Nat} {st : RecvStage} {e : List Eff}
    (h : s.recvWake me = .ok (s', st, e)) :
    e = [] ∧
    ((s.messages = [] ∧ s.knownSenders = 0 ∧
        s' = { s with waitingReceivers := s.waitingReceivers.filter (· != me) } ∧
        st = .done .disconnected) ∨
     (¬ (s.messages = [] ∧ s.knownSenders = 0) ∧ ∃ rest, s.waitingReceivers = me :: rest ∧
        s' = { s with waitingReceivers := rest } ∧ st = .pop)) := by
  unfold ChanState.recvWake at h
  by_cases h0 : s.messages = [] ∧ s.knownSenders = 0
  · simp [h0.1, h0.2] at h; obtain ⟨rfl, rfl, rfl⟩ := h; simp [h0.1, h0.2]
  · have h0' : ¬ (s.messages.isEmpty = true ∧ s.knownSenders = 0) := by simpa using h0
    simp only [Bool.and_eq_true, beq_iff_eq, h0', if_false] at h
    cases hw : s.waitingReceivers with
    | nil => simp [hw, ChanState.popHead] at h
    | cons a rest =>
      by_cases ha : a = me
      · simp [hw, ChanState.popHead, ha] at h
        obtain ⟨rfl, rfl, rfl⟩ := h
        simp [h0, ha]
      · simp [hw, ChanState.popHead, ha] at h

theorem recvSeg_ok {first : ChanStep RecvStage} {mine : Clock} {s' : ChanState}
    {r : Option RecvRes} {e : List Eff} (h : recvSeg first mine = .ok (s', r, e)) :
    ∃ s1 st e1, first = .ok (s1, st, e1) ∧
      ((∃ res, st = .done res ∧ s' = s1 ∧ r = some res ∧ e = e1) ∨
       (st = .blocked ∧ s' = s1 ∧ r = none ∧ e = e1) ∨
       (st = .pop ∧ ∃ s2 item e2, s1.recvPop = .ok (s2, item, e2) ∧
          s2.recvAck mine = .ok (s', (), []) ∧ r = some (.ok item.1) ∧ e = e1 ++ e2)) := by
  unfold recvSeg bindStep at h
  rcases first with p | ⟨s1, st, e1⟩
  · simp at h
  · refine ⟨s1, st, e1, rfl, ?_⟩
    cases st with
    | done res => simp at h; obtain ⟨rfl, rfl, rfl⟩ := h; simp
    | blocked => simp at h; obtain ⟨rfl, rfl, rfl⟩ := h; simp
    | pop =>
      simp only [bindStep] at h
      rcases hp : s1.recvPop with p | ⟨s2, item, e2⟩
      · simp [hp] at h
      · rcases ha : s2.recvAck mine with p | ⟨s3, u, e3⟩
        · simp [hp, ha] at h
        · simp [hp, ha] at h; obtain ⟨rfl, rfl, rfl⟩ := h
          obtain ⟨rfl, -⟩ := recvAck_ok ha
          exact Or.inr (Or.inr ⟨rfl, s2, item, e2, rfl, ha, rfl, by simp⟩)

theorem recvSeg1_ok {s s' : ChanState} {me : Nat} {cb : Bool} {mine : Clock}
    {r : Option RecvRes} {e : List Eff} (hwr : s.waitingReceivers = [])
    (h : recvSeg1 s me cb mine = .ok (s', r, e)) :
    (s.messages = [] ∧ s.knownSenders = 0 ∧ s' = s ∧ r = some .disconnected ∧ ubOf e = []) ∨
    (s.messages = [] ∧ s.knownSenders ≠ 0 ∧ cb = false ∧
      ¬ (s.bound = some 0 ∧ s.waitingSenders ≠ []) ∧ s' = s ∧ r = some .empty ∧ ubOf e = []) ∨
    (s.messages = [] ∧ s.knownSenders ≠ 0 ∧ (cb = true ∨ (s.bound = some 0 ∧ s.waitingSenders ≠ [])) ∧
      s' = { s with waitingReceivers := [me] } ∧ r = none ∧
      ubOf e = if s.bound = some 0 then s.waitingSenders.head?.toList else []) ∨
    (∃ item rest, s.messages = item :: rest ∧ r = some (.ok item.1) ∧ ubOf e = popUb s rest ∧
      ({ s with messages := rest } : ChanState).recvAck mine = .ok (s', (), [])) := by
  obtain ⟨s1, st, e1, hf, hc⟩ := recvSeg_ok h
  rcases recvStart_ok hwr hf with ⟨hm, hk, rfl, rfl, rfl⟩ | ⟨hm, hk, hcb, hz, rfl, rfl, rfl⟩ |
      ⟨hm, hk, hcb, rfl, rfl, hu⟩ | ⟨hm, rfl, rfl, rfl⟩
  · rcases hc with ⟨res, hres, rfl, rfl, rfl⟩ | ⟨hst, _⟩ | ⟨hst, _⟩
    · cases hres; simp [hm, hk]
    · cases hst
    · cases hst
  · rcases hc with ⟨res, hres, rfl, rfl, rfl⟩ | ⟨hst, _⟩ | ⟨hst, _⟩
    · cases hres; right; left; simp [hm, hk, hcb]; simpa using hz
    · cases hst
    · cases hst
  · rcases hc with ⟨res, hres, _⟩ | ⟨_, rfl, rfl, rfl⟩ | ⟨hst, _⟩
    · cases hres
    · right; right; left; exact ⟨hm, hk, hcb, rfl, rfl, hu⟩
    · cases hst
  · rcases hc with ⟨res, hres, _⟩ | ⟨hst, _⟩ | ⟨_, s2, item, e2, hp, ha, rfl, he⟩
    · cases hres
    · cases hst
    · obtain ⟨rest, hmm, rfl, hu⟩ := recvPop_ok hp
      right; right; right
      exact ⟨item, rest, hmm, rfl, by simp [he, hu], ha⟩

theorem recvSeg2_ok {s s' : ChanState} {me : Nat} {mine : Clock}
    {r : Option RecvRes} {e : List Eff} (h : recvSeg2 s me mine = .ok (s', r, e)) :
    (s.messages = [] ∧ s.knownSenders = 0 ∧
      s' = { s with waitingReceivers := s.waitingReceivers.filter (· != me) } ∧
      r = some .disconnected ∧ ubOf e = []) ∨
    (¬ (s.messages = [] ∧ s.knownSenders = 0) ∧ ∃ wrest item rest, s.waitingReceivers = me :: wrest ∧
      s.messages = item :: rest ∧ r = some (.ok item.1) ∧
      ubOf e = popUb { s with waitingReceivers := wrest } rest ∧
      ({ s with waitingReceivers := wrest, messages := rest } : ChanState).recvAck mine = .ok (s', (), [])) := by
  obtain ⟨s1, st, e1, hf, hc⟩ := recvSeg_ok h
  obtain ⟨rfl, hs⟩ := recvWake_ok hf
  rcases hs with ⟨hm, hk, rfl, rfl⟩ | ⟨h0, wrest, hw, rfl, rfl⟩
  · rcases hc with ⟨res, hres, rfl, rfl, rfl⟩ | ⟨hst, _⟩ | ⟨hst, _⟩
    · cases hres; simp [hm, hk]
    · cases hst
    · cases hst
  · rcases hc with ⟨res, hres, _⟩ | ⟨hst, _⟩ | ⟨_, s2, item, e2, hp, ha, rfl, he⟩
    · cases hres
    · cases hst
    · obtain ⟨rest, hmm, rfl, hu⟩ := recvPop_ok hp
      right
      exact ⟨h0, wrest, item, rest, hw, hmm, rfl, by simp [he, hu], ha⟩

/-- `receiver_clock` after a successful push -/
def pushRc (s : ChanState) : Option (List Clock) :=
  if s.bound = some 0 then s.receiverClock else s.receiverClock.map List.tail

theorem sendPush_state {s s' : ChanState} {v : Nat} {c : Clock} {o : PushOut} {e : List Eff}
    (h : s.sendPush v c = .ok (s', o, e)) :
    s' = { s with messages := s.messages ++ [(v, c)], receiverClock := pushRc s } ∧
    ubOf e = s.waitingReceivers.head?.toList ++ pushNext s ∧
    (s.bound ≠ some 0 → s.receiverClock ≠ some []) := by
  obtain ⟨h1, h2, h3, h4, h5⟩ := sendPush_ok h
  have hrc : s'.receiverClock = pushRc s := by
    unfold pushRc
    by_cases hz : s.bound = some 0
    · simp [hz, h3 hz]
    · rcases hc : s.receiverClock with _ | l
      · simp [hz, h4 hc]
      · obtain ⟨x, r, rfl, hr⟩ := h5 hz l hc
        simp [hz, hr]
  refine ⟨by rw [← hrc]; exact h1, h2, fun hz hc => ?_⟩
  obtain ⟨x, r, hl, -⟩ := h5 hz [] hc
  cases hl

/-- `receiver_clock` after the acknowledgement of a receive -/
def ackRc (s : ChanState) (mine : Clock) : Option (List Clock) :=
  match s.receiverClock, s.bound with
  | some l, some (_ + 1) => some (l ++ [mine])
  | rc, _ => rc

theorem recvAck_state {s s' : ChanState} {mine : Clock} {e : List Eff}
    (h : s.recvAck mine = .ok (s', (), e)) :
    s' = { s with receiverClock := ackRc s mine } := by
  obtain ⟨-, h1, h2, h3, h4⟩ := recvAck_ok h
  have hrc : s'.receiverClock = ackRc s mine := by
    unfold ackRc
    rcases hc : s.receiverClock with _ | l
    · simp [h2 hc]
    · rcases hb : s.bound with _ | _ | k
      · have := h
        unfold ChanState.recvAck at this
        simp [hc, hb] at this
      · simp [h3 hb, hc]
      · simp [(h4 l k hc hb).2]
  rw [← hrc]; exact h1

/-! ### `fire`, unfolded -/

theorem fire_sendStart {c c' : Cfg} {t v : Nat} {cb : Bool} {clk : Clock}
    (h : fire c (.sendStart t v cb clk) = .ok c') :
    ∃ s' r e, sendSeg1 c.ch t v cb clk = .ok (s', r, e) ∧ c' = c.afterSend t v (s', r, e) false := by
  simp only [fire] at h
  split at h
  · simp at h
  · rename_i x hx
    obtain ⟨s', r, e⟩ := x
    simp at h
    exact ⟨s', r, e, hx, h.symm⟩

theorem fire_sendWake {c c' : Cfg} {t : Nat} {clk : Clock}
    (h : fire c (.sendWake t clk) = .ok c') :
    ∃ s' r e, sendSeg2 c.ch t (c.pv t) clk = .ok (s', r, e) ∧
      c' = c.afterSend t (c.pv t) (s', r, e) true := by
  simp only [fire] at h
  split at h
  · simp at h
  · rename_i x hx
    obtain ⟨s', r, e⟩ := x
    simp at h
    exact ⟨s', r, e, hx, h.symm⟩

theorem fire_recvStart {c c' : Cfg} {t : Nat} {cb : Bool} {mine : Clock}
    (h : fire c (.recvStart t cb mine) = .ok c') :
    ∃ s' r e, recvSeg1 c.ch t cb mine = .ok (s', r, e) ∧ c' = c.afterRecv t (s', r, e) false := by
  simp only [fire] at h
  split at h
  · simp at h
  · rename_i x hx
    obtain ⟨s', r, e⟩ := x
    simp at h
    exact ⟨s', r, e, hx, h.symm⟩

theorem fire_recvWake {c c' : Cfg} {t : Nat} {mine : Clock}
    (h : fire c (.recvWake t mine) = .ok c') :
    ∃ s' r e, recvSeg2 c.ch t mine = .ok (s', r, e) ∧ c' = c.afterRecv t (s', r, e) true := by
  simp only [fire] at h
  split at h
  · simp at h
  · rename_i x hx
    obtain ⟨s', r, e⟩ := x
    simp at h
    exact ⟨s', r, e, hx, h.symm⟩

end ShuttleModel.C06
