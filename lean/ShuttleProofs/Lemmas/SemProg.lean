import ShuttleProofs.Lemmas.LocksAtomic
/-
  Granularity of the `Prog` wrappers of the semaphore: where their scheduling points are.
  Each wrapper is ONE `thread::switch()` followed by a switch-free body (`tryAcquire`, `release`,
  `close`), or a read-only prefix, at most one `thread::switch()`, and a switch-free body (`poll`).
  Hence the bodies run inside a single segment of `runSegment` (`runSegment_switchFree`), which is
  what the atomic steps of `Lemmas/SemLts.lean` describe.
-/
namespace ShuttleModel
open Prog (SwitchFree)

namespace K
variable {U : Type}
theorem me_switchFree : (K.me : Prog U Nat).SwitchFree := SwitchFree.lift _ rfl
theorem clock_switchFree : (K.clock : Prog U Clock).SwitchFree := SwitchFree.lift _ rfl
theorem isFinished_switchFree (t : Nat) : (K.isFinished t : Prog U Bool).SwitchFree := SwitchFree.lift _ rfl
theorem isPanicking_switchFree : (K.isPanicking : Prog U Bool).SwitchFree := SwitchFree.lift _ rfl
theorem panic_switchFree {α : Type} (m : String) : (K.panic m : Prog U α).SwitchFree := SwitchFree.panic m
end K

theorem Eff.run_switchFree {U : Type} (e : Eff) : (e.run : Prog U Unit).SwitchFree := by
  cases e <;> exact SwitchFree.lift _ rfl

theorem runEffs_switchFree {U : Type} (es : List Eff) : (runEffs es : Prog U Unit).SwitchFree := by
  induction es with
  | nil => exact SwitchFree.pure ()
  | cons e es ih => exact SwitchFree.bind (Eff.run_switchFree e) (fun _ => ih)

namespace Sem
variable {U : Type}

theorem finSnapshot_go_switchFree (ts : List Nat) (acc : List (Nat × Bool)) :
    (finSnapshot.go (U := U) ts acc).SwitchFree := by
  induction ts generalizing acc with
  | nil => exact SwitchFree.pure _
  | cons t ts ih => exact SwitchFree.bind (K.isFinished_switchFree t) (fun _ => ih _)

theorem finSnapshot_switchFree (L : Lens U SemState) : (finSnapshot L).SwitchFree :=
  SwitchFree.bind (K.getL_switchFree L) (fun _ =>
    SwitchFree.bind (finSnapshot_go_switchFree _ _) (fun _ => SwitchFree.pure _))

theorem reblockIfUnfair_switchFree (L : Lens U SemState) : (reblockIfUnfair L).SwitchFree :=
  SwitchFree.bind (finSnapshot_switchFree L) (fun _ =>
    SwitchFree.bind (K.getL_switchFree L) (fun _ => runEffs_switchFree _))

/-- `try_acquire` after its scheduling point -/
def tryAcquireBody (L : Lens U SemState) (n : Nat) : Prog U (Except TryErr Unit) := do
  let s ← K.getL L
  let c ← K.clock
  match s.acquirePermits n c with
  | .error msg => K.panic msg
  | .ok (.ok (s', pc)) =>
    K.setL L s'
    K.updateClock pc
    reblockIfUnfair L
    pure (.ok ())
  | .ok (.error e) =>
    K.updateClock s.lastAcquire
    pure (.error e)

theorem tryAcquire_eq (L : Lens U SemState) (n : Nat) :
    tryAcquire L n = Prog.op .switch (fun _ => tryAcquireBody L n) := rfl

theorem tryAcquireBody_switchFree (L : Lens U SemState) (n : Nat) : (tryAcquireBody L n).SwitchFree := by
  refine SwitchFree.bind (K.getL_switchFree L) (fun s => SwitchFree.bind K.clock_switchFree (fun c => ?_))
  cases h : s.acquirePermits n c with
  | error msg => exact K.panic_switchFree msg
  | ok r =>
    cases r with
    | ok p =>
      exact SwitchFree.bind (K.setL_switchFree L _) (fun _ =>
        SwitchFree.bind (K.updateClock_switchFree _) (fun _ =>
          SwitchFree.bind (reblockIfUnfair_switchFree L) (fun _ => SwitchFree.pure _)))
    | error e =>
      exact SwitchFree.bind (K.updateClock_switchFree _) (fun _ => SwitchFree.pure _)

/-- `release` after its scheduling point -/
def releaseBody (L : Lens U SemState) (n : Nat) : Prog U Unit :=
  if n = 0 then pure () else do
    let stopping ← K.isPanicking
    if stopping then do
      let s ← K.getL L
      K.setL L (s.releasePoison n)
    else do
    let c ← K.incClock
    let fin ← finSnapshot L
    let s ← K.getL L
    let (s', effs) := s.releasePure fin n c
    K.setL L s'
    runEffs effs

theorem release_eq (L : Lens U SemState) (n : Nat) :
    release L n = Prog.op .switch (fun _ => releaseBody L n) := rfl

theorem releaseBody_switchFree (L : Lens U SemState) (n : Nat) : (releaseBody L n).SwitchFree := by
  unfold releaseBody
  by_cases hn : n = 0
  · rw [if_pos hn]; exact SwitchFree.pure ()
  · rw [if_neg hn]
    refine SwitchFree.bind K.isPanicking_switchFree (fun stopping => ?_)
    cases stopping with
    | true =>
      exact SwitchFree.bind (K.getL_switchFree L) (fun _ => K.setL_switchFree L _)
    | false =>
      exact SwitchFree.bind K.incClock_switchFree (fun _ =>
        SwitchFree.bind (finSnapshot_switchFree L) (fun _ =>
          SwitchFree.bind (K.getL_switchFree L) (fun _ =>
            SwitchFree.bind (K.setL_switchFree L _) (fun _ => runEffs_switchFree _))))

theorem closeNoSwitch_switchFree (L : Lens U SemState) : (closeNoSwitch L).SwitchFree :=
  SwitchFree.bind (finSnapshot_switchFree L) (fun _ =>
    SwitchFree.bind (K.getL_switchFree L) (fun _ =>
      SwitchFree.bind (K.setL_switchFree L _) (fun _ => runEffs_switchFree _)))

theorem close_eq (L : Lens U SemState) : close L = Prog.op .switch (fun _ => closeNoSwitch L) := rfl

theorem newAcquire_switchFree (L : Lens U SemState) (n : Nat) : (newAcquire L n).SwitchFree :=
  SwitchFree.bind K.me_switchFree (fun _ => SwitchFree.bind K.clock_switchFree (fun _ =>
    SwitchFree.bind (K.getL_switchFree L) (fun _ =>
      SwitchFree.bind (K.setL_switchFree L _) (fun _ => SwitchFree.pure _))))

/-- `Acquire::poll` after its optional scheduling point: exactly `SemState.pollPure` -/
def pollBody (L : Lens U SemState) (wid cxTask : Nat) : Prog U PollRes := do
  let s ← K.getL L
  let me ← K.me
  let c ← K.clock
  let fin ← finSnapshot L
  match s.pollPure wid me cxTask c fin with
  | .error msg => K.panic msg
  | .ok o => do
    K.setL L o.s
    match o.pc with
    | some pc => K.updateClock pc
    | none => pure ()
    runEffs o.effs
    pure o.res

/-- `poll` = a read of the state that only decides whether to yield, at most one
`thread::switch()`, then `pollBody` -/
theorem poll_eq (L : Lens U SemState) (wid cxTask : Nat) :
    poll L wid cxTask = (do
      let s ← K.getL L
      match s.getW wid with
      | none => K.panic "poll: unknown Acquire"
      | some w =>
        if w.completed then K.panic "assertion failed: !self.completed"
        else if w.neverPolled && ((w.hasPermits || s.closed || s.avail ≥ w.n) || s.fair)
          then Prog.op .switch (fun _ => pollBody L wid cxTask)
          else pollBody L wid cxTask) := by
  unfold poll pollBody
  rfl

theorem pollBody_switchFree (L : Lens U SemState) (wid cxTask : Nat) :
    (pollBody L wid cxTask).SwitchFree := by
  refine SwitchFree.bind (K.getL_switchFree L) (fun s => SwitchFree.bind K.me_switchFree (fun me =>
    SwitchFree.bind K.clock_switchFree (fun c => SwitchFree.bind (finSnapshot_switchFree L) (fun fin => ?_))))
  cases h : s.pollPure wid me cxTask c fin with
  | error msg => exact K.panic_switchFree msg
  | ok o =>
    refine SwitchFree.bind (K.setL_switchFree L _) (fun _ => ?_)
    cases o.pc with
    | some pc =>
      exact SwitchFree.bind (K.updateClock_switchFree pc) (fun _ =>
        SwitchFree.bind (runEffs_switchFree _) (fun _ => SwitchFree.pure _))
    | none =>
      exact SwitchFree.bind (runEffs_switchFree _) (fun _ => SwitchFree.pure _)

/-- `Drop for Acquire` up to (excluding) the full `release` it may end with -/
theorem dropAcquire_eq (L : Lens U SemState) (wid : Nat) :
    dropAcquire L wid = (do
      let s ← K.getL L
      match s.getW wid with
      | none => pure ()
      | some w =>
        if w.isQueued then do
          let fin ← finSnapshot L
          match s.removeWaiterPure fin wid with
          | .error msg => K.panic msg
          | .ok (s', effs) => do K.setL L (s'.dropW wid); runEffs effs
        else if w.hasPermits && !w.completed then do
          K.setL L (s.dropW wid)
          Prog.op .switch (fun _ => releaseBody L w.n)
        else K.setL L (s.dropW wid)) := rfl

end Sem
end ShuttleModel
