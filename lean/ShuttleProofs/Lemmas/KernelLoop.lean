import ShuttleProofs.Lemmas.KernelSegInv
/-!
# Kernel lemmas, part 5: one iteration of `runLoop` as a function, reachability, induction principles

* `loopStep S segFuel st : Result ⊕ ExecState` — the body of `run_to_completion`'s loop; `runLoop_succ` shows
  `runLoop` is its iteration.
* `ReachN n st st'` / `Reach st st'` — loop-head state `st'` is reached from loop-head `st` after `n` iterations.
* `runLoop_reach` — every result of `runLoop` is produced by a terminal `loopStep` at a reachable loop head
  (or is `outOfFuel` at a reachable loop head); `runLoop_of_reach` is the converse.
-/

namespace ShuttleProofs.Kernel
open ShuttleModel

variable {P : Program} {σ : Type}

/-- state after `schedule()` answered `ok k s ev`: `advance_to_next_task`, scheduler state, event logged -/
def afterSched (st : ExecState P σ) (k : Kernel) (s : σ) (ev : Option Ev) : ExecState P σ :=
  { st with k := k.advance, sch := s, log := match ev with | some e => st.log.push e | none => st.log }

/-- `Stopped` because of the `ContinueAfter` bound rather than a `None` answer -/
def byBound (k : Kernel) (ev : Option Ev) : Bool :=
  match k.maxSteps with
  | .continueAfter n => k.stepBoundExceeded n && (match ev with | none => true | some _ => false)
  | _ => false

/-- what `run_to_completion` does with the end of task `t`'s segment -/
def finishSeg (t : Nat) : SegEnd P σ → Result P σ ⊕ ExecState P σ
  | .atSwitch st' => .inr st'
  | .returned st' =>
    match st'.k.modTask t (·.finish) with
    | .ok k' => .inr { st' with k := k' }
    | .error e => .inl ⟨.panic t e, st'⟩
  | .panicked msg st' => .inl ⟨.panic t msg, st'⟩
  | .schedPanic msg st' => .inl ⟨.schedPanic msg, st'⟩
  | .outOfFuel st' => .inl ⟨.outOfFuel, st'⟩
  | .aborted msg st' => .inl ⟨.abort msg, st'⟩

/-- the part of an iteration after a successful `schedule()` -/
def afterOk (S : Scheduler σ) (segFuel : Nat) (st1 : ExecState P σ) (ev : Option Ev) :
    Result P σ ⊕ ExecState P σ :=
  match st1.k.current with
  | .none => .inl ⟨.schedulingError, st1⟩
  | .stopped => .inl ⟨if byBound st1.k ev then .abandoned else .stopped, st1⟩
  | .finished =>
    .inl (if st1.k.unfinishedAttached then ⟨.deadlock st1.k.deadlockList, st1⟩ else ⟨.ok, st1⟩)
  | .some t =>
    match st1.conts[t]? with
    | none => .inl ⟨.schedulingError, st1⟩
    | some p => finishSeg t (runSegment S t segFuel st1 p)

/-- one iteration of the loop of `run_to_completion` -/
def loopStep (S : Scheduler σ) (segFuel : Nat) (st : ExecState P σ) : Result P σ ⊕ ExecState P σ :=
  match st.k.schedule S st.sch with
  | .err .stepBoundExceeded k s =>
    .inl ⟨.stepBoundFail (match k.maxSteps with | .failAfter n => n | _ => 0), { st with k := k, sch := s }⟩
  | .err _ k s => .inl ⟨.schedulingError, { st with k := k, sch := s }⟩
  | .schedPanic msg k s => .inl ⟨.schedPanic msg, { st with k := k, sch := s }⟩
  | .ok k s ev => afterOk S segFuel (afterSched st k s ev) ev

theorem runLoop_zero (S : Scheduler σ) (segFuel : Nat) (st : ExecState P σ) :
    runLoop S segFuel 0 st = ⟨.outOfFuel, st⟩ := by
  rw [runLoop]

theorem runLoop_succ (S : Scheduler σ) (segFuel fuel : Nat) (st : ExecState P σ) :
    runLoop S segFuel (fuel + 1) st =
      match loopStep S segFuel st with
      | .inl r => r
      | .inr st' => runLoop S segFuel fuel st' := by
  rw [runLoop]
  unfold loopStep
  cases hs : st.k.schedule S st.sch with
  | err e k s => cases e <;> rfl
  | schedPanic msg k s => rfl
  | ok k s ev =>
    simp only
    unfold afterOk
    cases hc : k.advance.current with
    | none => simp only [afterSched, hc]; rfl
    | stopped => simp only [afterSched, hc]; rfl
    | finished =>
      simp only [afterSched, hc]
      rfl
    | some t =>
      simp only [afterSched, hc]
      cases hp : st.conts[t]? with
      | none => rfl
      | some p =>
        simp only
        generalize runSegment S t segFuel _ p = e
        cases e with
        | returned st' =>
          simp only [finishSeg]
          generalize (st'.k.modTask t fun x => x.finish) = m
          cases m <;> rfl
        | _ => rfl

/-! ### reachability of loop heads -/

inductive ReachN (S : Scheduler σ) (segFuel : Nat) : Nat → ExecState P σ → ExecState P σ → Prop
  | refl (st : ExecState P σ) : ReachN S segFuel 0 st st
  | head {n : Nat} {st st' st'' : ExecState P σ} :
      loopStep S segFuel st = .inr st' → ReachN S segFuel n st' st'' → ReachN S segFuel (n + 1) st st''

/-- loop head `st'` is reached from loop head `st` -/
def Reach (S : Scheduler σ) (segFuel : Nat) (st st' : ExecState P σ) : Prop := ∃ n, ReachN S segFuel n st st'

theorem ReachN.tail {S : Scheduler σ} {segFuel n : Nat} {st st' st'' : ExecState P σ}
    (h : ReachN S segFuel n st st') (hs : loopStep S segFuel st' = .inr st'') :
    ReachN S segFuel (n + 1) st st'' := by
  induction h with
  | refl st => exact .head hs (.refl _)
  | head h1 _ ih => exact .head h1 (ih hs)

theorem Reach.refl (S : Scheduler σ) (segFuel : Nat) (st : ExecState P σ) : Reach S segFuel st st :=
  ⟨0, .refl st⟩

theorem Reach.tail {S : Scheduler σ} {segFuel : Nat} {st st' st'' : ExecState P σ}
    (h : Reach S segFuel st st') (hs : loopStep S segFuel st' = .inr st'') : Reach S segFuel st st'' := by
  obtain ⟨n, h⟩ := h
  exact ⟨n + 1, h.tail hs⟩

/-- invariants propagate along `ReachN` -/
theorem ReachN.invariant {S : Scheduler σ} {segFuel : Nat} (Inv : ExecState P σ → Prop)
    (hstep : ∀ a b, Inv a → loopStep S segFuel a = .inr b → Inv b)
    {n : Nat} {st st' : ExecState P σ} (h : ReachN S segFuel n st st') (h0 : Inv st) : Inv st' := by
  induction h with
  | refl st => exact h0
  | head h1 _ ih => exact ih (hstep _ _ h0 h1)

theorem Reach.invariant {S : Scheduler σ} {segFuel : Nat} (Inv : ExecState P σ → Prop)
    (hstep : ∀ a b, Inv a → loopStep S segFuel a = .inr b → Inv b)
    {st st' : ExecState P σ} (h : Reach S segFuel st st') (h0 : Inv st) : Inv st' := by
  obtain ⟨n, h⟩ := h
  exact h.invariant Inv hstep h0

/-- **Every result of `runLoop` comes from a reachable loop head**: either the loop fuel ran out there, or
the iteration started there was terminal and produced the result. -/
theorem runLoop_reach (S : Scheduler σ) (segFuel : Nat) :
    ∀ (fuel : Nat) (st : ExecState P σ), ∃ n stf, ReachN S segFuel n st stf ∧
      ((n = fuel ∧ runLoop S segFuel fuel st = ⟨.outOfFuel, stf⟩) ∨
       (n < fuel ∧ loopStep S segFuel stf = .inl (runLoop S segFuel fuel st)))
  | 0, st => ⟨0, st, .refl st, Or.inl ⟨rfl, runLoop_zero S segFuel st⟩⟩
  | fuel + 1, st => by
    rw [runLoop_succ]
    cases h : loopStep S segFuel st with
    | inl r => exact ⟨0, st, .refl st, Or.inr ⟨Nat.succ_pos _, h⟩⟩
    | inr st' =>
      obtain ⟨n, stf, hr, hc⟩ := runLoop_reach S segFuel fuel st'
      refine ⟨n + 1, stf, .head h hr, ?_⟩
      rcases hc with ⟨h1, h2⟩ | ⟨h1, h2⟩
      · exact Or.inl ⟨by omega, h2⟩
      · exact Or.inr ⟨by omega, h2⟩

/-- conversely, a terminal iteration at a loop head reached after `n` iterations determines the result of
every run with more than `n` units of loop fuel -/
theorem runLoop_of_reach {S : Scheduler σ} {segFuel n : Nat} {st stf : ExecState P σ} {r : Result P σ}
    (h : ReachN S segFuel n st stf) (ht : loopStep S segFuel stf = .inl r) :
    ∀ fuel, n < fuel → runLoop S segFuel fuel st = r := by
  induction h with
  | refl st =>
    intro fuel hf
    obtain ⟨f, rfl⟩ : ∃ f, fuel = f + 1 := ⟨fuel - 1, by omega⟩
    rw [runLoop_succ, ht]
  | head h1 _ ih =>
    intro fuel hf
    obtain ⟨f, rfl⟩ : ∃ f, fuel = f + 1 := ⟨fuel - 1, by omega⟩
    rw [runLoop_succ, h1]
    exact ih ht f (by omega)

/-- with too little loop fuel the run ends `outOfFuel` at the loop head reached so far -/
theorem runLoop_outOfFuel_of_reach {S : Scheduler σ} {segFuel n : Nat} {st stf : ExecState P σ}
    (h : ReachN S segFuel n st stf) : runLoop S segFuel n st = ⟨.outOfFuel, stf⟩ := by
  induction h with
  | refl st => exact runLoop_zero S segFuel st
  | head h1 _ ih => rw [runLoop_succ, h1]; exact ih

/-- result-level induction principle -/
theorem runLoop_induct {S : Scheduler σ} {segFuel : Nat} (Inv : ExecState P σ → Prop)
    (Fin : Result P σ → Prop)
    (hstep : ∀ a b, Inv a → loopStep S segFuel a = .inr b → Inv b)
    (hfin : ∀ a r, Inv a → loopStep S segFuel a = .inl r → Fin r)
    (hfuel : ∀ a, Inv a → Fin ⟨.outOfFuel, a⟩)
    (fuel : Nat) (st : ExecState P σ) (h0 : Inv st) : Fin (runLoop S segFuel fuel st) := by
  obtain ⟨n, stf, hr, hc⟩ := runLoop_reach S segFuel fuel st
  have hi : Inv stf := hr.invariant Inv hstep h0
  rcases hc with ⟨_, h2⟩ | ⟨_, h2⟩
  · rw [h2]; exact hfuel stf hi
  · exact hfin stf _ hi h2

/-! ### the initial state -/

/-- the state `Execution::run` starts the loop in -/
def initState (P : Program) {σ : Type} (ms : MaxSteps) (seed : Nat) (s : σ) : ExecState P σ :=
  { k := (({ seed := seed, maxSteps := ms } : Kernel).spawnTask none).2, u := P.init,
    conts := [P.bodies 0], sch := s }

theorem execute_eq (P : Program) {σ : Type} (S : Scheduler σ) (ms : MaxSteps) (seed : Nat) (s : σ)
    (fuel segFuel : Nat) :
    execute P S ms seed s fuel segFuel = runLoop S segFuel fuel (initState P ms seed s) := rfl

end ShuttleProofs.Kernel
