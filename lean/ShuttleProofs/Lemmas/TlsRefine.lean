import ShuttleModel.Lang
import ShuttleProofs.Lemmas.Storage
/-!
# Lang.lean's thread-local fields (`Local.tlsSlots`, `Local.tlsOrder`) refine `Storage.StorageMap`

`tlsTryWith` / `tlsPopLoop` (Lang.lean) manipulate a task's TLS as two lists; this file shows that their data
steps are `Storage.tryWith` / `Storage.pop` on the `StorageMap Unit` those lists denote (values are `()`:
the harness's thread-local values carry no data, only a destructor).
-/

namespace ShuttleProofs.TlsRefine
open ShuttleModel ShuttleModel.Storage ShuttleModel.Storage.StorageMap

def key (oi : Nat) : StorageKey := ⟨oi, 0⟩

/-- the `StorageMap` denoted by a task's TLS fields -/
def toStorage (l : Local) : StorageMap Unit :=
  { locals := l.tlsSlots.map (fun p => (key p.1, if p.2 then some () else none)),
    order := l.tlsOrder.map key }

/-- the data step of `tlsTryWith`: result string and new TLS fields -/
def tlsAccess (l : Local) (oi : Nat) : String × Local :=
  match l.tlsSlots.find? (·.1 == oi) with
  | some (_, true) => ("seen", l)
  | some (_, false) => ("destroyed", l)
  | none => ("init", { l with tlsSlots := l.tlsSlots ++ [(oi, true)], tlsOrder := l.tlsOrder ++ [oi] })

/-- `tlsTryWith` is: read the task's `Local`, apply `tlsAccess`, write back when a slot was created -/
theorem tlsTryWith_eq (k oi : Nat) :
    tlsTryWith k oi =
      Prog.bind (K.getL (Heap.localL k)) (fun l =>
        match l.tlsSlots.find? (·.1 == oi) with
        | some (_, true) => Prog.pure (tlsAccess l oi).1
        | some (_, false) => Prog.pure (tlsAccess l oi).1
        | none => Prog.bind (K.setL (Heap.localL k) (tlsAccess l oi).2) (fun _ => Prog.pure (tlsAccess l oi).1)) := by
  unfold tlsTryWith
  show Prog.bind _ _ = Prog.bind _ _
  congr 1
  funext l
  unfold tlsAccess
  cases h : l.tlsSlots.find? (·.1 == oi) with
  | none => rfl
  | some p => obtain ⟨a, b⟩ := p; cases b <;> rfl

theorem lookup_toStorage (l : Local) (oi : Nat) :
    (toStorage l).lookup (key oi) =
      (l.tlsSlots.find? (·.1 == oi)).map (fun p => if p.2 then some () else none) := by
  unfold lookup toStorage
  simp only
  induction l.tlsSlots with
  | nil => rfl
  | cons hd tl ih =>
    by_cases e : hd.1 = oi
    · simp [List.find?_cons, e, key]
    · have e' : (key hd.1 == key oi) = false := by
        simp only [key, beq_eq_false_iff_ne, ne_eq, StorageKey.mk.injEq, and_true]; exact e
      have e'' : (hd.1 == oi) = false := by simpa using e
      simp only [List.map_cons, List.find?_cons, e', e'']
      exact ih

/-- **`tlsTryWith` refines `LocalKey::try_with`**: `"seen"` = the slot is alive, `"destroyed"` = tombstone →
`AccessError` (map unchanged in both cases), `"init"` = never initialised → the slot is created at the end of
the destruction order. -/
theorem tlsAccess_refines (l : Local) (oi : Nat) :
    ((tlsAccess l oi).1 = "seen" ∧ (toStorage l).get (key oi) = some (.ok ()) ∧ (tlsAccess l oi).2 = l) ∨
    ((tlsAccess l oi).1 = "destroyed" ∧ (toStorage l).get (key oi) = some (.error .alreadyDestructed) ∧
      (tlsAccess l oi).2 = l) ∨
    ((tlsAccess l oi).1 = "init" ∧ (toStorage l).get (key oi) = none ∧
      toStorage (tlsAccess l oi).2 = (toStorage l).pushed (key oi) ()) := by
  have hl := lookup_toStorage l oi
  unfold tlsAccess
  cases h : l.tlsSlots.find? (·.1 == oi) with
  | none =>
    right; right
    rw [h] at hl
    refine ⟨rfl, by simp [StorageMap.get, hl], ?_⟩
    simp [toStorage, pushed, key]
  | some p =>
    obtain ⟨a, b⟩ := p
    rw [h] at hl
    cases b with
    | true => left; exact ⟨rfl, by simp [StorageMap.get, hl], rfl⟩
    | false => right; left; exact ⟨rfl, by simp [StorageMap.get, hl], rfl⟩

/-- the data step of one round of `tlsPopLoop` -/
def tlsPopStep (l : Local) : Option (Nat × Local) :=
  match l.tlsOrder with
  | [] => none
  | k :: rest =>
    some (k, { l with tlsOrder := rest,
                      tlsSlots := l.tlsSlots.map (fun p => if p.1 == k then (k, false) else p) })

/-- **one round of `tlsPopLoop` refines `StorageMap::pop`**: same emptiness test on the destruction order, same
key, the slot becomes a tombstone, the order loses its head -/
theorem tlsPopStep_refines (l : Local) :
    (l.tlsOrder = [] ∧ tlsPopStep l = none ∧ (toStorage l).pop = .empty) ∨
    (∃ k rest l', l.tlsOrder = k :: rest ∧ tlsPopStep l = some (k, l') ∧
      toStorage l' = { locals := tombstone (toStorage l).locals (key k), order := (toStorage l).order.tail }) := by
  unfold tlsPopStep
  cases h : l.tlsOrder with
  | nil => exact .inl ⟨rfl, rfl, by simp [pop, toStorage, h]⟩
  | cons k rest =>
    refine .inr ⟨k, rest, _, rfl, rfl, ?_⟩
    simp only [toStorage, h, List.map_cons, List.tail_cons, tombstone, List.map_map]
    congr 1
    apply List.map_congr_left
    intro p _
    by_cases e : p.1 = k
    · simp [e, key]
    · have hk : key p.1 ≠ key k := by
        simp only [key, ne_eq, StorageKey.mk.injEq, and_true]; exact e
      simp [e, hk]

end ShuttleProofs.TlsRefine
