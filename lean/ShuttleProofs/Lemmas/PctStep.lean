import ShuttleProofs.Lemmas.PctInv

/-!
# Specification lemmas for the pieces of `ShuttleModel.Pct.nextTask`
-/

namespace ShuttleProofs.Pct
open ShuttleModel ShuttleModel.Pct

/-! ## `listMax`, `minByKey` -/

theorem foldl_max_spec : ∀ (xs : List Nat) (x : Nat),
    (xs.foldl max x = x ∨ xs.foldl max x ∈ xs) ∧ x ≤ xs.foldl max x ∧ ∀ t ∈ xs, t ≤ xs.foldl max x := by
  intro xs
  induction xs with
  | nil => intro x; simp
  | cons y ys ih =>
    intro x
    simp only [List.foldl_cons]
    obtain ⟨h1, h2, h3⟩ := ih (max x y)
    refine ⟨?_, by omega, ?_⟩
    · rcases h1 with h1 | h1
      · rw [h1]
        by_cases hxy : y ≤ x
        · left; omega
        · right; simp; left; omega
      · right; simp [h1]
    · intro t ht
      rcases List.mem_cons.1 ht with rfl | ht
      · omega
      · exact h3 t ht

theorem listMax_spec {xs : List Nat} {mx : Nat} (h : listMax xs = some mx) : mx ∈ xs ∧ ∀ t ∈ xs, t ≤ mx := by
  cases xs with
  | nil => simp [listMax] at h
  | cons x xs =>
    simp only [listMax, Option.some.injEq] at h
    obtain ⟨h1, h2, h3⟩ := foldl_max_spec xs x
    rw [h] at h1 h2 h3
    refine ⟨?_, ?_⟩
    · rcases h1 with h1 | h1
      · simp [h1]
      · simp [h1]
    · intro t ht
      rcases List.mem_cons.1 ht with rfl | ht
      · exact h2
      · exact h3 t ht

theorem listMax_isSome {xs : List Nat} (h : xs ≠ []) : ∃ mx, listMax xs = some mx := by
  cases xs with
  | nil => exact absurd rfl h
  | cons x xs => exact ⟨_, rfl⟩

/-- Rank of an `Option<&usize>` key in Rust's `Ord` (`None < Some(_)`). -/
def rank : Option Nat → Nat
  | none => 0
  | some a => a + 1

theorem keyLt_iff (a b : Option Nat) : keyLt a b = true ↔ rank a < rank b := by
  cases a <;> cases b <;> simp [keyLt, rank]

theorem foldl_minBy_spec (key : Nat → Option Nat) : ∀ (xs : List Nat) (x : Nat),
    let r := xs.foldl (fun best y => if keyLt (key y) (key best) then y else best) x
    (r = x ∨ r ∈ xs) ∧ rank (key r) ≤ rank (key x) ∧ ∀ t ∈ xs, rank (key r) ≤ rank (key t) := by
  intro xs
  induction xs with
  | nil => intro x; simp
  | cons y ys ih =>
    intro x
    simp only [List.foldl_cons]
    obtain ⟨h1, h2, h3⟩ := ih (if keyLt (key y) (key x) then y else x)
    by_cases hlt : keyLt (key y) (key x) = true
    · have hr := (keyLt_iff _ _).1 hlt
      simp only [hlt, if_true] at h1 h2 h3 ⊢
      refine ⟨?_, by omega, ?_⟩
      · rcases h1 with h1 | h1
        · right; simp [h1]
        · right; simp [h1]
      · intro t ht
        rcases List.mem_cons.1 ht with rfl | ht
        · exact h2
        · exact h3 t ht
    · have hr : ¬ rank (key y) < rank (key x) := fun h => hlt ((keyLt_iff _ _).2 h)
      simp only [hlt, Bool.false_eq_true, ↓reduceIte] at h1 h2 h3 ⊢
      refine ⟨?_, h2, ?_⟩
      · rcases h1 with h1 | h1
        · left; exact h1
        · right; simp [h1]
      · intro t ht
        rcases List.mem_cons.1 ht with rfl | ht
        · omega
        · exact h3 t ht

/-- `min_by_key` returns an offered element whose key is minimal. -/
theorem minByKey_spec {key : Nat → Option Nat} {xs : List Nat} {c : Nat} (h : minByKey key xs = some c) :
    c ∈ xs ∧ ∀ t ∈ xs, rank (key c) ≤ rank (key t) := by
  cases xs with
  | nil => simp [minByKey] at h
  | cons x xs =>
    simp only [minByKey, Option.some.injEq] at h
    obtain ⟨h1, h2, h3⟩ := foldl_minBy_spec key xs x
    rw [h] at h1 h2 h3
    refine ⟨?_, ?_⟩
    · rcases h1 with h1 | h1
      · simp [h1]
      · simp [h1]
    · intro t ht
      rcases List.mem_cons.1 ht with rfl | ht
      · exact h2
      · exact h3 t ht

theorem minByKey_isSome {key : Nat → Option Nat} {xs : List Nat} (h : xs ≠ []) : ∃ c, minByKey key xs = some c := by
  cases xs with
  | nil => exact absurd rfl h
  | cons x xs => exact ⟨_, rfl⟩

/-! ## The new-task loop (pct.rs:118-132) -/

/-- The effect of the new-task loop on `(priorities, next_priority)`, as a sequence of elementary updates: each new
    task `len` either takes the fresh priority `np`, or an existing task `t ≥ 1` is moved to the fresh priority `np` and
    the new task inherits `t`'s old priority. -/
inductive NewTaskInserts : List (Nat × Nat) → Nat → List (Nat × Nat) → Nat → Prop
  | done (m np) : NewTaskInserts m np m np
  | fresh {m np m' np'} :
      NewTaskInserts (mapInsert m m.length np) (np + 1) m' np' → NewTaskInserts m np m' np'
  | swap {m np m' np'} (t old : Nat) : 1 ≤ t → t < m.length → mapGet m t = some old →
      NewTaskInserts (mapInsert (mapInsert m t np) m.length old) (np + 1) m' np' → NewTaskInserts m np m' np'

/-- One iteration: the invariant is kept and the update is one of the two elementary ones. -/
theorem newTaskStep_spec {st st' : LoopState} (hI : MInv st.priorities st.nextPriority)
    (h : newTaskStep st st.priorities.length = .ok st') :
    st'.nextPriority = st.nextPriority + 1 ∧
    (st'.priorities = mapInsert st.priorities st.priorities.length st.nextPriority ∨
      ∃ t old, 1 ≤ t ∧ t < st.priorities.length ∧ mapGet st.priorities t = some old ∧
        st'.priorities = mapInsert (mapInsert st.priorities t st.nextPriority) st.priorities.length old) := by
  unfold newTaskStep at h
  split at h
  · cases h
  · split at h
    · cases h
    · next r g hr =>
      simp only at h
      by_cases ht : r + 1 = st.priorities.length
      · simp only [ht, if_true] at h
        split at h
        · cases h
        · cases h; exact ⟨rfl, Or.inl rfl⟩
      · simp only [ht, if_false] at h
        cases hg : mapGet st.priorities (r + 1) with
        | none => simp [hg] at h
        | some old =>
          simp only [hg] at h
          split at h
          · cases h
          · cases h
            exact ⟨rfl, Or.inr ⟨r + 1, old, by omega, mapGet_lt hI.keys hg, hg, rfl⟩⟩

theorem newTaskLoop_spec : ∀ (count : Nat) (st st' : LoopState), MInv st.priorities st.nextPriority →
    newTaskLoop count st.priorities.length st = .ok st' →
    NewTaskInserts st.priorities st.nextPriority st'.priorities st'.nextPriority ∧
    MInv st'.priorities st'.nextPriority ∧
    st'.priorities.length = st.priorities.length + count ∧
    st'.nextPriority = st.nextPriority + count := by
  intro count
  induction count with
  | zero =>
    intro st st' hI h
    simp only [newTaskLoop, Except.ok.injEq] at h; subst h
    exact ⟨.done _ _, hI, rfl, rfl⟩
  | succ n ih =>
    intro st st' hI h
    simp only [newTaskLoop] at h
    cases hs : newTaskStep st st.priorities.length with
    | error e => simp [hs] at h
    | ok st1 =>
      simp only [hs] at h
      obtain ⟨hnp, hcase⟩ := newTaskStep_spec hI hs
      rcases hcase with hp | ⟨t, old, ht1, htl, hg, hp⟩
      · have hI1 : MInv st1.priorities st1.nextPriority := by rw [hp, hnp]; exact hI.insert_new_fresh
        have hlen : st1.priorities.length = st.priorities.length + 1 := by
          rw [hp]; exact length_insert_end hI.keys _
        rw [← hlen] at h
        obtain ⟨a, b, c, d⟩ := ih st1 st' hI1 h
        refine ⟨?_, b, by omega, by omega⟩
        apply NewTaskInserts.fresh
        rw [← hp, ← hnp]; exact a
      · have hI1 : MInv st1.priorities st1.nextPriority := by rw [hp, hnp]; exact hI.insert_new_swap hg
        have hlen : st1.priorities.length = st.priorities.length + 1 := by
          rw [hp]
          have := length_insert_end (hI.insert_known htl).keys old
          rw [length_insert_lt hI.keys htl] at this
          exact this
        rw [← hlen] at h
        obtain ⟨a, b, c, d⟩ := ih st1 st' hI1 h
        refine ⟨?_, b, by omega, by omega⟩
        apply NewTaskInserts.swap t old ht1 htl hg
        rw [← hp, ← hnp]; exact a

/-! ## The change-point block (pct.rs:141-154) -/

/-- The condition under which `next_task` demotes `current` (pct.rs:141-142). -/
def DemoteCond (s : PctState) (numRunnable : Nat) (isYielding : Bool) : Prop :=
  numRunnable > 1 ∧ (s.steps ∈ s.changePoints ∨ isYielding = true)

instance (s n y) : Decidable (DemoteCond s n y) := by unfold DemoteCond; infer_instance

/-- pct.rs:150-153 `self.steps += 1; if self.steps > self.max_steps { self.max_steps = self.steps; }`. -/
def bump (s : PctState) : PctState :=
  let s := { s with steps := s.steps + 1 }
  if s.steps > s.maxSteps then { s with maxSteps := s.steps } else s

theorem bump_spec (s : PctState) :
    (bump s).maxIterations = s.maxIterations ∧ (bump s).maxDepth = s.maxDepth ∧ (bump s).iterations = s.iterations ∧
    (bump s).changePoints = s.changePoints ∧ (bump s).rng = s.rng ∧ (bump s).data = s.data ∧
    (bump s).steps = s.steps + 1 ∧ (bump s).maxSteps = max s.maxSteps (s.steps + 1) ∧
    (bump s).priorities = s.priorities ∧ (bump s).nextPriority = s.nextPriority := by
  unfold bump
  simp only
  split
  · refine ⟨rfl, rfl, rfl, rfl, rfl, rfl, rfl, ?_, rfl, rfl⟩; simp only; omega
  · refine ⟨rfl, rfl, rfl, rfl, rfl, rfl, rfl, ?_, rfl, rfl⟩; simp only; omega

theorem changeStep_spec {s s' : PctState} {n : Nat} {current : Option Nat} {y : Bool}
    (h : changeStep s n current y = .ok s') :
    s'.maxIterations = s.maxIterations ∧ s'.maxDepth = s.maxDepth ∧ s'.iterations = s.iterations ∧
    s'.changePoints = s.changePoints ∧ s'.rng = s.rng ∧ s'.data = s.data ∧
    s'.steps = (if n > 1 then s.steps + 1 else s.steps) ∧
    s'.maxSteps = (if n > 1 then max s.maxSteps (s.steps + 1) else s.maxSteps) ∧
    (DemoteCond s n y →
      ∃ cur, current = some cur ∧ (mapGet s.priorities cur).isSome ∧
        s'.priorities = mapInsert s.priorities cur s.nextPriority ∧ s'.nextPriority = s.nextPriority + 1) ∧
    (¬ DemoteCond s n y → s'.priorities = s.priorities ∧ s'.nextPriority = s.nextPriority) := by
  unfold changeStep at h
  by_cases hn : n > 1
  · simp only [hn, if_true] at h ⊢
    by_cases hc : (s.changePoints.contains s.steps || y) = true
    · have hd : DemoteCond s n y := ⟨hn, by simpa using hc⟩
      simp only [hc, if_true] at h
      cases current with
      | none => simp at h
      | some cur =>
        simp only at h
        cases hg : mapGet s.priorities cur with
        | none => simp [hg] at h
        | some old =>
          simp only [hg, Except.ok.injEq] at h
          obtain ⟨b1, b2, b3, b4, b5, b6, b7, b8, b9, b10⟩ :=
            bump_spec { s with priorities := mapInsert s.priorities cur s.nextPriority,
                               nextPriority := s.nextPriority + 1 }
          have h : bump { s with priorities := mapInsert s.priorities cur s.nextPriority,
                                 nextPriority := s.nextPriority + 1 } = s' := h
          rw [h] at b1 b2 b3 b4 b5 b6 b7 b8 b9 b10
          exact ⟨b1, b2, b3, b4, b5, b6, b7, b8,
            fun _ => ⟨cur, rfl, by simp [hg], b9, b10⟩, fun hnd => absurd hd hnd⟩
    · have hd : ¬ DemoteCond s n y := by
        rintro ⟨_, h2⟩; apply hc; simpa using h2
      simp only [hc] at h
      simp only [Bool.false_eq_true, if_false, Except.ok.injEq] at h
      obtain ⟨b1, b2, b3, b4, b5, b6, b7, b8, b9, b10⟩ := bump_spec s
      have h : bump s = s' := h
      rw [h] at b1 b2 b3 b4 b5 b6 b7 b8 b9 b10
      exact ⟨b1, b2, b3, b4, b5, b6, b7, b8, fun hd' => absurd hd' hd, fun _ => ⟨b9, b10⟩⟩
  · have hd : ¬ DemoteCond s n y := fun h => hn h.1
    simp only [hn, if_false, Except.ok.injEq] at h ⊢
    subst h
    exact ⟨rfl, rfl, rfl, rfl, rfl, rfl, rfl, rfl, fun h => absurd h hd, fun _ => ⟨rfl, rfl⟩⟩

/-! ## Decomposition of `nextTask` -/

theorem nextTask_ok {s s' : PctState} {runnable : List Nat} {current : Option Nat} {y : Bool} {c : Nat}
    (h : nextTask s runnable current y = .ok c s') :
    ∃ mx st, listMax runnable = some mx ∧
      newTaskLoop (1 + mx - s.priorities.length) s.priorities.length
        { priorities := s.priorities, nextPriority := s.nextPriority, rng := s.rng } = .ok st ∧
      changeStep { s with priorities := st.priorities, nextPriority := st.nextPriority, rng := st.rng }
        runnable.length current y = .ok s' ∧
      minByKey (mapGet s'.priorities) runnable = some c := by
  unfold nextTask at h
  cases hm : listMax runnable with
  | none => simp [hm] at h
  | some mx =>
    simp only [hm] at h
    cases hl : newTaskLoop (1 + mx - s.priorities.length) s.priorities.length
        { priorities := s.priorities, nextPriority := s.nextPriority, rng := s.rng } with
    | error e => simp [hl] at h
    | ok st =>
      simp only [hl] at h
      cases hc : changeStep { s with priorities := st.priorities, nextPriority := st.nextPriority, rng := st.rng }
          runnable.length current y with
      | error e => simp [hc] at h
      | ok s1 =>
        simp only [hc] at h
        cases hk : minByKey (mapGet s1.priorities) runnable with
        | none => simp [hk] at h
        | some c' =>
          simp only [hk, Next.ok.injEq] at h
          obtain ⟨rfl, rfl⟩ := h
          exact ⟨mx, st, rfl, hl, hc, hk⟩

end ShuttleProofs.Pct
