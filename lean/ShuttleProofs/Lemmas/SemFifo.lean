import ShuttleProofs.Lemmas.SemStep
/-
  Order of service: what `unblock_waiters_from_front` does to the prefix of the queue it
  consumes, and how the queue evolves under every step.
-/
namespace ShuttleModel
namespace SemLts
open Sem (PollOut)

/-- the waiter as `unblock_waiters_from_front` leaves it when it grants the permits -/
def grantedW (w : Waiter) : Waiter := { w with isQueued := false, hasPermits := true, waker := none }
/-- … when it discards it as stale -/
def staleW (w : Waiter) : Waiter := { w with isQueued := false, waker := none }

/-- what happened to a waiter taken off the front of the queue: `s` before, `r` after, `effs` the
kernel effects of the whole scan -/
inductive Served (fin : Nat → Bool) (s r : SemState) (effs : List Eff) (wid : Nat) : Prop
  /-- its task has finished: dropped without consuming permits, nobody is woken -/
  | stale (w : Waiter) (hw : s.getW wid = some w) (hf : fin w.taskId = true)
      (hr : r.getW wid = some (staleW w))
  /-- granted: marked `has_permits`, its task (the latest poller) is unblocked and its waker woken -/
  | granted (w : Waiter) (hw : s.getW wid = some w) (hf : fin w.taskId = false)
      (hr : r.getW wid = some (grantedW w))
      (hu : Eff.unblock w.taskId ∈ effs)
      (hwk : ∀ t, w.waker = some t → Eff.wake t ∈ effs)

theorem unblockFront_served (fin : Nat → Bool) (q : List Nat) (s : SemState) (nx : Nat)
    (h : TQ q s.table nx) :
    ∃ pre, q = pre ++ (SemState.unblockFront fin q s).1.queue ∧
      ∀ wid ∈ pre, Served fin s (SemState.unblockFront fin q s).1 (SemState.unblockFront fin q s).2 wid := by
  induction q generalizing s with
  | nil => exact ⟨[], by simp [SemState.unblockFront], by simp⟩
  | cons wid rest ih =>
    obtain ⟨w, hw, _⟩ := h.tget_of_mem_queue (List.mem_cons_self ..)
    have hwid : w.wid = wid := (tget_some_mem hw).2
    have hnotin : wid ∉ rest := (List.nodup_cons.mp h.nodupQ).1
    rw [SemState.unblockFront]
    rw [getW_eq, hw]
    simp only
    by_cases hf : fin w.taskId = true
    · rw [if_pos hf]
      have h1 : TQ rest (s.setW (staleW w)).table nx := h.pop hw hwid rfl
      obtain ⟨pre, hp, hs⟩ := ih (s.setW (staleW w)) h1
      have sp := unblockFront_spec fin rest (s.setW (staleW w))
      refine ⟨wid :: pre, congrArg (List.cons wid) hp, ?_⟩
      intro wid' hm
      rcases List.mem_cons.mp hm with e | hm'
      · subst e
        refine .stale w hw hf ?_
        refine (sp.other _ hnotin).trans ?_
        have := tget_tset_self (T := s.table) (w := staleW w) (old := w) (by simpa [staleW, hwid] using hw)
        simpa [staleW, hwid] using this
      · have hne : wid' ≠ wid := by
          intro e; apply hnotin; rw [← e, hp]; exact List.mem_append_left _ hm'
        have hsame : (s.setW (staleW w)).getW wid' = s.getW wid' :=
          tget_tset_ne (by simpa [staleW, hwid] using hne)
        cases hs wid' hm' with
        | stale w' hw' hf' hr' => exact .stale w' (hsame ▸ hw') hf' hr'
        | granted w' hw' hf' hr' hu' hwk' => exact .granted w' (hsame ▸ hw') hf' hr' hu' hwk'
    · rw [if_neg hf]
      have hf' : fin w.taskId = false := by simpa using hf
      by_cases hfit : w.n ≤ s.avail
      · rw [if_pos hfit]
        cases hpa : s.paAcquire w.n w.clock with
        | none => exact absurd (paAcquire_none hpa) (by omega)
        | some r =>
          obtain ⟨s', c⟩ := r
          simp only
          obtain ⟨fr, _, _⟩ := paAcquire_some hpa
          have hw' : tget s'.table wid = some w := by rw [fr.table]; exact hw
          have h0 : TQ (wid :: rest) s'.table nx := by rw [fr.table]; exact h
          have h1 : TQ rest (s'.setW (grantedW w)).table nx := h0.pop hw' hwid rfl
          obtain ⟨pre, hp, hs⟩ := ih (s'.setW (grantedW w)) h1
          have sp := unblockFront_spec fin rest (s'.setW (grantedW w))
          refine ⟨wid :: pre, congrArg (List.cons wid) hp, ?_⟩
          intro wid' hm
          rcases List.mem_cons.mp hm with e | hm'
          · subst e
            refine .granted w hw hf' ?_ (by simp) ?_
            · refine (sp.other _ hnotin).trans ?_
              have := tget_tset_self (T := s'.table) (w := grantedW w) (old := w)
                (by simpa [grantedW, hwid] using hw')
              simpa [grantedW, hwid] using this
            · intro t ht
              simp [ht]
          · have hne : wid' ≠ wid := by
              intro e; apply hnotin; rw [← e, hp]; exact List.mem_append_left _ hm'
            have hsame : (s'.setW (grantedW w)).getW wid' = s.getW wid' := by
              rw [getW_eq, getW_eq, setW_table, fr.table]
              exact tget_tset_ne (by simpa [grantedW, hwid] using hne)
            cases hs wid' hm' with
            | stale w' hw' hf' hr' => exact .stale w' (hsame ▸ hw') hf' hr'
            | granted w' hw' hf' hr' hu' hwk' =>
              exact .granted w' (hsame ▸ hw') hf' hr'
                (List.mem_append_right _ hu') (fun t ht => List.mem_append_right _ (hwk' t ht))
      · rw [if_neg hfit]
        exact ⟨[], rfl, by simp⟩

/-- the waiters that `unblock_waiters_from_front` leaves in the queue are untouched -/
theorem unblockFront_rest_untouched (fin : Nat → Bool) (q : List Nat) (s : SemState) (nx : Nat)
    (h : TQ q s.table nx) :
    ∀ wid ∈ (SemState.unblockFront fin q s).1.queue,
      (SemState.unblockFront fin q s).1.getW wid = s.getW wid := by
  induction q generalizing s with
  | nil => simp [SemState.unblockFront]
  | cons wid rest ih =>
    obtain ⟨w, hw, _⟩ := h.tget_of_mem_queue (List.mem_cons_self ..)
    have hwid : w.wid = wid := (tget_some_mem hw).2
    have hnotin : wid ∉ rest := (List.nodup_cons.mp h.nodupQ).1
    rw [SemState.unblockFront]
    rw [getW_eq, hw]
    simp only
    by_cases hf : fin w.taskId = true
    · rw [if_pos hf]
      have h1 : TQ rest (s.setW (staleW w)).table nx := h.pop hw hwid rfl
      intro wid' hm
      have sp := unblockFront_spec fin rest (s.setW (staleW w))
      obtain ⟨pre, hp⟩ := sp.suffix
      have hne : wid' ≠ wid := by
        intro e; apply hnotin; rw [← e, hp]; exact List.mem_append_right _ hm
      refine (ih (s.setW (staleW w)) h1 wid' hm).trans ?_
      exact tget_tset_ne (by simpa [staleW, hwid] using hne)
    · rw [if_neg hf]
      by_cases hfit : w.n ≤ s.avail
      · rw [if_pos hfit]
        cases hpa : s.paAcquire w.n w.clock with
        | none => exact absurd (paAcquire_none hpa) (by omega)
        | some r =>
          obtain ⟨s', c⟩ := r
          simp only
          obtain ⟨fr, _, _⟩ := paAcquire_some hpa
          have hw' : tget s'.table wid = some w := by rw [fr.table]; exact hw
          have h0 : TQ (wid :: rest) s'.table nx := by rw [fr.table]; exact h
          have h1 : TQ rest (s'.setW (grantedW w)).table nx := h0.pop hw' hwid rfl
          intro wid' hm
          have sp := unblockFront_spec fin rest (s'.setW (grantedW w))
          obtain ⟨pre, hp⟩ := sp.suffix
          have hne : wid' ≠ wid := by
            intro e; apply hnotin; rw [← e, hp]; exact List.mem_append_right _ hm
          refine (ih (s'.setW (grantedW w)) h1 wid' hm).trans ?_
          rw [getW_eq, getW_eq, setW_table, fr.table]
          exact tget_tset_ne (by simpa [grantedW, hwid] using hne)
      · rw [if_neg hfit]
        intro wid' _; rfl

end SemLts
end ShuttleModel
