import ShuttleProofs.Lemmas.PlInv
/-
  Every atomic step of the most-general client preserves the permit-accounting invariant.
-/
namespace ShuttleProofs.Pl
open ShuttleModel

macro "pl_side" : tactic =>
  `(tactic| (simp_all [PlPhase.semPermits, PlPhase.upPermits, PlPhase.waitsSem, PlPhase.waitsUp] <;> omega))

theorem inv_init (M n : Nat) : Inv M (PlCfg.init M n) := by
  have hz : ∀ (f : PlPhase → Nat), f .idle = 0 → total f (List.replicate n PlPhase.idle) = 0 := by
    intro f hf
    induction n with
    | zero => rfl
    | succ n ih => simp [total, List.replicate_succ, hf] at ih ⊢
  constructor
  · show M + total _ (List.replicate n PlPhase.idle) = M
    rw [hz _ rfl]; rfl
  · show 1 + total _ (List.replicate n PlPhase.idle) = 1
    rw [hz _ rfl]
  · intro e he; cases he
  · intro e he; cases he
  · exact List.nodup_nil
  · exact List.nodup_nil

theorem inv_step {M : Nat} (hM : 1 ≤ M) (c c' : PlCfg) (t : Nat) (a : PlAct) (h : Inv M c)
    (hs : PlCfg.step M c t a = some c') : Inv M c' := by
  unfold PlCfg.step at hs
  split at hs
  · cases hs
  · rename_i hlt
    have ht : t < c.ph.length := Nat.lt_of_not_ge hlt
    split at hs
    -- read
    · injection hs with hs; subst hs
      apply inv_acqSem c t 1 .hR .wR h ht <;> pl_side
    -- tryRead
    · split at hs
      · rename_i s hty
        injection hs with hs; subst hs
        apply inv_trySem c t .hR 1 s h ht hty <;> pl_side
      · injection hs with hs; subst hs; exact h
    -- unread
    · injection hs with hs; subst hs
      apply inv_relSem c t .idle 1 h ht <;> pl_side
    -- write
    · injection hs with hs; subst hs
      apply inv_acqSem c t M .hW .wW h ht <;> pl_side
    -- tryWrite
    · split at hs
      · rename_i s hty
        injection hs with hs; subst hs
        apply inv_trySem c t .hW M s h ht hty <;> pl_side
      · injection hs with hs; subst hs; exact h
    -- unwrite
    · injection hs with hs; subst hs
      apply inv_relSem c t .idle M h ht <;> pl_side
    -- downgrade
    · injection hs with hs; subst hs
      apply inv_relSem c t .hR (M - 1) h ht <;> pl_side
    -- upread
    · injection hs with hs; subst hs
      apply inv_acqUp c t .gU1 .wU1 h ht <;> pl_side
    -- gU1 cont
    · injection hs with hs; subst hs
      apply inv_acqSem c t 1 .hU .wU2 h ht <;> pl_side
    -- tryUpread
    · split at hs
      · rename_i s hty
        injection hs with hs; subst hs
        apply inv_tryUp c t .tU1 s h ht hty <;> pl_side
      · injection hs with hs; subst hs; exact h
    -- tU1 cont
    · split at hs
      · rename_i s hty
        injection hs with hs; subst hs
        apply inv_trySem c t .hU 1 s h ht hty <;> pl_side
      · injection hs with hs; subst hs
        apply inv_setPh c t .tU2 h ht <;> pl_side
    -- tU2 cont
    · injection hs with hs; subst hs
      apply inv_relUp c t .idle h ht <;> pl_side
    -- unupread
    · injection hs with hs; subst hs
      apply inv_relSem c t .unU 1 h ht <;> pl_side
    -- unU cont
    · injection hs with hs; subst hs
      apply inv_relUp c t .idle h ht <;> pl_side
    -- upgrade
    · injection hs with hs; subst hs
      apply inv_acqSem c t M .bad .upg1 h ht <;> pl_side
    -- upg1 cont
    · injection hs with hs; subst hs
      apply inv_relSem c t .upg2 1 h ht <;> pl_side
    -- upg3 cont
    · injection hs with hs; subst hs
      apply inv_relUp c t .hW h ht <;> pl_side
    -- tryUpgrade
    · split at hs
      · rename_i s hty
        injection hs with hs; subst hs
        apply inv_trySem c t .tupg (M - 1) s h ht hty <;> pl_side
      · injection hs with hs; subst hs; exact h
    -- tupg cont
    · injection hs with hs; subst hs
      apply inv_relUp c t .hW h ht <;> pl_side
    -- toUpRead
    · injection hs with hs; subst hs
      apply inv_relUp c t .hR h ht <;> pl_side
    -- downUp
    · injection hs with hs; subst hs
      apply inv_acqUp c t .du2 .du1 h ht <;> pl_side
    -- du2 cont
    · injection hs with hs; subst hs
      apply inv_relSem c t .hU (M - 1) h ht <;> pl_side
    -- not enabled
    · cases hs

/-- the configurations a most-general client can reach from the initial lock with `n` tasks -/
def Reachable (M n : Nat) (c : PlCfg) : Prop := ∃ acts, PlCfg.run M (PlCfg.init M n) acts = some c

theorem inv_run {M : Nat} (hM : 1 ≤ M) (c c' : PlCfg) (acts : List (Nat × PlAct)) (h : Inv M c)
    (hr : PlCfg.run M c acts = some c') : Inv M c' := by
  induction acts generalizing c with
  | nil => simp [PlCfg.run] at hr; subst hr; exact h
  | cons e acts ih =>
    obtain ⟨t, a⟩ := e
    simp only [PlCfg.run] at hr
    split at hr
    · rename_i c1 hs
      exact ih c1 (inv_step hM c c1 t a h hs) hr
    · cases hr

theorem inv_reachable {M n : Nat} (hM : 1 ≤ M) (c : PlCfg) (h : Reachable M n c) : Inv M c := by
  obtain ⟨acts, hr⟩ := h
  exact inv_run hM _ c acts (inv_init M n) hr

end ShuttleProofs.Pl
