/-
  Helper lemmas for C20 (deterministic map part): the reference sequential map (`RefMap`, an association list
  with functional update: `insert` = cons in front of the list filtered of the key) and the simulation between
  the std-map model (`ShuttleModel.DetMap.stdStep`, in-place replace / append / erase-first) and the reference.
-/
import ShuttleModel.Wrap.DetMap

namespace ShuttleProofs.C20Det
open ShuttleModel.DetMap

variable {K V : Type} [DecidableEq K]

/-! ### the reference map -/

def neKey (k : K) : K × V → Bool := fun e => decide (e.1 ≠ k)

def refInsert (k : K) (v : V) (r : Entries K V) : Option V × Entries K V :=
  (lookup k r, (k, v) :: r.filter (neKey k))

def refRemove (k : K) (r : Entries K V) : Option V × Entries K V :=
  (lookup k r, r.filter (neKey k))

def refExtend (kvs : List (K × V)) (r : Entries K V) : Entries K V :=
  kvs.foldl (fun acc e => (refInsert e.1 e.2 acc).2) r

def refStep (op : Op K V) (r : Entries K V) : Res V × Entries K V :=
  match op with
  | .insert k v => let x := refInsert k v r; (.optVal x.1, x.2)
  | .remove k => let x := refRemove k r; (.optVal x.1, x.2)
  | .get k => (.optVal (lookup k r), r)
  | .contains k => (.bool (lookup k r).isSome, r)
  | .len => (.nat r.length, r)
  | .isEmpty => (.bool r.isEmpty, r)
  | .clear => (.unit, [])
  | .retain p => (.unit, r.filter (fun e => p e.1 e.2))
  | .extend kvs => (.unit, refExtend kvs r)

def refRun : List (Op K V) → Entries K V → List (Res V) × Entries K V
  | [], r => ([], r)
  | op :: ops, r =>
      let x := refStep op r
      let rest := refRun ops x.2
      (x.1 :: rest.1, rest.2)

/-! ### representation invariant and simulation -/

def NoDupKeys (m : Entries K V) : Prop := (m.map Prod.fst).Nodup

/-- same entries up to order, no duplicate keys -/
def Sim (m r : Entries K V) : Prop := m.Perm r ∧ NoDupKeys m

theorem lookup_eq_none_iff (k : K) (m : Entries K V) : lookup k m = none ↔ ∀ e ∈ m, e.1 ≠ k := by
  induction m with
  | nil => simp [lookup]
  | cons a m ih =>
    obtain ⟨k', v'⟩ := a
    by_cases h : k' = k <;> simp [lookup, h, ih]

theorem lookup_eq_some_iff {m : Entries K V} (nd : NoDupKeys m) (k : K) (v : V) :
    lookup k m = some v ↔ (k, v) ∈ m := by
  induction m with
  | nil => simp [lookup]
  | cons a m ih =>
    obtain ⟨k', v'⟩ := a
    have nd' : (k' ∉ m.map Prod.fst) ∧ NoDupKeys m := by
      simpa [NoDupKeys] using nd
    by_cases h : k' = k
    · subst h
      have : ∀ w, (k', w) ∉ m := fun w hw => nd'.1 (List.mem_map.mpr ⟨(k', w), hw, rfl⟩)
      simp [lookup, this, eq_comm]
    · have h' : ¬ k = k' := fun e => h e.symm
      simp [lookup, h, h', ih nd'.2]

omit [DecidableEq K] in
theorem noDup_perm {m r : Entries K V} (h : m.Perm r) (nd : NoDupKeys m) : NoDupKeys r :=
  ((h.map Prod.fst).nodup_iff).mp nd

theorem lookup_perm {m r : Entries K V} (h : m.Perm r) (nd : NoDupKeys m) (k : K) :
    lookup k m = lookup k r := by
  have ndr := noDup_perm h nd
  cases hm : lookup k m with
  | none =>
    have := (lookup_eq_none_iff k m).mp hm
    exact ((lookup_eq_none_iff k r).mpr (fun e he => this e (h.mem_iff.mpr he))).symm
  | some v =>
    have := (lookup_eq_some_iff nd k v).mp hm
    exact ((lookup_eq_some_iff ndr k v).mpr (h.mem_iff.mp this)).symm

omit [DecidableEq K] in
theorem noDup_sublist {m m' : Entries K V} (h : m'.Sublist m) (nd : NoDupKeys m) : NoDupKeys m' :=
  List.Nodup.sublist (h.map Prod.fst) nd

theorem filter_neKey_of_none {k : K} {m : Entries K V} (h : lookup k m = none) : m.filter (neKey k) = m := by
  rw [List.filter_eq_self]
  intro e he
  simpa [neKey] using (lookup_eq_none_iff k m).mp h e he

theorem eraseKey_eq_filter {m : Entries K V} (nd : NoDupKeys m) (k : K) :
    eraseKey k m = m.filter (neKey k) := by
  induction m with
  | nil => simp [eraseKey]
  | cons a m ih =>
    obtain ⟨k', v'⟩ := a
    have nd' : (k' ∉ m.map Prod.fst) ∧ NoDupKeys m := by
      simpa [NoDupKeys] using nd
    by_cases h : k' = k
    · subst h
      have hn : lookup k' m = none := by
        rw [lookup_eq_none_iff]
        intro e he heq
        exact nd'.1 (List.mem_map.mpr ⟨e, he, heq⟩)
      simp [eraseKey, neKey]
      exact (filter_neKey_of_none hn).symm
    · simp [eraseKey, neKey, h]
      exact ih nd'.2

theorem replaceVal_keys (k : K) (v : V) (m : Entries K V) :
    (replaceVal k v m).map Prod.fst = m.map Prod.fst := by
  induction m with
  | nil => simp [replaceVal]
  | cons a m ih =>
    obtain ⟨k', v'⟩ := a
    by_cases h : k' = k <;> simp [replaceVal, h, ih]

theorem replaceVal_perm {m : Entries K V} (k : K) (v old : V) (h : lookup k m = some old) :
    (replaceVal k v m).Perm ((k, v) :: eraseKey k m) := by
  induction m with
  | nil => simp [lookup] at h
  | cons a m ih =>
    obtain ⟨k', v'⟩ := a
    by_cases hk : k' = k
    · subst hk
      simp [replaceVal, eraseKey]
    · simp only [lookup, hk, if_false] at h
      simp only [replaceVal, eraseKey, hk, if_false]
      exact ((ih h).cons (k', v')).trans (List.Perm.swap _ _ _)

theorem noDup_append_single {m : Entries K V} {k : K} (v : V) (nd : NoDupKeys m) (h : lookup k m = none) :
    NoDupKeys (m ++ [(k, v)]) := by
  have hk : k ∉ m.map Prod.fst := by
    intro hmem
    obtain ⟨e, he, heq⟩ := List.mem_map.mp hmem
    exact (lookup_eq_none_iff k m).mp h e he heq
  have hp : (m ++ [(k, v)]).Perm ((k, v) :: m) := List.perm_append_singleton _ _
  have : NoDupKeys ((k, v) :: m) := by
    simpa [NoDupKeys] using And.intro hk nd
  exact noDup_perm hp.symm this

/-- `insert` simulates -/
theorem sim_insert {m r : Entries K V} (S : Sim m r) (k : K) (v : V) :
    (ShuttleModel.DetMap.insert k v m).1 = (refInsert k v r).1 ∧
      Sim (ShuttleModel.DetMap.insert k v m).2 (refInsert k v r).2 := by
  obtain ⟨hp, nd⟩ := S
  have hl := lookup_perm hp nd k
  unfold ShuttleModel.DetMap.insert refInsert
  cases hm : lookup k m with
  | some old =>
    refine ⟨by simp [← hl, hm], ?_, ?_⟩
    · have h1 := replaceVal_perm k v old hm
      rw [eraseKey_eq_filter nd] at h1
      exact h1.trans ((hp.filter _).cons _)
    · show NoDupKeys (replaceVal k v m)
      unfold NoDupKeys; rw [replaceVal_keys]; exact nd
  | none =>
    refine ⟨by simp [← hl, hm], ?_, noDup_append_single v nd hm⟩
    have h1 : (m ++ [(k, v)]).Perm ((k, v) :: m) := List.perm_append_singleton _ _
    have h2 : (m.filter (neKey k)).Perm (r.filter (neKey k)) := hp.filter _
    rw [filter_neKey_of_none hm] at h2
    exact h1.trans (h2.cons _)

theorem sim_remove {m r : Entries K V} (S : Sim m r) (k : K) :
    (remove k m).1 = (refRemove k r).1 ∧ Sim (remove k m).2 (refRemove k r).2 := by
  obtain ⟨hp, nd⟩ := S
  refine ⟨lookup_perm hp nd k, ?_, ?_⟩
  · show (eraseKey k m).Perm (r.filter (neKey k))
    rw [eraseKey_eq_filter nd]; exact hp.filter _
  · show NoDupKeys (eraseKey k m)
    rw [eraseKey_eq_filter nd]; exact noDup_sublist List.filter_sublist nd

theorem sim_extend {m r : Entries K V} (S : Sim m r) (kvs : List (K × V)) :
    Sim (extend kvs m) (refExtend kvs r) := by
  unfold extend refExtend
  induction kvs generalizing m r with
  | nil => exact S
  | cons e kvs ih => exact ih (sim_insert S e.1 e.2).2

/-- every operation simulates: same result, related states -/
theorem sim_step {m r : Entries K V} (S : Sim m r) (op : Op K V) :
    (stdStep op m).1 = (refStep op r).1 ∧ Sim (stdStep op m).2 (refStep op r).2 := by
  have hp := S.1
  have nd := S.2
  cases op with
  | insert k v =>
    have := sim_insert S k v
    exact ⟨by simp [stdStep, refStep, this.1], this.2⟩
  | remove k =>
    have := sim_remove S k
    exact ⟨by simp [stdStep, refStep, this.1], this.2⟩
  | get k => exact ⟨by simp [stdStep, refStep, lookup_perm hp nd k], S⟩
  | contains k => exact ⟨by simp [stdStep, refStep, lookup_perm hp nd k], S⟩
  | len => exact ⟨by simp [stdStep, refStep, hp.length_eq], S⟩
  | isEmpty =>
    refine ⟨?_, S⟩
    have := hp.length_eq
    cases m <;> cases r <;> simp_all [stdStep, refStep]
  | clear => exact ⟨rfl, List.Perm.refl _, by simp [NoDupKeys, stdStep]⟩
  | retain p =>
    exact ⟨rfl, hp.filter _, noDup_sublist List.filter_sublist nd⟩
  | extend kvs => exact ⟨rfl, sim_extend S kvs⟩

theorem sim_run {m r : Entries K V} (S : Sim m r) (ops : List (Op K V)) (d : DetMap K V)
    (hd : d.entries = m) :
    (DetMap.run ops d).1 = (refRun ops r).1 ∧ Sim (DetMap.run ops d).2.entries (refRun ops r).2 := by
  induction ops generalizing m r d with
  | nil => subst hd; exact ⟨rfl, S⟩
  | cons op ops ih =>
    subst hd
    have hs := sim_step S op
    have := ih hs.2 (DetMap.step op d).2 rfl
    refine ⟨?_, this.2⟩
    simp only [DetMap.run, refRun]
    rw [this.1]
    simp [DetMap.step, hs.1]

/-! ### set operators -/

theorem hasKey_iff (k : K) (m : Entries K V) : (lookup k m).isSome = true ↔ k ∈ m.map Prod.fst := by
  cases h : lookup k m with
  | none =>
    have := (lookup_eq_none_iff k m).mp h
    simp only [Option.isSome_none, Bool.false_eq_true, false_iff]
    intro hm
    obtain ⟨e, he, heq⟩ := List.mem_map.mp hm
    exact this e he heq
  | some v =>
    simp only [Option.isSome_some, true_iff]
    false_or_by_contra
    rename_i hn
    have : lookup k m = none := (lookup_eq_none_iff k m).mpr (fun e he heq => hn (List.mem_map.mpr ⟨e, he, heq⟩))
    rw [this] at h; cases h

theorem keys_insert (k : K) (v : V) (m : Entries K V) (k' : K) :
    k' ∈ (ShuttleModel.DetMap.insert k v m).2.map Prod.fst ↔ k' = k ∨ k' ∈ m.map Prod.fst := by
  unfold ShuttleModel.DetMap.insert
  cases h : lookup k m with
  | none => simp; exact Or.comm
  | some old =>
    have hk : k ∈ m.map Prod.fst := (hasKey_iff k m).mp (by simp [h])
    simp only [replaceVal_keys]
    constructor
    · exact Or.inr
    · rintro (rfl | h') <;> assumption

theorem keys_extend (kvs : List (K × V)) (m : Entries K V) (k' : K) :
    k' ∈ (extend kvs m).map Prod.fst ↔ k' ∈ kvs.map Prod.fst ∨ k' ∈ m.map Prod.fst := by
  unfold extend
  induction kvs generalizing m with
  | nil => simp
  | cons e kvs ih =>
    simp only [List.foldl_cons, List.map_cons, List.mem_cons]
    rw [ih, keys_insert]
    grind

/-- membership in a set collected from a list of keys -/
theorem contains_ofKeys (ks : List K) (k : K) : (DetSet.ofKeys ks).contains k = true ↔ k ∈ ks := by
  unfold DetSet.contains DetSet.ofKeys DetMap.fromList DetMap.step stdStep
  simp only [DetMap.new]
  rw [hasKey_iff, keys_extend]
  simp

theorem mem_diffElems (a b : DetSet K) (k : K) :
    k ∈ DetSet.diffElems a b ↔ a.contains k = true ∧ b.contains k = false := by
  unfold DetSet.diffElems
  simp only [List.mem_map, List.mem_filter]
  constructor
  · rintro ⟨e, ⟨he, hb⟩, rfl⟩
    refine ⟨?_, by simpa using hb⟩
    unfold DetSet.contains; rw [hasKey_iff]; exact List.mem_map.mpr ⟨e, he, rfl⟩
  · rintro ⟨ha, hb⟩
    unfold DetSet.contains at ha; rw [hasKey_iff] at ha
    obtain ⟨e, he, rfl⟩ := List.mem_map.mp ha
    exact ⟨e, ⟨he, by simp [hb]⟩, rfl⟩

theorem mem_keys_iff_contains (a : DetSet K) (k : K) :
    k ∈ a.entries.map Prod.fst ↔ a.contains k = true := by
  unfold DetSet.contains; rw [hasKey_iff]

theorem mem_filter_contains (a b : DetSet K) (k : K) :
    k ∈ (a.entries.filter (fun e => b.contains e.1)).map Prod.fst ↔
      a.contains k = true ∧ b.contains k = true := by
  rw [← mem_keys_iff_contains a k]
  simp only [List.mem_map, List.mem_filter]
  constructor
  · rintro ⟨e, ⟨he, hb⟩, rfl⟩; exact ⟨⟨e, he, rfl⟩, hb⟩
  · rintro ⟨⟨e, he, rfl⟩, hb⟩; exact ⟨e, ⟨he, hb⟩, rfl⟩

end ShuttleProofs.C20Det
