import ShuttleModel.Serialize

namespace ShuttleModel

/-- The lines of a text: maximal `'\n'`-free segments (like `str.split('\n')`; the empty text has
    one empty line).  Specification-level helper used to state `wrap_width`. -/
def linesOf : List Char → List (List Char)
  | [] => [[]]
  | c :: cs =>
    if c = '\n' then [] :: linesOf cs
    else
      match linesOf cs with
      | [] => [[c]]
      | l :: ls => (c :: l) :: ls

theorem linesOf_no_newline (a : List Char) (h : '\n' ∉ a) : linesOf a = [a] := by
  induction a with
  | nil => rfl
  | cons c a ih =>
    simp only [List.mem_cons, not_or] at h
    have hc : c ≠ '\n' := fun e => h.1 e.symm
    simp [linesOf, hc, ih h.2]

theorem linesOf_append_newline (a b : List Char) (h : '\n' ∉ a) :
    linesOf (a ++ '\n' :: b) = a :: linesOf b := by
  induction a with
  | nil => simp [linesOf]
  | cons c a ih =>
    simp only [List.mem_cons, not_or] at h
    have hc : c ≠ '\n' := fun e => h.1 e.symm
    simp [linesOf, hc, ih h.2]

theorem linesOf_joinLines : ∀ (cs : List (List Char)), cs ≠ [] → (∀ c ∈ cs, '\n' ∉ c) →
    linesOf (joinLines cs) = cs
  | [], h, _ => absurd rfl h
  | [c], _, hc => by
    simp only [joinLines]
    exact linesOf_no_newline c (hc c (by simp))
  | c :: c' :: cs, _, hc => by
    simp only [joinLines]
    rw [linesOf_append_newline c _ (hc c (by simp)),
      linesOf_joinLines (c' :: cs) (by simp) (fun x hx => hc x (by simp [hx]))]

theorem filter_joinLines (p : Char → Bool) (hp : p '\n' = false) : ∀ (cs : List (List Char)),
    (joinLines cs).filter p = cs.flatten.filter p
  | [] => rfl
  | [c] => by simp [joinLines]
  | c :: c' :: cs => by
    simp only [joinLines, List.filter_append, List.flatten_cons]
    rw [List.filter_cons_of_neg (by simp [hp]), filter_joinLines p hp (c' :: cs)]
    simp

/-! ### `chunks` -/

theorem chunksAux_flatten (n : Nat) (hn : 0 < n) : ∀ (fuel : Nat) (l : List Char),
    l.length ≤ fuel → (chunksAux n fuel l).flatten = l := by
  intro fuel
  induction fuel with
  | zero => intro l h; have : l = [] := by cases l <;> simp_all
            subst this; rfl
  | succ fuel ih =>
    intro l h
    cases l with
    | nil => simp [chunksAux]
    | cons c l =>
      simp only [chunksAux, List.isEmpty_cons, Bool.false_eq_true, if_false, List.flatten_cons]
      rw [ih _ (by simp at h ⊢; omega), List.take_append_drop]

theorem chunksAux_spec (n : Nat) (hn : 0 < n) : ∀ (fuel : Nat) (l : List Char),
    ∀ c ∈ chunksAux n fuel l, c.length ≤ n ∧ c ≠ [] ∧ ∀ x ∈ c, x ∈ l := by
  intro fuel
  induction fuel with
  | zero => intro l c hc; simp [chunksAux] at hc
  | succ fuel ih =>
    intro l c hc
    cases l with
    | nil => simp [chunksAux] at hc
    | cons a l =>
      simp only [chunksAux, List.isEmpty_cons, Bool.false_eq_true, if_false, List.mem_cons] at hc
      rcases hc with rfl | hc
      · refine ⟨by simp; omega, ?_, fun x hx => List.mem_of_mem_take hx⟩
        cases n with
        | zero => omega
        | succ n => simp
      · obtain ⟨h1, h2, h3⟩ := ih _ c hc
        exact ⟨h1, h2, fun x hx => List.mem_of_mem_drop (h3 x hx)⟩

theorem chunks_flatten (n : Nat) (hn : 0 < n) (l : List Char) : (chunks n l).flatten = l :=
  chunksAux_flatten n hn _ l (Nat.le_refl _)

theorem chunks_ne_nil (n : Nat) (l : List Char) (hl : l ≠ []) : chunks n l ≠ [] := by
  cases l with
  | nil => exact absurd rfl hl
  | cons a l => simp [chunks, chunksAux]

end ShuttleModel
