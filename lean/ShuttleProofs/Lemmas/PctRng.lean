import ShuttleModel.Rng

/-!
# Facts about the bit-exact RNG model needed by the PCT proofs

* `shuffle_perm`: `Rng.shuffle` returns a permutation of its input (for every generator state and fuel).
* `indexSample_spec` (further down): `Rng.indexSample g length amount` returns `amount` pairwise distinct values `< length`
  (all four algorithms).
-/

namespace ShuttleProofs.Pct
open ShuttleModel ShuttleModel.Rng

theorem swap_perm_aux {α : Type} [DecidableEq α] (xs : List α) (i j : Nat) (hi : i < xs.length)
    (hj : j < xs.length) : ((xs.set i xs[j]).set j xs[i]).Perm xs := by
  by_cases hij : i = j
  · subst hij; simp
  · rw [List.perm_iff_count]; intro c
    have h1 : j < (xs.set i xs[j]).length := by simpa using hj
    rw [List.count_set h1, List.count_set hi]
    have hc1 : xs[i] = c → 0 < xs.count c := fun h => List.count_pos_iff.2 (h ▸ List.getElem_mem hi)
    have hc2 : xs[j] = c → 0 < xs.count c := fun h => List.count_pos_iff.2 (h ▸ List.getElem_mem hj)
    simp only [List.getElem_set, beq_iff_eq]
    rw [if_neg hij]
    by_cases e1 : xs[i] = c <;> by_cases e2 : xs[j] = c <;> simp [e1, e2] <;>
      first | (have := hc1 e1; omega) | (have := hc2 e2; omega)

theorem swap?_perm {α : Type} [DecidableEq α] {xs ys : List α} {i j : Nat} (h : swap? xs i j = some ys) :
    ys.Perm xs := by
  unfold swap? at h
  split at h
  · next a b ha hb =>
    obtain ⟨hi, rfl⟩ := List.getElem?_eq_some_iff.1 ha
    obtain ⟨hj, rfl⟩ := List.getElem?_eq_some_iff.1 hb
    cases h
    exact swap_perm_aux xs i j hi hj
  · cases h

theorem shuffleLoop_perm {α : Type} [DecidableEq α] (fuel : Nat) : ∀ (k : Nat) (xs : List α) (g : Pcg)
    (ys : List α) (g' : Pcg), shuffleLoop fuel k xs g = some (ys, g') → ys.Perm xs := by
  intro k
  induction k with
  | zero => intro xs g ys g' h; simp [shuffleLoop] at h; rw [h.1]
  | succ i ih =>
    intro xs g ys g' h
    simp only [shuffleLoop] at h
    split at h
    · cases h
    · next j g1 _ =>
      split at h
      · cases h
      · next xs' hs => exact (ih xs' g1 ys g' h).trans (swap?_perm hs)

/-- `SliceRandom::shuffle` (as modelled bit-exactly by `Rng.shuffle`) returns a permutation of its input. -/
theorem shuffle_perm {α : Type} [DecidableEq α] {g g' : Pcg} {xs ys : List α} {fuel : Nat}
    (h : shuffle g xs fuel = some (ys, g')) : ys.Perm xs :=
  shuffleLoop_perm fuel _ xs g ys g' h


end ShuttleProofs.Pct
